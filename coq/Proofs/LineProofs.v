(* Proofs for C07 (Props/C07.v): lexing is local to blocks of complete lines
   ([lex_line_local]); the parser of a single file always returns ([parse_total]) and drops
   no token silently ([tokens_accounted]).  Builds on the lexer invariants of LexProofs. *)
From RV.Model Require Import Base I32 Imm Lexer Isa Parser Reader.
From RV.Spec Require Import PosSpec LineSpec.
From RV.Proofs Require Import LexProofs ImmProofs.
From Coq Require Import Lia ZifyN ZifyNat ZifyBool Sorted.
Open Scope N_scope.

(* ================================================================================== *)
(* Part 1a: the lexer commutes with shifting the cursor by whole lines.                 *)

Section ShiftLemmas.
  Variables (dl dr : N).
  Definition shc (p : cur) : cur := mkcur (cpos p + dr) (crow p + dl) (ccol p).
  Notation shp := (sh_pos dl dr).
  Notation shi := (sh_item dl dr).
  Notation sht := (sh_tok dl dr).

  Lemma adv_sh c p : adv c (shc p) = shc (adv c p).
  Proof. unfold adv, shc. destruct (N.eqb c c_nl); cbn [cpos crow ccol]; f_equal; lia. Qed.

  Lemma get_pos_sh p : get_pos (shc p) = shp (get_pos p).
  Proof. reflexivity. Qed.

  Lemma consume_sh s p : consume s (shc p) = let '(s', p') := consume s p in (s', shc p').
  Proof. destruct s; cbn [consume]; [reflexivity|]. rewrite adv_sh. reflexivity. Qed.

  Lemma skip_ws_sh : forall s p, skip_ws s (shc p) = let '(s', p') := skip_ws s p in (s', shc p').
  Proof.
    induction s as [|c r IH]; intros p; cbn [skip_ws]; [reflexivity|].
    destruct (is_ws c); [|reflexivity]. rewrite adv_sh. apply IH.
  Qed.

  Lemma skip_line_sh : forall s p, skip_line s (shc p) = let '(s', p') := skip_line s p in (s', shc p').
  Proof.
    induction s as [|c r IH]; intros p; cbn [skip_line]; [reflexivity|].
    destruct (N.eqb c c_nl); [reflexivity|]. rewrite adv_sh. apply IH.
  Qed.

  Lemma scan_sh stop : forall s p acc,
    scan stop s (shc p) acc = let '(a, s', p') := scan stop s p acc in (a, s', shc p').
  Proof.
    induction s as [|c r IH]; intros p acc; cbn [scan]; [reflexivity|].
    destruct (stop (hd_opt r)); [reflexivity|]. rewrite adv_sh. apply IH.
  Qed.

  Definition sh_sp (r : res (str * cur)) : res (str * cur) :=
    match r with Ok (s, p) => Ok (s, shc p) | Panic n => Panic n | OutOfFuel => OutOfFuel end.

  Lemma skip_dots_sh : forall f s p, skip_dots f s (shc p) = sh_sp (skip_dots f s p).
  Proof.
    induction f as [|f IH]; intros s p; cbn [skip_dots]; [reflexivity|].
    destruct (lone_dot s); [|reflexivity].
    rewrite consume_sh. destruct (consume s p) as [s1 p1].
    rewrite skip_ws_sh. destruct (skip_ws s1 p1) as [s2 p2]. apply IH.
  Qed.

  Definition sh_esc (o : option (char * str * cur)) : option (char * str * cur) :=
    match o with Some (c, s, p) => Some (c, s, shc p) | None => None end.

  Lemma unicode_code_sh s p : unicode_code s (shc p) = sh_esc (unicode_code s p).
  Proof.
    unfold unicode_code.
    destruct s as [|b [|u [|a1 [|a2 [|a3 [|a4 r]]]]]]; try reflexivity.
    destruct (hexval a1); [|reflexivity]. destruct (hexval a2); [|reflexivity].
    destruct (hexval a3); [|reflexivity]. destruct (hexval a4); [|reflexivity].
    destruct (in_range 55296 57343 _); [reflexivity|].
    cbn [consume]. rewrite !adv_sh. reflexivity.
  Qed.

  Lemma escape_code_sh s p : escape_code s (shc p) = sh_esc (escape_code s p).
  Proof.
    unfold escape_code. destruct s as [|b [|c r]]; try reflexivity.
    cbn [consume]. rewrite adv_sh.
    repeat match goal with
    | |- (if N.eqb c 117 then _ else _) = _ => fail 1
    | |- (if ?X then _ else _) = _ => destruct X; [reflexivity|]
    end.
    destruct (N.eqb c 117); [|reflexivity].
    rewrite unicode_code_sh. destruct (unicode_code (b :: c :: r) p) as [[[rr s1] p1]|]; [|reflexivity].
    cbn [sh_esc]. rewrite consume_sh. destruct (consume s1 p1). reflexivity.
  Qed.

  Definition sh_acc (r : res (str * str * cur + position * strerr * str * cur)) :=
    match r with
    | Ok (inl (t, s, p)) => Ok (inl (t, s, shc p))
    | Ok (inr (e, k, s, p)) => Ok (inr (shp e, k, s, shc p))
    | Panic n => Panic n
    | OutOfFuel => OutOfFuel
    end.

  Lemma acc_string_sh : forall f s p acc, acc_string f s (shc p) acc = sh_acc (acc_string f s p acc).
  Proof.
    induction f as [|f IH]; intros s p acc; cbn [acc_string]; [reflexivity|].
    destruct s as [|c t]; [reflexivity|].
    destruct (N.eqb c c_dquote); [reflexivity|].
    destruct (N.eqb c c_nl); [reflexivity|].
    destruct (N.eqb c c_bslash).
    - rewrite escape_code_sh. destruct (escape_code (c :: t) p) as [[[ec s1] p1]|]; [|reflexivity].
      cbn [sh_esc]. rewrite consume_sh. destruct (consume s1 p1). apply IH.
    - cbn [consume]. rewrite adv_sh. apply IH.
  Qed.

  Definition shn (r : rnext) : rnext :=
    match r with
    | Ok (Some (it, s, p)) => Ok (Some (shi it, s, shc p))
    | Ok None => Ok None
    | Panic n => Panic n
    | OutOfFuel => OutOfFuel
    end.

  Lemma eqb_add_r a b d : N.eqb (a + d) (b + d) = N.eqb a b.
  Proof. destruct (N.eqb a b) eqn:E; lia. Qed.

  Lemma fin_sh chk t s p : fin chk (sht t) s (shc p) = shn (fin chk t s p).
  Proof.
    unfold fin, check_tok. destruct chk; [|reflexivity].
    cbn [sh_tok trange sh_range rstart rend sh_pos line column].
    rewrite eqb_add_r.
    destruct (negb (N.eqb (line (rstart (trange t))) (line (rend (trange t))))); [reflexivity|].
    destruct (negb (N.leb (column (rstart (trange t))) (column (rend (trange t))))); reflexivity.
  Qed.

  Lemma b_one_sh chk file ty s p : b_one chk file ty s (shc p) = shn (b_one chk file ty s p).
  Proof.
    unfold b_one. rewrite consume_sh. destruct (consume s p) as [s' p']. apply (fin_sh chk (mktok ty (get_range p) file)).
  Qed.

  Lemma b_dot_sh rec rec' chk file s p :
    (forall s p, rec' s (shc p) = shn (rec s p)) ->
    b_dot rec' chk file s (shc p) = shn (b_dot rec chk file s p).
  Proof.
    intros Hrec. unfold b_dot. rewrite scan_sh.
    destruct (scan stop_directive s p []) as [[acc s'] p'].
    rewrite consume_sh. destruct (consume s' p') as [s'' p''].
    destruct (str_eqb (rev acc) [c_dot]); [apply Hrec|].
    apply (fin_sh chk (mktok (TDirective (rev acc)) (mkrange (get_pos p) (get_pos p')) file)).
  Qed.

  Lemma b_hash_sh chk file s p : b_hash chk file s (shc p) = shn (b_hash chk file s p).
  Proof.
    unfold b_hash. rewrite scan_sh.
    destruct (scan stop_comment s p []) as [[acc s'] p'].
    rewrite consume_sh. destruct (consume s' p') as [s'' p''].
    apply (fin_sh chk (mktok (TComment _) (mkrange (get_pos p) (get_pos p')) file)).
  Qed.

  Lemma b_str_sh chk file s p : b_str chk file s (shc p) = shn (b_str chk file s p).
  Proof.
    unfold b_str. rewrite consume_sh. destruct (consume s p) as [s1 p1].
    rewrite acc_string_sh.
    destruct (acc_string (S (length s1)) s1 p1 []) as [[[[text s2] p2]|[[[epos k] s2] p2]]| |];
      cbn [sh_acc bind]; try reflexivity.
    - rewrite consume_sh. destruct (consume s2 p2) as [s3 p3].
      apply (fin_sh chk (mktok (TString text) (mkrange (get_pos p) (get_pos p2)) file)).
    - rewrite skip_line_sh. destruct (skip_line s2 p2) as [s3 p3]. reflexivity.
  Qed.

  Lemma chr_cont_sh file st cv s p :
    chr_cont file (shp st) cv s (shc p) = shn (chr_cont file st cv s p).
  Proof.
    unfold chr_cont. rewrite consume_sh. destruct (consume s p) as [s3 p3].
    destruct s3 as [|q r]; [reflexivity|].
    destruct (N.eqb q c_squote); [|reflexivity].
    rewrite consume_sh. destruct (consume (q :: r) p3). reflexivity.
  Qed.

  Lemma b_chr_sh file s p : b_chr file s (shc p) = shn (b_chr file s p).
  Proof.
    unfold b_chr. rewrite consume_sh. destruct (consume s p) as [s1 p1].
    destruct s1 as [|c1 r1]; [reflexivity|].
    destruct (N.eqb c1 c_bslash).
    - rewrite escape_code_sh. destruct (escape_code (c1 :: r1) p1) as [[[ec s2] p2]|]; cbn [sh_esc].
      + apply (chr_cont_sh file (get_pos p)).
      + rewrite skip_line_sh. destruct (skip_line (c1 :: r1) p1). reflexivity.
    - destruct (N.eqb c1 c_nl); [reflexivity|]. apply (chr_cont_sh file (get_pos p)).
  Qed.

  Lemma b_sym_sh chk file c s p : b_sym chk file c s (shc p) = shn (b_sym chk file c s p).
  Proof.
    unfold b_sym. destruct (negb (is_symbol_item c)).
    - rewrite consume_sh. destruct (consume s p). reflexivity.
    - rewrite scan_sh. destruct (scan stop_symbol s p []) as [[acc s'] p'].
      assert (Hsym : (let en := get_pos (shc p') in
                      let '(s1, p1) := consume s' (shc p') in
                      fin chk (mktok (TSymbol (rev acc)) (mkrange (get_pos (shc p)) en) file) s1 p1) =
                     shn (let en := get_pos p' in
                          let '(s1, p1) := consume s' p' in
                          fin chk (mktok (TSymbol (rev acc)) (mkrange (get_pos p) en) file) s1 p1)).
      { cbv zeta. rewrite consume_sh. destruct (consume s' p') as [s1 p1].
        apply (fin_sh chk (mktok (TSymbol (rev acc)) (mkrange (get_pos p) (get_pos p')) file)). }
      destruct s' as [|x [|colon r]]; try exact Hsym.
      destruct (N.eqb colon c_colon); [|exact Hsym].
      cbn [consume]. rewrite !adv_sh. reflexivity.
  Qed.

  Lemma body_sh rec rec' chk file s p :
    (forall s p, rec' s (shc p) = shn (rec s p)) ->
    body rec' chk file s (shc p) = shn (body rec chk file s p).
  Proof.
    intros Hrec. unfold body. destruct s as [|c r]; [reflexivity|].
    destruct (N.eqb c c_nl); [apply b_one_sh|].
    destruct (N.eqb c c_lparen); [apply b_one_sh|].
    destruct (N.eqb c c_rparen); [apply b_one_sh|].
    destruct (N.eqb c c_dot); [apply b_dot_sh; exact Hrec|].
    destruct (N.eqb c c_hash); [apply b_hash_sh|].
    destruct (N.eqb c c_dquote); [apply b_str_sh|].
    destruct (N.eqb c c_squote); [apply b_chr_sh|].
    apply b_sym_sh.
  Qed.

  Lemma next_sh : forall f chk file s p, next f chk file s (shc p) = shn (next f chk file s p).
  Proof.
    induction f as [|f IH]; intros chk file s p; [reflexivity|].
    rewrite !next_unfold. rewrite skip_ws_sh. destruct (skip_ws s p) as [s1 p1].
    rewrite skip_dots_sh. destruct (skip_dots (S (length s1)) s1 p1) as [[s2 p2]| |]; cbn [sh_sp bind]; try reflexivity.
    apply body_sh. intros s' p'. apply IH.
  Qed.

  Lemma lex_loop_sh chk file : forall f s p acc r,
    lex_loop f chk file s p acc = Ok r ->
    forall X, lex_loop f chk file s (shc p) (map shi acc ++ X) = Ok (rev X ++ map shi r).
  Proof.
    induction f as [|f IH]; intros s p acc r H X; [discriminate|].
    cbn [lex_loop] in H |- *. rewrite next_sh.
    destruct (next (S (length s)) chk file s p) as [[[[it s'] p']|]| |]; cbn [bind shn] in H |- *; try discriminate.
    - apply (IH _ _ _ _ H X).
    - inversion H; subst. rewrite rev_app_distr, map_rev. reflexivity.
  Qed.
End ShiftLemmas.

(* ================================================================================== *)
(* Part 1b: one call of [next] on a text that ends with a newline never looks past     *)
(* that newline; it also tells on which line the item starts.                            *)

Local Notation E := ends_with_nl.
Definition Lb (s : str) : Prop := s = [] \/ E s.

Lemma E_cons_inv c r : E (c :: r) -> (r = [] /\ c = c_nl) \/ E r.
Proof.
  intros [pre H]. destruct pre as [|x pre]; cbn [app] in H; inversion H; subst.
  - left. split; reflexivity.
  - right. exists pre. reflexivity.
Qed.

Lemma E_cons_nonl c r : E (c :: r) -> c <> c_nl -> E r.
Proof. intros H Hc. destruct (E_cons_inv _ _ H) as [[_ H1]|H1]; [contradiction|exact H1]. Qed.

Lemma E_tail c r : E (c :: r) -> Lb r.
Proof. intros H. destruct (E_cons_inv _ _ H) as [[H1 _]|H1]; [left|right]; assumption. Qed.

Lemma E_cons c r : E r -> E (c :: r).
Proof. intros [pre ->]. exists (c :: pre). reflexivity. Qed.

Lemma E_nonempty s : E s -> s <> [].
Proof. intros [pre ->]. destruct pre; discriminate. Qed.

Lemma E_hd s B : E s -> hd_opt (s ++ B) = hd_opt s.
Proof. intros H. destruct s; [exfalso; exact (E_nonempty _ H eq_refl)|reflexivity]. Qed.

Lemma E_not_nonl s : E s -> nonl s -> False.
Proof.
  intros [pre ->] H. apply nonl_app_inv in H. destruct H as [_ H]. inversion H; subst. congruence.
Qed.

Definition is_nl_item (it : lexitem) : bool :=
  match it with LTok t => match tt t with TNewline => true | _ => false end | _ => false end.

Definition good (p : cur) (s : str) (it : lexitem) (m s' : str) (p' : cur) : Prop :=
  s = m ++ s' /\ p' = advs m p /\ Lb s' /\ line (rstart (item_range it)) = crow p /\
  ((is_nl_item it = true /\ exists w, m = w ++ [c_nl] /\ nonl w) \/ (is_nl_item it = false /\ nonl m)) /\
  m <> [].

Definition stepE (F : (str -> cur -> rnext) -> str -> rnext) (s : str) (p : cur) : Prop :=
  exists it m s' p', (forall rec B, F rec (s ++ B) = Ok (Some (it, s' ++ B, p'))) /\ good p s it m s' p'.

Lemma advs_nonl_row m p : nonl m -> crow (advs m p) = crow p.
Proof. intros H. rewrite (advs_nonl m p H). reflexivity. Qed.

Lemma stepE_weaken (F G : (str -> cur -> rnext) -> str -> rnext) w s p :
  nonl w -> stepE F s (advs w p) -> (forall rec B, G rec ((w ++ s) ++ B) = F rec (s ++ B)) -> stepE G (w ++ s) p.
Proof.
  intros Hw [it [m [s' [p' [HF [H1 [H2 [H3 [H4 [H5 H6]]]]]]]]]] HG.
  exists it, (w ++ m), s', p'. split; [intros rec B; rewrite HG; apply HF|].
  split; [rewrite H1, app_assoc; reflexivity|].
  split; [rewrite H2, advs_app; reflexivity|].
  split; [exact H3|].
  split; [rewrite H4; apply advs_nonl_row; exact Hw|].
  split; [|destruct w; [exact H6|discriminate]].
  destruct H5 as [[Ha [w0 [Hb Hc]]]|[Ha Hb]].
  - left. split; [exact Ha|]. exists (w ++ w0). split; [rewrite Hb, app_assoc; reflexivity|apply nonl_app; assumption].
  - right. split; [exact Ha|apply nonl_app; assumption].
Qed.

Lemma is_ws_nonl c : is_ws c = true -> c <> c_nl.
Proof. intros H ->. discriminate. Qed.

Lemma skip_ws_app : forall s, E s ->
  exists w s', s = w ++ s' /\ nonl w /\ E s' /\ forall B p, skip_ws (s ++ B) p = (s' ++ B, advs w p).
Proof.
  induction s as [|c r IH]; intros H; [exfalso; exact (E_nonempty _ H eq_refl)|].
  destruct (is_ws c) eqn:Ec.
  - pose proof (is_ws_nonl _ Ec) as Hc.
    destruct (IH (E_cons_nonl _ _ H Hc)) as [w [s' [H1 [H2 [H3 H4]]]]].
    exists (c :: w), s'. split; [rewrite H1; reflexivity|].
    split; [constructor; assumption|]. split; [exact H3|].
    intros B p. cbn [app skip_ws]. rewrite Ec. rewrite H4. reflexivity.
  - exists [], (c :: r). split; [reflexivity|]. split; [constructor|]. split; [exact H|].
    intros B p. cbn [app skip_ws]. rewrite Ec. reflexivity.
Qed.

Lemma skip_line_app : forall s, E s ->
  exists w s', s = w ++ s' /\ nonl w /\ E s' /\ forall B p, skip_line (s ++ B) p = (s' ++ B, advs w p).
Proof.
  induction s as [|c r IH]; intros H; [exfalso; exact (E_nonempty _ H eq_refl)|].
  destruct (N.eqb c c_nl) eqn:Ec.
  - exists [], (c :: r). split; [reflexivity|]. split; [constructor|]. split; [exact H|].
    intros B p. cbn [app skip_line]. rewrite Ec. reflexivity.
  - apply N.eqb_neq in Ec.
    destruct (IH (E_cons_nonl _ _ H Ec)) as [w [s' [H1 [H2 [H3 H4]]]]].
    exists (c :: w), s'. split; [rewrite H1; reflexivity|].
    split; [constructor; assumption|]. split; [exact H3|].
    intros B p. cbn [app skip_line]. apply N.eqb_neq in Ec. rewrite Ec. rewrite H4. reflexivity.
Qed.

Lemma lone_dot_app s B : E s -> lone_dot (s ++ B) = lone_dot s.
Proof.
  intros H. destruct s as [|c r]; [exfalso; exact (E_nonempty _ H eq_refl)|].
  cbn [app lone_dot]. destruct (E_cons_inv _ _ H) as [[-> ->]|Hr].
  - reflexivity.
  - rewrite (E_hd _ B Hr). reflexivity.
Qed.

Lemma skip_dots_app : forall n s, (length s <= n)%nat -> E s ->
  exists w s', s = w ++ s' /\ nonl w /\ E s' /\ lone_dot s' = false /\
    forall B f p, (length s < f)%nat -> skip_dots f (s ++ B) p = Ok (s' ++ B, advs w p).
Proof.
  induction n as [|n IH]; intros s Hn H.
  { destruct s; [exfalso; exact (E_nonempty _ H eq_refl)|cbn [length] in Hn; lia]. }
  destruct (lone_dot s) eqn:El.
  - destruct s as [|c r]; [discriminate|].
    assert (Hc : c <> c_nl).
    { intros ->. cbn in El. discriminate. }
    pose proof (E_cons_nonl _ _ H Hc) as Hr.
    destruct (skip_ws_app r Hr) as [w1 [s1 [A1 [A2 [A3 A4]]]]].
    destruct (IH s1) as [w2 [s2 [B1 [B2 [B3 [B4 B5]]]]]]; [|exact A3|].
    { cbn [length] in Hn. rewrite A1, app_length in Hn. lia. }
    exists (c :: w1 ++ w2), s2.
    split; [rewrite A1, B1; cbn [app]; rewrite <- app_assoc; reflexivity|].
    split; [constructor; [exact Hc|apply nonl_app; assumption]|].
    split; [exact B3|]. split; [exact B4|].
    intros B f p Hf. destruct f as [|f]; [lia|]. cbn [skip_dots].
    rewrite (lone_dot_app _ B H), El. cbn [app consume]. rewrite A4.
    rewrite B5; [|cbn [length] in Hf; rewrite A1, app_length in Hf; lia].
    rewrite advs_cons, advs_app. reflexivity.
  - exists [], s. split; [reflexivity|]. split; [constructor|]. split; [exact H|]. split; [exact El|].
    intros B f p Hf. destruct f as [|f]; [lia|]. cbn [skip_dots].
    rewrite (lone_dot_app _ B H), El. reflexivity.
Qed.

Lemma scan_cons stop c r p acc :
  scan stop (c :: r) p acc = if stop (hd_opt r) then (c :: acc, c :: r, p) else scan stop r (adv c p) (c :: acc).
Proof. reflexivity. Qed.

Lemma scan_app stop : stop (Some c_nl) = true ->
  forall r c, c <> c_nl -> E (c :: r) ->
  exists mid l rest, c :: r = mid ++ l :: rest /\ nonl (mid ++ [l]) /\ E rest /\ stop (hd_opt rest) = true /\
    forall B p acc, scan stop ((c :: r) ++ B) p acc = (rev (mid ++ [l]) ++ acc, l :: rest ++ B, advs mid p).
Proof.
  intros Hstop. induction r as [|c2 r2 IH]; intros c Hc H.
  { exfalso. destruct (E_cons_inv _ _ H) as [[_ H1]|H1]; [contradiction|exact (E_nonempty _ H1 eq_refl)]. }
  pose proof (E_cons_nonl _ _ H Hc) as Hr.
  destruct (stop (Some c2)) eqn:Es.
  - exists [], c, (c2 :: r2). split; [reflexivity|]. split; [apply nonl_one; exact Hc|].
    split; [exact Hr|]. split; [exact Es|].
    intros B p acc. cbn [app]. rewrite scan_cons. cbn [hd_opt]. rewrite Es. reflexivity.
  - assert (Hc2 : c2 <> c_nl) by (intros ->; congruence).
    destruct (IH c2 Hc2 Hr) as [mid [l [rest [H1 [H2 [H3 [H4 H5]]]]]]].
    exists (c :: mid), l, rest. split; [rewrite H1; reflexivity|].
    split; [constructor; assumption|]. split; [exact H3|]. split; [exact H4|].
    intros B p acc. cbn [app]. rewrite scan_cons. cbn [hd_opt]. rewrite Es.
    change (c2 :: r2 ++ B) with ((c2 :: r2) ++ B). rewrite H5.
    cbn [app rev]. rewrite <- app_assoc. reflexivity.
Qed.

Lemma unicode_nl1 b u X p : unicode_code (b :: u :: c_nl :: X) p = None.
Proof. destruct X as [|x1 [|x2 [|x3 X]]]; reflexivity. Qed.
Lemma unicode_nl2 b u a1 X p : unicode_code (b :: u :: a1 :: c_nl :: X) p = None.
Proof. destruct X as [|x1 [|x2 X]]; try reflexivity. unfold unicode_code. destruct (hexval a1); reflexivity. Qed.
Lemma unicode_nl3 b u a1 a2 X p : unicode_code (b :: u :: a1 :: a2 :: c_nl :: X) p = None.
Proof.
  destruct X as [|x1 X]; try reflexivity. unfold unicode_code.
  destruct (hexval a1); [|reflexivity]. destruct (hexval a2); reflexivity.
Qed.
Lemma unicode_nl4 b u a1 a2 a3 X p : unicode_code (b :: u :: a1 :: a2 :: a3 :: c_nl :: X) p = None.
Proof.
  unfold unicode_code.
  destruct (hexval a1); [|reflexivity]. destruct (hexval a2); [|reflexivity]. destruct (hexval a3); reflexivity.
Qed.

(* the escape after a backslash: same answer with or without the following lines *)
Lemma escape_code_app b t : b <> c_nl -> E (b :: t) ->
  (forall B p, escape_code ((b :: t) ++ B) p = None) \/
  (exists ec m x rest, b :: t = m ++ x :: rest /\ nonl m /\ x <> c_nl /\ m <> [] /\
     forall B p, escape_code ((b :: t) ++ B) p = Some (ec, x :: rest ++ B, advs m p)).
Proof.
  intros Hb H. pose proof (E_cons_nonl _ _ H Hb) as Ht.
  destruct t as [|c r]; [exfalso; exact (E_nonempty _ Ht eq_refl)|].
  destruct (N.eqb c c_nl) eqn:Enl.
  { apply N.eqb_eq in Enl. subst c. left. intros B p. reflexivity. }
  apply N.eqb_neq in Enl.
  assert (Hsimple : forall rr : char, exists (ec : char) (m : str) (x : char) (rest : str), b :: c :: r = m ++ x :: rest /\ nonl m /\ x <> c_nl /\ m <> [] /\
     forall B p, (let '(s1, p1) := consume ((b :: c :: r) ++ B) p in Some (rr, s1, p1)) = Some (ec, x :: rest ++ B, advs m p)).
  { intros rr. exists rr, [b], c, r. split; [reflexivity|]. split; [apply nonl_one; exact Hb|].
    split; [exact Enl|]. split; [discriminate|]. intros B p. reflexivity. }
  unfold escape_code. cbn [app].
  destruct (N.eqb c c_bslash); [right; apply Hsimple|].
  destruct (N.eqb c c_squote); [right; apply Hsimple|].
  destruct (N.eqb c c_dquote); [right; apply Hsimple|].
  destruct (N.eqb c 110); [right; apply Hsimple|].
  destruct (N.eqb c 116); [right; apply Hsimple|].
  destruct (N.eqb c 114); [right; apply Hsimple|].
  destruct (N.eqb c 98); [right; apply Hsimple|].
  destruct (N.eqb c 102); [right; apply Hsimple|].
  destruct (N.eqb c 48); [right; apply Hsimple|].
  destruct (N.eqb c 117) eqn:Eu; [|left; intros; reflexivity].
  pose proof (E_cons_nonl _ _ Ht Enl) as Hr.
  destruct r as [|a1 r]; [exfalso; exact (E_nonempty _ Hr eq_refl)|].
  destruct (N.eqb a1 c_nl) eqn:E1.
  { apply N.eqb_eq in E1. subst a1. left. intros B p. cbn [app]. rewrite unicode_nl1. reflexivity. }
  apply N.eqb_neq in E1. apply (fun h => E_cons_nonl _ _ h E1) in Hr.
  destruct r as [|a2 r]; [exfalso; exact (E_nonempty _ Hr eq_refl)|].
  destruct (N.eqb a2 c_nl) eqn:E2.
  { apply N.eqb_eq in E2. subst a2. left. intros B p. cbn [app]. rewrite unicode_nl2. reflexivity. }
  apply N.eqb_neq in E2. apply (fun h => E_cons_nonl _ _ h E2) in Hr.
  destruct r as [|a3 r]; [exfalso; exact (E_nonempty _ Hr eq_refl)|].
  destruct (N.eqb a3 c_nl) eqn:E3.
  { apply N.eqb_eq in E3. subst a3. left. intros B p. cbn [app]. rewrite unicode_nl3. reflexivity. }
  apply N.eqb_neq in E3. apply (fun h => E_cons_nonl _ _ h E3) in Hr.
  destruct r as [|a4 r]; [exfalso; exact (E_nonempty _ Hr eq_refl)|].
  destruct (N.eqb a4 c_nl) eqn:E4.
  { apply N.eqb_eq in E4. subst a4. left. intros B p. cbn [app]. rewrite unicode_nl4. reflexivity. }
  apply N.eqb_neq in E4.
  cbn [app]. unfold unicode_code.
  destruct (hexval a1); [|left; intros; reflexivity].
  destruct (hexval a2); [|left; intros; reflexivity].
  destruct (hexval a3); [|left; intros; reflexivity].
  destruct (hexval a4); [|left; intros; reflexivity].
  destruct (in_range 55296 57343 _); [left; intros; reflexivity|].
  right. eexists _, [b; c; a1; a2; a3], a4, r.
  split; [reflexivity|]. split; [repeat constructor; assumption|]. split; [exact E4|].
  split; [discriminate|]. intros B p. reflexivity.
Qed.

Lemma E_app_r a b : E (a ++ b) -> b <> [] -> E b.
Proof.
  intros [pre H] Hb. destruct (exists_last Hb) as [b' [x ->]].
  rewrite app_assoc in H. apply app_inj_tail in H. destruct H as [_ ->]. exists b'. reflexivity.
Qed.

Lemma acc_string_app : forall n s, (length s <= n)%nat -> E s -> forall acc,
  exists m s2, s = m ++ s2 /\ nonl m /\ E s2 /\
   ((exists text rest, s2 = c_dquote :: rest /\
       forall B f p, (length s < f)%nat -> acc_string f (s ++ B) p acc = Ok (inl (text, s2 ++ B, advs m p)))
    \/ (exists k, forall B f p, (length s < f)%nat ->
          acc_string f (s ++ B) p acc = Ok (inr (get_pos (advs m p), k, s2 ++ B, advs m p)))).
Proof.
  induction n as [|n IH]; intros s Hn H acc.
  { destruct s; [exfalso; exact (E_nonempty _ H eq_refl)|cbn [length] in Hn; lia]. }
  destruct s as [|c t]; [exfalso; exact (E_nonempty _ H eq_refl)|].
  destruct (N.eqb c c_dquote) eqn:Eq.
  { exists [], (c :: t). split; [reflexivity|]. split; [constructor|]. split; [exact H|].
    left. exists (rev acc), t. split; [apply N.eqb_eq in Eq; subst c; reflexivity|].
    intros B f p Hf. destruct f as [|f]; [lia|]. cbn [app acc_string]. rewrite Eq. reflexivity. }
  destruct (N.eqb c c_nl) eqn:Enl.
  { exists [], (c :: t). split; [reflexivity|]. split; [constructor|]. split; [exact H|].
    right. exists NewlineInString.
    intros B f p Hf. destruct f as [|f]; [lia|]. cbn [app acc_string]. rewrite Eq, Enl. reflexivity. }
  pose proof Enl as Enl'. apply N.eqb_neq in Enl'.
  destruct (N.eqb c c_bslash) eqn:Eb.
  - destruct (escape_code_app c t Enl' H) as [Hnone|[ec [m0 [x [rest [H1 [H2 [H3 [H4 H5]]]]]]]]].
    + exists [], (c :: t). split; [reflexivity|]. split; [constructor|]. split; [exact H|].
      right. exists InvalidEscapeSequence.
      intros B f p Hf. destruct f as [|f]; [lia|]. cbn [acc_string].
      change ((c :: t) ++ B) with (c :: t ++ B) at 1. cbv iota beta. rewrite Eq, Enl, Eb.
      rewrite Hnone. reflexivity.
    + assert (Hrest : E rest).
      { apply (E_cons_nonl x); [|exact H3]. apply (E_app_r m0); [rewrite <- H1; exact H|discriminate]. }
      assert (Hlen : length (c :: t) = (length m0 + S (length rest))%nat).
      { rewrite H1, app_length. reflexivity. }
      destruct (IH rest) with (acc := ec :: acc) as [m1 [s2 [A1 [A2 [A3 A4]]]]]; [|exact Hrest|].
      { destruct m0; [contradiction|]. cbn [length] in *. lia. }
      exists (m0 ++ x :: m1), s2.
      split; [rewrite H1, A1, <- app_assoc; reflexivity|].
      split; [apply nonl_app; [exact H2|constructor; assumption]|].
      split; [exact A3|].
      assert (Hadv : forall p, advs (m0 ++ x :: m1) p = advs m1 (adv x (advs m0 p))).
      { intros p. rewrite advs_app, advs_cons. reflexivity. }
      destruct A4 as [[text [rest' [A4 A5]]]|[k A5]].
      * left. exists text, rest'. split; [exact A4|].
        intros B f p Hf. destruct f as [|f]; [lia|]. cbn [acc_string].
        change ((c :: t) ++ B) with (c :: t ++ B) at 1. cbv iota beta. rewrite Eq, Enl, Eb.
        rewrite H5. cbn [consume]. rewrite A5; [|destruct m0; [contradiction|cbn [length] in *; lia]].
        rewrite Hadv. reflexivity.
      * right. exists k.
        intros B f p Hf. destruct f as [|f]; [lia|]. cbn [acc_string].
        change ((c :: t) ++ B) with (c :: t ++ B) at 1. cbv iota beta. rewrite Eq, Enl, Eb.
        rewrite H5. cbn [consume]. rewrite A5; [|destruct m0; [contradiction|cbn [length] in *; lia]].
        rewrite Hadv. reflexivity.
  - pose proof (E_cons_nonl _ _ H Enl') as Ht.
    destruct (IH t) with (acc := c :: acc) as [m1 [s2 [A1 [A2 [A3 A4]]]]]; [cbn [length] in Hn; lia|exact Ht|].
    exists (c :: m1), s2. split; [rewrite A1; reflexivity|]. split; [constructor; assumption|].
    split; [exact A3|].
    destruct A4 as [[text [rest' [A4 A5]]]|[k A5]].
    * left. exists text, rest'. split; [exact A4|].
      intros B f p Hf. destruct f as [|f]; [lia|]. cbn [app acc_string]. rewrite Eq, Enl, Eb.
      cbn [consume]. rewrite A5; [|cbn [length] in Hf; lia]. reflexivity.
    * right. exists k.
      intros B f p Hf. destruct f as [|f]; [lia|]. cbn [app acc_string]. rewrite Eq, Enl, Eb.
      cbn [consume]. rewrite A5; [|cbn [length] in Hf; lia]. reflexivity.
Qed.

Lemma fin_ok chk ty file mid p s' p' : nonl mid ->
  fin chk (mktok ty (mkrange (get_pos p) (get_pos (advs mid p))) file) s' p' =
  Ok (Some (LTok (mktok ty (mkrange (get_pos p) (get_pos (advs mid p))) file), s', p')).
Proof.
  intros Hn. unfold fin. rewrite check_tok_ok; [reflexivity| |]; cbn [rstart rend];
    rewrite (advs_nonl mid p Hn); unfold get_pos; cbn [line column crow ccol]; lia.
Qed.

Lemma good_tok p mid l rest ty file :
  nonl mid -> Lb rest ->
  ((ty = TNewline /\ l = c_nl) \/ ((match ty with TNewline => true | _ => false end) = false /\ l <> c_nl)) ->
  good p (mid ++ l :: rest) (LTok (mktok ty (mkrange (get_pos p) (get_pos (advs mid p))) file))
       (mid ++ [l]) rest (adv l (advs mid p)).
Proof.
  intros Hn HL Hty. split; [rewrite <- app_assoc; reflexivity|].
  split; [rewrite adv_advs_end; reflexivity|]. split; [exact HL|]. split; [reflexivity|].
  split; [|destruct mid; discriminate].
  destruct Hty as [[-> ->]|[Hty Hl]].
  - left. split; [reflexivity|]. exists mid. split; [reflexivity|exact Hn].
  - right. split; [exact Hty|]. apply nonl_app; [exact Hn|apply nonl_one; exact Hl].
Qed.

Lemma b_one_E chk file ty c rest p : E (c :: rest) ->
  ((ty = TNewline /\ c = c_nl) \/ ((match ty with TNewline => true | _ => false end) = false /\ c <> c_nl)) ->
  stepE (fun _ x => b_one chk file ty x p) (c :: rest) p.
Proof.
  intros H Hty. eexists _, [c], rest, (adv c p). split.
  - intros rec B. unfold b_one, get_range. cbn [app consume]. apply (fin_ok chk ty file [] p). constructor.
  - apply (good_tok p [] c rest ty file); [constructor|exact (E_tail _ _ H)|exact Hty].
Qed.

Lemma b_dot_E chk file r p : E (c_dot :: r) -> lone_dot (c_dot :: r) = false ->
  stepE (fun rec x => b_dot rec chk file x p) (c_dot :: r) p.
Proof.
  intros H Hl.
  assert (Hr : exists n r', r = n :: r' /\ is_symbol_char n = true).
  { cbn in Hl. destruct r as [|n r']; [discriminate|]. cbn in Hl.
    exists n, r'. split; [reflexivity|]. destruct (is_symbol_char n); [reflexivity|discriminate]. }
  destruct Hr as [n [r' [Hr Hn]]].
  destruct (scan_app stop_directive eq_refl r c_dot ltac:(discriminate) H) as [mid [l [rest [H1 [H2 [H3 [H4 H5]]]]]]].
  assert (Hmid : mid <> []).
  { intros ->. cbn [app] in H1. inversion H1; subst. cbn in H4. rewrite Hn in H4. discriminate. }
  pose proof H2 as H2'. apply nonl_app_inv in H2'. destruct H2' as [Hnm Hnl]. inversion Hnl; subst.
  eexists _, (mid ++ [l]), rest, (adv l (advs mid p)). split.
  - intros rec B. unfold b_dot. rewrite H5. cbn [consume]. rewrite app_nil_r, rev_involutive.
    rewrite str_eqb_long by (rewrite app_length; cbn [length]; destruct mid; [contradiction|cbn [length]; lia]).
    apply fin_ok. exact Hnm.
  - rewrite H1. apply good_tok; [exact Hnm|right; exact H3|right; split; [reflexivity|assumption]].
Qed.

Lemma b_hash_E chk file r p : E (c_hash :: r) ->
  stepE (fun _ x => b_hash chk file x p) (c_hash :: r) p.
Proof.
  intros H.
  destruct (scan_app stop_comment eq_refl r c_hash ltac:(discriminate) H) as [mid [l [rest [H1 [H2 [H3 [H4 H5]]]]]]].
  pose proof H2 as H2'. apply nonl_app_inv in H2'. destruct H2' as [Hnm Hnl]. inversion Hnl; subst.
  eexists _, (mid ++ [l]), rest, (adv l (advs mid p)). split.
  - intros rec B. unfold b_hash. rewrite H5. cbn [consume]. rewrite app_nil_r, rev_involutive.
    apply fin_ok. exact Hnm.
  - rewrite H1. apply good_tok; [exact Hnm|right; exact H3|right; split; [reflexivity|assumption]].
Qed.

Lemma good_err p mid w s' t k :
  nonl mid -> nonl w -> Lb s' -> rstart (trange t) = get_pos p -> mid <> [] ->
  good p (mid ++ w ++ s') (LErrString t (get_pos (advs mid p)) k) (mid ++ w) s' (advs w (advs mid p)).
Proof.
  intros H1 H2 H3 H4 H5. split; [rewrite app_assoc; reflexivity|].
  split; [rewrite advs_app; reflexivity|]. split; [exact H3|].
  split; [cbn [item_range]; rewrite H4; reflexivity|].
  split; [|destruct mid; [contradiction|discriminate]].
  right. split; [reflexivity|apply nonl_app; assumption].
Qed.

Lemma b_str_E chk file r p : E (c_dquote :: r) ->
  stepE (fun _ x => b_str chk file x p) (c_dquote :: r) p.
Proof.
  intros H. assert (Hr : E r) by (apply (E_cons_nonl c_dquote); [exact H|discriminate]).
  destruct (acc_string_app (length r) r (le_n _) Hr []) as [m [s2 [A1 [A2 [A3 A4]]]]].
  assert (Hqm : nonl (c_dquote :: m)) by (constructor; [discriminate|exact A2]).
  destruct A4 as [[text [rest [A4 A5]]]|[k A5]].
  - subst s2. eexists _, ((c_dquote :: m) ++ [c_dquote]), rest, (adv c_dquote (advs (c_dquote :: m) p)). split.
    + intros rec B. unfold b_str. cbn [app consume]. rewrite A5 by (rewrite app_length; lia).
      cbn [bind app consume]. rewrite <- advs_cons. apply fin_ok. exact Hqm.
    + rewrite A1. change (c_dquote :: m ++ c_dquote :: rest) with ((c_dquote :: m) ++ c_dquote :: rest).
      apply good_tok; [exact Hqm|exact (E_tail _ _ A3)|right; split; [reflexivity|discriminate]].
  - destruct (skip_line_app s2 A3) as [w [s3 [B1 [B2 [B3 B4]]]]].
    eexists _, ((c_dquote :: m) ++ w), s3, (advs w (advs (c_dquote :: m) p)). split.
    + intros rec B. unfold b_str. cbn [app consume]. rewrite A5 by (rewrite app_length; lia).
      cbn [bind]. rewrite B4. rewrite <- advs_cons. reflexivity.
    + rewrite A1, B1. change (c_dquote :: m ++ w ++ s3) with ((c_dquote :: m) ++ w ++ s3).
      apply good_err; [exact Hqm|exact B2|right; exact B3|reflexivity|discriminate].
Qed.

Lemma chr_cont_E file mid0 x rest cv p : nonl mid0 -> x <> c_nl -> E (x :: rest) ->
  exists it m s' p',
    (forall B, chr_cont file (get_pos p) cv (x :: rest ++ B) (advs (c_squote :: mid0) p) = Ok (Some (it, s' ++ B, p'))) /\
    good p ((c_squote :: mid0) ++ x :: rest) it m s' p'.
Proof.
  intros Hn Hx H. pose proof (E_cons_nonl _ _ H Hx) as Hrest.
  set (mid := c_squote :: mid0) in *.
  assert (Hmid : nonl (mid ++ [x])).
  { apply nonl_app; [|apply nonl_one; exact Hx]. subst mid. constructor; [discriminate|exact Hn]. }
  assert (Herr : forall partial, good p (mid ++ x :: rest)
            (invalid_string file partial Unclosed (get_pos p) (get_pos (advs (mid ++ [x]) p)))
            (mid ++ [x]) rest (advs (mid ++ [x]) p)).
  { intros partial. unfold invalid_string.
    pose proof (good_err p (mid ++ [x]) [] rest
      (mktok (TString partial) (mkrange (get_pos p) (get_pos (advs (mid ++ [x]) p))) file) Unclosed Hmid (Forall_nil _) (or_intror Hrest) eq_refl ltac:(subst mid; discriminate)) as G.
    cbn [app] in G. rewrite advs_nil, app_nil_r, <- app_assoc in G. exact G. }
  destruct rest as [|q rest']; [exfalso; exact (E_nonempty _ Hrest eq_refl)|].
  destruct (N.eqb q c_squote) eqn:Eq.
  - apply N.eqb_eq in Eq. subst q.
    eexists _, ((mid ++ [x]) ++ [c_squote]), rest', (adv c_squote (advs (mid ++ [x]) p)). split.
    + intros B. unfold chr_cont. cbn [app consume]. rewrite N.eqb_refl.
      rewrite adv_advs_end. reflexivity.
    + replace (mid ++ x :: c_squote :: rest') with ((mid ++ [x]) ++ c_squote :: rest') by (rewrite <- app_assoc; reflexivity).
      apply good_tok; [exact Hmid|exact (E_tail _ _ Hrest)|right; split; [reflexivity|discriminate]].
  - eexists _, (mid ++ [x]), (q :: rest'), (advs (mid ++ [x]) p). split.
    + intros B. unfold chr_cont. cbn [app consume]. rewrite Eq.
      rewrite adv_advs_end. reflexivity.
    + apply Herr.
Qed.

Lemma b_chr_E file r p : E (c_squote :: r) ->
  stepE (fun _ x => b_chr file x p) (c_squote :: r) p.
Proof.
  intros H. assert (Hr : E r) by (apply (E_cons_nonl c_squote); [exact H|discriminate]).
  assert (Hq : nonl [c_squote]) by (apply nonl_one; discriminate).
  destruct r as [|c1 r1]; [exfalso; exact (E_nonempty _ Hr eq_refl)|].
  assert (Hstop : forall partial k w s', c1 :: r1 = w ++ s' -> nonl w -> E s' ->
     good p (c_squote :: c1 :: r1)
       (invalid_string file partial k (get_pos p) (get_pos (adv c_squote p))) ([c_squote] ++ w) s'
       (advs w (adv c_squote p))).
  { intros partial k w s' Hw Hnw Hs'. rewrite Hw. unfold invalid_string.
    apply (good_err p [c_squote] w s'); [exact Hq|exact Hnw|right; exact Hs'|reflexivity|discriminate]. }
  destruct (N.eqb c1 c_bslash) eqn:Eb.
  - assert (Hc1 : c1 <> c_nl) by (apply N.eqb_eq in Eb; subst c1; discriminate).
    destruct (escape_code_app c1 r1 Hc1 Hr) as [Hnone|[ec [m0 [x [rest [H1 [H2 [H3 [H4 H5]]]]]]]]].
    + destruct (skip_line_app _ Hr) as [w [s2 [B1 [B2 [B3 B4]]]]].
      eexists _, _, s2, _. split; [|apply (Hstop [c1] InvalidEscapeSequence w s2 B1 B2 B3)].
      intros rec B. unfold b_chr. cbn [app consume]. rewrite Eb.
      change (c1 :: r1 ++ B) with ((c1 :: r1) ++ B). rewrite Hnone, B4. reflexivity.
    + assert (Hxr : E (x :: rest)) by (apply (E_app_r m0); [rewrite <- H1; exact Hr|discriminate]).
      destruct (chr_cont_E file m0 x rest ec p H2 H3 Hxr) as [it [m [s' [p' [A1 A2]]]]].
      exists it, m, s', p'. split; [|rewrite H1; exact A2].
      intros rec B. unfold b_chr. cbn [app consume]. rewrite Eb.
      change (c1 :: r1 ++ B) with ((c1 :: r1) ++ B). rewrite H5. apply A1.
  - destruct (N.eqb c1 c_nl) eqn:Enl.
    + eexists _, _, (c1 :: r1), _. split; [|apply (Hstop [c1] NewlineInString [] (c1 :: r1) eq_refl (Forall_nil _) Hr)].
      intros rec B. unfold b_chr. cbn [app consume]. rewrite Eb, Enl. reflexivity.
    + apply N.eqb_neq in Enl.
      destruct (chr_cont_E file [] c1 r1 c1 p (Forall_nil _) Enl Hr) as [it [m [s' [p' [A1 A2]]]]].
      exists it, m, s', p'. split; [|exact A2].
      intros rec B. unfold b_chr. cbn [app consume]. rewrite Eb.
      apply N.eqb_neq in Enl. rewrite Enl. apply A1.
Qed.

Lemma b_sym_E chk file c r p : E (c :: r) -> c <> c_nl ->
  stepE (fun _ x => b_sym chk file c x p) (c :: r) p.
Proof.
  intros H Hc. pose proof (E_cons_nonl _ _ H Hc) as Hr.
  destruct (is_symbol_item c) eqn:Ec.
  2:{ eexists _, [c], r, (adv c p). split.
      - intros rec B. unfold b_sym. rewrite Ec. cbn [negb app consume]. reflexivity.
      - split; [reflexivity|]. split; [reflexivity|]. split; [right; exact Hr|]. split; [reflexivity|].
        split; [|discriminate]. right. split; [reflexivity|apply nonl_one; exact Hc]. }
  destruct (scan_app stop_symbol eq_refl r c Hc H) as [mid [l [rest [H1 [H2 [H3 [H4 H5]]]]]]].
  pose proof H2 as H2'. apply nonl_app_inv in H2'. destruct H2' as [Hnm Hnl]. inversion Hnl; subst.
  assert (Hsym : forall B,
     (let en := get_pos (advs mid p) in
      let '(s1, p1) := consume (l :: rest ++ B) (advs mid p) in
      fin chk (mktok (TSymbol (mid ++ [l])) (mkrange (get_pos p) en) file) s1 p1) =
     Ok (Some (LTok (mktok (TSymbol (mid ++ [l])) (mkrange (get_pos p) (get_pos (advs mid p))) file),
               rest ++ B, adv l (advs mid p)))).
  { intros B. cbn [consume]. apply fin_ok. exact Hnm. }
  assert (Gsym : good p (c :: r) (LTok (mktok (TSymbol (mid ++ [l])) (mkrange (get_pos p) (get_pos (advs mid p))) file))
                  (mid ++ [l]) rest (adv l (advs mid p))).
  { rewrite H1. apply good_tok; [exact Hnm|right; exact H3|right; split; [reflexivity|assumption]]. }
  destruct rest as [|colon rest']; [exfalso; exact (E_nonempty _ H3 eq_refl)|].
  destruct (N.eqb colon c_colon) eqn:Ecol.
  - apply N.eqb_eq in Ecol. subst colon.
    eexists _, ((mid ++ [l]) ++ [c_colon]), rest', (adv c_colon (advs (mid ++ [l]) p)). split.
    + intros rec B. unfold b_sym. rewrite Ec. cbn [negb]. rewrite H5. rewrite app_nil_r, rev_involutive.
      cbn [app]. rewrite N.eqb_refl. cbn [consume]. rewrite !adv_advs_end. reflexivity.
    + rewrite H1. replace (mid ++ l :: c_colon :: rest') with ((mid ++ [l]) ++ c_colon :: rest') by (rewrite <- app_assoc; reflexivity).
      apply good_tok; [exact H2|exact (E_tail _ _ H3)|right; split; [reflexivity|discriminate]].
  - eexists _, _, _, _. split; [|exact Gsym].
    intros rec B. unfold b_sym. rewrite Ec. cbn [negb]. rewrite H5. rewrite app_nil_r, rev_involutive.
    cbn [app]. rewrite Ecol. apply Hsym.
Qed.

Lemma stepE_ext (F G : (str -> cur -> rnext) -> str -> rnext) s p :
  stepE F s p -> (forall rec B, G rec (s ++ B) = F rec (s ++ B)) -> stepE G s p.
Proof.
  intros [it [m [s' [p' [HF HG]]]]] Hext. exists it, m, s', p'. split; [|exact HG].
  intros rec B. rewrite Hext. apply HF.
Qed.

Lemma body_E chk file s p : E s -> lone_dot s = false ->
  stepE (fun rec x => body rec chk file x p) s p.
Proof.
  intros H Hl. destruct s as [|c r]; [exfalso; exact (E_nonempty _ H eq_refl)|].
  destruct (N.eqb c c_nl) eqn:E1.
  { eapply stepE_ext; [apply (b_one_E chk file TNewline c r p H); left; split; [reflexivity|apply N.eqb_eq; exact E1]|].
    intros rec B. unfold body. cbn [app]. rewrite E1. reflexivity. }
  assert (E1' : c <> c_nl) by (apply N.eqb_neq; exact E1).
  destruct (N.eqb c c_lparen) eqn:E2.
  { eapply stepE_ext; [apply (b_one_E chk file TLParen c r p H); right; split; [reflexivity|exact E1']|].
    intros rec B. unfold body. cbn [app]. rewrite E1, E2. reflexivity. }
  destruct (N.eqb c c_rparen) eqn:E3.
  { eapply stepE_ext; [apply (b_one_E chk file TRParen c r p H); right; split; [reflexivity|exact E1']|].
    intros rec B. unfold body. cbn [app]. rewrite E1, E2, E3. reflexivity. }
  destruct (N.eqb c c_dot) eqn:E4.
  { eapply stepE_ext; [pose proof E4 as E4'; apply N.eqb_eq in E4'; subst c; apply (b_dot_E chk file r p H Hl)|].
    intros rec B. unfold body. cbn [app]. rewrite E1, E2, E3, E4. reflexivity. }
  destruct (N.eqb c c_hash) eqn:E5.
  { eapply stepE_ext; [pose proof E5 as E5'; apply N.eqb_eq in E5'; subst c; apply (b_hash_E chk file r p H)|].
    intros rec B. unfold body. cbn [app]. rewrite E1, E2, E3, E4, E5. reflexivity. }
  destruct (N.eqb c c_dquote) eqn:E6.
  { eapply stepE_ext; [pose proof E6 as E6'; apply N.eqb_eq in E6'; subst c; apply (b_str_E chk file r p H)|].
    intros rec B. unfold body. cbn [app]. rewrite E1, E2, E3, E4, E5, E6. reflexivity. }
  destruct (N.eqb c c_squote) eqn:E7.
  { eapply stepE_ext; [pose proof E7 as E7'; apply N.eqb_eq in E7'; subst c; apply (b_chr_E file r p H)|].
    intros rec B. unfold body. cbn [app]. rewrite E1, E2, E3, E4, E5, E6, E7. reflexivity. }
  eapply stepE_ext; [apply (b_sym_E chk file c r p H E1')|].
  intros rec B. unfold body. cbn [app]. rewrite E1, E2, E3, E4, E5, E6, E7. reflexivity.
Qed.

Lemma next_E chk file s p : E s ->
  exists it m s' p', (forall B f, next (S f) chk file (s ++ B) p = Ok (Some (it, s' ++ B, p'))) /\
    good p s it m s' p'.
Proof.
  intros H.
  destruct (skip_ws_app s H) as [w1 [s1 [A1 [A2 [A3 A4]]]]].
  destruct (skip_dots_app (length s1) s1 (le_n _) A3) as [w2 [s2 [B1 [B2 [B3 [B4 B5]]]]]].
  destruct (body_E chk file s2 (advs (w1 ++ w2) p) B3 B4) as [it [m [s' [p' [HF [H1 [H2 [H3 [H4 [H5 H6]]]]]]]]]].
  assert (Hw : nonl (w1 ++ w2)) by (apply nonl_app; assumption).
  exists it, ((w1 ++ w2) ++ m), s', p'. split.
  - intros B f. rewrite next_unfold. rewrite A4.
    rewrite B5 by (rewrite app_length; lia). cbn [bind]. rewrite <- advs_app. apply HF.
  - split; [rewrite A1, B1, H1, <- !app_assoc; reflexivity|].
    split; [rewrite H2, <- advs_app; reflexivity|].
    split; [exact H3|].
    split; [rewrite H4; apply advs_nonl_row; exact Hw|].
    split; [|destruct (w1 ++ w2); [exact H6|discriminate]].
    destruct H5 as [[Ha [w0 [Hb Hc]]]|[Ha Hb]].
    + left. split; [exact Ha|]. exists ((w1 ++ w2) ++ w0). split; [rewrite Hb, app_assoc; reflexivity|apply nonl_app; assumption].
    + right. split; [exact Ha|apply nonl_app; assumption].
Qed.

(* ================================================================================== *)
(* Part 1c: the whole run over a block of complete lines.                               *)

Fixpoint lines_from (r : N) (items : list lexitem) : Prop :=
  match items with
  | [] => True
  | it :: l => line (rstart (item_range it)) = r /\ lines_from (if is_nl_item it then r + 1 else r) l
  end.

Definition ends_nl_item (items : list lexitem) : Prop :=
  exists pre t, items = pre ++ [LTok t] /\ tt t = TNewline.

Lemma lex_loop_mono chk file k : forall f s p acc r,
  lex_loop f chk file s p acc = Ok r -> lex_loop (f + k) chk file s p acc = Ok r.
Proof.
  induction f as [|f IH]; intros s p acc r H; [discriminate|].
  cbn [lex_loop Nat.add] in H |- *.
  destruct (next (S (length s)) chk file s p) as [[[[it s'] p']|]| |]; cbn [bind] in H |- *; try discriminate.
  - apply IH. exact H.
  - exact H.
Qed.

Lemma run_E chk file : forall n s, (length s <= n)%nat -> Lb s -> forall p,
  exists new, (length new <= length s)%nat /\
    (forall acc B g, lex_loop (length new + g) chk file (s ++ B) p acc =
                     lex_loop g chk file B (advs s p) (rev new ++ acc)) /\
    lines_from (crow p) new /\ (s <> [] -> ends_nl_item new).
Proof.
  induction n as [|n IH]; intros s Hn HL p.
  - destruct s; [|cbn [length] in Hn; lia]. exists []. split; [cbn; lia|].
    split; [intros; reflexivity|]. split; [exact I|]. intros H; contradiction.
  - destruct HL as [->|H].
    { exists []. split; [cbn; lia|]. split; [intros; reflexivity|]. split; [exact I|]. intros H; contradiction. }
    destruct (next_E chk file s p H) as [it [m [s' [p' [HN [H1 [H2 [H3 [H4 [H5 H6]]]]]]]]]].
    assert (Hlen : length s = (length m + length s')%nat) by (rewrite H1, app_length; reflexivity).
    assert (Hm : (0 < length m)%nat) by (destruct m; [contradiction|cbn [length]; lia]).
    destruct (IH s' ltac:(lia) H3 p') as [new [A1 [A2 [A3 A4]]]].
    exists (it :: new). split; [cbn [length]; lia|]. split; [|split].
    + intros acc B g. cbn [length Nat.add lex_loop]. rewrite HN. cbn [bind]. rewrite A2.
      rewrite H2, <- advs_app, <- H1. cbn [rev]. rewrite <- app_assoc. reflexivity.
    + cbn [lines_from]. split; [exact H4|].
      replace (if is_nl_item it then crow p + 1 else crow p) with (crow p'); [exact A3|].
      rewrite H2. destruct H5 as [[Ha [w [Hb Hc]]]|[Ha Hb]]; rewrite Ha.
      * rewrite Hb, <- adv_advs_end. unfold adv. rewrite N.eqb_refl. cbn [crow].
        rewrite (advs_nonl_row _ _ Hc). reflexivity.
      * apply advs_nonl_row. exact Hb.
    + intros _. destruct s' as [|x s''].
      * destruct new; [|cbn [length] in A1; lia].
        destruct H5 as [[Ha _]|[_ Hb]].
        -- destruct it as [t| |]; try discriminate. exists [], t. split; [reflexivity|].
           cbn [is_nl_item] in Ha. destruct (tt t); try discriminate. reflexivity.
        -- exfalso. rewrite app_nil_r in H1. subst m. exact (E_not_nonl _ H Hb).
      * destruct A4 as [pre [t [B1 B2]]]; [discriminate|].
        exists (it :: pre), t. split; [rewrite B1; reflexivity|exact B2].
Qed.

Lemma lex_loop_nil chk file g p acc : lex_loop (S g) chk file [] p acc = Ok (rev acc).
Proof. reflexivity. Qed.

(* the items of a block of complete lines *)
Lemma lex_all_E chk file s ia : Lb s -> lex_all chk file s = Ok ia ->
  (length ia <= length s)%nat /\
  (forall acc B g, lex_loop (length ia + g) chk file (s ++ B) cur0 acc =
                   lex_loop g chk file B (advs s cur0) (rev ia ++ acc)) /\
  lines_from 0 ia /\ (s <> [] -> ends_nl_item ia).
Proof.
  intros HL H. destruct (run_E chk file (length s) s (le_n _) HL cur0) as [new [A1 [A2 [A3 A4]]]].
  assert (ia = new).
  { unfold lex_all in H.
    replace (S (S (length s))) with (length new + S (S (length s) - length new))%nat in H by lia.
    pose proof (A2 [] [] (S (S (length s) - length new))%nat) as A2'. rewrite !app_nil_r in A2'.
    rewrite A2', lex_loop_nil, rev_involutive in H. inversion H. reflexivity. }
  subst new. split; [exact A1|]. split; [exact A2|]. split; assumption.
Qed.

Lemma adv_row_pos c p : cpos (adv c p) = cpos p + 1 /\ crow (adv c p) = crow p + (if N.eqb c c_nl then 1 else 0).
Proof. unfold adv. destruct (N.eqb c c_nl); cbn [cpos crow]; split; lia. Qed.

Lemma count_nl_cons c s : count_nl (c :: s) = (if N.eqb c c_nl then 1 else 0) + count_nl s.
Proof. unfold count_nl. cbn [filter]. destruct (N.eqb c c_nl); cbn [length]; lia. Qed.

Lemma advs_row_pos : forall s p, cpos (advs s p) = cpos p + len s /\ crow (advs s p) = crow p + count_nl s.
Proof.
  induction s as [|c s IH]; intros p.
  - unfold len, count_nl. cbn. split; lia.
  - rewrite advs_cons. destruct (IH (adv c p)) as [H1 H2]. destruct (adv_row_pos c p) as [H3 H4].
    rewrite H1, H2, H3, H4, count_nl_cons. unfold len. cbn [length]. split; lia.
Qed.

Lemma advs_block s : Lb s -> advs s cur0 = shc (count_nl s) (len s) cur0.
Proof.
  intros [->|[pre ->]]; [reflexivity|].
  destruct (advs_row_pos (pre ++ [c_nl]) cur0) as [H1 H2].
  assert (H3 : ccol (advs (pre ++ [c_nl]) cur0) = 0).
  { rewrite <- adv_advs_end. unfold adv. rewrite N.eqb_refl. reflexivity. }
  destruct (advs (pre ++ [c_nl]) cur0) as [a b c]. unfold shc, cur0 in *. cbn [cpos crow ccol] in *.
  f_equal; lia.
Qed.

Lemma lines_block_Lb s : lines_block s <-> Lb s.
Proof. unfold lines_block, Lb, ends_with_nl. tauto. Qed.

Theorem lex_line_local :
  forall chk file (A B : str), lines_block A ->
    forall ia ib, lex_all chk file A = Ok ia -> lex_all chk file B = Ok ib ->
      lex_all chk file (A ++ B) = Ok (ia ++ map (sh_item (count_nl A) (len A)) ib).
Proof.
  intros chk file A B HA ia ib Ha Hb. apply lines_block_Lb in HA.
  destruct (lex_all_E chk file A ia HA Ha) as [L1 [L2 _]].
  unfold lex_all. rewrite app_length.
  replace (S (S (length A + length B))) with (length ia + (S (S (length B)) + (length A - length ia)))%nat by lia.
  rewrite L2, app_nil_r, (advs_block A HA).
  apply lex_loop_mono.
  pose proof (lex_loop_sh (count_nl A) (len A) chk file _ _ _ _ _ Hb (rev ia)) as R.
  cbn [map app] in R. rewrite rev_involutive in R. exact R.
Qed.

(* ================================================================================== *)
(* Part 2a: Imm::from_str never panics, on any string.                                  *)

Open Scope Z_scope.

Lemma acc_digits_nonneg r : 0 <= r -> forall s a v, 0 <= a -> acc_digits r a s = Some v -> 0 <= v.
Proof.
  intros Hr. induction s as [|c s IH]; intros a v Ha H; cbn [acc_digits] in H.
  - inversion H; subst. exact Ha.
  - destruct (digit_val r c) as [d|] eqn:D; [|discriminate].
    apply digit_val_range in D. apply (IH (a * r + d) v); [nia|exact H].
Qed.

Lemma parse_unsigned_range r max s v : 0 <= r -> parse_unsigned r max s = Some v -> 0 <= v <= max.
Proof.
  intros Hr. unfold parse_unsigned.
  set (s' := match s with c :: s' => if N.eqb c c_plus then s' else s | [] => s end).
  destruct s' as [|c t]; [discriminate|].
  destruct (acc_digits r 0 (c :: t)) as [w|] eqn:A; [|discriminate].
  destruct (Z.leb w max) eqn:L; [|discriminate]. intros H. inversion H; subst.
  apply acc_digits_nonneg in A; lia.
Qed.

Lemma imm_radix_total r mul t : 0 <= r -> mul = 1 \/ mul = -1 -> exists o, imm_radix r mul t = Ok o.
Proof.
  intros Hr Hm. unfold imm_radix. destruct (starts_with c_minus t); [eauto|].
  destruct (u32_from_str_radix r t) as [i|] eqn:U; [|eauto].
  apply parse_unsigned_range in U; [|exact Hr].
  unfold from_signed_magnitude. rewrite mul_i64_ok; [|exact Hm|unfold i64_max; lia].
  cbn [bind]. destruct (Z.ltb (mul * i) i32_min); eauto.
Qed.

Lemma imm_dec_total mul s : mul = 1 \/ mul = -1 -> exists o, imm_dec mul s = Ok o.
Proof.
  intros Hm. unfold imm_dec. destruct (starts_with c_minus s) eqn:S; [eauto|].
  destruct (parse_i64 s) as [i|] eqn:P; [|eauto].
  destruct s as [|c t]; [discriminate|]. cbn [starts_with] in S.
  rewrite parse_i64_nominus in P by exact S.
  apply parse_unsigned_range in P; [|lia].
  rewrite mul_i64_ok; [|exact Hm|exact P]. cbn [bind]. destruct (in32b (mul * i)); eauto.
Qed.

Lemma imm_body_total mul s : mul = 1 \/ mul = -1 -> exists o, imm_body mul s = Ok o.
Proof.
  intros Hm. unfold imm_body. destruct (str_eqb s _); [eauto|].
  destruct (strip_prefix _ s); [apply imm_radix_total; [lia|exact Hm]|].
  destruct (strip_prefix _ s); [apply imm_radix_total; [lia|exact Hm]|].
  apply imm_dec_total. exact Hm.
Qed.

Lemma imm_total s : exists o, imm_from_str s = Ok o.
Proof.
  rewrite imm_from_str_eq. destruct (strip_prefix _ _); apply imm_body_total; [right|left]; reflexivity.
Qed.

Lemma csrimm_total s : exists o, csrimm_from_str s = Ok o.
Proof.
  unfold csrimm_from_str. destruct (assoc_str _ _); [eauto|].
  destruct (imm_total s) as [o ->]. cbn [bind]. eauto.
Qed.

Open Scope N_scope.

Lemma tok_imm_total t : exists o, tok_imm t = Ok o.
Proof.
  unfold tok_imm. destruct (tt t); eauto.
  destruct (imm_total s) as [o ->]. cbn [bind]. eauto.
Qed.

Lemma tok_csrimm_total t : exists o, tok_csrimm t = Ok o.
Proof.
  unfold tok_csrimm. destruct (tt t); eauto.
  destruct (csrimm_total s) as [o ->]. cbn [bind]. eauto.
Qed.

(* ================================================================================== *)
(* Part 2b: one statement.  A small Hoare logic for the parser monad, relative to the   *)
(* item list [top] the statement starts from.                                            *)

Definition is_tok (it : lexitem) : Prop := match it with LTok _ => True | _ => False end.
Definition nonl_items (l : list lexitem) : Prop := Forall (fun it => is_nl_item it = false) l.

Definition rawstep (o : option rawtok) (it : lexitem) : option rawtok :=
  match it with
  | LTok t => Some (match o with
                    | None => raw_of_token t
                    | Some r => mkraw (mkrange (rstart (rrange r)) (rend (trange t))) (rfile r)
                    end)
  | _ => o
  end.
Definition rawsum (u : list lexitem) : option rawtok := fold_left rawstep u None.
Definition rs (u : list lexitem) : rawtok := match rawsum u with Some r => r | None => raw_default end.

Lemma rawsum_snoc u it : rawsum (u ++ [it]) = rawstep (rawsum u) it.
Proof. unfold rawsum. rewrite fold_left_app. reflexivity. Qed.

Definition last_nl (top : list lexitem) : Prop := top = [] \/ ends_nl_item top.

Lemma last_nl_suffix d top : last_nl (d ++ top) -> last_nl top.
Proof.
  intros [H|[pre [t [H1 H2]]]].
  - left. destruct d; [exact H|discriminate].
  - destruct top as [|x top']; [left; reflexivity|right].
    assert (Hne : x :: top' <> []) by discriminate.
    destruct (exists_last Hne) as [q [y Hq]]. rewrite Hq in H1 |- *.
    rewrite app_assoc in H1. apply app_inj_tail in H1. destruct H1 as [_ ->].
    exists q, t. split; [reflexivity|exact H2].
Qed.

Lemma pbind_assoc {A B C} (m : P A) (f : A -> P B) (k : B -> P C) st :
  pbind (pbind m f) k st = pbind m (fun a => pbind (f a) k) st.
Proof. unfold pbind. destruct (m st) as [[[e|a] st']| |]; reflexivity. Qed.

Lemma tok_reg_wt t r : tok_reg t = Some r -> wt r = t /\ is_newline_tok t = false.
Proof.
  unfold tok_reg, is_newline_tok. destruct (tt t); try discriminate.
  destruct (reg_from_str s); [|discriminate]. cbn [option_map]. intros H. inversion H. split; reflexivity.
Qed.
Lemma tok_label_wt t r : tok_label t = Some r -> wt r = t /\ is_newline_tok t = false.
Proof.
  unfold tok_label, is_newline_tok. destruct (tt t); try discriminate.
  destruct (label_from_str s); [|discriminate]. cbn [option_map]. intros H. inversion H. split; reflexivity.
Qed.
Lemma tok_string_wt t r : tok_string t = Some r -> wt r = t /\ is_newline_tok t = false.
Proof.
  unfold tok_string, is_newline_tok. destruct (tt t); try discriminate; intros H; inversion H; split; reflexivity.
Qed.
Lemma tok_imm_wt t r : tok_imm t = Ok (Some r) -> wt r = t /\ is_newline_tok t = false.
Proof.
  unfold tok_imm, is_newline_tok. destruct (tt t); try discriminate.
  - destruct (imm_from_str s) as [[v|]| |]; cbn [bind option_map]; try discriminate.
    intros H. inversion H. split; reflexivity.
  - intros H. inversion H. split; reflexivity.
Qed.
Lemma tok_csrimm_wt t r : tok_csrimm t = Ok (Some r) -> wt r = t /\ is_newline_tok t = false.
Proof.
  unfold tok_csrimm, is_newline_tok. destruct (tt t); try discriminate.
  destruct (csrimm_from_str s) as [[v|]| |]; cbn [bind option_map]; try discriminate.
  intros H. inversion H. split; reflexivity.
Qed.
Lemma is_lparen_nonl t : is_lparen t = true -> is_newline_tok t = false.
Proof. unfold is_lparen, is_newline_tok. destruct (tt t); try discriminate; reflexivity. Qed.
Lemma is_rparen_nonl t : is_rparen t = true -> is_newline_tok t = false.
Proof. unfold is_rparen, is_newline_tok. destruct (tt t); try discriminate; reflexivity. Qed.

Section Stmt.
  Variable top : list lexitem.
  Hypothesis Hlast : last_nl top.

  Definition W (u : list lexitem) (st : pstate) : Prop :=
    top = u ++ fst st /\ Forall is_tok u /\ snd st = rawsum u /\ u <> [].
  Definition C (u : list lexitem) (st : pstate) : Prop := W u st /\ nonl_items u.

  Definition TokErr (got : token) (st : pstate) : Prop :=
    exists pre it post, top = pre ++ it :: post /\ item_token it = got /\ is_nl_item it = false /\
      nonl_items pre /\ (fst st = post \/ fst st = it :: post).

  Definition NPost (n : pnode) (st : pstate) : Prop :=
    exists u, W u st /\ node_raw n = rs u /\
      (forall pth, include_path n = Some pth -> exists u0, u = u0 ++ [LTok (wt pth)] /\ nonl_items u0).

  Definition EPost (e : lexerr) (st : pstate) : Prop :=
    match e with
    | ENeedTwoNodes n1 n2 => exists u, W u st /\ node_raw n1 = rs u /\ node_raw n2 = rs u /\
                                include_path n1 = None /\ include_path n2 = None
    | EIsNewline t => top = LTok t :: fst st /\ tt t = TNewline
    | EIgnoredWithoutWarning => exists t c, top = LTok t :: fst st /\ tt t = TComment c
    | EUnexpectedEOF => top = []
    | EExpected _ got => exists pre post, top = pre ++ LTok got :: post /\ nonl_items pre /\ fst st = post
    | EIgnoredWithWarning got | EUnexpectedToken got | EUnexpectedError got | EUnknownDirective got
    | EUnsupportedDirective got | EInvalidString got _ _ => TokErr got st
    end.

  Definition Fin (r : res ((lexerr + pnode) * pstate)) : Prop :=
    exists x st', r = Ok (x, st') /\ match x with inr n => NPost n st' | inl e => EPost e st' end.

  Lemma C_W u st : C u st -> W u st.
  Proof. intros [H _]. exact H. Qed.

  Lemma C_snoc_nonl u x st : C (u ++ [x]) st -> nonl_items u.
  Proof. intros [_ H]. apply Forall_app in H. tauto. Qed.

  Lemma fin_ret n u st : W u st -> node_raw n = rs u ->
    (forall pth, include_path n = Some pth -> exists u0, u = u0 ++ [LTok (wt pth)] /\ nonl_items u0) ->
    Fin (ret n st).
  Proof. intros H1 H2 H3. exists (inr n), st. split; [reflexivity|]. exists u. auto. Qed.

  Lemma fin_fail e st : EPost e st -> Fin (@fail pnode e st).
  Proof. intros H. exists (inl e), st. split; [reflexivity|exact H]. Qed.

  Lemma epost_expected_W ex u t st : W (u ++ [LTok t]) st -> nonl_items u -> EPost (EExpected ex t) st.
  Proof.
    intros [H1 _] Hn. exists u, (fst st). split; [rewrite H1, <- app_assoc; reflexivity|]. split; [exact Hn|reflexivity].
  Qed.

  Lemma epost_expected_C ex u t st : C (u ++ [LTok t]) st -> EPost (EExpected ex t) st.
  Proof. intros H. apply (epost_expected_W ex u t st (C_W _ _ H) (C_snoc_nonl _ _ _ H)). Qed.

  Lemma tokerr_first t st : C [LTok t] st -> TokErr t st.
  Proof.
    intros [[H1 _] Hn]. exists [], (LTok t), (fst st). split; [exact H1|]. split; [reflexivity|].
    split; [inversion Hn; assumption|]. split; [constructor|left; reflexivity].
  Qed.

  Lemma W_snoc u st t l : W u st \/ (u = [] /\ top = fst st /\ snd st = None) -> fst st = LTok t :: l ->
    W (u ++ [LTok t]) (l, rawstep (snd st) (LTok t)).
  Proof.
    intros H Hf. assert (H' : top = u ++ fst st /\ Forall is_tok u /\ snd st = rawsum u).
    { destruct H as [[H1 [H2 [H3 _]]]|[-> [H1 H2]]]; [auto|]. split; [exact H1|]. split; [constructor|exact H2]. }
    destruct H' as [H1 [H2 H3]]. split; [cbn [fst]; rewrite H1, Hf, <- app_assoc; reflexivity|].
    split; [apply Forall_app; split; [exact H2|constructor; [exact I|constructor]]|].
    split; [cbn [snd]; rewrite rawsum_snoc, H3; reflexivity|]. destruct u; discriminate.
  Qed.

  (* in a clean state there is always a next item *)
  Lemma C_more u st : C u st -> fst st <> [].
  Proof.
    intros [[H1 [_ [_ H4]]] Hn] Hf. rewrite Hf, app_nil_r in H1.
    destruct Hlast as [H|[pre [t [Ha Hb]]]].
    - apply H4. rewrite <- H1. exact H.
    - rewrite Ha in H1. subst u. apply Forall_app in Hn. destruct Hn as [_ Hn]. inversion Hn as [|? ? Hx ?]; subst.
      cbn [is_nl_item] in Hx. rewrite Hb in Hx. discriminate.
  Qed.

  Lemma get_any_C {A} u st (k : token -> P A) (R : res ((lexerr + A) * pstate) -> Prop) :
    C u st ->
    (forall t l, fst st = LTok t :: l -> R (k t (l, rawstep (snd st) (LTok t)))) ->
    (forall it l e, fst st = it :: l -> item_result it = inl e -> R (Ok (inl e, (l, snd st)))) ->
    R (pbind get_any k st).
  Proof.
    intros HC Hk He. pose proof (C_more _ _ HC) as Hne.
    unfold pbind, get_any. destruct (fst st) as [|it l] eqn:Ef; [contradiction|].
    destruct it as [t|t p kk|t]; cbn [item_result].
    - apply (Hk t l eq_refl).
    - apply (He _ l _ eq_refl eq_refl).
    - apply (He _ l _ eq_refl eq_refl).
  Qed.

  Lemma get_any_fin u st (k : token -> P pnode) :
    C u st ->
    (forall t st', W (u ++ [LTok t]) st' -> nonl_items u ->
        (is_newline_tok t = false -> C (u ++ [LTok t]) st') -> Fin (k t st')) ->
    Fin (pbind get_any k st).
  Proof.
    intros HC Hk. apply (get_any_C u st k Fin HC).
    - intros t l Hf. destruct HC as [HW Hn].
      pose proof (W_snoc u st t l (or_introl HW) Hf) as HW'.
      apply Hk; [exact HW'|exact Hn|]. intros Ht. split; [exact HW'|].
      apply Forall_app. split; [exact Hn|]. constructor; [exact Ht|constructor].
    - intros it l e Hf He. exists (inl e), (l, snd st). split; [reflexivity|].
      destruct HC as [[H1 _] Hn].
      assert (HT : forall t, item_token it = t -> is_nl_item it = false -> TokErr t (l, snd st)).
      { intros t Ht Hnl. exists u, it, l. split; [rewrite H1, Hf; reflexivity|]. split; [exact Ht|].
        split; [exact Hnl|]. split; [exact Hn|left; reflexivity]. }
      destruct it as [t|t p kk|t]; cbn [item_result] in He; inversion He; subst; apply HT; reflexivity.
  Qed.

  Lemma peek_fin u st (k : token -> P pnode) :
    C u st -> (forall t l, fst st = LTok t :: l -> Fin (k t st)) -> Fin (pbind peek_any k st).
  Proof.
    intros HC Hk. pose proof (C_more _ _ HC) as Hne.
    unfold pbind, peek_any. destruct (fst st) as [|it l] eqn:Ef; [contradiction|].
    destruct HC as [[H1 _] Hn].
    assert (HT : forall t, item_token it = t -> is_nl_item it = false -> TokErr t st).
    { intros t Ht Hnl. exists u, it, l. split; [rewrite H1, Ef; reflexivity|]. split; [exact Ht|].
      split; [exact Hnl|]. split; [exact Hn|right; exact Ef]. }
    destruct it as [t|t p kk|t]; cbn [item_result].
    - apply (Hk t l eq_refl).
    - exists (inl (EInvalidString t p kk)), st. split; [reflexivity|]. apply HT; reflexivity.
    - exists (inl (EUnexpectedToken t)), st. split; [reflexivity|]. apply HT; reflexivity.
  Qed.

  Lemma get_known_fin u st t l (k : token -> P pnode) :
    C u st -> fst st = LTok t :: l -> is_newline_tok t = false ->
    (forall t' st', C (u ++ [LTok t]) st' -> Fin (k t' st')) -> Fin (pbind get_any k st).
  Proof.
    intros HC Hf Ht Hk. unfold pbind, get_any. rewrite Hf. cbn [item_result].
    apply Hk. destruct HC as [HW Hn]. split; [apply (W_snoc u st t l (or_introl HW) Hf)|].
    apply Forall_app. split; [exact Hn|]. constructor; [exact Ht|constructor].
  Qed.

  Lemma get_reg_fin u st (k : wth reg -> P pnode) :
    C u st -> (forall r st', C (u ++ [LTok (wt r)]) st' -> Fin (k r st')) -> Fin (pbind get_reg k st).
  Proof.
    intros HC Hk. unfold get_reg. rewrite pbind_assoc. apply (get_any_fin u st _ HC).
    intros t st' HW Hn HC'. unfold as_reg. destruct (tok_reg t) as [r|] eqn:Er.
    - destruct (tok_reg_wt _ _ Er) as [<- Hnl]. apply Hk. apply HC'. exact Hnl.
    - apply fin_fail. apply (epost_expected_W _ u t st' HW Hn).
  Qed.

  Lemma get_label_fin u st (k : wth str -> P pnode) :
    C u st -> (forall r st', C (u ++ [LTok (wt r)]) st' -> Fin (k r st')) -> Fin (pbind get_label k st).
  Proof.
    intros HC Hk. unfold get_label. rewrite pbind_assoc. apply (get_any_fin u st _ HC).
    intros t st' HW Hn HC'. unfold as_label. destruct (tok_label t) as [r|] eqn:Er.
    - destruct (tok_label_wt _ _ Er) as [<- Hnl]. apply Hk. apply HC'. exact Hnl.
    - apply fin_fail. apply (epost_expected_W _ u t st' HW Hn).
  Qed.

  Lemma get_string_fin u st (k : wth str -> P pnode) :
    C u st -> (forall r st', C (u ++ [LTok (wt r)]) st' -> Fin (k r st')) -> Fin (pbind get_string k st).
  Proof.
    intros HC Hk. unfold get_string. rewrite pbind_assoc. apply (get_any_fin u st _ HC).
    intros t st' HW Hn HC'. unfold as_string. destruct (tok_string t) as [r|] eqn:Er.
    - destruct (tok_string_wt _ _ Er) as [<- Hnl]. apply Hk. apply HC'. exact Hnl.
    - apply fin_fail. apply (epost_expected_W _ u t st' HW Hn).
  Qed.

  Lemma lift_imm_fin t st (k : option (wth Z) -> P pnode) :
    (forall o, tok_imm t = Ok o -> Fin (k o st)) -> Fin (pbind (lift_res (tok_imm t)) k st).
  Proof.
    intros Hk. destruct (tok_imm_total t) as [o Ho]. unfold pbind, lift_res. rewrite Ho. apply Hk. exact Ho.
  Qed.

  Lemma lift_csrimm_fin t st (k : option (wth Z) -> P pnode) :
    (forall o, tok_csrimm t = Ok o -> Fin (k o st)) -> Fin (pbind (lift_res (tok_csrimm t)) k st).
  Proof.
    intros Hk. destruct (tok_csrimm_total t) as [o Ho]. unfold pbind, lift_res. rewrite Ho. apply Hk. exact Ho.
  Qed.

  Lemma get_imm_fin u st (k : wth Z -> P pnode) :
    C u st -> (forall r st', C (u ++ [LTok (wt r)]) st' -> Fin (k r st')) -> Fin (pbind get_imm k st).
  Proof.
    intros HC Hk. unfold get_imm. rewrite pbind_assoc. apply (get_any_fin u st _ HC).
    intros t st' HW Hn HC'. unfold as_imm. rewrite pbind_assoc. apply lift_imm_fin. intros [r|] Er.
    - destruct (tok_imm_wt _ _ Er) as [<- Hnl]. apply Hk. apply HC'. exact Hnl.
    - apply fin_fail. apply (epost_expected_W _ u t st' HW Hn).
  Qed.

  Lemma get_csrimm_fin u st (k : wth Z -> P pnode) :
    C u st -> (forall r st', C (u ++ [LTok (wt r)]) st' -> Fin (k r st')) -> Fin (pbind get_csrimm k st).
  Proof.
    intros HC Hk. unfold get_csrimm. rewrite pbind_assoc. apply (get_any_fin u st _ HC).
    intros t st' HW Hn HC'. unfold as_csrimm. rewrite pbind_assoc. apply lift_csrimm_fin. intros [r|] Er.
    - destruct (tok_csrimm_wt _ _ Er) as [<- Hnl]. apply Hk. apply HC'. exact Hnl.
    - apply fin_fail. apply (epost_expected_W _ u t st' HW Hn).
  Qed.

  Lemma expect_rparen_fin u st (k : unit -> P pnode) :
    C u st -> (forall t st', C (u ++ [LTok t]) st' -> Fin (k Datatypes.tt st')) -> Fin (pbind expect_rparen k st).
  Proof.
    intros HC Hk. unfold expect_rparen. rewrite pbind_assoc. apply (get_any_fin u st _ HC).
    intros t st' HW Hn HC'. destruct (is_rparen t) eqn:Er.
    - apply (Hk t). apply HC'. apply is_rparen_nonl. exact Er.
    - apply fin_fail. apply (epost_expected_W _ u t st' HW Hn).
  Qed.

  Lemma get_raw_fin u st (k : rawtok -> P pnode) : W u st -> Fin (k (rs u) st) -> Fin (pbind get_raw k st).
  Proof.
    intros [_ [_ [H3 _]]] Hk. unfold pbind, get_raw. unfold rs in Hk. rewrite <- H3 in Hk. exact Hk.
  Qed.

  Ltac wsolve := first [eassumption | eapply C_W; eassumption].
  Ltac inc_solve := let p := fresh in let H := fresh in intros p H; cbn [include_path] in H; discriminate H.
  Ltac pstep :=
    cbv beta;
    lazymatch goal with
    | |- Fin (pbind get_reg _ _) => eapply get_reg_fin; [eassumption|intros ? ? ?]
    | |- Fin (pbind get_imm _ _) => eapply get_imm_fin; [eassumption|intros ? ? ?]
    | |- Fin (pbind get_label _ _) => eapply get_label_fin; [eassumption|intros ? ? ?]
    | |- Fin (pbind get_csrimm _ _) => eapply get_csrimm_fin; [eassumption|intros ? ? ?]
    | |- Fin (pbind get_string _ _) => eapply get_string_fin; [eassumption|intros ? ? ?]
    | |- Fin (pbind expect_rparen _ _) => eapply expect_rparen_fin; [eassumption|intros ? ? ?]
    | |- Fin (pbind get_raw _ _) => eapply get_raw_fin; [wsolve|]
    | |- Fin (ret _ _) => eapply fin_ret; [wsolve|reflexivity|inc_solve]
    | |- Fin (fail (EExpected _ _) _) =>
        apply fin_fail; first [eapply epost_expected_C; eassumption | eapply epost_expected_W; eassumption]
    | |- Fin (fail (ENeedTwoNodes _ _) _) =>
        apply fin_fail; eexists; split; [wsolve|repeat split; reflexivity]
    | |- Fin (fail _ _) => apply fin_fail; cbn [EPost]; eapply tokerr_first; eassumption
    end.

  Lemma parse_inst_fin i t0 st : C [LTok t0] st -> Fin (parse_inst i t0 st).
  Proof.
    intros HC. unfold parse_inst. cbv zeta.
    destruct (inst_kind i) eqn:K.
    - (* KArith *) repeat pstep.
    - repeat pstep.
    - repeat pstep.
    - (* KJumpLink *)
      eapply get_any_fin; [eassumption|]. intros nx st1 HW1 Hn1 HC1.
      destruct (tok_reg nx) as [r|] eqn:Er.
      + destruct (tok_reg_wt _ _ Er) as [<- Hnl]. specialize (HC1 Hnl). repeat pstep.
      + destruct (tok_label nx) as [nm|] eqn:El.
        * destruct (tok_label_wt _ _ El) as [<- Hnl]. specialize (HC1 Hnl). repeat pstep.
        * pstep.
    - (* KJumpLinkR *)
      pstep. eapply peek_fin; [eassumption|]. intros nx l0 Hnx.
      destruct (tok_reg nx) as [r1|] eqn:Er.
      + destruct (tok_reg_wt _ _ Er) as [Hw Hnl].
        eapply get_known_fin; [eassumption|exact Hnx|exact Hnl|]. intros ? ? ?. rewrite <- Hw in *.
        repeat pstep.
      + apply lift_imm_fin. intros [imm|] Ei.
        * destruct (tok_imm_wt _ _ Ei) as [Hw Hnl].
          eapply get_known_fin; [eassumption|exact Hnx|exact Hnl|]. intros ? ? ?. rewrite <- Hw in *.
          eapply peek_fin; [eassumption|]. intros pk l Hpk.
          destruct (is_lparen pk) eqn:Elp.
          -- eapply get_known_fin; [eassumption|exact Hpk|apply is_lparen_nonl; exact Elp|]. intros ? ? ?.
             repeat pstep.
          -- repeat pstep.
        * destruct (is_lparen nx) eqn:Elp.
          -- eapply get_known_fin; [eassumption|exact Hnx|apply is_lparen_nonl; exact Elp|]. intros ? ? ?.
             repeat pstep.
          -- repeat pstep.
    - (* KLoad *)
      pstep. eapply get_any_fin; [eassumption|]. intros nx st2 HW2 Hn2 HC2.
      apply lift_imm_fin. intros [imm|] Ei.
      + destruct (tok_imm_wt _ _ Ei) as [<- Hnl]. specialize (HC2 Hnl).
        eapply peek_fin; [eassumption|]. intros pk l Hpk.
        destruct (is_lparen pk) eqn:Elp.
        * eapply get_known_fin; [eassumption|exact Hpk|apply is_lparen_nonl; exact Elp|]. intros ? ? ?.
          repeat pstep.
        * repeat pstep.
      + destruct (tok_label nx) as [lb|] eqn:El.
        * destruct (tok_label_wt _ _ El) as [<- Hnl]. specialize (HC2 Hnl). repeat pstep.
        * destruct (is_lparen nx) eqn:Elp.
          -- specialize (HC2 (is_lparen_nonl _ Elp)). repeat pstep.
          -- pstep.
    - (* KStore *)
      pstep. eapply get_any_fin; [eassumption|]. intros nx st2 HW2 Hn2 HC2.
      apply lift_imm_fin. intros [imm|] Ei.
      + destruct (tok_imm_wt _ _ Ei) as [<- Hnl]. specialize (HC2 Hnl).
        eapply peek_fin; [eassumption|]. intros pk l Hpk.
        destruct (is_lparen pk) eqn:Elp.
        * eapply get_known_fin; [eassumption|exact Hpk|apply is_lparen_nonl; exact Elp|]. intros ? ? ?.
          repeat pstep.
        * destruct (tok_reg pk) as [tmp|] eqn:Et.
          -- destruct (tok_reg_wt _ _ Et) as [_ Hnl2].
             eapply get_known_fin; [eassumption|exact Hpk|exact Hnl2|]. intros ? ? ?.
             repeat pstep.
          -- repeat pstep.
      + destruct (tok_label nx) as [lb|] eqn:El.
        * destruct (tok_label_wt _ _ El) as [<- Hnl]. specialize (HC2 Hnl). repeat pstep.
        * destruct (is_lparen nx) eqn:Elp.
          -- specialize (HC2 (is_lparen_nonl _ Elp)). repeat pstep.
          -- pstep.
    - repeat pstep.
    - repeat pstep.
    - repeat pstep.
    - repeat pstep.
    - (* KPseudo *) destruct i; repeat pstep.
    - (* KUpperArith *)
      pstep. pstep. destruct (lui_imm (wv r0)); repeat pstep.
  Qed.

  Lemma data_values_W : forall f acc u st, W u st -> (length (fst st) < f)%nat ->
    exists vals u' st', data_values f acc st = Ok (inr vals, st') /\ W u' st'.
  Proof.
    induction f as [|f IH]; intros acc u st HW Hf; [lia|].
    cbn [data_values]. destruct (fst st) as [|it l] eqn:Ef.
    - exists (rev acc), u, st. split; [reflexivity|exact HW].
    - destruct it as [t|t p k|t].
      2,3: exists (rev acc), u, st; split; [reflexivity|exact HW].
      pose proof (W_snoc u st t l (or_introl HW) Ef) as HW'.
      assert (Hget : forall acc', exists vals u' st',
                pbind get_any (fun _ => data_values f acc') st = Ok (inr vals, st') /\ W u' st').
      { intros acc'. unfold pbind at 1, get_any. rewrite Ef. cbn [item_result].
        apply (IH acc' _ _ HW'). cbn [fst length] in *. lia. }
      unfold pbind at 1, peek_any. rewrite Ef. cbn [item_result].
      assert (Hother : exists vals u' st',
         pbind (lift_res (tok_imm t))
           (fun r => match r with
                     | Some i => pbind get_any (fun _ => data_values f (i :: acc))
                     | None => ret (rev acc)
                     end) st = Ok (inr vals, st') /\ W u' st').
      { destruct (tok_imm_total t) as [o Ho]. unfold pbind at 1, lift_res. rewrite Ho.
        destruct o as [i|]; [apply Hget|]. exists (rev acc), u, st. split; [reflexivity|exact HW]. }
      destruct (tt t); try exact Hother. apply Hget.
  Qed.

  Lemma data_fin u st (k : list (wth Z) -> P pnode) :
    W u st -> (forall vals u' st', W u' st' -> Fin (k vals st')) ->
    Fin (pbind (data_values (S (length (fst st))) []) k st).
  Proof.
    intros HW Hk. destruct (data_values_W (S (length (fst st))) [] u st HW ltac:(lia)) as [vals [u' [st' [H1 H2]]]].
    unfold pbind. rewrite H1. apply (Hk vals u' st' H2).
  Qed.

  Lemma remaining_bind {A} (k : nat -> P A) st : pbind remaining k st = k (length (fst st)) st.
  Proof. reflexivity. Qed.

  Lemma parse_directive_fin d t0 st : C [LTok t0] st -> d <> DMacro -> Fin (parse_directive d t0 st).
  Proof.
    intros HC Hd. unfold parse_directive. cbv zeta.
    assert (Hdata : forall dt, Fin (pbind remaining (fun n => pbind (data_values (S n) [])
              (fun vals => pbind get_raw (fun rt => ret (PDirective (mkw d t0) (DDat dt vals) rt)))) st)).
    { intros dt. rewrite remaining_bind. eapply data_fin; [wsolve|]. intros vals u' st' HW'. repeat pstep. }
    destruct d; try (apply Hdata); try (repeat pstep); try contradiction.
    (* DInclude *)
    eapply fin_ret; [wsolve|reflexivity|]. intros pth Hp. cbn [include_path] in Hp. inversion Hp; subst.
    exists [LTok t0]. split; [reflexivity|]. eapply C_snoc_nonl. eassumption.
  Qed.

  Lemma parse_stmt_fin :
    (forall t0 l, top = LTok t0 :: l -> is_macro_tok t0 = false) ->
    Fin (parse_stmt (top, None)).
  Proof.
    intros Hmac. unfold parse_stmt, pbind at 1, get_any. cbn [fst snd].
    assert (Hcase : top = [] \/ exists it l, top = it :: l) by (destruct top; eauto).
    destruct Hcase as [Et|[it [l Et]]]; rewrite Et.
    { exists (inl EUnexpectedEOF), ([], None). split; [reflexivity|]. cbn [EPost]. exact Et. }
    destruct it as [t0|t p k|t]; cbn [item_result].
    2:{ exists (inl (EInvalidString t p k)), (l, None). split; [reflexivity|]. cbn [EPost].
        exists [], (LErrString t p k), l. rewrite Et. repeat split; try reflexivity; [constructor|left; reflexivity]. }
    2:{ exists (inl (EUnexpectedToken t)), (l, None). split; [reflexivity|]. cbn [EPost].
        exists [], (LErrUnexpected t), l. rewrite Et. repeat split; try reflexivity; [constructor|left; reflexivity]. }
    specialize (Hmac t0 l Et).
    set (st := (l, Some (raw_of_token t0)) : pstate).
    assert (HW : W [LTok t0] st).
    { split; [rewrite Et; reflexivity|]. split; [repeat constructor|]. split; [reflexivity|discriminate]. }
    assert (HC : is_newline_tok t0 = false -> C [LTok t0] st).
    { intros H. split; [exact HW|]. constructor; [exact H|constructor]. }
    assert (Hexp : forall ex, EPost (EExpected ex t0) st).
    { intros ex. exists [], l. rewrite Et. repeat split. constructor. }
    unfold is_newline_tok in HC. unfold is_macro_tok in Hmac.
    destruct (tt t0) as [| | |s|s|d|s|c|s] eqn:Ett.
    - apply fin_fail. cbn [EPost]. apply tokerr_first. apply HC. reflexivity.
    - apply fin_fail. cbn [EPost]. apply tokerr_first. apply HC. reflexivity.
    - apply fin_fail. cbn [EPost]. split; [rewrite Et; reflexivity|exact Ett].
    - destruct (label_from_str s).
      + specialize (HC eq_refl). repeat pstep.
      + apply fin_fail. apply Hexp.
    - destruct (inst_from_str s).
      + apply parse_inst_fin. apply HC. reflexivity.
      + apply fin_fail. apply Hexp.
    - destruct (dir_from_str d) as [dt|].
      + apply parse_directive_fin; [apply HC; reflexivity|]. intros ->. discriminate.
      + apply fin_fail. cbn [EPost]. apply tokerr_first. apply HC. reflexivity.
    - apply fin_fail. cbn [EPost]. apply tokerr_first. apply HC. reflexivity.
    - apply fin_fail. cbn [EPost]. apply tokerr_first. apply HC. reflexivity.
    - apply fin_fail. cbn [EPost]. exists t0, s. split; [rewrite Et; reflexivity|exact Ett].
  Qed.
End Stmt.

(* ================================================================================== *)
(* Part 2c: facts about item lists (lines, order, raw ranges).                          *)

Definition item_fact (file : option N) (it : lexitem) : Prop :=
  tfile (item_token it) = file /\ raw (rstart (item_range it)) <= raw (rend (item_range it)).

Definition Strong (file : option N) (r : N) (top : list lexitem) : Prop :=
  lines_from r top /\ StronglySorted before top /\ Forall (item_fact file) top.

Definition item_line (it : lexitem) : N := line (rstart (item_range it)).

Lemma tok_line_item it : tok_line (item_token it) = item_line it.
Proof. destruct it; reflexivity. Qed.

Lemma lines_prefix : forall pre l r, lines_from r (pre ++ l) -> nonl_items pre ->
  (forall x, In x pre -> item_line x = r) /\ lines_from r l.
Proof.
  induction pre as [|a pre IH]; intros l r H Hn; cbn [app] in H.
  - split; [intros x []|exact H].
  - destruct H as [H1 H2]. inversion Hn as [|? ? Ha Hp]; subst. rewrite Ha in H2.
    destruct (IH l _ H2 Hp) as [I1 I2]. split; [|exact I2].
    intros x [<-|Hx]; [reflexivity|apply I1; exact Hx].
Qed.

Lemma lines_suffix : forall d l r, lines_from r (d ++ l) -> exists r', lines_from r' l.
Proof.
  induction d as [|a d IH]; intros l r H; [eauto|]. destruct H as [_ H]. apply (IH _ _ H).
Qed.

Lemma recover_lines : forall l r, lines_from r l ->
  exists d, l = d ++ recover l /\ forall x, In x d -> item_line x = r.
Proof.
  induction l as [|a l IH]; intros r H.
  - exists []. split; [reflexivity|intros x []].
  - destruct H as [H1 H2].
    assert (Hrec : is_nl_item a = false -> recover (a :: l) = recover l ->
              exists d, a :: l = d ++ recover (a :: l) /\ forall x, In x d -> item_line x = r).
    { intros Ha Hr. rewrite Ha in H2. destruct (IH _ H2) as [d [D1 D2]].
      exists (a :: d). split; [rewrite Hr; cbn [app]; rewrite <- D1; reflexivity|].
      intros x [<-|Hx]; [exact H1|apply D2; exact Hx]. }
    destruct a as [t|t p k|t]; try (apply Hrec; reflexivity).
    destruct (tt t) eqn:Et;
      try (apply Hrec; [cbn [is_nl_item]; rewrite Et; reflexivity|cbn [recover]; rewrite Et; reflexivity]).
    exists [LTok t]. split; [cbn [recover]; rewrite Et; reflexivity|]. intros x [<-|[]]. exact H1.
Qed.

Lemma recover_skip it l : is_nl_item it = false -> recover (it :: l) = recover l.
Proof. destruct it as [t|t p k|t]; try reflexivity. cbn [is_nl_item recover]. destruct (tt t); try reflexivity. discriminate. Qed.

Lemma Strong_suffix file d l r : Strong file r (d ++ l) -> exists r', Strong file r' l.
Proof.
  intros [H1 [H2 H3]]. destruct (lines_suffix _ _ _ H1) as [r' Hr]. exists r'.
  split; [exact Hr|]. split.
  - clear -H2. induction d as [|a d IH]; [exact H2|]. inversion H2; subst. apply IH. assumption.
  - apply Forall_app in H3. tauto.
Qed.

Lemma before_le a b : before a b -> raw (rend (item_range a)) <= raw (rstart (item_range b)).
Proof. intros [H|[t [p [k [_ H]]]]]; lia. Qed.

Lemma fold_end file : forall u r, Forall is_tok u ->
  Forall (fun x => raw (rend (rrange r)) <= raw (rend (item_range x))) u ->
  StronglySorted before u -> Forall (item_fact file) u ->
  exists r', fold_left rawstep u (Some r) = Some r' /\ rstart (rrange r') = rstart (rrange r) /\
    rfile r' = rfile r /\ raw (rend (rrange r)) <= raw (rend (rrange r')) /\
    Forall (fun x => raw (rend (item_range x)) <= raw (rend (rrange r'))) u.
Proof.
  induction u as [|x u IH]; intros r Ht Hge Hs Hf.
  - exists r. repeat split; try reflexivity; try lia; try constructor.
  - inversion Ht as [|? ? Hx Ht']; subst. inversion Hge as [|? ? Hgx Hge']; subst.
    inversion Hs as [|? ? Hs' Hb]; subst. inversion Hf as [|? ? Hfx Hf']; subst.
    destruct x as [t| |]; try contradiction. cbn [fold_left rawstep].
    set (r1 := mkraw (mkrange (rstart (rrange r)) (rend (trange t))) (rfile r)).
    destruct (IH r1 Ht') as [r' [A1 [A2 [A3 [A4 A5]]]]]; [|exact Hs'|exact Hf'|].
    { rewrite Forall_forall in Hb, Hf' |- *. intros y Hy. cbn [r1 rrange rend].
      pose proof (before_le _ _ (Hb y Hy)) as B. destruct (Hf' y Hy) as [_ B2]. cbn [item_range] in B. lia. }
    exists r'. split; [exact A1|]. split; [exact A2|]. split; [exact A3|].
    cbn [r1 rrange rend] in A4. cbn [item_range] in Hgx. split; [lia|].
    constructor; [cbn [item_range]; exact A4|exact A5].
Qed.

Lemma covers_rs file u rest r t :
  Strong file r (u ++ rest) -> Forall is_tok u -> In (LTok t) u -> covers (rs u) t.
Proof.
  intros [_ [Hs Hf]] Ht Hin.
  assert (Hs' : StronglySorted before u).
  { clear -Hs. induction u as [|a u IH]; [constructor|]. cbn [app] in Hs. inversion Hs; subst.
    constructor; [apply IH; assumption|]. apply Forall_app in H2. tauto. }
  apply Forall_app in Hf. destruct Hf as [Hf _].
  destruct u as [|x u']; [destruct Hin|].
  inversion Ht as [|? ? Hx Ht']; subst. destruct x as [t1| |]; try contradiction.
  inversion Hs' as [|? ? Hs'' Hb]; subst. inversion Hf as [|? ? Hf1 Hf']; subst.
  destruct (fold_end file u' (raw_of_token t1) Ht') as [r' [A1 [A2 [A3 [A4 A5]]]]]; [|exact Hs''|exact Hf'|].
  { rewrite Forall_forall in Hb, Hf' |- *. intros y Hy. cbn [raw_of_token rrange].
    pose proof (before_le _ _ (Hb y Hy)) as B. destruct (Hf' y Hy) as [_ B2]. cbn [item_range] in B. lia. }
  unfold rs, rawsum. cbn [fold_left rawstep]. rewrite A1.
  cbn [raw_of_token rrange rfile] in A2, A3, A4.
  destruct Hf1 as [F1 F2]. cbn [item_token item_range] in F1, F2.
  unfold covers. rewrite A2, A3.
  destruct Hin as [Heq|Hin].
  - inversion Heq; subst t1. split; [reflexivity|]. split; lia.
  - rewrite Forall_forall in Hb, Hf', A5.
    pose proof (before_le _ _ (Hb _ Hin)) as B. destruct (Hf' _ Hin) as [G1 G2]. pose proof (A5 _ Hin) as G3.
    cbn [item_token item_range] in *. split; [congruence|]. split; lia.
Qed.

(* the items a lexer run over a block of lines produces *)
Lemma lex_items_facts chk file src items : Lb src -> lex_all chk file src = Ok items ->
  Strong file 0 items /\ last_nl items /\ (length items <= length src)%nat.
Proof.
  intros HL H. destruct (lex_all_E chk file src items HL H) as [L1 [_ [L3 L4]]].
  destruct (lex_all_spec chk src file) as [items' [S1 [S2 S3]]]. rewrite H in S1. inversion S1; subst items'.
  split; [|split; [|exact L1]].
  - split; [exact L3|]. split; [exact S2|].
    destruct HL as [->|HE].
    + assert (items = []) by (destruct items; [reflexivity|cbn [length] in L1; lia]). subst. constructor.
    + specialize (S3 HE). rewrite Forall_forall in S3 |- *. intros it Hin. specialize (S3 it Hin).
      destruct it as [t|t p k|t]; cbn [item_ok] in S3; unfold item_fact; cbn [item_token item_range].
      * destruct S3 as [[_ [_ [R _]]] [_ F]]. split; assumption.
      * destruct S3 as [_ [_ [R1 [R2 [_ F]]]]]. split; [exact F|]. rewrite R1. lia.
      * destruct S3 as [[_ [_ [R _]]] [F _]]. split; assumption.
  - destruct src as [|c src']; [left; destruct items; [reflexivity|cbn [length] in L1; lia]|].
    right. apply L4. discriminate.
Qed.

Lemma normalize_Lb text : Lb (normalize_text text).
Proof.
  unfold normalize_text. destruct (rev text) as [|c r] eqn:Er.
  - left. rewrite <- (rev_involutive text), Er. reflexivity.
  - assert (Ht : text = rev r ++ [c]) by (rewrite <- (rev_involutive text), Er; reflexivity).
    destruct (N.eqb c c_nl) eqn:Ec.
    + apply N.eqb_eq in Ec. subst c. right. exists (rev r). exact Ht.
    + right. exists text. reflexivity.
Qed.

Lemma normalize_length text : (length (normalize_text text) <= length text + 1)%nat.
Proof.
  unfold normalize_text. destruct (rev text); [lia|]. destruct (N.eqb _ _); [lia|].
  rewrite app_length. cbn [length]. lia.
Qed.

Lemma str_eqb_refl s : str_eqb s s = true.
Proof. induction s as [|c s IH]; [reflexivity|]. cbn [str_eqb]. rewrite N.eqb_refl, IH. reflexivity. Qed.

(* ================================================================================== *)
(* Part 2d: the file driver on a single-file store.                                     *)

Definition acct (nodes : list pnode) (errs : list parse_error) (it : lexitem) : Prop :=
  match it with
  | LTok t => significant t = true ->
      (exists n, In n nodes /\ covers (node_raw n) t) \/
      (exists e, In e errs /\ tfile (err_token e) = tfile t /\ tok_line (err_token e) = tok_line t)
  | LErrString t _ _ | LErrUnexpected t =>
      exists e, In e errs /\ tfile (err_token e) = tfile t /\ tok_line (err_token e) = tok_line t
  end.

Lemma acct_mono nodes errs nodes' errs' it :
  incl nodes nodes' -> incl errs errs' -> acct nodes errs it -> acct nodes' errs' it.
Proof.
  intros Hn He. destruct it as [t|t p k|t]; cbn [acct].
  - intros H Hs. destruct (H Hs) as [[n [H1 H2]]|[e [H1 H2]]]; [left; exists n|right; exists e]; auto.
  - intros [e [H1 H2]]. exists e. auto.
  - intros [e [H1 H2]]. exists e. auto.
Qed.

Lemma acct_of_line nodes errs e file r x :
  In e errs -> tfile (err_token e) = file -> tok_line (err_token e) = r ->
  item_fact file x -> item_line x = r -> acct nodes errs x.
Proof.
  intros H1 H2 H3 [H4 _] H5. rewrite <- tok_line_item in H5.
  destruct x as [t|t p k|t]; cbn [acct item_token] in *.
  - intros _. right. exists e. repeat split; congruence.
  - exists e. repeat split; congruence.
  - exists e. repeat split; congruence.
Qed.

Lemma recover_suffix : forall l, exists d, l = d ++ recover l.
Proof.
  induction l as [|a l [d IH]]; [exists []; reflexivity|].
  assert (Hrec : recover (a :: l) = recover l -> exists d, a :: l = d ++ recover (a :: l)).
  { intros ->. exists (a :: d). cbn [app]. rewrite <- IH. reflexivity. }
  destruct a as [t|t p k|t]; try (apply Hrec; reflexivity).
  destruct (tt t) eqn:Et; try (apply Hrec; cbn [recover]; rewrite Et; reflexivity).
  exists [LTok t]. cbn [recover]. rewrite Et. reflexivity.
Qed.

Lemma err_split (top pre : list lexitem) it post top' : top = pre ++ it :: post ->
  top' = post \/ top' = recover post -> exists d, top = d ++ top' /\ d <> [].
Proof.
  intros Ht [->| ->].
  - exists (pre ++ [it]). split; [rewrite Ht, <- app_assoc; reflexivity|destruct pre; discriminate].
  - destruct (recover_suffix post) as [d2 Hd]. exists (pre ++ it :: d2).
    split; [rewrite Ht, <- app_assoc; cbn [app]; rewrite <- Hd; reflexivity|destruct pre; discriminate].
Qed.

Lemma err_acct file r (top pre : list lexitem) it post nodes errs e top' :
  Strong file r top -> top = pre ++ it :: post -> nonl_items pre -> In e errs ->
  err_token e = item_token it ->
  top' = post \/ (is_nl_item it = false /\ top' = recover post) ->
  forall d, top = d ++ top' -> forall x, In x d -> acct nodes errs x.
Proof.
  intros HS Ht Hn He Hg Htop' d Hd x Hx.
  destruct HS as [HL [_ HF]]. rewrite Ht in HL.
  destruct (lines_prefix _ _ _ HL Hn) as [L1 [L2 L3]].
  rewrite Forall_forall in HF.
  assert (Hfile : tfile (err_token e) = file).
  { rewrite Hg. apply (HF it). rewrite Ht. apply in_or_app. right. left. reflexivity. }
  assert (Hline : tok_line (err_token e) = r) by (rewrite Hg, tok_line_item; exact L2).
  assert (Hxtop : In x top) by (rewrite Hd; apply in_or_app; left; exact Hx).
  apply (acct_of_line nodes errs e file r x He Hfile Hline (HF x Hxtop)).
  destruct Htop' as [->|[Hnl ->]].
  - assert (d = pre ++ [it]).
    { apply (app_inv_tail post). rewrite <- Hd, Ht, <- app_assoc. reflexivity. }
    subst d. apply in_app_or in Hx. destruct Hx as [Hx|[<-|[]]]; [apply L1; exact Hx|exact L2].
  - rewrite Hnl in L3. destruct (recover_lines _ _ L3) as [d2 [D1 D2]].
    assert (d = pre ++ it :: d2).
    { apply (app_inv_tail (recover post)). rewrite <- Hd, Ht, <- app_assoc. cbn [app]. rewrite <- D1. reflexivity. }
    subst d. apply in_app_or in Hx. destruct Hx as [Hx|[<-|Hx]]; [apply L1; exact Hx|exact L2|apply D2; exact Hx].
Qed.

Lemma node_acct file r (top u rest : list lexitem) nodes errs n :
  Strong file r top -> top = u ++ rest -> Forall is_tok u -> In n nodes -> node_raw n = rs u ->
  forall d, top = d ++ rest -> forall x, In x d -> acct nodes errs x.
Proof.
  intros HS Ht Hu Hn Hr d Hd x Hx.
  assert (d = u) by (apply (app_inv_tail rest); rewrite <- Hd, Ht; reflexivity). subst d.
  rewrite Forall_forall in Hu. pose proof (Hu x Hx) as Hx'. destruct x as [t| |]; try contradiction.
  cbn [acct]. intros _. left. exists n. split; [exact Hn|]. rewrite Hr. rewrite Ht in HS.
  apply (covers_rs file u rest r t HS); [rewrite Forall_forall; exact Hu|exact Hx].
Qed.

Section Drive.
  Variables (chk : bool) (path text : str).
  Notation fs := [(path, @inl str unit text)].
  Notation rs1 := (mkrs [path]).

  Lemma import_fail p : exists e, import_file fs p rs1 = (inl e, rs1) /\
    forall pth, err_token (to_parse_error e pth) = wt pth.
  Proof.
    unfold import_file. cbn [assoc_str]. destruct (str_eqb p path) eqn:Ep.
    - cbn [imported mem_str]. rewrite Ep. cbn [orb]. exists REFileAlreadyRead. split; [reflexivity|]. reflexivity.
    - exists REInvalidPath. split; [reflexivity|]. reflexivity.
  Qed.

  Definition StepOK (top top' : list lexitem) nodes errs nodes1 errs1 : Prop :=
    (exists d, top = d ++ top' /\ d <> []) /\
    (forall f, drive (S f) chk fs false [top] rs1 nodes errs = drive f chk fs false [top'] rs1 nodes1 errs1) /\
    incl nodes nodes1 /\ incl errs errs1 /\
    (forall file r, Strong file r top -> forall d, top = d ++ top' -> forall x, In x d -> acct nodes1 errs1 x).

  Lemma step_tokerr top nodes errs got st pe :
    TokErr top got st -> err_token pe = got ->
    (forall f, drive (S f) chk fs false [top] rs1 nodes errs =
               drive f chk fs false [recover (fst st)] rs1 nodes (pe :: errs)) ->
    StepOK top (recover (fst st)) nodes errs nodes (pe :: errs).
  Proof.
    intros [pre [it [post [H1 [H2 [H3 [H4 H5]]]]]]] Hpe Hdr.
    assert (Hrec : recover (fst st) = recover post).
    { destruct H5 as [->| ->]; [reflexivity|apply recover_skip; exact H3]. }
    rewrite Hrec in *. split; [apply (err_split top pre it post _ H1); right; reflexivity|].
    split; [exact Hdr|]. split; [apply incl_refl|]. split; [apply incl_tl, incl_refl|].
    intros file r HS. apply (err_acct file r top pre it post nodes (pe :: errs) pe _ HS H1 H4 (or_introl eq_refl)).
    - rewrite Hpe, H2. reflexivity.
    - right. split; [exact H3|reflexivity].
  Qed.

  Lemma step_fin top nodes errs : last_nl top -> top <> [] ->
    (forall t0 l, top = LTok t0 :: l -> is_macro_tok t0 = false) ->
    exists top' nodes1 errs1, StepOK top top' nodes errs nodes1 errs1.
  Proof.
    intros Hlast Hne Hmac.
    destruct (parse_stmt_fin top Hlast Hmac) as [x [[rest o] [Hp Hpost]]].
    assert (Hone : parse_one top = Ok (x, rest)) by (unfold parse_one; rewrite Hp; reflexivity).
    destruct x as [e|n].
    - destruct e as [ex got|t|t| |t| |n1 n2|t|t|t|t p k]; cbn [EPost] in Hpost.
      + (* EExpected *)
        destruct Hpost as [pre [post [H1 [H2 H3]]]]. cbn [fst] in H3. subst rest.
        exists (if is_newline_tok got then post else recover post), nodes, (PEExpected ex got :: errs).
        split; [apply (err_split top pre (LTok got) post _ H1); destruct (is_newline_tok got); auto|].
        split; [intros f; cbn [drive]; rewrite Hone; reflexivity|].
        split; [apply incl_refl|]. split; [apply incl_tl, incl_refl|].
        intros file r HS.
        apply (err_acct file r top pre (LTok got) post nodes (PEExpected ex got :: errs) (PEExpected ex got) _ HS H1 H2 (or_introl eq_refl) eq_refl).
        change (is_nl_item (LTok got)) with (is_newline_tok got).
        destruct (is_newline_tok got); [left; reflexivity|right; split; reflexivity].
      + (* EIsNewline *)
        destruct Hpost as [H1 H2]. cbn [fst] in H1. exists rest, nodes, errs.
        split; [exists [LTok t]; split; [exact H1|discriminate]|].
        split; [intros f; cbn [drive]; rewrite Hone; reflexivity|].
        split; [apply incl_refl|]. split; [apply incl_refl|].
        intros file r HS d Hd x Hx.
        assert (d = [LTok t]) by (apply (app_inv_tail rest); rewrite <- Hd, H1; reflexivity). subst d.
        destruct Hx as [<-|[]]. cbn [acct]. unfold significant. rewrite H2. discriminate.
      + (* EIgnoredWithWarning *)
        apply (step_tokerr top nodes errs t (rest, o) (PEUnsupported t)) in Hpost; [eauto|reflexivity|].
        intros f. cbn [drive]. rewrite Hone. reflexivity.
      + (* EIgnoredWithoutWarning *)
        destruct Hpost as [t [c [H1 H2]]]. cbn [fst] in H1. exists rest, nodes, errs.
        split; [exists [LTok t]; split; [exact H1|discriminate]|].
        split; [intros f; cbn [drive]; rewrite Hone; reflexivity|].
        split; [apply incl_refl|]. split; [apply incl_refl|].
        intros file r HS d Hd x Hx.
        assert (d = [LTok t]) by (apply (app_inv_tail rest); rewrite <- Hd, H1; reflexivity). subst d.
        destruct Hx as [<-|[]]. cbn [acct]. unfold significant. rewrite H2. discriminate.
      + apply (step_tokerr top nodes errs t (rest, o) (PEUnexpectedToken t)) in Hpost; [eauto|reflexivity|].
        intros f. cbn [drive]. rewrite Hone. reflexivity.
      + contradiction.
      + (* ENeedTwoNodes *)
        destruct Hpost as [u [[H1 [H2 [_ H4]]] [R1 [R2 _]]]]. cbn [fst] in H1.
        exists rest, (n2 :: n1 :: nodes), errs.
        split; [exists u; split; assumption|].
        split; [intros f; cbn [drive]; rewrite Hone; reflexivity|].
        split; [apply incl_tl, incl_tl, incl_refl|]. split; [apply incl_refl|].
        intros file r HS. apply (node_acct file r top u rest _ errs n1 HS H1 H2); [right; left; reflexivity|exact R1].
      + apply (step_tokerr top nodes errs t (rest, o) (PEUnexpectedError t)) in Hpost; [eauto|reflexivity|].
        intros f. cbn [drive]. rewrite Hone. reflexivity.
      + apply (step_tokerr top nodes errs t (rest, o) (PEUnknownDirective t)) in Hpost; [eauto|reflexivity|].
        intros f. cbn [drive]. rewrite Hone. reflexivity.
      + apply (step_tokerr top nodes errs t (rest, o) (PEUnsupported t)) in Hpost; [eauto|reflexivity|].
        intros f. cbn [drive]. rewrite Hone. reflexivity.
      + apply (step_tokerr top nodes errs t (rest, o) (PEInvalidString t p k)) in Hpost; [eauto|reflexivity|].
        intros f. cbn [drive]. rewrite Hone. reflexivity.
    - (* a node *)
      destruct Hpost as [u [[H1 [H2 [_ H4]]] [R1 R2]]]. cbn [fst] in H1.
      destruct (include_path n) as [pth|] eqn:Einc.
      + destruct (import_fail (wv pth)) as [e [I1 I2]].
        destruct (R2 pth eq_refl) as [u0 [U1 U2]].
        exists rest, nodes, (to_parse_error e pth :: errs).
        split; [exists u; split; assumption|].
        split; [intros f; cbn [drive]; rewrite Hone; cbn [bind]; rewrite Einc, I1; reflexivity|].
        split; [apply incl_refl|]. split; [apply incl_tl, incl_refl|].
        intros file r HS.
        apply (err_acct file r top u0 (LTok (wt pth)) rest nodes (to_parse_error e pth :: errs) (to_parse_error e pth) rest HS);
          [rewrite H1, U1, <- app_assoc; reflexivity|exact U2|left; reflexivity|apply I2|left; reflexivity].
      + exists rest, (n :: nodes), errs.
        split; [exists u; split; assumption|].
        split; [intros f; cbn [drive]; rewrite Hone; cbn [bind]; rewrite Einc; reflexivity|].
        split; [apply incl_tl, incl_refl|]. split; [apply incl_refl|].
        intros file r HS. apply (node_acct file r top u rest _ errs n HS H1 H2); [left; reflexivity|exact R1].
  Qed.

  Lemma skip_macro_total : forall f st, (length (fst st) < f)%nat ->
    exists x st', skip_macro f st = Ok (x, st') /\ (exists dd, fst st = dd ++ fst st') /\
      match x with
      | inr _ => True
      | inl e => e = EUnexpectedEOF \/ (exists t p k, e = EInvalidString t p k) \/ (exists t, e = EUnexpectedToken t)
      end.
  Proof.
    induction f as [|f IH]; intros st Hf; [lia|].
    cbn [skip_macro]. unfold pbind at 1, get_any. destruct (fst st) as [|it l] eqn:Ef.
    - exists (inl EUnexpectedEOF), st. split; [reflexivity|]. split; [exists []; rewrite Ef; reflexivity|]. left. reflexivity.
    - destruct it as [t|t p k|t]; cbn [item_result].
      + set (st1 := (l, _) : pstate).
        assert (Hrec : exists x st', skip_macro f st1 = Ok (x, st') /\ (exists dd, LTok t :: l = dd ++ fst st') /\
                  match x with
                  | inr _ => True
                  | inl e => e = EUnexpectedEOF \/ (exists t p k, e = EInvalidString t p k) \/ (exists t, e = EUnexpectedToken t)
                  end).
        { destruct (IH st1) as [x [st' [H1 [[dd H2] H3]]]]; [cbn [st1 fst length] in *; lia|].
          exists x, st'. split; [exact H1|]. split; [|exact H3]. exists (LTok t :: dd). cbn [st1 fst] in H2.
          rewrite H2. reflexivity. }
        destruct (tt t); try exact Hrec.
        destruct (dir_from_str s) as [[]|]; try exact Hrec.
        exists (inr Datatypes.tt), st1. split; [reflexivity|]. split; [exists [LTok t]; reflexivity|exact I].
      + exists (inl (EInvalidString t p k)), (l, snd st). split; [reflexivity|].
        split; [exists [LErrString t p k]; reflexivity|]. right. left. eauto.
      + exists (inl (EUnexpectedToken t)), (l, snd st). split; [reflexivity|].
        split; [exists [LErrUnexpected t]; reflexivity|]. right. right. eauto.
  Qed.

  Lemma step_macro top t0 l nodes errs : top = LTok t0 :: l -> is_macro_tok t0 = true ->
    exists stack' nodes1 errs1,
      (stack' = [] \/ exists top', stack' = [top'] /\ exists dd, top = dd ++ top' /\ dd <> []) /\
      (forall f, drive (S f) chk fs false [top] rs1 nodes errs = drive f chk fs false stack' rs1 nodes1 errs1) /\
      incl nodes nodes1 /\ incl errs errs1.
  Proof.
    intros Ht Hm. unfold is_macro_tok in Hm.
    destruct (tt t0) as [| | |s|s|d|s|c|s] eqn:Ett; try discriminate.
    destruct (dir_from_str d) as [[]|] eqn:Ed; try discriminate.
    set (st0 := (l, Some (raw_of_token t0)) : pstate).
    destruct (skip_macro_total (S (length l)) st0 ltac:(cbn; lia)) as [x [[rest o] [H1 [[dd H2] H3]]]].
    cbn [st0 fst] in H2.
    assert (Hsuf : forall top', (exists d2, rest = d2 ++ top') -> exists dd', top = dd' ++ top' /\ dd' <> []).
    { intros top' [d2 Hd2]. exists (LTok t0 :: dd ++ d2). split; [|discriminate].
      rewrite Ht, H2, Hd2. cbn [app]. rewrite <- app_assoc. reflexivity. }
    assert (Hrecov : exists dd', top = dd' ++ recover rest /\ dd' <> []).
    { apply Hsuf. destruct (recover_suffix rest) as [d2 Hd2]. exists d2. exact Hd2. }
    assert (Hstmt : parse_stmt (top, None) =
              match x with inr _ => Ok (inl (EIgnoredWithWarning t0), (rest, o)) | inl e => Ok (inl e, (rest, o)) end).
    { unfold parse_stmt, pbind at 1, get_any. rewrite Ht. cbn [fst snd item_result]. rewrite Ett, Ed.
      unfold parse_directive. rewrite remaining_bind. cbn [fst]. fold st0. unfold pbind at 1. rewrite H1.
      destruct x; reflexivity. }
    assert (Hone : parse_one top =
              match x with inr _ => Ok (inl (EIgnoredWithWarning t0), rest) | inl e => Ok (inl e, rest) end).
    { unfold parse_one. rewrite Hstmt. destruct x; reflexivity. }
    destruct x as [e|u].
    - destruct H3 as [->|[[t [p [k ->]]]|[t ->]]].
      + exists [], nodes, errs. split; [left; reflexivity|].
        split; [intros f; cbn [drive]; rewrite Hone; reflexivity|]. split; apply incl_refl.
      + exists [recover rest], nodes, (PEInvalidString t p k :: errs). split; [right; eauto|].
        split; [intros f; cbn [drive]; rewrite Hone; reflexivity|]. split; [apply incl_refl|apply incl_tl, incl_refl].
      + exists [recover rest], nodes, (PEUnexpectedToken t :: errs). split; [right; eauto|].
        split; [intros f; cbn [drive]; rewrite Hone; reflexivity|]. split; [apply incl_refl|apply incl_tl, incl_refl].
    - exists [recover rest], nodes, (PEUnsupported t0 :: errs). split; [right; eauto|].
      split; [intros f; cbn [drive]; rewrite Hone; reflexivity|]. split; [apply incl_refl|apply incl_tl, incl_refl].
  Qed.

  Lemma drive_all : forall n top, (length top <= n)%nat -> last_nl top ->
    forall f nodes errs, (n + 2 <= f)%nat ->
    exists nodes' errs', drive f chk fs false [top] rs1 nodes errs = Ok (rev nodes', rev errs', rs1) /\
      incl nodes nodes' /\ incl errs errs' /\
      (forall file r, Strong file r top -> (forall it, In it top -> is_macro_tok (item_token it) = false) ->
         forall it, In it top -> acct nodes' errs' it).
  Proof.
    induction n as [|n IH]; intros top Hn Hlast f nodes errs Hf.
    - destruct top; [|cbn [length] in Hn; lia].
      destruct f as [|[|f]]; try lia. exists nodes, errs. split; [reflexivity|].
      split; [apply incl_refl|]. split; [apply incl_refl|]. intros file r _ _ it [].
    - destruct top as [|it0 l] eqn:Etop.
      { destruct f as [|[|f]]; try lia. exists nodes, errs. split; [reflexivity|].
        split; [apply incl_refl|]. split; [apply incl_refl|]. intros file r _ _ it []. }
      rewrite <- Etop in *.
      destruct f as [|f]; [lia|].
      assert (Hcase : (exists t0, it0 = LTok t0 /\ is_macro_tok t0 = true) \/
                      (forall t0 l', top = LTok t0 :: l' -> is_macro_tok t0 = false)).
      { destruct it0 as [t0| |].
        - destruct (is_macro_tok t0) eqn:Em; [left; eauto|right].
          intros t1 l' H. rewrite Etop in H. inversion H; subst. exact Em.
        - right. intros t1 l' H. rewrite Etop in H. discriminate.
        - right. intros t1 l' H. rewrite Etop in H. discriminate. }
      destruct Hcase as [[t0 [-> Hm]]|Hmac].
      + destruct (step_macro top t0 l nodes errs Etop Hm) as [stack' [nodes1 [errs1 [Hst [Hdr [In1 In2]]]]]].
        rewrite Hdr.
        assert (Hvac : forall nodes' errs' file r, Strong file r top ->
                  (forall it, In it top -> is_macro_tok (item_token it) = false) ->
                  forall it, In it top -> acct nodes' errs' it).
        { intros nodes' errs' file r _ Hno. exfalso. specialize (Hno (LTok t0)). rewrite Etop in Hno.
          cbn [item_token] in Hno. rewrite Hm in Hno. specialize (Hno (or_introl eq_refl)). discriminate. }
        destruct Hst as [->|[top' [-> [dd [Hdd Hne]]]]].
        * destruct f as [|f]; [lia|]. exists nodes1, errs1. split; [reflexivity|].
          split; [exact In1|]. split; [exact In2|]. apply Hvac.
        * assert (Hlen : (length top' <= n)%nat).
          { rewrite Hdd, app_length in Hn. destruct dd; [contradiction|cbn [length] in Hn; lia]. }
          rewrite Hdd in Hlast. apply last_nl_suffix in Hlast.
          destruct (IH top' Hlen Hlast f nodes1 errs1 ltac:(lia)) as [nodes' [errs' [R1 [R2 [R3 _]]]]].
          exists nodes', errs'. split; [exact R1|].
          split; [eapply incl_tran; eassumption|]. split; [eapply incl_tran; eassumption|]. apply Hvac.
      + destruct (step_fin top nodes errs Hlast ltac:(rewrite Etop; discriminate) Hmac)
          as [top' [nodes1 [errs1 [[dd [Hdd Hne]] [Hdr [In1 [In2 Hacc]]]]]]].
        rewrite Hdr.
        assert (Hlen : (length top' <= n)%nat).
        { rewrite Hdd, app_length in Hn. destruct dd; [contradiction|cbn [length] in Hn; lia]. }
        pose proof Hlast as Hlast'. rewrite Hdd in Hlast'. apply last_nl_suffix in Hlast'.
        destruct (IH top' Hlen Hlast' f nodes1 errs1 ltac:(lia)) as [nodes' [errs' [R1 [R2 [R3 R4]]]]].
        exists nodes', errs'. split; [exact R1|].
        split; [eapply incl_tran; eassumption|]. split; [eapply incl_tran; eassumption|].
        intros file r HS Hno it Hin. rewrite Hdd in Hin. apply in_app_or in Hin. destruct Hin as [Hin|Hin].
        * apply (acct_mono nodes1 errs1); [exact R2|exact R3|]. apply (Hacc file r HS dd Hdd it Hin).
        * pose proof HS as HS'. rewrite Hdd in HS'. destruct (Strong_suffix _ _ _ _ HS') as [r' HS''].
          apply (R4 file r' HS''); [|exact Hin]. intros it' Hin'. apply Hno. rewrite Hdd. apply in_or_app. right. exact Hin'.
  Qed.
End Drive.

(* ================================================================================== *)
(* The C07 theorems about parsing.                                                       *)

Lemma parse_from_file_unfold chk path text :
  parse_from_file chk [(path, inl text)] path false =
  do items <- lex_all chk (Some 0) (normalize_text text);
  drive (2 * (length text + 4 + 0) + 8) chk [(path, inl text)] false [items] (mkrs [path])
        [PProgramEntry (Some 0) (mkraw range0 (Some 0))] [].
Proof.
  unfold parse_from_file, import_file. cbn [assoc_str]. rewrite str_eqb_refl. reflexivity.
Qed.

Lemma parse_run chk path text :
  exists items nodes' errs',
    lex_all chk (Some 0) (normalize_text text) = Ok items /\
    parse_from_file chk [(path, inl text)] path false = Ok (rev nodes', rev errs', mkrs [path]) /\
    ((forall it, In it items -> is_macro_tok (item_token it) = false) ->
     forall it, In it items -> acct nodes' errs' it).
Proof.
  destruct (lex_all_spec chk (normalize_text text) (Some 0)) as [items [Hl _]].
  destruct (lex_items_facts chk (Some 0) _ items (normalize_Lb text) Hl) as [HS [Hlast Hlen]].
  pose proof (normalize_length text) as Hnl.
  destruct (drive_all chk path text (length items) items (le_n _) Hlast
              (2 * (length text + 4 + 0) + 8)%nat
              [PProgramEntry (Some 0) (mkraw range0 (Some 0))] [] ltac:(lia))
    as [nodes' [errs' [R1 [_ [_ R4]]]]].
  exists items, nodes', errs'. split; [exact Hl|]. split.
  - rewrite parse_from_file_unfold, Hl. cbn [bind]. exact R1.
  - intros Hno. apply (R4 (Some 0) 0 HS Hno).
Qed.

Theorem parse_total :
  forall chk path text, exists nodes errs rs,
    parse_from_file chk [(path, inl text)] path false = Ok (nodes, errs, rs).
Proof.
  intros chk path text. destruct (parse_run chk path text) as [items [nodes' [errs' [_ [H _]]]]].
  eauto.
Qed.

Theorem tokens_accounted :
  forall chk path text nodes errs rs items,
    parse_from_file chk [(path, inl text)] path false = Ok (nodes, errs, rs) ->
    lex_all chk (Some 0) (normalize_text text) = Ok items ->
    (forall it, In it items -> is_macro_tok (item_token it) = false) ->
    forall it, In it items ->
      match it with
      | LTok t => significant t = true ->
          (exists n, In n nodes /\ covers (node_raw n) t) \/
          (exists e, In e errs /\ tfile (err_token e) = tfile t /\ tok_line (err_token e) = tok_line t)
      | LErrString t _ _ | LErrUnexpected t =>
          exists e, In e errs /\ tfile (err_token e) = tfile t /\ tok_line (err_token e) = tok_line t
      end.
Proof.
  intros chk path text nodes errs rs items Hp Hl Hno it Hin.
  destruct (parse_run chk path text) as [items' [nodes' [errs' [Hl' [Hp' Hacc]]]]].
  rewrite Hl in Hl'. inversion Hl'; subst items'.
  rewrite Hp in Hp'. inversion Hp'; subst.
  change (acct (rev nodes') (rev errs') it).
  apply (acct_mono nodes' errs'); [intros x Hx; apply in_rev in Hx; exact Hx| intros x Hx; apply in_rev in Hx; exact Hx|].
  apply Hacc; assumption.
Qed.
