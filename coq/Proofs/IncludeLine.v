(* C15: the literal text of an include line
       blanks .include blanks "path" blanks newline
   is an [include_line] (Spec/IncludeSpec.v): it is one line, and in any file, with or without the
   debug checks, it lexes to exactly the three tokens `.include`, the string [path], newline. *)
From RV.Model Require Import Base I32 Imm Lexer Isa Parser Reader.
From RV.Spec Require Import PosSpec ParamSpec LineSpec IncludeSpec.
From RV.Proofs Require Import LexProofs LineProofs TotalProofs ErrProofs.
From Coq Require Import Lia ZifyN ZifyNat ZifyBool.
Open Scope nat_scope.

Definition blanks (w : str) : Prop := Forall (fun c => is_ws c = true) w.
Definition plain_path (p : str) : Prop :=
  Forall (fun c => c <> c_dquote /\ c <> c_nl /\ c <> c_bslash) p.

(* ================================================================================== *)
(* 1. the debug checks only check: what the checked lexer returns, the unchecked one     *)
(*    returns too                                                                        *)

Definition imp (a b : rnext) : Prop := forall r, a = Ok r -> b = Ok r.

Lemma imp_refl a : imp a a.
Proof. intros r H. exact H. Qed.

Lemma fin_imp t s p : imp (fin true t s p) (fin false t s p).
Proof.
  unfold fin. intros r H. destruct (check_tok true t) as [t'| |] eqn:E; cbn [bind] in H; try discriminate.
  apply check_tok_id in E. subst t'. exact H.
Qed.

Lemma b_one_imp file ty s p : imp (b_one true file ty s p) (b_one false file ty s p).
Proof. unfold b_one. destruct (consume s p) as [s' p']. apply fin_imp. Qed.

Lemma b_dot_imp rec rec' file s p :
  (forall s p, imp (rec s p) (rec' s p)) -> imp (b_dot rec true file s p) (b_dot rec' false file s p).
Proof.
  intros Hrec. unfold b_dot. destruct (scan stop_directive s p []) as [[acc s'] p'].
  destruct (consume s' p') as [s'' p'']. destruct (str_eqb (rev acc) [c_dot]); [apply Hrec|].
  apply fin_imp.
Qed.

Lemma b_hash_imp file s p : imp (b_hash true file s p) (b_hash false file s p).
Proof.
  unfold b_hash. destruct (scan stop_comment s p []) as [[acc s'] p'].
  destruct (consume s' p') as [s'' p'']. apply fin_imp.
Qed.

Lemma b_str_imp file s p : imp (b_str true file s p) (b_str false file s p).
Proof.
  unfold b_str. destruct (consume s p) as [s1 p1].
  destruct (acc_string (S (length s1)) s1 p1 []) as [[[[text s2] p2]|[[[epos k] s2] p2]]| |];
    cbn [bind]; try apply imp_refl.
  destruct (consume s2 p2) as [s3 p3]. apply fin_imp.
Qed.

Lemma b_sym_imp file c s p : imp (b_sym true file c s p) (b_sym false file c s p).
Proof.
  unfold b_sym. destruct (negb (is_symbol_item c)); [apply imp_refl|].
  destruct (scan stop_symbol s p []) as [[acc s'] p'].
  assert (Hsym : imp (let en := get_pos p' in
                      let '(s1, p1) := consume s' p' in
                      fin true (mktok (TSymbol (rev acc)) (mkrange (get_pos p) en) file) s1 p1)
                     (let en := get_pos p' in
                      let '(s1, p1) := consume s' p' in
                      fin false (mktok (TSymbol (rev acc)) (mkrange (get_pos p) en) file) s1 p1)).
  { cbv zeta. destruct (consume s' p') as [s1 p1]. apply fin_imp. }
  destruct s' as [|x [|colon r]]; try exact Hsym.
  destruct (N.eqb colon c_colon); [apply imp_refl|exact Hsym].
Qed.

Lemma body_imp rec rec' file s p :
  (forall s p, imp (rec s p) (rec' s p)) -> imp (body rec true file s p) (body rec' false file s p).
Proof.
  intros Hrec. unfold body. destruct s as [|c r]; [apply imp_refl|].
  destruct (N.eqb c c_nl); [apply b_one_imp|].
  destruct (N.eqb c c_lparen); [apply b_one_imp|].
  destruct (N.eqb c c_rparen); [apply b_one_imp|].
  destruct (N.eqb c c_dot); [apply b_dot_imp; exact Hrec|].
  destruct (N.eqb c c_hash); [apply b_hash_imp|].
  destruct (N.eqb c c_dquote); [apply b_str_imp|].
  destruct (N.eqb c c_squote); [apply imp_refl|].
  apply b_sym_imp.
Qed.

Lemma next_imp file : forall f s p, imp (next f true file s p) (next f false file s p).
Proof.
  induction f as [|f IH]; intros s p; [apply imp_refl|].
  rewrite !next_unfold. destruct (skip_ws s p) as [s1 p1].
  destruct (skip_dots (S (length s1)) s1 p1) as [[s2 p2]| |]; cbn [bind]; try apply imp_refl.
  apply body_imp. exact IH.
Qed.

Lemma lex_loop_imp file : forall f s p acc r,
  lex_loop f true file s p acc = Ok r -> lex_loop f false file s p acc = Ok r.
Proof.
  induction f as [|f IH]; intros s p acc r H; [discriminate|].
  cbn [lex_loop] in H |- *.
  destruct (next (S (length s)) true file s p) as [x| |] eqn:En; cbn [bind] in H; try discriminate.
  rewrite (next_imp file _ _ _ _ En). cbn [bind].
  destruct x as [[[it s'] p']|]; [apply IH|]; exact H.
Qed.

Lemma lex_all_imp file s r : lex_all true file s = Ok r -> lex_all false file s = Ok r.
Proof. unfold lex_all. apply lex_loop_imp. Qed.

(* ================================================================================== *)
(* 2. generic facts about the scanning helpers                                          *)

Lemma ws_not_sym c : is_ws c = true -> is_symbol_char c = false.
Proof.
  unfold is_ws. intros H.
  destruct (N.eqb c c_space) eqn:E1; [apply N.eqb_eq in E1; subst c; reflexivity|].
  destruct (N.eqb c c_tab) eqn:E2; [apply N.eqb_eq in E2; subst c; reflexivity|].
  destruct (N.eqb c c_comma) eqn:E3; [apply N.eqb_eq in E3; subst c; reflexivity|].
  destruct (N.eqb c c_cr) eqn:E4; [apply N.eqb_eq in E4; subst c; reflexivity|].
  discriminate H.
Qed.

Lemma skip_ws_blanks w : blanks w -> forall c r p, is_ws c = false ->
  skip_ws (w ++ c :: r) p = (c :: r, advs w p).
Proof.
  intros Hw. induction Hw as [|x w Hx Hw IH]; intros c r p Hc.
  - cbn [app skip_ws]. rewrite Hc. reflexivity.
  - cbn [app skip_ws]. rewrite Hx. rewrite advs_cons. apply IH. exact Hc.
Qed.

Lemma acc_string_plain p : plain_path p -> forall f R q acc, length p < f ->
  exists q', acc_string f (p ++ c_dquote :: R) q acc = Ok (inl (rev acc ++ p, c_dquote :: R, q')).
Proof.
  intros Hp. induction Hp as [|x p Hx Hp IH]; intros f R q acc Hf.
  - destruct f as [|f]; [inversion Hf|]. exists q. cbn [app acc_string].
    rewrite N.eqb_refl. rewrite app_nil_r. reflexivity.
  - destruct f as [|f]; [inversion Hf|]. destruct Hx as [Hq [Hn Hb]].
    cbn [app acc_string].
    apply N.eqb_neq in Hq. apply N.eqb_neq in Hn. apply N.eqb_neq in Hb.
    rewrite Hq, Hn, Hb. cbn [consume].
    destruct (IH f R (adv x q) (x :: acc)) as [q' Hq']; [cbn [length] in Hf; lia|].
    exists q'. rewrite Hq'. cbn [rev]. rewrite <- app_assoc. reflexivity.
Qed.

(* ================================================================================== *)
(* 3. the three tokens                                                                   *)

Definition dinc : str := [46; 105; 110; 99; 108; 117; 100; 101]%N.

Lemma dinc_eq : «".include"» = dinc.
Proof. reflexivity. Qed.

Lemma dinc_dir : dir_from_str dinc = Some DInclude.
Proof. vm_compute. reflexivity. Qed.

Lemma scan_go stop c r p acc : stop (hd_opt r) = false ->
  scan stop (c :: r) p acc = scan stop r (adv c p) (c :: acc).
Proof. intros H. rewrite scan_cons, H. reflexivity. Qed.

Lemma scan_end stop c r p acc : stop (hd_opt r) = true ->
  scan stop (c :: r) p acc = (c :: acc, c :: r, p).
Proof. intros H. rewrite scan_cons, H. reflexivity. Qed.

Lemma scan_dinc c r p : is_symbol_char c = false ->
  exists p', scan stop_directive (dinc ++ c :: r) p [] = (rev dinc, 101%N :: c :: r, p').
Proof.
  intros Hc. unfold dinc. cbn [app]. eexists.
  do 7 (rewrite scan_go by reflexivity).
  rewrite scan_end; [reflexivity|]. cbn [hd_opt stop_directive]. rewrite Hc. reflexivity.
Qed.

Lemma not_ws_dot : is_ws c_dot = false. Proof. reflexivity. Qed.
Lemma not_ws_dquote : is_ws c_dquote = false. Proof. reflexivity. Qed.
Lemma not_ws_nl : is_ws c_nl = false. Proof. reflexivity. Qed.

(* the directive: the text that follows starts with a character that is not a symbol char *)
Lemma next_dir file w c r p : blanks w -> is_symbol_char c = false ->
  exists rg p', forall f, next (S f) false file (w ++ dinc ++ c :: r) p =
    Ok (Some (LTok (mktok (TDirective dinc) rg file), c :: r, p')).
Proof.
  intros Hw Hc. destruct (scan_dinc c r (advs w p) Hc) as [p' Hs].
  eexists. eexists. intros f. rewrite next_unfold.
  change (dinc ++ c :: r) with (c_dot :: [105; 110; 99; 108; 117; 100; 101]%N ++ c :: r).
  rewrite (skip_ws_blanks w Hw c_dot _ p not_ws_dot).
  change (c_dot :: [105; 110; 99; 108; 117; 100; 101]%N ++ c :: r) with (dinc ++ c :: r).
  assert (Hld : lone_dot (dinc ++ c :: r) = false) by reflexivity.
  cbn [skip_dots]. rewrite Hld. cbn [bind].
  assert (Hb : forall rec q, body rec false file (dinc ++ c :: r) q = b_dot rec false file (dinc ++ c :: r) q)
    by reflexivity.
  rewrite Hb. unfold b_dot.
  rewrite Hs. cbn [consume].
  rewrite rev_involutive.
  assert (Hne : str_eqb dinc [c_dot] = false) by reflexivity. rewrite Hne.
  unfold fin, check_tok. cbn [bind]. reflexivity.
Qed.

(* the string *)
Lemma next_str file w path R p : blanks w -> plain_path path ->
  exists rg p', forall f, next (S f) false file (w ++ c_dquote :: path ++ c_dquote :: R) p =
    Ok (Some (LTok (mktok (TString path) rg file), R, p')).
Proof.
  intros Hw Hp.
  destruct (acc_string_plain path Hp (S (length (path ++ c_dquote :: R))) R (adv c_dquote (advs w p)) [])
    as [q' Hq'].
  { rewrite app_length. cbn [length]. lia. }
  eexists. eexists. intros f. rewrite next_unfold.
  rewrite (skip_ws_blanks w Hw c_dquote _ p not_ws_dquote).
  assert (Hld : forall X, lone_dot (c_dquote :: X) = false) by reflexivity.
  cbn [skip_dots]. rewrite Hld. cbn [bind].
  assert (Hb : forall rec X q, body rec false file (c_dquote :: X) q = b_str false file (c_dquote :: X) q)
    by reflexivity.
  rewrite Hb. unfold b_str. cbn [consume].
  rewrite Hq'. cbn [bind rev app consume].
  unfold fin, check_tok. cbn [bind]. reflexivity.
Qed.

(* the newline that ends the text *)
Lemma next_nl file w p : blanks w ->
  exists rg p', forall f, next (S f) false file (w ++ [c_nl]) p =
    Ok (Some (LTok (mktok TNewline rg file), [], p')).
Proof.
  intros Hw. eexists. eexists. intros f. rewrite next_unfold.
  rewrite (skip_ws_blanks w Hw c_nl [] p not_ws_nl).
  assert (Hld : lone_dot [c_nl] = false) by reflexivity.
  cbn [skip_dots]. rewrite Hld. cbn [bind].
  assert (Hb : forall rec q, body rec false file [c_nl] q = b_one false file TNewline [c_nl] q)
    by reflexivity.
  rewrite Hb. unfold b_one. cbn [consume].
  unfold fin, check_tok. cbn [bind]. reflexivity.
Qed.

Lemma next_end f chk file p : next (S f) chk file [] p = Ok None.
Proof. reflexivity. Qed.

(* ================================================================================== *)
(* 4. the whole line, without the debug checks                                          *)

Definition inc_text (p w1 w2 w3 : str) : str :=
  w1 ++ «".include"» ++ w2 ++ [c_dquote] ++ p ++ [c_dquote] ++ w3 ++ [c_nl].

(* the text after the directive starts with a character that is not a symbol char *)
Lemma after_dir w2 X : blanks w2 ->
  exists c r, w2 ++ c_dquote :: X = c :: r /\ is_symbol_char c = false.
Proof.
  intros Hw. destruct Hw as [|x w Hx Hw].
  - exists c_dquote, X. split; reflexivity.
  - exists x, (w ++ c_dquote :: X). split; [reflexivity|apply ws_not_sym; exact Hx].
Qed.

Lemma lex_loop_inc file p w1 w2 w3 k : blanks w1 -> blanks w2 -> blanks w3 -> plain_path p ->
  exists d s n, lex_loop (4 + k) false file (inc_text p w1 w2 w3) cur0 [] = Ok [LTok d; LTok s; LTok n] /\
    tt d = TDirective dinc /\ tt s = TString p /\ tt n = TNewline.
Proof.
  intros H1 H2 H3 Hp. unfold inc_text. rewrite dinc_eq.
  change ([c_dquote] ++ p ++ [c_dquote] ++ w3 ++ [c_nl]) with (c_dquote :: p ++ c_dquote :: w3 ++ [c_nl]).
  destruct (after_dir w2 (p ++ c_dquote :: w3 ++ [c_nl]) H2) as [c [r [Hcr Hc]]].
  destruct (next_dir file w1 c r cur0 H1 Hc) as [rg1 [q1 N1]].
  rewrite <- Hcr in N1.
  destruct (next_str file w2 p (w3 ++ [c_nl]) q1 H2 Hp) as [rg2 [q2 N2]].
  destruct (next_nl file w3 q2 H3) as [rg3 [q3 N3]].
  exists (mktok (TDirective dinc) rg1 file), (mktok (TString p) rg2 file), (mktok TNewline rg3 file).
  split; [|repeat split].
  change (4 + k) with (S (S (S (S k)))).
  cbn [lex_loop]. rewrite N1. cbn [bind].
  cbn [lex_loop]. rewrite N2. cbn [bind].
  cbn [lex_loop]. rewrite N3. cbn [bind].
  destruct k; reflexivity.
Qed.

Lemma inc_text_length p w1 w2 w3 : 4 <= S (S (length (inc_text p w1 w2 w3))).
Proof. unfold inc_text. rewrite dinc_eq. rewrite !app_length. cbn [length dinc]. lia. Qed.

Lemma lex_all_inc file p w1 w2 w3 : blanks w1 -> blanks w2 -> blanks w3 -> plain_path p ->
  exists d s n, lex_all false file (inc_text p w1 w2 w3) = Ok [LTok d; LTok s; LTok n] /\
    tt d = TDirective dinc /\ tt s = TString p /\ tt n = TNewline.
Proof.
  intros H1 H2 H3 Hp. unfold lex_all.
  pose proof (inc_text_length p w1 w2 w3) as Hl.
  replace (S (S (length (inc_text p w1 w2 w3)))) with (4 + (length (inc_text p w1 w2 w3) - 2)) by lia.
  apply lex_loop_inc; assumption.
Qed.

(* ================================================================================== *)
(* 5. one line                                                                           *)

Lemma blanks_nonl w : blanks w -> ~ In c_nl w.
Proof.
  intros Hw Hin. unfold blanks in Hw. rewrite Forall_forall in Hw. specialize (Hw _ Hin). discriminate Hw.
Qed.

Lemma plain_nonl p : plain_path p -> ~ In c_nl p.
Proof.
  intros Hp Hin. unfold plain_path in Hp. rewrite Forall_forall in Hp.
  destruct (Hp _ Hin) as [_ [Hn _]]. apply Hn. reflexivity.
Qed.

Lemma dinc_nonl : ~ In c_nl dinc.
Proof. unfold dinc. cbn [In]. intros H. repeat (destruct H as [H|H]; [discriminate H|]). exact H. Qed.

Lemma inc_text_one_line p w1 w2 w3 : blanks w1 -> blanks w2 -> blanks w3 -> plain_path p ->
  one_line (inc_text p w1 w2 w3).
Proof.
  intros H1 H2 H3 Hp. exists (w1 ++ dinc ++ w2 ++ [c_dquote] ++ p ++ [c_dquote] ++ w3). split.
  - unfold inc_text. rewrite dinc_eq. rewrite <- !app_assoc. reflexivity.
  - intros Hin.
    apply in_app_or in Hin. destruct Hin as [Hin|Hin]; [exact (blanks_nonl _ H1 Hin)|].
    apply in_app_or in Hin. destruct Hin as [Hin|Hin]; [exact (dinc_nonl Hin)|].
    apply in_app_or in Hin. destruct Hin as [Hin|Hin]; [exact (blanks_nonl _ H2 Hin)|].
    apply in_app_or in Hin. destruct Hin as [Hin|Hin]; [destruct Hin as [Hin|[]]; discriminate Hin|].
    apply in_app_or in Hin. destruct Hin as [Hin|Hin]; [exact (plain_nonl _ Hp Hin)|].
    apply in_app_or in Hin. destruct Hin as [Hin|Hin]; [destruct Hin as [Hin|[]]; discriminate Hin|].
    exact (blanks_nonl _ H3 Hin).
Qed.

(* ================================================================================== *)
(* 6. the theorem                                                                        *)

Theorem include_line_literal : forall p w1 w2 w3,
  blanks w1 -> blanks w2 -> blanks w3 -> plain_path p ->
  include_line p (w1 ++ «".include"» ++ w2 ++ [c_dquote] ++ p ++ [c_dquote] ++ w3 ++ [c_nl]).
Proof.
  intros p w1 w2 w3 H1 H2 H3 Hp. change (include_line p (inc_text p w1 w2 w3)).
  split; [apply inc_text_one_line; assumption|].
  intros chk file.
  destruct (lex_all_inc file p w1 w2 w3 H1 H2 H3 Hp) as [d [s [n [Hl [Hd [Hs Hn]]]]]].
  exists [LTok d; LTok s; LTok n]. split.
  - destruct chk; [|exact Hl].
    destruct (lex_total true file (inc_text p w1 w2 w3)) as [il Hil].
    pose proof (lex_all_imp _ _ _ Hil) as Hf. rewrite Hl in Hf. inversion Hf; subst il. exact Hil.
  - exists d, s, n. split; [reflexivity|]. split; [|split].
    + exists dinc. split; [exact Hd|exact dinc_dir].
    + left. exact Hs.
    + exact Hn.
Qed.

Print Assumptions include_line_literal.
