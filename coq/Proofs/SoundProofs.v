(* C01 - soundness of the available-value analysis on the RV32IM machine of Spec/Rv32.v:
   every claimed register value and stack-slot value is true on every supported execution.

   Main results (end of file):
     transfer_sound              one node: incoming facts true before  =>  outgoing facts true after
     meet_regs_RCP/meet_mems_MCP the meet over all predecessors is implied by each predecessor's outs
     claims_hold_on_executions   C01_statement of Props/C01.v   (+ ADDED premises, see below)
     lint_inputs_true            C01_corollaries_statement      (+ the same premises)

   ADDED premises (each marked ADDED where it is defined / used):
     Sym g        - successor and predecessor lists are inverse (Spec/CfgSpec.v; C03 proves it for
                    pipeline graphs).  The equations define rin(j) from `prevs j`, the machine
                    moves along `nexts i`; without symmetry nothing relates them.
     no_reentry g - no edge leads into an entry node.  COUNTEREXAMPLE without it: `main: li s0,5`
                    falling through into `f:` (a function entry): rout(f-entry) claims
                    s0 = Orig(s0,0) but the machine has s0 = 5 <> its value at the start.
     all_wf g     - three typing invariants of the Rust ParserNode that the model's types do not
                    enforce: register numbers < 32; I-type immediates are 32-bit; the mnemonic of
                    a register-register node is a register-register arithmetic mnemonic.
                    Counterexamples are given at `node_wf`.
   No other hypothesis was strengthened; `supported_node`, `supported_at`, `srun`, `all_supported`
   are verbatim copies of Props/C01.v.  (`srun` is an Inductive: the copy in Props/C01.v is a
   different inductive type, so Props/C01.v needs the two-line bridge
   `induction 1; [eapply srun_start|eapply srun_step]; eauto` instead of a bare `exact`.)

   Invariant carried along an execution (Greg/Gmem below), stronger than the claims themselves:
   every entry of the maps (not only the first per key) is true; no key x0; keys and the registers
   of `ARegScalar` are < 32; `ARegScalar` offsets are 0; `AOrig` offsets are 32-bit; no value
   `AValueInCsr`; every memory key is `MStack off` with `off` inside the slot window.  This makes
   arbitrary (non-least) fixed points harmless: facts are only trusted along the executed path,
   starting from the fresh maps of the entry node. *)
From RV.Model Require Import Base I32 Lexer Isa Parser Cfg Avail.
From RV.Spec Require Import Rv32 AvailSpec FixSpec CfgSpec.
From RV.Spec Require FoldSpec.
From RV.Proofs Require Import FoldProofs.
From Coq Require Import Lia ZArith NArith List Bool.
Open Scope Z_scope.

(* ==== PART 1: arithmetic, register sets, equality tests, maps ================================ *)

(* ---- 32-bit arithmetic ----------------------------------------------------------------- *)

Lemma two32_val : two32 = 4294967296. Proof. reflexivity. Qed.

Lemma wrap32_add_r a b : wrap32 (a + wrap32 b) = wrap32 (a + b).
Proof.
  apply wrap32_congr. rewrite Z.add_mod by apply two32_nz.
  rewrite wrap32_mod. rewrite <- Z.add_mod by apply two32_nz. reflexivity.
Qed.

Lemma wrap32_add_l a b : wrap32 (wrap32 a + b) = wrap32 (a + b).
Proof. rewrite Z.add_comm, wrap32_add_r, Z.add_comm. reflexivity. Qed.

Lemma wrap32_sub_l a b : wrap32 (wrap32 a - b) = wrap32 (a - b).
Proof.
  replace (wrap32 a - b) with (wrap32 a + - b) by lia.
  rewrite wrap32_add_l. reflexivity.
Qed.

Lemma wrap32_0_r x : in32 x -> wrap32 (x + 0) = x.
Proof. intros. rewrite Z.add_0_r. now apply wrap32_id. Qed.

Lemma in32_0 : in32 0. Proof. unf. lia. Qed.

Lemma ma_mod a : ma a = a mod two32.
Proof. reflexivity. Qed.

Lemma ma_wrap32_add a k : ma (wrap32 a + k) = ma (a + k).
Proof.
  rewrite !ma_mod. rewrite Z.add_mod by apply two32_nz. rewrite wrap32_mod.
  rewrite <- Z.add_mod by apply two32_nz. reflexivity.
Qed.

Lemma ma_shift a b k : ma a = ma b -> ma (a + k) = ma (b + k).
Proof.
  rewrite !ma_mod. intros H. rewrite (Z.add_mod a), (Z.add_mod b) by apply two32_nz.
  now rewrite H.
Qed.

Lemma ma_small_diff a d : d <> 0 -> -two32 < d < two32 -> ma (a + d) <> ma a.
Proof.
  rewrite !ma_mod. unfold two32. intros Hd Hr H.
  Z.div_mod_to_equations. lia.
Qed.

Lemma ma_diff_ne a x y : x <> y -> -two32 < x - y < two32 -> ma (a + x) <> ma (a + y).
Proof.
  intros Hxy Hr. replace (a + x) with ((a + y) + (x - y)) by lia.
  apply ma_small_diff; lia.
Qed.

(* ---- memory reads ---------------------------------------------------------------------- *)

Lemma byte_at_congr s a b : ma a = ma b -> byte_at s a = byte_at s b.
Proof. unfold byte_at. now intros ->. Qed.

Lemma load_u4 s a :
  load_u s a 4 = byte_at s a + 256 * byte_at s (a + 1) + 65536 * byte_at s (a + 2) + 16777216 * byte_at s (a + 3).
Proof. reflexivity. Qed.

Lemma load32_congr s a b : ma a = ma b -> load32 s a = load32 s b.
Proof.
  intros H. unfold load32. rewrite !load_u4.
  rewrite (byte_at_congr s a b H).
  rewrite (byte_at_congr s (a + 1) (b + 1)) by now apply ma_shift.
  rewrite (byte_at_congr s (a + 2) (b + 2)) by now apply ma_shift.
  rewrite (byte_at_congr s (a + 3) (b + 3)) by now apply ma_shift.
  reflexivity.
Qed.

(* the word at a is the same in two states whose memories agree on its four bytes *)
Lemma load32_same_bytes s s' a :
  (forall j, 0 <= j < 4 -> mem s' (ma (a + j)) = mem s (ma (a + j))) -> load32 s' a = load32 s a.
Proof.
  intros H. unfold load32. rewrite !load_u4. unfold byte_at.
  rewrite <- (Z.add_0_r a) at 1 5.
  rewrite !H by lia. reflexivity.
Qed.

Lemma byte_range s a : 0 <= byte_at s a < 256.
Proof. unfold byte_at. apply Z.mod_pos_bound. lia. Qed.

Lemma load_u_in32 s a w signed :
  (w = 1 \/ w = 2 \/ w = 4) -> (w = 4 -> signed = true) ->
  in32 (if signed then (if Z.eqb w 4 then wrap32 (load_u s a w) else sext w (load_u s a w)) else load_u s a w).
Proof.
  intros Hw Hs.
  pose proof (byte_range s a). pose proof (byte_range s (a + 1)).
  destruct Hw as [-> | [-> | ->]].
  - unfold load_u, sext. cbn [Z.eqb Pos.eqb].
    change (2 ^ (8 * 1 - 1)) with 128. change (2 ^ (8 * 1)) with 256.
    destruct signed; [destruct (Z.ltb_spec (byte_at s a) 128)|]; unf; lia.
  - unfold load_u, sext. cbn [Z.eqb Pos.eqb].
    change (2 ^ (8 * 2 - 1)) with 32768. change (2 ^ (8 * 2)) with 65536.
    destruct signed; [destruct (Z.ltb_spec (byte_at s a + 256 * byte_at s (a + 1)) 32768)|]; unf; lia.
  - rewrite Hs by reflexivity. cbn [Z.eqb Pos.eqb]. apply wrap32_in32.
Qed.

(* a four-byte little-endian store followed by a word read gives the value back *)
Lemma bytes_reassemble v : 0 <= v < two32 ->
  (v / 2 ^ (8 * 0)) mod 256 + 256 * ((v / 2 ^ (8 * 1)) mod 256) + 65536 * ((v / 2 ^ (8 * 2)) mod 256)
  + 16777216 * ((v / 2 ^ (8 * 3)) mod 256) = v.
Proof.
  unfold two32. intros H.
  change (2 ^ (8 * 0)) with 1. change (2 ^ (8 * 1)) with 256.
  change (2 ^ (8 * 2)) with 65536. change (2 ^ (8 * 3)) with 16777216.
  Z.div_mod_to_equations. lia.
Qed.

(* ---- register sets --------------------------------------------------------------------- *)
Open Scope N_scope.

Lemma rs_mem_one r d : rs_mem r (rs_one d) = N.eqb d r.
Proof. unfold rs_mem, rs_one. rewrite N.shiftl_1_l. apply N.pow2_bits_eqb. Qed.

Lemma rs_mem_union r a b : rs_mem r (rs_union a b) = (rs_mem r a || rs_mem r b)%bool.
Proof. apply N.lor_spec. Qed.

Lemma rs_mem_diff r a b : rs_mem r (rs_diff a b) = (rs_mem r a && negb (rs_mem r b))%bool.
Proof. apply N.ldiff_spec. Qed.

Lemma rs_mem_empty r : rs_mem r rs_empty = false.
Proof. apply N.bits_0. Qed.

Lemma rs_mem_zero_set r : rs_mem r const_zero_set = N.eqb r 0.
Proof.
  change const_zero_set with (rs_union (rs_one 0) 0).
  rewrite rs_mem_union, rs_mem_one. unfold rs_mem. rewrite N.bits_0.
  rewrite orb_false_r. apply N.eqb_sym.
Qed.

Lemma lt32_all_regs r : r < 32 -> In r all_regs.
Proof.
  intros H.
  assert (E : r = N.of_nat (N.to_nat r)) by now rewrite N2Nat.id.
  assert (L : (N.to_nat r < 32)%nat) by lia.
  rewrite E. generalize dependent (N.to_nat r). intros n _ L.
  do 32 (destruct n as [|n]; [cbn; tauto|]). lia.
Qed.

Lemma all_regs_lt32 r : In r all_regs -> r < 32.
Proof. cbn. intros H. repeat (destruct H as [<- | H]; [reflexivity|]). destruct H. Qed.

(* a boolean property checked on x0..x31 holds for every register below 32 *)
Lemma forall_regs (P : N -> bool) : forallb P all_regs = true -> forall r, r < 32 -> P r = true.
Proof. intros H r Hr. rewrite forallb_forall in H. apply H, lt32_all_regs, Hr. Qed.

Lemma rs_elems_spec r s : In r (rs_elems s) -> r < 32 /\ rs_mem r s = true.
Proof. unfold rs_elems. rewrite filter_In. intros [H1 H2]. split; [now apply all_regs_lt32|exact H2]. Qed.

Lemma ge32_not_mem_small r s : (s < 2 ^ 32) -> 32 <= r -> rs_mem r s = false.
Proof.
  intros Hs Hr. unfold rs_mem. destruct (N.eq_dec s 0) as [->|Hz]; [apply N.bits_0|].
  apply N.bits_above_log2. apply N.log2_lt_pow2; [lia|].
  eapply N.lt_le_trans; [exact Hs|]. apply N.pow_le_mono_r; lia.
Qed.

Open Scope Z_scope.

(* ---- equality tests -------------------------------------------------------------------- *)

Lemma str_eqb_true : forall a b, str_eqb a b = true -> a = b.
Proof.
  induction a as [|x a IH]; destruct b as [|y b]; cbn; intros H; try discriminate; [reflexivity|].
  apply andb_true_iff in H. destruct H as [H1 H2]. apply N.eqb_eq in H1. f_equal; auto.
Qed.

(* values that the equality test of the maps identifies *)
Definition aval_sim (v w : aval) : Prop :=
  match v, w with
  | AAddr x, AAddr y => wv x = wv y
  | _, _ => v = w
  end.

Lemma aval_eqb_sim v w : aval_eqb v w = true -> aval_sim v w.
Proof.
  destruct v, w; cbn; intros H; try discriminate;
    repeat match goal with
           | H : (_ && _)%bool = true |- _ => apply andb_true_iff in H; destruct H
           | H : Z.eqb _ _ = true |- _ => apply Z.eqb_eq in H; subst
           | H : N.eqb _ _ = true |- _ => apply N.eqb_eq in H; subst
           | H : str_eqb _ _ = true |- _ => apply str_eqb_true in H; subst
           end; auto.
Qed.

Lemma memloc_eqb_true a b : memloc_eqb a b = true -> a = b.
Proof.
  destruct a, b; cbn; intros H; try discriminate;
    repeat match goal with
           | H : (_ && _)%bool = true |- _ => apply andb_true_iff in H; destruct H
           | H : Z.eqb _ _ = true |- _ => apply Z.eqb_eq in H; subst
           end; auto.
Qed.

(* the mnemonic tests that occur in the model and the machine *)
Lemma inst_eqb_refl i : inst_eqb i i = true.
Proof. destruct i; reflexivity. Qed.

Ltac inst_cases i := destruct i; try reflexivity; try (vm_compute; discriminate).

Lemma inst_eqb_lui i : inst_eqb i ILui = true -> i = ILui.
Proof. destruct i; vm_compute; intros H; try discriminate H; reflexivity. Qed.
Lemma inst_eqb_lw i : inst_eqb i ILw = true -> i = ILw.
Proof. destruct i; vm_compute; intros H; try discriminate H; reflexivity. Qed.
Lemma inst_eqb_sw i : inst_eqb i ISw = true -> i = ISw.
Proof. destruct i; vm_compute; intros H; try discriminate H; reflexivity. Qed.
Lemma inst_eqb_sb i : inst_eqb i ISb = true <-> i = ISb.
Proof. split; [destruct i; vm_compute; intros H; try discriminate H; reflexivity|intros ->; reflexivity]. Qed.
Lemma inst_eqb_sh i : inst_eqb i ISh = true <-> i = ISh.
Proof. split; [destruct i; vm_compute; intros H; try discriminate H; reflexivity|intros ->; reflexivity]. Qed.
Lemma inst_eqb_ecall i : inst_eqb i IEcall = true -> i = IEcall.
Proof. destruct i; vm_compute; intros H; try discriminate H; reflexivity. Qed.
Lemma inst_eqb_ebreak i : inst_eqb i IEbreak = true -> i = IEbreak.
Proof. destruct i; vm_compute; intros H; try discriminate H; reflexivity. Qed.

(* ---- finite maps: everything is stated through list membership ------------------------- *)

Lemma rm_get_In : forall m r v, rm_get r m = Some v -> In (r, v) m.
Proof.
  induction m as [|[k w] m IH]; cbn; intros r v H; [discriminate|].
  destruct (N.eqb_spec k r).
  - injection H as <-. subst. now left.
  - right. now apply IH.
Qed.

Lemma rm_insert_In : forall m r x k v, In (k, v) (rm_insert r x m) -> (k, v) = (r, x) \/ In (k, v) m.
Proof.
  induction m as [|[k0 w] m IH]; cbn; intros r x k v H.
  - destruct H as [H|[]]. left. now symmetry.
  - destruct (N.eqb k0 r).
    + destruct H as [H|H]; [left; now symmetry|right; now right].
    + destruct (N.ltb r k0).
      * destruct H as [H|H]; [left; now symmetry|right; exact H].
      * destruct H as [H|H]; [right; now left|].
        apply IH in H. destruct H; [now left|right; now right].
Qed.

Lemma mm_get_In : forall m l v, mm_get l m = Some v -> In (l, v) m.
Proof.
  induction m as [|[k w] m IH]; cbn; intros r v H; [discriminate|].
  destruct (memloc_eqb k r) eqn:E.
  - injection H as <-. apply memloc_eqb_true in E. subst. now left.
  - right. now apply IH.
Qed.

Lemma mm_insert_In : forall m r x k v, In (k, v) (mm_insert r x m) -> (k, v) = (r, x) \/ In (k, v) m.
Proof.
  induction m as [|[k0 w] m IH]; cbn; intros r x k v H.
  - destruct H as [H|[]]. left. now symmetry.
  - destruct (memloc_eqb k0 r).
    + destruct H as [H|H]; [left; now symmetry|right; now right].
    + destruct (memloc_ltb r k0).
      * destruct H as [H|H]; [left; now symmetry|right; exact H].
      * destruct H as [H|H]; [right; now left|].
        apply IH in H. destruct H; [now left|right; now right].
Qed.

(* entry-wise predicates *)
Definition RCP (P : reg -> aval -> Prop) (m : regmap) : Prop := forall k v, In (k, v) m -> P k v.
Definition MCP (P : memloc -> aval -> Prop) (m : memmap) : Prop := forall k v, In (k, v) m -> P k v.

Lemma RCP_nil (P : reg -> aval -> Prop) : RCP P []. Proof. intros k v []. Qed.
Lemma MCP_nil (P : memloc -> aval -> Prop) : MCP P []. Proof. intros k v []. Qed.

Lemma RCP_insert (P : reg -> aval -> Prop) r x m : P r x -> RCP P m -> RCP P (rm_insert r x m).
Proof. intros Hx Hm k v H. apply rm_insert_In in H. destruct H as [H|H]; [now inversion H|now apply Hm]. Qed.
Lemma MCP_insert (P : memloc -> aval -> Prop) r x m : P r x -> MCP P m -> MCP P (mm_insert r x m).
Proof. intros Hx Hm k v H. apply mm_insert_In in H. destruct H as [H|H]; [now inversion H|now apply Hm]. Qed.

Lemma RCP_filter (P : reg -> aval -> Prop) f m : RCP P m -> RCP P (filter f m).
Proof. intros Hm k v H. apply filter_In in H. now apply Hm. Qed.
Lemma MCP_filter (P : memloc -> aval -> Prop) f m : MCP P m -> MCP P (filter f m).
Proof. intros Hm k v H. apply filter_In in H. now apply Hm. Qed.

Lemma RCP_get (P : reg -> aval -> Prop) m r v : RCP P m -> rm_get r m = Some v -> P r v.
Proof. intros H G. apply H, rm_get_In, G. Qed.
Lemma MCP_get (P : memloc -> aval -> Prop) m l v : MCP P m -> mm_get l m = Some v -> P l v.
Proof. intros H G. apply H, mm_get_In, G. Qed.

Lemma RCP_fold {A} (P : reg -> aval -> Prop) (f : regmap -> A -> regmap) (Q : A -> Prop) :
  (forall o a, Q a -> RCP P o -> RCP P (f o a)) ->
  forall l o, (forall a, In a l -> Q a) -> RCP P o -> RCP P (fold_left f l o).
Proof.
  intros Hf. induction l as [|a l IH]; cbn; intros o Hl Ho; [exact Ho|].
  apply IH; [intros; apply Hl; now right|]. apply Hf; [apply Hl; now left|exact Ho].
Qed.
Lemma MCP_fold {A} (P : memloc -> aval -> Prop) (f : memmap -> A -> memmap) (Q : A -> Prop) :
  (forall o a, Q a -> MCP P o -> MCP P (f o a)) ->
  forall l o, (forall a, In a l -> Q a) -> MCP P o -> MCP P (fold_left f l o).
Proof.
  intros Hf. induction l as [|a l IH]; cbn; intros o Hl Ho; [exact Ho|].
  apply IH; [intros; apply Hl; now right|]. apply Hf; [apply Hl; now left|exact Ho].
Qed.

(* predicates that do not distinguish values the maps' equality identifies *)
Definition sim_closed {K} (P : K -> aval -> Prop) : Prop :=
  forall k v w, aval_sim v w -> P k v -> P k w.

Lemma aval_sim_sym v w : aval_sim v w -> aval_sim w v.
Proof. destruct v, w; cbn; intros H; try discriminate; auto. Qed.

Lemma rm_eqb_RCP (P : reg -> aval -> Prop) : sim_closed P -> forall a b, rm_eqb a b = true -> RCP P b -> RCP P a.
Proof.
  intros HP. induction a as [|[k v] a IH]; destruct b as [|[l w] b]; cbn; intros E Hb; try discriminate.
  - apply RCP_nil.
  - apply andb_true_iff in E. destruct E as [E E3]. apply andb_true_iff in E. destruct E as [E1 E2].
    apply N.eqb_eq in E1. subst l. apply aval_eqb_sim in E2.
    intros k' v' [H|H].
    + inversion H; subst. apply (HP _ w); [now apply aval_sim_sym|]. apply Hb. now left.
    + apply (IH b E3); [|exact H]. intros ? ? ?. apply Hb. now right.
Qed.

Lemma mm_eqb_MCP (P : memloc -> aval -> Prop) : sim_closed P -> forall a b, mm_eqb a b = true -> MCP P b -> MCP P a.
Proof.
  intros HP. induction a as [|[k v] a IH]; destruct b as [|[l w] b]; cbn; intros E Hb; try discriminate.
  - apply MCP_nil.
  - apply andb_true_iff in E. destruct E as [E E3]. apply andb_true_iff in E. destruct E as [E1 E2].
    apply memloc_eqb_true in E1. subst l. apply aval_eqb_sim in E2.
    intros k' v' [H|H].
    + inversion H; subst. apply (HP _ w); [now apply aval_sim_sym|]. apply Hb. now left.
    + apply (IH b E3); [|exact H]. intros ? ? ?. apply Hb. now right.
Qed.

Lemma rm_eqb_nil a : rm_eqb a [] = true -> a = [].
Proof. destruct a as [|[k v] a]; [reflexivity|discriminate]. Qed.
Lemma mm_eqb_nil a : mm_eqb a [] = true -> a = [].
Proof. destruct a as [|[k v] a]; [reflexivity|discriminate]. Qed.

(* lookups see through the maps' equality *)
Lemma rm_eqb_get : forall a b r, rm_eqb a b = true ->
  match rm_get r a, rm_get r b with
  | Some v, Some w => aval_sim v w
  | None, None => True
  | _, _ => False
  end.
Proof.
  induction a as [|[k v] a IH]; destruct b as [|[l w] b]; cbn; intros r E; try discriminate; [exact I|].
  apply andb_true_iff in E. destruct E as [E E3]. apply andb_true_iff in E. destruct E as [E1 E2].
  apply N.eqb_eq in E1. subst l. destruct (N.eqb k r); [now apply aval_eqb_sim|now apply IH].
Qed.

(* ---- the meet -------------------------------------------------------------------------- *)

Lemma opt_eqb_some o v : opt_aval_eqb o (Some v) = true -> exists w, o = Some w /\ aval_sim w v.
Proof. destruct o as [w|]; cbn; intros H; [|discriminate]. exists w. split; [reflexivity|now apply aval_eqb_sim]. Qed.

Lemma rm_meet_In a b k v : In (k, v) (rm_meet a b) ->
  In (k, v) a /\ exists w, In (k, w) b /\ aval_sim w v.
Proof.
  unfold rm_meet. rewrite filter_In. cbn. intros [H1 H2]. split; [exact H1|].
  apply opt_eqb_some in H2. destruct H2 as (w & G & S). exists w. split; [now apply rm_get_In|exact S].
Qed.

Lemma mm_meet_In a b k v : In (k, v) (mm_meet a b) ->
  In (k, v) a /\ exists w, In (k, w) b /\ aval_sim w v.
Proof.
  unfold mm_meet. rewrite filter_In. cbn. intros [H1 H2]. split; [exact H1|].
  apply opt_eqb_some in H2. destruct H2 as (w & G & S). exists w. split; [now apply mm_get_In|exact S].
Qed.

Lemma meet_fold_regs g : forall qs acc k v,
  In (k, v) (fold_left (fun acc q => match getn g q with Some c => rm_meet acc (rout c) | None => acc end) qs acc) ->
  In (k, v) acc /\
  forall q c, In q qs -> getn g q = Some c -> exists w, In (k, w) (rout c) /\ aval_sim w v.
Proof.
  induction qs as [|q qs IH]; cbn; intros acc k v H.
  - split; [exact H|]. intros ? ? [].
  - apply IH in H. destruct H as [H1 H2].
    destruct (getn g q) as [cq|] eqn:Eq.
    + apply rm_meet_In in H1. destruct H1 as [H1 H3]. split; [exact H1|].
      intros q' c [<-|Hq] G; [|now apply (H2 q')]. rewrite Eq in G. injection G as <-. exact H3.
    + split; [exact H1|]. intros q' c [<-|Hq] G; [congruence|now apply (H2 q')].
Qed.

Lemma meet_fold_mems g : forall qs acc k v,
  In (k, v) (fold_left (fun acc q => match getn g q with Some c => mm_meet acc (mout c) | None => acc end) qs acc) ->
  In (k, v) acc /\
  forall q c, In q qs -> getn g q = Some c -> exists w, In (k, w) (mout c) /\ aval_sim w v.
Proof.
  induction qs as [|q qs IH]; cbn; intros acc k v H.
  - split; [exact H|]. intros ? ? [].
  - apply IH in H. destruct H as [H1 H2].
    destruct (getn g q) as [cq|] eqn:Eq.
    + apply mm_meet_In in H1. destruct H1 as [H1 H3]. split; [exact H1|].
      intros q' c [<-|Hq] G; [|now apply (H2 q')]. rewrite Eq in G. injection G as <-. exact H3.
    + split; [exact H1|]. intros q' c [<-|Hq] G; [congruence|now apply (H2 q')].
Qed.

Lemma nth_opt_lt_len {A} : forall (l : list A) i x, nth_opt l i = Some x -> (i < length l)%nat.
Proof.
  induction l as [|y l IH]; intros [|i] x H; cbn in *; try discriminate; try lia.
  apply IH in H. lia.
Qed.

Lemma memn_In x l : memn x l = true <-> In x l.
Proof.
  induction l as [|y l IH]; cbn; [split; [discriminate|tauto]|].
  rewrite orb_true_iff, IH, Nat.eqb_eq. split; intros [H|H]; auto.
Qed.

(* every entry of the meet over all predecessors is (up to the maps' equality) an entry of the
   outgoing map of each predecessor that exists in the graph *)
Lemma meet_regs_entry g ps i ci k v :
  In i ps -> getn g i = Some ci -> In (k, v) (meet_regs g ps (all_idx g)) ->
  exists w, In (k, w) (rout ci) /\ aval_sim w v.
Proof.
  intros Hi Gi H. unfold meet_regs in H.
  assert (Hf : In i (filter (fun p => memn p (all_idx g)) ps)).
  { apply filter_In. split; [exact Hi|]. apply memn_In. unfold all_idx. apply in_seq.
    apply nth_opt_lt_len in Gi. lia. }
  destruct (filter (fun p => memn p (all_idx g)) ps) as [|p ps'] eqn:E; [destruct Hf|].
  apply meet_fold_regs in H. destruct H as [H1 H2].
  destruct Hf as [<-|Hf].
  - rewrite Gi in H1. exists v. split; [exact H1|]. destruct v; cbn; reflexivity.
  - now apply (H2 i ci).
Qed.

Lemma meet_mems_entry g ps i ci k v :
  In i ps -> getn g i = Some ci -> In (k, v) (meet_mems g ps (all_idx g)) ->
  exists w, In (k, w) (mout ci) /\ aval_sim w v.
Proof.
  intros Hi Gi H. unfold meet_mems in H.
  assert (Hf : In i (filter (fun p => memn p (all_idx g)) ps)).
  { apply filter_In. split; [exact Hi|]. apply memn_In. unfold all_idx. apply in_seq.
    apply nth_opt_lt_len in Gi. lia. }
  destruct (filter (fun p => memn p (all_idx g)) ps) as [|p ps'] eqn:E; [destruct Hf|].
  apply meet_fold_mems in H. destruct H as [H1 H2].
  destruct Hf as [<-|Hf].
  - rewrite Gi in H1. exists v. split; [exact H1|]. destruct v; cbn; reflexivity.
  - now apply (H2 i ci).
Qed.

Lemma meet_regs_RCP (P : reg -> aval -> Prop) g ps i ci : sim_closed P ->
  In i ps -> getn g i = Some ci -> RCP P (rout ci) -> RCP P (meet_regs g ps (all_idx g)).
Proof.
  intros HP Hi Gi Hc k v H. destruct (meet_regs_entry g ps i ci k v Hi Gi H) as (w & Hw & S).
  apply (HP k w v S). now apply Hc.
Qed.

Lemma meet_mems_MCP (P : memloc -> aval -> Prop) g ps i ci : sim_closed P ->
  In i ps -> getn g i = Some ci -> MCP P (mout ci) -> MCP P (meet_mems g ps (all_idx g)).
Proof.
  intros HP Hi Gi Hc k v H. destruct (meet_mems_entry g ps i ci k v Hi Gi H) as (w & Hw & S).
  apply (HP k w v S). now apply Hc.
Qed.

(* ==== PART 2: the supported subset, the invariants, the machine's view of each node kind ==== *)

(* ---- local copies of the helper definitions of Props/C01.v (identical bodies) ---------- *)
Definition rv64_only (i : inst) : bool :=
  match i with
  | IAddw | ISllw | ISraw | ISrlw | IDivw | IRemw | IRemuw | IAddiw | ISlliw | ISraiw | ISrliw | ILwu => true
  | _ => false
  end.
Definition supported_node (n : pnode) : Prop :=
  match n with
  | PCsr _ _ _ _ _ | PCsrI _ _ _ _ _ => False
  | PArith i _ _ _ _ | PIArith i _ _ _ _ | PLoad i _ _ _ _ => rv64_only (wv i) = false
  | PJumpLinkR _ _ _ _ _ => is_return n = true
  | PBasic i _ => inst_eqb (wv i) IUret = false
  | _ => True
  end.
Definition far_from_stack (s0 : mstate) (a : Z) : Prop :=
  forall k, -2097152 <= k < 2097152 -> ma a <> ma (rget s0 2 + k).
Definition supported_at (s0 s : mstate) (c : cnode) : Prop :=
  match cn c with
  | PStore i rs1 _ imm _ =>
      if N.eqb (wv rs1) 2 then
        exists cur, stack_offset (rin c) = Some cur /\ slot_window (cur + wv imm) /\ slot_window cur
      else forall k, 0 <= k < store_width (wv i) -> far_from_stack s0 (rget s (wv rs1) + wv imm + k)
  | PJumpLink _ rd _ _ => N.eqb (wv rd) 1 = true ->
      exists cur, stack_offset (rin c) = Some cur /\ slot_window cur
  | _ => True
  end.
Inductive srun (addr_of : str -> Z) (g : cfg) (s0 : mstate) : nat -> mstate -> Prop :=
| srun_start : forall e c, nth_opt (gnodes g) e = Some c -> is_any_entry (cn c) = true -> srun addr_of g s0 e s0
| srun_step : forall i s c j s', srun addr_of g s0 i s -> nth_opt (gnodes g) i = Some c ->
    supported_at s0 s c -> step addr_of g i s j s' -> srun addr_of g s0 j s'.
Definition all_supported (g : cfg) : Prop :=
  forall i c, nth_opt (gnodes g) i = Some c -> supported_node (cn c).

(* ---- ADDED hypotheses (see the report at the end of the file) -------------------------- *)

(* ADDED: no edge of the graph leads into an entry node, because the analysis treats every entry
   node as the start of a fresh activation (its outgoing facts say "register = its value at
   entry"); an execution that falls or jumps into a function entry later on falsifies them. *)
Definition no_reentry (g : cfg) : Prop :=
  forall i c j cj, nth_opt (gnodes g) i = Some c -> In j (nexts c) -> nth_opt (gnodes g) j = Some cj ->
    is_any_entry (cn cj) = false.

(* ADDED: what the types of the Rust parser guarantee about a node but the model's types
   (reg := N, immediates : Z, one `inst` type for all node kinds) do not:
   (a) the destination register of a node, and the register stored by a store, are below 32.
       COUNTEREXAMPLE otherwise: `addi x40, x0, 5` followed by a call: x40 is in no kill set
       (`rs_mem 40 _ = false`), so the claim x40 = 5 survives the call, while the machine's callee
       may change x40 (`callee_preserves 40 = false`); likewise `sw x40, 0(sp)` records
       slot = x40 and the slot fact survives the call although x40 changes.
   (b) the immediate of an I-type arithmetic node is a 32-bit value.  COUNTEREXAMPLE otherwise:
       `addi t0, x0, 2^32+5` makes the analysis claim t0 = 2^32+5 while the machine computes 5.
   (c) the mnemonic of a register-register arithmetic node is a register-register arithmetic
       mnemonic.  COUNTEREXAMPLE otherwise: the (unparsable) node `PArith lui t0 x0 x0`:
       `gen_reg_value` claims t0 = 0 (`math_op` is None, the default 0 is used), the machine
       leaves the result of a non-arithmetic mnemonic open. *)
Definition node_wf (n : pnode) : Prop :=
  (forall w, writes_to n = Some w -> (wv w < 32)%N) /\
  match n with
  | PArith i _ _ _ _ => inst_kind (wv i) = KArith
  | PIArith _ _ _ imm _ => in32 (wv imm)
  | PStore _ _ rs2 _ _ => (wv rs2 < 32)%N
  | _ => True
  end.
Definition all_wf (g : cfg) : Prop :=
  forall i c, nth_opt (gnodes g) i = Some c -> node_wf (cn c).

(* ---- the invariant carried along an execution ------------------------------------------ *)
Section Inv.
  Variable addr_of : str -> Z.

  (* syntactic side conditions on recorded values: relative values are recorded with offset 0 only,
     offsets of original values are 32-bit, and nothing refers to CSR state *)
  Definition wfv (v : aval) : Prop :=
    match v with
    | ARegScalar r k => k = 0 /\ (r < 32)%N
    | AOrig r k => in32 k
    | AValueInCsr _ => False
    | _ => True
    end.

  Definition Greg (s0 s : mstate) (k : reg) (v : aval) : Prop :=
    k <> 0%N /\ (k < 32)%N /\ wfv v /\ holds addr_of s0 s v (rget s k).
  Definition Gmem (s0 s : mstate) (l : memloc) (v : aval) : Prop :=
    wfv v /\ exists off, l = MStack off /\ slot_window off /\ holds addr_of s0 s v (load32 s (rget s0 2 + off)).
  Definition RC (s0 s : mstate) : regmap -> Prop := RCP (Greg s0 s).
  Definition MC (s0 s : mstate) : memmap -> Prop := MCP (Gmem s0 s).

  Lemma wfv_sim v w : aval_sim v w -> wfv v -> wfv w.
  Proof. destruct v, w; cbn; intros H; try discriminate H; try (injection H as <- <-); try (injection H as <-); auto. Qed.

  Lemma holds_sim s0 s v w x : aval_sim v w -> holds addr_of s0 s v x -> holds addr_of s0 s w x.
  Proof.
    destruct v, w; cbn; intros H; try discriminate H; try (injection H as <- <-); try (injection H as <-); auto.
    now rewrite H.
  Qed.

  Lemma Greg_closed s0 s : sim_closed (Greg s0 s).
  Proof.
    intros k v w S (H1 & H2 & H3 & H4).
    split; [exact H1|]. split; [exact H2|]. split; [eapply wfv_sim; eauto|eapply holds_sim; eauto].
  Qed.
  Lemma Gmem_closed s0 s : sim_closed (Gmem s0 s).
  Proof.
    intros k v w S (H1 & off & H2 & H3 & H4). split; [eapply wfv_sim; eauto|].
    exists off. split; [exact H2|]. split; [exact H3|]. eapply holds_sim; eauto.
  Qed.

  Lemma RC_reg_claims s0 s m : RC s0 s m -> reg_claims addr_of s0 s m.
  Proof. intros H r v G. apply rm_get_In in G. apply H in G. apply G. Qed.
  Lemma MC_mem_claims s0 s m : MC s0 s m -> mem_claims addr_of s0 s m.
  Proof.
    intros H off v G _. apply mm_get_In in G. apply H in G. destruct G as (_ & off' & E & _ & Hh).
    injection E as <-. exact Hh.
  Qed.

  Lemma RC_get s0 s m r v : RC s0 s m -> rm_get r m = Some v ->
    r <> 0%N /\ (r < 32)%N /\ wfv v /\ holds addr_of s0 s v (rget s r).
  Proof. intros H G. exact (RCP_get _ _ _ _ H G). Qed.
End Inv.

(* ---- arithmetic of the machine = arithmetic of the analysis ---------------------------- *)

Lemma spec_of_op o : spec_of o = spec_op o.
Proof. destruct o; reflexivity. Qed.

Lemma alu_math i : rv64_only i = false -> alu i = option_map spec_of (math_op i).
Proof. destruct i; cbn; intros H; try discriminate H; reflexivity. Qed.

Lemma kind_arith_math i : inst_kind i = KArith -> rv64_only i = false -> exists o, math_op i = Some o.
Proof. destruct i; cbn; intros K H; try discriminate K; try discriminate H; eexists; reflexivity. Qed.

Lemma scalar_math i o : scalar_op i = Some o -> math_op i = Some o /\ rv64_only i = false /\ (o = MAdd \/ o = MSub).
Proof. destruct i; cbn; intros H; try discriminate H; injection H as <-; auto. Qed.

Lemma eval_operate o x y : in32 x -> in32 y ->
  FoldSpec.eval (spec_of o) x y = operate o x y /\ in32 (operate o x y).
Proof.
  intros Hx Hy. rewrite spec_of_op. destruct (fold_correct o x y Hx Hy) as [E I]. split; [now symmetry|exact I].
Qed.

Lemma eval_in32 op x y : in32 x -> in32 y -> in32 (FoldSpec.eval op x y).
Proof.
  intros Hx Hy.
  assert (exists o, op = spec_of o) as [o ->].
  { destruct op; [exists MAdd|exists MAnd|exists MOr|exists MSll|exists MSlt|exists MSltu|exists MSra|exists MSrl
                  |exists MSub|exists MXor|exists MMul|exists MMulh|exists MMulhsu|exists MMulhu|exists MDiv
                  |exists MDivu|exists MRem|exists MRemu]; reflexivity. }
  destruct (eval_operate o x y Hx Hy) as [-> I]. exact I.
Qed.

Lemma operate_add x y : operate MAdd x y = wrap32 (x + y). Proof. reflexivity. Qed.
Lemma operate_sub x y : operate MSub x y = wrap32 (x - y). Proof. reflexivity. Qed.

(* ---- registers of the machine ---------------------------------------------------------- *)

Lemma rget_0 s : rget s 0 = 0. Proof. reflexivity. Qed.

Lemma rget_rset s rd v r :
  rget (rset s rd v) r = if (N.eqb r rd && negb (N.eqb rd 0))%bool then v else rget s r.
Proof.
  unfold rset. destruct (N.eqb_spec rd 0) as [->|Hd].
  - now rewrite andb_false_r.
  - rewrite andb_true_r. unfold rget. cbn [regs].
    destruct (N.eqb_spec r 0) as [->|Hr].
    + destruct (N.eqb_spec 0 rd); [congruence|reflexivity].
    + reflexivity.
Qed.

Lemma rget_rset_same s rd v : rd <> 0%N -> rget (rset s rd v) rd = v.
Proof. intros H. rewrite rget_rset, N.eqb_refl. destruct (N.eqb_spec rd 0); [contradiction|reflexivity]. Qed.

Lemma rget_rset_other s rd v r : r <> rd -> rget (rset s rd v) r = rget s r.
Proof. intros H. rewrite rget_rset. destruct (N.eqb_spec r rd); [contradiction|reflexivity]. Qed.

Lemma mem_rset s rd v : mem (rset s rd v) = mem s.
Proof. unfold rset. destruct (N.eqb rd 0); reflexivity. Qed.

Lemma load32_rset s rd v a : load32 (rset s rd v) a = load32 s a.
Proof. apply load32_same_bytes. intros. now rewrite mem_rset. Qed.

Lemma regs_in32_rset s rd v : regs_in32 s -> in32 v -> regs_in32 (rset s rd v).
Proof. intros H Hv r. rewrite rget_rset. destruct (_ && _)%bool; [exact Hv|apply H]. Qed.

Lemma rget_regs_eq s s' r : regs s' = regs s -> rget s' r = rget s r.
Proof. unfold rget. now intros ->. Qed.

(* ---- what the machine does at each kind of node ---------------------------------------- *)
Section Eff.
  Variable addr_of : str -> Z.

  Ltac pinj :=
    match goal with H : @eq pnode _ _ |- _ => injection H; clear H; intros; subst end.

  Lemma eff_arith i rd rs1 rs2 rt s s' : effect addr_of (PArith i rd rs1 rs2 rt) s s' ->
    match alu (wv i) with
    | Some op => s' = rset s (wv rd) (FoldSpec.eval op (rget s (wv rs1)) (rget s (wv rs2)))
    | None => exists v, in32 v /\ s' = rset s (wv rd) v
    end.
  Proof. inversion 1; try discriminate; pinj; auto. Qed.

  Lemma eff_iarith i rd rs1 imm rt s s' : effect addr_of (PIArith i rd rs1 imm rt) s s' ->
    match alu (wv i) with
    | Some op => s' = rset s (wv rd) (FoldSpec.eval op (rget s (wv rs1)) (wv imm))
    | None => if inst_eqb (wv i) ILui then s' = rset s (wv rd) (wv imm)
              else exists v, in32 v /\ s' = rset s (wv rd) v
    end.
  Proof. inversion 1; try discriminate; pinj; auto. Qed.

  Lemma eff_la i rd name rt s s' : effect addr_of (PLoadAddr i rd name rt) s s' ->
    s' = rset s (wv rd) (wrap32 (addr_of (wv name))).
  Proof. inversion 1; try discriminate; pinj; auto. Qed.

  Lemma eff_load i rd rs1 imm rt s s' : effect addr_of (PLoad i rd rs1 imm rt) s s' ->
    let '(w, signed) := load_width (wv i) in
    let u := load_u s (rget s (wv rs1) + wv imm) w in
    s' = rset s (wv rd) (if signed then (if Z.eqb w 4 then wrap32 u else sext w u) else u).
  Proof. inversion 1; try discriminate; pinj; auto. Qed.

  Lemma eff_store i rs1 rs2 imm rt s s' : effect addr_of (PStore i rs1 rs2 imm rt) s s' ->
    store_rel s (rget s (wv rs1) + wv imm) (to_u32 (rget s (wv rs2))) (store_width (wv i)) s'.
  Proof. inversion 1; try discriminate; pinj; auto. Qed.

  Lemma eff_branch i rs1 rs2 name rt s s' : effect addr_of (PBranch i rs1 rs2 name rt) s s' -> s' = s.
  Proof. inversion 1; try discriminate; pinj; auto. Qed.

  Lemma eff_jump i rd name rt s s' : effect addr_of (PJumpLink i rd name rt) s s' -> N.eqb (wv rd) 1 = false ->
    exists v, in32 v /\ s' = rset s (wv rd) v.
  Proof. inversion 1; try discriminate; pinj; intros; [auto|congruence]. Qed.

  Lemma eff_call i rd name rt s s' : effect addr_of (PJumpLink i rd name rt) s s' -> N.eqb (wv rd) 1 = true ->
    regs_in32 s' /\
    (forall r, callee_preserves r = true -> rget s' r = rget s r) /\
    (forall a, above_sp s a -> mem s' (ma a) = mem s (ma a)).
  Proof. inversion 1; try discriminate; pinj; intros; [congruence|auto]. Qed.

  Lemma eff_basic i rt s s' : effect addr_of (PBasic i rt) s s' ->
    (inst_eqb (wv i) IEcall = true /\ regs_in32 s' /\ mem s' = mem s /\
     (forall r, rs_mem r (match environment_in_outs (rget s 17) with
                          | Some (_, rets) => rets | None => program_args_set end) = false ->
                rget s' r = rget s r)) \/
    (inst_eqb (wv i) IEbreak = true /\ s' = s).
  Proof.
    inversion 1; try discriminate; pinj; [left|right]; auto.
  Qed.

  Lemma eff_none n s s' : effect addr_of n s s' ->
    match n with
    | PLabel _ _ | PDirective _ _ _ | PJumpLinkR _ _ _ _ _ | PCsr _ _ _ _ _ | PCsrI _ _ _ _ _ => False
    | _ => True
    end.
  Proof. inversion 1; subst; try exact I. destruct n; try exact I; cbn in *; discriminate. Qed.

  Lemma eff_entry n s s' : is_any_entry n = true -> effect addr_of n s s' -> s' = s.
  Proof. intros E. inversion 1; subst; try (cbn in E; discriminate). reflexivity. Qed.
End Eff.

(* ---- the environment's result registers ------------------------------------------------ *)

Definition small_rets (r : regset) : Prop :=
  r = rs_of_list [] \/ r = rs_of_list [10%N] \/ r = rs_of_list [10%N; 11%N] \/ r = rs_of_list [11%N].

Lemma env_rets n a r : environment_in_outs n = Some (a, r) -> small_rets r.
Proof.
  unfold environment_in_outs. intros H.
  destruct n as [|p|p]; try discriminate H.
  do 11 (try (destruct p as [p|p|]; try discriminate H));
  injection H as _ <-; unfold small_rets; tauto.
Qed.

Lemma env_rets_args n a r x : environment_in_outs n = Some (a, r) ->
  rs_mem x program_args_set = false -> rs_mem x r = false.
Proof.
  intros H. apply env_rets in H. unfold program_args_set. intros Hx.
  cbn [rs_of_list] in Hx. rewrite !rs_mem_union, !rs_mem_one in Hx.
  apply orb_false_iff in Hx. destruct Hx as [H10 Hx]. apply orb_false_iff in Hx. destruct Hx as [H11 _].
  destruct H as [-> | [-> | [-> | ->]]]; cbn [rs_of_list];
    rewrite ?rs_mem_union, ?rs_mem_one, ?H10, ?H11; try reflexivity; apply N.bits_0.
Qed.

Lemma env_rets_no0 n a r : environment_in_outs n = Some (a, r) -> rs_mem 0%N r = false.
Proof. intros H. eapply env_rets_args; [exact H|reflexivity]. Qed.

(* ---- calls: everything outside the kill set of a call is preserved by the callee ------- *)
Definition call_set : regset := rs_union (rs_diff caller_saved_set const_zero_set) return_addr_set.

Lemma call_frame r : (r < 32)%N -> rs_mem r call_set = false -> callee_preserves r = true.
Proof.
  intros Hr H.
  assert (F : forallb (fun r => implb (negb (rs_mem r call_set)) (callee_preserves r)) all_regs = true) by (vm_compute; reflexivity).
  pose proof (forall_regs _ F r Hr) as G. cbv beta in G. rewrite H in G. exact G.
Qed.

(* ==== PART 3: the transfer function, piece by piece ========================================= *)

(* ---- the pieces of `avail_transfer`, as functions of the node and the incoming maps ------ *)
Definition ksig (n : pnode) (ri : regmap) : option (regset * regset) :=
  match (if is_ecall n then match rm_get 17%N ri with Some (AConst k) => Some k | _ => None end else None) with
  | Some k => environment_in_outs k
  | None => None
  end.
Definition ovw (n : pnode) (ri : regmap) : regset :=
  let ow1 := kill_reg n in
  let ow2 := match calls_to n with Some _ => rs_union ow1 return_addr_set | None => ow1 end in
  if is_ecall n then
    rs_union ow2 (match ksig n ri with Some (_, rets) => rets | None => program_args_set end)
  else ow2.
Definition stale (ow : regset) (v : aval) : bool :=
  match v with ARegScalar r _ => rs_mem r ow | _ => false end.
Definition o3f (ow : regset) (ri : regmap) : regmap :=
  filter (fun kv => (negb (rs_mem (fst kv) ow) && negb (stale ow (snd kv)))%bool) ri.
Definition o4f (n : pnode) (o3 : regmap) : regmap :=
  match gen_reg_value n with Some (r, v) => rm_insert r v o3 | None => o3 end.
Definition below_sp (n : pnode) (ri : regmap) (l : memloc) : bool :=
  match calls_to n, l with
  | Some _, MStack off => match stack_offset ri with Some sp => Z.ltb off sp | None => true end
  | _, _ => false
  end.
Definition stored_bytes (n : pnode) (ri : regmap) : option (option Z * Z) :=
  match n with
  | PStore i rs1 _ imm _ =>
      if N.eqb (wv rs1) 2%N then
        Some (option_map (fun sp => sp + wv imm) (stack_offset ri),
              if inst_is i ISb then 1 else if inst_is i ISh then 2 else 4)
      else None
  | _ => None
  end.
Definition overlapped (sb : option (option Z * Z)) (l : memloc) : bool :=
  match l, sb with
  | MStack off, Some (Some start, width) => (Z.ltb off (start + width) && Z.ltb start (off + 4))%bool
  | MStack _, Some (None, _) => true
  | _, _ => false
  end.
Definition mi_keptf (n : pnode) (ow : regset) (ri : regmap) (mi : memmap) : memmap :=
  filter (fun kv => (negb (stale ow (snd kv)) && negb (below_sp n ri (fst kv))
                     && negb (overlapped (stored_bytes n ri) (fst kv)))%bool) mi.
Definition m1f (n : pnode) (ri : regmap) (mk : memmap) : memmap :=
  match gen_memory_value n with
  | Some (MStack offset, v) =>
      match stack_offset ri with
      | Some cur => mm_insert (MStack (wrap32 (cur + offset))) v mk
      | None => mk
      end
  | Some (loc, v) => mm_insert loc v mk
  | None => mk
  end.
Definition regs_out (n : pnode) (ri : regmap) (mi mo_old : memmap) : regmap :=
  let r1 := rule_expand_address_for_load n (o4f n (o3f (ovw n ri) ri)) ri in
  let r2 := rule_value_from_stack n r1 mi in
  let r3 := rule_pull_value_from_csr_memory n r2 mo_old in
  let r4 := rule_zero_to_const_reg r3 ri in
  rule_perform_math_ops n r4 ri.
Definition mems_out (n : pnode) (ri : regmap) (mi mo_old : memmap) : memmap :=
  let m1 := m1f n ri (mi_keptf n (ovw n ri) ri mi) in
  let m2 := rule_zero_to_const_mem m1 mi in
  let m3 := rule_push_value_to_csr_memory n m2 (regs_out n ri mi mo_old) in
  rule_known_values_to_stack m3 ri.

Lemma transfer_nonentry c ri mi : is_any_entry (cn c) = false ->
  avail_transfer c ri mi =
  (rm_remove_set const_zero_set (regs_out (cn c) ri mi (mout c)), mems_out (cn c) ri mi (mout c)).
Proof.
  intros H. destruct c as [n ? ? ? ? ? ? ? ? mo ? ? ?]. cbn [cn mout] in *.
  destruct n; try discriminate H; reflexivity.
Qed.

Definition sup_at (s0 s : mstate) (n : pnode) (ri : regmap) : Prop :=
  match n with
  | PStore i rs1 _ imm _ =>
      if N.eqb (wv rs1) 2%N then
        exists cur, stack_offset ri = Some cur /\ slot_window (cur + wv imm) /\ slot_window cur
      else forall k, 0 <= k < store_width (wv i) -> far_from_stack s0 (rget s (wv rs1) + wv imm + k)
  | PJumpLink _ rd _ _ => N.eqb (wv rd) 1%N = true ->
      exists cur, stack_offset ri = Some cur /\ slot_window cur
  | _ => True
  end.
Lemma supported_at_sup s0 s c : supported_at s0 s c = sup_at s0 s (cn c) (rin c).
Proof. reflexivity. Qed.

Lemma load_width_ok i :
  let '(w, sg) := load_width i in (w = 1 \/ w = 2 \/ w = 4) /\ (w = 4 -> sg = true).
Proof. destruct i; cbn; split; auto; intros; discriminate. Qed.

Lemma width_eq i : (if inst_eqb i ISb then 1 else if inst_eqb i ISh then 2 else 4) = store_width i.
Proof. destruct i; reflexivity. Qed.

Lemma store_width_cases i : store_width i = 1 \/ store_width i = 2 \/ store_width i = 4.
Proof. destruct i; cbn; auto. Qed.

Lemma ovw_writes n ri rd : writes_to n = Some rd -> calls_to n = None -> is_ecall n = false ->
  is_function_entry n = false -> ovw n ri = rs_diff (rs_one (wv rd)) const_zero_set.
Proof. intros H1 H2 H3 H4. unfold ovw, kill_reg. now rewrite H1, H2, H3, H4. Qed.

Lemma ovw_nowrite n ri : writes_to n = None -> calls_to n = None -> is_ecall n = false ->
  is_function_entry n = false -> ovw n ri = rs_diff rs_empty const_zero_set.
Proof. intros H1 H2 H3 H4. unfold ovw, kill_reg. now rewrite H1, H2, H3, H4. Qed.

Lemma rs_mem_nowrite r : rs_mem r (rs_diff rs_empty const_zero_set) = false.
Proof. rewrite rs_mem_diff, rs_mem_empty. reflexivity. Qed.

Section Transfer.
  Variable addr_of : str -> Z.
  Variable s0 : mstate.

  (* what an entry of an intermediate outgoing map must satisfy (entries for x0 are removed at
     the end and may be anything well-formed) *)
  Definition Preg (s' : mstate) (k : reg) (v : aval) : Prop :=
    wfv v /\ (k <> 0%N -> (k < 32)%N /\ holds addr_of s0 s' v (rget s' k)).
  Definition Pmem (s' : mstate) (ow : regset) (l : memloc) (v : aval) : Prop :=
    Gmem addr_of s0 s' l v /\ stale ow v = false.

  Record Frame (s s' : mstate) (ow : regset) : Prop := {
    fr_reg : forall r, (r < 32)%N -> rs_mem r ow = false -> rget s' r = rget s r;
    fr_in32 : regs_in32 s' }.

  Lemma holds_frame s s' ow v x : Frame s s' ow -> wfv v -> stale ow v = false ->
    holds addr_of s0 s v x -> holds addr_of s0 s' v x.
  Proof.
    intros F W S H. destruct v; cbn in *; auto.
    destruct W as [_ Hr]. now rewrite (fr_reg _ _ _ F r Hr S).
  Qed.

  Lemma sp_known s ri cur : RC addr_of s0 s ri -> stack_offset ri = Some cur ->
    rget s 2 = wrap32 (rget s0 2 + cur).
  Proof.
    intros H E. unfold stack_offset in E.
    destruct (rm_get 2%N ri) as [[| | | |r off| | | |]|] eqn:G; try discriminate E.
    destruct (N.eqb_spec r 2); [|discriminate E]. injection E as <-. subst r.
    destruct (RC_get _ _ _ _ _ _ H G) as (_ & _ & _ & Hh). exact Hh.
  Qed.

  (* ---- the frame ---------------------------------------------------------------------- *)
  Lemma frame_rset s s' rd v : regs_in32 s -> in32 v -> s' = rset s rd v ->
    Frame s s' (rs_diff (rs_one rd) const_zero_set).
  Proof.
    intros I Hv ->. split; [|now apply regs_in32_rset].
    intros r _ Hr. rewrite rs_mem_diff, rs_mem_one, rs_mem_zero_set in Hr.
    rewrite rget_rset. destruct (N.eqb_spec r rd) as [->|]; [|reflexivity].
    rewrite N.eqb_refl in Hr. cbn in Hr. now rewrite Hr.
  Qed.

  Lemma frame_same s s' ow : regs_in32 s -> (forall r, rget s' r = rget s r) -> Frame s s' ow.
  Proof. intros I H. split; [intros; apply H|]. intros r. rewrite H. apply I. Qed.

  Lemma frame_ok s s' n ri : is_any_entry n = false -> supported_node n -> node_wf n -> regs_in32 s ->
    RC addr_of s0 s ri -> effect addr_of n s s' -> Frame s s' (ovw n ri).
  Proof.
    intros NE SN WF I HR E. pose proof (eff_none _ _ _ _ E) as EN.
    destruct n; try discriminate NE; try contradiction.
    - (* PArith *)
      rewrite (ovw_writes _ ri rd) by reflexivity. apply eff_arith in E.
      destruct (alu (wv i)) as [op|].
      + eapply frame_rset; [exact I| |exact E]. apply eval_in32; apply I.
      + destruct E as (v & Hv & E). eapply frame_rset; eauto.
    - (* PIArith *)
      rewrite (ovw_writes _ ri rd) by reflexivity. apply eff_iarith in E.
      destruct WF as (_ & Him).
      destruct (alu (wv i)) as [op|].
      + eapply frame_rset; [exact I| |exact E]. apply eval_in32; [apply I|exact Him].
      + destruct (inst_eqb (wv i) ILui).
        * eapply frame_rset; eauto.
        * destruct E as (v & Hv & E). eapply frame_rset; eauto.
    - (* PJumpLink *)
      destruct (N.eqb (wv rd) 1) eqn:Erd.
      + destruct (eff_call _ _ _ _ _ _ _ E Erd) as (I' & Hp & _).
        assert (Eo : ovw (PJumpLink i rd name rt) ri = call_set).
        { unfold ovw, kill_reg, calls_to, reg_is. rewrite Erd. reflexivity. }
        rewrite Eo. split; [|exact I']. intros r Hr Hm. apply Hp. now apply call_frame.
      + rewrite (ovw_writes _ ri rd); [|reflexivity|cbn; unfold reg_is; now rewrite Erd|reflexivity|reflexivity].
        destruct (eff_jump _ _ _ _ _ _ _ E Erd) as (v & Hv & E'). eapply frame_rset; eauto.
    - (* PBasic *)
      apply eff_basic in E. destruct E as [(Ec & I' & _ & Hp)|(Eb & ->)].
      + split; [|exact I']. intros r _ Hm. apply Hp.
        unfold ovw in Hm. change (is_ecall (PBasic i rt)) with (inst_eqb (wv i) IEcall) in Hm.
        rewrite Ec in Hm. rewrite rs_mem_union in Hm. apply orb_false_iff in Hm. destruct Hm as [_ Hm].
        unfold ksig in Hm. change (is_ecall (PBasic i rt)) with (inst_eqb (wv i) IEcall) in Hm. rewrite Ec in Hm.
        destruct (rm_get 17%N ri) as [v|] eqn:G.
        * destruct v;
            try (destruct (environment_in_outs (rget s 17)) as [[a rets]|] eqn:Ee;
                 [eapply env_rets_args; [exact Ee|exact Hm]|exact Hm]).
          destruct (RC_get _ _ _ _ _ _ HR G) as (_ & _ & _ & Hh). cbn [holds] in Hh. rewrite Hh. exact Hm.
        * destruct (environment_in_outs (rget s 17)) as [[a rets]|] eqn:Ee;
            [eapply env_rets_args; [exact Ee|exact Hm]|exact Hm].
      + apply frame_same; auto.
    - (* PBranch *)
      apply eff_branch in E. subst s'. apply frame_same; auto.
    - (* PStore *)
      apply eff_store in E. destruct E as (Er & _). apply frame_same; auto.
      intros r. now apply rget_regs_eq.
    - (* PLoad *)
      rewrite (ovw_writes _ ri rd) by reflexivity. apply eff_load in E.
      pose proof (load_width_ok (wv i)) as LW. destruct (load_width (wv i)) as [w sg].
      destruct LW as [L1 L2]. eapply frame_rset; [exact I| |exact E]. now apply load_u_in32.
    - (* PLoadAddr *)
      rewrite (ovw_writes _ ri rd) by reflexivity. apply eff_la in E.
      eapply frame_rset; [exact I| |exact E]. apply wrap32_in32.
  Qed.

  (* ---- surviving incoming register facts ---------------------------------------------- *)
  Lemma o3_ok s s' ow ri : Frame s s' ow -> RC addr_of s0 s ri -> RCP (Preg s') (o3f ow ri).
  Proof.
    intros F HR k v H. unfold o3f in H. apply filter_In in H. destruct H as [Hin Hf]. cbn in Hf.
    apply andb_true_iff in Hf. destruct Hf as [Hk Hs]. apply negb_true_iff in Hk, Hs.
    destruct (HR k v Hin) as (K0 & K32 & W & Hh). split; [exact W|]. intros _. split; [exact K32|].
    rewrite (fr_reg _ _ _ F k K32 Hk). eapply holds_frame; eauto.
  Qed.

  (* ---- gen_reg_value ------------------------------------------------------------------- *)
  Lemma ev_add0 y : in32 y -> FoldSpec.eval FoldSpec.Add 0 y = y.
  Proof.
    intros H. destruct (eval_operate MAdd 0 y in32_0 H) as [E _]. cbn [spec_of] in E. rewrite E.
    unfold operate. rewrite Z.add_0_l. now apply wrap32_id.
  Qed.
  Lemma ev_xor0 y : in32 y -> FoldSpec.eval FoldSpec.Xor 0 y = y.
  Proof.
    intros H. destruct (eval_operate MXor 0 y in32_0 H) as [E _]. cbn [spec_of] in E. rewrite E.
    unfold operate. apply Z.lxor_0_l.
  Qed.
  Lemma ev_or0 y : in32 y -> FoldSpec.eval FoldSpec.Or 0 y = y.
  Proof.
    intros H. destruct (eval_operate MOr 0 y in32_0 H) as [E _]. cbn [spec_of] in E. rewrite E.
    unfold operate. apply Z.lor_0_l.
  Qed.
  Lemma ev_and0 y : in32 y -> FoldSpec.eval FoldSpec.And 0 y = 0.
  Proof.
    intros H. destruct (eval_operate MAnd 0 y in32_0 H) as [E _]. cbn [spec_of] in E. rewrite E.
    unfold operate. apply Z.land_0_l.
  Qed.
  Lemma ev_sll0 y : in32 y -> FoldSpec.eval FoldSpec.Sll 0 y = 0.
  Proof.
    intros H. destruct (eval_operate MSll 0 y in32_0 H) as [E _]. cbn [spec_of] in E. rewrite E.
    unfold operate. rewrite Z.shiftl_0_l. reflexivity.
  Qed.
  Lemma ev_sra0 y : in32 y -> FoldSpec.eval FoldSpec.Sra 0 y = 0.
  Proof.
    intros H. destruct (eval_operate MSra 0 y in32_0 H) as [E _]. cbn [spec_of] in E. rewrite E.
    unfold operate. apply Z.shiftr_0_l.
  Qed.
  Lemma ev_srl0 y : in32 y -> FoldSpec.eval FoldSpec.Srl 0 y = 0.
  Proof.
    intros H. destruct (eval_operate MSrl 0 y in32_0 H) as [E _]. cbn [spec_of] in E. rewrite E.
    unfold operate. change (to_u32 0) with 0. rewrite Z.shiftr_0_l. reflexivity.
  Qed.

  Definition gen_item (n : pnode) : option (reg * aval) :=
    match n with
    | PCsr _ rd csr _ _ => Some (wv rd, AValueInCsr (wv csr))
    | PCsrI _ rd csr _ _ => Some (wv rd, AValueInCsr (wv csr))
    | PLoadAddr _ rd name _ => Some (wv rd, AAddr name)
    | PLoad _ rd rs1 imm _ => Some (wv rd, AMemAtReg (wv rs1) (wv imm))
    | PIArith i rd rs1 imm _ =>
        if N.eqb (wv rs1) 0 then
          match wv i with
          | IAddi | ILui | IAddiw | IXori | IOri => Some (wv rd, AConst (wv imm))
          | IAndi | ISlli | ISlliw | ISrai | ISraiw | ISrli | ISrliw => Some (wv rd, AConst 0)
          | _ => None
          end
        else None
    | PArith i rd rs1 rs2 _ =>
        if (N.eqb (wv rs1) 0 && N.eqb (wv rs2) 0)%bool then
          Some (wv rd, AConst (match math_op (wv i) with Some op => operate op 0 0 | None => 0%Z end))
        else None
    | _ => None
    end.
  Lemma gen_reg_item n r v : gen_reg_value n = Some (r, v) -> r <> 0%N /\ gen_item n = Some (r, v).
  Proof.
    change (gen_reg_value n) with
      (match gen_item n with Some (r, _) => if N.eqb r 0 then None else gen_item n | None => None end).
    destruct (gen_item n) as [[r' v']|]; [|discriminate].
    destruct (N.eqb_spec r' 0); [discriminate|]. intros H. injection H as <- <-. auto.
  Qed.

  Lemma gen_ok s s' n r v : supported_node n -> node_wf n -> regs_in32 s -> effect addr_of n s s' ->
    gen_reg_value n = Some (r, v) -> Preg s' r v.
  Proof.
    intros SN WF HI E G. apply gen_reg_item in G. destruct G as [R0 G].
    destruct WF as (W1 & W3).
    destruct n; try discriminate G; try contradiction.
    - (* PArith *)
      cbn [gen_item] in G.
      destruct (N.eqb_spec (wv rs1) 0) as [E1|]; [|discriminate G].
      destruct (N.eqb_spec (wv rs2) 0) as [E2|]; [|discriminate G].
      cbn [andb] in G. injection G as <- <-.
      split; [exact I|]. intros _. split; [now apply W1|].
      cbn in SN. destruct (kind_arith_math _ W3 SN) as [o Ho]. rewrite Ho.
      apply eff_arith in E. rewrite (alu_math _ SN), Ho in E. cbn [option_map] in E.
      rewrite E1, E2, rget_0 in E. destruct (eval_operate o 0 0 in32_0 in32_0) as [Ev _].
      rewrite Ev in E. cbn [holds]. rewrite E. now apply rget_rset_same.
    - (* PIArith *)
      cbn [gen_item] in G. cbn in SN.
      destruct (N.eqb_spec (wv rs1) 0) as [E1|]; [|discriminate G].
      apply eff_iarith in E. rewrite E1, rget_0 in E.
      assert (R : r = wv rd /\ (r < 32)%N).
      { destruct (wv i); try discriminate G; injection G as <- <-; split; auto. }
      destruct R as [-> R32].
      split.
      { destruct (wv i); try discriminate G; injection G as <-; exact I. }
      intros _. split; [exact R32|].
      destruct (wv i) eqn:Ei; try discriminate G; try discriminate SN;
        injection G as <-; cbn [holds]; cbn [alu inst_eqb] in E;
        try (rewrite E, rget_rset_same by exact R0;
             first [now apply ev_add0 | now apply ev_xor0 | now apply ev_or0 | now apply ev_and0
                   | now apply ev_sll0 | now apply ev_sra0 | now apply ev_srl0]).
      (* lui *)
      change (inst_eqb ILui ILui) with true in E. cbv iota in E. rewrite E. now apply rget_rset_same.
    - (* PLoad *)
      cbn [gen_item] in G. injection G as <- <-. split; [exact I|]. intros _. split; [now apply W1|exact I].
    - (* PLoadAddr *)
      cbn [gen_item] in G. injection G as <- <-. split; [exact I|]. intros _. split; [now apply W1|].
      apply eff_la in E. cbn [holds]. rewrite E. now apply rget_rset_same.
  Qed.

  Lemma o4_ok s s' n o3 : supported_node n -> node_wf n -> regs_in32 s -> effect addr_of n s s' ->
    RCP (Preg s') o3 -> RCP (Preg s') (o4f n o3).
  Proof.
    intros SN WF HI E H. unfold o4f. destruct (gen_reg_value n) as [[r v]|] eqn:G; [|exact H].
    apply RCP_insert; [|exact H]. eapply gen_ok; eauto.
  Qed.

  (* ---- rule: expand address for load --------------------------------------------------- *)
  Lemma expand_ok s' n out ri : node_wf n -> RCP (Preg s') out -> RCP (Preg s') (rule_expand_address_for_load n out ri).
  Proof.
    intros (W1 & _) H. unfold rule_expand_address_for_load.
    destruct (writes_to n) as [dst|] eqn:Wd; [|exact H].
    destruct n; try exact H.
    destruct (rm_get (wv rs1) ri) as [[]|]; try exact H;
      (apply RCP_insert; [|exact H]); (split; [exact I|]); intros _; (split; [now apply W1|exact I]).
  Qed.
End Transfer.

(* ==== PART 4: the register rules ============================================================= *)

Section RegRules.
  Variable addr_of : str -> Z.
  Variable s0 : mstate.
  Notation Preg := (Preg addr_of s0).
  Notation RC := (RC addr_of).
  Notation MC := (MC addr_of).

  (* ---- rule: value from stack ---------------------------------------------------------- *)
  Lemma no_dst_in_o3 rd ri v : rd <> 0%N -> In (rd, v) (o3f (rs_diff (rs_one rd) const_zero_set) ri) -> False.
  Proof.
    intros R0 H. unfold o3f in H. apply filter_In in H. destruct H as [_ H]. cbn [fst snd] in H.
    apply andb_true_iff in H. destruct H as [H _]. apply negb_true_iff in H.
    rewrite rs_mem_diff, rs_mem_one, rs_mem_zero_set, N.eqb_refl in H.
    destruct (N.eqb_spec rd 0); [contradiction|discriminate H].
  Qed.

  Lemma holds_load s s' rd x v : s' = rset s rd x -> rd <> 0%N -> in32 x -> wfv v ->
    holds addr_of s0 s v x -> holds addr_of s0 s' v x.
  Proof.
    intros E R0 Ix W H. destruct v; cbn [holds] in *; auto.
    destruct W as [-> _]. rewrite E, rget_rset.
    destruct (N.eqb_spec r rd) as [->|].
    - destruct (N.eqb_spec rd 0); [contradiction|]. cbn [andb negb]. symmetry. now apply wrap32_0_r.
    - exact H.
  Qed.

  Lemma stack_ok s s' n ri mi : supported_node n -> node_wf n -> regs_in32 s -> effect addr_of n s s' ->
    RC s0 s ri -> MC s0 s mi ->
    RCP (Preg s') (o4f n (o3f (ovw n ri) ri)) ->
    RCP (Preg s') (rule_value_from_stack n (rule_expand_address_for_load n (o4f n (o3f (ovw n ri) ri)) ri) mi).
  Proof.
    intros SN WF HI E HR HM H0.
    pose proof (expand_ok addr_of s0 s' n _ ri WF H0) as H1.
    unfold rule_value_from_stack.
    destruct (writes_to n) as [dst|] eqn:Wd; [|exact H1].
    set (r1 := rule_expand_address_for_load n (o4f n (o3f (ovw n ri) ri)) ri) in *.
    destruct (rm_get (wv dst) r1) as [v1|] eqn:G1; [|rewrite G1; exact H1].
    destruct v1; try (rewrite G1; exact H1).
    2:{ destruct (RCP_get _ _ _ _ H1 G1) as [[] _]. }
    rewrite G1.
    destruct (N.eqb_spec r 2) as [->|]; [|exact H1].
    destruct (loads_word n) eqn:LW; [|exact H1]. cbn [andb].
    destruct (mm_get (MStack off) mi) as [v|] eqn:Gm; [|exact H1].
    apply RCP_insert; [|exact H1].
    apply mm_get_In in Gm. destruct (HM _ _ Gm) as (Wv & off' & Eo & Hw & Hh). injection Eo as <-.
    split; [exact Wv|]. intros D0. destruct WF as (W1 & W3). split; [now apply W1|].
    (* the node is a word load *)
    destruct n; try discriminate LW. cbn in LW, Wd. injection Wd as <-.
    apply inst_eqb_lw in LW.
    apply rm_get_In in G1. subst r1. unfold rule_expand_address_for_load in G1. cbn [writes_to] in G1.
    assert (P : exists off1, rm_get (wv rs1) ri = Some (AOrig 2%N off1) /\ off = wrap32 (off1 + wv imm)).
    { assert (N0 : ~ In (wv rd, AMemAtOrig 2%N off) (o4f (PLoad i rd rs1 imm rt) (o3f (ovw (PLoad i rd rs1 imm rt) ri) ri))).
      { intros Hin. unfold o4f in Hin.
        rewrite (ovw_writes _ ri rd) in Hin by reflexivity.
        destruct (gen_reg_value (PLoad i rd rs1 imm rt)) as [[r v']|] eqn:Gg.
        - apply rm_insert_In in Hin. destruct Hin as [Hin|Hin].
          + apply gen_reg_item in Gg. destruct Gg as [_ Gg]. cbn in Gg. congruence.
          + now apply no_dst_in_o3 in Hin.
        - now apply no_dst_in_o3 in Hin. }
      destruct (rm_get (wv rs1) ri) as [[]|] eqn:Gr; try contradiction.
      - apply rm_insert_In in G1. destruct G1 as [G1|G1]; [discriminate G1|contradiction].
      - apply rm_insert_In in G1. destruct G1 as [G1|G1]; [|contradiction].
        injection G1 as E1 E2. subst. eauto. }
    destruct P as (off1 & Gr & ->).
    destruct (RC_get _ _ _ _ _ _ HR Gr) as (_ & _ & _ & Hs). cbn [holds] in Hs.
    apply eff_load in E. rewrite LW in E. cbn [load_width Z.eqb Pos.eqb] in E. cbv iota beta zeta in E.
    fold (load32 s (rget s (wv rs1) + wv imm)) in E.
    assert (Ea : load32 s (rget s (wv rs1) + wv imm) = load32 s (rget s0 2 + wrap32 (off1 + wv imm))).
    { apply load32_congr. rewrite Hs, ma_wrap32_add.
      rewrite (Z.add_comm (rget s0 2) (wrap32 _)), ma_wrap32_add. f_equal. lia. }
    rewrite Ea in E. rewrite E, rget_rset_same by exact D0.
    eapply holds_load; eauto. apply wrap32_in32.
  Qed.

  (* ---- rule: pull value from CSR memory (never fires: no register holds a CSR value) ---- *)
  Lemma pull_ok s' n out mo : RCP (Preg s') out -> RCP (Preg s') (rule_pull_value_from_csr_memory n out mo).
  Proof.
    intros H. unfold rule_pull_value_from_csr_memory.
    destruct (reads_from_memory n) as [[[r off] dest]|]; [|exact H].
    destruct (rm_get r out) as [v|] eqn:G; [|exact H].
    destruct v; try exact H. destruct (RCP_get _ _ _ _ H G) as [[] _].
  Qed.

  (* ---- rule: zero to const ------------------------------------------------------------- *)
  Lemma zero_based_cases v i : zero_based v = Some i -> v = AOrig 0%N i \/ v = ARegScalar 0%N i.
  Proof.
    destruct v; cbn; try discriminate; destruct (N.eqb_spec r 0) as [->|]; try discriminate;
      intros H; injection H as <-; auto.
  Qed.

  Lemma sim_zero w v i : aval_sim w v -> zero_based v = Some i -> w = v.
  Proof. intros S Z. apply zero_based_cases in Z. destruct Z as [-> | ->]; destruct w; cbn in S; auto; discriminate. Qed.

  Lemma zero_reg_ok s' out ri : RCP (Preg s') out -> RCP (Preg s') (rule_zero_to_const_reg out ri).
  Proof.
    intros H. unfold rule_zero_to_const_reg.
    apply (RCP_fold _ _ (fun _ => True)); [|auto|exact H].
    intros o [k v] _ Ho. cbn [fst snd].
    destruct (zero_based v) as [i|] eqn:Z; [|exact Ho].
    destruct (opt_aval_eqb (rm_get k o) (Some v)) eqn:O; [|exact Ho].
    apply RCP_insert; [|exact Ho].
    apply opt_eqb_some in O. destruct O as (w & G & S).
    rewrite (sim_zero _ _ _ S Z) in G. destruct (RCP_get _ _ _ _ Ho G) as [W Hk].
    split; [exact I|]. intros K0. destruct (Hk K0) as [K32 Hh]. split; [exact K32|].
    apply zero_based_cases in Z. destruct Z as [-> | ->]; cbn [holds wfv] in *.
    - rewrite rget_0, Z.add_0_l in Hh. rewrite Hh. now apply wrap32_id.
    - destruct W as [-> _]. rewrite rget_0 in Hh. exact Hh.
  Qed.

  (* ---- rule: perform math ops ---------------------------------------------------------- *)
  Definition lhsf (n : pnode) (ri : regmap) : option aval :=
    match n with
    | PArith _ _ rs1 _ _ => rm_get (wv rs1) ri
    | PIArith _ _ rs1 _ _ => rm_get (wv rs1) ri
    | _ => None end.
  Definition rhsf (n : pnode) (ri : regmap) : option aval :=
    match n with
    | PArith _ _ _ rs2 _ => rm_get (wv rs2) ri
    | PIArith _ _ _ imm _ => Some (AConst (wv imm))
    | _ => None end.
  Definition math_result (n : pnode) (ri : regmap) : option aval :=
    match lhsf n ri, rhsf n ri with
    | Some (AConst x), Some (AConst y) => option_map (fun op => AConst (operate op x y)) (math_op (node_inst n))
    | Some (AOrig r x), Some (AConst y) => option_map (fun op => AOrig r (operate op x y)) (scalar_op (node_inst n))
    | Some (AConst x), Some (AOrig r y) =>
        match scalar_op (node_inst n) with Some MAdd => Some (AOrig r (operate MAdd x y)) | _ => None end
    | _, _ => None
    end.
  Lemma math_rule_eq n out ri : rule_perform_math_ops n out ri =
    match writes_to n with
    | Some dst => match math_result n ri with Some v => rm_insert (wv dst) v out | None => out end
    | None => out
    end.
  Proof. reflexivity. Qed.

  Definition operands (s : mstate) (n : pnode) : option (Z * Z) :=
    match n with
    | PArith _ _ rs1 rs2 _ => Some (rget s (wv rs1), rget s (wv rs2))
    | PIArith _ _ rs1 imm _ => Some (rget s (wv rs1), wv imm)
    | _ => None
    end.

  Lemma lhs_operands s n ri v : lhsf n ri = Some v -> exists a b, operands s n = Some (a, b).
  Proof. destruct n; cbn; try discriminate; eauto. Qed.

  Lemma operands_claims s n ri a b : RC s0 s ri -> operands s n = Some (a, b) ->
    (forall v, lhsf n ri = Some v -> holds addr_of s0 s v a) /\
    (forall v, rhsf n ri = Some v -> holds addr_of s0 s v b).
  Proof.
    intros HR O. destruct n; try discriminate O; cbn in O; injection O as <- <-; cbn [lhsf rhsf]; split; intros v G;
      try (now destruct (RC_get _ _ _ _ _ _ HR G) as (_ & _ & _ & Hh)).
    injection G as <-. reflexivity.
  Qed.

  Lemma arith_eff s s' n dst a b o : supported_node n -> node_wf n -> regs_in32 s -> effect addr_of n s s' ->
    writes_to n = Some dst -> operands s n = Some (a, b) -> math_op (node_inst n) = Some o ->
    in32 a /\ in32 b /\ s' = rset s (wv dst) (operate o a b).
  Proof.
    intros SN (_ & W3) HI E Wd O M.
    destruct n; try discriminate O; cbn in O, Wd, M, SN; injection O as <- <-; injection Wd as <-.
    - apply eff_arith in E. rewrite (alu_math _ SN), M in E. cbn [option_map] in E.
      destruct (eval_operate o (rget s (wv rs1)) (rget s (wv rs2)) (HI _) (HI _)) as [Ev _].
      rewrite Ev in E. auto.
    - apply eff_iarith in E. rewrite (alu_math _ SN), M in E. cbn [option_map] in E.
      destruct (eval_operate o (rget s (wv rs1)) (wv imm) (HI _) W3) as [Ev _].
      rewrite Ev in E. auto.
  Qed.

  Lemma math_ok s s' n out ri : supported_node n -> node_wf n -> regs_in32 s -> effect addr_of n s s' ->
    RC s0 s ri -> RCP (Preg s') out -> RCP (Preg s') (rule_perform_math_ops n out ri).
  Proof.
    intros SN WF HI E HR H. rewrite math_rule_eq.
    destruct (writes_to n) as [dst|] eqn:Wd; [|exact H].
    destruct (math_result n ri) as [v|] eqn:MR; [|exact H].
    apply RCP_insert; [|exact H].
    unfold math_result in MR.
    destruct (lhsf n ri) as [lv|] eqn:L; [|discriminate MR].
    destruct (lhs_operands s _ _ _ L) as (a & b & O).
    destruct (operands_claims s n ri a b HR O) as [CL CR]. specialize (CL _ L).
    assert (D32 : (wv dst < 32)%N) by (destruct WF as (W1 & _); now apply W1).
    destruct lv; try discriminate MR; destruct (rhsf n ri) as [rv|] eqn:R; try discriminate MR;
      destruct rv; try discriminate MR; specialize (CR _ eq_refl); cbn [holds] in CL, CR.
    - (* const, const *)
      destruct (math_op (node_inst n)) as [o|] eqn:M; [|discriminate MR]. injection MR as <-.
      destruct (arith_eff s s' n dst a b o SN WF HI E Wd O M) as (Ia & Ib & Es).
      split; [exact I|]. intros D0. split; [exact D32|]. cbn [holds].
      rewrite Es, rget_rset_same by exact D0. now rewrite CL, CR.
    - (* const, orig *)
      destruct (scalar_op (node_inst n)) as [o|] eqn:So; [|discriminate MR].
      destruct (scalar_math _ _ So) as (M & _ & _).
      destruct (arith_eff s s' n dst a b o SN WF HI E Wd O M) as (Ia & Ib & Es).
      destruct o; try discriminate MR. injection MR as <-.
      split; [apply wrap32_in32|]. intros D0. split; [exact D32|]. cbn [holds].
      rewrite Es, rget_rset_same by exact D0. rewrite !operate_add, CL, CR.
      rewrite wrap32_add_r, wrap32_add_r. f_equal. lia.
    - (* orig, const *)
      destruct (scalar_op (node_inst n)) as [o|] eqn:So; [|discriminate MR].
      destruct (scalar_math _ _ So) as (M & _ & Hos). injection MR as <-.
      destruct (arith_eff s s' n dst a b o SN WF HI E Wd O M) as (Ia & Ib & Es).
      split; [destruct Hos as [-> | ->]; apply wrap32_in32|]. intros D0. split; [exact D32|]. cbn [holds].
      rewrite Es, rget_rset_same by exact D0. rewrite CL, CR.
      destruct Hos as [-> | ->].
      + rewrite !operate_add, wrap32_add_r, wrap32_add_l. f_equal. lia.
      + rewrite !operate_sub, wrap32_add_r, wrap32_sub_l. f_equal. lia.
  Qed.

  (* ---- all register rules together ----------------------------------------------------- *)
  Lemma regs_sound s s' n ri mi mo : is_any_entry n = false -> supported_node n -> node_wf n ->
    regs_in32 s -> effect addr_of n s s' -> RC s0 s ri -> MC s0 s mi ->
    RCP (Preg s') (regs_out n ri mi mo).
  Proof.
    intros NE SN WF HI E HR HM.
    pose proof (frame_ok addr_of s0 s s' n ri NE SN WF HI HR E) as F.
    unfold regs_out. cbv zeta.
    eapply math_ok; eauto. apply zero_reg_ok. apply pull_ok.
    eapply stack_ok; eauto. eapply o4_ok; eauto. eapply o3_ok; eauto.
  Qed.

  Lemma remove_zero_ok s' m : RCP (Preg s') m -> RC s0 s' (rm_remove_set const_zero_set m).
  Proof.
    intros H k v Hin. unfold rm_remove_set in Hin. apply filter_In in Hin. destruct Hin as [Hin Hk].
    cbn [fst] in Hk. apply negb_true_iff in Hk. rewrite rs_mem_zero_set in Hk.
    destruct (N.eqb_spec k 0); [discriminate Hk|].
    destruct (H _ _ Hin) as [W Hh]. destruct (Hh n) as [K32 Hv]. repeat split; auto.
  Qed.
End RegRules.

(* ==== PART 5: memory, the stack-slot rules, and the transfer theorem ========================= *)

Section MemRules.
  Variable addr_of : str -> Z.
  Variable s0 : mstate.
  Notation Preg := (Preg addr_of s0).
  Notation Pmem := (Pmem addr_of s0).
  Notation RC := (RC addr_of).
  Notation MC := (MC addr_of).

  Lemma load32_mem_eq s s' a : mem s' = mem s -> load32 s' a = load32 s a.
  Proof. intros H. apply load32_same_bytes. intros. now rewrite H. Qed.

  (* ---- which stack slots keep their contents ------------------------------------------ *)
  Lemma mem_frame s s' n ri off : effect addr_of n s s' -> sup_at s0 s n ri -> RC s0 s ri ->
    slot_window off ->
    below_sp n ri (MStack off) = false -> overlapped (stored_bytes n ri) (MStack off) = false ->
    load32 s' (rget s0 2 + off) = load32 s (rget s0 2 + off).
  Proof.
    intros E SA HR Hw HB HO. pose proof (eff_none _ _ _ _ E) as EN.
    destruct n; try contradiction.
    - apply eff_entry in E; [now subst|reflexivity].
    - apply eff_entry in E; [now subst|reflexivity].
    - apply eff_arith in E. destruct (alu (wv i)); [|destruct E as (v & _ & E)]; rewrite E; apply load32_rset.
    - apply eff_iarith in E. destruct (alu (wv i)); [|destruct (inst_eqb (wv i) ILui); [|destruct E as (v & _ & E)]];
        rewrite E; apply load32_rset.
    - (* PJumpLink *)
      destruct (N.eqb (wv rd) 1) eqn:Erd.
      + destruct (eff_call _ _ _ _ _ _ _ E Erd) as (_ & _ & Hm).
        cbn [sup_at] in SA. destruct (SA Erd) as (cur & So & Wc).
        unfold below_sp, calls_to, reg_is in HB. rewrite Erd, So in HB. apply Z.ltb_ge in HB.
        pose proof (sp_known addr_of s0 s ri cur HR So) as Hsp.
        apply load32_same_bytes. intros j Hj. apply Hm.
        exists (off - cur + j). unfold slot_window in *. split; [lia|].
        rewrite Hsp, ma_wrap32_add. f_equal. lia.
      + destruct (eff_jump _ _ _ _ _ _ _ E Erd) as (v & _ & E'). rewrite E'. apply load32_rset.
    - (* PBasic *)
      apply eff_basic in E. destruct E as [(_ & _ & Hm & _)|(_ & ->)]; [now apply load32_mem_eq|reflexivity].
    - apply eff_branch in E. now subst.
    - (* PStore *)
      apply eff_store in E. destruct E as (_ & _ & Hm).
      apply load32_same_bytes. intros j Hj. apply Hm. intros k Hk.
      cbn [sup_at] in SA. unfold stored_bytes, inst_is in HO. rewrite width_eq in HO.
      destruct (N.eqb_spec (wv rs1) 2) as [E2|N2].
      + destruct SA as (cur & So & W1 & W2). rewrite So in HO. cbn [option_map overlapped] in HO.
        rewrite E2. rewrite (sp_known addr_of s0 s ri cur HR So).
        replace (wrap32 (rget s0 2 + cur) + wv imm + k) with (wrap32 (rget s0 2 + cur) + (wv imm + k)) by lia.
        rewrite ma_wrap32_add.
        replace (rget s0 2 + off + j) with (rget s0 2 + (off + j)) by lia.
        replace (rget s0 2 + cur + (wv imm + k)) with (rget s0 2 + (cur + wv imm + k)) by lia.
        apply andb_false_iff in HO. pose proof (store_width_cases (wv i)) as SW. unfold slot_window, two32 in *.
        apply ma_diff_ne; unfold two32; destruct HO as [HO|HO]; apply Z.ltb_ge in HO; lia.
      + intros Hc. refine (SA k Hk (off + j) _ _).
        * unfold slot_window in Hw. lia.
        * rewrite <- Hc. f_equal. lia.
    - apply eff_load in E. destruct (load_width (wv i)). rewrite E. apply load32_rset.
    - apply eff_la in E. rewrite E. apply load32_rset.
  Qed.

  Lemma mi_kept_ok s s' n ri mi : effect addr_of n s s' -> sup_at s0 s n ri -> RC s0 s ri ->
    Frame s s' (ovw n ri) -> MC s0 s mi -> MCP (Pmem s' (ovw n ri)) (mi_keptf n (ovw n ri) ri mi).
  Proof.
    intros E SA HR F HM l v H. unfold mi_keptf in H. apply filter_In in H. destruct H as [Hin Hf].
    cbn [fst snd] in Hf. apply andb_true_iff in Hf. destruct Hf as [Hf H3].
    apply andb_true_iff in Hf. destruct Hf as [H1 H2]. apply negb_true_iff in H1, H2, H3.
    destruct (HM _ _ Hin) as (W & off & -> & Hw & Hh).
    split; [|exact H1]. split; [exact W|]. exists off. split; [reflexivity|]. split; [exact Hw|].
    rewrite (mem_frame s s' n ri off E SA HR Hw H2 H3). eapply holds_frame; eauto.
  Qed.

  (* ---- the slot written by `sw rs2, imm(sp)` ------------------------------------------- *)
  Lemma stored_word s s' a x : in32 x -> store_rel s a (to_u32 x) 4 s' -> load32 s' a = x.
  Proof.
    intros Ix (_ & Hb & _). unfold load32. rewrite load_u4.
    pose proof (Hb 0 ltac:(lia)) as B0. rewrite Z.add_0_r in B0.
    rewrite B0, (Hb 1), (Hb 2), (Hb 3) by lia.
    rewrite bytes_reassemble; [now apply wrap32_u|].
    unfold to_u32. apply Z.mod_pos_bound. reflexivity.
  Qed.

  Lemma m1_ok s s' n ri mk : supported_node n -> node_wf n -> regs_in32 s -> effect addr_of n s s' ->
    sup_at s0 s n ri -> RC s0 s ri ->
    MCP (Pmem s' (ovw n ri)) mk -> MCP (Pmem s' (ovw n ri)) (m1f n ri mk).
  Proof.
    intros SN (W1 & W3) HI E SA HR H. unfold m1f.
    destruct n; try exact H; try contradiction.
    cbn [gen_memory_value]. unfold inst_is.
    destruct (N.eqb_spec (wv rs1) 2) as [E2|]; [|exact H].
    destruct (inst_eqb (wv i) ISw) eqn:Ei; [|exact H]. cbn [andb].
    apply inst_eqb_sw in Ei.
    destruct (stack_offset ri) as [cur|] eqn:So; [|exact H].
    apply MCP_insert; [|exact H].
    cbn [sup_at] in SA. rewrite E2 in SA. cbn in SA. destruct SA as (cur' & Ec & Wc & Wc').
    rewrite So in Ec. injection Ec as <-.
    assert (Hid : wrap32 (cur + wv imm) = cur + wv imm).
    { apply wrap32_id. unfold slot_window in Wc. unf. lia. }
    rewrite Hid.
    apply eff_store in E. rewrite Ei in E. cbn [store_width] in E.
    split.
    - split; [split; [reflexivity|exact W3]|].
      exists (cur + wv imm). split; [reflexivity|]. split; [exact Wc|].
      cbn [holds].
      assert (Er : rget s' (wv rs2) = rget s (wv rs2)) by (apply rget_regs_eq; apply E).
      rewrite Er, wrap32_0_r by apply HI.
      rewrite <- (stored_word s s' _ _ (HI (wv rs2)) E).
      apply load32_congr. rewrite E2, (sp_known addr_of s0 s ri cur HR So), ma_wrap32_add. f_equal. lia.
    - cbn [stale]. rewrite ovw_nowrite by reflexivity. apply rs_mem_nowrite.
  Qed.

  (* ---- rule: zero to const (memory) ---------------------------------------------------- *)
  Lemma zero_mem_ok s' ow m1 mi : MCP (Pmem s' ow) m1 -> MCP (Pmem s' ow) (rule_zero_to_const_mem m1 mi).
  Proof.
    intros H. unfold rule_zero_to_const_mem.
    apply (MCP_fold _ _ (fun _ => True)); [|auto|exact H].
    intros o [k v] _ Ho. cbn [fst snd].
    destruct (zero_based v) as [i|] eqn:Z; [|exact Ho].
    destruct (opt_aval_eqb (mm_get k o) (Some v)) eqn:O; [|exact Ho].
    apply MCP_insert; [|exact Ho].
    apply opt_eqb_some in O. destruct O as (w & G & S).
    rewrite (sim_zero _ _ _ S Z) in G. destruct (MCP_get _ _ _ _ Ho G) as [[W (off & -> & Hw & Hh)] _].
    split; [|reflexivity]. split; [exact I|]. exists off. split; [reflexivity|]. split; [exact Hw|].
    apply zero_based_cases in Z. destruct Z as [-> | ->]; cbn [holds wfv] in *.
    - rewrite rget_0, Z.add_0_l in Hh. rewrite Hh. now apply wrap32_id.
    - destruct W as [-> _]. rewrite rget_0 in Hh. exact Hh.
  Qed.

  (* ---- rule: push value to CSR memory (never fires) ------------------------------------ *)
  Lemma push_ok s' (P : memloc -> aval -> Prop) n mo out :
    RCP (Preg s') out -> MCP P mo -> MCP P (rule_push_value_to_csr_memory n mo out).
  Proof.
    intros Hr H. unfold rule_push_value_to_csr_memory.
    destruct (stores_to_memory n) as [[src [r off]]|]; [|exact H].
    destruct (rm_get r out) as [v|] eqn:G; [|exact H].
    destruct v; try exact H. destruct (RCP_get _ _ _ _ Hr G) as [[] _].
  Qed.

  (* ---- rule: known values to stack ----------------------------------------------------- *)
  Lemma known_ok s s' ow m3 ri : Frame s s' ow -> RC s0 s ri ->
    MCP (Pmem s' ow) m3 -> MCP (Pmem s' ow) (rule_known_values_to_stack m3 ri).
  Proof.
    intros F HR H. unfold rule_known_values_to_stack.
    apply (MCP_fold _ _ (fun kv => Pmem s' ow (fst kv) (snd kv))); [|intros [k v] Hin; now apply H|exact H].
    intros o [k v] Q Ho. cbn [fst snd] in *.
    destruct v; try exact Ho.
    destruct Q as [[[Wo Wr] (o' & -> & Hw & Hh)] St]. cbn [stale] in St. cbn [holds] in Hh.
    rewrite (fr_reg _ _ _ F r Wr St) in Hh.
    destruct (rm_get r ri) as [v|] eqn:G; [|exact Ho].
    destruct (RC_get _ _ _ _ _ _ HR G) as (_ & _ & Wv & Hv).
    destruct v; try exact Ho; (apply MCP_insert; [|exact Ho]); cbn [holds wfv] in *.
    - split; [|reflexivity]. split; [exact I|]. exists o'. split; [reflexivity|]. split; [exact Hw|].
      cbn [holds]. now rewrite Hh, Hv.
    - split; [|reflexivity]. split; [apply wrap32_in32|]. exists o'. split; [reflexivity|]. split; [exact Hw|].
      cbn [holds]. rewrite Hh, Hv, wrap32_add_l, wrap32_add_r. f_equal. lia.
  Qed.

  Lemma mems_sound s s' n ri mi mo : is_any_entry n = false -> supported_node n -> node_wf n ->
    regs_in32 s -> effect addr_of n s s' -> sup_at s0 s n ri -> RC s0 s ri -> MC s0 s mi ->
    MCP (Pmem s' (ovw n ri)) (mems_out n ri mi mo).
  Proof.
    intros NE SN WF HI E SA HR HM.
    pose proof (frame_ok addr_of s0 s s' n ri NE SN WF HI HR E) as F.
    unfold mems_out. cbv zeta.
    eapply known_ok; eauto. eapply push_ok.
    - eapply regs_sound; eauto.
    - apply zero_mem_ok. eapply m1_ok; eauto. eapply mi_kept_ok; eauto.
  Qed.

  (* ---- TRANSFER SOUNDNESS ------------------------------------------------------------- *)
  Theorem transfer_sound s s' c ri mi :
    is_any_entry (cn c) = false -> supported_node (cn c) -> node_wf (cn c) ->
    regs_in32 s -> effect addr_of (cn c) s s' -> sup_at s0 s (cn c) ri ->
    RC s0 s ri -> MC s0 s mi ->
    RC s0 s' (fst (avail_transfer c ri mi)) /\ MC s0 s' (snd (avail_transfer c ri mi)) /\ regs_in32 s'.
  Proof.
    intros NE SN WF HI E SA HR HM. rewrite (transfer_nonentry c ri mi NE). cbn [fst snd].
    split; [|split].
    - apply remove_zero_ok. eapply regs_sound; eauto.
    - intros l v Hin. exact (proj1 (mems_sound s s' _ ri mi (mout c) NE SN WF HI E SA HR HM l v Hin)).
    - exact (fr_in32 _ _ _ (frame_ok addr_of s0 s s' _ ri NE SN WF HI HR E)).
  Qed.
End MemRules.

(* ==== PART 6: entries, the meet, executions ================================================== *)

Section Exec.
  Variable addr_of : str -> Z.
  Variable s0 : mstate.
  Notation Preg := (Preg addr_of s0).
  Notation RC := (RC addr_of).
  Notation MC := (MC addr_of).

  (* ---- entry nodes -------------------------------------------------------------------- *)
  Lemma extend_originals_ok set m : regs_in32 s0 -> RCP (Preg s0) m -> RCP (Preg s0) (rm_extend_originals set m).
  Proof.
    intros HI H. unfold rm_extend_originals.
    apply (RCP_fold _ _ (fun r => In r (rs_elems set))); [|auto|exact H].
    intros o r Hr Ho. apply RCP_insert; [|exact Ho].
    apply rs_elems_spec in Hr. destruct Hr as [R32 _].
    split; [apply in32_0|]. intros _. split; [exact R32|]. cbn [holds]. symmetry. apply wrap32_0_r, HI.
  Qed.

  Lemma entry_sound c : is_any_entry (cn c) = true -> regs_in32 s0 ->
    RC s0 s0 (fst (avail_transfer c [] [])) /\ MC s0 s0 (snd (avail_transfer c [] [])).
  Proof.
    intros NE HI. destruct c as [n a1 a2 a3 a4 a5 a6 a7 a8 a9 a10 a11 a12]. cbn [cn] in NE.
    destruct n; try discriminate NE.
    - change (avail_transfer _ [] []) with
        (rm_remove_set const_zero_set (rm_extend_originals sp_ra_set []), @nil (memloc * aval)).
      cbn [fst snd]. split; [|apply MCP_nil].
      apply remove_zero_ok. apply extend_originals_ok; [exact HI|apply RCP_nil].
    - change (avail_transfer _ [] []) with
        (rm_remove_set const_zero_set
           (rm_extend_originals callee_saved_set
              (if handler then rm_extend_originals all_writable_set [] else [])), @nil (memloc * aval)).
      cbn [fst snd]. split; [|apply MCP_nil].
      apply remove_zero_ok. apply extend_originals_ok; [exact HI|].
      destruct handler; [apply extend_originals_ok; [exact HI|]|]; apply RCP_nil.
  Qed.

  (* ---- one step of an execution ------------------------------------------------------- *)
  Variable g : cfg.
  Hypothesis EQ : AvailEqns g.
  Hypothesis SY : Sym g.
  Hypothesis SUP : all_supported g.
  Hypothesis NR : no_reentry g.
  Hypothesis WF : all_wf g.
  Hypothesis HI0 : regs_in32 s0.

  Lemma entry_no_prevs j cj : nth_opt (gnodes g) j = Some cj -> is_any_entry (cn cj) = true -> prevs cj = [].
  Proof.
    intros Hj He. destruct (prevs cj) as [|i l] eqn:P; [reflexivity|].
    destruct SY as [_ S2]. destruct (S2 i j cj Hj) as (ci & Hi & Hn); [rewrite P; now left|].
    rewrite (NR i ci j cj Hi Hn Hj) in He. discriminate He.
  Qed.

  Definition Inv (i : nat) (s : mstate) : Prop :=
    regs_in32 s /\
    forall c, nth_opt (gnodes g) i = Some c ->
      (is_any_entry (cn c) = true /\ s = s0) \/
      (is_any_entry (cn c) = false /\ RC s0 s (rin c) /\ MC s0 s (min c)).

  Lemma out_sound i s c j s' : Inv i s -> nth_opt (gnodes g) i = Some c ->
    supported_at s0 s c -> step addr_of g i s j s' ->
    RC s0 s' (rout c) /\ MC s0 s' (mout c) /\ regs_in32 s'.
  Proof.
    intros [HI HC] Hi SA (c' & Hi' & Hn & E). rewrite Hi in Hi'. injection Hi' as <-.
    destruct (EQ i c Hi) as (E1 & E2 & E3).
    destruct (avail_transfer c (rin c) (min c)) as [ro mo] eqn:T. destruct E3 as [E3 E4].
    destruct (HC c Hi) as [[He ->]|(He & HR & HM)].
    - (* the entry node: nothing precedes it *)
      pose proof (entry_no_prevs i c Hi He) as P. rewrite P in E1, E2.
      apply rm_eqb_nil in E1. apply mm_eqb_nil in E2. rewrite E1, E2 in T.
      apply eff_entry in E; [|exact He]. subst s'.
      destruct (entry_sound c He HI0) as [R M]. rewrite T in R, M. cbn [fst snd] in R, M.
      split; [|split; [|exact HI0]].
      + exact (rm_eqb_RCP _ (Greg_closed addr_of s0 s0) _ _ E3 R).
      + exact (mm_eqb_MCP _ (Gmem_closed addr_of s0 s0) _ _ E4 M).
    - rewrite supported_at_sup in SA.
      destruct (transfer_sound addr_of s0 s s' c (rin c) (min c) He (SUP i c Hi) (WF i c Hi) HI E SA HR HM)
        as (R & M & I').
      rewrite T in R, M. cbn [fst snd] in R, M.
      split; [|split; [|exact I']].
      + exact (rm_eqb_RCP _ (Greg_closed addr_of s0 s') _ _ E3 R).
      + exact (mm_eqb_MCP _ (Gmem_closed addr_of s0 s') _ _ E4 M).
  Qed.

  Lemma in_sound i ci j cj s' : nth_opt (gnodes g) i = Some ci -> In j (nexts ci) ->
    nth_opt (gnodes g) j = Some cj -> RC s0 s' (rout ci) -> MC s0 s' (mout ci) ->
    RC s0 s' (rin cj) /\ MC s0 s' (min cj).
  Proof.
    intros Hi Hn Hj R M. destruct SY as [S1 _]. destruct (S1 i j ci Hi Hn) as (cj' & Hj' & Hp).
    unfold node_at in Hj'. rewrite Hj in Hj'. injection Hj' as <-.
    destruct (EQ j cj Hj) as (E1 & E2 & _).
    split.
    - apply (rm_eqb_RCP _ (Greg_closed addr_of s0 s') _ _ E1).
      exact (meet_regs_RCP _ (gnodes g) (prevs cj) i ci (Greg_closed addr_of s0 s') Hp Hi R).
    - apply (mm_eqb_MCP _ (Gmem_closed addr_of s0 s') _ _ E2).
      exact (meet_mems_MCP _ (gnodes g) (prevs cj) i ci (Gmem_closed addr_of s0 s') Hp Hi M).
  Qed.

  Lemma srun_inv i s : srun addr_of g s0 i s -> Inv i s.
  Proof.
    induction 1 as [e c He Hc | i s c j s' Hrun IH Hi SA St].
    - split; [exact HI0|]. intros c' Hc'. rewrite He in Hc'. injection Hc' as <-. left. auto.
    - destruct (out_sound i s c j s' IH Hi SA St) as (R & M & I').
      split; [exact I'|]. intros cj Hj. right.
      destruct St as (c' & Hi' & Hn & _). rewrite Hi in Hi'. injection Hi' as <-.
      split; [exact (NR i c j cj Hi Hn Hj)|].
      exact (in_sound i c j cj s' Hi Hn Hj R M).
  Qed.
End Exec.

(* ==== THE THEOREMS ========================================================================== *)

(* C01_statement of Props/C01.v with the ADDED premises `Sym g`, `no_reentry g`, `all_wf g` *)
Theorem claims_hold_on_executions :
  forall (addr_of : str -> Z) (g : cfg) (s0 : mstate),
    AvailEqns g -> Sym g (* ADDED *) -> all_supported g -> no_reentry g (* ADDED *) -> all_wf g (* ADDED *) ->
    regs_in32 s0 ->
    forall i s, srun addr_of g s0 i s ->
      forall c, nth_opt (gnodes g) i = Some c ->
        (is_any_entry (cn c) = false ->
           reg_claims addr_of s0 s (rin c) /\ mem_claims addr_of s0 s (min c)) /\
        (forall j s', supported_at s0 s c -> step addr_of g i s j s' ->
           reg_claims addr_of s0 s' (rout c) /\ mem_claims addr_of s0 s' (mout c)).
Proof.
  intros addr_of g s0 EQ SY SUP NR WF HI0 i s Hrun c Hi.
  pose proof (srun_inv addr_of s0 g EQ SY SUP NR WF HI0 i s Hrun) as IV.
  split.
  - intros He. destruct IV as [_ HC]. destruct (HC c Hi) as [[He' _]|(_ & R & M)]; [congruence|].
    split; [now apply RC_reg_claims|now apply MC_mem_claims].
  - intros j s' SA St.
    destruct (out_sound addr_of s0 g EQ SY SUP NR WF HI0 i s c j s' IV Hi SA St) as (R & M & _).
    split; [now apply RC_reg_claims|now apply MC_mem_claims].
Qed.

Theorem lint_inputs_true :
  forall addr_of g s0,
    AvailEqns g -> Sym g (* ADDED *) -> all_supported g -> no_reentry g (* ADDED *) -> all_wf g (* ADDED *) ->
    regs_in32 s0 ->
    forall i s c, srun addr_of g s0 i s -> nth_opt (gnodes g) i = Some c -> is_any_entry (cn c) = false ->
      (forall k, known_ecall c = Some k -> rget s 17 = k) /\
      (forall off, stack_offset (rin c) = Some off -> rget s 2 = wrap32 (rget s0 2 + off)) /\
      (forall r, is_original_value (rin c) r = true -> rget s r = rget s0 r).
Proof.
  intros addr_of g s0 EQ SY SUP NR WF HI0 i s c Hrun Hi He.
  destruct (claims_hold_on_executions addr_of g s0 EQ SY SUP NR WF HI0 i s Hrun c Hi) as [H _].
  destruct (H He) as [R _]. clear H.
  split; [|split].
  - intros k Hk. unfold known_ecall in Hk. destruct (is_ecall (cn c)); [|discriminate Hk].
    destruct (rm_get 17%N (rin c)) as [[]|] eqn:G; try discriminate Hk. injection Hk as <-.
    exact (R _ _ G).
  - intros off Ho. unfold stack_offset in Ho.
    destruct (rm_get 2%N (rin c)) as [[]|] eqn:G; try discriminate Ho.
    destruct (N.eqb_spec r 2) as [->|]; [|discriminate Ho]. injection Ho as <-.
    exact (R _ _ G).
  - intros r Ho. unfold is_original_value in Ho.
    destruct (rm_get r (rin c)) as [[]|] eqn:G; try discriminate Ho.
    apply andb_true_iff in Ho. destruct Ho as [H1 H2].
    apply N.eqb_eq in H1. apply Z.eqb_eq in H2. subst.
    pose proof (R _ _ G) as Hh. cbn [holds] in Hh. rewrite Hh. apply wrap32_0_r, HI0.
Qed.

