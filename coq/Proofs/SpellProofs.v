(* C13 spelling proofs *)
From RV.Model Require Import Base I32 Imm Lexer Isa Parser Cfg.
From RV.Spec Require Import LitSpec ParamSpec SpellNodeSpec.
From RV.Proofs Require Import ImmProofs.
From Coq Require Import Lia ZifyBool ZifyN.
Open Scope Z_scope.

(* ================================================================================== *)
(* Part 3: spelling tables                                                             *)
(* ================================================================================== *)

Lemma str_eqb_true_eq : forall a b, str_eqb a b = true -> a = b.
Proof.
  induction a as [|x a IH]; intros [|y b] H; cbn [str_eqb] in H; try discriminate; [reflexivity|].
  apply andb_prop in H. destruct H as [Hx Ha]. apply N.eqb_eq in Hx. subst y.
  rewrite (IH b Ha). reflexivity.
Qed.

Lemma str_eqb_same s : str_eqb s s = true.
Proof. induction s as [|c s IH]; [reflexivity|]. cbn [str_eqb]. rewrite N.eqb_refl, IH. reflexivity. Qed.

Lemma assoc_str_in {A} k (v : A) : forall l, assoc_str k l = Some v -> In (k, v) l.
Proof.
  induction l as [|[k' v'] l IH]; cbn [assoc_str]; intros H; [discriminate|].
  destruct (str_eqb k k') eqn:E.
  - apply str_eqb_true_eq in E. subst k'. inversion H; subst v'. left. reflexivity.
  - right. apply IH. exact H.
Qed.

Lemma lt32_in_all_regs r : (r < 32)%N -> In r all_regs.
Proof.
  intros H. destruct r as [|p]; [left; reflexivity|].
  do 5 (try destruct p as [p|p|]); try lia; cbn [all_regs In];
    repeat (first [left; reflexivity | right]).
Qed.

Theorem reg_names_sound :
  forall r, (r < 32)%N ->
    reg_from_str (numeric_name r) = Some r /\
    forall a, In a (abi_names r) -> reg_from_str a = Some r.
Proof.
  intros r Hr. apply lt32_in_all_regs in Hr. unfold all_regs in Hr. cbn [In] in Hr.
  repeat (destruct Hr as [Hr|Hr]; [subst r; split; [vm_compute; reflexivity|];
    intros a Ha; cbn [abi_names In] in Ha;
    repeat (destruct Ha as [Ha|Ha]; [subst a; vm_compute; reflexivity|]); contradiction|]).
  contradiction.
Qed.

Definition name_ok (p : str * reg) : bool :=
  (N.ltb (snd p) 32 && (str_eqb (fst p) (numeric_name (snd p)) || existsb (str_eqb (fst p)) (abi_names (snd p))))%bool.

Lemma reg_names_all_ok : forallb name_ok reg_names = true.
Proof. vm_compute. reflexivity. Qed.

Theorem reg_names_complete :
  forall s r, reg_from_str s = Some r ->
    (r < 32)%N /\ (s = numeric_name r \/ In s (abi_names r)).
Proof.
  intros s r H. unfold reg_from_str in H. apply assoc_str_in in H.
  pose proof (proj1 (forallb_forall name_ok reg_names) reg_names_all_ok (s, r) H) as Hok.
  unfold name_ok in Hok. cbn [fst snd] in Hok.
  apply andb_prop in Hok. destruct Hok as [Hlt Hnm]. split; [apply N.ltb_lt; exact Hlt|].
  apply orb_prop in Hnm. destruct Hnm as [Hn|Ha].
  - left. apply str_eqb_true_eq. exact Hn.
  - right. apply existsb_exists in Ha. destruct Ha as [a [Hin Heq]].
    apply str_eqb_true_eq in Heq. subst a. exact Hin.
Qed.

(* the two tables agree exactly *)
Corollary reg_from_str_iff s r :
  reg_from_str s = Some r <-> (r < 32)%N /\ (s = numeric_name r \/ In s (abi_names r)).
Proof.
  split; [apply reg_names_complete|].
  intros [Hr [Hn|Ha]]; destruct (reg_names_sound r Hr) as [H1 H2]; [subst s; exact H1|apply H2; exact Ha].
Qed.

Fixpoint nodup_strb (l : list str) : bool :=
  match l with [] => true | x :: l' => (negb (existsb (str_eqb x) l') && nodup_strb l')%bool end.

Lemma nodup_strb_sound l : nodup_strb l = true -> NoDup l.
Proof.
  induction l as [|x l IH]; cbn [nodup_strb]; intros H; [constructor|].
  apply andb_prop in H. destruct H as [Hx Hl]. constructor; [|apply IH; exact Hl].
  intros Hin. apply negb_true_iff in Hx.
  assert (Ht : existsb (str_eqb x) l = true).
  { apply existsb_exists. exists x. split; [exact Hin|apply str_eqb_same]. }
  rewrite Ht in Hx. discriminate.
Qed.

Theorem reg_names_nodup : NoDup (map fst reg_names).
Proof. apply nodup_strb_sound. vm_compute. reflexivity. Qed.

(* a name names one register: different registers have no name in common *)
Theorem reg_names_disjoint s1 s2 r1 r2 :
  reg_from_str s1 = Some r1 -> reg_from_str s2 = Some r2 -> r1 <> r2 -> s1 <> s2.
Proof. intros H1 H2 Hne Heq. subst s2. rewrite H1 in H2. inversion H2. contradiction. Qed.

(* ---- letter case ------------------------------------------------------------------------ *)
Lemma to_lower_idem c : to_lower (to_lower c) = to_lower c.
Proof.
  unfold to_lower at 2 3. destruct (is_ascii_upper c) eqn:U; unfold to_lower.
  - destruct (is_ascii_upper (c + 32)%N) eqn:V; [|reflexivity].
    unfold is_ascii_upper, in_range in *. lia.
  - rewrite U. reflexivity.
Qed.

Lemma lower_idem s : lower (lower s) = lower s.
Proof. unfold lower. rewrite map_map. apply map_ext. intros c. apply to_lower_idem. Qed.

Theorem inst_from_str_lower s : inst_from_str s = inst_from_str (lower s).
Proof. unfold inst_from_str. rewrite lower_idem. reflexivity. Qed.

Corollary inst_from_str_case s1 s2 : lower s1 = lower s2 -> inst_from_str s1 = inst_from_str s2.
Proof. intros H. unfold inst_from_str. rewrite H. reflexivity. Qed.

Theorem dir_from_str_lower s : dir_from_str s = dir_from_str (lower s).
Proof. unfold dir_from_str. rewrite lower_idem. reflexivity. Qed.

Corollary dir_from_str_case s1 s2 : lower s1 = lower s2 -> dir_from_str s1 = dir_from_str s2.
Proof. intros H. unfold dir_from_str. rewrite H. reflexivity. Qed.

Theorem inst_name_found i : inst_from_str (inst_name i) = Some i.
Proof. destruct i; vm_compute; reflexivity. Qed.

(* every directive name of the table is found, too *)
Theorem dir_name_found : forall p, In p dir_names -> dir_from_str (fst p) = Some (snd p).
Proof.
  intros p Hp. unfold dir_names in Hp. cbn [In] in Hp.
  repeat (destruct Hp as [Hp|Hp]; [subst p; vm_compute; reflexivity|]). contradiction.
Qed.

(* OBSERVATION: register names are case-sensitive, mnemonics and directives are not *)
Example reg_case_sensitive :
  reg_from_str «"A0"» = None /\ reg_from_str «"a0"» = Some 10%N /\
  reg_from_str «"X10"» = None /\ reg_from_str «"Zero"» = None /\
  inst_from_str «"ADDI"» = Some IAddi /\ inst_from_str «"AdDi"» = Some IAddi /\
  dir_from_str «".TEXT"» = Some DText.
Proof. vm_compute. repeat split; reflexivity. Qed.

(* ================================================================================== *)
(* Part 4: immediate notation                                                          *)
(* ================================================================================== *)

(* letter case of prefix and digits is irrelevant: every string, directly from the definition *)
Theorem imm_from_str_lower s : imm_from_str s = imm_from_str (lower s).
Proof. unfold imm_from_str. rewrite lower_idem. reflexivity. Qed.

Corollary imm_from_str_case s1 s2 : lower s1 = lower s2 -> imm_from_str s1 = imm_from_str s2.
Proof. intros H. rewrite (imm_from_str_lower s1), (imm_from_str_lower s2), H. reflexivity. Qed.

Lemma fits_i32_fits32 v : fits_i32 v -> fits32 v.
Proof. unfold fits_i32, fits32. lia. Qed.

Lemma accept_same_value v n1 n2 :
  fits_i32 v \/ ~ fits32 v \/ is_radix n1 = is_radix n2 ->
  accept (Some (v, n1)) = accept (Some (v, n2)).
Proof.
  intros [Hf|[Hn|Hr]].
  - assert (Hw : wide v = Some (wrap32 v)) by (apply wide_fits, fits_i32_fits32; exact Hf).
    assert (Hna : narrow v = Some (wrap32 v)) by (apply narrow_fits; exact Hf).
    cbn [accept]. destruct n1, n2; rewrite ?Hw, ?Hna; reflexivity.
  - assert (Hw : wide v = None) by (apply wide_nofit; exact Hn).
    assert (Hna : narrow v = None) by (apply narrow_nofit; exact Hn).
    cbn [accept]. destruct n1, n2; rewrite ?Hw, ?Hna; reflexivity.
  - destruct n1, n2; cbn [is_radix] in Hr; try discriminate; reflexivity.
Qed.

(* two literals denoting the same integer are read the same, unless the integer is in 2^31..2^32-1
   and exactly one of the two is written in a radix notation *)
Theorem imm_same_value s1 s2 v n1 n2 :
  symbol_str s1 -> symbol_str s2 ->
  lit_value s1 = Some (v, n1) -> lit_value s2 = Some (v, n2) ->
  fits_i32 v \/ ~ fits32 v \/ is_radix n1 = is_radix n2 ->
  imm_from_str s1 = imm_from_str s2.
Proof.
  intros S1 S2 L1 L2 H. rewrite (imm_correct s1 S1), (imm_correct s2 S2), L1, L2.
  rewrite (accept_same_value v n1 n2 H). reflexivity.
Qed.

(* the same with the value read: a signed 32-bit value is accepted as itself in every notation *)
Corollary imm_same_value_i32 s1 s2 v n1 n2 :
  symbol_str s1 -> symbol_str s2 ->
  lit_value s1 = Some (v, n1) -> lit_value s2 = Some (v, n2) -> fits_i32 v ->
  imm_from_str s1 = Ok (Some v) /\ imm_from_str s2 = Ok (Some v).
Proof.
  intros S1 S2 L1 L2 Hf.
  assert (Hw : wide v = Some v).
  { rewrite (wide_fits v (fits_i32_fits32 v Hf)). rewrite wrap32_id; [reflexivity|].
    unfold fits_i32 in Hf. unfold in32, i32_min, i32_max. lia. }
  assert (Hn : narrow v = Some v).
  { rewrite (narrow_fits v Hf). rewrite wrap32_id; [reflexivity|].
    unfold fits_i32 in Hf. unfold in32, i32_min, i32_max. lia. }
  rewrite (imm_correct s1 S1), (imm_correct s2 S2), L1, L2. cbn [accept].
  split; [destruct n1|destruct n2]; rewrite ?Hw, ?Hn; reflexivity.
Qed.

(* the excluded case is a real difference: 4294967295 is rejected in decimal, read as -1 in hex *)
Example imm_radix_counterexample :
  symbol_str «"4294967295"» /\ symbol_str «"0xFFFFFFFF"» /\
  lit_value «"4294967295"» = Some (4294967295, Dec) /\
  lit_value «"0xFFFFFFFF"» = Some (4294967295, Hex) /\
  imm_from_str «"4294967295"» = Ok None /\ imm_from_str «"0xFFFFFFFF"» = Ok (Some (-1)).
Proof. vm_compute. repeat split; reflexivity. Qed.

Example imm_spelling_examples :
  imm_from_str «"10"» = Ok (Some 10) /\ imm_from_str «"0xA"» = Ok (Some 10) /\
  imm_from_str «"0Xa"» = Ok (Some 10) /\ imm_from_str «"0b1010"» = Ok (Some 10) /\
  imm_from_str «"0B1010"» = Ok (Some 10) /\ imm_from_str «"0010"» = Ok (Some 10) /\
  imm_from_str «"0012"» = imm_from_str «"12"» /\ imm_from_str «"0xc"» = imm_from_str «"12"» /\
  imm_from_str «"-0x10"» = Ok (Some (-16)) /\ imm_from_str «"-16"» = Ok (Some (-16)) /\
  imm_from_str «"-0b10000"» = Ok (Some (-16)) /\
  imm_from_str «"zero"» = Ok (Some 0) /\ imm_from_str «"ZERO"» = Ok (Some 0) /\
  imm_from_str «"0x0"» = Ok (Some 0) /\ imm_from_str «"-0"» = Ok (Some 0).
Proof. vm_compute. repeat split; reflexivity. Qed.

(* the theorem applies to them (hypotheses satisfiable) *)
Example imm_same_value_nonvacuous :
  symbol_str «"-0x10"» /\ symbol_str «"-16"» /\
  lit_value «"-0x10"» = Some (-16, Hex) /\ lit_value «"-16"» = Some (-16, Dec) /\ fits_i32 (-16) /\
  imm_from_str «"-0x10"» = imm_from_str «"-16"».
Proof.
  assert (S1 : symbol_str «"-0x10"») by (vm_compute; reflexivity).
  assert (S2 : symbol_str «"-16"») by (vm_compute; reflexivity).
  assert (L1 : lit_value «"-0x10"» = Some (-16, Hex)) by (vm_compute; reflexivity).
  assert (L2 : lit_value «"-16"» = Some (-16, Dec)) by (vm_compute; reflexivity).
  assert (F : fits_i32 (-16)) by (unfold fits_i32; lia).
  split; [exact S1|]. split; [exact S2|]. split; [exact L1|]. split; [exact L2|]. split; [exact F|].
  exact (imm_same_value _ _ _ _ _ S1 S2 L1 L2 (or_introl F)).
Qed.

(* ---- character literals --------------------------------------------------------------- *)
Lemma tok_imm_char t c : tt t = TChar c -> tok_imm t = Ok (Some (mkw (Z.of_N c) t)).
Proof. intros H. unfold tok_imm. rewrite H. reflexivity. Qed.

Theorem char_literal_same_value tc ts c s n :
  tt tc = TChar c -> tt ts = TSymbol s -> symbol_str s ->
  lit_value s = Some (Z.of_N c, n) -> fits_i32 (Z.of_N c) ->
  exists wc ws, tok_imm tc = Ok (Some wc) /\ tok_imm ts = Ok (Some ws) /\ wv wc = wv ws.
Proof.
  intros Hc Hs Sy L F.
  exists (mkw (Z.of_N c) tc), (mkw (Z.of_N c) ts). split; [apply tok_imm_char; exact Hc|].
  split; [|reflexivity].
  unfold tok_imm. rewrite Hs.
  destruct (imm_same_value_i32 s s (Z.of_N c) n n Sy Sy L L F) as [H _]. rewrite H. reflexivity.
Qed.

Corollary char_literal_same_value' tc ts c s n :
  tt tc = TChar c -> tt ts = TSymbol s -> symbol_str s ->
  lit_value s = Some (Z.of_N c, n) -> fits_i32 (Z.of_N c) ->
  tok_imm_val tc = Ok (Some (Z.of_N c)) /\ tok_imm_val ts = Ok (Some (Z.of_N c)).
Proof.
  intros Hc Hs Sy L F. unfold tok_imm_val.
  rewrite (tok_imm_char tc c Hc). unfold tok_imm. rewrite Hs.
  destruct (imm_same_value_i32 s s (Z.of_N c) n n Sy Sy L L F) as [H _]. rewrite H.
  split; reflexivity.
Qed.

(* 'a' and 97 and 0x61 *)
Example char_literal_example :
  let tc := mktok (TChar 97%N) range0 None in
  let ts := mktok (TSymbol «"0x61"») range0 None in
  symbol_str «"0x61"» /\ lit_value «"0x61"» = Some (Z.of_N 97, Hex) /\
  tok_imm_val tc = Ok (Some 97) /\ tok_imm_val ts = Ok (Some 97).
Proof. vm_compute. repeat split; reflexivity. Qed.

(* ================================================================================== *)
(* Part 5: optional operand forms                                                      *)
(* ================================================================================== *)

(* ---- nodes without tokens ---------------------------------------------------------------- *)
Lemma strip_erase_w {A} (w : wth A) : strip_w (erase_w w) = strip_w w.
Proof. reflexivity. Qed.

Lemma strip_erase_node n : strip_node (erase_node n) = strip_node n.
Proof.
  destruct n as [| | | | | | | |d dt r| | | | | |]; try reflexivity.
  cbn [erase_node strip_node]. f_equal.
  destruct dt as [| | | | |dt vals|]; try reflexivity.
  cbn [erase_dirtype strip_dirtype]. f_equal. rewrite map_map. apply map_ext. intros w. reflexivity.
Qed.

Theorem erase_node_strip_node n1 n2 : erase_node n1 = erase_node n2 -> strip_node n1 = strip_node n2.
Proof. intros H. rewrite <- (strip_erase_node n1), <- (strip_erase_node n2), H. reflexivity. Qed.

Lemma strip_node_idem n : strip_node (strip_node n) = strip_node n.
Proof.
  destruct n as [| | | | | | | |d dt r| | | | | |]; try reflexivity.
  cbn [strip_node]. f_equal.
  destruct dt as [| | | | |dt vals|]; try reflexivity.
  cbn [strip_dirtype]. f_equal. rewrite map_map. apply map_ext. intros w. reflexivity.
Qed.

(* ---- the parser monad, one step at a time ------------------------------------------------- *)
(* what get_any makes of the statement's raw token *)
Definition raw_ext (raw : option rawtok) (t : token) : rawtok :=
  match raw with
  | None => raw_of_token t
  | Some r => mkraw (mkrange (rstart (rrange r)) (rend (trange t))) (rfile r)
  end.
Definition raw_cur (raw : option rawtok) : rawtok := match raw with Some r => r | None => raw_default end.

Lemma pbind_ok {A B} (m : P A) (f : A -> P B) st a st' :
  m st = Ok (inr a, st') -> pbind m f st = f a st'.
Proof. intros H. unfold pbind. rewrite H. reflexivity. Qed.

Lemma get_any_ok t l raw : get_any (LTok t :: l, raw) = Ok (inr t, (l, Some (raw_ext raw t))).
Proof. reflexivity. Qed.
Lemma peek_any_ok t l raw : peek_any (LTok t :: l, raw) = Ok (inr t, (LTok t :: l, raw)).
Proof. reflexivity. Qed.
Lemma get_raw_eq st : get_raw st = Ok (inr (raw_cur (snd st)), st).
Proof. reflexivity. Qed.
Lemma lift_res_ok {A} (r : res A) a st : r = Ok a -> lift_res r st = Ok (inr a, st).
Proof. intros H. subst r. reflexivity. Qed.

Lemma get_reg_ok t r l raw :
  tok_reg t = Some r -> get_reg (LTok t :: l, raw) = Ok (inr r, (l, Some (raw_ext raw t))).
Proof.
  intros H. unfold get_reg. rewrite (pbind_ok _ _ _ _ _ (get_any_ok t l raw)).
  unfold as_reg. rewrite H. reflexivity.
Qed.
Lemma get_imm_ok t z l raw :
  tok_imm t = Ok (Some z) -> get_imm (LTok t :: l, raw) = Ok (inr z, (l, Some (raw_ext raw t))).
Proof.
  intros H. unfold get_imm. rewrite (pbind_ok _ _ _ _ _ (get_any_ok t l raw)).
  unfold as_imm. rewrite H. reflexivity.
Qed.
Lemma get_label_ok t n l raw :
  tok_label t = Some n -> get_label (LTok t :: l, raw) = Ok (inr n, (l, Some (raw_ext raw t))).
Proof.
  intros H. unfold get_label. rewrite (pbind_ok _ _ _ _ _ (get_any_ok t l raw)).
  unfold as_label. rewrite H. reflexivity.
Qed.
Lemma get_csrimm_ok t z l raw :
  tok_csrimm t = Ok (Some z) -> get_csrimm (LTok t :: l, raw) = Ok (inr z, (l, Some (raw_ext raw t))).
Proof.
  intros H. unfold get_csrimm. rewrite (pbind_ok _ _ _ _ _ (get_any_ok t l raw)).
  unfold as_csrimm. rewrite H. reflexivity.
Qed.
Lemma expect_rparen_ok t l raw :
  is_rparen t = true -> expect_rparen (LTok t :: l, raw) = Ok (inr Datatypes.tt, (l, Some (raw_ext raw t))).
Proof.
  intros H. unfold expect_rparen. rewrite (pbind_ok _ _ _ _ _ (get_any_ok t l raw)).
  rewrite H. reflexivity.
Qed.

(* ---- what a token denotes ------------------------------------------------------------------ *)
Lemma reg_val_inv t r : tok_reg_val t = Some r -> exists w, tok_reg t = Some w /\ wv w = r.
Proof.
  unfold tok_reg_val. destruct (tok_reg t) as [w|]; cbn [option_map]; intros H; [|discriminate].
  inversion H. exists w. split; reflexivity.
Qed.
Lemma label_val_inv t l : tok_label_val t = Some l -> exists w, tok_label t = Some w /\ wv w = l.
Proof.
  unfold tok_label_val. destruct (tok_label t) as [w|]; cbn [option_map]; intros H; [|discriminate].
  inversion H. exists w. split; reflexivity.
Qed.
Lemma imm_val_inv t z : tok_imm_val t = Ok (Some z) -> exists w, tok_imm t = Ok (Some w) /\ wv w = z.
Proof.
  unfold tok_imm_val. destruct (tok_imm t) as [[w|]| |]; cbn [res_map option_map]; intros H; try discriminate.
  inversion H. exists w. split; reflexivity.
Qed.
Lemma csr_val_inv t z : tok_csr_val t = Ok (Some z) -> exists w, tok_csrimm t = Ok (Some w) /\ wv w = z.
Proof.
  unfold tok_csr_val. destruct (tok_csrimm t) as [[w|]| |]; cbn [res_map option_map]; intros H; try discriminate.
  inversion H. exists w. split; reflexivity.
Qed.

(* and back: from the parser's own token readers to the value readers *)
Lemma reg_val_intro t w : tok_reg t = Some w -> tok_reg_val t = Some (wv w).
Proof. intros H. unfold tok_reg_val. rewrite H. reflexivity. Qed.
Lemma label_val_intro t w : tok_label t = Some w -> tok_label_val t = Some (wv w).
Proof. intros H. unfold tok_label_val. rewrite H. reflexivity. Qed.
Lemma imm_val_intro t w : tok_imm t = Ok (Some w) -> tok_imm_val t = Ok (Some (wv w)).
Proof. intros H. unfold tok_imm_val. rewrite H. reflexivity. Qed.
Lemma csr_val_intro t w : tok_csrimm t = Ok (Some w) -> tok_csr_val t = Ok (Some (wv w)).
Proof. intros H. unfold tok_csr_val. rewrite H. reflexivity. Qed.

Lemma lparen_imm t : is_lparen t = true -> tok_imm t = Ok None.
Proof. unfold is_lparen, tok_imm. destruct (tt t); intros H; try discriminate; reflexivity. Qed.
Lemma lparen_reg t : is_lparen t = true -> tok_reg t = None.
Proof. unfold is_lparen, tok_reg. destruct (tt t); intros H; try discriminate; reflexivity. Qed.
Lemma lparen_label t : is_lparen t = true -> tok_label t = None.
Proof. unfold is_lparen, tok_label. destruct (tt t); intros H; try discriminate; reflexivity. Qed.

(* a label is never a register name (LabelString::from_str rejects them) *)
Lemma label_not_reg t l : tok_label t = Some l -> tok_reg t = None.
Proof.
  unfold tok_label, tok_reg. destruct (tt t) as [| | | |s| | | |]; try discriminate.
  unfold label_from_str. destruct (reg_from_str s); [discriminate|reflexivity].
Qed.
Lemma label_val_not_reg t l : tok_label_val t = Some l -> tok_reg t = None.
Proof. intros H. destruct (label_val_inv t l H) as [w [Hw _]]. exact (label_not_reg t w Hw). Qed.
(* and conversely a register name is never a label *)
Lemma reg_not_label t r : tok_reg t = Some r -> tok_label t = None.
Proof.
  intros H. destruct (tok_label t) as [l|] eqn:E; [|reflexivity].
  rewrite (label_not_reg t l E) in H. discriminate.
Qed.

(* ---- stepping tactics ------------------------------------------------------------------------ *)
Ltac psolve :=
  match goal with
  | |- get_reg _ = _ => apply get_reg_ok; eassumption
  | |- get_imm _ = _ => apply get_imm_ok; eassumption
  | |- get_label _ = _ => apply get_label_ok; eassumption
  | |- get_csrimm _ = _ => apply get_csrimm_ok; eassumption
  | |- expect_rparen _ = _ => apply expect_rparen_ok; eassumption
  | |- get_any _ = _ => apply get_any_ok
  | |- peek_any _ = _ => apply peek_any_ok
  | |- get_raw _ = _ => apply get_raw_eq
  | |- lift_res _ _ = _ => apply lift_res_ok; eassumption
  end.
Ltac pstep := erewrite pbind_ok by psolve; cbv beta iota.
Ltac prew :=
  match goal with
  | H : tok_reg ?t = _ |- context[tok_reg ?t] => rewrite H
  | H : tok_label ?t = _ |- context[tok_label ?t] => rewrite H
  | H : is_lparen ?t = _ |- context[is_lparen ?t] => rewrite H
  end; cbv beta iota.
Ltac inv_vals :=
  repeat match goal with
  | H : tok_reg_val ?t = Some ?r |- _ =>
      let w := fresh "w" in let Hw := fresh "Hw" in let Hv := fresh "Hv" in
      destruct (reg_val_inv t r H) as [w [Hw Hv]]; clear H
  | H : tok_label_val ?t = Some ?r |- _ =>
      let w := fresh "w" in let Hw := fresh "Hw" in let Hv := fresh "Hv" in
      pose proof (label_val_not_reg t r H);
      destruct (label_val_inv t r H) as [w [Hw Hv]]; clear H
  | H : tok_imm_val ?t = Ok (Some ?r) |- _ =>
      let w := fresh "w" in let Hw := fresh "Hw" in let Hv := fresh "Hv" in
      destruct (imm_val_inv t r H) as [w [Hw Hv]]; clear H
  | H : tok_csr_val ?t = Ok (Some ?r) |- _ =>
      let w := fresh "w" in let Hw := fresh "Hw" in let Hv := fresh "Hv" in
      destruct (csr_val_inv t r H) as [w [Hw Hv]]; clear H
  | H : is_lparen ?t = true |- _ =>
      pose proof (lparen_imm t H); pose proof (lparen_reg t H); pose proof (lparen_label t H);
      let H' := fresh "Hlp" in assert (H' : is_lparen t = true /\ True) by (split; [exact H|exact I]); clear H
  end;
  repeat match goal with H : is_lparen ?t = true /\ True |- _ => destruct H as [H _] end.
(* run one side: the goal is  parse_inst i t0 (items, raw) = Ok (inr ?n, (?rest, ?raw')) *)
Ltac prun :=
  unfold parse_inst;
  repeat match goal with H : inst_kind ?i = _ |- context[inst_kind ?i] => rewrite H end;
  cbn [inst_kind]; cbv beta iota zeta;
  repeat (first [pstep | prew]);
  reflexivity.
Ltac pstrip :=
  cbn [strip_node]; unfold strip_w, sw; cbn [wv];
  repeat match goal with H : wv _ = _ |- _ => rewrite ?H; clear H end;
  reflexivity.
Ltac parses_tac :=
  intros; inv_vals; unfold parses_to; eexists; eexists; split; [prun|pstrip].
Ltac same_tac :=
  intros; inv_vals; unfold same_parse; do 4 eexists; split; [prun|split; [prun|pstrip]].

Lemma same_parse_intro a b sn ra rb : parses_to a sn ra -> parses_to b sn rb -> same_parse a b ra rb.
Proof.
  intros [na [rawa [Ha Sa]]] [nb [rawb [Hb Sb]]]. exists na, nb, rawa, rawb.
  split; [exact Ha|]. split; [exact Hb|]. rewrite Sa, Sb. reflexivity.
Qed.

(* ---- the node of each written form (values only) -------------------------------------------- *)
(* loads:  i rd, imm(rs)  |  i rd, (rs)  |  i rd, imm *)
Lemma form_load_off_paren i t0 trd ti lp trs rp rest raw rd z rs :
  inst_kind i = KLoad -> tok_reg_val trd = Some rd -> tok_imm_val ti = Ok (Some z) ->
  is_lparen lp = true -> tok_reg_val trs = Some rs -> is_rparen rp = true ->
  parses_to (parse_inst i t0 (LTok trd :: LTok ti :: LTok lp :: LTok trs :: LTok rp :: rest, raw))
            (PLoad (sw i) (sw rd) (sw rs) (sw z) raw_default) rest.
Proof. parses_tac. Qed.
Lemma form_load_paren i t0 trd lp trs rp rest raw rd rs :
  inst_kind i = KLoad -> tok_reg_val trd = Some rd ->
  is_lparen lp = true -> tok_reg_val trs = Some rs -> is_rparen rp = true ->
  parses_to (parse_inst i t0 (LTok trd :: LTok lp :: LTok trs :: LTok rp :: rest, raw))
            (PLoad (sw i) (sw rd) (sw rs) (sw 0) raw_default) rest.
Proof. parses_tac. Qed.
(* `i rd, imm` : the token after the immediate is looked at, not consumed *)
Lemma form_load_imm i t0 trd ti pk rest raw rd z :
  inst_kind i = KLoad -> tok_reg_val trd = Some rd -> tok_imm_val ti = Ok (Some z) ->
  is_lparen pk = false ->
  parses_to (parse_inst i t0 (LTok trd :: LTok ti :: LTok pk :: rest, raw))
            (PLoad (sw i) (sw rd) (sw 0%N) (sw z) raw_default) (LTok pk :: rest).
Proof. parses_tac. Qed.

(* stores:  i rs2, imm(rs1)  |  i rs2, (rs1)  |  i rs2, imm *)
Lemma form_store_off_paren i t0 trs2 ti lp trs1 rp rest raw rs2 z rs1 :
  inst_kind i = KStore -> tok_reg_val trs2 = Some rs2 -> tok_imm_val ti = Ok (Some z) ->
  is_lparen lp = true -> tok_reg_val trs1 = Some rs1 -> is_rparen rp = true ->
  parses_to (parse_inst i t0 (LTok trs2 :: LTok ti :: LTok lp :: LTok trs1 :: LTok rp :: rest, raw))
            (PStore (sw i) (sw rs1) (sw rs2) (sw z) raw_default) rest.
Proof. parses_tac. Qed.
Lemma form_store_paren i t0 trs2 lp trs1 rp rest raw rs2 rs1 :
  inst_kind i = KStore -> tok_reg_val trs2 = Some rs2 ->
  is_lparen lp = true -> tok_reg_val trs1 = Some rs1 -> is_rparen rp = true ->
  parses_to (parse_inst i t0 (LTok trs2 :: LTok lp :: LTok trs1 :: LTok rp :: rest, raw))
            (PStore (sw i) (sw rs1) (sw rs2) (sw 0) raw_default) rest.
Proof. parses_tac. Qed.
Lemma form_store_imm i t0 trs2 ti pk rest raw rs2 z :
  inst_kind i = KStore -> tok_reg_val trs2 = Some rs2 -> tok_imm_val ti = Ok (Some z) ->
  is_lparen pk = false -> tok_reg pk = None ->
  parses_to (parse_inst i t0 (LTok trs2 :: LTok ti :: LTok pk :: rest, raw))
            (PStore (sw i) (sw 0%N) (sw rs2) (sw z) raw_default) (LTok pk :: rest).
Proof. parses_tac. Qed.

(* jalr:  rd, rs, imm  |  rd, imm(rs)  |  rd, (rs)  |  rs, imm  |  rs
   The operand after the first register is tried as a register BEFORE it is tried as an immediate, so
   an immediate there must not be spelled like a register (the word `zero` is both). *)
Lemma form_jalr_rd_rs_imm i t0 trd trs ti rest raw rd rs z :
  inst_kind i = KJumpLinkR -> tok_reg_val trd = Some rd -> tok_reg_val trs = Some rs ->
  tok_imm_val ti = Ok (Some z) ->
  parses_to (parse_inst i t0 (LTok trd :: LTok trs :: LTok ti :: rest, raw))
            (PJumpLinkR (sw i) (sw rd) (sw rs) (sw z) raw_default) rest.
Proof. parses_tac. Qed.
Lemma form_jalr_rd_off_paren i t0 trd ti lp trs rp rest raw rd z rs :
  inst_kind i = KJumpLinkR -> tok_reg_val trd = Some rd ->
  tok_imm_val ti = Ok (Some z) -> tok_reg ti = None ->
  is_lparen lp = true -> tok_reg_val trs = Some rs -> is_rparen rp = true ->
  parses_to (parse_inst i t0 (LTok trd :: LTok ti :: LTok lp :: LTok trs :: LTok rp :: rest, raw))
            (PJumpLinkR (sw i) (sw rd) (sw rs) (sw z) raw_default) rest.
Proof. parses_tac. Qed.
Lemma form_jalr_rd_paren i t0 trd lp trs rp rest raw rd rs :
  inst_kind i = KJumpLinkR -> tok_reg_val trd = Some rd ->
  is_lparen lp = true -> tok_reg_val trs = Some rs -> is_rparen rp = true ->
  parses_to (parse_inst i t0 (LTok trd :: LTok lp :: LTok trs :: LTok rp :: rest, raw))
            (PJumpLinkR (sw i) (sw rd) (sw rs) (sw 0) raw_default) rest.
Proof. parses_tac. Qed.
Lemma form_jalr_rs_imm i t0 trs ti pk rest raw rs z :
  inst_kind i = KJumpLinkR -> tok_reg_val trs = Some rs ->
  tok_imm_val ti = Ok (Some z) -> tok_reg ti = None -> is_lparen pk = false ->
  parses_to (parse_inst i t0 (LTok trs :: LTok ti :: LTok pk :: rest, raw))
            (PJumpLinkR (sw i) (sw 1%N) (sw rs) (sw z) raw_default) (LTok pk :: rest).
Proof. parses_tac. Qed.
(* `jalr rs`: the token after rs is looked at; when it is neither register, immediate nor '(' (the newline,
   say) it is left unread (fix: it used to be consumed) *)
Lemma form_jalr_rs i t0 trs nx rest raw rs :
  inst_kind i = KJumpLinkR -> tok_reg_val trs = Some rs ->
  tok_reg nx = None -> tok_imm nx = Ok None -> is_lparen nx = false ->
  parses_to (parse_inst i t0 (LTok trs :: LTok nx :: rest, raw))
            (PJumpLinkR (sw i) (sw 1%N) (sw rs) (sw 0) raw_default) (LTok nx :: rest).
Proof. parses_tac. Qed.

(* jal:  rd, label  |  label *)
Lemma form_jal_rd_label i t0 trd tl rest raw rd l :
  inst_kind i = KJumpLink -> tok_reg_val trd = Some rd -> tok_label_val tl = Some l ->
  parses_to (parse_inst i t0 (LTok trd :: LTok tl :: rest, raw))
            (PJumpLink (sw i) (sw rd) (sw l) raw_default) rest.
Proof. parses_tac. Qed.
Lemma form_jal_label i t0 tl rest raw l :
  inst_kind i = KJumpLink -> tok_label_val tl = Some l ->
  parses_to (parse_inst i t0 (LTok tl :: rest, raw))
            (PJumpLink (sw i) (sw 1%N) (sw l) raw_default) rest.
Proof. parses_tac. Qed.

(* the kinds with one form *)
Lemma form_arith i t0 ta tb tc rest raw a b c :
  inst_kind i = KArith -> tok_reg_val ta = Some a -> tok_reg_val tb = Some b -> tok_reg_val tc = Some c ->
  parses_to (parse_inst i t0 (LTok ta :: LTok tb :: LTok tc :: rest, raw))
            (PArith (sw i) (sw a) (sw b) (sw c) raw_default) rest.
Proof. parses_tac. Qed.
Lemma form_iarith i t0 ta tb ti rest raw a b z :
  inst_kind i = KIArith -> tok_reg_val ta = Some a -> tok_reg_val tb = Some b -> tok_imm_val ti = Ok (Some z) ->
  parses_to (parse_inst i t0 (LTok ta :: LTok tb :: LTok ti :: rest, raw))
            (PIArith (sw i) (sw a) (sw b) (sw z) raw_default) rest.
Proof. parses_tac. Qed.
Lemma form_branch i t0 ta tb tl rest raw a b l :
  inst_kind i = KBranch -> tok_reg_val ta = Some a -> tok_reg_val tb = Some b -> tok_label_val tl = Some l ->
  parses_to (parse_inst i t0 (LTok ta :: LTok tb :: LTok tl :: rest, raw))
            (PBranch (sw i) (sw a) (sw b) (sw l) raw_default) rest.
Proof. parses_tac. Qed.
Lemma form_csr i t0 ta tc tb rest raw a c b :
  inst_kind i = KCsr -> tok_reg_val ta = Some a -> tok_csr_val tc = Ok (Some c) -> tok_reg_val tb = Some b ->
  parses_to (parse_inst i t0 (LTok ta :: LTok tc :: LTok tb :: rest, raw))
            (PCsr (sw i) (sw a) (sw c) (sw b) raw_default) rest.
Proof. parses_tac. Qed.
Lemma form_csri i t0 ta tc ti rest raw a c z :
  inst_kind i = KCsrI -> tok_reg_val ta = Some a -> tok_csr_val tc = Ok (Some c) -> tok_imm_val ti = Ok (Some z) ->
  parses_to (parse_inst i t0 (LTok ta :: LTok tc :: LTok ti :: rest, raw))
            (PCsrI (sw i) (sw a) (sw c) (sw z) raw_default) rest.
Proof. parses_tac. Qed.
Lemma form_basic i t0 rest raw :
  inst_kind i = KBasic -> parses_to (parse_inst i t0 (rest, raw)) (PBasic (sw i) raw_default) rest.
Proof. parses_tac. Qed.

(* the only register name that is also an immediate is the word `zero` *)
Definition reg_name_not_imm (p : str * reg) : bool :=
  (str_eqb (fst p) «"zero"» || match imm_from_str (fst p) with Ok None => true | _ => false end)%bool.
Lemma reg_names_not_imm : forallb reg_name_not_imm reg_names = true.
Proof. vm_compute. reflexivity. Qed.
Lemma imm_not_reg t z :
  tok_imm_val t = Ok (Some z) -> tt t <> TSymbol «"zero"» -> tok_reg t = None.
Proof.
  intros Hi Hz. destruct (imm_val_inv t z Hi) as [w [Hw _]].
  unfold tok_imm in Hw. unfold tok_reg. destruct (tt t) as [| | | |s| | | |]; try reflexivity.
  destruct (reg_from_str s) as [r|] eqn:Er; [|reflexivity]. exfalso.
  unfold reg_from_str in Er. apply assoc_str_in in Er.
  pose proof (proj1 (forallb_forall _ _) reg_names_not_imm (s, r) Er) as Hok.
  unfold reg_name_not_imm in Hok. cbn [fst] in Hok. apply orb_prop in Hok. destruct Hok as [Hs|Hn].
  - apply str_eqb_true_eq in Hs. subst s. apply Hz. reflexivity.
  - destruct (imm_from_str s) as [[v|]| |]; try discriminate.
Qed.

(* ---- (5) headline: the optional forms are the same instruction ---------------------------- *)
(* a.  i rd, (rs)  =  i rd, 0(rs) *)
Theorem load_paren_eq_zero_off i t0 t0' trd lp trs rp trd' tz lp' trs' rp' rest rest' raw raw' rd rs :
  inst_kind i = KLoad ->
  tok_reg_val trd = Some rd -> is_lparen lp = true -> tok_reg_val trs = Some rs -> is_rparen rp = true ->
  tok_reg_val trd' = Some rd -> tok_imm_val tz = Ok (Some 0) -> is_lparen lp' = true ->
  tok_reg_val trs' = Some rs -> is_rparen rp' = true ->
  same_parse (parse_inst i t0 (LTok trd :: LTok lp :: LTok trs :: LTok rp :: rest, raw))
             (parse_inst i t0' (LTok trd' :: LTok tz :: LTok lp' :: LTok trs' :: LTok rp' :: rest', raw'))
             rest rest'.
Proof. same_tac. Qed.
(* a'.  i rd, imm  =  i rd, imm(x0)   (pk, the token after imm, is not '(' and stays unread) *)
Theorem load_imm_eq_imm_x0 i t0 t0' trd ti pk trd' ti' lp tzero rp rest rest' raw raw' rd z :
  inst_kind i = KLoad ->
  tok_reg_val trd = Some rd -> tok_imm_val ti = Ok (Some z) -> is_lparen pk = false ->
  tok_reg_val trd' = Some rd -> tok_imm_val ti' = Ok (Some z) -> is_lparen lp = true ->
  tok_reg_val tzero = Some 0%N -> is_rparen rp = true ->
  same_parse (parse_inst i t0 (LTok trd :: LTok ti :: LTok pk :: rest, raw))
             (parse_inst i t0' (LTok trd' :: LTok ti' :: LTok lp :: LTok tzero :: LTok rp :: rest', raw'))
             (LTok pk :: rest) rest'.
Proof. same_tac. Qed.
(* b.  i rs2, (rs1)  =  i rs2, 0(rs1) *)
Theorem store_paren_eq_zero_off i t0 t0' trs2 lp trs1 rp trs2' tz lp' trs1' rp' rest rest' raw raw' rs2 rs1 :
  inst_kind i = KStore ->
  tok_reg_val trs2 = Some rs2 -> is_lparen lp = true -> tok_reg_val trs1 = Some rs1 -> is_rparen rp = true ->
  tok_reg_val trs2' = Some rs2 -> tok_imm_val tz = Ok (Some 0) -> is_lparen lp' = true ->
  tok_reg_val trs1' = Some rs1 -> is_rparen rp' = true ->
  same_parse (parse_inst i t0 (LTok trs2 :: LTok lp :: LTok trs1 :: LTok rp :: rest, raw))
             (parse_inst i t0' (LTok trs2' :: LTok tz :: LTok lp' :: LTok trs1' :: LTok rp' :: rest', raw'))
             rest rest'.
Proof. same_tac. Qed.
(* b'.  i rs2, imm  =  i rs2, imm(x0)   (pk is neither '(' nor a register and stays unread) *)
Theorem store_imm_eq_imm_x0 i t0 t0' trs2 ti pk trs2' ti' lp tzero rp rest rest' raw raw' rs2 z :
  inst_kind i = KStore ->
  tok_reg_val trs2 = Some rs2 -> tok_imm_val ti = Ok (Some z) -> is_lparen pk = false -> tok_reg pk = None ->
  tok_reg_val trs2' = Some rs2 -> tok_imm_val ti' = Ok (Some z) -> is_lparen lp = true ->
  tok_reg_val tzero = Some 0%N -> is_rparen rp = true ->
  same_parse (parse_inst i t0 (LTok trs2 :: LTok ti :: LTok pk :: rest, raw))
             (parse_inst i t0' (LTok trs2' :: LTok ti' :: LTok lp :: LTok tzero :: LTok rp :: rest', raw'))
             (LTok pk :: rest) rest'.
Proof. same_tac. Qed.
(* c.  jalr rd, (rs)  =  jalr rd, 0(rs) *)
Theorem jalr_paren_eq_zero_off t0 t0' trd lp trs rp trd' tz lp' trs' rp' rest rest' raw raw' rd rs :
  tok_reg_val trd = Some rd -> is_lparen lp = true -> tok_reg_val trs = Some rs -> is_rparen rp = true ->
  tok_reg_val trd' = Some rd -> tok_imm_val tz = Ok (Some 0) -> tok_reg tz = None -> is_lparen lp' = true ->
  tok_reg_val trs' = Some rs -> is_rparen rp' = true ->
  same_parse (parse_inst IJalr t0 (LTok trd :: LTok lp :: LTok trs :: LTok rp :: rest, raw))
             (parse_inst IJalr t0' (LTok trd' :: LTok tz :: LTok lp' :: LTok trs' :: LTok rp' :: rest', raw'))
             rest rest'.
Proof. same_tac. Qed.
(*     jalr rd, imm(rs)  =  jalr rd, rs, imm *)
Theorem jalr_off_paren_eq_rs_imm t0 t0' trd ti lp trs rp trd' trs' ti' rest rest' raw raw' rd rs z :
  tok_reg_val trd = Some rd -> tok_imm_val ti = Ok (Some z) -> tok_reg ti = None -> is_lparen lp = true ->
  tok_reg_val trs = Some rs -> is_rparen rp = true ->
  tok_reg_val trd' = Some rd -> tok_reg_val trs' = Some rs -> tok_imm_val ti' = Ok (Some z) ->
  same_parse (parse_inst IJalr t0 (LTok trd :: LTok ti :: LTok lp :: LTok trs :: LTok rp :: rest, raw))
             (parse_inst IJalr t0' (LTok trd' :: LTok trs' :: LTok ti' :: rest', raw'))
             rest rest'.
Proof. same_tac. Qed.
(*     jalr rd, (rs)  =  jalr rd, rs, 0 *)
Theorem jalr_paren_eq_rs_zero t0 t0' trd lp trs rp trd' trs' tz rest rest' raw raw' rd rs :
  tok_reg_val trd = Some rd -> is_lparen lp = true -> tok_reg_val trs = Some rs -> is_rparen rp = true ->
  tok_reg_val trd' = Some rd -> tok_reg_val trs' = Some rs -> tok_imm_val tz = Ok (Some 0) ->
  same_parse (parse_inst IJalr t0 (LTok trd :: LTok lp :: LTok trs :: LTok rp :: rest, raw))
             (parse_inst IJalr t0' (LTok trd' :: LTok trs' :: LTok tz :: rest', raw'))
             rest rest'.
Proof. same_tac. Qed.
(*     jalr rs  =  jalr ra, rs, 0     (nx, the token after rs, stays unread) *)
Theorem jalr_rs_eq_ra_rs_zero t0 t0' trs nx tra trs' tz rest rest' raw raw' rs :
  tok_reg_val trs = Some rs -> tok_reg nx = None -> tok_imm nx = Ok None -> is_lparen nx = false ->
  tok_reg_val tra = Some 1%N -> tok_reg_val trs' = Some rs -> tok_imm_val tz = Ok (Some 0) ->
  same_parse (parse_inst IJalr t0 (LTok trs :: LTok nx :: rest, raw))
             (parse_inst IJalr t0' (LTok tra :: LTok trs' :: LTok tz :: rest', raw'))
             (LTok nx :: rest) rest'.
Proof. same_tac. Qed.
(*     jalr rs, imm  =  jalr ra, rs, imm   (pk, the token after imm, is not '(' and stays unread) *)
Theorem jalr_rs_imm_eq_ra_rs_imm t0 t0' trs ti pk tra trs' ti' rest rest' raw raw' rs z :
  tok_reg_val trs = Some rs -> tok_imm_val ti = Ok (Some z) -> tok_reg ti = None -> is_lparen pk = false ->
  tok_reg_val tra = Some 1%N -> tok_reg_val trs' = Some rs -> tok_imm_val ti' = Ok (Some z) ->
  same_parse (parse_inst IJalr t0 (LTok trs :: LTok ti :: LTok pk :: rest, raw))
             (parse_inst IJalr t0' (LTok tra :: LTok trs' :: LTok ti' :: rest', raw'))
             (LTok pk :: rest) rest'.
Proof. same_tac. Qed.
(* d.  jal lbl  =  jal ra, lbl *)
Theorem jal_label_eq_ra_label t0 t0' tl tra tl' rest rest' raw raw' l :
  tok_label_val tl = Some l ->
  tok_reg_val tra = Some 1%N -> tok_label_val tl' = Some l ->
  same_parse (parse_inst IJal t0 (LTok tl :: rest, raw))
             (parse_inst IJal t0' (LTok tra :: LTok tl' :: rest', raw'))
             rest rest'.
Proof. same_tac. Qed.

(* ================================================================================== *)
(* Part 6: pseudo-instructions                                                         *)
(* ================================================================================== *)

(* ---- the analysis sees a node only through its constructor and values ---------------------- *)
Lemma kill_reg_strip n : kill_reg (strip_node n) = kill_reg n.
Proof.
  destruct n; try reflexivity.
  unfold kill_reg. cbn [strip_node calls_to]. unfold reg_is, strip_w. cbn [wv].
  destruct (N.eqb (wv rd) 1); reflexivity.
Qed.
Lemma reads_from_strip n : map wv (reads_from (strip_node n)) = map wv (reads_from n).
Proof.
  destruct n; try reflexivity;
    unfold reads_from; cbn [strip_node reads_from_vec]; unfold strip_w; cbn [wv];
    match goal with |- context[N.eqb ?a ?b] => destruct (N.eqb a b) end; reflexivity.
Qed.
Lemma is_return_strip n : is_return (strip_node n) = is_return n.
Proof. destruct n; reflexivity. Qed.
Lemma is_ureturn_strip n : is_ureturn (strip_node n) = is_ureturn n.
Proof. destruct n; reflexivity. Qed.
Lemma gen_reg_strip n : gen_reg (strip_node n) = gen_reg n.
Proof. unfold gen_reg. rewrite is_ureturn_strip, is_return_strip, reads_from_strip. reflexivity. Qed.
Lemma is_unconditional_jump_strip n : is_unconditional_jump (strip_node n) = is_unconditional_jump n.
Proof. destruct n; reflexivity. Qed.
Lemma is_ecall_strip n : is_ecall (strip_node n) = is_ecall n.
Proof. destruct n; reflexivity. Qed.
Lemma is_instruction_strip n : is_instruction (strip_node n) = is_instruction n.
Proof. destruct n; reflexivity. Qed.
Lemma writes_to_strip n : option_map wv (writes_to (strip_node n)) = option_map wv (writes_to n).
Proof. destruct n; reflexivity. Qed.
Lemma calls_to_strip n : option_map wv (calls_to (strip_node n)) = option_map wv (calls_to n).
Proof.
  destruct n; try reflexivity. cbn [strip_node calls_to]. unfold reg_is, strip_w. cbn [wv].
  destruct (N.eqb (wv rd) 1); reflexivity.
Qed.
Lemma jumps_to_strip n : option_map wv (jumps_to (strip_node n)) = option_map wv (jumps_to n).
Proof.
  destruct n; try reflexivity. cbn [strip_node jumps_to]. unfold reg_is, strip_w. cbn [wv].
  destruct (N.eqb (wv rd) 1); reflexivity.
Qed.
Lemma stores_to_memory_strip n : stores_to_memory (strip_node n) = stores_to_memory n.
Proof. destruct n; reflexivity. Qed.
Lemma reads_from_memory_strip n : reads_from_memory (strip_node n) = reads_from_memory n.
Proof. destruct n; reflexivity. Qed.
Lemma uses_memory_location_strip n : uses_memory_location (strip_node n) = uses_memory_location n.
Proof. destruct n; reflexivity. Qed.
Lemma node_class_strip n : node_class (strip_node n) = node_class n.
Proof. destruct n; reflexivity. Qed.

Theorem strip_node_genkill n1 n2 :
  strip_node n1 = strip_node n2 -> kill_reg n1 = kill_reg n2 /\ gen_reg n1 = gen_reg n2.
Proof.
  intros H. rewrite <- (kill_reg_strip n1), <- (kill_reg_strip n2), <- (gen_reg_strip n1), <- (gen_reg_strip n2), H.
  split; reflexivity.
Qed.

Theorem strip_node_properties n1 n2 :
  strip_node n1 = strip_node n2 ->
  node_class n1 = node_class n2 /\
  kill_reg n1 = kill_reg n2 /\ gen_reg n1 = gen_reg n2 /\
  is_return n1 = is_return n2 /\ is_ureturn n1 = is_ureturn n2 /\ is_ecall n1 = is_ecall n2 /\
  is_unconditional_jump n1 = is_unconditional_jump n2 /\ is_instruction n1 = is_instruction n2 /\
  option_map wv (writes_to n1) = option_map wv (writes_to n2) /\
  map wv (reads_from n1) = map wv (reads_from n2) /\
  option_map wv (calls_to n1) = option_map wv (calls_to n2) /\
  option_map wv (jumps_to n1) = option_map wv (jumps_to n2) /\
  stores_to_memory n1 = stores_to_memory n2 /\ reads_from_memory n1 = reads_from_memory n2 /\
  uses_memory_location n1 = uses_memory_location n2.
Proof.
  intros H.
  rewrite <- (node_class_strip n1), <- (node_class_strip n2),
    <- (kill_reg_strip n1), <- (kill_reg_strip n2), <- (gen_reg_strip n1), <- (gen_reg_strip n2),
    <- (is_return_strip n1), <- (is_return_strip n2), <- (is_ureturn_strip n1), <- (is_ureturn_strip n2),
    <- (is_ecall_strip n1), <- (is_ecall_strip n2),
    <- (is_unconditional_jump_strip n1), <- (is_unconditional_jump_strip n2),
    <- (is_instruction_strip n1), <- (is_instruction_strip n2),
    <- (writes_to_strip n1), <- (writes_to_strip n2), <- (reads_from_strip n1), <- (reads_from_strip n2),
    <- (calls_to_strip n1), <- (calls_to_strip n2), <- (jumps_to_strip n1), <- (jumps_to_strip n2),
    <- (stores_to_memory_strip n1), <- (stores_to_memory_strip n2),
    <- (reads_from_memory_strip n1), <- (reads_from_memory_strip n2),
    <- (uses_memory_location_strip n1), <- (uses_memory_location_strip n2), H.
  repeat split; reflexivity.
Qed.

(* two spellings that parse the same have the same class, kill set and gen set *)
Corollary same_parse_genkill a b ra rb :
  same_parse a b ra rb ->
  exists na nb rawa rawb, a = Ok (inr na, (ra, rawa)) /\ b = Ok (inr nb, (rb, rawb)) /\
    node_class na = node_class nb /\ kill_reg na = kill_reg nb /\ gen_reg na = gen_reg nb.
Proof.
  intros [na [nb [rawa [rawb [Ha [Hb Hs]]]]]]. exists na, nb, rawa, rawb.
  destruct (strip_node_properties na nb Hs) as [Hc [Hk [Hg _]]].
  repeat split; assumption.
Qed.

(* ---- each pseudo-instruction against its expansion ------------------------------------------ *)
(* nop  =  addi x0, x0, 0 *)
Theorem pseudo_nop t0 u0 ux1 ux2 uk rest rest' raw raw' :
  tok_reg_val ux1 = Some 0%N ->
  tok_reg_val ux2 = Some 0%N ->
  tok_imm_val uk = Ok (Some 0) ->
  same_parse (parse_inst INop t0 (rest, raw))
             (parse_inst IAddi u0 (LTok ux1 :: LTok ux2 :: LTok uk :: rest', raw'))
             rest rest'.
Proof. same_tac. Qed.

(* li rd, imm  =  addi rd, x0, imm *)
Theorem pseudo_li t0 u0 t_rd t_z u_rd ux1 u_z rest rest' raw raw' rd z :
  tok_reg_val t_rd = Some rd ->
  tok_imm_val t_z = Ok (Some z) ->
  tok_reg_val u_rd = Some rd ->
  tok_reg_val ux1 = Some 0%N ->
  tok_imm_val u_z = Ok (Some z) ->
  same_parse (parse_inst ILi t0 (LTok t_rd :: LTok t_z :: rest, raw))
             (parse_inst IAddi u0 (LTok u_rd :: LTok ux1 :: LTok u_z :: rest', raw'))
             rest rest'.
Proof. same_tac. Qed.

(* not rd, rs  =  xori rd, rs, -1 *)
Theorem pseudo_not t0 u0 t_rd t_rs u_rd u_rs uk rest rest' raw raw' rd rs :
  tok_reg_val t_rd = Some rd ->
  tok_reg_val t_rs = Some rs ->
  tok_reg_val u_rd = Some rd ->
  tok_reg_val u_rs = Some rs ->
  tok_imm_val uk = Ok (Some (-1)) ->
  same_parse (parse_inst INot t0 (LTok t_rd :: LTok t_rs :: rest, raw))
             (parse_inst IXori u0 (LTok u_rd :: LTok u_rs :: LTok uk :: rest', raw'))
             rest rest'.
Proof. same_tac. Qed.

(* neg rd, rs  =  sub rd, x0, rs *)
Theorem pseudo_neg t0 u0 t_rd t_rs u_rd ux1 u_rs rest rest' raw raw' rd rs :
  tok_reg_val t_rd = Some rd ->
  tok_reg_val t_rs = Some rs ->
  tok_reg_val u_rd = Some rd ->
  tok_reg_val ux1 = Some 0%N ->
  tok_reg_val u_rs = Some rs ->
  same_parse (parse_inst INeg t0 (LTok t_rd :: LTok t_rs :: rest, raw))
             (parse_inst ISub u0 (LTok u_rd :: LTok ux1 :: LTok u_rs :: rest', raw'))
             rest rest'.
Proof. same_tac. Qed.

(* seqz rd, rs  =  sltiu rd, rs, 1 *)
Theorem pseudo_seqz t0 u0 t_rd t_rs u_rd u_rs uk rest rest' raw raw' rd rs :
  tok_reg_val t_rd = Some rd ->
  tok_reg_val t_rs = Some rs ->
  tok_reg_val u_rd = Some rd ->
  tok_reg_val u_rs = Some rs ->
  tok_imm_val uk = Ok (Some 1) ->
  same_parse (parse_inst ISeqz t0 (LTok t_rd :: LTok t_rs :: rest, raw))
             (parse_inst ISltiu u0 (LTok u_rd :: LTok u_rs :: LTok uk :: rest', raw'))
             rest rest'.
Proof. same_tac. Qed.

(* snez rd, rs  =  sltu rd, x0, rs *)
Theorem pseudo_snez t0 u0 t_rd t_rs u_rd ux1 u_rs rest rest' raw raw' rd rs :
  tok_reg_val t_rd = Some rd ->
  tok_reg_val t_rs = Some rs ->
  tok_reg_val u_rd = Some rd ->
  tok_reg_val ux1 = Some 0%N ->
  tok_reg_val u_rs = Some rs ->
  same_parse (parse_inst ISnez t0 (LTok t_rd :: LTok t_rs :: rest, raw))
             (parse_inst ISltu u0 (LTok u_rd :: LTok ux1 :: LTok u_rs :: rest', raw'))
             rest rest'.
Proof. same_tac. Qed.

(* sltz rd, rs  =  slt rd, rs, x0 *)
Theorem pseudo_sltz t0 u0 t_rd t_rs u_rd u_rs ux1 rest rest' raw raw' rd rs :
  tok_reg_val t_rd = Some rd ->
  tok_reg_val t_rs = Some rs ->
  tok_reg_val u_rd = Some rd ->
  tok_reg_val u_rs = Some rs ->
  tok_reg_val ux1 = Some 0%N ->
  same_parse (parse_inst ISltz t0 (LTok t_rd :: LTok t_rs :: rest, raw))
             (parse_inst ISlt u0 (LTok u_rd :: LTok u_rs :: LTok ux1 :: rest', raw'))
             rest rest'.
Proof. same_tac. Qed.

(* sgtz rd, rs  =  slt rd, x0, rs *)
Theorem pseudo_sgtz t0 u0 t_rd t_rs u_rd ux1 u_rs rest rest' raw raw' rd rs :
  tok_reg_val t_rd = Some rd ->
  tok_reg_val t_rs = Some rs ->
  tok_reg_val u_rd = Some rd ->
  tok_reg_val ux1 = Some 0%N ->
  tok_reg_val u_rs = Some rs ->
  same_parse (parse_inst ISgtz t0 (LTok t_rd :: LTok t_rs :: rest, raw))
             (parse_inst ISlt u0 (LTok u_rd :: LTok ux1 :: LTok u_rs :: rest', raw'))
             rest rest'.
Proof. same_tac. Qed.

(* MODEL: mv rd, rs  =  add rd, rs, x0   (the manual: addi rd, rs, 0; see pseudo_mv_official) *)
Theorem pseudo_mv_model t0 u0 t_rd t_rs u_rd u_rs ux1 rest rest' raw raw' rd rs :
  tok_reg_val t_rd = Some rd ->
  tok_reg_val t_rs = Some rs ->
  tok_reg_val u_rd = Some rd ->
  tok_reg_val u_rs = Some rs ->
  tok_reg_val ux1 = Some 0%N ->
  same_parse (parse_inst IMv t0 (LTok t_rd :: LTok t_rs :: rest, raw))
             (parse_inst IAdd u0 (LTok u_rd :: LTok u_rs :: LTok ux1 :: rest', raw'))
             rest rest'.
Proof. same_tac. Qed.

(* beqz rs, l  =  beq rs, x0, l *)
Theorem pseudo_beqz t0 u0 t_rs t_l u_rs ux1 u_l rest rest' raw raw' rs l :
  tok_reg_val t_rs = Some rs ->
  tok_label_val t_l = Some l ->
  tok_reg_val u_rs = Some rs ->
  tok_reg_val ux1 = Some 0%N ->
  tok_label_val u_l = Some l ->
  same_parse (parse_inst IBeqz t0 (LTok t_rs :: LTok t_l :: rest, raw))
             (parse_inst IBeq u0 (LTok u_rs :: LTok ux1 :: LTok u_l :: rest', raw'))
             rest rest'.
Proof. same_tac. Qed.

(* bnez rs, l  =  bne rs, x0, l *)
Theorem pseudo_bnez t0 u0 t_rs t_l u_rs ux1 u_l rest rest' raw raw' rs l :
  tok_reg_val t_rs = Some rs ->
  tok_label_val t_l = Some l ->
  tok_reg_val u_rs = Some rs ->
  tok_reg_val ux1 = Some 0%N ->
  tok_label_val u_l = Some l ->
  same_parse (parse_inst IBnez t0 (LTok t_rs :: LTok t_l :: rest, raw))
             (parse_inst IBne u0 (LTok u_rs :: LTok ux1 :: LTok u_l :: rest', raw'))
             rest rest'.
Proof. same_tac. Qed.

(* blez rs, l  =  bge x0, rs, l *)
Theorem pseudo_blez t0 u0 t_rs t_l ux1 u_rs u_l rest rest' raw raw' rs l :
  tok_reg_val t_rs = Some rs ->
  tok_label_val t_l = Some l ->
  tok_reg_val ux1 = Some 0%N ->
  tok_reg_val u_rs = Some rs ->
  tok_label_val u_l = Some l ->
  same_parse (parse_inst IBlez t0 (LTok t_rs :: LTok t_l :: rest, raw))
             (parse_inst IBge u0 (LTok ux1 :: LTok u_rs :: LTok u_l :: rest', raw'))
             rest rest'.
Proof. same_tac. Qed.

(* bgez rs, l  =  bge rs, x0, l *)
Theorem pseudo_bgez t0 u0 t_rs t_l u_rs ux1 u_l rest rest' raw raw' rs l :
  tok_reg_val t_rs = Some rs ->
  tok_label_val t_l = Some l ->
  tok_reg_val u_rs = Some rs ->
  tok_reg_val ux1 = Some 0%N ->
  tok_label_val u_l = Some l ->
  same_parse (parse_inst IBgez t0 (LTok t_rs :: LTok t_l :: rest, raw))
             (parse_inst IBge u0 (LTok u_rs :: LTok ux1 :: LTok u_l :: rest', raw'))
             rest rest'.
Proof. same_tac. Qed.

(* bltz rs, l  =  blt rs, x0, l *)
Theorem pseudo_bltz t0 u0 t_rs t_l u_rs ux1 u_l rest rest' raw raw' rs l :
  tok_reg_val t_rs = Some rs ->
  tok_label_val t_l = Some l ->
  tok_reg_val u_rs = Some rs ->
  tok_reg_val ux1 = Some 0%N ->
  tok_label_val u_l = Some l ->
  same_parse (parse_inst IBltz t0 (LTok t_rs :: LTok t_l :: rest, raw))
             (parse_inst IBlt u0 (LTok u_rs :: LTok ux1 :: LTok u_l :: rest', raw'))
             rest rest'.
Proof. same_tac. Qed.

(* bgtz rs, l  =  blt x0, rs, l *)
Theorem pseudo_bgtz t0 u0 t_rs t_l ux1 u_rs u_l rest rest' raw raw' rs l :
  tok_reg_val t_rs = Some rs ->
  tok_label_val t_l = Some l ->
  tok_reg_val ux1 = Some 0%N ->
  tok_reg_val u_rs = Some rs ->
  tok_label_val u_l = Some l ->
  same_parse (parse_inst IBgtz t0 (LTok t_rs :: LTok t_l :: rest, raw))
             (parse_inst IBlt u0 (LTok ux1 :: LTok u_rs :: LTok u_l :: rest', raw'))
             rest rest'.
Proof. same_tac. Qed.

(* bgt rs, rt, l  =  blt rt, rs, l *)
Theorem pseudo_bgt t0 u0 t_rs t_rt t_l u_rt u_rs u_l rest rest' raw raw' rs rt l :
  tok_reg_val t_rs = Some rs ->
  tok_reg_val t_rt = Some rt ->
  tok_label_val t_l = Some l ->
  tok_reg_val u_rt = Some rt ->
  tok_reg_val u_rs = Some rs ->
  tok_label_val u_l = Some l ->
  same_parse (parse_inst IBgt t0 (LTok t_rs :: LTok t_rt :: LTok t_l :: rest, raw))
             (parse_inst IBlt u0 (LTok u_rt :: LTok u_rs :: LTok u_l :: rest', raw'))
             rest rest'.
Proof. same_tac. Qed.

(* ble rs, rt, l  =  bge rt, rs, l *)
Theorem pseudo_ble t0 u0 t_rs t_rt t_l u_rt u_rs u_l rest rest' raw raw' rs rt l :
  tok_reg_val t_rs = Some rs ->
  tok_reg_val t_rt = Some rt ->
  tok_label_val t_l = Some l ->
  tok_reg_val u_rt = Some rt ->
  tok_reg_val u_rs = Some rs ->
  tok_label_val u_l = Some l ->
  same_parse (parse_inst IBle t0 (LTok t_rs :: LTok t_rt :: LTok t_l :: rest, raw))
             (parse_inst IBge u0 (LTok u_rt :: LTok u_rs :: LTok u_l :: rest', raw'))
             rest rest'.
Proof. same_tac. Qed.

(* bgtu rs, rt, l  =  bltu rt, rs, l *)
Theorem pseudo_bgtu t0 u0 t_rs t_rt t_l u_rt u_rs u_l rest rest' raw raw' rs rt l :
  tok_reg_val t_rs = Some rs ->
  tok_reg_val t_rt = Some rt ->
  tok_label_val t_l = Some l ->
  tok_reg_val u_rt = Some rt ->
  tok_reg_val u_rs = Some rs ->
  tok_label_val u_l = Some l ->
  same_parse (parse_inst IBgtu t0 (LTok t_rs :: LTok t_rt :: LTok t_l :: rest, raw))
             (parse_inst IBltu u0 (LTok u_rt :: LTok u_rs :: LTok u_l :: rest', raw'))
             rest rest'.
Proof. same_tac. Qed.

(* bleu rs, rt, l  =  bgeu rt, rs, l *)
Theorem pseudo_bleu t0 u0 t_rs t_rt t_l u_rt u_rs u_l rest rest' raw raw' rs rt l :
  tok_reg_val t_rs = Some rs ->
  tok_reg_val t_rt = Some rt ->
  tok_label_val t_l = Some l ->
  tok_reg_val u_rt = Some rt ->
  tok_reg_val u_rs = Some rs ->
  tok_label_val u_l = Some l ->
  same_parse (parse_inst IBleu t0 (LTok t_rs :: LTok t_rt :: LTok t_l :: rest, raw))
             (parse_inst IBgeu u0 (LTok u_rt :: LTok u_rs :: LTok u_l :: rest', raw'))
             rest rest'.
Proof. same_tac. Qed.

(* j l  =  jal x0, l *)
Theorem pseudo_j t0 u0 t_l ux1 u_l rest rest' raw raw' l :
  tok_label_val t_l = Some l ->
  tok_reg_val ux1 = Some 0%N ->
  tok_label_val u_l = Some l ->
  same_parse (parse_inst IJ t0 (LTok t_l :: rest, raw))
             (parse_inst IJal u0 (LTok ux1 :: LTok u_l :: rest', raw'))
             rest rest'.
Proof. same_tac. Qed.

(* b l  =  jal x0, l *)
Theorem pseudo_b t0 u0 t_l ux1 u_l rest rest' raw raw' l :
  tok_label_val t_l = Some l ->
  tok_reg_val ux1 = Some 0%N ->
  tok_label_val u_l = Some l ->
  same_parse (parse_inst IB t0 (LTok t_l :: rest, raw))
             (parse_inst IJal u0 (LTok ux1 :: LTok u_l :: rest', raw'))
             rest rest'.
Proof. same_tac. Qed.

(* jr rs  =  jalr x0, rs, 0 *)
Theorem pseudo_jr t0 u0 t_rs ux1 u_rs uk rest rest' raw raw' rs :
  tok_reg_val t_rs = Some rs ->
  tok_reg_val ux1 = Some 0%N ->
  tok_reg_val u_rs = Some rs ->
  tok_imm_val uk = Ok (Some 0) ->
  same_parse (parse_inst IJr t0 (LTok t_rs :: rest, raw))
             (parse_inst IJalr u0 (LTok ux1 :: LTok u_rs :: LTok uk :: rest', raw'))
             rest rest'.
Proof. same_tac. Qed.

(* ret  =  jalr x0, x1, 0 *)
Theorem pseudo_ret t0 u0 ux1 ux2 uk rest rest' raw raw' :
  tok_reg_val ux1 = Some 0%N ->
  tok_reg_val ux2 = Some 1%N ->
  tok_imm_val uk = Ok (Some 0) ->
  same_parse (parse_inst IRet t0 (rest, raw))
             (parse_inst IJalr u0 (LTok ux1 :: LTok ux2 :: LTok uk :: rest', raw'))
             rest rest'.
Proof. same_tac. Qed.

(* MODEL: call l  =  jal ra, l   (the manual: auipc x1, hi ; jalr x1, lo(x1); see call_vs_official) *)
Theorem pseudo_call_model t0 u0 t_l ux1 u_l rest rest' raw raw' l :
  tok_label_val t_l = Some l ->
  tok_reg_val ux1 = Some 1%N ->
  tok_label_val u_l = Some l ->
  same_parse (parse_inst ICall t0 (LTok t_l :: rest, raw))
             (parse_inst IJal u0 (LTok ux1 :: LTok u_l :: rest', raw'))
             rest rest'.
Proof. same_tac. Qed.

(* csrr rd, csr  =  csrrs rd, csr, x0 *)
Theorem pseudo_csrr t0 u0 t_rd t_c u_rd u_c ux1 rest rest' raw raw' rd c :
  tok_reg_val t_rd = Some rd ->
  tok_csr_val t_c = Ok (Some c) ->
  tok_reg_val u_rd = Some rd ->
  tok_csr_val u_c = Ok (Some c) ->
  tok_reg_val ux1 = Some 0%N ->
  same_parse (parse_inst ICsrr t0 (LTok t_rd :: LTok t_c :: rest, raw))
             (parse_inst ICsrrs u0 (LTok u_rd :: LTok u_c :: LTok ux1 :: rest', raw'))
             rest rest'.
Proof. same_tac. Qed.

(* csrwi csr, imm  =  csrrwi x0, csr, imm *)
Theorem pseudo_csrwi t0 u0 t_c t_z ux1 u_c u_z rest rest' raw raw' c z :
  tok_csr_val t_c = Ok (Some c) ->
  tok_imm_val t_z = Ok (Some z) ->
  tok_reg_val ux1 = Some 0%N ->
  tok_csr_val u_c = Ok (Some c) ->
  tok_imm_val u_z = Ok (Some z) ->
  same_parse (parse_inst ICsrwi t0 (LTok t_c :: LTok t_z :: rest, raw))
             (parse_inst ICsrrwi u0 (LTok ux1 :: LTok u_c :: LTok u_z :: rest', raw'))
             rest rest'.
Proof. same_tac. Qed.

(* csrsi csr, imm  =  csrrsi x0, csr, imm *)
Theorem pseudo_csrsi t0 u0 t_c t_z ux1 u_c u_z rest rest' raw raw' c z :
  tok_csr_val t_c = Ok (Some c) ->
  tok_imm_val t_z = Ok (Some z) ->
  tok_reg_val ux1 = Some 0%N ->
  tok_csr_val u_c = Ok (Some c) ->
  tok_imm_val u_z = Ok (Some z) ->
  same_parse (parse_inst ICsrsi t0 (LTok t_c :: LTok t_z :: rest, raw))
             (parse_inst ICsrrsi u0 (LTok ux1 :: LTok u_c :: LTok u_z :: rest', raw'))
             rest rest'.
Proof. same_tac. Qed.

(* csrci csr, imm  =  csrrci x0, csr, imm *)
Theorem pseudo_csrci t0 u0 t_c t_z ux1 u_c u_z rest rest' raw raw' c z :
  tok_csr_val t_c = Ok (Some c) ->
  tok_imm_val t_z = Ok (Some z) ->
  tok_reg_val ux1 = Some 0%N ->
  tok_csr_val u_c = Ok (Some c) ->
  tok_imm_val u_z = Ok (Some z) ->
  same_parse (parse_inst ICsrci t0 (LTok t_c :: LTok t_z :: rest, raw))
             (parse_inst ICsrrci u0 (LTok ux1 :: LTok u_c :: LTok u_z :: rest', raw'))
             rest rest'.
Proof. same_tac. Qed.

(* MODEL (register FIRST): csrw rs, csr  =  csrrw x0, csr, rs   (the manual writes csrw csr, rs) *)
Theorem pseudo_csrw_model t0 u0 t_rs t_c ux1 u_c u_rs rest rest' raw raw' rs c :
  tok_reg_val t_rs = Some rs ->
  tok_csr_val t_c = Ok (Some c) ->
  tok_reg_val ux1 = Some 0%N ->
  tok_csr_val u_c = Ok (Some c) ->
  tok_reg_val u_rs = Some rs ->
  same_parse (parse_inst ICsrw t0 (LTok t_rs :: LTok t_c :: rest, raw))
             (parse_inst ICsrrw u0 (LTok ux1 :: LTok u_c :: LTok u_rs :: rest', raw'))
             rest rest'.
Proof. same_tac. Qed.

(* MODEL (register FIRST): csrs rs, csr  =  csrrs x0, csr, rs *)
Theorem pseudo_csrs_model t0 u0 t_rs t_c ux1 u_c u_rs rest rest' raw raw' rs c :
  tok_reg_val t_rs = Some rs ->
  tok_csr_val t_c = Ok (Some c) ->
  tok_reg_val ux1 = Some 0%N ->
  tok_csr_val u_c = Ok (Some c) ->
  tok_reg_val u_rs = Some rs ->
  same_parse (parse_inst ICsrs t0 (LTok t_rs :: LTok t_c :: rest, raw))
             (parse_inst ICsrrs u0 (LTok ux1 :: LTok u_c :: LTok u_rs :: rest', raw'))
             rest rest'.
Proof. same_tac. Qed.

(* MODEL (register FIRST): csrc rs, csr  =  csrrc x0, csr, rs *)
Theorem pseudo_csrc_model t0 u0 t_rs t_c ux1 u_c u_rs rest rest' raw raw' rs c :
  tok_reg_val t_rs = Some rs ->
  tok_csr_val t_c = Ok (Some c) ->
  tok_reg_val ux1 = Some 0%N ->
  tok_csr_val u_c = Ok (Some c) ->
  tok_reg_val u_rs = Some rs ->
  same_parse (parse_inst ICsrc t0 (LTok t_rs :: LTok t_c :: rest, raw))
             (parse_inst ICsrrc u0 (LTok ux1 :: LTok u_c :: LTok u_rs :: rest', raw'))
             rest rest'.
Proof. same_tac. Qed.

(* MODEL: sgez rs, l is read as the BRANCH bge x0, rs, l (not a standard pseudo-instruction) *)
Theorem pseudo_sgez_model t0 u0 t_rs t_l ux1 u_rs u_l rest rest' raw raw' rs l :
  tok_reg_val t_rs = Some rs ->
  tok_label_val t_l = Some l ->
  tok_reg_val ux1 = Some 0%N ->
  tok_reg_val u_rs = Some rs ->
  tok_label_val u_l = Some l ->
  same_parse (parse_inst ISgez t0 (LTok t_rs :: LTok t_l :: rest, raw))
             (parse_inst IBge u0 (LTok ux1 :: LTok u_rs :: LTok u_l :: rest', raw'))
             rest rest'.
Proof. same_tac. Qed.

(* ---- the exceptions -------------------------------------------------------------------------- *)
(* mv rd, rs: the manual says addi rd, rs, 0; the model builds add rd, rs, x0 (pseudo_mv_model).
   Same kill and gen sets (gen never contains x0), different node class. *)
Lemma rs_drop_zero a b :
  rs_diff (rs_union a (rs_union (rs_one 0%N) b)) const_zero_set = rs_diff (rs_union a b) const_zero_set.
Proof.
  change const_zero_set with 1%N. change (rs_one 0%N) with 1%N. unfold rs_diff, rs_union.
  apply N.bits_inj. intros k. rewrite !N.ldiff_spec, !N.lor_spec.
  destruct (N.testbit a k), (N.testbit 1 k), (N.testbit b k); reflexivity.
Qed.

Theorem mv_node_vs_addi_node i1 i2 rd rs (x0w : wth reg) rd' rs' z rt1 rt2 :
  wv x0w = 0%N -> wv rd = wv rd' -> wv rs = wv rs' ->
  kill_reg (PArith i1 rd rs x0w rt1) = kill_reg (PIArith i2 rd' rs' z rt2) /\
  gen_reg (PArith i1 rd rs x0w rt1) = gen_reg (PIArith i2 rd' rs' z rt2) /\
  node_class (PArith i1 rd rs x0w rt1) <> node_class (PIArith i2 rd' rs' z rt2).
Proof.
  intros Hz Hd Hs. split; [|split].
  - unfold kill_reg. cbn [calls_to is_function_entry writes_to]. rewrite Hd. reflexivity.
  - unfold gen_reg. cbn [is_ureturn is_return]. unfold reads_from. cbn [reads_from_vec].
    rewrite Hz. destruct (N.eqb (wv rs) 0%N) eqn:E; cbn [map rs_of_list]; rewrite <- Hs.
    + reflexivity.
    + rewrite Hz. apply rs_drop_zero.
  - cbn [node_class]. discriminate.
Qed.

Lemma form_mv t0 ta tb rest raw a b :
  tok_reg_val ta = Some a -> tok_reg_val tb = Some b ->
  parses_to (parse_inst IMv t0 (LTok ta :: LTok tb :: rest, raw))
            (PArith (sw IAdd) (sw a) (sw b) (sw 0%N) raw_default) rest.
Proof. parses_tac. Qed.

Theorem pseudo_mv_official t0 u0 t_rd t_rs u_rd u_rs uk rest rest' raw raw' rd rs :
  tok_reg_val t_rd = Some rd -> tok_reg_val t_rs = Some rs ->
  tok_reg_val u_rd = Some rd -> tok_reg_val u_rs = Some rs -> tok_imm_val uk = Ok (Some 0) ->
  exists n1 n2 raw1 raw2,
    parse_inst IMv t0 (LTok t_rd :: LTok t_rs :: rest, raw) = Ok (inr n1, (rest, raw1)) /\
    parse_inst IAddi u0 (LTok u_rd :: LTok u_rs :: LTok uk :: rest', raw') = Ok (inr n2, (rest', raw2)) /\
    kill_reg n1 = kill_reg n2 /\ gen_reg n1 = gen_reg n2 /\
    node_class n1 = CArith /\ node_class n2 = CIArith.
Proof.
  intros A1 A2 B1 B2 B3.
  destruct (form_mv t0 t_rd t_rs rest raw rd rs A1 A2) as [n1 [raw1 [P1 S1]]].
  destruct (form_iarith IAddi u0 u_rd u_rs uk rest' raw' rd rs 0 eq_refl B1 B2 B3) as [n2 [raw2 [P2 S2]]].
  exists n1, n2, raw1, raw2. split; [exact P1|]. split; [exact P2|].
  rewrite <- (kill_reg_strip n1), <- (kill_reg_strip n2), <- (gen_reg_strip n1), <- (gen_reg_strip n2),
    <- (node_class_strip n1), <- (node_class_strip n2), S1, S2.
  destruct (mv_node_vs_addi_node (sw IAdd) (sw IAddi) (sw rd) (sw rs) (sw 0%N) (sw rd) (sw rs) (sw 0)
              raw_default raw_default eq_refl eq_refl eq_refl) as [Hk [Hg _]].
  split; [exact Hk|]. split; [exact Hg|]. split; reflexivity.
Qed.

(* call l: the manual says auipc x1, hi ; jalr x1, lo(x1).  The model builds the node of jal ra, l
   (pseudo_call_model), which the analysis treats as a CALL: it kills the caller-saved registers and not
   ra.  The two official nodes, composed with the model's own per-node sets, kill ra only (the model has
   no notion of a call through jalr).  Gen sets agree (both empty). *)
Definition official_call_1 (hi : Z) : pnode := PIArith (sw IAuipc) (sw 1%N) (sw 0%N) (sw hi) raw_default.
Definition official_call_2 (lo : Z) : pnode := PJumpLinkR (sw IJalr) (sw 1%N) (sw 1%N) (sw lo) raw_default.
Theorem call_vs_official l hi lo :
  let n := PJumpLink (sw IJal) (sw 1%N) (sw l) raw_default in
  let a := official_call_1 hi in let b := official_call_2 lo in
  gen_reg n = rs_empty /\ seq_gen (gen_reg a) (kill_reg a) (gen_reg b) = rs_empty /\
  kill_reg n = caller_saved_set /\ seq_kill (kill_reg a) (kill_reg b) = rs_one 1%N /\
  kill_reg n <> seq_kill (kill_reg a) (kill_reg b) /\
  rs_mem 1%N (kill_reg n) = false.
Proof. cbv zeta. repeat split; try reflexivity. vm_compute. discriminate. Qed.

(* la rd, l: a node of its own; the manual says auipc rd, hi ; addi rd, rd, lo *)
Theorem la_genkill i rd name rt :
  kill_reg (PLoadAddr i rd name rt) = rs_diff (rs_one (wv rd)) const_zero_set /\
  gen_reg (PLoadAddr i rd name rt) = rs_empty.
Proof. split; reflexivity. Qed.

Definition official_la_1 (r : reg) (hi : Z) : pnode := PIArith (sw IAuipc) (sw r) (sw 0%N) (sw hi) raw_default.
Definition official_la_2 (r : reg) (lo : Z) : pnode := PIArith (sw IAddi) (sw r) (sw r) (sw lo) raw_default.
Theorem la_vs_official i rd name rt hi lo :
  let a := official_la_1 (wv rd) hi in let b := official_la_2 (wv rd) lo in
  kill_reg (PLoadAddr i rd name rt) = seq_kill (kill_reg a) (kill_reg b) /\
  gen_reg (PLoadAddr i rd name rt) = seq_gen (gen_reg a) (kill_reg a) (gen_reg b).
Proof.
  cbv zeta. destruct (la_genkill i rd name rt) as [Hk Hg]. rewrite Hk, Hg.
  set (k := rs_diff (rs_one (wv rd)) const_zero_set).
  assert (Ka : kill_reg (official_la_1 (wv rd) hi) = k) by reflexivity.
  assert (Kb : kill_reg (official_la_2 (wv rd) lo) = k) by reflexivity.
  assert (Ga : gen_reg (official_la_1 (wv rd) hi) = rs_empty) by reflexivity.
  assert (Gb : gen_reg (official_la_2 (wv rd) lo) = k).
  { unfold gen_reg, official_la_2. cbn [is_ureturn is_return]. unfold reads_from. cbn [reads_from_vec map rs_of_list].
    unfold sw. cbn [wv].
    unfold rs_union. rewrite N.lor_0_r. reflexivity. }
  rewrite Ka, Kb, Ga, Gb. unfold seq_kill, seq_gen, rs_union, rs_diff, rs_empty.
  rewrite N.lor_diag, N.ldiff_diag. split; reflexivity.
Qed.

Lemma form_la t0 ta tl rest raw a l :
  tok_reg_val ta = Some a -> tok_label_val tl = Some l ->
  parses_to (parse_inst ILa t0 (LTok ta :: LTok tl :: rest, raw))
            (PLoadAddr (sw ILa) (sw a) (sw l) raw_default) rest.
Proof. parses_tac. Qed.

(* ================================================================================== *)
(* Non-vacuity: every headline statement on a concrete input                           *)
(* ================================================================================== *)
Definition sym (s : str) : token := mktok (TSymbol s) range0 None.
(* the same symbol somewhere else in some other file *)
Definition sym_at (s : str) (l : N) (f : N) : token :=
  mktok (TSymbol s) (mkrange (mkpos l 4 (l * 40 + 4)) (mkpos l 9 (l * 40 + 9))) (Some f).
Definition nl : token := mktok TNewline range0 None.
Definition lpar : token := mktok TLParen range0 None.
Definition rpar : token := mktok TRParen range0 None.
Definition chr (c : N) : token := mktok (TChar c) range0 None.
(* what a parse gives once tokens are forgotten *)
Definition outcome (r : parse_result) : option (pnode * list lexitem) :=
  match r with Ok (inr n, (rest, _)) => Some (strip_node n, rest) | _ => None end.

Example reg_names_sound_ex :
  reg_from_str (numeric_name 8) = Some 8%N /\ abi_names 8 = [«"s0"»; «"fp"»] /\
  reg_from_str «"s0"» = Some 8%N /\ reg_from_str «"fp"» = Some 8%N /\
  numeric_name 8 = «"x8"» /\ numeric_name 31 = «"x31"» /\ numeric_name 10 = «"x10"».
Proof. vm_compute. repeat split; reflexivity. Qed.
Example reg_names_complete_ex :
  reg_from_str «"fp"» = Some 8%N /\ (8 < 32)%N /\ In «"fp"» (abi_names 8) /\
  reg_from_str «"x32"» = None /\ reg_from_str «"x08"» = None /\ reg_from_str «"s12"» = None.
Proof. vm_compute. repeat split; try reflexivity. right. left. reflexivity. Qed.
Example case_ex :
  lower «"AdD"» = lower «"add"» /\ inst_from_str «"AdD"» = Some IAdd /\ inst_from_str «"add"» = Some IAdd /\
  lower «".WORD"» = lower «".word"» /\ dir_from_str «".WORD"» = Some DWord /\
  imm_from_str «"0XfF"» = imm_from_str «"0xff"».
Proof. vm_compute. repeat split; reflexivity. Qed.

(* erase_node / strip_node: the same instruction at two places, and a synthesized operand *)
Example strip_node_ex :
  let n1 := PIArith (mkw IAddi (sym_at «"addi"» 3 0)) (mkw 10%N (sym_at «"a0"» 3 0)) (mkw 0%N (sym_at «"x0"» 3 0))
                    (mkw 5 (sym_at «"5"» 3 0)) (mkraw (mkrange (mkpos 3 4 124) (mkpos 3 20 140)) (Some 0%N)) in
  let n2 := PIArith (mkw IAddi (sym_at «"li"» 7 1)) (mkw 10%N (sym_at «"x10"» 7 1)) (mkw 0%N (sym_at «"0x5"» 7 1))
                    (mkw 5 (sym_at «"0x5"» 7 1)) (mkraw (mkrange (mkpos 7 4 284) (mkpos 7 14 294)) (Some 1%N)) in
  erase_node n1 <> erase_node n2 /\ strip_node n1 = strip_node n2 /\
  kill_reg n1 = kill_reg n2 /\ gen_reg n1 = gen_reg n2 /\ kill_reg n1 = rs_one 10%N.
Proof. cbv zeta. split; [vm_compute; discriminate|]. repeat split; reflexivity. Qed.
Example erase_node_strip_node_ex :
  let n1 := PBasic (mkw IEcall (sym_at «"ecall"» 3 0)) (mkraw (mkrange (mkpos 3 4 124) (mkpos 3 9 129)) (Some 0%N)) in
  let n2 := PBasic (mkw IEcall (sym_at «"ecall"» 9 2)) raw_default in
  n1 <> n2 /\ erase_node n1 = erase_node n2 /\ strip_node n1 = strip_node n2.
Proof. cbv zeta. split; [discriminate|]. split; reflexivity. Qed.

(* (5) a-d *)
Example load_paren_eq_zero_off_ex :
  same_parse (parse_inst ILw (sym «"lw"») ([LTok (sym «"a0"»); LTok lpar; LTok (sym «"sp"»); LTok rpar; LTok nl], None))
             (parse_inst ILw (sym_at «"LW"» 5 1)
                ([LTok (sym «"x10"»); LTok (sym «"0x0"»); LTok lpar; LTok (sym «"x2"»); LTok rpar; LTok nl], Some raw_default))
             [LTok nl] [LTok nl].
Proof. eapply load_paren_eq_zero_off; reflexivity. Qed.
Example load_imm_eq_imm_x0_ex :
  same_parse (parse_inst ILw (sym «"lw"») ([LTok (sym «"a0"»); LTok (sym «"64"»); LTok nl], None))
             (parse_inst ILw (sym «"lw"») ([LTok (sym «"a0"»); LTok (sym «"0x40"»); LTok lpar; LTok (sym «"zero"»); LTok rpar; LTok nl], None))
             [LTok nl] [LTok nl].
Proof. eapply load_imm_eq_imm_x0 with (rest := []); reflexivity. Qed.
Example store_paren_eq_zero_off_ex :
  same_parse (parse_inst ISw (sym «"sw"») ([LTok (sym «"ra"»); LTok lpar; LTok (sym «"sp"»); LTok rpar; LTok nl], None))
             (parse_inst ISw (sym «"sw"») ([LTok (sym «"x1"»); LTok (sym «"0"»); LTok lpar; LTok (sym «"x2"»); LTok rpar; LTok nl], None))
             [LTok nl] [LTok nl].
Proof. eapply store_paren_eq_zero_off; reflexivity. Qed.
Example store_imm_eq_imm_x0_ex :
  same_parse (parse_inst ISw (sym «"sw"») ([LTok (sym «"a0"»); LTok (sym «"64"»); LTok nl], None))
             (parse_inst ISw (sym «"sw"») ([LTok (sym «"a0"»); LTok (sym «"0x40"»); LTok lpar; LTok (sym «"zero"»); LTok rpar; LTok nl], None))
             [LTok nl] [LTok nl].
Proof. eapply store_imm_eq_imm_x0 with (rest := []); reflexivity. Qed.
Example jalr_paren_eq_zero_off_ex :
  same_parse (parse_inst IJalr (sym «"jalr"») ([LTok (sym «"ra"»); LTok lpar; LTok (sym «"t0"»); LTok rpar; LTok nl], None))
             (parse_inst IJalr (sym «"jalr"») ([LTok (sym «"x1"»); LTok (sym «"0"»); LTok lpar; LTok (sym «"x5"»); LTok rpar; LTok nl], None))
             [LTok nl] [LTok nl].
Proof. eapply jalr_paren_eq_zero_off; reflexivity. Qed.
Example jalr_off_paren_eq_rs_imm_ex :
  same_parse (parse_inst IJalr (sym «"jalr"») ([LTok (sym «"ra"»); LTok (sym «"8"»); LTok lpar; LTok (sym «"t0"»); LTok rpar; LTok nl], None))
             (parse_inst IJalr (sym «"jalr"») ([LTok (sym «"x1"»); LTok (sym «"x5"»); LTok (sym «"0b1000"»); LTok nl], None))
             [LTok nl] [LTok nl].
Proof. eapply jalr_off_paren_eq_rs_imm; reflexivity. Qed.
Example jalr_paren_eq_rs_zero_ex :
  same_parse (parse_inst IJalr (sym «"jalr"») ([LTok (sym «"ra"»); LTok lpar; LTok (sym «"t0"»); LTok rpar; LTok nl], None))
             (parse_inst IJalr (sym «"jalr"») ([LTok (sym «"x1"»); LTok (sym «"x5"»); LTok (sym «"zero"»); LTok nl], None))
             [LTok nl] [LTok nl].
Proof. eapply jalr_paren_eq_rs_zero; reflexivity. Qed.
(* the newline after `jalr t0` stays unread, like the newline after `jalr ra, t0, 0` *)
Example jalr_rs_eq_ra_rs_zero_ex :
  same_parse (parse_inst IJalr (sym «"jalr"») ([LTok (sym «"t0"»); LTok nl], None))
             (parse_inst IJalr (sym «"jalr"») ([LTok (sym «"ra"»); LTok (sym «"t0"»); LTok (sym «"0"»); LTok nl], None))
             [LTok nl] [LTok nl].
Proof. eapply jalr_rs_eq_ra_rs_zero with (rest := []); reflexivity. Qed.
Example jalr_rs_imm_eq_ra_rs_imm_ex :
  same_parse (parse_inst IJalr (sym «"jalr"») ([LTok (sym «"t0"»); LTok (sym «"-4"»); LTok nl], None))
             (parse_inst IJalr (sym «"jalr"») ([LTok (sym «"ra"»); LTok (sym «"t0"»); LTok (sym «"-0x4"»); LTok nl], None))
             [LTok nl] [LTok nl].
Proof. eapply jalr_rs_imm_eq_ra_rs_imm with (rest := []); reflexivity. Qed.
Example jal_label_eq_ra_label_ex :
  same_parse (parse_inst IJal (sym «"jal"») ([LTok (sym «"f"»); LTok nl], None))
             (parse_inst IJal (sym «"jal"») ([LTok (sym «"x1"»); LTok (sym «"f"»); LTok nl], None))
             [LTok nl] [LTok nl].
Proof. eapply jal_label_eq_ra_label; reflexivity. Qed.

(* QUIRKS, computed *)
(* `jalr t0` leaves the newline unread (fix: it used to swallow it, so that the raw range of the jalr node
   extended over the newline, or over a trailing comment) *)
Example jalr_rs_leaves_next :
  outcome (parse_inst IJalr (sym «"jalr"») ([LTok (sym «"t0"»); LTok nl; LTok (sym «"ret"»)], None))
  = Some (PJumpLinkR (sw IJalr) (sw 1%N) (sw 5%N) (sw 0) raw_default, [LTok nl; LTok (sym «"ret"»)]) /\
  outcome (parse_inst IJalr (sym «"jalr"») ([LTok (sym «"ra"»); LTok (sym «"t0"»); LTok (sym «"0"»); LTok nl; LTok (sym «"ret"»)], None))
  = Some (PJumpLinkR (sw IJalr) (sw 1%N) (sw 5%N) (sw 0) raw_default, [LTok nl; LTok (sym «"ret"»)]).
Proof. vm_compute. split; reflexivity. Qed.
(* in the second operand place of jalr the word `zero` is the register, never the immediate 0:
   `jalr ra, zero(t0)` is an error although `lw ra, zero(t0)` is accepted *)
Example quirk_jalr_zero_word :
  outcome (parse_inst IJalr (sym «"jalr"») ([LTok (sym «"ra"»); LTok (sym «"zero"»); LTok lpar; LTok (sym «"t0"»); LTok rpar; LTok nl], None)) = None /\
  outcome (parse_inst ILw (sym «"lw"») ([LTok (sym «"ra"»); LTok (sym «"zero"»); LTok lpar; LTok (sym «"t0"»); LTok rpar; LTok nl], None))
  = Some (PLoad (sw ILw) (sw 1%N) (sw 5%N) (sw 0) raw_default, [LTok nl]) /\
  tok_imm_val (sym «"zero"») = Ok (Some 0) /\ tok_reg_val (sym «"zero"») = Some 0%N.
Proof. vm_compute. repeat split; reflexivity. Qed.
(* `lw a0, 64` needs a token after the immediate: at the very end of the input it is an error *)
Example quirk_load_imm_at_eof :
  outcome (parse_inst ILw (sym «"lw"») ([LTok (sym «"a0"»); LTok (sym «"64"»)], None)) = None /\
  outcome (parse_inst ILw (sym «"lw"») ([LTok (sym «"a0"»); LTok (sym «"64"»); LTok nl], None))
  = Some (PLoad (sw ILw) (sw 10%N) (sw 0%N) (sw 64) raw_default, [LTok nl]).
Proof. vm_compute. split; reflexivity. Qed.
(* auipc is classified with addi: it wants `auipc rd, rs1, imm`; the manual's `auipc rd, imm` is an error *)
Example quirk_auipc_three_operands :
  inst_kind IAuipc = KIArith /\
  outcome (parse_inst IAuipc (sym «"auipc"») ([LTok (sym «"ra"»); LTok (sym «"0x10"»); LTok nl], None)) = None /\
  outcome (parse_inst IAuipc (sym «"auipc"») ([LTok (sym «"ra"»); LTok (sym «"x0"»); LTok (sym «"0x10"»); LTok nl], None))
  = Some (PIArith (sw IAuipc) (sw 1%N) (sw 0%N) (sw 16) raw_default, [LTok nl]).
Proof. vm_compute. repeat split; reflexivity. Qed.
(* sgez is read as a branch *)
Example quirk_sgez_is_branch :
  outcome (parse_inst ISgez (sym «"sgez"») ([LTok (sym «"a0"»); LTok (sym «"done"»); LTok nl], None))
  = Some (PBranch (sw IBge) (sw 0%N) (sw 10%N) (sw «"done"») raw_default, [LTok nl]) /\
  outcome (parse_inst ISgez (sym «"sgez"») ([LTok (sym «"a0"»); LTok (sym «"a1"»); LTok nl], None)) = None.
Proof. vm_compute. split; reflexivity. Qed.
(* csrw takes the register first; in the manual's order it is an error *)
Example quirk_csrw_operand_order :
  outcome (parse_inst ICsrw (sym «"csrw"») ([LTok (sym «"t0"»); LTok (sym «"uepc"»); LTok nl], None))
  = Some (PCsr (sw ICsrrw) (sw 0%N) (sw 65) (sw 5%N) raw_default, [LTok nl]) /\
  outcome (parse_inst ICsrw (sym «"csrw"») ([LTok (sym «"uepc"»); LTok (sym «"t0"»); LTok nl], None)) = None.
Proof. vm_compute. split; reflexivity. Qed.

(* mv against the manual's addi: same sets, different class *)
Example pseudo_mv_official_ex :
  let n1 := PArith (sw IAdd) (sw 10%N) (sw 6%N) (sw 0%N) raw_default in
  let n2 := PIArith (sw IAddi) (sw 10%N) (sw 6%N) (sw 0) raw_default in
  outcome (parse_inst IMv (sym «"mv"») ([LTok (sym «"a0"»); LTok (sym «"t1"»); LTok nl], None)) = Some (n1, [LTok nl]) /\
  outcome (parse_inst IAddi (sym «"addi"») ([LTok (sym «"a0"»); LTok (sym «"t1"»); LTok (sym «"0"»); LTok nl], None)) = Some (n2, [LTok nl]) /\
  kill_reg n1 = rs_one 10%N /\ kill_reg n2 = rs_one 10%N /\ gen_reg n1 = rs_one 6%N /\ gen_reg n2 = rs_one 6%N /\
  node_class n1 = CArith /\ node_class n2 = CIArith.
Proof. vm_compute. repeat split; reflexivity. Qed.
(* call: kill {t0-t6, a0-a7} (no ra) against {ra} *)
Example call_vs_official_ex :
  kill_reg (PJumpLink (sw IJal) (sw 1%N) (sw «"f"») raw_default) = 4026793184%N /\
  rs_elems 4026793184%N = [5;6;7;10;11;12;13;14;15;16;17;28;29;30;31]%N /\
  seq_kill (kill_reg (official_call_1 0)) (kill_reg (official_call_2 0)) = 2%N /\ rs_elems 2%N = [1%N].
Proof. vm_compute. repeat split; reflexivity. Qed.
Example la_vs_official_ex :
  outcome (parse_inst ILa (sym «"la"») ([LTok (sym «"a0"»); LTok (sym «"msg"»); LTok nl], None))
  = Some (PLoadAddr (sw ILa) (sw 10%N) (sw «"msg"») raw_default, [LTok nl]) /\
  kill_reg (PLoadAddr (sw ILa) (sw 10%N) (sw «"msg"») raw_default) = rs_one 10%N /\
  seq_kill (kill_reg (official_la_1 10%N 0)) (kill_reg (official_la_2 10%N 0)) = rs_one 10%N /\
  seq_gen (gen_reg (official_la_1 10%N 0)) (kill_reg (official_la_1 10%N 0)) (gen_reg (official_la_2 10%N 0)) = rs_empty /\
  kill_reg (PLoadAddr (sw ILa) (sw 0%N) (sw «"msg"») raw_default) = rs_empty.
Proof. vm_compute. repeat split; reflexivity. Qed.

(* the pseudo-instructions, each spelled two ways (ABI names / numeric names, hex / decimal) *)
Example pseudo_nop_ex :
  same_parse (parse_inst INop (sym «"x"») ([LTok nl], None))
             (parse_inst IAddi (sym «"y"») ([LTok (sym «"zero"»); LTok (sym «"x0"»); LTok (sym «"0"»); LTok nl], None)) [LTok nl] [LTok nl].
Proof. eapply pseudo_nop; reflexivity. Qed.

Example pseudo_li_ex :
  same_parse (parse_inst ILi (sym «"x"») ([LTok (sym «"a0"»); LTok (sym «"0x10"»); LTok nl], None))
             (parse_inst IAddi (sym «"y"») ([LTok (sym «"x10"»); LTok (sym «"zero"»); LTok (sym «"16"»); LTok nl], None)) [LTok nl] [LTok nl].
Proof. eapply pseudo_li; reflexivity. Qed.

Example pseudo_not_ex :
  same_parse (parse_inst INot (sym «"x"») ([LTok (sym «"a0"»); LTok (sym «"t1"»); LTok nl], None))
             (parse_inst IXori (sym «"y"») ([LTok (sym «"x10"»); LTok (sym «"x6"»); LTok (sym «"-1"»); LTok nl], None)) [LTok nl] [LTok nl].
Proof. eapply pseudo_not; reflexivity. Qed.

Example pseudo_neg_ex :
  same_parse (parse_inst INeg (sym «"x"») ([LTok (sym «"a0"»); LTok (sym «"t1"»); LTok nl], None))
             (parse_inst ISub (sym «"y"») ([LTok (sym «"x10"»); LTok (sym «"zero"»); LTok (sym «"x6"»); LTok nl], None)) [LTok nl] [LTok nl].
Proof. eapply pseudo_neg; reflexivity. Qed.

Example pseudo_seqz_ex :
  same_parse (parse_inst ISeqz (sym «"x"») ([LTok (sym «"a0"»); LTok (sym «"t1"»); LTok nl], None))
             (parse_inst ISltiu (sym «"y"») ([LTok (sym «"x10"»); LTok (sym «"x6"»); LTok (sym «"1"»); LTok nl], None)) [LTok nl] [LTok nl].
Proof. eapply pseudo_seqz; reflexivity. Qed.

Example pseudo_snez_ex :
  same_parse (parse_inst ISnez (sym «"x"») ([LTok (sym «"a0"»); LTok (sym «"t1"»); LTok nl], None))
             (parse_inst ISltu (sym «"y"») ([LTok (sym «"x10"»); LTok (sym «"zero"»); LTok (sym «"x6"»); LTok nl], None)) [LTok nl] [LTok nl].
Proof. eapply pseudo_snez; reflexivity. Qed.

Example pseudo_sltz_ex :
  same_parse (parse_inst ISltz (sym «"x"») ([LTok (sym «"a0"»); LTok (sym «"t1"»); LTok nl], None))
             (parse_inst ISlt (sym «"y"») ([LTok (sym «"x10"»); LTok (sym «"x6"»); LTok (sym «"zero"»); LTok nl], None)) [LTok nl] [LTok nl].
Proof. eapply pseudo_sltz; reflexivity. Qed.

Example pseudo_sgtz_ex :
  same_parse (parse_inst ISgtz (sym «"x"») ([LTok (sym «"a0"»); LTok (sym «"t1"»); LTok nl], None))
             (parse_inst ISlt (sym «"y"») ([LTok (sym «"x10"»); LTok (sym «"zero"»); LTok (sym «"x6"»); LTok nl], None)) [LTok nl] [LTok nl].
Proof. eapply pseudo_sgtz; reflexivity. Qed.

Example pseudo_mv_model_ex :
  same_parse (parse_inst IMv (sym «"x"») ([LTok (sym «"a0"»); LTok (sym «"t1"»); LTok nl], None))
             (parse_inst IAdd (sym «"y"») ([LTok (sym «"x10"»); LTok (sym «"x6"»); LTok (sym «"zero"»); LTok nl], None)) [LTok nl] [LTok nl].
Proof. eapply pseudo_mv_model; reflexivity. Qed.

Example pseudo_beqz_ex :
  same_parse (parse_inst IBeqz (sym «"x"») ([LTok (sym «"t1"»); LTok (sym «"loop"»); LTok nl], None))
             (parse_inst IBeq (sym «"y"») ([LTok (sym «"x6"»); LTok (sym «"zero"»); LTok (sym «"loop"»); LTok nl], None)) [LTok nl] [LTok nl].
Proof. eapply pseudo_beqz; reflexivity. Qed.

Example pseudo_bnez_ex :
  same_parse (parse_inst IBnez (sym «"x"») ([LTok (sym «"t1"»); LTok (sym «"loop"»); LTok nl], None))
             (parse_inst IBne (sym «"y"») ([LTok (sym «"x6"»); LTok (sym «"zero"»); LTok (sym «"loop"»); LTok nl], None)) [LTok nl] [LTok nl].
Proof. eapply pseudo_bnez; reflexivity. Qed.

Example pseudo_blez_ex :
  same_parse (parse_inst IBlez (sym «"x"») ([LTok (sym «"t1"»); LTok (sym «"loop"»); LTok nl], None))
             (parse_inst IBge (sym «"y"») ([LTok (sym «"zero"»); LTok (sym «"x6"»); LTok (sym «"loop"»); LTok nl], None)) [LTok nl] [LTok nl].
Proof. eapply pseudo_blez; reflexivity. Qed.

Example pseudo_bgez_ex :
  same_parse (parse_inst IBgez (sym «"x"») ([LTok (sym «"t1"»); LTok (sym «"loop"»); LTok nl], None))
             (parse_inst IBge (sym «"y"») ([LTok (sym «"x6"»); LTok (sym «"zero"»); LTok (sym «"loop"»); LTok nl], None)) [LTok nl] [LTok nl].
Proof. eapply pseudo_bgez; reflexivity. Qed.

Example pseudo_bltz_ex :
  same_parse (parse_inst IBltz (sym «"x"») ([LTok (sym «"t1"»); LTok (sym «"loop"»); LTok nl], None))
             (parse_inst IBlt (sym «"y"») ([LTok (sym «"x6"»); LTok (sym «"zero"»); LTok (sym «"loop"»); LTok nl], None)) [LTok nl] [LTok nl].
Proof. eapply pseudo_bltz; reflexivity. Qed.

Example pseudo_bgtz_ex :
  same_parse (parse_inst IBgtz (sym «"x"») ([LTok (sym «"t1"»); LTok (sym «"loop"»); LTok nl], None))
             (parse_inst IBlt (sym «"y"») ([LTok (sym «"zero"»); LTok (sym «"x6"»); LTok (sym «"loop"»); LTok nl], None)) [LTok nl] [LTok nl].
Proof. eapply pseudo_bgtz; reflexivity. Qed.

Example pseudo_bgt_ex :
  same_parse (parse_inst IBgt (sym «"x"») ([LTok (sym «"t1"»); LTok (sym «"s2"»); LTok (sym «"loop"»); LTok nl], None))
             (parse_inst IBlt (sym «"y"») ([LTok (sym «"x18"»); LTok (sym «"x6"»); LTok (sym «"loop"»); LTok nl], None)) [LTok nl] [LTok nl].
Proof. eapply pseudo_bgt; reflexivity. Qed.

Example pseudo_ble_ex :
  same_parse (parse_inst IBle (sym «"x"») ([LTok (sym «"t1"»); LTok (sym «"s2"»); LTok (sym «"loop"»); LTok nl], None))
             (parse_inst IBge (sym «"y"») ([LTok (sym «"x18"»); LTok (sym «"x6"»); LTok (sym «"loop"»); LTok nl], None)) [LTok nl] [LTok nl].
Proof. eapply pseudo_ble; reflexivity. Qed.

Example pseudo_bgtu_ex :
  same_parse (parse_inst IBgtu (sym «"x"») ([LTok (sym «"t1"»); LTok (sym «"s2"»); LTok (sym «"loop"»); LTok nl], None))
             (parse_inst IBltu (sym «"y"») ([LTok (sym «"x18"»); LTok (sym «"x6"»); LTok (sym «"loop"»); LTok nl], None)) [LTok nl] [LTok nl].
Proof. eapply pseudo_bgtu; reflexivity. Qed.

Example pseudo_bleu_ex :
  same_parse (parse_inst IBleu (sym «"x"») ([LTok (sym «"t1"»); LTok (sym «"s2"»); LTok (sym «"loop"»); LTok nl], None))
             (parse_inst IBgeu (sym «"y"») ([LTok (sym «"x18"»); LTok (sym «"x6"»); LTok (sym «"loop"»); LTok nl], None)) [LTok nl] [LTok nl].
Proof. eapply pseudo_bleu; reflexivity. Qed.

Example pseudo_j_ex :
  same_parse (parse_inst IJ (sym «"x"») ([LTok (sym «"loop"»); LTok nl], None))
             (parse_inst IJal (sym «"y"») ([LTok (sym «"zero"»); LTok (sym «"loop"»); LTok nl], None)) [LTok nl] [LTok nl].
Proof. eapply pseudo_j; reflexivity. Qed.

Example pseudo_b_ex :
  same_parse (parse_inst IB (sym «"x"») ([LTok (sym «"loop"»); LTok nl], None))
             (parse_inst IJal (sym «"y"») ([LTok (sym «"zero"»); LTok (sym «"loop"»); LTok nl], None)) [LTok nl] [LTok nl].
Proof. eapply pseudo_b; reflexivity. Qed.

Example pseudo_jr_ex :
  same_parse (parse_inst IJr (sym «"x"») ([LTok (sym «"t1"»); LTok nl], None))
             (parse_inst IJalr (sym «"y"») ([LTok (sym «"zero"»); LTok (sym «"x6"»); LTok (sym «"0"»); LTok nl], None)) [LTok nl] [LTok nl].
Proof. eapply pseudo_jr; reflexivity. Qed.

Example pseudo_ret_ex :
  same_parse (parse_inst IRet (sym «"x"») ([LTok nl], None))
             (parse_inst IJalr (sym «"y"») ([LTok (sym «"zero"»); LTok (sym «"ra"»); LTok (sym «"0"»); LTok nl], None)) [LTok nl] [LTok nl].
Proof. eapply pseudo_ret; reflexivity. Qed.

Example pseudo_call_model_ex :
  same_parse (parse_inst ICall (sym «"x"») ([LTok (sym «"loop"»); LTok nl], None))
             (parse_inst IJal (sym «"y"») ([LTok (sym «"ra"»); LTok (sym «"loop"»); LTok nl], None)) [LTok nl] [LTok nl].
Proof. eapply pseudo_call_model; reflexivity. Qed.

Example pseudo_csrr_ex :
  same_parse (parse_inst ICsrr (sym «"x"») ([LTok (sym «"a0"»); LTok (sym «"0x41"»); LTok nl], None))
             (parse_inst ICsrrs (sym «"y"») ([LTok (sym «"x10"»); LTok (sym «"uepc"»); LTok (sym «"zero"»); LTok nl], None)) [LTok nl] [LTok nl].
Proof. eapply pseudo_csrr; reflexivity. Qed.

Example pseudo_csrwi_ex :
  same_parse (parse_inst ICsrwi (sym «"x"») ([LTok (sym «"0x41"»); LTok (sym «"0x10"»); LTok nl], None))
             (parse_inst ICsrrwi (sym «"y"») ([LTok (sym «"zero"»); LTok (sym «"uepc"»); LTok (sym «"16"»); LTok nl], None)) [LTok nl] [LTok nl].
Proof. eapply pseudo_csrwi; reflexivity. Qed.

Example pseudo_csrsi_ex :
  same_parse (parse_inst ICsrsi (sym «"x"») ([LTok (sym «"0x41"»); LTok (sym «"0x10"»); LTok nl], None))
             (parse_inst ICsrrsi (sym «"y"») ([LTok (sym «"zero"»); LTok (sym «"uepc"»); LTok (sym «"16"»); LTok nl], None)) [LTok nl] [LTok nl].
Proof. eapply pseudo_csrsi; reflexivity. Qed.

Example pseudo_csrci_ex :
  same_parse (parse_inst ICsrci (sym «"x"») ([LTok (sym «"0x41"»); LTok (sym «"0x10"»); LTok nl], None))
             (parse_inst ICsrrci (sym «"y"») ([LTok (sym «"zero"»); LTok (sym «"uepc"»); LTok (sym «"16"»); LTok nl], None)) [LTok nl] [LTok nl].
Proof. eapply pseudo_csrci; reflexivity. Qed.

Example pseudo_csrw_model_ex :
  same_parse (parse_inst ICsrw (sym «"x"») ([LTok (sym «"t1"»); LTok (sym «"0x41"»); LTok nl], None))
             (parse_inst ICsrrw (sym «"y"») ([LTok (sym «"zero"»); LTok (sym «"uepc"»); LTok (sym «"x6"»); LTok nl], None)) [LTok nl] [LTok nl].
Proof. eapply pseudo_csrw_model; reflexivity. Qed.

Example pseudo_csrs_model_ex :
  same_parse (parse_inst ICsrs (sym «"x"») ([LTok (sym «"t1"»); LTok (sym «"0x41"»); LTok nl], None))
             (parse_inst ICsrrs (sym «"y"») ([LTok (sym «"zero"»); LTok (sym «"uepc"»); LTok (sym «"x6"»); LTok nl], None)) [LTok nl] [LTok nl].
Proof. eapply pseudo_csrs_model; reflexivity. Qed.

Example pseudo_csrc_model_ex :
  same_parse (parse_inst ICsrc (sym «"x"») ([LTok (sym «"t1"»); LTok (sym «"0x41"»); LTok nl], None))
             (parse_inst ICsrrc (sym «"y"») ([LTok (sym «"zero"»); LTok (sym «"uepc"»); LTok (sym «"x6"»); LTok nl], None)) [LTok nl] [LTok nl].
Proof. eapply pseudo_csrc_model; reflexivity. Qed.

Example pseudo_sgez_model_ex :
  same_parse (parse_inst ISgez (sym «"x"») ([LTok (sym «"t1"»); LTok (sym «"loop"»); LTok nl], None))
             (parse_inst IBge (sym «"y"») ([LTok (sym «"zero"»); LTok (sym «"x6"»); LTok (sym «"loop"»); LTok nl], None)) [LTok nl] [LTok nl].
Proof. eapply pseudo_sgez_model; reflexivity. Qed.
