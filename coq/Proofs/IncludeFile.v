(* C15, per-file locations: every location of a node (its raw token and the tokens of its
   instruction and operands) and of an error is a location of the file whose items were parsed
   ([parse_one_file]); a run over one file that imports nothing yields only nodes and errors
   located in that file ([run_single_file]). *)
From RV.Model Require Import Base I32 Imm Lexer Isa Parser Reader.
From RV.Spec Require Import ParamSpec LineSpec IncludeSpec.
From RV.Proofs Require Import LineProofs TotalProofs IncludeRun.
From RV.Proofs Require ErrProofs.
From Coq Require Import Lia.
Open Scope nat_scope.

Section File.
  Variable F : option N.
  Notation item_file := (ErrProofs.item_file F).

  Definition tokF (t : token) : Prop := tfile t = F.
  Definition wF {A} (w : wth A) : Prop := tfile (wt w) = F.

  Definition lexerr_file (e : lexerr) : Prop :=
    match e with
    | ENeedTwoNodes n1 n2 => node_in_file F n1 /\ node_in_file F n2
    | EExpected _ t | EIsNewline t | EIgnoredWithWarning t | EUnexpectedToken t | EUnexpectedError t
    | EUnknownDirective t | EUnsupportedDirective t | EInvalidString t _ _ => tfile t = F
    | EIgnoredWithoutWarning | EUnexpectedEOF => True
    end.

  Definition stF (st : pstate) : Prop :=
    Forall item_file (fst st) /\ exists r, snd st = Some r /\ rfile r = F.

  Definition PF {A} (Q : A -> Prop) (m : P A) : Prop :=
    forall st x st', stF st -> m st = Ok (x, st') ->
      stF st' /\ match x with inl e => lexerr_file e | inr a => Q a end.

  Lemma pf_ret {A} (Q : A -> Prop) a : Q a -> PF Q (ret a).
  Proof. intros H st x st' Hst E. unfold ret in E. inversion E; subst. split; assumption. Qed.
  Lemma pf_fail {A} (Q : A -> Prop) e : lexerr_file e -> PF Q (@fail A e).
  Proof. intros H st x st' Hst E. unfold fail in E. inversion E; subst. split; assumption. Qed.
  Lemma pf_bind {A B} (Q : A -> Prop) (R : B -> Prop) (m : P A) (f : A -> P B) :
    PF Q m -> (forall a, Q a -> PF R (f a)) -> PF R (pbind m f).
  Proof.
    intros Hm Hf st x st' Hst E. unfold pbind in E.
    destruct (m st) as [[[e|a] st1]| |] eqn:Em; try discriminate.
    - inversion E; subst. destruct (Hm _ _ _ Hst Em) as [H1 H2]. split; assumption.
    - destruct (Hm _ _ _ Hst Em) as [H1 H2]. exact (Hf a H2 _ _ _ H1 E).
  Qed.
  Lemma pf_weaken {A} (Q Q' : A -> Prop) (m : P A) : (forall a, Q a -> Q' a) -> PF Q m -> PF Q' m.
  Proof.
    intros HQ Hm st x st' Hst E. destruct (Hm _ _ _ Hst E) as [H1 H2]. split; [exact H1|].
    destruct x; [exact H2|apply HQ; exact H2].
  Qed.

  Definition anyv {A} (_ : A) : Prop := True.

  Lemma pf_lift {A} (r : res A) : PF (fun a => r = Ok a) (lift_res r).
  Proof.
    intros st x st' Hst E. unfold lift_res in E. destruct r; try discriminate.
    inversion E; subst. split; [exact Hst|reflexivity].
  Qed.
  Lemma pf_get_raw : PF (fun r => rfile r = F) get_raw.
  Proof.
    intros st x st' [H1 [r [H2 H3]]] E. unfold get_raw in E. inversion E; subst.
    split; [split; [exact H1|exists r; split; assumption]|]. rewrite H2. exact H3.
  Qed.
  Lemma pf_remaining : PF anyv remaining.
  Proof. intros st x st' Hst E. unfold remaining in E. inversion E; subst. split; [exact Hst|exact I]. Qed.

  Lemma pf_get_any : PF tokF get_any.
  Proof.
    intros [items raw] x st' [H1 [r [H2 H3]]] E. unfold get_any in E. cbn [fst snd] in *.
    destruct items as [|it l].
    - inversion E; subst. split; [|exact I]. split; [exact H1|exists r; split; [reflexivity|exact H3]].
    - inversion H1 as [|? ? Hit Hl]; subst. destruct it as [t|t p k|t]; cbn [item_result] in E; inversion E; subst.
      + split; [|exact Hit]. split; [exact Hl|]. cbn [snd]. eexists. split; [reflexivity|exact H3].
      + split; [|exact Hit]. split; [exact Hl|]. exists r. split; [reflexivity|assumption].
      + split; [|exact Hit]. split; [exact Hl|]. exists r. split; [reflexivity|assumption].
  Qed.

  Lemma pf_peek_any : PF tokF peek_any.
  Proof.
    intros [items raw] x st' Hst E. unfold peek_any in E. cbn [fst snd] in *.
    destruct items as [|it l].
    - inversion E; subst. split; [exact Hst|exact I].
    - destruct Hst as [H1 H2]. cbn [fst] in H1. inversion H1 as [|? ? Hit Hl]; subst.
      destruct it as [t|t p k|t]; cbn [item_result] in E; inversion E; subst;
        (split; [split; [exact H1|exact H2]|]); exact Hit.
  Qed.

  Lemma pf_as_reg t : tokF t -> PF wF (as_reg t).
  Proof.
    intros Ht. unfold as_reg. destruct (tok_reg t) eqn:E; [apply pf_ret|apply pf_fail; exact Ht].
    unfold wF. rewrite (proj1 (tok_reg_wt _ _ E)). exact Ht.
  Qed.
  Lemma pf_as_label t : tokF t -> PF wF (as_label t).
  Proof.
    intros Ht. unfold as_label. destruct (tok_label t) eqn:E; [apply pf_ret|apply pf_fail; exact Ht].
    unfold wF. rewrite (proj1 (tok_label_wt _ _ E)). exact Ht.
  Qed.
  Lemma pf_as_string t : tokF t -> PF wF (as_string t).
  Proof.
    intros Ht. unfold as_string. destruct (tok_string t) eqn:E; [apply pf_ret|apply pf_fail; exact Ht].
    unfold wF. rewrite (proj1 (tok_string_wt _ _ E)). exact Ht.
  Qed.
  Lemma pf_as_imm t : tokF t -> PF wF (as_imm t).
  Proof.
    intros Ht. unfold as_imm. eapply pf_bind; [apply pf_lift|]. intros [a|] E; [apply pf_ret|apply pf_fail; exact Ht].
    unfold wF. rewrite (proj1 (tok_imm_wt _ _ E)). exact Ht.
  Qed.
  Lemma pf_as_csrimm t : tokF t -> PF wF (as_csrimm t).
  Proof.
    intros Ht. unfold as_csrimm. eapply pf_bind; [apply pf_lift|]. intros [a|] E; [apply pf_ret|apply pf_fail; exact Ht].
    unfold wF. rewrite (proj1 (tok_csrimm_wt _ _ E)). exact Ht.
  Qed.

  Lemma pf_get_reg : PF wF get_reg.
  Proof. unfold get_reg. eapply pf_bind; [apply pf_get_any|]. intros t Ht. apply pf_as_reg. exact Ht. Qed.
  Lemma pf_get_label : PF wF get_label.
  Proof. unfold get_label. eapply pf_bind; [apply pf_get_any|]. intros t Ht. apply pf_as_label. exact Ht. Qed.
  Lemma pf_get_string : PF wF get_string.
  Proof. unfold get_string. eapply pf_bind; [apply pf_get_any|]. intros t Ht. apply pf_as_string. exact Ht. Qed.
  Lemma pf_get_imm : PF wF get_imm.
  Proof. unfold get_imm. eapply pf_bind; [apply pf_get_any|]. intros t Ht. apply pf_as_imm. exact Ht. Qed.
  Lemma pf_get_csrimm : PF wF get_csrimm.
  Proof. unfold get_csrimm. eapply pf_bind; [apply pf_get_any|]. intros t Ht. apply pf_as_csrimm. exact Ht. Qed.
  Lemma pf_expect_rparen : PF anyv expect_rparen.
  Proof.
    unfold expect_rparen. eapply pf_bind; [apply pf_get_any|]. intros t Ht.
    destruct (is_rparen t); [apply pf_ret; exact I|apply pf_fail; exact Ht].
  Qed.

  Ltac wt_facts :=
    repeat match goal with
    | H : tok_reg _ = Some _ |- _ => apply tok_reg_wt in H; destruct H as [H _]
    | H : tok_label _ = Some _ |- _ => apply tok_label_wt in H; destruct H as [H _]
    | H : tok_imm _ = Ok (Some _) |- _ => apply tok_imm_wt in H; destruct H as [H _]
    end.

  Ltac file_fin :=
    wt_facts; unfold wF, tokF in *;
    lazymatch goal with
    | |- True => exact I
    | |- anyv _ => exact I
    | |- node_in_file _ _ =>
        split; [cbn [node_raw]; assumption|cbn [node_tokens dir_tokens wt]; repeat constructor; try assumption; congruence]
    | |- lexerr_file _ =>
        cbn [lexerr_file]; try assumption; try congruence;
        try (split; (split; [cbn [node_raw]; assumption
                            |cbn [node_tokens dir_tokens wt]; repeat constructor; try assumption; congruence]))
    end.

  Ltac pstep :=
    cbv beta;
    lazymatch goal with
    | |- PF _ (pbind get_reg _) => eapply pf_bind; [apply pf_get_reg|intros ? ?]
    | |- PF _ (pbind get_imm _) => eapply pf_bind; [apply pf_get_imm|intros ? ?]
    | |- PF _ (pbind get_csrimm _) => eapply pf_bind; [apply pf_get_csrimm|intros ? ?]
    | |- PF _ (pbind get_string _) => eapply pf_bind; [apply pf_get_string|intros ? ?]
    | |- PF _ (pbind get_label _) => eapply pf_bind; [apply pf_get_label|intros ? ?]
    | |- PF _ (pbind expect_rparen _) => eapply pf_bind; [apply pf_expect_rparen|intros ? _]
    | |- PF _ (pbind remaining _) => eapply pf_bind; [apply pf_remaining|intros ? _]
    | |- PF _ (pbind (lift_res _) _) => eapply pf_bind; [apply pf_lift|intros ? ?]
    | |- PF _ (pbind get_any _) => eapply pf_bind; [apply pf_get_any|intros ? ?]
    | |- PF _ (pbind peek_any _) => eapply pf_bind; [apply pf_peek_any|intros ? ?]
    | |- PF _ (pbind get_raw _) => eapply pf_bind; [apply pf_get_raw|intros ? ?]
    | |- PF _ (ret _) => apply pf_ret; file_fin
    | |- PF _ (fail _) => apply pf_fail; file_fin
    | |- PF _ (match ?x with _ => _ end) => destruct x eqn:?
    end.

  Lemma parse_inst_file i t0 : tokF t0 -> PF (node_in_file F) (parse_inst i t0).
  Proof.
    intros Ht. unfold parse_inst. cbv zeta.
    destruct (inst_kind i); solve [repeat pstep].
  Qed.

  Lemma data_values_file : forall fuel acc, Forall wF acc -> PF (Forall wF) (data_values fuel acc).
  Proof.
    induction fuel as [|f IH]; intros acc Hacc st x st' Hst E; [discriminate|].
    cbn [data_values] in E.
    assert (Hrev : Forall wF (rev acc)) by (apply Forall_rev; exact Hacc).
    destruct (fst st) as [|[t|t p k|t] l] eqn:Efst;
      try (unfold ret in E; inversion E; subst; split; [exact Hst|exact Hrev]).
    revert E.
    match goal with |- ?m st = _ -> _ => assert (HP : PF (Forall (@wF Z)) m) end.
    { eapply pf_bind; [apply pf_peek_any|intros nx Hnx]. cbv beta.
      assert (Hnl : PF (Forall (@wF Z)) (pbind get_any (fun _ => data_values f acc))).
      { eapply pf_bind; [apply pf_get_any|intros ? _]. apply IH. exact Hacc. }
      assert (Himm : PF (Forall (@wF Z))
                (pbind (lift_res (tok_imm nx)) (fun r => match r with
                   | Some i => pbind get_any (fun _ => data_values f (i :: acc))
                   | None => ret (rev acc) end))).
      { eapply pf_bind; [apply pf_lift|intros [i|] Ei].
        - eapply pf_bind; [apply pf_get_any|intros ? _]. apply IH. constructor; [|exact Hacc].
          unfold wF. rewrite (proj1 (tok_imm_wt _ _ Ei)). exact Hnx.
        - apply pf_ret. exact Hrev. }
      destruct (tt nx); first [exact Hnl|exact Himm]. }
    intros E. exact (HP _ _ _ Hst E).
  Qed.

  Lemma skip_macro_file : forall fuel, PF anyv (skip_macro fuel).
  Proof.
    induction fuel as [|f IH]; [intros st x st' Hst E; discriminate|].
    cbn [skip_macro]. eapply pf_bind; [apply pf_get_any|intros a Ha]. cbv beta.
    destruct (tt a); try apply IH. destruct (dir_from_str s) as [[]|]; try apply IH. apply pf_ret. exact I.
  Qed.

  Lemma Forall_wF_map (vals : list (wth Z)) : Forall wF vals -> Forall (fun t => tfile t = F) (map wt vals).
  Proof. intros H. induction H; cbn [map]; constructor; assumption. Qed.

  Lemma parse_directive_file d t0 : tokF t0 -> PF (node_in_file F) (parse_directive d t0).
  Proof.
    intros Ht. unfold parse_directive. cbv zeta.
    assert (Hdata : forall dt, PF (node_in_file F)
              (pbind remaining (fun n => pbind (data_values (S n) [])
                 (fun vals => pbind get_raw (fun rt => ret (PDirective (mkw d t0) (DDat dt vals) rt)))))).
    { intros dt. pstep. eapply pf_bind; [apply data_values_file; constructor|intros vals Hv]. pstep.
      apply pf_ret. split; [cbn [node_raw]; assumption|]. cbn [node_tokens dir_tokens wt].
      constructor; [exact Ht|apply Forall_wF_map; exact Hv]. }
    destruct d; try apply Hdata; try solve [repeat pstep].
    pstep. eapply pf_bind; [apply skip_macro_file|intros ? _]. pstep.
  Qed.

  Lemma parse_stmt_rest t0 : tokF t0 ->
    PF (node_in_file F)
       (match tt t0 with
        | TSymbol s => match inst_from_str s with Some i => parse_inst i t0 | None => fail (EExpected [XInst] t0) end
        | TLabel s => match label_from_str s with
                      | Some l => pbind get_raw (fun rt => ret (PLabel (mkw l t0) rt))
                      | None => fail (EExpected [XLabel] t0)
                      end
        | TDirective d => match dir_from_str d with Some dt => parse_directive dt t0 | None => fail (EUnknownDirective t0) end
        | TNewline => fail (EIsNewline t0)
        | TLParen | TRParen | TString _ | TChar _ => fail (EUnexpectedToken t0)
        | TComment _ => fail EIgnoredWithoutWarning
        end).
  Proof.
    intros Ht. destruct (tt t0); try (apply pf_fail; cbn [lexerr_file]; first [exact Ht|exact I]).
    - destruct (label_from_str s); [repeat pstep|apply pf_fail; exact Ht].
    - destruct (inst_from_str s); [apply parse_inst_file; exact Ht|apply pf_fail; exact Ht].
    - destruct (dir_from_str s); [apply parse_directive_file; exact Ht|apply pf_fail; exact Ht].
  Qed.

  (* one statement: the node / the error is located in the file the items come from *)
  Theorem parse_one_file items x rest :
    Forall item_file items -> parse_one items = Ok (x, rest) ->
    Forall item_file rest /\ match x with inl e => lexerr_file e | inr n => node_in_file F n end.
  Proof.
    intros Hit E. unfold parse_one, bind in E.
    destruct (parse_stmt (items, None)) as [[x' [rest' raw']]| |] eqn:Ep; try discriminate.
    inversion E; subst x' rest'. clear E.
    unfold parse_stmt, pbind, get_any in Ep. cbn [fst snd] in Ep.
    destruct items as [|it l].
    - inversion Ep; subst. split; [constructor|exact I].
    - inversion Hit as [|? ? Hi Hl]; subst.
      destruct it as [t|t p q|t]; cbn [item_result] in Ep.
      + assert (Hst : stF (l, Some (raw_of_token t))).
        { split; [exact Hl|]. exists (raw_of_token t). split; [reflexivity|exact Hi]. }
        destruct (parse_stmt_rest t Hi _ _ _ Hst Ep) as [[H1 _] H2]. split; [exact H1|exact H2].
      + inversion Ep; subst. split; [exact Hl|exact Hi].
      + inversion Ep; subst. split; [exact Hl|exact Hi].
  Qed.

  Lemma recover_file : forall items, Forall item_file items -> Forall item_file (recover items).
  Proof.
    induction items as [|it l IH]; intros H; cbn [recover]; [constructor|].
    inversion H; subst. destruct it; try (apply IH; assumption).
    destruct (tt t); try (apply IH; assumption). assumption.
  Qed.

  Lemma err_perr_file e pe : lexerr_file e -> err_perr e = Some pe -> err_in_file F pe.
  Proof. destruct e; cbn [err_perr lexerr_file]; intros H E; try discriminate E; injection E as <-; exact H. Qed.

  Lemma err_nodes_file e : lexerr_file e -> Forall (node_in_file F) (err_nodes e).
  Proof.
    destruct e; cbn [err_nodes lexerr_file]; intros H; try (constructor; fail).
    destruct H as [H1 H2]. constructor; [exact H2|constructor; [exact H1|constructor]].
  Qed.

  Lemma to_parse_error_token e path : err_token (to_parse_error e path) = wt path.
  Proof. destruct e; reflexivity. Qed.

  (* a run over one file during which nothing is imported: all nodes and errors are in that file *)
  Lemma drive_single_file chk fs : forall f top rs n e ns es rs',
    Forall item_file top -> Forall (node_in_file F) n -> Forall (err_in_file F) e ->
    drive f chk fs false [top] rs n e = Ok (ns, es, rs') -> imported rs' = imported rs ->
    Forall (node_in_file F) ns /\ Forall (err_in_file F) es.
  Proof.
    induction f as [|f IH]; intros top rs n e ns es rs' Ht Hn He H Himp; [discriminate|].
    rewrite drive_S in H. unfold dstep in H.
    destruct (parse_one top) as [[x rest]| |] eqn:Ep; cbn [bind] in H; try discriminate.
    destruct (parse_one_file top x rest Ht Ep) as [Hrest Hx].
    destruct x as [er|nd].
    - cbn [bind app] in H.
      assert (Hn' : Forall (node_in_file F) (err_nodes er ++ n)).
      { apply Forall_app. split; [apply err_nodes_file; exact Hx|exact Hn]. }
      assert (He' : Forall (err_in_file F) (match err_perr er with Some pe => pe :: e | None => e end)).
      { destruct (err_perr er) as [pe|] eqn:Epe; [|exact He]. constructor; [apply (err_perr_file er pe Hx Epe)|exact He]. }
      destruct (stmt_next (inl er) rest) as [top'|] eqn:En.
      + cbn [app] in H.
        assert (Htop' : Forall item_file top').
        { destruct er; cbn [stmt_next] in En; inversion En; subst top'; try assumption; try (apply recover_file; assumption).
          destruct (is_newline_tok got); [assumption|apply recover_file; assumption]. }
        apply (IH top' rs _ _ ns es rs' Htop' Hn' He' H Himp).
      + cbn [app] in H. destruct f as [|f]; [discriminate|]. rewrite drive_nil in H. inversion H; subst.
        split; apply Forall_rev; assumption.
    - destruct (include_path nd) as [path|] eqn:Einc.
      + destruct (import_file fs (wv path) rs) as [[er|[id text]] rs1] eqn:Ei.
        * cbn [bind app] in H. apply import_file_fail in Ei. subst rs1.
          apply (IH rest rs n (to_parse_error er path :: e) ns es rs'); try assumption.
          constructor; [|exact He]. unfold err_in_file. rewrite to_parse_error_token.
          destruct Hx as [_ Hx]. destruct nd; try discriminate Einc. destruct dt; try discriminate Einc.
          cbn [include_path] in Einc. injection Einc as <-. cbn [node_tokens dir_tokens] in Hx.
          inversion Hx as [|? ? _ Hx']. inversion Hx' as [|? ? Hp _]. exact Hp.
        * exfalso. destruct (lex_all chk (Some id) (normalize_text text)) as [items| |]; cbn [bind] in H; try discriminate.
          apply import_file_ok in Ei. destruct Ei as [_ [_ [_ ->]]].
          destruct (drive_imported _ _ _ _ _ _ _ _ _ _ _ H) as [di Hdi]. cbn [imported] in Hdi.
          rewrite Hdi in Himp. apply (f_equal (@length _)) in Himp. rewrite !app_length in Himp. cbn [length] in Himp. lia.
      + cbn [bind app] in H. apply (IH rest rs (nd :: n) e ns es rs'); try assumption. constructor; assumption.
  Qed.
End File.

(* the items of a text lexed for file [id] are of file [id]; so a run over an included text that
   imports nothing further yields only nodes and errors whose every location is in that file *)
Theorem run_single_file chk fs id (text : str) items rs ns es rs' :
  lex_all chk (Some id) text = Ok items ->
  Run chk fs false [items] rs [] [] (ns, es, rs') -> imported rs' = imported rs ->
  Forall (node_in_file (Some id)) ns /\ Forall (err_in_file (Some id)) es.
Proof.
  intros Hl [f H] Himp.
  apply (drive_single_file (Some id) chk fs f items rs [] [] ns es rs'); try assumption; try constructor.
  apply (ErrProofs.lex_all_file _ _ _ _ Hl).
Qed.
