(* Location parametricity, part 5: the lints, gen_full_cfg and run_items of Model/Lints.v. *)
From Coq Require Import List ZArith NArith Bool Lia.
From RV.Model Require Import Base I32 Imm Lexer Isa Parser Reader Cfg Avail Live Lints.
From RV.Proofs Require Import ParamRel ParamCfg ParamAvail ParamLive.
Import ListNotations.

Lemma F2_filter_map_same {A C D} (S : C -> D -> Prop) (f1 : A -> option C) (f2 : A -> option D) l :
  (forall a, rel_option S (f1 a) (f2 a)) -> Forall2 S (filter_map f1 l) (filter_map f2 l).
Proof. intros Hf. induction l as [|a l IH]; cbn; [constructor|]. destruct (Hf a); auto. Qed.

(* parse errors and diagnostic items *)
Section RelItems.
Variable P : loc -> loc -> Prop.
Inductive Rpe : parse_error -> parse_error -> Prop :=
| Rpe_expected ex t1 t2 : Rt P t1 t2 -> Rpe (PEExpected ex t1) (PEExpected ex t2)
| Rpe_unsupported t1 t2 : Rt P t1 t2 -> Rpe (PEUnsupported t1) (PEUnsupported t2)
| Rpe_unexptok t1 t2 : Rt P t1 t2 -> Rpe (PEUnexpectedToken t1) (PEUnexpectedToken t2)
| Rpe_unexperr t1 t2 : Rt P t1 t2 -> Rpe (PEUnexpectedError t1) (PEUnexpectedError t2)
| Rpe_unkdir t1 t2 : Rt P t1 t2 -> Rpe (PEUnknownDirective t1) (PEUnknownDirective t2)
| Rpe_cyclic t1 t2 : Rt P t1 t2 -> Rpe (PECyclicDependency t1) (PECyclicDependency t2)
| Rpe_notfound p1 p2 : Rw P p1 p2 -> Rpe (PEFileNotFound p1) (PEFileNotFound p2)
| Rpe_io p1 p2 : Rw P p1 p2 -> Rpe (PEIOError p1) (PEIOError p2)
| Rpe_invstr t1 t2 q1 q2 k : Rt P t1 t2 -> Rpe (PEInvalidString t1 q1 k) (PEInvalidString t2 q2 k).
Inductive Rdk : dkind -> dkind -> Prop :=
| Rdk_lint c : Rdk (DLint c) (DLint c)
| Rdk_parse e1 e2 : Rpe e1 e2 -> Rdk (DParse e1) (DParse e2)
| Rdk_cfg e1 e2 : Rerr P e1 e2 -> Rdk (DCfg e1) (DCfg e2).
Inductive Rd : ditem -> ditem -> Prop :=
| Rd_intro k1 k2 l1 l2 o : Rdk k1 k2 -> Forall2 P l1 l2 -> Rd (mkd k1 l1 o) (mkd k2 l2 o).
End RelItems.
#[global] Hint Constructors Rpe Rdk Rd : prel.

(* an error the CFG stages can actually produce has a label / node to point at *)
Definition cfgerr_located (e : cfgerr) : Prop :=
  match e with CLabelsNotDefined [] | CUnexpectedError => False | _ => True end.

Section Lints.
Variable P : loc -> loc -> Prop.
Notation Rn := (Rn P). Notation Rw := (Rw P). Notation Rr := (Rr P). Notation Rav := (Rav P). Notation Rt := (Rt P).
Notation Rc := (Rc P). Notation Rcs := (Rcs P). Notation Rg := (Rg P). Notation Rerr := (Rerr P).
Notation Rrm := (Rrm P). Notation Rmm := (Rmm P). Notation Rkv := (Rkv P). Notation Rl := (Rl P).
Notation Rsr := (Rsr P). Notation Rpe := (Rpe P). Notation Rd := (Rd P).

Lemma Rt_loc t1 t2 : Rt t1 t2 -> P (loc_of_tok t1) (loc_of_tok t2).
Proof. destruct 1; assumption. Qed.
Lemma Rw_loc {A} (a b : wth A) : Rw a b -> P (loc_of_tok (wt a)) (loc_of_tok (wt b)).
Proof. destruct 1. apply Rt_loc. assumption. Qed.
Lemma Rr_loc r1 r2 : Rr r1 r2 -> P (loc_of_raw r1) (loc_of_raw r2).
Proof. destruct 1; assumption. Qed.
Lemma Rn_loc n1 n2 : Rn n1 n2 -> P (loc_of_node n1) (loc_of_node n2).
Proof. intros H. apply Rr_loc. apply node_raw_rel. exact H. Qed.
Lemma lint1_rel c l1 l2 : P l1 l2 -> Forall2 Rl [lint1 c l1] [lint1 c l2].
Proof. intros H. repeat constructor. exact H. Qed.

(* ---- first usage / first store ---- *)
Lemma usage_hit_rel g1 g2 item i : Rcs g1 g2 -> rel_option (rel_option P) (usage_hit g1 item i) (usage_hit g2 item i).
Proof.
  intros H. unfold usage_hit. destruct (getn_rel _ _ _ i H) as [|c1 c2 Hc]; [constructor|].
  pose proof (Rc_cn _ _ _ Hc) as Hn. rewrite (gen_reg_rel _ _ _ Hn). destruct (rs_mem item (gen_reg (cn c2))); constructor.
  assert (Hf : Forall2 Rw (filter (fun r => N.eqb (wv r) item) (reads_from (cn c1)))
                          (filter (fun r => N.eqb (wv r) item) (reads_from (cn c2)))).
  { apply F2_filter; [apply reads_from_rel; exact Hn|]. intros a b Hab. rewrite (Rw_wv _ _ _ Hab). reflexivity. }
  destruct Hf as [|a b l1 l2 Hab Hl]; constructor. apply Rw_loc; exact Hab.
Qed.

Lemma first_usage_rel g1 g2 item : Rcs g1 g2 -> forall fuel frontier visited,
  Forall2 (rel_option P) (first_usage fuel g1 item frontier visited) (first_usage fuel g2 item frontier visited).
Proof.
  intros H fuel. induction fuel as [|f IH]; intros frontier visited; cbn [first_usage]; [constructor|]. cbv zeta.
  destruct (filter (fun i => negb (memn i visited)) frontier) as [|x fresh]; [constructor|].
  pose proof (F2_filter_map_same (rel_option P) (usage_hit g1 item) (usage_hit g2 item) (x :: fresh)
                (fun i => usage_hit_rel _ _ item i H)) as Hh.
  destruct Hh as [|a b h1 h2 Hab Hh]; [|constructor; assumption].
  match goal with |- Forall2 _ (first_usage f g1 item ?n1 _) (first_usage f g2 item ?n2 _) =>
    assert (E : n1 = n2) end.
  { apply fold_left_same; [reflexivity|]. intros u v i ->.
    destruct (getn_rel _ _ _ i H) as [|c1 c2 Hc]; [reflexivity|]. rewrite (Rc_nexts _ _ _ Hc). reflexivity. }
  rewrite E. apply IH.
Qed.

Lemma error_ranges_for_first_usage_rel g1 g2 i item : Rcs g1 g2 ->
  Forall2 (rel_option P) (error_ranges_for_first_usage g1 i item) (error_ranges_for_first_usage g2 i item).
Proof.
  intros H. unfold error_ranges_for_first_usage. destruct (getn_rel _ _ _ i H) as [|c1 c2 Hc]; [constructor|].
  rewrite (Rc_nexts _ _ _ Hc), (Rcs_length _ _ _ H). apply first_usage_rel; exact H.
Qed.

Lemma first_store_rel g1 g2 item : Rcs g1 g2 -> forall fuel queue visited acc1 acc2, Forall2 P acc1 acc2 ->
  Forall2 P (first_store fuel g1 item queue visited acc1) (first_store fuel g2 item queue visited acc2).
Proof.
  intros H fuel. induction fuel as [|f IH]; intros queue visited acc1 acc2 Hacc; cbn [first_store]; [exact Hacc|].
  destruct queue as [|p q]; [exact Hacc|]. destruct (memn p visited); [apply IH; exact Hacc|].
  destruct (getn_rel _ _ _ p H) as [|c1 c2 Hc]; [apply IH; exact Hacc|]. rewrite (Rc_prevs _ _ _ Hc).
  destruct (writes_to_rel _ _ _ (Rc_cn _ _ _ Hc)) as [|a b Hab]; [apply IH; exact Hacc|].
  rewrite (Rw_wv _ _ _ Hab). destruct (N.eqb (wv b) item); apply IH; auto. constructor; [apply Rw_loc; exact Hab|exact Hacc].
Qed.
Lemma error_ranges_for_first_store_rel g1 g2 i item : Rcs g1 g2 ->
  Forall2 P (error_ranges_for_first_store g1 i item) (error_ranges_for_first_store g2 i item).
Proof.
  intros H. unfold error_ranges_for_first_store. destruct (getn_rel _ _ _ i H) as [|c1 c2 Hc]; [constructor|].
  rewrite (Rc_prevs _ _ _ Hc), (Rcs_length _ _ _ H). apply first_store_rel; [exact H|constructor].
Qed.

Lemma for_nodes_rel g1 g2 f1 f2 : Rg g1 g2 -> (forall i c1 c2, Rc c1 c2 -> Forall2 Rl (f1 i c1) (f2 i c2)) ->
  Forall2 Rl (for_nodes g1 f1) (for_nodes g2 f2).
Proof.
  intros Hg Hf. unfold for_nodes, indices. pose proof (Rg_gnodes _ _ _ Hg) as Hns. rewrite (Rcs_length _ _ _ Hns).
  apply F2_flat_map_same. intros i. destruct (getn_rel _ _ _ i Hns) as [|c1 c2 Hc]; [constructor|apply Hf; exact Hc].
Qed.

(* ---- the lints ---- *)
Lemma lint_save_to_zero_rel g1 g2 : Rg g1 g2 -> Forall2 Rl (lint_save_to_zero g1) (lint_save_to_zero g2).
Proof.
  intros Hg. apply for_nodes_rel; [exact Hg|]. intros i c1 c2 Hc. pose proof (Rc_cn _ _ _ Hc) as Hn.
  destruct (writes_to_rel _ _ _ Hn) as [|a b Hab]; [constructor|].
  rewrite (Rw_wv _ _ _ Hab), (can_skip_save_checks_rel _ _ _ Hn). destruct (_ && _)%bool; [|constructor].
  apply lint1_rel. apply Rw_loc; exact Hab.
Qed.

Lemma usage_lints_rel code g1 g2 i regs : Rg g1 g2 -> Forall2 Rl (usage_lints code g1 i regs) (usage_lints code g2 i regs).
Proof.
  intros Hg. unfold usage_lints. apply F2_flat_map_same. intros item. cbv zeta.
  pose proof (error_ranges_for_first_usage_rel _ _ i item (Rg_gnodes _ _ _ Hg)) as Hc.
  destruct Hc as [|a b l1 l2 Hab Hl]; [constructor|].
  assert (Hfm : Forall2 P (filter_map (fun x => x) (a :: l1)) (filter_map (fun x => x) (b :: l2))).
  { apply (F2_filter_map (rel_option P)); [constructor; assumption|]. intros x y Hxy; exact Hxy. }
  assert (He : existsb (fun x : option loc => match x with None => true | Some _ => false end) (a :: l1)
             = existsb (fun x : option loc => match x with None => true | Some _ => false end) (b :: l2)).
  { apply (F2_existsb (rel_option P)); [constructor; assumption|]. intros x y Hxy; destruct Hxy; reflexivity. }
  rewrite He. destruct Hfm as [|u v m1 m2 Huv Hm]; [constructor|].
  repeat constructor; assumption.
Qed.

Lemma lint_dead_value_rel g1 g2 : Rg g1 g2 -> Forall2 Rl (lint_dead_value g1) (lint_dead_value g2).
Proof.
  intros Hg. apply for_nodes_rel; [exact Hg|]. intros i c1 c2 Hc. pose proof (Rc_cn _ _ _ Hc) as Hn.
  rewrite (calls_to_from_cfg_rel _ _ _ _ _ Hg Hc), (Rg_gfuncs _ _ _ Hg).
  destruct (calls_to_from_cfg g2 c2) as [fid|].
  - destruct (nth_opt (gfuncs g2) fid) as [f|]; [|constructor]. cbv zeta.
    rewrite (fn_returns_rel _ _ _ f Hg), (Rc_lout _ _ _ Hc). apply usage_lints_rel; exact Hg.
  - destruct (writes_to_rel _ _ _ Hn) as [|a b Hab]; [constructor|].
    rewrite (Rw_wv _ _ _ Hab), (Rc_lout _ _ _ Hc), (can_skip_save_checks_rel _ _ _ Hn). destruct (_ && _)%bool; [|constructor].
    apply lint1_rel. apply Rw_loc; exact Hab.
Qed.

Lemma lint_instruction_in_text_rel g1 g2 : Rg g1 g2 -> Forall2 Rl (lint_instruction_in_text g1) (lint_instruction_in_text g2).
Proof.
  intros Hg. apply for_nodes_rel; [exact Hg|]. intros i c1 c2 Hc. pose proof (Rc_cn _ _ _ Hc) as Hn.
  rewrite (is_instruction_rel _ _ _ Hn), (Rc_ctext _ _ _ Hc). destruct (_ && _)%bool; [|constructor].
  apply lint1_rel. apply Rn_loc; exact Hn.
Qed.

Lemma lint_ecall_rel g1 g2 : Rg g1 g2 -> Forall2 Rl (lint_ecall g1) (lint_ecall g2).
Proof.
  intros Hg. apply for_nodes_rel; [exact Hg|]. intros i c1 c2 Hc. pose proof (Rc_cn _ _ _ Hc) as Hn.
  rewrite (is_ecall_rel _ _ _ Hn), (known_ecall_rel _ _ _ Hc). destruct (is_ecall (cn c2)); [|constructor].
  destruct (known_ecall c2); [constructor|]. apply lint1_rel. apply Rn_loc; exact Hn.
Qed.

Lemma lint_control_flow_rel g1 g2 : Rg g1 g2 -> Forall2 Rl (lint_control_flow g1) (lint_control_flow g2).
Proof.
  intros Hg. apply for_nodes_rel; [exact Hg|]. intros i c1 c2 Hc. pose proof (Rc_cn _ _ _ Hc) as Hn.
  rewrite (is_function_entry_rel _ _ _ Hn), (is_program_entry_rel _ _ _ Hn), (Rc_prevs _ _ _ Hc), (Rc_cfuncs _ _ _ Hc).
  destruct (is_function_entry (cn c2)).
  - apply F2_flat_map_same. intros p. destruct (getn_rel _ _ _ p (Rg_gnodes _ _ _ Hg)) as [|p1 p2 Hp]; [constructor|].
    pose proof (Rc_cn _ _ _ Hp) as Hpn. rewrite (is_program_entry_rel _ _ _ Hpn), (is_unconditional_jump_rel _ _ _ Hpn).
    destruct (is_program_entry (cn p2)).
    + apply F2_map_same. intros _. constructor. constructor; [apply Rn_loc; exact Hn|constructor].
    + destruct (is_unconditional_jump (cn p2)); [|constructor]. destruct (cfuncs c2); [constructor|].
      apply lint1_rel. apply Rn_loc; exact Hn.
  - destruct (_ && _)%bool; [|constructor]. apply lint1_rel. apply Rn_loc; exact Hn.
Qed.

Lemma is_function_entry_with_func_rel g1 g2 i c1 c2 : Rg g1 g2 -> Rc c1 c2 ->
  is_function_entry_with_func g1 i c1 = is_function_entry_with_func g2 i c2.
Proof. intros Hg Hc. unfold is_function_entry_with_func. rewrite (Rg_gfuncs _ _ _ Hg), (Rc_cfuncs _ _ _ Hc). reflexivity. Qed.

Lemma lint_garbage_input_rel g1 g2 : Rg g1 g2 -> Forall2 Rl (lint_garbage_input g1) (lint_garbage_input g2).
Proof.
  intros Hg. apply for_nodes_rel; [exact Hg|]. intros i c1 c2 Hc. pose proof (Rc_cn _ _ _ Hc) as Hn.
  rewrite (is_program_entry_rel _ _ _ Hn), (Rc_lin _ _ _ Hc), (is_function_entry_with_func_rel _ _ i _ _ Hg Hc).
  destruct (is_program_entry (cn c2)); [apply usage_lints_rel; exact Hg|].
  destruct (is_function_entry_with_func g2 i c2) as [f|]; [|constructor].
  rewrite (fn_arguments_rel _ _ _ f Hg). apply usage_lints_rel; exact Hg.
Qed.

Lemma stack_loop_rel ns1 ns2 : Rcs ns1 ns2 -> Forall2 Rl (stack_loop ns1) (stack_loop ns2).
Proof.
  induction 1 as [|c1 c2 ns1 ns2 Hc Hns IH]; cbn [stack_loop]; [constructor|].
  pose proof (Rc_cn _ _ _ Hc) as Hn. pose proof (Rn_loc _ _ Hn) as Hl.
  destruct (rm_get_rel P 2%N _ _ (Rc_rout _ _ _ Hc)) as [|a b Hab]; [apply lint1_rel; exact Hl|].
  destruct Hab as [l1 l2 Hlab|a Ha]; [apply lint1_rel; exact Hl|].
  destruct a; try (apply lint1_rel; exact Hl).
  destruct (negb (N.eqb r 2)); [apply lint1_rel; exact Hl|].
  destruct (Z.ltb 0 off); [apply lint1_rel; exact Hl|].
  apply F2_app; [|exact IH]. rewrite (uses_memory_location_rel _ _ _ Hn).
  destruct (uses_memory_location (cn c2)) as [[r2 off2]|]; [|constructor].
  destruct (_ && _)%bool; [apply lint1_rel; exact Hl|constructor].
Qed.
Lemma lint_stack_rel g1 g2 : Rg g1 g2 -> Forall2 Rl (lint_stack g1) (lint_stack g2).
Proof. intros Hg. apply stack_loop_rel. apply Rg_gnodes; exact Hg. Qed.

Lemma lint_callee_saved_rel g1 g2 : Rg g1 g2 -> Forall2 Rl (lint_callee_saved g1) (lint_callee_saved g2).
Proof.
  intros Hg. unfold lint_callee_saved. rewrite (Rg_gfuncs _ _ _ Hg).
  apply F2_flat_map_same. intros f.
  pose proof (Rg_gnodes _ _ _ Hg) as Hns.
  destruct (getn_rel _ _ _ (fexit f) Hns) as [|e1 e2 He]; [constructor|].
  apply F2_flat_map_same. intros r. rewrite (is_original_value_rel _ _ _ r (Rc_rin _ _ _ He)).
  destruct (is_original_value (rin e2) r); [constructor|].
  apply (F2_map P); [apply error_ranges_for_first_store_rel; exact Hns|].
  intros a b Hab. constructor. constructor; [exact Hab|constructor].
Qed.

Lemma lint_callee_saved_garbage_read_rel g1 g2 : Rg g1 g2 ->
  Forall2 Rl (lint_callee_saved_garbage_read g1) (lint_callee_saved_garbage_read g2).
Proof.
  intros Hg. apply for_nodes_rel; [exact Hg|]. intros i c1 c2 Hc. pose proof (Rc_cn _ _ _ Hc) as Hn.
  apply (F2_flat_map Rw); [apply reads_from_rel; exact Hn|]. intros a b Hab.
  rewrite (Rw_wv _ _ _ Hab), (uses_memory_location_rel _ _ _ Hn), (is_original_value_rel _ _ _ (wv b) (Rc_rin _ _ _ Hc)).
  destruct (_ && _ && _)%bool; [|constructor]. apply lint1_rel. apply Rw_loc; exact Hab.
Qed.

Lemma holds_original_rel r a1 a2 : Rav a1 a2 -> holds_original r a1 = holds_original r a2.
Proof. destruct 1; reflexivity. Qed.
Lemma lint_lost_callee_saved_rel g1 g2 : Rg g1 g2 -> Forall2 Rl (lint_lost_callee_saved g1) (lint_lost_callee_saved g2).
Proof.
  intros Hg. apply for_nodes_rel; [exact Hg|]. intros i c1 c2 Hc. pose proof (Rc_cn _ _ _ Hc) as Hn.
  destruct (writes_to_rel _ _ _ Hn) as [|a b Hab]; [constructor|].
  rewrite (Rw_wv _ _ _ Hab), (Rc_cfuncs _ _ _ Hc).
  rewrite (opt_aval_eqb_rel P _ _ _ _ (rm_get_rel P (wv b) _ _ (Rc_rin _ _ _ Hc))
             (ro_some _ _ _ (Rav_same P (AOrig (wv b) 0) eq_refl))).
  destruct (_ && _ && _)%bool; [|constructor].
  rewrite (F2_existsb (@ParamRel.Rkv P memloc) (fun kv => holds_original (wv b) (snd kv)) (fun kv => holds_original (wv b) (snd kv))
             _ _ (Rc_mout _ _ _ Hc)).
  2:{ intros x y Hxy. destruct Hxy as [k v1 v2 Hv]. apply holds_original_rel; exact Hv. }
  rewrite (F2_existsb (@ParamRel.Rkv P reg) (fun kv => holds_original (wv b) (snd kv)) (fun kv => holds_original (wv b) (snd kv))
             _ _ (Rc_rout _ _ _ Hc)).
  2:{ intros x y Hxy. destruct Hxy as [k v1 v2 Hv]. apply holds_original_rel; exact Hv. }
  destruct (_ || _)%bool; [constructor|]. apply lint1_rel. apply Rw_loc; exact Hab.
Qed.

Lemma lint_overlapping_rel g1 g2 : Rg g1 g2 -> Forall2 Rl (lint_overlapping g1) (lint_overlapping g2).
Proof.
  intros Hg. apply for_nodes_rel; [exact Hg|]. intros i c1 c2 Hc.
  rewrite (Rc_cfuncs _ _ _ Hc), (is_function_entry_with_func_rel _ _ i _ _ Hg Hc).
  destruct (_ && _)%bool; [|constructor].
  destruct (Rc_clabels _ _ _ Hc) as [|a b l1 l2 Hab Hl]; [constructor|].
  constructor; [|constructor]. constructor. apply (F2_map Rw); [constructor; assumption|].
  intros x y Hxy. apply Rw_loc; exact Hxy.
Qed.

Lemma run_diagnostics_rel g1 g2 : Rg g1 g2 -> Forall2 Rl (run_diagnostics g1) (run_diagnostics g2).
Proof.
  intros Hg. unfold run_diagnostics.
  repeat (apply F2_app; [first [apply lint_save_to_zero_rel | apply lint_dead_value_rel | apply lint_instruction_in_text_rel
                               | apply lint_ecall_rel | apply lint_control_flow_rel | apply lint_garbage_input_rel
                               | apply lint_stack_rel | apply lint_callee_saved_rel | apply lint_callee_saved_garbage_read_rel
                               | apply lint_lost_callee_saved_rel]; exact Hg|]).
  apply lint_overlapping_rel; exact Hg.
Qed.

(* ---- gen_full_cfg ---- *)
Lemma rel_sum_stage (x1 x2 : cfgerr + cfg) (k1 k2 : cfg -> res (stage_res cfg)) :
  rel_sum Rerr Rg x1 x2 -> (forall a b, Rg a b -> rel_res Rsr (k1 a) (k2 b)) ->
  rel_res Rsr (match x1 with inl e => Ok (SErr e) | inr g => k1 g end) (match x2 with inl e => Ok (SErr e) | inr g => k2 g end).
Proof. intros Hx Hk. destruct Hx; [repeat constructor; assumption|apply Hk; assumption]. Qed.

Lemma gen_full_cfg_rel picks ns1 ns2 : Forall2 Rn ns1 ns2 -> rel_res Rsr (gen_full_cfg picks ns1) (gen_full_cfg picks ns2).
Proof.
  intros Hns. unfold gen_full_cfg.
  apply rel_sum_stage; [apply cfg_new_rel; [exact Hns|constructor]|]. intros g0 g0' H0.
  apply rel_sum_stage; [apply directions_rel; exact H0|]. intros g1 g1' H1.
  apply (rel_res_bind Rg); [apply avail_pass_rel; exact H1|]. intros g2 g2' H2. cbv zeta.
  apply rel_sum_stage; [apply cfg_new_rel; [exact Hns|constructor; apply interrupt_handler_names_rel; exact H2]|].
  intros h0 h0' K0.
  apply rel_sum_stage; [apply directions_rel; exact K0|]. intros h1 h1' K1.
  apply (rel_res_bind Rg); [apply avail_pass_rel; apply dead_code_rel; exact K1|]. intros h3 h3' K3.
  apply rel_sum_stage; [apply function_markup_rel; apply ecall_terminate_rel; exact K3|]. intros h5 h5' K5.
  apply (rel_res_bind Rg); [apply avail_pass_rel; exact K5|]. intros h6 h6' K6.
  apply (rel_res_bind Rg); [apply liveness_pass_rel; apply ecall_terminate_rel; exact K6|]. intros h8 h8' K8.
  repeat constructor; exact K8.
Qed.

(* the same pipeline stopped at any stage boundary *)
Lemma gen_cfg_upto_rel stage picks ns1 ns2 : Forall2 Rn ns1 ns2 ->
  rel_res Rsr (gen_cfg_upto stage picks ns1) (gen_cfg_upto stage picks ns2).
Proof.
  intros Hns. unfold gen_cfg_upto.
  apply rel_sum_stage; [apply cfg_new_rel; [exact Hns|constructor]|]. intros g0 g0' H0.
  destruct (N.eqb stage 0); [repeat constructor; exact H0|].
  apply rel_sum_stage; [apply directions_rel; exact H0|]. intros g1 g1' H1.
  destruct (N.eqb stage 1); [repeat constructor; exact H1|].
  apply (rel_res_bind Rg); [apply avail_pass_rel; exact H1|]. intros g2 g2' H2.
  destruct (N.eqb stage 2); [repeat constructor; exact H2|].
  apply rel_sum_stage; [apply cfg_new_rel; [exact Hns|constructor; apply interrupt_handler_names_rel; exact H2]|].
  intros h0 h0' K0.
  destruct (N.eqb stage 3); [repeat constructor; exact K0|].
  apply rel_sum_stage; [apply directions_rel; exact K0|]. intros h1 h1' K1.
  destruct (N.eqb stage 4); [repeat constructor; exact K1|]. cbv zeta.
  pose proof (dead_code_rel _ _ _ K1) as K2.
  destruct (N.eqb stage 5); [repeat constructor; exact K2|].
  apply (rel_res_bind Rg); [apply avail_pass_rel; exact K2|]. intros h3 h3' K3.
  destruct (N.eqb stage 6); [repeat constructor; exact K3|].
  pose proof (ecall_terminate_rel _ _ _ K3) as K4.
  destruct (N.eqb stage 7); [repeat constructor; exact K4|].
  apply rel_sum_stage; [apply function_markup_rel; exact K4|]. intros h5 h5' K5.
  destruct (N.eqb stage 8); [repeat constructor; exact K5|].
  apply (rel_res_bind Rg); [apply avail_pass_rel; exact K5|]. intros h6 h6' K6.
  destruct (N.eqb stage 9); [repeat constructor; exact K6|].
  pose proof (ecall_terminate_rel _ _ _ K6) as K7.
  destruct (N.eqb stage 10); [repeat constructor; exact K7|].
  apply (rel_res_bind Rg); [apply liveness_pass_rel; exact K7|]. intros h8 h8' K8.
  repeat constructor; exact K8.
Qed.

(* ---- run_items ---- *)
Lemma parse_error_loc_rel e1 e2 : Rpe e1 e2 -> P (parse_error_loc e1) (parse_error_loc e2).
Proof. destruct 1; cbn; first [apply Rt_loc; assumption|apply Rw_loc; assumption]. Qed.

Lemma min_name_rel l1 l2 : Forall2 Rw l1 l2 -> forall b1 b2, Rw b1 b2 -> Rw (min_name l1 b1) (min_name l2 b2).
Proof.
  induction 1 as [|x y l1 l2 Hxy Hl IH]; intros b1 b2 Hb; cbn; [exact Hb|].
  apply IH. rewrite (Rw_wv _ _ _ Hxy), (Rw_wv _ _ _ Hb). destruct (str_ltb (wv y) (wv b2)); assumption.
Qed.
Lemma cfg_error_loc_rel e1 e2 : Rerr e1 e2 -> cfgerr_located e1 -> P (cfg_error_loc e1) (cfg_error_loc e2).
Proof.
  destruct 1 as [l1 l2 Hl|l1 l2 Hl|l1 l2 Hl|n1 n2 l1 l2 Hn Hl|]; cbn; intros Hloc.
  - destruct Hl as [|x y l1 l2 Hxy Hl]; [contradiction|]. apply Rw_loc. apply min_name_rel; assumption.
  - apply Rw_loc; exact Hl.
  - apply Rw_loc; exact Hl.
  - apply Rn_loc; exact Hn.
  - contradiction.
Qed.

Lemma run_items_rel picks ns1 ns2 es1 es2 :
  Forall2 Rn ns1 ns2 -> Forall2 Rpe es1 es2 ->
  (forall e, gen_full_cfg picks ns1 = Ok (SErr e) -> cfgerr_located e) ->
  rel_res (Forall2 Rd) (run_items picks ns1 es1) (run_items picks ns2 es2).
Proof.
  intros Hns Hes Hloc. unfold run_items. cbv zeta.
  assert (Hp : Forall2 Rd (map (fun e => mkd (DParse e) [parse_error_loc e] false) es1)
                          (map (fun e => mkd (DParse e) [parse_error_loc e] false) es2)).
  { apply (F2_map Rpe); [exact Hes|]. intros a b Hab. constructor; [constructor; exact Hab|].
    constructor; [apply parse_error_loc_rel; exact Hab|constructor]. }
  pose proof (gen_full_cfg_rel picks _ _ Hns) as Hg.
  destruct Hg as [r1 r2 Hr|s|]; cbn [bind]; [|constructor|constructor].
  destruct Hr as [g1 g2 Hg|e1 e2 He]; constructor; (apply F2_app; [exact Hp|]).
  - apply (F2_map Rl); [apply run_diagnostics_rel; exact Hg|]. intros a b Hab. destruct Hab. cbn. constructor; [constructor|assumption].
  - constructor; [|constructor]. constructor; [constructor; exact He|].
    constructor; [|constructor]. apply cfg_error_loc_rel; [exact He|]. apply Hloc. reflexivity.
Qed.
End Lints.
