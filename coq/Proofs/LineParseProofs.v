(* C07, parser level: "a bad line affects only itself".
   A single file whose text is A ++ M ++ B, with A and M blocks of complete lines that end at a
   statement boundary ([closed]): the nodes and errors of the whole text are, up to positions, those
   of A, of M and of B parsed alone, in this order ([parse_line_local]).  Hence replacing M by any
   other closed block - the empty one, a corrected line - leaves the part of A (exactly) and the part
   of B (up to positions) unchanged ([bad_line_contained], [delete_block]).
   A syntactic criterion for a block to be closed ([line_closed_b]).
   Built on the frame lemmas of IncludeFrame.v (statements do not read past a statement boundary)
   and the position-parametricity of the driver (IncludeRun.v). *)
From RV.Model Require Import Base I32 Imm Lexer Isa Parser Reader.
From RV.Spec Require Import PosSpec ParamSpec LineSpec IncludeSpec.
From RV.Proofs Require Import LexProofs LineProofs TotalProofs IncludeErase IncludeLex IncludeRun
  IncludeFrame IncludeProofs.
From Coq Require Import Lia.
Open Scope nat_scope.

(* ================================================================================== *)
(* 1. closed blocks compose                                                             *)

Lemma closed_from_mono : forall f l k, closed_from f l = true -> closed_from (f + k) l = true.
Proof.
  induction f as [|f IH]; intros l k H; [discriminate|].
  change (S f + k) with (S (f + k)). cbn [closed_from] in H |- *.
  destruct l as [|it l]; [reflexivity|].
  apply andb_true_iff in H. destruct H as [H1 H2]. rewrite H1. cbn [andb].
  destruct (parse_one (it :: l)) as [[x rest]| |]; try discriminate.
  destruct (stmt_next x rest) as [top'|]; [|discriminate]. apply IH. exact H2.
Qed.

(* the next item list of a step is a proper suffix, and still ends with a newline *)
Lemma step_next_shape top x rest top' : last_nl top ->
  parse_one top = Ok (x, rest) -> stmt_next x rest = Some top' -> psuffix top' top /\ last_nl top'.
Proof.
  intros Hl Hp Hn. destruct (parse_one_shape top Hl) as [x1 [rest1 [Hone Hsh]]].
  rewrite Hp in Hone. inversion Hone; subst x1 rest1. unfold step_shape in Hsh.
  assert (Hs : psuffix top' top).
  { destruct x as [er|nd].
    - rewrite stmt_next_next_top in Hn. rewrite Hn in Hsh. exact Hsh.
    - cbn [stmt_next] in Hn. inversion Hn; subst. exact Hsh. }
  split; [exact Hs|apply (psuffix_last_nl _ _ Hs Hl)].
Qed.

(* the fuel of the boolean [closed] is enough *)
Lemma closedP_closed_gen : forall n items, length items <= n -> last_nl items -> closedP items ->
  closed_from (S n) items = true.
Proof.
  induction n as [|n IH]; intros items Hlen Hl Hc.
  - destruct items; [reflexivity|cbn [length] in Hlen; lia].
  - destruct items as [|it l]; [reflexivity|].
    destruct (closedP_step (it :: l) Hc ltac:(discriminate)) as [Hopen [x [rest [top' [Hp [Hn Hc']]]]]].
    destruct (step_next_shape _ _ _ _ Hl Hp Hn) as [Hs Hl'].
    pose proof (psuffix_len _ _ Hs) as Hlt.
    change (closed_from (S (S n)) (it :: l)) with
      (negb (open_stmt (it :: l)) &&
       match parse_one (it :: l) with
       | Ok (x, rest) => match stmt_next x rest with Some items' => closed_from (S n) items' | None => false end
       | _ => false
       end)%bool.
    rewrite Hopen, Hp, Hn. cbn [negb andb]. apply IH; [lia|exact Hl'|exact Hc'].
Qed.

Lemma closedP_closed items : last_nl items -> closedP items -> closed items = true.
Proof. intros Hl Hc. unfold closed. apply closedP_closed_gen; [lia|exact Hl|exact Hc]. Qed.

Lemma forallb_app_false {A} (f : A -> bool) l X : forallb f l = false -> forallb f (l ++ X) = false.
Proof. intros H. rewrite forallb_app, H. reflexivity. Qed.
Lemma existsb_app_true {A} (f : A -> bool) l X : existsb f l = true -> existsb f (l ++ X) = true.
Proof. intros H. rewrite existsb_app, H. reflexivity. Qed.

(* a statement that is not open stays so when items are appended *)
Lemma open_stmt_app top X : top <> [] -> open_stmt top = false -> open_stmt (top ++ X) = false.
Proof.
  intros Hne H. destruct top as [|it l]; [contradiction|]. rewrite <- app_comm_cons.
  destruct it as [t| |]; [|reflexivity|reflexivity]. cbn [open_stmt] in H |- *.
  destruct (tt t); try reflexivity. destruct (dir_from_str s) as [dt|]; [|reflexivity].
  destruct dt; cbn [is_data_dir] in H |- *; try reflexivity;
    try (apply forallb_app_false; exact H).
  apply negb_false_iff. apply existsb_app_true. apply negb_false_iff in H. exact H.
Qed.

(* one step of [closed_from] on a closed block followed by X *)
Lemma closed_step_frame top X : En top -> open_stmt top = false ->
  forall x rest top', parse_one top = Ok (x, rest) -> stmt_next x rest = Some top' ->
    parse_one (top ++ X) = Ok (x, rest ++ X) /\ stmt_next x (rest ++ X) = Some (top' ++ X) /\
    open_stmt (top ++ X) = false.
Proof.
  intros He Hopen x rest top' Hp Hn.
  destruct (parse_one_frame top He Hopen) as [x1 [rest1 [Hone [Hfr Hpost]]]].
  rewrite Hp in Hone. inversion Hone; subst x1 rest1.
  destruct (stmt_next_frame X x rest Hpost) as [t1 [Hn1 Hn2]]. rewrite Hn in Hn1. inversion Hn1; subst t1.
  split; [apply Hfr|]. split; [exact Hn2|]. apply open_stmt_app; [apply en_nonempty; exact He|exact Hopen].
Qed.

Lemma closedP_app_gen X : closedP X -> forall f ia, closed_from f ia = true -> last_nl ia -> closedP (ia ++ X).
Proof.
  intros HX. induction f as [|f IH]; intros ia H Hl; [discriminate|].
  destruct Hl as [->|He]; [exact HX|].
  assert (Hc : closedP ia) by (exists (S f); exact H).
  destruct (closedP_step ia Hc (en_nonempty _ He)) as [Hopen _].
  cbn [closed_from] in H. destruct ia as [|it l]; [exfalso; exact (en_nonempty _ He eq_refl)|].
  apply andb_true_iff in H. destruct H as [_ H].
  destruct (parse_one (it :: l)) as [[x rest]| |] eqn:Hp; try discriminate.
  destruct (stmt_next x rest) as [top'|] eqn:Hn; [|discriminate].
  destruct (step_next_shape _ _ _ _ (or_intror He) Hp Hn) as [_ Hl'].
  destruct (closed_step_frame _ X He Hopen x rest top' Hp Hn) as [F1 [F2 F3]].
  destruct (IH top' H Hl') as [f' Hf']. exists (S f').
  change (closed_from (S f') ((it :: l) ++ X)) with
    (match (it :: l) ++ X with
     | [] => true
     | _ => (negb (open_stmt ((it :: l) ++ X)) &&
             match parse_one ((it :: l) ++ X) with
             | Ok (x, rest) => match stmt_next x rest with Some items' => closed_from f' items' | None => false end
             | _ => false
             end)%bool
     end).
  rewrite F1, F2, F3. cbn [negb andb app]. exact Hf'.
Qed.

Lemma closedP_app ia X : last_nl ia -> closedP ia -> closedP X -> closedP (ia ++ X).
Proof. intros Hl [f Hf] HX. apply (closedP_app_gen X HX f ia Hf Hl). Qed.

Lemma closedP_app_inv_gen X : forall f ia, closed_from f ia = true -> last_nl ia -> closedP (ia ++ X) -> closedP X.
Proof.
  induction f as [|f IH]; intros ia H Hl HX; [discriminate|].
  destruct Hl as [->|He]; [exact HX|].
  assert (Hc : closedP ia) by (exists (S f); exact H).
  destruct (closedP_step ia Hc (en_nonempty _ He)) as [Hopen _].
  cbn [closed_from] in H. destruct ia as [|it l]; [exfalso; exact (en_nonempty _ He eq_refl)|].
  apply andb_true_iff in H. destruct H as [_ H].
  destruct (parse_one (it :: l)) as [[x rest]| |] eqn:Hp; try discriminate.
  destruct (stmt_next x rest) as [top'|] eqn:Hn; [|discriminate].
  destruct (step_next_shape _ _ _ _ (or_intror He) Hp Hn) as [_ Hl'].
  destruct (closed_step_frame _ X He Hopen x rest top' Hp Hn) as [F1 [F2 F3]].
  destruct (closedP_step ((it :: l) ++ X) HX ltac:(discriminate)) as [_ [x2 [rest2 [top2 [Hp2 [Hn2 Hc2]]]]]].
  rewrite F1 in Hp2. inversion Hp2; subst x2 rest2. rewrite F2 in Hn2. inversion Hn2; subst top2.
  apply (IH top' H Hl' Hc2).
Qed.

Lemma closedP_app_inv ia X : last_nl ia -> closedP ia -> closedP (ia ++ X) -> closedP X.
Proof. intros Hl [f Hf] HX. apply (closedP_app_inv_gen X f ia Hf Hl HX). Qed.

Lemma last_nl_app a b : last_nl a -> last_nl b -> last_nl (a ++ b).
Proof.
  intros Ha [->|[pre [t [-> Ht]]]]; [rewrite app_nil_r; exact Ha|].
  right. exists (a ++ pre), t. split; [rewrite app_assoc; reflexivity|exact Ht].
Qed.

(* ================================================================================== *)
(* 2. a syntactic criterion                                                             *)

(* no statement starting anywhere in the list runs into its end: every data directive is followed,
   somewhere in the list, by an item that is neither a newline nor an immediate; every `.macro` by
   an `.endmacro` or a lexical error *)
Fixpoint no_open (items : list lexitem) : bool :=
  match items with
  | [] => true
  | it :: l => (negb (open_stmt (it :: l)) && no_open l)%bool
  end.

(* the list is empty or its last item is a newline token *)
Definition ends_nl_b (items : list lexitem) : bool :=
  match rev items with
  | [] => true
  | LTok t :: _ => is_newline_tok t
  | _ => false
  end.

Definition line_closed_b (items : list lexitem) : bool := (ends_nl_b items && no_open items)%bool.

(* the plain special case: no data directive and no `.macro` at all *)
Definition plain_item (it : lexitem) : bool :=
  match it with
  | LTok t =>
      match tt t with
      | TDirective d =>
          match dir_from_str d with
          | Some dt => negb (is_data_dir dt || match dt with DMacro => true | _ => false end)
          | None => true
          end
      | _ => true
      end
  | _ => true
  end.
Definition plain_line_b (items : list lexitem) : bool := (ends_nl_b items && forallb plain_item items)%bool.

Lemma ends_nl_b_sound items : ends_nl_b items = true -> last_nl items.
Proof.
  unfold ends_nl_b. destruct (rev items) as [|it r] eqn:Er; intros H.
  - left. rewrite <- (rev_involutive items), Er. reflexivity.
  - destruct it as [t| |]; try discriminate. right. exists (rev r), t. split.
    + rewrite <- (rev_involutive items), Er. reflexivity.
    + unfold is_newline_tok in H. destruct (tt t); try discriminate. reflexivity.
Qed.

Lemma no_open_suffix d : forall l, no_open (d ++ l) = true -> no_open l = true.
Proof.
  induction d as [|a d IH]; intros l H; [exact H|]. cbn [app no_open] in H.
  apply andb_true_iff in H. apply IH. apply H.
Qed.

Lemma no_open_closed_gen : forall n items, length items <= n -> last_nl items -> no_open items = true ->
  closed_from (S n) items = true.
Proof.
  induction n as [|n IH]; intros items Hlen Hl Hno.
  - destruct items; [reflexivity|cbn [length] in Hlen; lia].
  - destruct items as [|it l]; [reflexivity|].
    assert (He : En (it :: l)) by (destruct Hl as [Hl|Hl]; [discriminate|exact Hl]).
    assert (Hopen : open_stmt (it :: l) = false).
    { cbn [no_open] in Hno. apply andb_true_iff in Hno. apply negb_true_iff. apply Hno. }
    destruct (parse_one_frame (it :: l) He Hopen) as [x [rest [Hp [_ Hpost]]]].
    destruct (stmt_next_frame [] x rest Hpost) as [top' [Hn _]].
    destruct (step_next_shape _ _ _ _ Hl Hp Hn) as [Hs Hl'].
    pose proof (psuffix_len _ _ Hs) as Hlt.
    change (closed_from (S (S n)) (it :: l)) with
      (negb (open_stmt (it :: l)) &&
       match parse_one (it :: l) with
       | Ok (x, rest) => match stmt_next x rest with Some items' => closed_from (S n) items' | None => false end
       | _ => false
       end)%bool.
    rewrite Hopen, Hp, Hn. cbn [negb andb]. apply IH; [lia|exact Hl'|].
    destruct Hs as [d [Hd _]]. rewrite Hd in Hno. apply (no_open_suffix d). exact Hno.
Qed.

(* (2) the criterion implies [closed] *)
Theorem line_closed_b_sound items : line_closed_b items = true -> closed items = true.
Proof.
  unfold line_closed_b. intros H. apply andb_true_iff in H. destruct H as [H1 H2].
  unfold closed. apply no_open_closed_gen; [lia|apply ends_nl_b_sound; exact H1|exact H2].
Qed.

Lemma plain_no_open : forall items, forallb plain_item items = true -> no_open items = true.
Proof.
  induction items as [|it l IH]; intros H; [reflexivity|]. cbn [forallb] in H.
  apply andb_true_iff in H. destruct H as [H1 H2]. cbn [no_open]. rewrite (IH H2), andb_true_r.
  apply negb_true_iff. destruct it as [t| |]; try reflexivity. cbn [open_stmt plain_item] in H1 |- *.
  destruct (tt t); try reflexivity. destruct (dir_from_str s) as [dt|]; [|reflexivity].
  destruct dt; cbn [is_data_dir orb negb] in H1 |- *; try reflexivity; discriminate H1.
Qed.

Theorem plain_line_b_sound items : plain_line_b items = true -> closed items = true.
Proof.
  unfold plain_line_b. intros H. apply andb_true_iff in H. destruct H as [H1 H2].
  apply line_closed_b_sound. unfold line_closed_b. rewrite H1, (plain_no_open _ H2). reflexivity.
Qed.

(* conversely: a list that is one open statement is not closed *)
Theorem open_not_closed items : open_stmt items = true -> closed items = false.
Proof.
  intros H. unfold closed. cbn [closed_from]. destruct items as [|it l]; [discriminate H|].
  rewrite H. reflexivity.
Qed.

(* ================================================================================== *)
(* 3. a store in which every import fails: the driver does not depend on it              *)

(* from reader state [rs], every import fails in both stores, alike *)
Definition fail_alike (fs1 fs2 : store) (rs : rstate) : Prop :=
  forall q, exists e, import_file fs1 q rs = (inl e, rs) /\ import_file fs2 q rs = (inl e, rs).

Lemma dstep_fail_alike chk fs1 fs2 ign top rs n e : fail_alike fs1 fs2 rs ->
  dstep chk fs2 ign top rs n e = dstep chk fs1 ign top rs n e /\
  (forall tops rs' n' e', dstep chk fs1 ign top rs n e = Ok (tops, rs', n', e') -> rs' = rs).
Proof.
  intros Hf. unfold dstep. destruct (parse_one top) as [[x rest]| |]; cbn [bind]; try (split; [reflexivity|discriminate]).
  destruct x as [er|nd].
  - split; [reflexivity|]. intros tops rs' n' e' H. inversion H; reflexivity.
  - destruct (if ign then None else include_path nd) as [path|].
    + destruct (Hf (wv path)) as [er [H1 H2]]. rewrite H1, H2. split; [reflexivity|].
      intros tops rs' n' e' H. inversion H; reflexivity.
    + split; [reflexivity|]. intros tops rs' n' e' H. inversion H; reflexivity.
Qed.

Lemma drive_fail_alike chk fs1 fs2 ign rs : fail_alike fs1 fs2 rs ->
  forall f stack n e, drive f chk fs2 ign stack rs n e = drive f chk fs1 ign stack rs n e /\
    (forall ns es rs', drive f chk fs1 ign stack rs n e = Ok (ns, es, rs') -> rs' = rs).
Proof.
  intros Hf. induction f as [|f IH]; intros stack n e; [split; [reflexivity|discriminate]|].
  destruct stack as [|top below].
  - rewrite !drive_nil. split; [reflexivity|]. intros ns es rs' H. inversion H; reflexivity.
  - rewrite !drive_S. destruct (dstep_fail_alike chk fs1 fs2 ign top rs n e Hf) as [H1 H2]. rewrite H1.
    destruct (dstep chk fs1 ign top rs n e) as [[[[tops rs1] n1] e1]| |]; cbn [bind];
      try (split; [reflexivity|discriminate]).
    rewrite (H2 _ _ _ _ eq_refl). apply IH.
Qed.

Lemma run_fail_alike chk fs1 fs2 ign rs stack n e r : fail_alike fs1 fs2 rs ->
  Run chk fs1 ign stack rs n e r -> Run chk fs2 ign stack rs n e r.
Proof.
  intros Hf [f H]. exists f. destruct (drive_fail_alike chk fs1 fs2 ign rs Hf f stack n e) as [H1 _].
  rewrite H1. exact H.
Qed.

Lemma run_fail_rs chk fs1 fs2 ign rs stack n e ns es rs' : fail_alike fs1 fs2 rs ->
  Run chk fs1 ign stack rs n e (ns, es, rs') -> rs' = rs.
Proof.
  intros Hf [f H]. destruct (drive_fail_alike chk fs1 fs2 ign rs Hf f stack n e) as [_ H2]. apply (H2 _ _ _ H).
Qed.

(* the one-file stores *)
Definition one_file (path text : str) : store := [(path, inl text)].

Lemma one_file_assoc path text : assoc_str path (one_file path text) = Some (inl text).
Proof. unfold one_file. cbn [assoc_str]. rewrite str_eqb_refl. reflexivity. Qed.

Lemma one_file_fail_alike path t1 t2 : fail_alike (one_file path t1) (one_file path t2) (mkrs [path]).
Proof.
  intros q. unfold import_file, one_file. cbn [assoc_str imported mem_str].
  destruct (str_eqb q path); cbn [orb]; eexists; split; reflexivity.
Qed.

(* ================================================================================== *)
(* 4. runs on item streams equal up to positions                                         *)

Lemma run_erase chk fs ign stack1 stack2 rs n1 n2 e1 e2 ns1 es1 rs1 ns2 es2 rs2 :
  Forall2 items_eq stack1 stack2 ->
  map erase_node n1 = map erase_node n2 -> map erase_perr e1 = map erase_perr e2 ->
  Run chk fs ign stack1 rs n1 e1 (ns1, es1, rs1) -> Run chk fs ign stack2 rs n2 e2 (ns2, es2, rs2) ->
  map erase_node ns1 = map erase_node ns2 /\ map erase_perr es1 = map erase_perr es2 /\ rs1 = rs2.
Proof.
  intros Hs Hn He [f1 H1] [f2 H2].
  pose proof (drive_mono _ _ _ _ _ _ _ _ _ H1 f2) as G1.
  pose proof (drive_mono _ _ _ _ _ _ _ _ _ H2 f1) as G2. rewrite Nat.add_comm in G2.
  pose proof (drive_erase chk fs ign (f1 + f2) stack1 stack2 rs n1 n2 e1 e2 Hs Hn He) as Ha.
  rewrite G1, G2 in Ha. exact Ha.
Qed.

(* ================================================================================== *)
(* 5. the decomposition of a run over  ia ++ jm ++ jb                                    *)

Section Parts.
  Variables (chk ign : bool) (fs : store) (rs0 : rstate).
  Hypothesis Hfail : fail_alike fs fs rs0.

  Lemma run_parts ia jm jb n0 e0 ns es rs :
    last_nl ia -> closedP ia -> last_nl jm -> closedP jm ->
    Run chk fs ign [ia ++ jm ++ jb] rs0 n0 e0 (ns, es, rs) ->
    exists nA eA nM eM nB eB,
      Run chk fs ign [ia] rs0 [] [] (nA, eA, rs0) /\
      Run chk fs ign [jm] rs0 [] [] (nM, eM, rs0) /\
      Run chk fs ign [jb] rs0 [] [] (nB, eB, rs0) /\
      ns = rev n0 ++ nA ++ nM ++ nB /\ es = rev e0 ++ eA ++ eM ++ eB /\ rs = rs0.
  Proof.
    intros HlA HcA HlM HcM Hr.
    apply (run_block chk fs ign ia _ _ _ _ _ HlA HcA) in Hr. destruct Hr as [ns1 [es1 [rs1 [HrA Hr]]]].
    pose proof (run_fail_rs _ _ _ _ _ _ _ _ _ _ _ Hfail HrA) as E1. subst rs1.
    apply (run_block chk fs ign jm _ _ _ _ _ HlM HcM) in Hr. destruct Hr as [ns2 [es2 [rs2 [HrM HrB]]]].
    pose proof (run_fail_rs _ _ _ _ _ _ _ _ _ _ _ Hfail HrM) as E2. subst rs2.
    pose proof (run_fail_rs _ _ _ _ _ _ _ _ _ _ _ Hfail HrB) as E3. subst rs.
    apply run_acc in HrA. destruct HrA as [nA [eA [HnA [HeA HrA]]]].
    apply run_acc in HrM. destruct HrM as [nM [eM [HnM [HeM HrM]]]].
    apply run_acc in HrB. destruct HrB as [nB [eB [HnB [HeB HrB]]]].
    rewrite rev_involutive in HnM, HeM, HnB, HeB. subst ns1 es1 ns2 es2 ns es.
    exists nA, eA, nM, eM, nB, eB. rewrite <- !app_assoc. repeat split; assumption.
  Qed.
End Parts.

(* ================================================================================== *)
(* 6. one file, text A ++ M ++ B                                                         *)

Lemma pff_one chk ign path text r :
  parse_from_file chk (one_file path text) path ign = Ok r <->
  exists items, lex_all chk (Some 0%N) (normalize_text text) = Ok items /\
                Run chk (one_file path text) ign [items] (mkrs [path]) [entry_node 0] [] r.
Proof. apply pff_run. apply one_file_assoc. Qed.

(* a text parsed alone, seen as a run from empty accumulators in any one-file store *)
Lemma alone chk ign path X T nsX esX rsX iX :
  parse_from_file chk (one_file path X) path ign = Ok (nsX, esX, rsX) ->
  lex_all chk (Some 0%N) (normalize_text X) = Ok iX ->
  exists dX, nsX = entry_node 0 :: dX /\ rsX = mkrs [path] /\
    Run chk (one_file path T) ign [iX] (mkrs [path]) [] [] (dX, esX, mkrs [path]).
Proof.
  intros Hp Hl. apply pff_one in Hp. destruct Hp as [items [Hl' Hr]].
  rewrite Hl in Hl'. inversion Hl'; subst items. clear Hl'.
  pose proof (run_fail_rs _ _ _ _ _ _ _ _ _ _ _ (one_file_fail_alike path X T) Hr) as E. subst rsX.
  apply (run_fail_alike _ _ _ _ _ _ _ _ _ (one_file_fail_alike path X T)) in Hr.
  apply run_acc in Hr. destruct Hr as [dn [de [Hn [He Hr]]]]. cbn [rev app] in Hn, He. subst esX.
  exists dn. repeat split; assumption.
Qed.

(* the items of A ++ M ++ B *)
Lemma lex_three chk file A M B ia im : lines_block A -> lines_block M ->
  lex_all chk file A = Ok ia -> lex_all chk file M = Ok im ->
  exists jm jb iB, lex_all chk file (normalize_text (A ++ M ++ B)) = Ok (ia ++ jm ++ jb) /\
    lex_all chk file (A ++ M) = Ok (ia ++ jm) /\
    items_eq jm im /\ lex_all chk file (normalize_text B) = Ok iB /\ items_eq jb iB.
Proof.
  intros HA HM Hia Him. destruct (lex_total chk file (normalize_text B)) as [iB HiB].
  destruct (lex_block_app chk file M (normalize_text B) im iB HM Him HiB) as [jb1 [H1 [H2 _]]].
  destruct (lex_block_app chk file A (M ++ normalize_text B) ia _ HA Hia H1) as [jb2 [H3 [_ H5]]].
  destruct (lex_block_app chk file A M ia im HA Hia Him) as [jm [H6 [H7 H8]]].
  rewrite (normalize_app A _ HA), (normalize_app M B HM). rewrite H3, H5, map_app, <- H8.
  exists jm, (map (sh_item (count_nl A) (len A)) jb1), iB. split; [reflexivity|]. split; [exact H6|].
  split; [exact H7|]. split; [exact HiB|]. apply (items_eq_trans _ jb1); [apply sh_items_eq|exact H2].
Qed.

Lemma lexed_last chk file X iX : lines_block X -> lex_all chk file X = Ok iX -> last_nl iX.
Proof. apply lexed_block. Qed.

(* the run of the whole text, cut in three, each part a run of its own in any one-file store *)
Lemma parse_parts chk ign path A M B T ia im ns es rs : lines_block A -> lines_block M ->
  lex_all chk (Some 0%N) A = Ok ia -> lex_all chk (Some 0%N) M = Ok im -> closedP ia -> closedP im ->
  parse_from_file chk (one_file path (A ++ M ++ B)) path ign = Ok (ns, es, rs) ->
  exists jm jb iB nA eA nM eM nB eB,
    items_eq jm im /\ lex_all chk (Some 0%N) (normalize_text B) = Ok iB /\ items_eq jb iB /\
    Run chk (one_file path T) ign [ia] (mkrs [path]) [] [] (nA, eA, mkrs [path]) /\
    Run chk (one_file path T) ign [jm] (mkrs [path]) [] [] (nM, eM, mkrs [path]) /\
    Run chk (one_file path T) ign [jb] (mkrs [path]) [] [] (nB, eB, mkrs [path]) /\
    ns = entry_node 0 :: nA ++ nM ++ nB /\ es = eA ++ eM ++ eB.
Proof.
  intros HA HM Hia Him HcA HcM Hp.
  destruct (lex_three chk (Some 0%N) A M B ia im HA HM Hia Him) as [jm [jb [iB [Hl [_ [Hjm [HiB Hjb]]]]]]].
  apply pff_one in Hp. destruct Hp as [items [Hl' Hr]]. rewrite Hl in Hl'. inversion Hl'; subst items. clear Hl'.
  apply (run_fail_alike _ _ _ _ _ _ _ _ _ (one_file_fail_alike path (A ++ M ++ B) T)) in Hr.
  assert (HlM : last_nl jm).
  { apply (last_nl_items_eq im jm (items_eq_sym _ _ Hjm)). apply (lexed_last chk _ M im HM Him). }
  assert (HcM' : closedP jm) by (apply (closedP_items_eq im jm (items_eq_sym _ _ Hjm)); exact HcM).
  destruct (run_parts chk ign (one_file path T) (mkrs [path]) (one_file_fail_alike path T T)
              ia jm jb _ _ _ _ _ (lexed_last chk _ A ia HA Hia) HcA HlM HcM' Hr)
    as [nA [eA [nM [eM [nB [eB [R1 [R2 [R3 [E1 [E2 _]]]]]]]]]]].
  exists jm, jb, iB, nA, eA, nM, eM, nB, eB. repeat split; assumption.
Qed.

(* (1), strong form: the part of A is exactly the parse of A alone; the parts of M and of B are
   those of M and B alone up to positions *)
Theorem parse_line_local_exact chk ign (path A M B : str) : lines_block A -> lines_block M ->
  forall ia im, lex_all chk (Some 0%N) A = Ok ia -> lex_all chk (Some 0%N) M = Ok im ->
    closed ia = true -> closed im = true ->
  forall ns es rs nsA esA rsA nsM esM rsM nsB esB rsB,
    parse_from_file chk (one_file path (A ++ M ++ B)) path ign = Ok (ns, es, rs) ->
    parse_from_file chk (one_file path A) path ign = Ok (nsA, esA, rsA) ->
    parse_from_file chk (one_file path M) path ign = Ok (nsM, esM, rsM) ->
    parse_from_file chk (one_file path B) path ign = Ok (nsB, esB, rsB) ->
    exists bA bM bB nM nB eM eB,
      nsA = entry_node 0 :: bA /\ nsM = entry_node 0 :: bM /\ nsB = entry_node 0 :: bB /\
      ns = entry_node 0 :: bA ++ nM ++ nB /\ es = esA ++ eM ++ eB /\
      map erase_node nM = map erase_node bM /\ map erase_node nB = map erase_node bB /\
      map erase_perr eM = map erase_perr esM /\ map erase_perr eB = map erase_perr esB.
Proof.
  intros HA HM ia im Hia Him HcA HcM ns es rs nsA esA rsA nsM esM rsM nsB esB rsB Hp HpA HpM HpB.
  destruct (parse_parts chk ign path A M B [] ia im ns es rs HA HM Hia Him
              (closed_closedP _ HcA) (closed_closedP _ HcM) Hp)
    as [jm [jb [iB [nA [eA [nM [eM [nB [eB [Hjm [HiB [Hjb [R1 [R2 [R3 [E1 E2]]]]]]]]]]]]]]]].
  assert (HiA : lex_all chk (Some 0%N) (normalize_text A) = Ok ia) by (rewrite (normalize_block A HA); exact Hia).
  assert (HiM : lex_all chk (Some 0%N) (normalize_text M) = Ok im) by (rewrite (normalize_block M HM); exact Him).
  destruct (alone chk ign path A [] _ _ _ _ HpA HiA) as [bA [EA [_ RA]]].
  destruct (alone chk ign path M [] _ _ _ _ HpM HiM) as [bM [EM [_ RM]]].
  destruct (alone chk ign path B [] _ _ _ _ HpB HiB) as [bB [EB [_ RB]]].
  pose proof (run_det _ _ _ _ _ _ _ _ _ R1 RA) as Heq. inversion Heq; subst nA eA. clear Heq.
  destruct (run_erase chk (one_file path []) ign [jm] [im] (mkrs [path]) [] [] [] [] _ _ _ _ _ _
              ltac:(constructor; [exact Hjm|constructor]) eq_refl eq_refl R2 RM) as [M1 [M2 _]].
  destruct (run_erase chk (one_file path []) ign [jb] [iB] (mkrs [path]) [] [] [] [] _ _ _ _ _ _
              ltac:(constructor; [exact Hjb|constructor]) eq_refl eq_refl R3 RB) as [B1 [B2 _]].
  exists bA, bM, bB, nM, nB, eM, eB. repeat split; assumption.
Qed.

(* the hypothesis on A ++ M, given that A is closed, is the hypothesis on M *)
Theorem closed_app_iff chk file (A M : str) ia im iam : lines_block A -> lines_block M ->
  lex_all chk file A = Ok ia -> lex_all chk file M = Ok im -> lex_all chk file (A ++ M) = Ok iam ->
  closed ia = true -> (closed iam = true <-> closed im = true).
Proof.
  intros HA HM Hia Him Hiam HcA.
  destruct (lex_block_app chk file A M ia im HA Hia Him) as [jm [H1 [H2 _]]].
  rewrite Hiam in H1. inversion H1; subst iam. clear H1.
  pose proof (lexed_last chk _ A ia HA Hia) as HlA. pose proof (lexed_last chk _ M im HM Him) as HlM.
  pose proof (last_nl_items_eq im jm (items_eq_sym _ _ H2) HlM) as Hlj.
  split; intros H.
  - apply (closedP_closed _ HlM). apply (closedP_items_eq jm im H2).
    apply (closedP_app_inv ia jm HlA (closed_closedP _ HcA)). apply closed_closedP. exact H.
  - apply closedP_closed; [apply last_nl_app; assumption|].
    apply (closedP_app ia jm HlA (closed_closedP _ HcA)).
    apply (closedP_items_eq im jm (items_eq_sym _ _ H2)). apply closed_closedP. exact H.
Qed.

(* (1) in the form asked: A and A ++ M end at a statement boundary *)
Theorem parse_line_local chk ign (path A M B : str) : lines_block A -> lines_block M ->
  forall ia iam, lex_all chk (Some 0%N) A = Ok ia -> lex_all chk (Some 0%N) (A ++ M) = Ok iam ->
    closed ia = true -> closed iam = true ->
  forall ns es rs nsA esA rsA nsM esM rsM nsB esB rsB,
    parse_from_file chk (one_file path (A ++ M ++ B)) path ign = Ok (ns, es, rs) ->
    parse_from_file chk (one_file path A) path ign = Ok (nsA, esA, rsA) ->
    parse_from_file chk (one_file path M) path ign = Ok (nsM, esM, rsM) ->
    parse_from_file chk (one_file path B) path ign = Ok (nsB, esB, rsB) ->
    exists bA bM bB,
      nsA = entry_node 0 :: bA /\ nsM = entry_node 0 :: bM /\ nsB = entry_node 0 :: bB /\
      map erase_node ns = map erase_node (entry_node 0 :: bA ++ bM ++ bB) /\
      map erase_perr es = map erase_perr (esA ++ esM ++ esB).
Proof.
  intros HA HM ia iam Hia Hiam HcA HcAM ns es rs nsA esA rsA nsM esM rsM nsB esB rsB Hp HpA HpM HpB.
  destruct (lex_total chk (Some 0%N) M) as [im Him].
  assert (HcM : closed im = true).
  { apply (closed_app_iff chk (Some 0%N) A M ia im iam HA HM Hia Him Hiam HcA). exact HcAM. }
  destruct (parse_line_local_exact chk ign path A M B HA HM ia im Hia Him HcA HcM
              _ _ _ _ _ _ _ _ _ _ _ _ Hp HpA HpM HpB)
    as [bA [bM [bB [nM [nB [eM [eB [E1 [E2 [E3 [E4 [E5 [E6 [E7 [E8 E9]]]]]]]]]]]]]]].
  exists bA, bM, bB. split; [exact E1|]. split; [exact E2|]. split; [exact E3|].
  subst ns es. cbn [map]. rewrite !map_app, E6, E7, E8, E9. split; reflexivity.
Qed.

(* for the items of a block of complete lines the newline condition holds by itself *)
Theorem no_open_closed_text chk file (L : str) items : lines_block L -> lex_all chk file L = Ok items ->
  no_open items = true -> closed items = true.
Proof.
  intros HL Hl Hno. unfold closed. apply no_open_closed_gen; [lia|apply (lexed_last chk file L items HL Hl)|exact Hno].
Qed.

(* ================================================================================== *)
(* 7. replacing or deleting the block M                                                 *)

Lemma pff_total_one chk ign path X :
  exists ns es rs, parse_from_file chk (one_file path X) path ign = Ok (ns, es, rs).
Proof. apply parse_total_any_store. Qed.

(* whatever M and M' contain, as long as both end at a statement boundary: the nodes and errors of
   A ++ M ++ B and of A ++ M' ++ B have the same A-part (exactly: it is the parse of A alone) and the
   same B-part up to positions; the middle parts are the parses of M and of M' alone up to positions *)
Theorem bad_line_contained chk ign (path A M M' B : str) :
  lines_block A -> lines_block M -> lines_block M' ->
  forall ia im im', lex_all chk (Some 0%N) A = Ok ia -> lex_all chk (Some 0%N) M = Ok im ->
    lex_all chk (Some 0%N) M' = Ok im' -> closed ia = true -> closed im = true -> closed im' = true ->
  forall ns es rs ns' es' rs',
    parse_from_file chk (one_file path (A ++ M ++ B)) path ign = Ok (ns, es, rs) ->
    parse_from_file chk (one_file path (A ++ M' ++ B)) path ign = Ok (ns', es', rs') ->
    exists bA eA nM eM nB eB nM' eM' nB' eB',
      ns = entry_node 0 :: bA ++ nM ++ nB /\ es = eA ++ eM ++ eB /\
      ns' = entry_node 0 :: bA ++ nM' ++ nB' /\ es' = eA ++ eM' ++ eB' /\
      map erase_node nB = map erase_node nB' /\ map erase_perr eB = map erase_perr eB' /\
      (exists rsA, parse_from_file chk (one_file path A) path ign = Ok (entry_node 0 :: bA, eA, rsA)) /\
      (exists bM esM rsM, parse_from_file chk (one_file path M) path ign = Ok (entry_node 0 :: bM, esM, rsM) /\
         map erase_node nM = map erase_node bM /\ map erase_perr eM = map erase_perr esM) /\
      (exists bM' esM' rsM', parse_from_file chk (one_file path M') path ign = Ok (entry_node 0 :: bM', esM', rsM') /\
         map erase_node nM' = map erase_node bM' /\ map erase_perr eM' = map erase_perr esM').
Proof.
  intros HA HM HM' ia im im' Hia Him Him' HcA HcM HcM' ns es rs ns' es' rs' Hp Hp'.
  destruct (pff_total_one chk ign path A) as [nsA [esA [rsA HpA]]].
  destruct (pff_total_one chk ign path M) as [nsM [esM [rsM HpM]]].
  destruct (pff_total_one chk ign path M') as [nsM' [esM' [rsM' HpM']]].
  destruct (pff_total_one chk ign path B) as [nsB [esB [rsB HpB]]].
  destruct (parse_line_local_exact chk ign path A M B HA HM ia im Hia Him HcA HcM
              _ _ _ _ _ _ _ _ _ _ _ _ Hp HpA HpM HpB)
    as [bA [bM [bB [nM [nB [eM [eB [E1 [E2 [E3 [E4 [E5 [E6 [E7 [E8 E9]]]]]]]]]]]]]]].
  destruct (parse_line_local_exact chk ign path A M' B HA HM' ia im' Hia Him' HcA HcM'
              _ _ _ _ _ _ _ _ _ _ _ _ Hp' HpA HpM' HpB)
    as [bA' [bM' [bB' [nM' [nB' [eM' [eB' [F1 [F2 [F3 [F4 [F5 [F6 [F7 [F8 F9]]]]]]]]]]]]]]].
  rewrite E1 in F1. inversion F1; subst bA'. rewrite E3 in F3. inversion F3; subst bB'.
  exists bA, esA, nM, eM, nB, eB, nM', eM', nB', eB'.
  split; [exact E4|]. split; [exact E5|]. split; [exact F4|]. split; [exact F5|].
  split; [rewrite E7, F7; reflexivity|]. split; [rewrite E9, F9; reflexivity|].
  split; [exists rsA; rewrite <- E1; exact HpA|]. split.
  - exists bM, esM, rsM. rewrite <- E2. repeat split; assumption.
  - exists bM', esM', rsM'. rewrite <- F2. repeat split; assumption.
Qed.

Lemma lex_nil chk file : lex_all chk file [] = Ok [].
Proof. reflexivity. Qed.

Lemma pff_nil chk ign path :
  parse_from_file chk (one_file path []) path ign = Ok ([entry_node 0], [], mkrs [path]).
Proof.
  apply pff_one. exists []. split; [reflexivity|]. exists 2. reflexivity.
Qed.

(* deleting the block M *)
Theorem delete_block chk ign (path A M B : str) : lines_block A -> lines_block M ->
  forall ia im, lex_all chk (Some 0%N) A = Ok ia -> lex_all chk (Some 0%N) M = Ok im ->
    closed ia = true -> closed im = true ->
  forall ns es rs ns' es' rs',
    parse_from_file chk (one_file path (A ++ M ++ B)) path ign = Ok (ns, es, rs) ->
    parse_from_file chk (one_file path (A ++ B)) path ign = Ok (ns', es', rs') ->
    exists bA eA nM eM nB eB nB' eB',
      ns = entry_node 0 :: bA ++ nM ++ nB /\ es = eA ++ eM ++ eB /\
      ns' = entry_node 0 :: bA ++ nB' /\ es' = eA ++ eB' /\
      map erase_node nB = map erase_node nB' /\ map erase_perr eB = map erase_perr eB' /\
      (exists bM esM rsM, parse_from_file chk (one_file path M) path ign = Ok (entry_node 0 :: bM, esM, rsM) /\
         map erase_node nM = map erase_node bM /\ map erase_perr eM = map erase_perr esM).
Proof.
  intros HA HM ia im Hia Him HcA HcM ns es rs ns' es' rs' Hp Hp'.
  destruct (bad_line_contained chk ign path A M [] B HA HM (or_introl eq_refl) ia im [] Hia Him
              (lex_nil chk _) HcA HcM eq_refl ns es rs ns' es' rs' Hp Hp')
    as [bA [eA [nM [eM [nB [eB [nM' [eM' [nB' [eB' [E1 [E2 [E3 [E4 [E5 [E6 [_ [E8 E9]]]]]]]]]]]]]]]]]].
  destruct E9 as [bM' [esM' [rsM' [G1 [G2 G3]]]]]. rewrite pff_nil in G1. inversion G1; subst bM' esM' rsM'.
  apply map_eq_nil in G2. apply map_eq_nil in G3. subst nM' eM'. cbn [app] in E3, E4.
  exists bA, eA, nM, eM, nB, eB, nB', eB'. repeat split; assumption.
Qed.
