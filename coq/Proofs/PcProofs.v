(* C03, dynamic clause (Spec/PcSpec.v): every transfer the program counter can make between nodes
   the dead-code pass has not disconnected is an edge of the finished graph.

   Plan: `kindT` is the static transfer relation of an instruction (fall-through / written label).
   S5 (directions) adds an edge for every static transfer; S6 (dead code) removes edges only
   together with the complete disconnection of one end; S8 (termination) removes the out-edges of
   exit ecalls; S9 (markup) only touches returns; the analyses leave the structure alone. *)
From Coq Require Import List Arith Lia ZifyNat ZifyBool Sorted.
From RV.Model Require Import Base I32 Imm Lexer Isa Parser Cfg Avail Live Lints.
From RV.Spec Require Import CfgSpec PcSpec.
From RV.Proofs Require Import CfgProofs.
Import ListNotations.
Local Open Scope nat_scope.

(* ---------------------------------------------------------------------------------------- *)
(* the static transfer relation                                                              *)
(* ---------------------------------------------------------------------------------------- *)
Definition kindT (labs : list (list (wth str))) (len i j : nat) (n : pnode) : Prop :=
  (j = S i /\ j < len /\ is_return n = false /\ is_unconditional_jump n = false) \/
  (exists l, jumps_to n = Some l /\ flab (wv l) labs 0 = Some j).

Lemma flab_spec s ls : forall i j,
  flab s ls i = Some j <->
  (i <= j /\ (exists l, nth_opt ls (j - i) = Some l /\ mem_name s l = true) /\
   forall k l, k < j - i -> nth_opt ls k = Some l -> mem_name s l = false).
Proof.
  induction ls as [|l0 ls IH]; intros i j; simpl.
  - split; [discriminate|]. intros [_ [[l [Hl _]] _]]. rewrite ?nth_opt_nil in Hl. discriminate.
  - destruct (mem_name s l0) eqn:Hm.
    + split.
      * intros H. inversion H; subst. rewrite Nat.sub_diag. split; [lia|]. split.
        -- exists l0. auto.
        -- intros k l Hk. lia.
      * intros [Hij [[l [Hl Hml]] Hmin]].
        destruct (j - i) as [|d] eqn:Hd.
        -- f_equal. lia.
        -- specialize (Hmin 0 l0 (Nat.lt_0_succ _) eq_refl). congruence.
    + rewrite IH. split.
      * intros [Hij [[l [Hl Hml]] Hmin]]. split; [lia|].
        replace (j - i) with (S (j - S i)) by lia. split.
        -- exists l. auto.
        -- intros k l' Hk Hl'. destruct k as [|k]; simpl in Hl'.
           ++ inversion Hl'; subst; auto.
           ++ apply (Hmin k l'); auto. lia.
      * intros [Hij [[l [Hl Hml]] Hmin]].
        destruct (j - i) as [|d] eqn:Hd.
        -- simpl in Hl. inversion Hl; subst. congruence.
        -- simpl in Hl. split; [lia|]. replace (j - S i) with d by lia. split.
           ++ exists l. auto.
           ++ intros k l' Hk Hl'. apply (Hmin (S k) l'); auto. lia.
Qed.

Lemma label_node_flab g s j : label_node g s j <-> flab s (map clabels (gnodes g)) 0 = Some j.
Proof.
  rewrite flab_spec. rewrite Nat.sub_0_r. unfold label_node, node_at. split.
  - intros [[cj [Hj Hm]] Hmin]. split; [lia|]. split.
    + exists (clabels cj). rewrite nth_opt_map, Hj. auto.
    + intros k l Hk Hl. rewrite nth_opt_map in Hl.
      destruct (nth_opt (gnodes g) k) as [ck|] eqn:Hck; simpl in Hl; inversion Hl; subst.
      apply (Hmin k ck); auto.
  - intros [_ [[l [Hl Hm]] Hmin]]. rewrite nth_opt_map in Hl.
    destruct (nth_opt (gnodes g) j) as [cj|] eqn:Hcj; simpl in Hl; inversion Hl; subst. split.
    + exists cj. auto.
    + intros k ck Hk Hck. apply (Hmin k (clabels ck)); auto. rewrite nth_opt_map, Hck. reflexivity.
Qed.

(* ---------------------------------------------------------------------------------------- *)
(* S5: every static transfer gets its edge                                                   *)
(* ---------------------------------------------------------------------------------------- *)
Lemma add_edge_E_mono g a b x y : E g x y -> E (add_edge g a b) x y.
Proof.
  intros [c [Hc Hy]]. apply (pwe_E _ _ _ _ (add_edge_pwe g a b)). exists c. split; auto.
  cbv beta. destruct (Nat.eqb a x); auto. apply in_ins; auto.
Qed.

Lemma add_edge_E_new g a b : a < length g -> E (add_edge g a b) a b.
Proof.
  intros Ha. destruct (nth_opt_some _ _ Ha) as [c Hc].
  apply (pwe_E _ _ _ _ (add_edge_pwe g a b)). exists c. split; auto.
  cbv beta. rewrite Nat.eqb_refl. apply in_ins; auto.
Qed.

Lemma add_edge_cn g a b : map cn (add_edge g a b) = map cn g.
Proof. eapply pwe_cn. apply add_edge_pwe. Qed.
Lemma add_edge_clabels g a b : map clabels (add_edge g a b) = map clabels g.
Proof. eapply pwe_clabels. apply add_edge_pwe. Qed.
Lemma add_edge_length g a b : length (add_edge g a b) = length g.
Proof. eapply pwe_length. apply add_edge_pwe. Qed.

Definition dir_post (todo : list cnode) (i : nat) (prev : option nat) (g g' : list cnode) : Prop :=
  map cn g' = map cn g /\ map clabels g' = map clabels g /\
  (forall a b, E g a b -> E g' a b) /\
  (forall k c, nth_opt todo k = Some c ->
     (forall l, jumps_to (cn c) = Some l -> exists j, flab (wv l) (map clabels g) 0 = Some j /\ E g' (i + k) j) /\
     (is_return (cn c) = false -> is_unconditional_jump (cn c) = false -> S k < length todo ->
      E g' (i + k) (S (i + k)))) /\
  (forall p, prev = Some p -> todo <> [] -> E g' p i).

Lemma dir_complete : forall todo i prev g g',
  length g = i + length todo ->
  match prev with Some p => p < length g | None => True end ->
  directions_loop todo i prev g = inr g' -> dir_post todo i prev g g'.
Proof.
  induction todo as [|c todo IH]; intros i prev g g' Hlen Hprev H; simpl in H.
  - inversion H; subst. unfold dir_post. split; auto. split; auto. split; auto. split.
    + intros k c Hk. rewrite nth_opt_nil in Hk. discriminate.
    + intros p _ Hn. congruence.
  - simpl in Hlen.
    set (prev' := if (is_return (cn c) || is_unconditional_jump (cn c))%bool then None else Some i) in *.
    assert (Hstep : forall g1, map cn g1 = map cn g -> map clabels g1 = map clabels g ->
              length g1 = length g -> (forall a b, E g a b -> E g1 a b) ->
              directions_loop todo (S i) prev' (match prev with Some p => add_edge g1 p i | None => g1 end) = inr g' ->
              map cn g' = map cn g /\ map clabels g' = map clabels g /\
              (forall a b, E g1 a b -> E g' a b) /\
              (forall k c0, nth_opt todo k = Some c0 ->
                 (forall l, jumps_to (cn c0) = Some l ->
                    exists j, flab (wv l) (map clabels g) 0 = Some j /\ E g' (S i + k) j) /\
                 (is_return (cn c0) = false -> is_unconditional_jump (cn c0) = false -> S k < length todo ->
                  E g' (S i + k) (S (S i + k)))) /\
              (forall p, prev' = Some p -> todo <> [] -> E g' p (S i)) /\
              (forall p, prev = Some p -> E g' p i)).
    { intros g1 Hcn1 Hlab1 Hlen1 Hmono1 Hd.
      set (g2 := match prev with Some p => add_edge g1 p i | None => g1 end) in *.
      assert (Hcn2 : map cn g2 = map cn g1) by (subst g2; destruct prev; auto using add_edge_cn).
      assert (Hlab2 : map clabels g2 = map clabels g1) by (subst g2; destruct prev; auto using add_edge_clabels).
      assert (Hlen2 : length g2 = length g1) by (subst g2; destruct prev; auto using add_edge_length).
      assert (Hmono2 : forall a b, E g1 a b -> E g2 a b).
      { subst g2. destruct prev; auto. intros a b. apply add_edge_E_mono. }
      assert (Hp' : match prev' with Some p => p < length g2 | None => True end).
      { subst prev'. destruct (_ || _)%bool; auto. lia. }
      destruct (IH (S i) prev' g2 g' ltac:(lia) Hp' Hd) as [Hcn' [Hlab' [Hmono' [Htodo' Hprev']]]].
      split. congruence. split. congruence. split. auto. split.
      - intros k c0 Hk. destruct (Htodo' k c0 Hk) as [Hj Hf]. split; auto.
        intros l Hl. destruct (Hj l Hl) as [j [Hfl He]]. exists j. split; auto. congruence.
      - split. auto. intros p Hp. apply Hmono'. subst g2. rewrite Hp.
        apply add_edge_E_new. rewrite Hp in Hprev. lia. }
    assert (Hfin : forall g1, map cn g1 = map cn g -> map clabels g1 = map clabels g ->
              length g1 = length g -> (forall a b, E g a b -> E g1 a b) ->
              (forall l, jumps_to (cn c) = Some l -> exists j, flab (wv l) (map clabels g) 0 = Some j /\ E g1 i j) ->
              directions_loop todo (S i) prev' (match prev with Some p => add_edge g1 p i | None => g1 end) = inr g' ->
              dir_post (c :: todo) i prev g g').
    { intros g1 Hcn1 Hlab1 Hlen1 Hmono1 Hjump Hd.
      destruct (Hstep g1 Hcn1 Hlab1 Hlen1 Hmono1 Hd) as [Hcn' [Hlab' [Hmono' [Htodo' [Hprev' Hprev0]]]]].
      unfold dir_post. split; auto. split; auto. split; auto. split.
      - intros k c0 Hk. destruct k as [|k]; simpl in Hk.
        + inversion Hk; subst c0. rewrite Nat.add_0_r. split.
          * intros l Hl. destruct (Hjump l Hl) as [j [Hf He]]. exists j. auto.
          * intros Hr Hu Hlt. apply Hprev'.
            -- subst prev'. rewrite Hr, Hu. reflexivity.
            -- simpl in Hlt. destruct todo; simpl in Hlt; [lia|discriminate].
        + replace (i + S k) with (S i + k) by lia. destruct (Htodo' k c0 Hk) as [Hj Hf]. split; auto.
          intros Hr Hu Hlt. apply Hf; auto. simpl in Hlt. lia.
      - intros p Hp _. auto. }
    destruct (jumps_to (cn c)) as [label|] eqn:Hj.
    + rewrite find_label_flab in H.
      destruct (flab (wv label) (map clabels g) 0) as [j|] eqn:Hf; [|discriminate].
      apply (Hfin (add_edge g i j)); auto using add_edge_cn, add_edge_clabels, add_edge_length.
      * intros a b. apply add_edge_E_mono.
      * intros l Hl. inversion Hl; subst l. exists j. split; auto. apply add_edge_E_new. lia.
    + apply (Hfin g); auto. intros l Hl. discriminate.
Qed.

Lemma directions_complete g g' : directions g = inr g' ->
  map cn (gnodes g') = map cn (gnodes g) /\ map clabels (gnodes g') = map clabels (gnodes g) /\
  forall a c, nth_opt (gnodes g') a = Some c ->
    (forall b, kindT (map clabels (gnodes g')) (length (gnodes g')) a b (cn c) -> In b (nexts c)) /\
    (forall l, jumps_to (cn c) = Some l -> flab (wv l) (map clabels (gnodes g')) 0 <> None).
Proof.
  unfold directions. intros H.
  destruct (directions_loop _ _ _ _) as [e|ns] eqn:Hd; inversion H; subst; clear H. simpl.
  destruct (dir_complete _ 0 None _ _ eq_refl I Hd) as [Hcn [Hlab [_ [Htodo _]]]].
  split; auto. split; auto.
  assert (Hlen : length ns = length (gnodes g)).
  { rewrite <- (map_length cn ns), Hcn. apply map_length. }
  intros a c Hc.
  assert (Hc0 : exists c0, nth_opt (gnodes g) a = Some c0 /\ cn c0 = cn c).
  { apply (f_equal (fun l => nth_opt l a)) in Hcn. rewrite !nth_opt_map, Hc in Hcn.
    destruct (nth_opt (gnodes g) a) as [c0|]; simpl in Hcn; [|discriminate]. exists c0. split; auto. congruence. }
  destruct Hc0 as [c0 [Hc0 Hcn0]]. destruct (Htodo a c0 Hc0) as [Hj Hf]. simpl in Hj, Hf.
  rewrite Hcn0 in Hj, Hf. rewrite Hlab, Hlen.
  assert (HE : forall b, E ns a b -> In b (nexts c)).
  { intros b [c' [Hc' Hb]]. congruence. }
  split.
  - intros b [[-> [Hlt [Hr Hu]]]|[l [Hl Hfl]]].
    + apply HE. apply Hf; auto.
    + destruct (Hj l Hl) as [j [Hfj He]]. apply HE. congruence.
  - intros l Hl. destruct (Hj l Hl) as [j [Hfj _]]. congruence.
Qed.

(* ---------------------------------------------------------------------------------------- *)
(* the completeness invariant                                                                *)
(* ---------------------------------------------------------------------------------------- *)
(* a disconnected node *)
Definition isoN (g : list cnode) (k : nat) : Prop :=
  exists c, nth_opt g k = Some c /\ prevs c = [] /\ nexts c = [] /\ anchor (cn c) = false.

(* dead ends of the static transfer relation, over the instructions and label sets *)
Inductive deadend (cns : list pnode) (labs : list (list (wth str))) : nat -> Prop :=
| deadend_intro : forall j n, nth_opt cns j = Some n -> anchor n = false ->
    (forall k, kindT labs (length cns) j k n -> deadend cns labs k) -> deadend cns labs j.

(* Gd: the sources the invariant speaks about; X: sources allowed to have lost their out-edges;
   D: what is known of a target disconnected for having no way on; t: the nodes below t are the
   ones that may have been disconnected for having no predecessor *)
Definition Comp (Gd : pnode -> Prop) (X D : nat -> Prop) (t : nat) (g : list cnode) : Prop :=
  forall a c b, nth_opt g a = Some c -> Gd (cn c) ->
    kindT (map clabels g) (length g) a b (cn c) ->
    In b (nexts c) \/ (a < t /\ isoN g a) \/ (isoN g b /\ D b) \/ X a.

Lemma isoN_pwe FN FP g g' k : pwe FN FP g g' ->
  (forall j, FN j [] = []) -> (forall j, FP j [] = []) -> isoN g k -> isoN g' k.
Proof.
  intros Hp HN HP [c [Hc [H1 [H2 H3]]]]. exists (edit (FN k) (FP k) c). split.
  - rewrite Hp, Hc. reflexivity.
  - simpl. rewrite H1, H2, HN, HP. auto.
Qed.

Lemma Comp_pwe Gd (X D : nat -> Prop) t t' FN FP g g' : pwe FN FP g g' -> t <= t' ->
  (forall j, FN j [] = []) -> (forall j, FP j [] = []) ->
  (forall a ca b, nth_opt g a = Some ca -> In b (nexts ca) ->
     In b (FN a (nexts ca)) \/ (a < t' /\ isoN g' a) \/ (isoN g' b /\ D b) \/ X a) ->
  Comp Gd X D t g -> Comp Gd X D t' g'.
Proof.
  intros Hp Ht HN HP Hlost HC a c' b Hc' HG Hk.
  rewrite (pwe_clabels _ _ _ _ Hp), (pwe_length _ _ _ _ Hp) in Hk. rewrite Hp in Hc'.
  destruct (nth_opt g a) as [c|] eqn:Hc; simpl in Hc'; inversion Hc'; subst c'; clear Hc'.
  simpl in *. destruct (HC a c b Hc HG Hk) as [Hin|[[Hlt Hi]|[[Hi Hd]|Hx]]].
  - apply (Hlost a c b Hc Hin).
  - right. left. split. lia. eapply isoN_pwe; eauto.
  - right. right. left. split; auto. eapply isoN_pwe; eauto.
  - auto.
Qed.

Lemma Comp_weaken (Gd Gd' : pnode -> Prop) (X X' D D' : nat -> Prop) t t' g :
  (forall n, Gd' n -> Gd n) -> (forall a, X a -> X' a) -> (forall a, D a -> D' a) -> t <= t' ->
  Comp Gd X D t g -> Comp Gd' X' D' t' g.
Proof.
  intros HG HX HD Ht HC a c b Hc Hg Hk.
  destruct (HC a c b Hc (HG _ Hg) Hk) as [Hin|[[Hlt Hi]|[[Hi Hd]|Hx]]].
  - left. exact Hin.
  - right. left. split; auto. lia.
  - right. right. left. auto.
  - right. right. right. auto.
Qed.

(* the invariant only reads the structure *)
Lemma isoN_core g g' k : map coreB g = map coreB g' -> isoN g k -> isoN g' k.
Proof.
  intros H [c [Hc [H1 [H2 H3]]]]. pose proof (eq_sym H) as H'.
  destruct (core_nth _ _ H' _ _ Hc) as [c' [Hc' Heq]].
  destruct (coreB_fields _ _ Heq) as [E1 [E2 [E3 E4]]].
  exists c'. split; auto. rewrite E1, E3, E4. auto.
Qed.

Lemma Comp_core Gd (X D : nat -> Prop) t g g' : map coreB g = map coreB g' -> Comp Gd X D t g -> Comp Gd X D t g'.
Proof.
  intros H HC a c' b Hc' HG Hk.
  rewrite <- (core_clabels _ _ H) in Hk.
  assert (Hlen : length g' = length g).
  { rewrite <- (map_length coreB g'), <- H. apply map_length. }
  rewrite Hlen in Hk.
  destruct (core_nth _ _ H _ _ Hc') as [c [Hc Heq]].
  destruct (coreB_fields _ _ Heq) as [E1 [E2 [E3 E4]]]. rewrite <- E1 in HG, Hk. rewrite <- E3.
  destruct (HC a c b Hc HG Hk) as [Hin|[[Hlt Hi]|[[Hi Hd]|Hx]]]; auto.
  - right. left. split; auto. eapply isoN_core; eauto.
  - right. right. left. split; auto. eapply isoN_core; eauto.
Qed.

(* ---------------------------------------------------------------------------------------- *)
(* S6: dead code                                                                             *)
(* ---------------------------------------------------------------------------------------- *)
Definition noX : nat -> Prop := fun _ => False.
Definition anyN : pnode -> Prop := fun _ => True.

Lemma dead_step_Comp g t : WF g ->
  Comp anyN noX (deadend (map cn g) (map clabels g)) t g ->
  Comp anyN noX (deadend (map cn g) (map clabels g)) (S t) (dead_step g t).
Proof.
  intros HWF HC. set (D := deadend (map cn g) (map clabels g)) in *.
  unfold dead_step, getn. destruct (nth_opt g t) as [c|] eqn:Hc.
  2:{ eapply Comp_weaken; [..|exact HC]; auto. }
  fold (anchor (cn c)). change (might_terminate (cn c)) with (is_ecall (cn c)). fold (anchor (cn c)).
  destruct (anchor (cn c)) eqn:Hanc.
  { eapply Comp_weaken; [..|exact HC]; auto. }
  set (g1 := match nexts c with [] => _ | _ => g end).
  (* phase 1: a node with no way on loses its predecessors *)
  assert (H1 : WF g1 /\ map cn g1 = map cn g /\ map clabels g1 = map clabels g /\ Comp anyN noX D t g1).
  { subst g1. destruct (nexts c) eqn:Hn; [|auto].
    fold (clear_in g t (prevs c)).
    destruct (clear_in_WF g t c HWF Hc) as [HW1 [Hcn1 Hlab1]]. split; auto. split; auto. split; auto.
    assert (Hnd : NoDup (prevs c)) by (apply srt_NoDup, (proj2 (proj2 (proj1 HWF) _ _ Hc))).
    pose proof (clear_in_pwe g t _ Hnd) as Hp.
    assert (Hit : isoN (clear_in g t (prevs c)) t).
    { exists (edit (fun l => if memn t (prevs c) then del t l else l) (fun l => if Nat.eqb t t then [] else l) c).
      split. rewrite Hp, Hc. reflexivity. simpl. rewrite Hn, Nat.eqb_refl.
      split; auto. split; auto. destruct (memn t (prevs c)); reflexivity. }
    assert (Hdt : D t).
    { apply deadend_intro with (n := cn c); auto.
      - rewrite nth_opt_map, Hc. reflexivity.
      - intros k Hk. rewrite map_length in Hk.
        destruct (HC t c k Hc I Hk) as [Hin|[[Hlt _]|[[_ Hd]|[]]]]; auto.
        + rewrite Hn in Hin. destruct Hin.
        + lia. }
    eapply Comp_pwe; [exact Hp| | | | |exact HC]; auto.
    - intros j; cbv beta. destruct (memn j (prevs c)); reflexivity.
    - intros j; cbv beta. destruct (Nat.eqb t j); reflexivity.
    - intros a ca b Ha Hb. cbv beta.
      destruct (Nat.eq_dec b t) as [->|Hne].
      + right. right. left. auto.
      + left. destruct (memn a (prevs c)); auto. apply in_del; auto. apply (proj1 (proj2 (proj1 HWF) _ _ Ha)). }
  destruct H1 as [HW1 [Hcn1 [Hlab1 HC1]]].
  (* phase 2: a node without predecessors loses its successors *)
  destruct (nth_opt g1 t) as [c1|] eqn:Hc1.
  2:{ eapply Comp_weaken; [..|exact HC1]; auto. }
  destruct (prevs c1) eqn:Hp1.
  2:{ eapply Comp_weaken; [..|exact HC1]; auto. }
  fold (clear_out g1 t (nexts c1)).
  assert (Hnd : NoDup (nexts c1)) by (apply srt_NoDup, (proj1 (proj2 (proj1 HW1) _ _ Hc1))).
  pose proof (clear_out_pwe g1 t _ Hnd) as Hp.
  assert (Hanc1 : anchor (cn c1) = false).
  { apply (f_equal (fun l => nth_opt l t)) in Hcn1. rewrite !nth_opt_map, Hc, Hc1 in Hcn1.
    simpl in Hcn1. inversion Hcn1. congruence. }
  assert (Hit : isoN (clear_out g1 t (nexts c1)) t).
  { exists (edit (fun l => if Nat.eqb t t then [] else l) (fun l => if memn t (nexts c1) then del t l else l) c1).
    split. rewrite Hp, Hc1. reflexivity. simpl. rewrite Hp1, Nat.eqb_refl.
    split. destruct (memn t (nexts c1)); reflexivity. auto. }
  eapply Comp_pwe; [exact Hp| | | | |exact HC1]; auto.
  - intros j; cbv beta. destruct (Nat.eqb t j); reflexivity.
  - intros j; cbv beta. destruct (memn j (nexts c1)); reflexivity.
  - intros a ca b Ha Hb. cbv beta. destruct (Nat.eqb t a) eqn:Hta.
    + apply Nat.eqb_eq in Hta. subst a. right. left. split; auto.
    + auto.
Qed.

Lemma dead_fold_Comp : forall n t g, WF g ->
  Comp anyN noX (deadend (map cn g) (map clabels g)) t g ->
  let g' := fold_left dead_step (seq t n) g in
  WF g' /\ map cn g' = map cn g /\ map clabels g' = map clabels g /\
  Comp anyN noX (deadend (map cn g) (map clabels g)) (t + n) g'.
Proof.
  induction n as [|n IH]; intros t g HWF HC; simpl.
  - rewrite Nat.add_0_r. auto.
  - destruct (dead_step_pres g t HWF) as [HW1 [Hcn1 Hlab1]].
    pose proof (dead_step_Comp g t HWF HC) as HC1.
    rewrite <- Hcn1, <- Hlab1 in HC1.
    destruct (IH (S t) _ HW1 HC1) as [HW2 [Hcn2 [Hlab2 HC2]]].
    split; auto. split. congruence. split. congruence.
    rewrite Hcn1, Hlab1 in HC2. replace (t + S n) with (S t + n) by lia. exact HC2.
Qed.

Lemma dead_code_Comp g : WF (gnodes g) ->
  Comp anyN noX (deadend (map cn (gnodes g)) (map clabels (gnodes g))) 0 (gnodes g) ->
  Comp anyN noX (deadend (map cn (gnodes g)) (map clabels (gnodes g))) (length (gnodes g)) (gnodes (dead_code g)).
Proof.
  intros HWF HC. unfold dead_code; simpl.
  apply (dead_fold_Comp (length (gnodes g)) 0 (gnodes g) HWF HC).
Qed.

(* ---------------------------------------------------------------------------------------- *)
(* S8: termination                                                                           *)
(* ---------------------------------------------------------------------------------------- *)
Definition exitAt (g : list cnode) (a : nat) : Prop :=
  exists c, nth_opt g a = Some c /\ is_program_exit c = true.

Lemma ecall_term_step_Comp Gd (X D : nat -> Prop) t g i : SS g ->
  (forall c, nth_opt g i = Some c -> is_program_exit c = true -> X i) ->
  Comp Gd X D t g -> Comp Gd X D t (ecall_term_step g i).
Proof.
  intros HS HX HC. unfold ecall_term_step, getn.
  destruct (nth_opt g i) as [c|] eqn:Hc; auto.
  destruct (is_program_exit c) eqn:Hx; auto.
  fold (clear_out g i (nexts c)).
  assert (Hnd : NoDup (nexts c)) by (apply srt_NoDup, (proj1 (proj2 HS _ _ Hc))).
  pose proof (clear_out_pwe g i _ Hnd) as Hp.
  eapply Comp_pwe; [exact Hp| | | | |exact HC]; auto.
  - intros j; cbv beta. destruct (Nat.eqb i j); reflexivity.
  - intros j; cbv beta. destruct (memn j (nexts c)); reflexivity.
  - intros a ca b Ha Hb. cbv beta. destruct (Nat.eqb i a) eqn:Hia; auto.
    apply Nat.eqb_eq in Hia. subst a. right. right. right. apply (HX c); auto.
Qed.

Lemma ecall_fold_Comp Gd (X D : nat -> Prop) t g0 : forall L g, SS g -> shr g0 g ->
  (forall a, exitAt g0 a -> X a) ->
  Comp Gd X D t g -> Comp Gd X D t (fold_left ecall_term_step L g).
Proof.
  induction L as [|i L IH]; intros g HS Hs HX HC; simpl; auto.
  destruct (ecall_term_step_post g i HS) as [HS1 [Hs1 _]].
  apply IH; auto.
  - eapply shr_trans; eauto.
  - apply ecall_term_step_Comp; auto.
    intros c Hc Hx. apply HX. destruct (proj2 Hs i c Hc) as [c0 [Hc0 [Ha [Hb _]]]].
    exists c0. split; auto. rewrite <- Hx. apply is_program_exit_ext; auto.
Qed.

Lemma ecall_terminate_Comp Gd (X D : nat -> Prop) t G : SS (gnodes G) ->
  (forall a, exitAt (gnodes G) a -> X a) ->
  Comp Gd X D t (gnodes G) -> Comp Gd X D t (gnodes (ecall_terminate G)).
Proof.
  intros HS HX HC. unfold ecall_terminate; simpl.
  apply (ecall_fold_Comp Gd X D t (gnodes G)); auto. apply shr_refl.
Qed.

(* ---------------------------------------------------------------------------------------- *)
(* S9: markup                                                                                *)
(* ---------------------------------------------------------------------------------------- *)
Definition notMerge : pnode -> Prop := fun n => is_return_merge n = false.

(* the instruction lists before and after: returns may have become return merges *)
Definition rwn (l l' : list pnode) : Prop :=
  length l = length l' /\
  forall a n, nth_opt l a = Some n ->
    exists n', nth_opt l' a = Some n' /\ (n' = n \/ (is_return n = true /\ is_return_merge n' = true)).

Lemma rwn_refl l : rwn l l.
Proof. split; auto. intros a n H. exists n. auto. Qed.

Lemma is_return_merge_not_return n : is_return_merge n = true -> is_return n = false.
Proof. destruct n; simpl; auto; discriminate. Qed.

Lemma rwn_trans l1 l2 l3 : rwn l1 l2 -> rwn l2 l3 -> rwn l1 l3.
Proof.
  intros [L1 H1] [L2 H2]. split. congruence.
  intros a n Hn. destruct (H1 a n Hn) as [n' [Hn' Hr]]. destruct (H2 a n' Hn') as [n'' [Hn'' Hr']].
  exists n''. split; auto.
  destruct Hr as [->|[Hr1 Hr2]]; auto.
  destruct Hr' as [->|[Hr3 Hr4]]; auto.
Qed.

Definition rewr (i ex : nat) (rr : pnode) (j : nat) (x : cnode) : cnode :=
  if Nat.eqb i j then set_cn (set_nexts x [ex]) rr
  else if Nat.eqb ex j then set_prevs x (ins i (prevs x)) else x.

Lemma stepR_nth ex g i c e : i <> ex -> nth_opt g i = Some c -> nth_opt g ex = Some e ->
  forall j, nth_opt (stepR ex g i) j = option_map (rewr i ex (rewritten_return c e) j) (nth_opt g j).
Proof.
  intros Hne Hc He j. unfold stepR, getn. apply Nat.eqb_neq in Hne. rewrite Hne, Hc, He.
  cbv zeta. unfold rewr. rewrite !nth_opt_upd.
  destruct (Nat.eqb ex j) eqn:H1, (Nat.eqb i j) eqn:H2; auto.
  - apply Nat.eqb_eq in H1, H2. apply Nat.eqb_neq in Hne. congruence.
  - destruct (nth_opt g j); reflexivity.
Qed.

Lemma stepR_same ex g i : (i = ex \/ nth_opt g i = None \/ nth_opt g ex = None) -> stepR ex g i = g.
Proof.
  unfold stepR, getn. intros [->|[H|H]].
  - now rewrite Nat.eqb_refl.
  - rewrite H. destruct (Nat.eqb i ex); reflexivity.
  - rewrite H. destruct (Nat.eqb i ex); [|destruct (nth_opt g i)]; reflexivity.
Qed.

Lemma stepR_Comp (X D : nat -> Prop) t ex g i c :
  nth_opt g i = Some c -> is_return (cn c) = true ->
  (forall e, nth_opt g ex = Some e -> is_return (cn e) = true) ->
  Comp notMerge X D t g ->
  Comp notMerge X D t (stepR ex g i) /\ map clabels (stepR ex g i) = map clabels g /\
  rwn (map cn g) (map cn (stepR ex g i)).
Proof.
  intros Hc Hret Hex HC.
  destruct (Nat.eq_dec i ex) as [Hie|Hie].
  { rewrite stepR_same by auto. split; auto. split; auto. apply rwn_refl. }
  destruct (nth_opt g ex) as [e|] eqn:He.
  2:{ rewrite stepR_same by auto. split; auto. split; auto. apply rwn_refl. }
  pose proof (stepR_nth ex g i c e Hie Hc He) as HT.
  set (rr := rewritten_return c e) in *. set (g' := stepR ex g i) in *.
  assert (Hlab : map clabels g' = map clabels g).
  { apply nth_opt_ext. intros j. rewrite !nth_opt_map, HT. destruct (nth_opt g j) as [x|]; simpl; auto.
    unfold rewr. destruct (Nat.eqb i j), (Nat.eqb ex j); reflexivity. }
  assert (Hlen : length g' = length g).
  { rewrite <- (map_length clabels g'), Hlab. apply map_length. }
  assert (Hiso : forall k, isoN g k -> isoN g' k).
  { intros k [x [Hx [H1 [H2 H3]]]]. exists (rewr i ex rr k x). split. rewrite HT, Hx. reflexivity.
    unfold rewr. destruct (Nat.eqb i k) eqn:Hik.
    - apply Nat.eqb_eq in Hik. subst k. rewrite Hc in Hx. inversion Hx; subst x.
      unfold anchor in H3. rewrite Hret in H3. discriminate.
    - destruct (Nat.eqb ex k) eqn:Hek; auto.
      apply Nat.eqb_eq in Hek. subst k. rewrite He in Hx. inversion Hx; subst x.
      unfold anchor in H3. rewrite (Hex e eq_refl) in H3. discriminate. }
  split; [|split; auto].
  - intros a c' b Hc' HG Hk. rewrite Hlab, Hlen in Hk. rewrite HT in Hc'.
    destruct (nth_opt g a) as [ca|] eqn:Ha; simpl in Hc'; inversion Hc'; subst c'; clear Hc'.
    unfold rewr in *. destruct (Nat.eqb i a) eqn:Hia.
    + simpl in HG. unfold notMerge in HG. subst rr. rewrite is_return_merge_rewritten in HG. discriminate.
    + assert (Hcn : cn (if Nat.eqb ex a then set_prevs ca (ins i (prevs ca)) else ca) = cn ca)
        by (destruct (Nat.eqb ex a); reflexivity).
      assert (Hnx : nexts (if Nat.eqb ex a then set_prevs ca (ins i (prevs ca)) else ca) = nexts ca)
        by (destruct (Nat.eqb ex a); reflexivity).
      rewrite Hcn in HG, Hk. rewrite Hnx.
      destruct (HC a ca b Ha HG Hk) as [Hin|[[Hlt Hi]|[[Hi Hd]|Hx]]].
      * left. exact Hin.
      * right. left. split; auto.
      * right. right. left. split; auto.
      * right. right. right. exact Hx.
  - split. now rewrite !map_length.
    intros a n Hn. rewrite nth_opt_map in Hn. rewrite nth_opt_map, HT.
    destruct (nth_opt g a) as [ca|] eqn:Ha; simpl in Hn; inversion Hn; subst n; clear Hn. simpl.
    eexists. split. reflexivity. unfold rewr. destruct (Nat.eqb i a) eqn:Hia.
    + apply Nat.eqb_eq in Hia. subst a. rewrite Hc in Ha. inversion Ha; subst ca.
      right. split; auto.
    + left. destruct (Nat.eqb ex a); reflexivity.
Qed.

Lemma stepR_cn_other ex g i k ck : k <> i -> nth_opt g k = Some ck ->
  exists ck', nth_opt (stepR ex g i) k = Some ck' /\ cn ck' = cn ck.
Proof.
  intros Hk Hck.
  destruct (Nat.eq_dec i ex) as [Hie|Hie]. { rewrite stepR_same by auto. eauto. }
  destruct (nth_opt g i) as [c|] eqn:Hc. 2:{ rewrite stepR_same by auto. eauto. }
  destruct (nth_opt g ex) as [e|] eqn:He. 2:{ rewrite stepR_same by auto. eauto. }
  rewrite (stepR_nth ex g i c e Hie Hc He), Hck. simpl. eexists. split. reflexivity.
  unfold rewr. apply not_eq_sym, Nat.eqb_neq in Hk. rewrite Hk.
  destruct (Nat.eqb ex k); reflexivity.
Qed.

Lemma stepR_fold_Comp (X D : nat -> Prop) t ex : forall rets g, NoDup rets ->
  (forall k, In k rets -> exists c, nth_opt g k = Some c /\ is_return (cn c) = true) ->
  (forall e, nth_opt g ex = Some e -> is_return (cn e) = true) ->
  Comp notMerge X D t g ->
  let g' := fold_left (stepR ex) rets g in
  Comp notMerge X D t g' /\ map clabels g' = map clabels g /\ rwn (map cn g) (map cn g').
Proof.
  induction rets as [|i rets IH]; intros g Hnd Hrets Hex HC; simpl.
  - split; auto. split; auto. apply rwn_refl.
  - inversion Hnd as [|? ? Hi Hnd']; subst.
    destruct (Hrets i (or_introl eq_refl)) as [c [Hc Hr]].
    destruct (stepR_Comp X D t ex g i c Hc Hr Hex HC) as [HC1 [Hl1 Hw1]].
    destruct (IH (stepR ex g i) Hnd') as [HC2 [Hl2 Hw2]]; auto.
    + intros k Hk. destruct (Hrets k (or_intror Hk)) as [ck [Hck Hrk]].
      assert (Hne : k <> i) by (intros ->; auto).
      destruct (stepR_cn_other ex g i k ck Hne Hck) as [ck' [H1 H2]]. exists ck'. rewrite H2. auto.
    + intros e He. destruct (Nat.eq_dec ex i) as [->|Hne].
      * rewrite stepR_same in He by auto. auto.
      * destruct (nth_opt g ex) as [e0|] eqn:He0.
        -- destruct (stepR_cn_other ex g i ex e0 Hne He0) as [e' [H1 H2]].
           rewrite He in H1. inversion H1; subst e'. rewrite H2. auto.
        -- assert (Hs : stepR ex g i = g) by (apply stepR_same; auto). rewrite Hs in He. congruence.
    + split; auto. split. congruence. eapply rwn_trans; eauto.
Qed.

Lemma rwn_core g g' : map coreB g = map coreB g' -> map cn g = map cn g'.
Proof. apply core_cn. Qed.

Lemma mark_function_Comp (X D : nat -> Prop) t G entry pick G' :
  mark_function G entry pick = inr G' -> Comp notMerge X D t (gnodes G) ->
  Comp notMerge X D t (gnodes G') /\ map clabels (gnodes G') = map clabels (gnodes G) /\
  rwn (map cn (gnodes G)) (map cn (gnodes G')).
Proof.
  unfold mark_function. intros H HC.
  set (ns := gnodes G) in *. set (fid := length (gfuncs G)) in *.
  set (r := reachable ns entry) in *.
  remember (filter (fun i => match getn ns i with Some c => is_return (cn c) | None => false end) r)
    as rets eqn:Hrets.
  assert (Hr : NoDup r) by (apply srt_NoDup, reachable_srt).
  assert (Hnd : NoDup rets) by (subst rets; apply srt_NoDup, srt_filter, reachable_srt).
  assert (Hin : forall k, In k rets -> exists c, nth_opt ns k = Some c /\ is_return (cn c) = true).
  { intros k Hk. subst rets. apply filter_In in Hk. destruct Hk as [Hk1 Hk2].
    unfold getn in Hk2. destruct (nth_opt ns k) as [c|]; [eauto|discriminate]. }
  clear Hrets.
  destruct rets as [|first rest]; [discriminate|].
  set (ex := match pick with Some p => if memn p (first :: rest) then p else first | None => first end) in *.
  assert (Hexin : In ex (first :: rest)).
  { subst ex. destruct pick as [p|]; [|simpl; auto].
    destruct (memn p (first :: rest)) eqn:Hm; [apply memn_In; auto|simpl; auto]. }
  set (defs := fold_left _ r rs_empty) in *.
  set (ns1 := fold_left _ r ns) in *.
  destruct (mark_members fid r ns Hr) as [Hcore Hmem]. fold ns1 in Hcore, Hmem.
  inversion H; subst G'; clear H. simpl.
  pose proof (eq_sym Hcore) as Hcore'.
  assert (HC1 : Comp notMerge X D t ns1) by (eapply Comp_core; eauto).
  assert (Hrets1 : forall k, In k (first :: rest) ->
            exists c, nth_opt ns1 k = Some c /\ is_return (cn c) = true).
  { intros k Hk. destruct (Hin k Hk) as [c [Hc Hret]].
    destruct (proj_nth _ _ _ Hcore k c Hc) as [c1 [Hc1 _]].
    destruct (Hmem k c c1 Hc Hc1) as [H1 _]. exists c1. rewrite H1. auto. }
  assert (Hex1 : forall e, nth_opt ns1 ex = Some e -> is_return (cn e) = true).
  { intros e He. destruct (Hrets1 ex Hexin) as [c [Hc Hrc]]. congruence. }
  destruct (stepR_fold_Comp X D t ex (first :: rest) ns1 Hnd Hrets1 Hex1 HC1) as [HC2 [Hl2 Hw2]].
  split; [exact HC2|]. split.
  - etransitivity; [exact Hl2|]. apply core_clabels. exact Hcore.
  - pose proof (core_cn _ _ Hcore) as Hcn. fold ns. rewrite <- Hcn. exact Hw2.
Qed.

Lemma markup_loop_Comp (X D : nat -> Prop) t : forall entries picks G G',
  markup_loop entries picks G = inr G' -> Comp notMerge X D t (gnodes G) ->
  Comp notMerge X D t (gnodes G') /\ map clabels (gnodes G') = map clabels (gnodes G) /\
  rwn (map cn (gnodes G)) (map cn (gnodes G')).
Proof.
  induction entries as [|e es IH]; intros picks G G' H HC; simpl in H.
  - inversion H; subst. split; auto. split; auto. apply rwn_refl.
  - destruct (mark_function G e (hd_opt picks)) as [err|G1] eqn:Hm; [discriminate|].
    destruct (mark_function_Comp X D t _ _ _ _ Hm HC) as [HC1 [Hl1 Hw1]].
    destruct (IH _ _ _ H HC1) as [HC2 [Hl2 Hw2]].
    split; auto. split. congruence. eapply rwn_trans; eauto.
Qed.


Lemma str_eqb_true : forall a b, str_eqb a b = true -> a = b.
Proof.
  induction a as [|x a IH]; intros [|y b] H; simpl in H; try discriminate; auto.
  apply Bool.andb_true_iff in H. destruct H as [H1 H2]. apply N.eqb_eq in H1. f_equal; auto.
Qed.

(* ---------------------------------------------------------------------------------------- *)
(* a label is carried by one node only (S4 rejects duplicate labels)                          *)
(* ---------------------------------------------------------------------------------------- *)
Definition b2n (b : bool) : nat := if b then 1 else 0.
Definition labs_unique (labs : list (list (wth str))) : Prop :=
  forall s, length (filter (mem_name s) labs) <= 1.

Lemma mem_name_app' s a b : mem_name s (a ++ b) = (mem_name s a || mem_name s b)%bool.
Proof. induction a as [|x a IH]; simpl; auto. rewrite IH. now rewrite Bool.orb_assoc. Qed.

Lemma filter_rev_length {A} (f : A -> bool) l : length (filter f (rev l)) = length (filter f l).
Proof.
  induction l as [|x l IH]; simpl; auto.
  rewrite filter_app, app_length, IH. simpl. destruct (f x); simpl; lia.
Qed.

Lemma str_eqb_refl' s : str_eqb s s = true.
Proof. induction s as [|x s IH]; simpl; auto. now rewrite N.eqb_refl, IH. Qed.

Lemma build_nodes_unique : forall ns cns pd cur all text acc l,
  (forall s, length (filter (mem_name s) (map clabels acc)) + b2n (mem_name s cur) <= b2n (mem_name s all)) ->
  build_nodes ns cns pd cur all text acc = inr l -> labs_unique (map clabels l).
Proof.
  induction ns as [|n ns IH]; intros cns pd cur all text acc l Hinv H; simpl in H.
  - inversion H; subst. intros s. rewrite map_rev, filter_rev_length. specialize (Hinv s).
    destruct (mem_name s all); simpl in Hinv; lia.
  - destruct (label_of n) as [name|].
    { destruct (mem_name (wv name) all) eqn:Hall; [discriminate|].
      assert (Hcur : mem_name (wv name) cur = false).
      { specialize (Hinv (wv name)) as Hn. rewrite Hall in Hn. destruct (mem_name (wv name) cur); simpl in Hn; auto; lia. }
      eapply IH; [|exact H]. intros s. specialize (Hinv s).
      rewrite Hcur. rewrite mem_name_app'. simpl.
      destruct (str_eqb s (wv name)) eqn:Hs.
      - apply str_eqb_true in Hs. subst s. rewrite Hall in Hinv. rewrite Hcur in *. simpl in *. lia.
      - rewrite !Bool.orb_false_r. simpl. exact Hinv. }
    destruct (is_datasec n); [eapply IH; eauto|].
    destruct (is_textsec n); [eapply IH; eauto|].
    destruct (is_directive n); [eapply IH; eauto|].
    destruct (any_in cur cns).
    + eapply IH; [|exact H]. intros s. specialize (Hinv s). simpl.
      destruct (mem_name s cur); simpl in *; lia.
    + eapply IH; [|exact H]. intros s. specialize (Hinv s). simpl.
      destruct (mem_name s cur); simpl in *; lia.
Qed.

Lemma cfg_new_unique ns pd g : cfg_new ns pd = inr g -> labs_unique (map clabels (gnodes g)).
Proof.
  unfold cfg_new. intros H.
  destruct (filter _ _); [|discriminate].
  destruct (build_nodes _ _ _ _ _ _ _) as [e|l] eqn:Hb; [discriminate|].
  inversion H; subst; simpl. eapply build_nodes_unique; [|exact Hb]. intros s. simpl. lia.
Qed.

Lemma filter_le1_unique {A} (f : A -> bool) : forall l i j a b,
  length (filter f l) <= 1 -> nth_opt l i = Some a -> nth_opt l j = Some b ->
  f a = true -> f b = true -> i = j.
Proof.
  induction l as [|x l IH]; intros i j a b Hlen Hi Hj Ha Hb.
  - rewrite nth_opt_nil in Hi. discriminate.
  - assert (Hnone : f x = true -> forall k c, nth_opt l k = Some c -> f c = true -> False).
    { intros Hx k c Hk Hc. simpl in Hlen. rewrite Hx in Hlen. simpl in Hlen.
      assert (Hin : In c (filter f l)) by (apply filter_In; split; auto; eapply nth_opt_In; eauto).
      destruct (filter f l); simpl in *; [auto|lia]. }
    destruct i as [|i], j as [|j]; simpl in Hi, Hj; auto.
    + inversion Hi; subst. exfalso. eapply Hnone; eauto.
    + inversion Hj; subst. exfalso. eapply Hnone; eauto.
    + f_equal. eapply IH; eauto. simpl in Hlen. destruct (f x); simpl in Hlen; lia.
Qed.

(* ---------------------------------------------------------------------------------------- *)
(* the pipeline                                                                              *)
(* ---------------------------------------------------------------------------------------- *)
Lemma upto6_eq picks ns g0 g1 g2 h0 h1 h3 :
  cfg_new ns None = inr g0 -> directions g0 = inr g1 -> avail_pass g1 = Ok g2 ->
  cfg_new ns (Some (interrupt_handler_names g2)) = inr h0 -> directions h0 = inr h1 ->
  avail_pass (dead_code h1) = Ok h3 -> gen_cfg_upto 6 picks ns = Ok (SOk h3).
Proof.
  intros E0 E1 E2 E3 E4 E5. unfold gen_cfg_upto.
  rewrite E0. cbv beta iota. change (N.eqb 6 0) with false. cbv iota.
  rewrite E1. cbv beta iota. change (N.eqb 6 1) with false. cbv iota.
  rewrite E2. unfold bind at 1. cbv beta iota. change (N.eqb 6 2) with false. cbv iota.
  rewrite E3. cbv beta iota. change (N.eqb 6 3) with false. cbv iota.
  rewrite E4. cbv beta iota zeta. change (N.eqb 6 4) with false. change (N.eqb 6 5) with false. cbv iota.
  rewrite E5. unfold bind at 1. cbv beta iota. reflexivity.
Qed.

Lemma shr_length g g' : shr g g' -> length g' = length g.
Proof. intros [H _]. rewrite <- (map_length clabels g'), H. apply map_length. Qed.

Lemma shr_cn g g' : shr g g' -> map cn g' = map cn g.
Proof.
  intros Hs. pose proof (shr_length _ _ Hs) as Hlen. destruct Hs as [_ H].
  apply nth_opt_ext. intros i. rewrite !nth_opt_map.
  destruct (nth_opt g' i) as [c'|] eqn:Hc'.
  - destruct (H i c' Hc') as [c [Hc [Hcn _]]]. rewrite Hc. simpl. congruence.
  - destruct (nth_opt g i) as [c|] eqn:Hc; auto.
    apply nth_opt_lt in Hc. rewrite <- Hlen in Hc. destruct (nth_opt_some _ _ Hc) as [x Hx]. congruence.
Qed.

Lemma exitAt_shr g g' a : shr g g' -> exitAt g a -> exitAt g' a.
Proof.
  intros Hs [c [Hc Hx]]. pose proof (shr_length _ _ Hs) as Hlen.
  apply nth_opt_lt in Hc as Hlt. rewrite <- Hlen in Hlt. destruct (nth_opt_some _ _ Hlt) as [c' Hc'].
  destruct (proj2 Hs a c' Hc') as [c0 [Hc0 [Ha [Hb _]]]].
  exists c'. split; auto. rewrite <- Hx. rewrite Hc in Hc0. inversion Hc0; subst c0.
  apply is_program_exit_ext; auto.
Qed.

Lemma exitAt_coreL g g' a : map coreL g = map coreL g' -> exitAt g a -> exitAt g' a.
Proof.
  intros H [c [Hc Hx]]. pose proof (eq_sym H) as H'.
  destruct (proj_nth _ _ _ H' _ _ Hc) as [c' [Hc' Heq]].
  unfold coreL, coreA in Heq.
  assert (Hb : coreB c' = coreB c) by congruence.
  assert (Hr : rin c' = rin c) by congruence.
  destruct (coreB_fields _ _ Hb) as [H1 _].
  exists c'. split; auto. rewrite <- Hx. apply is_program_exit_ext; auto.
Qed.

Definition resolved (cns : list pnode) (labs : list (list (wth str))) : Prop :=
  forall a n l, nth_opt cns a = Some n -> jumps_to n = Some l -> flab (wv l) labs 0 <> None.

Lemma full_inv picks ns g : gen_full_cfg picks ns = Ok (SOk g) ->
  exists h1 h3 : cfg,
    gen_cfg_upto 6 picks ns = Ok (SOk h3) /\
    SS (gnodes g) /\
    map clabels (gnodes g) = map clabels (gnodes h1) /\
    Comp notMerge (fun a => exitAt (gnodes h3) a \/ exitAt (gnodes g) a)
         (deadend (map cn (gnodes h1)) (map clabels (gnodes h1))) (length (gnodes h1)) (gnodes g) /\
    rwn (map cn (gnodes h1)) (map cn (gnodes g)) /\
    resolved (map cn (gnodes h1)) (map clabels (gnodes h1)) /\
    labs_unique (map clabels (gnodes h1)).
Proof.
  intros H. unfold gen_full_cfg in H.
  destruct (cfg_new ns None) as [e|g0] eqn:H0; [discriminate|].
  assert (W0 : WF (gnodes g0)) by (eapply fresh_WF, cfg_new_fresh; eauto).
  destruct (directions g0) as [e|g1] eqn:H1; [discriminate|].
  apply bind_Ok_inv in H. destruct H as [g2 [H2 H]].
  destruct (cfg_new ns (Some (interrupt_handler_names g2))) as [e|h0] eqn:H3; [discriminate|].
  assert (W3 : WF (gnodes h0)) by (eapply fresh_WF, cfg_new_fresh; eauto).
  destruct (directions h0) as [e|h1] eqn:H4; [discriminate|].
  destruct (directions_pres _ _ H4 W3) as [W4 _].
  cbv zeta in H.
  destruct (dead_code_pres h1 W4) as [W5 [Cn5 Lb5]].
  apply bind_Ok_inv in H. destruct H as [h3 [H6 H]].
  destruct (avail_pass_core _ _ H6) as [C6 _].
  pose proof (coreA_coreB _ _ (eq_sym C6)) as B6.
  destruct (core_pres _ _ B6 W5) as [W6 [Cn6 Lb6]].
  destruct (ecall_terminate_pres h3 W6) as [W7 [Cn7 Lb7]].
  destruct (function_markup picks (ecall_terminate h3)) as [e|h5] eqn:H8; [discriminate|].
  destruct (function_markup_ok (fun _ => True) _ _ _ H8 (proj1 W7) (WF_retN _ W7)) as [S8 [R8 _]].
  apply bind_Ok_inv in H. destruct H as [h6 [H9 H]].
  destruct (avail_pass_core _ _ H9) as [C9 _].
  pose proof (coreA_coreB _ _ (eq_sym C9)) as B9.
  pose proof (core_SS _ _ B9 S8) as S9.
  destruct (ecall_terminate_post h6 S9) as [S10 [Sh10 _]].
  apply bind_Ok_inv in H. destruct H as [h8 [H11 H]]. inversion H; subst g; clear H.
  destruct (liveness_pass_core _ _ H11) as [C11 _].
  pose proof (eq_sym C11) as L11.
  pose proof (coreA_coreB _ _ (coreL_coreA _ _ L11)) as B11.
  exists h1, h3.
  set (X := fun a => exitAt (gnodes h3) a \/ exitAt (gnodes h8) a).
  set (D := deadend (map cn (gnodes h1)) (map clabels (gnodes h1))).
  set (t := length (gnodes h1)).
  destruct (directions_complete _ _ H4) as [_ [Lb4 Hdir]].
  (* S5 *)
  assert (K4 : Comp anyN noX D 0 (gnodes h1)).
  { intros a c b Hc _ Hk. left. apply (proj1 (Hdir a c Hc)). exact Hk. }
  (* S6 *)
  pose proof (dead_code_Comp h1 W4 K4) as K5. fold D t in K5.
  (* S7: value analysis *)
  pose proof (Comp_core _ _ _ _ _ _ B6 K5) as K6.
  (* S8 *)
  assert (K7 : Comp notMerge X D t (gnodes (ecall_terminate h3))).
  { apply ecall_terminate_Comp. apply W6. intros a Ha. left. exact Ha.
    apply (Comp_weaken anyN notMerge noX X D D t t); auto.
    - intros n _. exact I.
    - intros a []. }
  (* S9 *)
  destruct (markup_loop_Comp X D t _ _ _ _ H8 K7) as [K8 [Lb8 Rw8]].
  pose proof (Comp_core _ _ _ _ _ _ B9 K8) as K9'.
  assert (K10 : Comp notMerge X D t (gnodes (ecall_terminate h6))).
  { apply ecall_terminate_Comp; auto. intros a Ha. right.
    eapply exitAt_coreL. exact L11. eapply exitAt_shr; eauto. }
  pose proof (Comp_core _ _ _ _ _ _ B11 K10) as K11.
  split. { eapply upto6_eq; eauto. }
  split. { eapply core_SS; eauto. }
  split.
  { rewrite <- (core_clabels _ _ B11), (proj1 Sh10), <- (core_clabels _ _ B9), Lb8, Lb7, Lb6. exact Lb5. }
  split. exact K11.
  split.
  { rewrite <- (core_cn _ _ B11), (shr_cn _ _ Sh10), <- (core_cn _ _ B9).
    rewrite <- Cn5, <- Cn6, <- Cn7. exact Rw8. }
  split.
  { intros a n l Hn Hl. rewrite nth_opt_map in Hn.
    destruct (nth_opt (gnodes h1) a) as [c|] eqn:Hc; simpl in Hn; inversion Hn; subst n.
    apply (proj2 (Hdir a c Hc) l Hl). }
  rewrite Lb4. eapply cfg_new_unique; eauto.
Qed.

(* ---------------------------------------------------------------------------------------- *)
(* from the ISA-level successor relation to the static transfer relation                      *)
(* ---------------------------------------------------------------------------------------- *)
Lemma next_node_kindT g i j n : next_node g i j -> is_return n = false -> is_unconditional_jump n = false ->
  kindT (map clabels (gnodes g)) (length (gnodes g)) i j n.
Proof. intros [-> Hlt] Hr Hu. left. auto. Qed.

Lemma not_ecall_not_exit c : is_ecall (cn c) = false -> is_program_exit c = false.
Proof. intros H. unfold is_program_exit, known_ecall. now rewrite H. Qed.

Lemma pc_succ_kindT g i j ci : node_at g i ci -> computed_jump (cn ci) = false -> pc_succ g i j ->
  is_return_merge (cn ci) = false /\ is_program_exit ci = false /\
  kindT (map clabels (gnodes g)) (length (gnodes g)) i j (cn ci).
Proof.
  intros Hi Hcj [ci' [Hi' Hs]]. unfold node_at in *. rewrite Hi in Hi'. inversion Hi'; subst ci'; clear Hi'.
  destruct (cn ci) as [f rt|f rt h|ins rd rs1 rs2 rt|ins rd rs1 imm rt|name rt|ins rd name rt
                      |ins rd rs1 imm rt|ins rt|d dt rt|ins rs1 rs2 name rt|ins rs1 rs2 imm rt
                      |ins rd rs1 imm rt|ins rd name rt|ins rd csr rs1 rt|ins rd csr imm rt] eqn:Hcn;
    try (split; [reflexivity|]; split; [apply not_ecall_not_exit; rewrite Hcn; reflexivity|];
         apply next_node_kindT; [exact Hs|reflexivity|reflexivity]).
  - (* jal *)
    destruct (N.eqb (wv rd) 1) eqn:Hrd.
    + apply N.eqb_eq in Hrd. split.
      { simpl. rewrite Hrd. simpl. now rewrite Bool.andb_false_r. }
      split. { apply not_ecall_not_exit; rewrite Hcn; reflexivity. }
      apply next_node_kindT; auto. simpl. unfold reg_is. now rewrite Hrd.
    + destruct (is_return_merge (PJumpLink ins rd name rt)) eqn:Hm; [destruct Hs|].
      split; auto. split. { apply not_ecall_not_exit; rewrite Hcn; reflexivity. }
      right. exists name. split. simpl. unfold reg_is. now rewrite Hrd.
      apply label_node_flab. exact Hs.
  - (* jalr *)
    destruct (is_return (PJumpLinkR ins rd rs1 imm rt)) eqn:Hr; [destruct Hs|].
    destruct (N.eqb (wv rd) 1) eqn:Hrd.
    + apply N.eqb_eq in Hrd. split; [reflexivity|].
      split. { apply not_ecall_not_exit; rewrite Hcn; reflexivity. }
      apply next_node_kindT; auto. simpl. unfold reg_is. now rewrite Hrd.
    + simpl in Hcj. simpl in Hr. rewrite Hr, Hrd in Hcj. discriminate.
  - (* ecall, uret, ebreak *)
    destruct (is_return (PBasic ins rt)) eqn:Hr; [destruct Hs|].
    split; [reflexivity|].
    destruct (is_ecall (PBasic ins rt)) eqn:He.
    + destruct Hs as [Hx Hn]. split; auto. apply next_node_kindT; auto.
    + split. { apply not_ecall_not_exit; rewrite Hcn; exact He. } apply next_node_kindT; auto.
  - (* branch *)
    split; [reflexivity|]. split. { apply not_ecall_not_exit; rewrite Hcn; reflexivity. }
    destruct Hs as [[Hat Hn]|Hl].
    + apply next_node_kindT; auto.
    + right. exists name. split; auto. apply label_node_flab. exact Hl.
Qed.

Lemma isoN_disconnected g k : isoN (gnodes g) k <-> disconnected g k.
Proof. reflexivity. Qed.

Lemma connected_not_disconnected g k : connected g k -> ~ disconnected g k.
Proof.
  intros [c [Hc H]] [c' [Hc' [H1 [H2 H3]]]]. unfold node_at in *. rewrite Hc in Hc'. inversion Hc'; subst c'.
  destruct H as [H|[H|H]]; congruence.
Qed.

(* ---------------------------------------------------------------------------------------- *)
(* dead ends                                                                                 *)
(* ---------------------------------------------------------------------------------------- *)

Lemma mem_name_true' s l : mem_name s l = true -> exists x, In x l /\ wv x = s.
Proof.
  induction l as [|y l IH]; simpl; [discriminate|]. intros H.
  apply Bool.orb_true_iff in H. destruct H as [H|H].
  - apply str_eqb_true in H. exists y. auto.
  - destruct (IH H) as [x [Hx Hw]]. exists x. auto.
Qed.

Lemma may_flow_kindT g j k cj : node_at g j cj -> may_flow g j k ->
  kindT (map clabels (gnodes g)) (length (gnodes g)) j k (cn cj).
Proof.
  intros Hj [c [Hc H]]. unfold node_at in *. rewrite Hj in Hc. inversion Hc; subst c.
  destruct H as [[Hn [Hr Hu]]|[l [Hl Hln]]].
  - apply next_node_kindT; auto.
  - right. exists l. split; auto. apply label_node_flab; auto.
Qed.

Lemma deadend_dead_end g cns0 :
  rwn cns0 (map cn (gnodes g)) -> resolved cns0 (map clabels (gnodes g)) -> reserved_free g ->
  forall j, deadend cns0 (map clabels (gnodes g)) j -> dead_end g j.
Proof.
  intros [Hlen Hrw] Hres Hfree j Hd. rewrite map_length in Hlen.
  induction Hd as [j n Hn Hanc _ IH].
  destruct (Hrw j n Hn) as [n' [Hn' Hr]]. rewrite nth_opt_map in Hn'.
  destruct (nth_opt (gnodes g) j) as [cj|] eqn:Hcj; simpl in Hn'; inversion Hn'; subst n'; clear Hn'.
  assert (Hcn : cn cj = n).
  { destruct Hr as [Hr|[Hr _]]; auto. unfold anchor in Hanc. rewrite Hr in Hanc. discriminate. }
  apply dead_end_intro with (cj := cj); auto.
  - congruence.
  - rewrite Hcn. destruct (is_return_merge n) eqn:Hm; auto. exfalso.
    destruct n; try discriminate.
    pose proof Hm as Hm'. unfold is_return_merge in Hm'.
    apply Bool.andb_true_iff in Hm'. destruct Hm' as [Hm' Hname].
    apply Bool.andb_true_iff in Hm'. destruct Hm' as [_ Hrd]. apply N.eqb_eq in Hrd.
    assert (Hj : jumps_to (PJumpLink i rd name rt) = Some name).
    { simpl. unfold reg_is. rewrite Hrd. reflexivity. }
    pose proof (Hres j _ name Hn Hj) as Hne.
    destruct (flab (wv name) (map clabels (gnodes g)) 0) as [k|] eqn:Hf; [|congruence].
    apply flab_spec in Hf. destruct Hf as [_ [[l [Hl Hml]] _]]. rewrite Nat.sub_0_r in Hl.
    rewrite nth_opt_map in Hl.
    destruct (nth_opt (gnodes g) k) as [ck|] eqn:Hck; simpl in Hl; inversion Hl; subst l.
    apply mem_name_true' in Hml. destruct Hml as [x [Hx Hwx]].
    assert (Hrx : is_reserved x = true).
    { unfold is_reserved, is_return_merge. cbn [wv]. rewrite Hwx, Hname. reflexivity. }
    rewrite (Hfree k ck x Hck Hx) in Hrx. discriminate.
  - intros k Hk. apply IH. rewrite Hlen, <- Hcn. apply may_flow_kindT; auto.
Qed.

Theorem no_dead_end_criterion g :
  (forall j cj, node_at g j cj -> anchor (cn cj) = false -> is_return_merge (cn cj) = false ->
     exists k, may_flow g j k) ->
  forall j, ~ dead_end g j.
Proof.
  intros H j Hd. induction Hd as [j cj Hj Ha Hm _ IH].
  destruct (H j cj Hj Ha Hm) as [k Hk]. exact (IH k Hk).
Qed.

(* ---------------------------------------------------------------------------------------- *)
(* the theorems of Props/C03dyn.v                                                            *)
(* ---------------------------------------------------------------------------------------- *)
(* the sharp form: a transfer is an edge unless one of its ends has been disconnected - the source
   for having no predecessor, the target for being a dead end *)
Theorem transfer_cases : forall picks ns g, gen_full_cfg picks ns = Ok (SOk g) ->
  forall i ci j, node_at g i ci -> computed_jump (cn ci) = false -> ~ early_exit picks ns i ->
    pc_succ g i j ->
    In j (nexts ci) \/ disconnected g i \/ (disconnected g j /\ (reserved_free g -> dead_end g j)).
Proof.
  intros picks ns g H i ci j Hi Hcj Hee Hs.
  destruct (full_inv _ _ _ H) as [h1 [h3 [H6 [HS [Hlab [HC [Hrw [Hres _]]]]]]]].
  destruct (pc_succ_kindT g i j ci Hi Hcj Hs) as [Hm [Hx Hk]].
  assert (Hlen : length (gnodes h1) = length (gnodes g)).
  { destruct Hrw as [Hl _]. now rewrite !map_length in Hl. }
  destruct (HC i ci j Hi Hm Hk) as [Hin|[[_ Hiso]|[[Hiso Hd]|[Hx3|Hxg]]]].
  - auto.
  - right. left. exact Hiso.
  - right. right. split. exact Hiso. intros Hfree.
    apply (deadend_dead_end g (map cn (gnodes h1))); auto; rewrite Hlab; auto.
  - exfalso. apply Hee. destruct Hx3 as [c6 [Hc6 Hx6]]. exists h3, c6. auto.
  - exfalso. destruct Hxg as [c [Hc Hxc]]. unfold node_at in Hi. congruence.
Qed.

Theorem transfers_are_edges : forall picks ns g, gen_full_cfg picks ns = Ok (SOk g) ->
  forall i ci j, node_at g i ci -> connected g i -> computed_jump (cn ci) = false ->
    ~ early_exit picks ns i -> pc_succ g i j -> connected g j -> In j (nexts ci).
Proof.
  intros picks ns g H i ci j Hi Hci Hcj Hee Hs Hcn.
  destruct (transfer_cases picks ns g H i ci j Hi Hcj Hee Hs) as [Hin|[Hd|[Hd _]]]; auto.
  - exfalso. exact (connected_not_disconnected g i Hci Hd).
  - exfalso. exact (connected_not_disconnected g j Hcn Hd).
Qed.

Lemma entry_or_prevs_connected g k c : node_at g k c ->
  (is_any_entry (cn c) = true \/ prevs c <> []) -> connected g k.
Proof.
  intros Hk [He|Hp]; exists c; split; auto. right. right. unfold anchor. rewrite He.
  now rewrite Bool.orb_true_r.
Qed.

Theorem transfers_are_edges_preds : forall picks ns g, gen_full_cfg picks ns = Ok (SOk g) ->
  forall i ci j cj, node_at g i ci -> node_at g j cj ->
    (prevs ci <> [] \/ is_any_entry (cn ci) = true) ->
    (prevs cj <> [] \/ is_any_entry (cn cj) = true) ->
    computed_jump (cn ci) = false -> ~ early_exit picks ns i -> pc_succ g i j -> In j (nexts ci).
Proof.
  intros picks ns g H i ci j cj Hi Hj Hpi Hpj Hcj Hee Hs.
  eapply transfers_are_edges; eauto.
  - eapply entry_or_prevs_connected; eauto. tauto.
  - eapply entry_or_prevs_connected; eauto. tauto.
Qed.

Lemma edge_target g : SS (gnodes g) -> forall i ci j, node_at g i ci -> In j (nexts ci) ->
  exists cj, node_at g j cj /\ prevs cj <> [].
Proof.
  intros [Hsym _] i ci j Hi Hj. destruct (proj1 (Hsym i j)) as [cj [Hcj Hin]]. exists ci; auto.
  exists cj. split; auto. intros Hnil. rewrite Hnil in Hin. destruct Hin.
Qed.

Theorem pc_run_reaches : forall picks ns g, gen_full_cfg picks ns = Ok (SOk g) ->
  forall e ce, node_at g e ce -> is_any_entry (cn ce) = true ->
  forall j, pc_run picks ns g e j ->
    reaches g e j /\ exists cj, node_at g j cj /\ (is_any_entry (cn cj) = true \/ prevs cj <> []).
Proof.
  intros picks ns g H e ce He Hent j Hrun.
  destruct (full_inv _ _ _ H) as [_ [_ [_ [HS _]]]].
  induction Hrun as [|i ci j Hrun IH Hi Hcj Hee Hs Hcn].
  - split. eapply reaches_refl; eauto. exists ce. auto.
  - destruct IH as [Hreach [ci' [Hi' Hep]]].
    assert (ci' = ci) by (unfold node_at in *; congruence). subst ci'.
    assert (Hin : In j (nexts ci)).
    { eapply transfers_are_edges; eauto. eapply entry_or_prevs_connected; eauto. }
    split. eapply reaches_step; eauto.
    destruct (edge_target g HS i ci j Hi Hin) as [cj [Hcj' Hp]]. exists cj. auto.
Qed.

Theorem pc_run_free_reaches : forall picks ns g, gen_full_cfg picks ns = Ok (SOk g) ->
  reserved_free g -> (forall k, ~ dead_end g k) ->
  forall e ce, node_at g e ce -> is_any_entry (cn ce) = true ->
  forall j, pc_run_free picks ns g e j ->
    reaches g e j /\ exists cj, node_at g j cj /\ (is_any_entry (cn cj) = true \/ prevs cj <> []).
Proof.
  intros picks ns g H Hfree Hnde e ce He Hent j Hrun.
  destruct (full_inv _ _ _ H) as [_ [_ [_ [HS _]]]].
  induction Hrun as [|i ci j Hrun IH Hi Hcj Hee Hs].
  - split. eapply reaches_refl; eauto. exists ce. auto.
  - destruct IH as [Hreach [ci' [Hi' Hep]]].
    assert (ci' = ci) by (unfold node_at in *; congruence). subst ci'.
    assert (Hin : In j (nexts ci)).
    { destruct (transfer_cases picks ns g H i ci j Hi Hcj Hee Hs) as [Hin|[Hd|[_ Hd]]]; auto.
      - exfalso. eapply connected_not_disconnected; [|exact Hd]. eapply entry_or_prevs_connected; eauto.
      - exfalso. apply (Hnde j). auto. }
    split. eapply reaches_step; eauto.
    destruct (edge_target g HS i ci j Hi Hin) as [cj [Hcj' Hp]]. exists cj. auto.
Qed.

(* no node an execution passes is what an unreachable-code finding is about *)
Lemma not_reported g j cj : node_at g j cj -> (is_any_entry (cn cj) = true \/ prevs cj <> []) ->
  forall l, In l (lint_control_flow g) -> lcode l = LUnreachableCode ->
    exists k c, node_at g k c /\ lcands l = [loc_of_node (cn c)] /\ prevs c = [] /\
                is_any_entry (cn c) = false /\ k <> j.
Proof.
  intros Hj Hep l Hl Hcode.
  destruct (unreachable_only_without_preds g l Hl Hcode) as [k [c [Hk [Hloc [Hp Hne]]]]].
  exists k, c. repeat split; auto. intros ->. unfold node_at in *.
  assert (c = cj) by congruence. subst c. destruct Hep; congruence.
Qed.

Theorem pc_run_not_unreachable : forall picks ns g, gen_full_cfg picks ns = Ok (SOk g) ->
  forall e ce, node_at g e ce -> is_any_entry (cn ce) = true ->
  forall j, pc_run picks ns g e j ->
  forall l, In l (lint_control_flow g) -> lcode l = LUnreachableCode ->
    exists k c, node_at g k c /\ lcands l = [loc_of_node (cn c)] /\ prevs c = [] /\
                is_any_entry (cn c) = false /\ k <> j.
Proof.
  intros picks ns g H e ce He Hent j Hrun.
  destruct (pc_run_reaches picks ns g H e ce He Hent j Hrun) as [_ [cj [Hj Hep]]].
  eapply not_reported; eauto.
Qed.

Theorem pc_run_free_not_unreachable : forall picks ns g, gen_full_cfg picks ns = Ok (SOk g) ->
  reserved_free g -> (forall k, ~ dead_end g k) ->
  forall e ce, node_at g e ce -> is_any_entry (cn ce) = true ->
  forall j, pc_run_free picks ns g e j ->
  forall l, In l (lint_control_flow g) -> lcode l = LUnreachableCode ->
    exists k c, node_at g k c /\ lcands l = [loc_of_node (cn c)] /\ prevs c = [] /\
                is_any_entry (cn c) = false /\ k <> j.
Proof.
  intros picks ns g H Hfree Hnde e ce He Hent j Hrun.
  destruct (pc_run_free_reaches picks ns g H Hfree Hnde e ce He Hent j Hrun) as [_ [cj [Hj Hep]]].
  eapply not_reported; eauto.
Qed.

(* the node a label denotes is the only one carrying it *)
Theorem label_carrier_unique : forall picks ns g, gen_full_cfg picks ns = Ok (SOk g) ->
  forall s j k cj ck, node_at g j cj -> node_at g k ck ->
    mem_name s (clabels cj) = true -> mem_name s (clabels ck) = true -> j = k.
Proof.
  intros picks ns g H s j k cj ck Hj Hk Hmj Hmk.
  destruct (full_inv _ _ _ H) as [h1 [_ [_ [_ [Hlab [_ [_ [_ Hu]]]]]]]].
  rewrite <- Hlab in Hu. unfold node_at in *.
  apply (filter_le1_unique (mem_name s) (map clabels (gnodes g)) j k (clabels cj) (clabels ck) (Hu s)); auto.
  - rewrite nth_opt_map, Hj. reflexivity.
  - rewrite nth_opt_map, Hk. reflexivity.
Qed.

(* ---------------------------------------------------------------------------------------- *)
(* deciding the side conditions on a concrete graph (used by the examples)                    *)
(* ---------------------------------------------------------------------------------------- *)
Definition next_b (g : cfg) (i j : nat) : bool := (Nat.eqb j (S i) && Nat.ltb j (length (gnodes g)))%bool.
Definition label_b (g : cfg) (s : str) (j : nat) : bool :=
  match find_label s (gnodes g) 0 with Some k => Nat.eqb k j | None => false end.

Definition pc_succ_b (g : cfg) (i j : nat) : bool :=
  match nth_opt (gnodes g) i with
  | None => false
  | Some ci =>
      match cn ci with
      | PBranch ins rs1 rs2 l _ =>
          ((negb (always_taken (wv ins) (wv rs1) (wv rs2)) && next_b g i j) || label_b g (wv l) j)%bool
      | PJumpLink _ rd l _ =>
          if N.eqb (wv rd) 1 then next_b g i j
          else if is_return_merge (cn ci) then false else label_b g (wv l) j
      | PJumpLinkR _ rd _ _ _ =>
          if is_return (cn ci) then false
          else if N.eqb (wv rd) 1 then next_b g i j else Nat.ltb j (length (gnodes g))
      | PBasic _ _ =>
          if is_return (cn ci) then false
          else if is_ecall (cn ci) then (negb (is_program_exit ci) && next_b g i j)%bool
          else next_b g i j
      | _ => next_b g i j
      end
  end.

Lemma next_b_spec g i j : next_b g i j = true <-> next_node g i j.
Proof.
  unfold next_b, next_node. rewrite Bool.andb_true_iff, Nat.eqb_eq, Nat.ltb_lt. tauto.
Qed.

Lemma label_b_spec g s j : label_b g s j = true <-> label_node g s j.
Proof.
  unfold label_b. rewrite label_node_flab, find_label_flab.
  destruct (flab s (map clabels (gnodes g)) 0) as [k|].
  - rewrite Nat.eqb_eq. split; congruence.
  - split; discriminate.
Qed.

Lemma pc_succ_b_spec g i j : pc_succ_b g i j = true <-> pc_succ g i j.
Proof.
  unfold pc_succ_b, pc_succ, node_at.
  destruct (nth_opt (gnodes g) i) as [ci|] eqn:Hi.
  2:{ split; [discriminate|]. intros [c [Hc _]]. discriminate. }
  assert (Hex : forall Q : cnode -> Prop, Q ci <-> exists c, Some ci = Some c /\ Q c).
  { intros Q. split. intros HQ; exists ci; auto. intros [c [Hc HQ]]. inversion Hc; subst; auto. }
  rewrite <- (Hex (fun c => match cn c with
    | PBranch ins rs1 rs2 l _ =>
        (always_taken (wv ins) (wv rs1) (wv rs2) = false /\ next_node g i j) \/ label_node g (wv l) j
    | PJumpLink _ rd l _ =>
        if N.eqb (wv rd) 1 then next_node g i j
        else if is_return_merge (cn c) then False else label_node g (wv l) j
    | PJumpLinkR _ rd _ _ _ =>
        if is_return (cn c) then False
        else if N.eqb (wv rd) 1 then next_node g i j else exists cj, nth_opt (gnodes g) j = Some cj
    | PBasic _ _ =>
        if is_return (cn c) then False
        else if is_ecall (cn c) then is_program_exit c = false /\ next_node g i j else next_node g i j
    | _ => next_node g i j
    end)).
  destruct (cn ci) eqn:Hcn; try apply next_b_spec.
  - destruct (N.eqb (wv rd) 1); [apply next_b_spec|].
    destruct (is_return_merge _); [split; [discriminate|tauto]|apply label_b_spec].
  - destruct (is_return _); [split; [discriminate|tauto]|].
    destruct (N.eqb (wv rd) 1); [apply next_b_spec|].
    rewrite Nat.ltb_lt. split.
    + intros Hlt. apply nth_opt_some; auto.
    + intros [cj Hcj]. eapply nth_opt_lt; eauto.
  - destruct (is_return _); [split; [discriminate|tauto]|].
    destruct (is_ecall _); [|apply next_b_spec].
    rewrite Bool.andb_true_iff, Bool.negb_true_iff, next_b_spec. tauto.
  - rewrite Bool.orb_true_iff, Bool.andb_true_iff, Bool.negb_true_iff, next_b_spec, label_b_spec. tauto.
Qed.

Definition connected_b (g : cfg) (k : nat) : bool :=
  match nth_opt (gnodes g) k with
  | Some c => (match prevs c with [] => false | _ => true end || match nexts c with [] => false | _ => true end
               || anchor (cn c))%bool
  | None => false
  end.

Lemma connected_b_spec g k : connected_b g k = true <-> connected g k.
Proof.
  unfold connected_b, connected, node_at. destruct (nth_opt (gnodes g) k) as [c|].
  - rewrite !Bool.orb_true_iff. split.
    + intros H. exists c. split; auto.
      destruct (prevs c), (nexts c); simpl in H; intuition (try discriminate).
    + intros [c' [Hc H]]. inversion Hc; subst c'.
      destruct (prevs c), (nexts c); simpl; intuition.
  - split; [discriminate|]. intros [c [Hc _]]. discriminate.
Qed.

Definition early_exit_b (picks : list nat) (ns : list pnode) (i : nat) : bool :=
  match gen_cfg_upto 6 picks ns with
  | Ok (SOk g6) => match nth_opt (gnodes g6) i with Some c6 => is_program_exit c6 | None => false end
  | _ => false
  end.

Lemma early_exit_b_spec picks ns i : early_exit_b picks ns i = true <-> early_exit picks ns i.
Proof.
  unfold early_exit_b, early_exit, node_at. split.
  - destruct (gen_cfg_upto 6 picks ns) as [[g6|e]| |]; try discriminate.
    destruct (nth_opt (gnodes g6) i) as [c6|] eqn:Hc; try discriminate.
    intros Hx. exists g6, c6. auto.
  - intros [g6 [c6 [H6 [Hc Hx]]]]. rewrite H6, Hc. exact Hx.
Qed.

(* the ISA reading of `always_taken`: with x0 = 0 the condition holds in every state *)
Lemma inst_eqb_true a b : inst_eqb a b = true -> a = b.
Proof. destruct a, b; intros H; try reflexivity; vm_compute in H; discriminate. Qed.

Lemma always_taken_sound i rs1 rs2 (rd : reg -> Z) : rd 0%N = 0%Z ->
  always_taken i rs1 rs2 = true -> branch_holds i (rd rs1) (rd rs2) = Some true.
Proof.
  intros H0 H. unfold always_taken in H.
  apply Bool.andb_true_iff in H. destruct H as [H Hi].
  apply Bool.andb_true_iff in H. destruct H as [H1 H2].
  apply N.eqb_eq in H1, H2. subst rs1 rs2. rewrite H0.
  apply Bool.orb_true_iff in Hi. destruct Hi as [Hi|Hi].
  - apply Bool.orb_true_iff in Hi. destruct Hi as [Hi|Hi]; apply inst_eqb_true in Hi; subst i; reflexivity.
  - apply inst_eqb_true in Hi. subst i. reflexivity.
Qed.

(* the model's notion of unconditional jump, on a branch, is `always_taken` *)
Lemma always_taken_model ins rs1 rs2 l rt :
  is_unconditional_jump (PBranch ins rs1 rs2 l rt) = always_taken (wv ins) (wv rs1) (wv rs2).
Proof. reflexivity. Qed.

Definition may_flow_b (g : cfg) (i j : nat) : bool :=
  match nth_opt (gnodes g) i with
  | None => false
  | Some ci =>
      ((next_b g i j && negb (is_return (cn ci)) && negb (is_unconditional_jump (cn ci)))
       || match jumps_to (cn ci) with Some l => label_b g (wv l) j | None => false end)%bool
  end.

Lemma may_flow_b_spec g i j : may_flow_b g i j = true -> may_flow g i j.
Proof.
  unfold may_flow_b, may_flow, node_at. destruct (nth_opt (gnodes g) i) as [ci|]; [|discriminate].
  intros H. exists ci. split; auto. apply Bool.orb_true_iff in H. destruct H as [H|H].
  - left. apply Bool.andb_true_iff in H. destruct H as [H H3].
    apply Bool.andb_true_iff in H. destruct H as [H1 H2].
    apply next_b_spec in H1. apply Bool.negb_true_iff in H2, H3. auto.
  - right. destruct (jumps_to (cn ci)) as [l|]; [|discriminate]. exists l. split; auto.
    apply label_b_spec. exact H.
Qed.

Definition no_dead_end_b (g : cfg) : bool :=
  forallb (fun j => match nth_opt (gnodes g) j with
                    | Some cj => (anchor (cn cj) || is_return_merge (cn cj)
                                  || existsb (may_flow_b g j) (seq 0 (length (gnodes g))))%bool
                    | None => true end) (seq 0 (length (gnodes g))).

Lemma no_dead_end_b_spec g : no_dead_end_b g = true -> forall j, ~ dead_end g j.
Proof.
  intros H. apply no_dead_end_criterion. intros j cj Hj Ha Hm.
  unfold no_dead_end_b in H. rewrite forallb_forall in H.
  assert (Hlt : j < length (gnodes g)) by (eapply nth_opt_lt; eauto).
  specialize (H j ltac:(apply in_seq; lia)). unfold node_at in Hj. rewrite Hj, Ha, Hm in H. simpl in H.
  apply existsb_exists in H. destruct H as [k [_ Hk]]. exists k. apply may_flow_b_spec. exact Hk.
Qed.

Definition reserved_free_b (g : cfg) : bool :=
  forallb (fun c => forallb (fun l => negb (is_reserved l)) (clabels c)) (gnodes g).

Lemma reserved_free_b_spec g : reserved_free_b g = true -> reserved_free g.
Proof.
  unfold reserved_free_b, reserved_free, node_at. rewrite forallb_forall. intros H k ck l Hk Hl.
  apply nth_opt_In in Hk. apply H in Hk. rewrite forallb_forall in Hk. apply Hk in Hl.
  now apply Bool.negb_true_iff in Hl.
Qed.

Lemma ee_false picks ns i : negb (early_exit_b picks ns i) = true -> ~ early_exit picks ns i.
Proof. intros Hn He. apply early_exit_b_spec in He. rewrite He in Hn. discriminate. Qed.
