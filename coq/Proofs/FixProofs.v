(* C12 - proofs: the analysis results are a stable fixed point of the pass pipeline.
   Statements are those of Props/C12.v:
     avail_fix_full (avail_fix, avail_fix_fresh: corollaries), passes_frame, ecallterm_idem, rerun_live,
     diags_ignore_udef.
   Also, for Props/C06.v: edgeless_two_sweeps (the value analysis of a graph without edges returns after
   two sweeps).
   The liveness statement without a hypothesis is FALSE of the model (`live_fix_counterexample`: a
   call site whose label maps to a function id without a function is skipped by `live_node`, so its
   live_out is never set); Props/C12.v states it under `calls_resolved`, proved as `live_fix_partial`. *)
From RV.Model Require Import Base I32 Imm Lexer Isa Parser Reader Cfg Avail Live Lints.
From RV.Spec Require Import LiveSpec FixSpec.
From Coq Require Import Lia ZifyN ZifyNat ZifyBool.
Open Scope N_scope.

(* ===== list infrastructure ================================================================ *)

Lemma nth_opt_nil {A} j : @nth_opt A [] j = None.
Proof. destruct j; reflexivity. Qed.

Lemma nth_opt_upd {A} (l : list A) i j f :
  nth_opt (upd l i f) j = if Nat.eqb j i then option_map f (nth_opt l j) else nth_opt l j.
Proof.
  revert i j; induction l as [|x l IH]; intros i j.
  - simpl. rewrite ?nth_opt_nil. destruct (Nat.eqb j i); reflexivity.
  - destruct i, j; simpl; try reflexivity. apply IH.
Qed.

Lemma nth_opt_upd_same {A} (l : list A) i f :
  nth_opt (upd l i f) i = option_map f (nth_opt l i).
Proof. rewrite nth_opt_upd, Nat.eqb_refl. reflexivity. Qed.

Lemma nth_opt_upd_other {A} (l : list A) i j f :
  j <> i -> nth_opt (upd l i f) j = nth_opt l j.
Proof. intros H. rewrite nth_opt_upd. apply Nat.eqb_neq in H. now rewrite H. Qed.

Lemma upd_length {A} (l : list A) i f : length (upd l i f) = length l.
Proof. revert i; induction l; intros [|i]; simpl; auto. Qed.

Lemma upd_id {A} (l : list A) i f :
  (forall x, nth_opt l i = Some x -> f x = x) -> upd l i f = l.
Proof.
  revert i; induction l as [|x l IH]; intros i H; simpl; [reflexivity|].
  destruct i; simpl in *.
  - now rewrite H.
  - f_equal. now apply IH.
Qed.

Lemma nth_opt_some_lt {A} (l : list A) i x : nth_opt l i = Some x -> (i < length l)%nat.
Proof.
  revert i; induction l; intros i H; [rewrite nth_opt_nil in H; discriminate|].
  destruct i; simpl in *; [lia|]. apply IHl in H. lia.
Qed.

Lemma nth_opt_lt_some {A} (l : list A) i : (i < length l)%nat -> exists x, nth_opt l i = Some x.
Proof.
  revert i; induction l; intros i H; simpl in H; [lia|].
  destruct i; simpl; [eauto|]. apply IHl. lia.
Qed.

Lemma nth_opt_none_ge {A} (l : list A) i : nth_opt l i = None -> (length l <= i)%nat.
Proof.
  intros H. destruct (Nat.lt_ge_cases i (length l)) as [L|L]; [|exact L].
  destruct (nth_opt_lt_some l i L) as [x E]. congruence.
Qed.

Lemma nth_opt_ge_none {A} (l : list A) i : (length l <= i)%nat -> nth_opt l i = None.
Proof.
  intros H. destruct (nth_opt l i) eqn:E; [|reflexivity]. apply nth_opt_some_lt in E. lia.
Qed.

Lemma nth_opt_map {A B} (f : A -> B) l i : nth_opt (map f l) i = option_map f (nth_opt l i).
Proof. revert i; induction l; intros [|i]; simpl; auto. Qed.

Lemma nth_opt_In {A} (l : list A) i x : nth_opt l i = Some x -> In x l.
Proof.
  revert i; induction l; intros i H; [rewrite nth_opt_nil in H; discriminate|].
  destruct i; simpl in *; [left; congruence| right; eauto].
Qed.

(* pointwise relations between two node vectors *)
Lemma Forall2_refl {A} (R : A -> A -> Prop) l : (forall x, R x x) -> Forall2 R l l.
Proof. intros H; induction l; constructor; auto. Qed.

Lemma Forall2_trans {A} (R : A -> A -> Prop) l1 l2 l3 :
  (forall x y z, R x y -> R y z -> R x z) -> Forall2 R l1 l2 -> Forall2 R l2 l3 -> Forall2 R l1 l3.
Proof.
  intros T H; revert l3; induction H; intros l3 H3; inversion H3; subst; constructor; eauto.
Qed.

Lemma F2_length {A} {R : A -> A -> Prop} {l l'} : Forall2 R l l' -> length l = length l'.
Proof. induction 1; simpl; congruence. Qed.

Lemma Forall2_upd {A} (R : A -> A -> Prop) l i f :
  (forall x, R x x) -> (forall x, R x (f x)) -> Forall2 R l (upd l i f).
Proof.
  intros Rr Rf; revert i; induction l; intros i; simpl; [constructor|].
  destruct i; constructor; auto. apply Forall2_refl; auto.
Qed.

Lemma Forall2_nth {A} (R : A -> A -> Prop) l l' i c d :
  Forall2 R l l' -> nth_opt l i = Some c -> nth_opt l' i = Some d -> R c d.
Proof.
  intros H; revert i; induction H; intros i H1 H2; [rewrite nth_opt_nil in H1; discriminate|].
  destruct i; simpl in *; [congruence | eauto].
Qed.

Lemma Forall2_nth_l {A} (R : A -> A -> Prop) l l' i c :
  Forall2 R l l' -> nth_opt l i = Some c -> exists d, nth_opt l' i = Some d /\ R c d.
Proof.
  intros H; revert i; induction H; intros i H1; [rewrite nth_opt_nil in H1; discriminate|].
  destruct i; simpl in *; [inversion H1; subst; eauto | eauto].
Qed.

Lemma Forall2_nth_r {A} (R : A -> A -> Prop) l l' i d :
  Forall2 R l l' -> nth_opt l' i = Some d -> exists c, nth_opt l i = Some c /\ R c d.
Proof.
  intros H; revert i; induction H; intros i H1; [rewrite nth_opt_nil in H1; discriminate|].
  destruct i; simpl in *; [inversion H1; subst; eauto | eauto].
Qed.

Lemma Forall2_nth_none {A} (R : A -> A -> Prop) l l' i :
  Forall2 R l l' -> nth_opt l i = None -> nth_opt l' i = None.
Proof.
  intros H E. apply nth_opt_ge_none. rewrite <- (F2_length H). now apply nth_opt_none_ge.
Qed.

Lemma Forall2_of_nth {A} (R : A -> A -> Prop) l l' :
  length l = length l' ->
  (forall i c d, nth_opt l i = Some c -> nth_opt l' i = Some d -> R c d) -> Forall2 R l l'.
Proof.
  revert l'; induction l as [|x l IH]; intros [|y l'] L H; simpl in L; try discriminate; constructor.
  - apply (H 0%nat); reflexivity.
  - apply IH; [lia|]. intros i c d H1 H2. apply (H (S i)); assumption.
Qed.

(* ===== (b) frame: the passes keep nodes, edges, functions ================================== *)

Definition frameR (c d : cnode) : Prop :=
  cn c = cn d /\ clabels c = clabels d /\ ctext c = ctext d /\ nexts c = nexts d /\
  prevs c = prevs d /\ cfuncs c = cfuncs d.

Lemma frameR_refl c : frameR c c.
Proof. repeat split. Qed.
Lemma frameR_trans a b c : frameR a b -> frameR b c -> frameR a c.
Proof. unfold frameR; intuition congruence. Qed.

Lemma frame_upd g i f : (forall x, frameR x (f x)) -> Forall2 frameR g (upd g i f).
Proof. intros; apply Forall2_upd; auto using frameR_refl. Qed.

Lemma frame_trans a b c : Forall2 frameR a b -> Forall2 frameR b c -> Forall2 frameR a c.
Proof. apply Forall2_trans. exact frameR_trans. Qed.

Lemma avail_node_frame g v i g' ch : avail_node g v i = (g', ch) -> Forall2 frameR g g'.
Proof.
  unfold avail_node. destruct (getn g i).
  - destruct (avail_transfer _ _ _). intros H; inversion H; subst.
    apply frame_upd. intros x; repeat split.
  - intros H; inversion H; subst. apply Forall2_refl, frameR_refl.
Qed.

Lemma avail_sweep_frame idx g v ch g' v' ch' :
  avail_sweep idx g v ch = (g', v', ch') -> Forall2 frameR g g'.
Proof.
  revert g v ch; induction idx as [|i idx IH]; intros g v ch H; simpl in H.
  - inversion H; subst. apply Forall2_refl, frameR_refl.
  - destruct (avail_node g v i) eqn:E. apply avail_node_frame in E. apply IH in H.
    eapply frame_trans; eauto.
Qed.

Lemma avail_loop_frame fuel g v g' : avail_loop fuel g v = Ok g' -> Forall2 frameR g g'.
Proof.
  revert g v; induction fuel; intros g v H; simpl in H; [discriminate|].
  destruct (avail_sweep _ g v false) as [[g1 v1] ch] eqn:E. apply avail_sweep_frame in E.
  destruct ch.
  - apply IHfuel in H. eapply frame_trans; eauto.
  - inversion H; subst; auto.
Qed.

Lemma live_node_frame g ns v i ns' ch : live_node g ns v i = (ns', ch) -> Forall2 frameR ns ns'.
Proof.
  unfold live_node. destruct (getn ns i); [|intros H; inversion H; subst; apply Forall2_refl, frameR_refl].
  destruct (calls_to_from_cfg g c).
  - destruct (nth_opt (gfuncs g) n); [|intros H; inversion H; subst; apply Forall2_refl, frameR_refl].
    intros H; inversion H; subst. eapply frame_trans; apply frame_upd; intros x; repeat split.
  - match goal with |- context [let '(li, ud) := ?X in _] => destruct X end.
    intros H; inversion H; subst. apply frame_upd; intros x; repeat split.
Qed.

Lemma live_sweep_frame g idx ns v ch ns' v' ch' :
  live_sweep g idx ns v ch = (ns', v', ch') -> Forall2 frameR ns ns'.
Proof.
  revert ns v ch; induction idx as [|i idx IH]; intros ns v ch H; simpl in H.
  - inversion H; subst. apply Forall2_refl, frameR_refl.
  - destruct (live_node g ns v i) eqn:E. apply live_node_frame in E. apply IH in H.
    eapply frame_trans; eauto.
Qed.

Lemma live_loop_frame fuel g ns v ns' : live_loop fuel g ns v = Ok ns' -> Forall2 frameR ns ns'.
Proof.
  revert ns v; induction fuel; intros ns v H; simpl in H; [discriminate|].
  destruct (live_sweep g _ ns v false) as [[g1 v1] ch] eqn:E. apply live_sweep_frame in E.
  destruct ch.
  - apply IHfuel in H. eapply frame_trans; eauto.
  - inversion H; subst; auto.
Qed.

Lemma avail_pass_inv g g' : avail_pass g = Ok g' ->
  exists ns, avail_loop (avail_fuel g) (gnodes g) [] = Ok ns /\ g' = mkcfg ns (gfuncs g) (glabelfn g).
Proof.
  unfold avail_pass, bind. destruct (avail_loop _ _ _); try discriminate.
  intros H; inversion H; eauto.
Qed.

Lemma liveness_pass_inv g g' : liveness_pass g = Ok g' ->
  exists ns, live_loop (live_fuel g) g (gnodes g) [] = Ok ns /\ g' = mkcfg ns (gfuncs g) (glabelfn g).
Proof.
  unfold liveness_pass, bind. destruct (live_loop _ _ _ _); try discriminate.
  intros H; inversion H; eauto.
Qed.

Theorem passes_frame :
  forall g g', (avail_pass g = Ok g' \/ liveness_pass g = Ok g') ->
    same_edges g g' /\ gfuncs g = gfuncs g' /\ glabelfn g = glabelfn g' /\
    forall i c d, nth_opt (gnodes g) i = Some c -> nth_opt (gnodes g') i = Some d ->
      cn c = cn d /\ clabels c = clabels d /\ cfuncs c = cfuncs d /\ ctext c = ctext d.
Proof.
  intros g g' H.
  assert (F : Forall2 frameR (gnodes g) (gnodes g') /\ gfuncs g = gfuncs g' /\ glabelfn g = glabelfn g').
  { destruct H as [H|H].
    - apply avail_pass_inv in H. destruct H as [ns [H ->]]. simpl.
      apply avail_loop_frame in H. auto.
    - apply liveness_pass_inv in H. destruct H as [ns [H ->]]. simpl.
      apply live_loop_frame in H. auto. }
  destruct F as [F [F1 F2]]. split; [split|split; [exact F1|split; [exact F2|]]].
  - apply (F2_length F).
  - intros i c d H1 H2. pose proof (Forall2_nth _ _ _ _ _ _ F H1 H2) as R.
    unfold frameR in R. tauto.
  - intros i c d H1 H2. pose proof (Forall2_nth _ _ _ _ _ _ F H1 H2) as R.
    unfold frameR in R. tauto.
Qed.

(* ===== (c) ecall termination is idempotent ================================================ *)

Lemma set_nexts_id x : nexts x = [] -> set_nexts x [] = x.
Proof. destruct x; simpl; intros ->; reflexivity. Qed.

(* what a step may change: prevs of any node, nexts of node i only (to []) *)
Definition termR (c d : cnode) : Prop := cn c = cn d /\ rin c = rin d /\ (nexts d = nexts c \/ nexts d = []).

Lemma termR_refl c : termR c c.
Proof. repeat split; auto. Qed.
Lemma termR_trans a b c : termR a b -> termR b c -> termR a c.
Proof. unfold termR; intros [A1 [A2 A3]] [B1 [B2 B3]]. repeat split; try congruence.
  destruct B3 as [B3|B3]; [rewrite B3; exact A3 | auto]. Qed.

Lemma is_program_exit_R c d : cn c = cn d -> rin c = rin d -> is_program_exit c = is_program_exit d.
Proof. unfold is_program_exit, known_ecall. intros -> ->. reflexivity. Qed.

Lemma fold_prevs_termR (f : cnode -> list nat) l g :
  Forall2 termR g (fold_left (fun g n => upd g n (fun x => set_prevs x (f x))) l g).
Proof.
  revert g; induction l as [|n l IH]; intros g; simpl; [apply Forall2_refl, termR_refl|].
  eapply Forall2_trans; [exact termR_trans | | apply IH].
  apply Forall2_upd; [exact termR_refl|]. intros x; repeat split; auto.
Qed.

Lemma ecall_step_termR g i : Forall2 termR g (ecall_term_step g i).
Proof.
  unfold ecall_term_step. destruct (getn g i); [|apply Forall2_refl, termR_refl].
  destruct (is_program_exit c); [|apply Forall2_refl, termR_refl].
  eapply Forall2_trans; [exact termR_trans | apply (fold_prevs_termR (fun x => del i (prevs x))) |].
  apply Forall2_upd; [exact termR_refl|]. intros x; repeat split; auto.
Qed.

Lemma ecall_step_at g i d :
  nth_opt (ecall_term_step g i) i = Some d -> is_program_exit d = true -> nexts d = [].
Proof.
  unfold ecall_term_step, getn. destruct (nth_opt g i) eqn:E.
  - destruct (is_program_exit c) eqn:P.
    + rewrite nth_opt_upd_same. destruct (nth_opt (fold_left _ _ _) i); simpl; [|discriminate].
      intros H; inversion H; subst. reflexivity.
    + intros H. rewrite E in H. inversion H; subst. congruence.
  - intros H; rewrite E in H; discriminate.
Qed.

Definition exits_done (k : nat) (g : list cnode) : Prop :=
  forall i c, (i < k)%nat -> nth_opt g i = Some c -> is_program_exit c = true -> nexts c = [].

Lemma ecall_fold_done n k g :
  exits_done k g -> exits_done (k + n) (fold_left ecall_term_step (seq k n) g).
Proof.
  revert k g; induction n; intros k g H; simpl.
  - replace (k + 0)%nat with k by lia. exact H.
  - replace (k + S n)%nat with (S k + n)%nat by lia. apply IHn.
    intros i d L E P. pose proof (ecall_step_termR g k) as R.
    destruct (Nat.eq_dec i k) as [->|N].
    + eapply ecall_step_at; eauto.
    + destruct (Forall2_nth_r _ _ _ _ _ R E) as [c [Ec [R1 [R2 R3]]]].
      destruct R3 as [R3|R3]; [|exact R3]. rewrite R3. apply (H i c); [lia|exact Ec|].
      rewrite (is_program_exit_R c d); auto.
Qed.

Lemma ecall_step_id g i : exits_done (length g) g -> ecall_term_step g i = g.
Proof.
  intros H. unfold ecall_term_step, getn. destruct (nth_opt g i) eqn:E; [|reflexivity].
  destruct (is_program_exit c) eqn:P; [|reflexivity].
  assert (N : nexts c = []) by (eapply H; eauto using nth_opt_some_lt).
  rewrite N. simpl. apply upd_id. intros x Ex. apply set_nexts_id. congruence.
Qed.

Lemma ecall_fold_id idx g : exits_done (length g) g -> fold_left ecall_term_step idx g = g.
Proof.
  intros H; induction idx; simpl; [reflexivity|]. rewrite ecall_step_id; auto.
Qed.

Theorem ecallterm_idem : forall g, ecall_terminate (ecall_terminate g) = ecall_terminate g.
Proof.
  intros g. unfold ecall_terminate. simpl. f_equal.
  apply ecall_fold_id.
  pose proof (ecall_fold_done (length (gnodes g)) 0 (gnodes g)) as D.
  assert (L : length (fold_left ecall_term_step (seq 0 (length (gnodes g))) (gnodes g)) = length (gnodes g)).
  { generalize (seq 0 (length (gnodes g))). intros idx. generalize (gnodes g).
    induction idx; intros l; simpl; [reflexivity|]. rewrite IHidx.
    symmetry. apply (F2_length (ecall_step_termR l a)). }
  rewrite L. apply D. intros i c Hi. lia.
Qed.

(* ===== (d) liveness ======================================================================= *)

(* bit-set algebra *)
Lemma lor_absorb a b : subset a b -> N.lor a b = b.
Proof.
  intros H. apply N.bits_inj. intros n. rewrite N.lor_spec.
  destruct (N.testbit a n) eqn:E; [rewrite (H n E)|]; reflexivity.
Qed.
Lemma lor_absorb_r a b : subset a b -> N.lor b a = b.
Proof. intros H. rewrite N.lor_comm. now apply lor_absorb. Qed.
Lemma lor_subset a b : N.lor a b = b -> subset a b.
Proof.
  intros H n E. rewrite <- H, N.lor_spec, E. reflexivity.
Qed.
Lemma lor_swap a b c : N.lor (N.lor a b) c = N.lor (N.lor a c) b.
Proof. rewrite <- !N.lor_assoc. f_equal. apply N.lor_comm. Qed.
Lemma lor_rot a b c : N.lor (N.lor a b) c = N.lor (N.lor b c) a.
Proof. rewrite (N.lor_comm (N.lor b c) a), N.lor_assoc. reflexivity. Qed.

Lemma set_live_id x : set_live x (lin x) (lout x) (udef x) = x.
Proof. destruct x; reflexivity. Qed.
Lemma set_lin_id x : set_lin x (lin x) = x.
Proof. destruct x; reflexivity. Qed.

(* the assignment stored in a node vector *)
Definition Lin_of (ns : list cnode) (s : nat) : regset := match nth_opt ns s with Some c => lin c | None => 0 end.
Definition Lout_of (ns : list cnode) (s : nat) : regset := match nth_opt ns s with Some c => lout c | None => 0 end.

Lemma union_live_in_fold ns l acc :
  fold_left (fun acc i => match getn ns i with Some c => rs_union acc (lin c) | None => acc end) l acc
  = fold_left (fun acc s => rs_union acc (Lin_of ns s)) l acc.
Proof.
  revert acc; induction l as [|s l IH]; intros acc; simpl; [reflexivity|].
  rewrite IH. f_equal. unfold Lin_of, getn. destruct (nth_opt ns s); [reflexivity|].
  unfold rs_union. now rewrite N.lor_0_r.
Qed.
Lemma union_live_in_eq ns l :
  union_live_in ns l = fold_left (fun acc s => rs_union acc (Lin_of ns s)) l rs_empty.
Proof. apply union_live_in_fold. Qed.

Lemma fold_union_ext (F G : nat -> regset) l acc :
  (forall s, F s = G s) ->
  fold_left (fun acc s => rs_union acc (F s)) l acc = fold_left (fun acc s => rs_union acc (G s)) l acc.
Proof. intros H; revert acc; induction l; intros acc; simpl; [reflexivity|]. now rewrite H, IHl. Qed.

(* live_node, case by case *)
Definition lv_lo (ns : list cnode) (c : cnode) := union_live_in ns (nexts c).
Definition lv_exli (ns : list cnode) (f : func) := match getn ns (fexit f) with Some e => lin e | None => rs_empty end.
Definition lv_ns1 (ns : list cnode) (c : cnode) (f : func) :=
  upd ns (fexit f) (fun e => set_lin e (rs_union (lv_lo ns c) (lv_exli ns f))).
Definition lv_entry_lo (ns1 : list cnode) (lo : regset) (i : nat) (f : func) :=
  match getn ns1 (fentry f) with Some e => if Nat.eqb (fentry f) i then lo else lout e | None => rs_empty end.
Definition lv_li_call (c : cnode) (entry_lo lo : regset) :=
  rs_union (rs_union (rs_inter entry_lo argument_set) (rs_diff lo (kill_reg (cn c)))) (gen_reg (cn c)).
Definition lv_cur (ns1 : list cnode) (i : nat) (c : cnode) := match getn ns1 i with Some x => x | None => c end.

Lemma live_node_call g ns v i c fid f :
  getn ns i = Some c -> calls_to_from_cfg g c = Some fid -> nth_opt (gfuncs g) fid = Some f ->
  exists ud,
    live_node g ns v i =
    (upd (lv_ns1 ns c f) i
         (fun x => set_live x (lv_li_call c (lv_entry_lo (lv_ns1 ns c f) (lv_lo ns c) i f) (lv_lo ns c)) (lv_lo ns c) ud),
     (negb (N.eqb (lv_lo ns c) (lout c))
      || negb (N.eqb (rs_union (lv_lo ns c) (lv_exli ns f)) (lv_exli ns f))
      || negb (N.eqb (lv_li_call c (lv_entry_lo (lv_ns1 ns c f) (lv_lo ns c) i f) (lv_lo ns c)) (lin (lv_cur (lv_ns1 ns c f) i c)))
      || negb (N.eqb ud (udef (lv_cur (lv_ns1 ns c f) i c))))%bool).
Proof.
  intros E1 E2 E3. unfold live_node. rewrite E1, E2, E3. eexists. reflexivity.
Qed.

Definition lv_li_plain (c : cnode) (lo : regset) : regset :=
  if is_ecall (cn c) then
    rs_union (rs_union (rs_diff lo caller_saved_set) ecall_always_argument_set)
             (match known_ecall_signature c with Some (args, _) => args | None => rs_empty end)
  else if is_return (cn c) then rs_union (lin c) (gen_reg (cn c))
  else rs_union (rs_diff lo (kill_reg (cn c))) (gen_reg (cn c)).

Lemma live_node_plain g ns v i c :
  getn ns i = Some c -> calls_to_from_cfg g c = None ->
  exists ud,
    live_node g ns v i =
    (upd ns i (fun x => set_live x (lv_li_plain c (lv_lo ns c)) (lv_lo ns c) ud),
     (negb (N.eqb (lv_lo ns c) (lout c)) || negb (N.eqb (lv_li_plain c (lv_lo ns c)) (lin c))
      || negb (N.eqb ud (udef c)))%bool).
Proof.
  intros E1 E2. unfold live_node, lv_li_plain. rewrite E1, E2.
  destruct (is_ecall (cn c)).
  - destruct (known_ecall_signature c) as [[a r]|]; eexists; reflexivity.
  - destruct (is_return (cn c)); [eexists; reflexivity|].
    destruct (is_function_entry (cn c)); eexists; reflexivity.
Qed.

Lemma stored_Lin g s : Lin (stored g) s = Lin_of (gnodes g) s.
Proof. reflexivity. Qed.
Lemma stored_Lout g s : Lout (stored g) s = Lout_of (gnodes g) s.
Proof. reflexivity. Qed.

Lemma Forall2_upd_r {A} (R : A -> A -> Prop) l0 l i f :
  Forall2 R l0 l ->
  (forall c d, nth_opt l0 i = Some c -> nth_opt l i = Some d -> R c (f d)) ->
  Forall2 R l0 (upd l i f).
Proof.
  intros H Hf. apply Forall2_of_nth.
  - rewrite upd_length. apply (F2_length H).
  - intros j c d Hc Hd. rewrite nth_opt_upd in Hd. destruct (Nat.eqb j i) eqn:J.
    + apply Nat.eqb_eq in J. subst j. destruct (nth_opt l i) eqn:E; simpl in Hd; inversion Hd; subst.
      now apply Hf.
    + eapply Forall2_nth; eauto.
Qed.

(* -- re-running liveness on a fixed point keeps the live sets -- *)
Definition liveR (c d : cnode) : Prop :=
  cn c = cn d /\ nexts c = nexts d /\ rin c = rin d /\ lin c = lin d /\ lout c = lout d.

Lemma liveR_refl c : liveR c c.
Proof. repeat split. Qed.

Lemma liveR_L ns0 ns s : Forall2 liveR ns0 ns -> Lin_of ns s = Lin_of ns0 s /\ Lout_of ns s = Lout_of ns0 s.
Proof.
  intros R. unfold Lin_of, Lout_of. destruct (nth_opt ns0 s) eqn:E.
  - destruct (Forall2_nth_l _ _ _ _ _ R E) as [d [Ed [_ [_ [_ [R4 R5]]]]]]. rewrite Ed. auto.
  - rewrite (Forall2_nth_none _ _ _ _ R E). auto.
Qed.

Lemma sig_R c d : cn c = cn d -> rin c = rin d -> known_ecall_signature d = known_ecall_signature c.
Proof. unfold known_ecall_signature, known_ecall. intros -> ->. reflexivity. Qed.

Lemma calls_R g c d : cn c = cn d -> calls_to_from_cfg g d = calls_to_from_cfg g c.
Proof. unfold calls_to_from_cfg. intros ->. reflexivity. Qed.

Lemma live_node_keeps g ns v i ns' ch :
  LiveFix g -> Forall2 liveR (gnodes g) ns -> live_node g ns v i = (ns', ch) ->
  Forall2 liveR (gnodes g) ns'.
Proof.
  intros LF R H.
  destruct (getn ns i) as [d|] eqn:E.
  2:{ unfold live_node in H. rewrite E in H. inversion H; subst; auto. }
  destruct (Forall2_nth_r _ _ _ _ _ R E) as [c [Ec Rcd]].
  destruct Rcd as [R1 [R2 [R3 [R4 R5]]]].
  destruct (LF i c Ec) as [Lo Li].
  assert (LO : lv_lo ns d = lout d).
  { unfold lv_lo. rewrite union_live_in_eq, <- R2, <- R5, Lo. unfold rhs_out.
    apply (fold_union_ext (Lin_of ns) (Lin (stored g))). intros s. rewrite stored_Lin.
    apply (liveR_L _ _ s R). }
  pose proof (calls_R g c d R1) as CR.
  destruct (calls_to_from_cfg g c) as [fid|] eqn:EC.
  - destruct (nth_opt (gfuncs g) fid) as [f|] eqn:Ef.
    2:{ unfold live_node in H. rewrite E, CR, Ef in H. inversion H; subst; auto. }
    destruct (live_node_call g ns v i d fid f E CR Ef) as [ud Hn]. rewrite Hn in H.
    inversion H; subst ns' ch; clear H Hn.
    destruct (Li f eq_refl) as [Li1 Li2].
    assert (NS1 : lv_ns1 ns d f = ns).
    { apply upd_id. intros x Ex. rewrite LO. unfold lv_exli, getn. rewrite Ex.
      replace (rs_union (lout d) (lin x)) with (lin x); [apply set_lin_id|].
      symmetry. apply lor_absorb. rewrite <- R5. rewrite stored_Lin in Li2.
      destruct (liveR_L _ _ (fexit f) R) as [A _]. rewrite <- A in Li2. unfold Lin_of in Li2.
      now rewrite Ex in Li2. }
    rewrite NS1, LO. apply Forall2_upd_r; [exact R|].
    intros c' d' Ec' Ed'. rewrite Ec in Ec'. unfold getn in E. rewrite E in Ed'.
    inversion Ec'; inversion Ed'; subst c' d'.
    unfold liveR; simpl. repeat split; auto.
    rewrite Li1. unfold rhs_in, node_uses, node_kills. rewrite EC, Ef, !stored_Lout.
    unfold lv_li_call. rewrite <- R1.
    assert (EL : lv_entry_lo ns (lout d) i f = Lout_of (gnodes g) (fentry f)).
    { destruct (liveR_L _ _ (fentry f) R) as [_ A]. rewrite <- A. unfold lv_entry_lo, Lout_of, getn.
      destruct (nth_opt ns (fentry f)) eqn:Ee; [|reflexivity].
      destruct (Nat.eqb (fentry f) i) eqn:J; [|reflexivity].
      apply Nat.eqb_eq in J. rewrite J in Ee. congruence. }
    rewrite EL. unfold Lout_of at 2. rewrite Ec, R5. unfold rs_union. apply lor_swap.
  - destruct (live_node_plain g ns v i d E CR) as [ud Hn]. rewrite Hn in H.
    inversion H; subst ns' ch; clear H Hn.
    rewrite LO. apply Forall2_upd_r; [exact R|].
    intros c' d' Ec' Ed'. rewrite Ec in Ec'. unfold getn in E. rewrite E in Ed'.
    inversion Ec'; inversion Ed'; subst c' d'.
    unfold liveR; simpl. repeat split; auto.
    unfold lv_li_plain. rewrite (sig_R c d R1 R3), <- R1, <- R4, <- R5.
    unfold rhs_in, node_uses, node_kills in Li. rewrite EC, !stored_Lout in Li.
    unfold Lout_of in Li. rewrite Ec in Li.
    destruct (is_ecall (cn c)); cbn [negb andb] in Li.
    + rewrite Li. unfold rs_union. symmetry. apply lor_rot.
    + destruct (is_return (cn c)).
      * symmetry. apply lor_absorb_r. exact Li.
      * rewrite Li. apply N.lor_comm.
Qed.

Lemma live_sweep_keeps g idx ns v ch ns' v' ch' :
  LiveFix g -> Forall2 liveR (gnodes g) ns -> live_sweep g idx ns v ch = (ns', v', ch') ->
  Forall2 liveR (gnodes g) ns'.
Proof.
  intros LF; revert ns v ch; induction idx as [|i idx IH]; intros ns v ch R H; simpl in H.
  - inversion H; subst; auto.
  - destruct (live_node g ns v i) eqn:E. eapply IH; [|exact H]. eapply live_node_keeps; eauto.
Qed.

Lemma live_loop_keeps fuel g ns v ns' :
  LiveFix g -> Forall2 liveR (gnodes g) ns -> live_loop fuel g ns v = Ok ns' ->
  Forall2 liveR (gnodes g) ns'.
Proof.
  intros LF; revert ns v; induction fuel; intros ns v R H; simpl in H; [discriminate|].
  destruct (live_sweep g _ ns v false) as [[n1 v1] ch] eqn:E.
  apply live_sweep_keeps in E; auto. destruct ch.
  - eapply IHfuel; eauto.
  - inversion H; subst; auto.
Qed.

Theorem rerun_live : forall g g', LiveFix g -> liveness_pass g = Ok g' -> same_live_sets g g'.
Proof.
  intros g g' LF H. apply liveness_pass_inv in H. destruct H as [ns [H ->]].
  apply live_loop_keeps in H; auto; [|apply Forall2_refl, liveR_refl].
  split; simpl.
  - apply (F2_length H).
  - intros i c d Hc Hd. destruct (Forall2_nth _ _ _ _ _ _ H Hc Hd) as [_ [_ [_ [A B]]]]. auto.
Qed.

(* -- whenever liveness returns, the equations hold (for call sites whose function exists) -- *)
Definition fix_body (g : cfg) (i : nat) (c : cnode) : Prop :=
  lout c = rhs_out g (stored g) c /\
  (match calls_to_from_cfg g c with
   | Some fid => forall f, nth_opt (gfuncs g) fid = Some f ->
                   lin c = rhs_in g (stored g) i c /\ subset (lout c) (Lin (stored g) (fexit f))
   | None => if (negb (is_ecall (cn c)) && is_return (cn c))%bool then subset (gen_reg (cn c)) (lin c)
             else lin c = rhs_in g (stored g) i c
   end).

Lemma entry_lo_eq ns c i f :
  nth_opt ns i = Some c -> lv_entry_lo ns (lout c) i f = Lout_of ns (fentry f).
Proof.
  intros E. unfold lv_entry_lo, Lout_of, getn.
  destruct (nth_opt ns (fentry f)) eqn:Ee; [|reflexivity].
  destruct (Nat.eqb (fentry f) i) eqn:J; [|reflexivity].
  apply Nat.eqb_eq in J. rewrite J in Ee. congruence.
Qed.

Lemma neqb_false a b : negb (N.eqb a b) = false -> a = b.
Proof. intros H. apply N.eqb_eq. now destruct (N.eqb a b). Qed.

Lemma live_node_nochange g ns v i ns' :
  (forall c fid, getn ns i = Some c -> calls_to_from_cfg g c = Some fid -> nth_opt (gfuncs g) fid <> None) ->
  live_node g ns v i = (ns', false) ->
  ns' = ns /\ forall c, nth_opt ns i = Some c -> fix_body (mkcfg ns (gfuncs g) (glabelfn g)) i c.
Proof.
  intros RS H.
  destruct (getn ns i) as [c|] eqn:E.
  2:{ unfold live_node in H. rewrite E in H. inversion H; subst. split; auto.
      intros c Ec. unfold getn in E. congruence. }
  assert (CG : calls_to_from_cfg (mkcfg ns (gfuncs g) (glabelfn g)) c = calls_to_from_cfg g c) by reflexivity.
  destruct (calls_to_from_cfg g c) as [fid|] eqn:EC.
  - destruct (nth_opt (gfuncs g) fid) as [f|] eqn:Ef; [|exfalso; eapply RS; eauto].
    destruct (live_node_call g ns v i c fid f E EC Ef) as [ud Hn]. rewrite Hn in H. clear Hn.
    inversion H as [[Hns Hch]]; clear H.
    apply orb_false_iff in Hch. destruct Hch as [Hch D].
    apply orb_false_iff in Hch. destruct Hch as [Hch C].
    apply orb_false_iff in Hch. destruct Hch as [A B].
    apply neqb_false in A, B.
    assert (NS1 : lv_ns1 ns c f = ns).
    { apply upd_id. intros x Ex. rewrite B. unfold lv_exli, getn. rewrite Ex. apply set_lin_id. }
    rewrite NS1 in *.
    assert (CU : lv_cur ns i c = c) by (unfold lv_cur; now rewrite E).
    rewrite CU in *. apply neqb_false in C, D. rewrite A in *. split.
    + apply upd_id. intros x Ex. unfold getn in E. rewrite E in Ex. inversion Ex; subst x.
      rewrite C, D. apply set_live_id.
    + intros c' Ec'. unfold getn in E. rewrite E in Ec'. inversion Ec'; subst c'. clear Ec'.
      unfold fix_body. rewrite CG. split.
      * rewrite <- A. unfold lv_lo. rewrite union_live_in_eq. reflexivity.
      * simpl gfuncs. intros f0 Ef0. rewrite Ef in Ef0. inversion Ef0; subst f0. split.
        -- rewrite <- C at 1. unfold rhs_in, node_uses, node_kills. rewrite CG. simpl gfuncs. rewrite Ef.
           rewrite !stored_Lout. simpl gnodes. unfold lv_li_call.
           rewrite (entry_lo_eq ns c i f E). unfold Lout_of at 3. rewrite E.
           unfold rs_union. apply lor_swap.
        -- rewrite stored_Lin. simpl gnodes. apply lor_subset. exact B.
  - destruct (live_node_plain g ns v i c E EC) as [ud Hn]. rewrite Hn in H. clear Hn.
    inversion H as [[Hns Hch]]; clear H.
    apply orb_false_iff in Hch. destruct Hch as [Hch D].
    apply orb_false_iff in Hch. destruct Hch as [A C].
    apply neqb_false in A, C, D. rewrite A in *. split.
    + apply upd_id. intros x Ex. unfold getn in E. rewrite E in Ex. inversion Ex; subst x.
      rewrite C, D. apply set_live_id.
    + intros c' Ec'. unfold getn in E. rewrite E in Ec'. inversion Ec'; subst c'. clear Ec'.
      unfold fix_body. rewrite CG. split.
      * rewrite <- A. unfold lv_lo. rewrite union_live_in_eq. reflexivity.
      * unfold rhs_in, node_uses, node_kills. rewrite CG, !stored_Lout. simpl gnodes.
        unfold Lout_of. rewrite E. unfold lv_li_plain in C.
        destruct (is_ecall (cn c)); cbn [negb andb].
        -- rewrite <- C. unfold rs_union. apply lor_rot.
        -- destruct (is_return (cn c)).
           ++ apply lor_subset. unfold rs_union in C. now rewrite N.lor_comm.
           ++ rewrite <- C. apply N.lor_comm.
Qed.

Lemma live_sweep_true g idx ns v ns' v' ch' : live_sweep g idx ns v true = (ns', v', ch') -> ch' = true.
Proof.
  revert ns v; induction idx as [|i idx IH]; intros ns v H; simpl in H; [now inversion H|].
  destruct (live_node g ns v i). eapply IH; eauto.
Qed.

Lemma live_sweep_nochange g idx ns v ns' v' :
  (forall i c fid, getn ns i = Some c -> calls_to_from_cfg g c = Some fid -> nth_opt (gfuncs g) fid <> None) ->
  live_sweep g idx ns v false = (ns', v', false) ->
  ns' = ns /\ forall i c, In i idx -> nth_opt ns i = Some c -> fix_body (mkcfg ns (gfuncs g) (glabelfn g)) i c.
Proof.
  intros RS; revert v; induction idx as [|i idx IH]; intros v H; simpl in H.
  - inversion H; subst. split; auto. intros i c [].
  - destruct (live_node g ns v i) as [n1 c1] eqn:E. destruct c1; simpl in H.
    + apply live_sweep_true in H. discriminate.
    + apply live_node_nochange in E; [|intros; eapply RS; eauto]. destruct E as [-> B].
      apply IH in H. destruct H as [-> B']. split; auto.
      intros j c [<-|I] Ec; auto.
Qed.

Lemma live_loop_last fuel g ns v ns' :
  live_loop fuel g ns v = Ok ns' ->
  exists ns1 v1 v2, live_sweep g (rev (seq 0 (length ns1))) ns1 v1 false = (ns', v2, false) /\
                    Forall2 frameR ns ns1.
Proof.
  revert ns v; induction fuel; intros ns v H; simpl in H; [discriminate|].
  destruct (live_sweep g _ ns v false) as [[n1 v1] ch] eqn:E. destruct ch.
  - apply IHfuel in H. destruct H as [ns1 [w1 [w2 [H F]]]]. exists ns1, w1, w2. split; auto.
    eapply frame_trans; eauto using live_sweep_frame.
  - inversion H; subst. exists ns, v, v1. split; auto. apply Forall2_refl, frameR_refl.
Qed.

(* every call site (call, or jump/branch to a function label) refers to an existing function *)
Definition calls_resolved (g : cfg) : Prop :=
  forall i c fid, nth_opt (gnodes g) i = Some c -> calls_to_from_cfg g c = Some fid ->
                  nth_opt (gfuncs g) fid <> None.

Theorem live_fix_partial : forall g g', calls_resolved g -> liveness_pass g = Ok g' -> LiveFix g'.
Proof.
  intros g g' RS H. apply liveness_pass_inv in H. destruct H as [ns [H ->]].
  apply live_loop_last in H. destruct H as [ns1 [v1 [v2 [H F]]]].
  apply live_sweep_nochange in H.
  - destruct H as [-> B]. intros i c Ec. simpl in Ec. apply (B i c); auto.
    apply in_rev. rewrite rev_involutive. apply in_seq. apply nth_opt_some_lt in Ec. lia.
  - intros i c fid Ec EC. destruct (Forall2_nth_r _ _ _ _ _ F Ec) as [c0 [Ec0 [R1 _]]].
    apply (RS i c0 fid Ec0). rewrite <- EC. symmetry. now apply calls_R.
Qed.

(* without that hypothesis the statement C12_live_statement is false: a call site whose label maps
   to a function id that does not exist is skipped by the pass, so its live_out is never computed *)
Definition cex_w {A} (a : A) := mkw a tok_default.
Definition cex_nd (n : pnode) (nx pv : list nat) := mkcn n [] true nx pv [] [] [] [] [] 0 0 0.
Definition cex_live : cfg :=
  mkcfg [ cex_nd (PJumpLink (cex_w IJal) (cex_w 1) (cex_w «"f"») raw_default) [1%nat] [];
          cex_nd (PJumpLinkR (cex_w IJalr) (cex_w 0) (cex_w 1) (cex_w 0%Z) raw_default) [] [0%nat] ]
        [] [(«"f"», 5%nat)].

Theorem live_fix_counterexample : ~ (forall g g', liveness_pass g = Ok g' -> LiveFix g').
Proof.
  intros H. pose proof (H cex_live) as H1.
  remember (liveness_pass cex_live) as r eqn:Er. vm_compute in Er. subst r.
  specialize (H1 _ eq_refl 0%nat). simpl in H1. specialize (H1 _ eq_refl).
  destruct H1 as [Lo _]. vm_compute in Lo. discriminate.
Qed.

(* ===== (e) the lints never read u_def ===================================================== *)

Definition strip_udef (c : cnode) : cnode :=
  mkcn (cn c) (clabels c) (ctext c) (nexts c) (prevs c) (cfuncs c) (rin c) (rout c) (min c) (mout c) (lin c) (lout c) 0.
Definition strip (g : cfg) : cfg := mkcfg (map strip_udef (gnodes g)) (gfuncs g) (glabelfn g).

Lemma filter_map_ext {A B} (f h : A -> option B) l : (forall x, f x = h x) -> filter_map f l = filter_map h l.
Proof. intros H; induction l; simpl; [reflexivity|]. now rewrite H, IHl. Qed.
Lemma fold_left_ext {A B} (f h : A -> B -> A) l a : (forall a x, f a x = h a x) -> fold_left f l a = fold_left h l a.
Proof. intros H; revert a; induction l; intros a0; simpl; [reflexivity|]. now rewrite H, IHl. Qed.

Lemma getn_strip ns i : getn (map strip_udef ns) i = option_map strip_udef (getn ns i).
Proof. apply nth_opt_map. Qed.

Lemma for_nodes_strip g f f' :
  (forall i c, f' i (strip_udef c) = f i c) -> for_nodes (strip g) f' = for_nodes g f.
Proof.
  intros H. unfold for_nodes, indices. simpl gnodes. rewrite map_length.
  apply flat_map_ext. intros i. rewrite getn_strip. destruct (getn (gnodes g) i); simpl; auto.
Qed.

Lemma usage_hit_strip ns item i : usage_hit (map strip_udef ns) item i = usage_hit ns item i.
Proof. unfold usage_hit. rewrite getn_strip. destruct (getn ns i); reflexivity. Qed.

Lemma first_usage_strip fuel ns item fr vis :
  first_usage fuel (map strip_udef ns) item fr vis = first_usage fuel ns item fr vis.
Proof.
  revert fr vis; induction fuel; intros fr vis; simpl; [reflexivity|].
  destruct (filter (fun i => negb (memn i vis)) fr) as [|x fresh]; [reflexivity|].
  rewrite (filter_map_ext _ _ (x :: fresh) (usage_hit_strip ns item)).
  destruct (filter_map (usage_hit ns item) (x :: fresh)); [|reflexivity].
  rewrite IHfuel. f_equal. apply fold_left_ext. intros a j. rewrite getn_strip.
  destruct (getn ns j); reflexivity.
Qed.

Lemma erfu_strip ns i item :
  error_ranges_for_first_usage (map strip_udef ns) i item = error_ranges_for_first_usage ns i item.
Proof.
  unfold error_ranges_for_first_usage. rewrite getn_strip, map_length.
  destruct (getn ns i); cbn [option_map]; [apply first_usage_strip | reflexivity].
Qed.

Lemma usage_lints_strip code g i regs : usage_lints code (strip g) i regs = usage_lints code g i regs.
Proof.
  unfold usage_lints. apply flat_map_ext. intros item. simpl gnodes. rewrite erfu_strip. reflexivity.
Qed.

Lemma first_store_strip fuel ns item q vis acc :
  first_store fuel (map strip_udef ns) item q vis acc = first_store fuel ns item q vis acc.
Proof.
  revert q vis acc; induction fuel; intros q vis acc; simpl; [reflexivity|].
  destruct q as [|p q]; [reflexivity|]. destruct (memn p vis); [apply IHfuel|].
  rewrite getn_strip. destruct (getn ns p) as [c|]; simpl; [|apply IHfuel].
  destruct (writes_to (cn c)); [destruct (N.eqb _ _)|]; apply IHfuel.
Qed.

Lemma erfs_strip ns i item :
  error_ranges_for_first_store (map strip_udef ns) i item = error_ranges_for_first_store ns i item.
Proof.
  unfold error_ranges_for_first_store. rewrite getn_strip, map_length.
  destruct (getn ns i); cbn [option_map]; [apply first_store_strip | reflexivity].
Qed.

Lemma fn_returns_strip g f : fn_returns (strip g) f = fn_returns g f.
Proof. unfold fn_returns. simpl gnodes. rewrite getn_strip. destruct (getn _ _); reflexivity. Qed.
Lemma fn_arguments_strip g f : fn_arguments (strip g) f = fn_arguments g f.
Proof. unfold fn_arguments. simpl gnodes. rewrite getn_strip. destruct (getn _ _); reflexivity. Qed.

Lemma stack_loop_strip ns : stack_loop (map strip_udef ns) = stack_loop ns.
Proof.
  induction ns as [|c ns IH]; [reflexivity|].
  cbn [map stack_loop]. rewrite IH. reflexivity.
Qed.

Lemma lint_save_to_zero_strip g : lint_save_to_zero (strip g) = lint_save_to_zero g.
Proof. apply for_nodes_strip. reflexivity. Qed.

Lemma lint_dead_value_strip g : lint_dead_value (strip g) = lint_dead_value g.
Proof.
  apply for_nodes_strip. intros i c.
  change (calls_to_from_cfg (strip g) (strip_udef c)) with (calls_to_from_cfg g c).
  destruct (calls_to_from_cfg g c); [|reflexivity].
  simpl gfuncs. destruct (nth_opt (gfuncs g) n); [|reflexivity].
  rewrite fn_returns_strip, usage_lints_strip. reflexivity.
Qed.

Lemma lint_instruction_in_text_strip g : lint_instruction_in_text (strip g) = lint_instruction_in_text g.
Proof. apply for_nodes_strip. reflexivity. Qed.

Lemma lint_ecall_strip g : lint_ecall (strip g) = lint_ecall g.
Proof. apply for_nodes_strip. reflexivity. Qed.

Lemma lint_control_flow_strip g : lint_control_flow (strip g) = lint_control_flow g.
Proof.
  apply for_nodes_strip. intros i c.
  change (cn (strip_udef c)) with (cn c). change (prevs (strip_udef c)) with (prevs c).
  destruct (is_function_entry (cn c)); [|reflexivity].
  apply flat_map_ext. intros p. simpl gnodes. rewrite getn_strip.
  destruct (getn (gnodes g) p); reflexivity.
Qed.

Lemma lint_garbage_input_strip g : lint_garbage_input (strip g) = lint_garbage_input g.
Proof.
  apply for_nodes_strip. intros i c.
  change (cn (strip_udef c)) with (cn c).
  destruct (is_program_entry (cn c)); [rewrite usage_lints_strip; reflexivity|].
  change (is_function_entry_with_func (strip g) i (strip_udef c)) with (is_function_entry_with_func g i c).
  destruct (is_function_entry_with_func g i c); [|reflexivity].
  rewrite usage_lints_strip, fn_arguments_strip. reflexivity.
Qed.

Lemma lint_stack_strip g : lint_stack (strip g) = lint_stack g.
Proof. unfold lint_stack. simpl gnodes. apply stack_loop_strip. Qed.

Lemma lint_callee_saved_strip g : lint_callee_saved (strip g) = lint_callee_saved g.
Proof.
  unfold lint_callee_saved. simpl gfuncs. apply flat_map_ext. intros f.
  simpl gnodes. rewrite getn_strip. destruct (getn (gnodes g) (fexit f)); cbn [option_map]; [|reflexivity].
  apply flat_map_ext. intros r. rewrite erfs_strip. reflexivity.
Qed.

Lemma lint_callee_saved_garbage_read_strip g :
  lint_callee_saved_garbage_read (strip g) = lint_callee_saved_garbage_read g.
Proof. apply for_nodes_strip. reflexivity. Qed.

Lemma lint_lost_callee_saved_strip g : lint_lost_callee_saved (strip g) = lint_lost_callee_saved g.
Proof. apply for_nodes_strip. reflexivity. Qed.

Lemma lint_overlapping_strip g : lint_overlapping (strip g) = lint_overlapping g.
Proof. apply for_nodes_strip. reflexivity. Qed.

Theorem diags_ignore_udef :
  forall g, run_diagnostics (mkcfg (map strip_udef (gnodes g)) (gfuncs g) (glabelfn g)) = run_diagnostics g.
Proof.
  intros g. change (mkcfg (map strip_udef (gnodes g)) (gfuncs g) (glabelfn g)) with (strip g).
  unfold run_diagnostics.
  rewrite lint_save_to_zero_strip, lint_dead_value_strip, lint_instruction_in_text_strip, lint_ecall_strip,
    lint_control_flow_strip, lint_garbage_input_strip, lint_stack_strip, lint_callee_saved_strip,
    lint_callee_saved_garbage_read_strip, lint_lost_callee_saved_strip, lint_overlapping_strip.
  reflexivity.
Qed.

(* ===== (a) value analysis ================================================================= *)

(* The boolean equalities of the maps compare `AAddr` values by label name only (the token is
   ignored), so they are not Leibniz equality.  `norm` erases the token: two values are `aval_eqb`
   exactly when their normal forms are equal, and likewise for maps. *)
Definition norm (v : aval) : aval :=
  match v with AAddr l => AAddr (mkw (wv l) tok_default) | _ => v end.
Definition rm_norm (m : regmap) : regmap := map (fun kv => (fst kv, norm (snd kv))) m.
Definition mm_norm (m : memmap) : memmap := map (fun kv => (fst kv, norm (snd kv))) m.

Lemma str_eqb_eq a b : str_eqb a b = true <-> a = b.
Proof.
  revert b; induction a as [|x a IH]; destruct b as [|y b]; simpl; split; try discriminate; auto; intros H.
  - apply andb_true_iff in H. destruct H as [H1 H2]. apply N.eqb_eq in H1. apply IH in H2. congruence.
  - inversion H; subst. rewrite N.eqb_refl. simpl. now apply IH.
Qed.

Lemma aval_eqb_norm a b : aval_eqb a b = true <-> norm a = norm b.
Proof.
  destruct a, b; simpl; try (split; intros H; discriminate H);
    rewrite ?andb_true_iff, ?Z.eqb_eq, ?N.eqb_eq, ?str_eqb_eq;
    (split; [intros H; f_equal; intuition congruence | intros H; inversion H; auto]).
Qed.

Lemma aval_eqb_norm_l a b : aval_eqb (norm a) b = aval_eqb a b.
Proof. destruct a, b; reflexivity. Qed.
Lemma aval_eqb_norm_r a b : aval_eqb a (norm b) = aval_eqb a b.
Proof. destruct a, b; reflexivity. Qed.
Lemma opt_aval_eqb_norm_l x y : opt_aval_eqb (option_map norm x) y = opt_aval_eqb x y.
Proof. destruct x, y; simpl; auto using aval_eqb_norm_l. Qed.
Lemma opt_aval_eqb_norm_r x v : opt_aval_eqb x (Some (norm v)) = opt_aval_eqb x (Some v).
Proof. destruct x; simpl; auto using aval_eqb_norm_r. Qed.

Lemma memloc_eqb_eq a b : memloc_eqb a b = true <-> a = b.
Proof.
  destruct a, b; simpl; try (split; intros H; discriminate H);
    rewrite ?andb_true_iff, ?Z.eqb_eq;
    (split; [intros H; f_equal; intuition congruence | intros H; inversion H; auto]).
Qed.

Lemma rm_eqb_norm a b : rm_eqb a b = true <-> rm_norm a = rm_norm b.
Proof.
  revert b; induction a as [|[k v] a IH]; destruct b as [|[l w] b]; simpl; try (split; intros H; discriminate H).
  - split; auto.
  - rewrite !andb_true_iff, N.eqb_eq, aval_eqb_norm, IH. split.
    + intros [[-> ->] ->]. reflexivity.
    + intros H; inversion H; auto.
Qed.
Lemma mm_eqb_norm a b : mm_eqb a b = true <-> mm_norm a = mm_norm b.
Proof.
  revert b; induction a as [|[k v] a IH]; destruct b as [|[l w] b]; simpl; try (split; intros H; discriminate H).
  - split; auto.
  - rewrite !andb_true_iff, memloc_eqb_eq, aval_eqb_norm, IH. split.
    + intros [[-> ->] ->]. reflexivity.
    + intros H; inversion H; auto.
Qed.

Lemma rm_get_norm r m : rm_get r (rm_norm m) = option_map norm (rm_get r m).
Proof. induction m as [|[k v] m IH]; simpl; [reflexivity|]. destruct (N.eqb k r); auto. Qed.
Lemma mm_get_norm l m : mm_get l (mm_norm m) = option_map norm (mm_get l m).
Proof. induction m as [|[k v] m IH]; simpl; [reflexivity|]. destruct (memloc_eqb k l); auto. Qed.

Lemma rm_insert_norm r v m : rm_norm (rm_insert r v m) = rm_insert r (norm v) (rm_norm m).
Proof.
  induction m as [|[k w] m IH]; simpl; [reflexivity|].
  destruct (N.eqb k r); [reflexivity|]. destruct (N.ltb r k); simpl; [reflexivity|]. now rewrite IH.
Qed.
Lemma mm_insert_norm l v m : mm_norm (mm_insert l v m) = mm_insert l (norm v) (mm_norm m).
Proof.
  induction m as [|[k w] m IH]; simpl; [reflexivity|].
  destruct (memloc_eqb k l); [reflexivity|]. destruct (memloc_ltb l k); simpl; [reflexivity|]. now rewrite IH.
Qed.

Lemma filter_map_comm {A B} (p : B -> bool) (f : A -> B) l :
  filter p (map f l) = map f (filter (fun x => p (f x)) l).
Proof. induction l; simpl; [reflexivity|]. destruct (p (f a)); simpl; now rewrite IHl. Qed.

Lemma rm_meet_norm a b : rm_norm (rm_meet a b) = rm_meet (rm_norm a) (rm_norm b).
Proof.
  unfold rm_meet. unfold rm_norm at 1.
  change (rm_norm a) with (map (fun kv : reg * aval => (fst kv, norm (snd kv))) a). rewrite filter_map_comm. f_equal. apply filter_ext.
  intros [k v]. simpl. rewrite rm_get_norm, opt_aval_eqb_norm_l, opt_aval_eqb_norm_r. reflexivity.
Qed.
Lemma mm_meet_norm a b : mm_norm (mm_meet a b) = mm_meet (mm_norm a) (mm_norm b).
Proof.
  unfold mm_meet. unfold mm_norm at 1.
  change (mm_norm a) with (map (fun kv : memloc * aval => (fst kv, norm (snd kv))) a). rewrite filter_map_comm. f_equal. apply filter_ext.
  intros [k v]. simpl. rewrite mm_get_norm, opt_aval_eqb_norm_l, opt_aval_eqb_norm_r. reflexivity.
Qed.

Lemma rm_get_req r a b : rm_norm a = rm_norm b -> option_map norm (rm_get r a) = option_map norm (rm_get r b).
Proof. intros H. now rewrite <- !rm_get_norm, H. Qed.
Lemma mm_get_meq l a b : mm_norm a = mm_norm b -> option_map norm (mm_get l a) = option_map norm (mm_get l b).
Proof. intros H. now rewrite <- !mm_get_norm, H. Qed.

(* -- the rules downstream of the old memory outs respect the map equalities -- *)
Lemma rule_pull_congr n out mo mo' :
  mm_norm mo = mm_norm mo' ->
  rm_norm (rule_pull_value_from_csr_memory n out mo) = rm_norm (rule_pull_value_from_csr_memory n out mo').
Proof.
  intros H. unfold rule_pull_value_from_csr_memory.
  destruct (reads_from_memory n) as [[[r off] dest]|]; [|reflexivity].
  destruct (rm_get r out) as [[]|]; try reflexivity.
  pose proof (mm_get_meq (MCsrOff c off) _ _ H) as G.
  destruct (mm_get (MCsrOff c off) mo), (mm_get (MCsrOff c off) mo'); simpl in G; try discriminate; [|reflexivity].
  inversion G. rewrite !rm_insert_norm. congruence.
Qed.

Lemma rule_zero_reg_congr ri o o' :
  rm_norm o = rm_norm o' -> rm_norm (rule_zero_to_const_reg o ri) = rm_norm (rule_zero_to_const_reg o' ri).
Proof.
  unfold rule_zero_to_const_reg. revert o o'; induction ri as [|[k v] ri IH]; intros o o' H; simpl; [exact H|].
  apply IH. destruct (zero_based v); [|exact H].
  rewrite <- (opt_aval_eqb_norm_l (rm_get k o)), <- (opt_aval_eqb_norm_l (rm_get k o')), (rm_get_req k _ _ H).
  destruct (opt_aval_eqb _ _); [|exact H]. rewrite !rm_insert_norm. congruence.
Qed.

Lemma rule_math_congr n ri o o' :
  rm_norm o = rm_norm o' -> rm_norm (rule_perform_math_ops n o ri) = rm_norm (rule_perform_math_ops n o' ri).
Proof.
  intros H. unfold rule_perform_math_ops. destruct (writes_to n); [|exact H].
  match goal with |- context [match ?X with Some v => rm_insert _ v o | None => o end] => destruct X end;
    [|exact H].
  rewrite !rm_insert_norm. congruence.
Qed.

Lemma rule_push_congr n mo o o' :
  rm_norm o = rm_norm o' -> rule_push_value_to_csr_memory n mo o = rule_push_value_to_csr_memory n mo o'.
Proof.
  intros H. unfold rule_push_value_to_csr_memory.
  destruct (stores_to_memory n) as [[s [r off]]|]; [|reflexivity].
  pose proof (rm_get_req r _ _ H) as G.
  destruct (rm_get r o) as [[]|], (rm_get r o') as [[]|]; simpl in G; try discriminate; try reflexivity.
  inversion G. reflexivity.
Qed.

Lemma rm_remove_set_norm s m : rm_norm (rm_remove_set s m) = rm_remove_set s (rm_norm m).
Proof.
  unfold rm_remove_set. unfold rm_norm at 1.
  change (rm_norm m) with (map (fun kv : reg * aval => (fst kv, norm (snd kv))) m).
  rewrite filter_map_comm. reflexivity.
Qed.

(* the transfer of a node depends on the node only through its instruction and its old memory outs *)
Lemma avail_transfer_shape n ri mi :
  exists r2 m2, forall c, cn c = n ->
    avail_transfer c ri mi =
    (rm_remove_set const_zero_set
       (rule_perform_math_ops n (rule_zero_to_const_reg (rule_pull_value_from_csr_memory n r2 (mout c)) ri) ri),
     rule_known_values_to_stack
       (rule_push_value_to_csr_memory n m2
          (rule_perform_math_ops n (rule_zero_to_const_reg (rule_pull_value_from_csr_memory n r2 (mout c)) ri) ri)) ri).
Proof.
  eexists. eexists. intros c E. unfold avail_transfer, known_ecall_signature, known_ecall.
  cbn [set_avail cn rin]. rewrite E. reflexivity.
Qed.

Lemma avail_transfer_congr c c' ri mi :
  cn c = cn c' -> mm_norm (mout c) = mm_norm (mout c') ->
  rm_norm (fst (avail_transfer c ri mi)) = rm_norm (fst (avail_transfer c' ri mi)) /\
  snd (avail_transfer c ri mi) = snd (avail_transfer c' ri mi).
Proof.
  intros E M. destruct (avail_transfer_shape (cn c) ri mi) as [r2 [m2 S]].
  rewrite (S c eq_refl), (S c' (eq_sym E)). cbn [fst snd].
  assert (R : rm_norm (rule_perform_math_ops (cn c) (rule_zero_to_const_reg (rule_pull_value_from_csr_memory (cn c) r2 (mout c)) ri) ri)
            = rm_norm (rule_perform_math_ops (cn c) (rule_zero_to_const_reg (rule_pull_value_from_csr_memory (cn c) r2 (mout c')) ri) ri)).
  { apply rule_math_congr, rule_zero_reg_congr, rule_pull_congr, M. }
  split; [rewrite !rm_remove_set_norm; now rewrite R|]. f_equal. apply rule_push_congr, R.
Qed.

(* -- one node, one sweep -- *)
Definition eqf (c d : cnode) : Prop :=
  cn c = cn d /\ prevs c = prevs d /\
  rm_norm (rin c) = rm_norm (rin d) /\ rm_norm (rout c) = rm_norm (rout d) /\
  mm_norm (min c) = mm_norm (min d) /\ mm_norm (mout c) = mm_norm (mout d).

Lemma eqf_refl c : eqf c c.
Proof. repeat split. Qed.
Lemma eqf_trans a b c : eqf a b -> eqf b c -> eqf a c.
Proof. unfold eqf; intuition congruence. Qed.

Definition an_ri (g : list cnode) (vis : list nat) (c : cnode) := meet_regs g (prevs c) vis.
Definition an_mi (g : list cnode) (vis : list nat) (c : cnode) := meet_mems g (prevs c) vis.
Definition an_T (g : list cnode) (vis : list nat) (c : cnode) := avail_transfer c (an_ri g vis c) (an_mi g vis c).

Lemma avail_node_some g vis i c :
  getn g i = Some c ->
  avail_node g vis i =
  (upd g i (fun x => set_avail x (an_ri g vis c) (fst (an_T g vis c)) (an_mi g vis c) (snd (an_T g vis c))),
   negb (rm_eqb (an_ri g vis c) (rin c) && mm_eqb (an_mi g vis c) (min c)
         && rm_eqb (fst (an_T g vis c)) (rout c) && mm_eqb (snd (an_T g vis c)) (mout c))).
Proof.
  intros E. unfold avail_node, an_T, an_ri, an_mi. rewrite E.
  destruct (avail_transfer c (meet_regs g (prevs c) vis) (meet_mems g (prevs c) vis)). reflexivity.
Qed.

Lemma avail_node_nochange g vis i g' c :
  avail_node g vis i = (g', false) -> getn g i = Some c ->
  g' = upd g i (fun x => set_avail x (an_ri g vis c) (fst (an_T g vis c)) (an_mi g vis c) (snd (an_T g vis c))) /\
  rm_norm (an_ri g vis c) = rm_norm (rin c) /\ mm_norm (an_mi g vis c) = mm_norm (min c) /\
  rm_norm (fst (an_T g vis c)) = rm_norm (rout c) /\ mm_norm (snd (an_T g vis c)) = mm_norm (mout c).
Proof.
  intros H E. rewrite (avail_node_some g vis i c E) in H. apply pair_equal_spec in H. destruct H as [Hg Hc].
  split; [symmetry; exact Hg|].
  apply negb_false_iff in Hc. rewrite !andb_true_iff in Hc. destruct Hc as [[[A B] C] D].
  apply rm_eqb_norm in A, C. apply mm_eqb_norm in B, D. auto.
Qed.

Lemma avail_node_eq g vis i g' : avail_node g vis i = (g', false) -> Forall2 eqf g g'.
Proof.
  intros H. destruct (getn g i) as [c|] eqn:E.
  - destruct (avail_node_nochange g vis i g' c H E) as [-> [A [B [C D]]]].
    apply Forall2_upd_r; [apply Forall2_refl, eqf_refl|].
    intros c0 d0 E0 E1. unfold getn in E. rewrite E in E0, E1. inversion E0; inversion E1; subst.
    unfold eqf; simpl. repeat split; auto.
  - unfold avail_node in H. rewrite E in H. inversion H; subst. apply Forall2_refl, eqf_refl.
Qed.

Lemma avail_sweep_true idx g vis g' vis' ch' : avail_sweep idx g vis true = (g', vis', ch') -> ch' = true.
Proof.
  revert g vis; induction idx as [|i idx IH]; intros g vis H; simpl in H; [now inversion H|].
  destruct (avail_node g vis i). eapply IH; eauto.
Qed.

Lemma avail_sweep_eq idx g vis F vis' :
  avail_sweep idx g vis false = (F, vis', false) -> Forall2 eqf g F.
Proof.
  revert g vis; induction idx as [|i idx IH]; intros g vis H; simpl in H.
  - inversion H; subst. apply Forall2_refl, eqf_refl.
  - destruct (avail_node g vis i) as [g1 c1] eqn:E.
    destruct c1; [simpl in H; apply avail_sweep_true in H; discriminate|].
    destruct (memn i vis) eqn:M; simpl in H; [|apply avail_sweep_true in H; discriminate].
    apply avail_node_eq in E. apply IH in H. eapply Forall2_trans; eauto using eqf_trans.
Qed.

Lemma avail_node_other g vis i g' ch j : avail_node g vis i = (g', ch) -> j <> i -> nth_opt g' j = nth_opt g j.
Proof.
  intros H N. destruct (getn g i) as [c|] eqn:E.
  - rewrite (avail_node_some g vis i c E) in H. inversion H; subst. now apply nth_opt_upd_other.
  - unfold avail_node in H. rewrite E in H. now inversion H; subst.
Qed.

Lemma avail_sweep_other idx g vis ch F vis' ch' j :
  avail_sweep idx g vis ch = (F, vis', ch') -> ~ In j idx -> nth_opt F j = nth_opt g j.
Proof.
  revert g vis ch; induction idx as [|i idx IH]; intros g vis ch H N; simpl in H.
  - now inversion H; subst.
  - destruct (avail_node g vis i) as [g1 c1] eqn:E. rewrite (IH _ _ _ H).
    + eapply avail_node_other; eauto. intros ->. apply N. now left.
    + intros I. apply N. now right.
Qed.

(* visited sets *)
Lemma memn_ins p i v : memn p (ins i v) = (Nat.eqb p i || memn p v)%bool.
Proof.
  induction v as [|a v IH]; simpl; [reflexivity|].
  destruct (Nat.eqb i a) eqn:E1.
  - apply Nat.eqb_eq in E1. subst a. simpl. destruct (Nat.eqb p i), (memn p v); reflexivity.
  - destruct (Nat.ltb i a); simpl; [reflexivity|]. rewrite IH.
    destruct (Nat.eqb p i), (Nat.eqb p a), (memn p v); reflexivity.
Qed.

Lemma memn_seq p a n : memn p (seq a n) = (Nat.leb a p && Nat.ltb p (a + n))%bool.
Proof.
  revert a; induction n; intros a; simpl.
  - destruct (Nat.leb a p) eqn:E1, (Nat.ltb p (a + 0)) eqn:E2; try reflexivity. lia.
  - rewrite IHn. destruct (Nat.eqb p a) eqn:E1, (Nat.leb (S a) p) eqn:E2, (Nat.ltb p (S a + n)) eqn:E3,
      (Nat.leb a p) eqn:E4, (Nat.ltb p (a + S n)) eqn:E5; try reflexivity; lia.
Qed.

Lemma avail_sweep_vis idx g vis ch F vis' ch' :
  avail_sweep idx g vis ch = (F, vis', ch') -> forall p, memn p vis' = (memn p idx || memn p vis)%bool.
Proof.
  revert g vis ch; induction idx as [|i idx IH]; intros g vis ch H p; simpl in H.
  - now inversion H; subst.
  - destruct (avail_node g vis i) as [g1 c1]. rewrite (IH _ _ _ H p), memn_ins. simpl.
    destruct (Nat.eqb p i), (memn p idx), (memn p vis); reflexivity.
Qed.

(* a sweep that sets no flag has met no new node (fix: a node seen for the first time counts as a change) *)
Lemma avail_sweep_false_vis idx g vis F vis' :
  avail_sweep idx g vis false = (F, vis', false) -> forall j, In j idx -> memn j vis = true.
Proof.
  revert g vis; induction idx as [|i idx IH]; intros g vis H j I; [destruct I|]. simpl in H.
  destruct (avail_node g vis i) as [g1 c1] eqn:E.
  destruct c1; [simpl in H; apply avail_sweep_true in H; discriminate|].
  destruct (memn i vis) eqn:M; simpl in H; [|apply avail_sweep_true in H; discriminate].
  destruct I as [<-|I]; [exact M|].
  pose proof (IH _ _ H j I) as Q. rewrite memn_ins in Q.
  destruct (Nat.eqb j i) eqn:Eji; [apply Nat.eqb_eq in Eji; subst j; exact M|exact Q].
Qed.

Definition visok (n : nat) (vis : list nat) : Prop := forall p, memn p vis = Nat.ltb p n.

(* meets respect the equalities of the stored outs *)
Lemma meet_regs_congr g F ps vis vis' :
  Forall2 eqf g F -> (forall p, memn p vis = memn p vis') ->
  rm_norm (meet_regs g ps vis) = rm_norm (meet_regs F ps vis').
Proof.
  intros R V. unfold meet_regs. rewrite (filter_ext _ (fun p => memn p vis') V).
  destruct (filter (fun p => memn p vis') ps) as [|p ps']; [reflexivity|].
  assert (H0 : rm_norm (match getn g p with Some c => rout c | None => [] end)
             = rm_norm (match getn F p with Some c => rout c | None => [] end)).
  { unfold getn. destruct (nth_opt g p) eqn:E.
    - destruct (Forall2_nth_l _ _ _ _ _ R E) as [d [-> Q]]. apply Q.
    - now rewrite (Forall2_nth_none _ _ _ _ R E). }
  revert H0. generalize (match getn g p with Some c => rout c | None => [] end).
  generalize (match getn F p with Some c => rout c | None => [] end).
  induction ps' as [|q ps' IH]; intros a b H; simpl; [exact H|]. apply IH.
  unfold getn. destruct (nth_opt g q) eqn:E.
  - destruct (Forall2_nth_l _ _ _ _ _ R E) as [d [-> Q]]. rewrite !rm_meet_norm.
    destruct Q as [_ [_ [_ [Q _]]]]. congruence.
  - now rewrite (Forall2_nth_none _ _ _ _ R E).
Qed.

Lemma meet_mems_congr g F ps vis vis' :
  Forall2 eqf g F -> (forall p, memn p vis = memn p vis') ->
  mm_norm (meet_mems g ps vis) = mm_norm (meet_mems F ps vis').
Proof.
  intros R V. unfold meet_mems. rewrite (filter_ext _ (fun p => memn p vis') V).
  destruct (filter (fun p => memn p vis') ps) as [|p ps']; [reflexivity|].
  assert (H0 : mm_norm (match getn g p with Some c => mout c | None => [] end)
             = mm_norm (match getn F p with Some c => mout c | None => [] end)).
  { unfold getn. destruct (nth_opt g p) eqn:E.
    - destruct (Forall2_nth_l _ _ _ _ _ R E) as [d [-> Q]]. apply Q.
    - now rewrite (Forall2_nth_none _ _ _ _ R E). }
  revert H0. generalize (match getn g p with Some c => mout c | None => [] end).
  generalize (match getn F p with Some c => mout c | None => [] end).
  induction ps' as [|q ps' IH]; intros a b H; simpl; [exact H|]. apply IH.
  unfold getn. destruct (nth_opt g q) eqn:E.
  - destruct (Forall2_nth_l _ _ _ _ _ R E) as [d [-> Q]]. rewrite !mm_meet_norm.
    destruct Q as [_ [_ [_ [_ [_ Q]]]]]. congruence.
  - now rewrite (Forall2_nth_none _ _ _ _ R E).
Qed.

(* the equations at one node of a finished vector *)
Definition NodeOK (F : list cnode) (c : cnode) : Prop :=
  rm_norm (rin c) = rm_norm (meet_regs F (prevs c) (all_idx F)) /\
  mm_norm (min c) = mm_norm (meet_mems F (prevs c) (all_idx F)) /\
  rm_norm (rout c) = rm_norm (fst (avail_transfer c (rin c) (min c))) /\
  mm_norm (mout c) = mm_norm (snd (avail_transfer c (rin c) (min c))).

Lemma eqf_length g F : Forall2 eqf g F -> length g = length F.
Proof. apply F2_length. Qed.

Lemma visok_ins n vis i : visok n vis -> (i < n)%nat -> visok n (ins i vis).
Proof.
  intros V L p. rewrite memn_ins, V. destruct (Nat.eqb p i) eqn:E; [|reflexivity].
  apply Nat.eqb_eq in E. subst p. simpl. symmetry. apply Nat.ltb_lt. exact L.
Qed.

Lemma NodeOK_intro F c0 ri mi :
  rm_norm ri = rm_norm (meet_regs F (prevs c0) (all_idx F)) ->
  mm_norm mi = mm_norm (meet_mems F (prevs c0) (all_idx F)) ->
  mm_norm (snd (avail_transfer c0 ri mi)) = mm_norm (mout c0) ->
  NodeOK F (set_avail c0 ri (fst (avail_transfer c0 ri mi)) mi (snd (avail_transfer c0 ri mi))).
Proof.
  intros A B D.
  destruct (avail_transfer_congr c0
              (set_avail c0 ri (fst (avail_transfer c0 ri mi)) mi (snd (avail_transfer c0 ri mi))) ri mi)
    as [T1 T2]; [reflexivity | symmetry; exact D |].
  remember (avail_transfer c0 ri mi) as T eqn:HT.
  unfold NodeOK. cbn [set_avail rin rout min mout prevs].
  split; [exact A|]. split; [exact B|]. split; [exact T1|]. now rewrite <- T2.
Qed.

Lemma avail_sweep_ok idx g vis F vis' :
  visok (length g) vis -> (forall i, In i idx -> (i < length g)%nat) ->
  avail_sweep idx g vis false = (F, vis', false) ->
  forall i c, In i idx -> nth_opt F i = Some c -> NodeOK F c.
Proof.
  revert g vis; induction idx as [|i idx IH]; intros g vis V B H j c I Ec; [destruct I|].
  simpl in H. destruct (avail_node g vis i) as [g1 c1] eqn:E.
  destruct c1; [simpl in H; apply avail_sweep_true in H; discriminate|].
  destruct (memn i vis) eqn:M; simpl in H; [|apply avail_sweep_true in H; discriminate].
  pose proof (avail_node_eq _ _ _ _ E) as Q1. pose proof (avail_sweep_eq _ _ _ _ _ H) as Q2.
  destruct (in_dec Nat.eq_dec j idx) as [I'|N].
  { refine (IH g1 (ins i vis) _ _ H j c I' Ec).
    - rewrite <- (eqf_length _ _ Q1). apply visok_ins; auto. apply B. now left.
    - intros k Ik. rewrite <- (eqf_length _ _ Q1). apply B. now right. }
  destruct I as [<-|I]; [|contradiction].
  rewrite (avail_sweep_other _ _ _ _ _ _ _ i H N) in Ec.
  assert (Li : (i < length g)%nat) by (apply B; now left).
  destruct (nth_opt_lt_some g i Li) as [c0 E0].
  destruct (avail_node_nochange g vis i g1 c0 E E0) as [-> [A1 [A2 [A3 A4]]]].
  rewrite nth_opt_upd_same in Ec. unfold getn in E0. rewrite E0 in Ec. simpl in Ec. inversion Ec; subst c. clear Ec.
  assert (QF : Forall2 eqf g F) by (eapply Forall2_trans; eauto using eqf_trans).
  assert (VF : forall p, memn p vis = memn p (all_idx F)).
  { intros p. unfold all_idx. rewrite memn_seq, V, <- (eqf_length _ _ QF). simpl.
    destruct (Nat.ltb p (length g)); reflexivity. }
  apply NodeOK_intro.
  - apply meet_regs_congr; auto.
  - apply meet_mems_congr; auto.
  - exact A4.
Qed.

Lemma avail_loop_ok fuel g vis F :
  visok (length g) vis -> avail_loop fuel g vis = Ok F ->
  forall i c, nth_opt F i = Some c -> NodeOK F c.
Proof.
  revert g vis; induction fuel; intros g vis V H; simpl in H; [discriminate|].
  destruct (avail_sweep (seq 0 (length g)) g vis false) as [[g1 v1] ch] eqn:E.
  pose proof (F2_length (avail_sweep_frame _ _ _ _ _ _ _ E)) as L.
  destruct ch.
  - apply (IHfuel g1 v1); auto. intros p.
    rewrite (avail_sweep_vis _ _ _ _ _ _ _ E p), memn_seq, V, <- L. simpl.
    destruct (Nat.ltb p (length g)); reflexivity.
  - inversion H; subst g1. intros i c Ec. eapply avail_sweep_ok; eauto.
    + intros k Ik. apply in_seq in Ik. lia.
    + apply in_seq. apply nth_opt_some_lt in Ec. lia.
Qed.

Lemma avail_loop_top fuel g F :
  avail_loop fuel g [] = Ok F ->
  (snd (avail_sweep (seq 0 (length g)) g [] false) = false /\ Forall2 eqf g F) \/
  (forall i c, nth_opt F i = Some c -> NodeOK F c).
Proof.
  destruct fuel; simpl; [discriminate|].
  destruct (avail_sweep (seq 0 (length g)) g [] false) as [[g1 v1] ch] eqn:E.
  pose proof (F2_length (avail_sweep_frame _ _ _ _ _ _ _ E)) as L.
  destruct ch; intros H.
  - right. apply (avail_loop_ok fuel g1 v1); auto. intros p.
    rewrite (avail_sweep_vis _ _ _ _ _ _ _ E p), memn_seq, <- L. simpl.
    destruct (Nat.ltb p (length g)); reflexivity.
  - left. inversion H; subst g1. split; [reflexivity|]. eapply avail_sweep_eq; eauto.
Qed.

Lemma NodeOK_eqns g : (forall i c, nth_opt (gnodes g) i = Some c -> NodeOK (gnodes g) c) -> AvailEqns g.
Proof.
  intros H i c Ec. destruct (H i c Ec) as [A [B [C D]]].
  split; [now apply rm_eqb_norm|]. split; [now apply mm_eqb_norm|].
  destruct (avail_transfer c (rin c) (min c)); simpl in *. split; [now apply rm_eqb_norm | now apply mm_eqb_norm].
Qed.

Lemma eqf_same_facts g g' : Forall2 eqf (gnodes g) (gnodes g') -> same_avail_facts g g'.
Proof.
  intros Q. split; [apply (F2_length Q)|]. intros i c d Ec Ed.
  destruct (Forall2_nth _ _ _ _ _ _ Q Ec Ed) as [_ [_ [A [B [C D]]]]].
  rewrite !rm_eqb_norm, !mm_eqb_norm. auto.
Qed.

(* Since the fix every run ends with a sweep in which no fact changed and no node was new: all nodes had
   been visited before it, so the equations hold with ALL predecessors.  The visited set only ever
   contains node indices. *)
Lemma avail_loop_full fuel g vis F :
  (forall p, memn p vis = true -> (p < length g)%nat) -> avail_loop fuel g vis = Ok F ->
  forall i c, nth_opt F i = Some c -> NodeOK F c.
Proof.
  revert g vis; induction fuel; intros g vis V H; simpl in H; [discriminate|].
  destruct (avail_sweep (seq 0 (length g)) g vis false) as [[g1 v1] ch] eqn:E.
  pose proof (F2_length (avail_sweep_frame _ _ _ _ _ _ _ E)) as L.
  destruct ch.
  - apply (IHfuel g1 v1); auto. intros p Hp.
    rewrite (avail_sweep_vis _ _ _ _ _ _ _ E p), memn_seq in Hp. rewrite <- L.
    apply orb_true_iff in Hp. destruct Hp as [Hp|Hp]; [|apply V; exact Hp].
    apply andb_true_iff in Hp. destruct Hp as [_ Hp]. apply Nat.ltb_lt in Hp. exact Hp.
  - inversion H; subst g1.
    assert (VK : visok (length g) vis).
    { intros p. destruct (Nat.ltb p (length g)) eqn:Lp.
      - apply Nat.ltb_lt in Lp. apply (avail_sweep_false_vis _ _ _ _ _ E p). apply in_seq. lia.
      - destruct (memn p vis) eqn:Mp; [|reflexivity]. apply V in Mp. apply Nat.ltb_ge in Lp. lia. }
    intros i c Ec. eapply avail_sweep_ok; eauto.
    + intros k Ik. apply in_seq in Ik. lia.
    + apply in_seq. apply nth_opt_some_lt in Ec. lia.
Qed.

Theorem avail_fix_full : forall g g', avail_pass g = Ok g' -> AvailEqns g'.
Proof.
  intros g g' H. apply avail_pass_inv in H. destruct H as [ns [H ->]].
  apply NodeOK_eqns. cbn [gnodes]. apply (avail_loop_full (avail_fuel g) (gnodes g) [] ns); [|exact H].
  intros p Hp. discriminate Hp.
Qed.

(* the weaker statement that held before the fix (a run whose first sweep changed nothing stopped at once) *)
Theorem avail_fix : forall g g', avail_pass g = Ok g' -> AvailEqns g' \/ same_avail_facts g g'.
Proof. intros g g' H. left. exact (avail_fix_full g g' H). Qed.

(* fresh graphs: the first sweep always changes the program entry (before the fix of avail_sweep this was
   what excluded the no-op run; now an instance of avail_fix_full) *)
Definition fresh_avail (g : cfg) : Prop :=
  (exists c rest, gnodes g = c :: rest /\ is_program_entry (cn c) = true) /\
  forall i c, nth_opt (gnodes g) i = Some c -> rin c = [] /\ rout c = [] /\ min c = [] /\ mout c = [].

Lemma entry_transfer c :
  is_program_entry (cn c) = true -> fst (avail_transfer c [] []) = [(1, AOrig 1 0); (2, AOrig 2 0)].
Proof.
  destruct c as [n]. simpl. destruct n; try discriminate. intros _. reflexivity.
Qed.

Lemma meet_regs_nil g ps : meet_regs g ps [] = [].
Proof.
  unfold meet_regs. replace (filter (fun p => memn p []) ps) with (@nil nat); [reflexivity|].
  induction ps; simpl; auto.
Qed.
Lemma meet_mems_nil g ps : meet_mems g ps [] = [].
Proof.
  unfold meet_mems. replace (filter (fun p => memn p []) ps) with (@nil nat); [reflexivity|].
  induction ps; simpl; auto.
Qed.

Theorem avail_fix_fresh : forall g g', fresh_avail g -> avail_pass g = Ok g' -> AvailEqns g'.
Proof. intros g g' _ H. exact (avail_fix_full g g' H). Qed.

(* ---------------------------------------------------------------------------------- *)
(* C06: a graph without edges is finished after two sweeps - the first visits every node and gives it
   the facts of its transfer from empty ins, the second changes nothing and meets no new node.
   (With empty ins the transfer of a node does not depend on its old memory outs.) *)

Lemma transfer_nil_cn c c' : cn c = cn c' -> avail_transfer c [] [] = avail_transfer c' [] [].
Proof.
  destruct c as [n l1 t1 nx1 pv1 f1 ri1 ro1 mi1 mo1 li1 lo1 u1], c' as [n' l2 t2 nx2 pv2 f2 ri2 ro2 mi2 mo2 li2 lo2 u2].
  cbn [cn]. intros <-.
  unfold avail_transfer, known_ecall_signature, known_ecall. cbn [set_avail cn rin rout min mout].
  unfold rule_pull_value_from_csr_memory.
  destruct n; cbn [reads_from_memory]; try reflexivity.
  (* a load: with empty ins its base register never holds the address of a csr *)
  match goal with |- context [rm_get (wv rs1) ?X] =>
    assert (K : match rm_get (wv rs1) X with Some (AValueInCsr _) => False | _ => True end);
    [ | destruct (rm_get (wv rs1) X) as [[]|]; try reflexivity; contradiction ] end.
  cbn. destruct (wv rd =? 0)%N; cbn; [exact I|]. rewrite !N.eqb_refl. cbn. rewrite ?N.eqb_refl. cbn.
  destruct (wv rd =? wv rs1)%N; exact I.
Qed.

Definition edgeless (g : list cnode) : Prop := forall i c, nth_opt g i = Some c -> prevs c = [].

(* the node has no predecessor and holds the facts of its transfer from empty ins *)
Definition settled (c : cnode) : Prop :=
  prevs c = [] /\ rin c = [] /\ min c = [] /\
  rout c = fst (avail_transfer c [] []) /\ mout c = snd (avail_transfer c [] []).

Lemma rm_eqb_refl a : rm_eqb a a = true.
Proof. apply rm_eqb_norm. reflexivity. Qed.
Lemma mm_eqb_refl a : mm_eqb a a = true.
Proof. apply mm_eqb_norm. reflexivity. Qed.

Lemma an_nil g vis c : prevs c = [] ->
  an_ri g vis c = [] /\ an_mi g vis c = [] /\ an_T g vis c = avail_transfer c [] [].
Proof.
  intros P. unfold an_T, an_ri, an_mi, meet_regs, meet_mems. rewrite P. cbn [filter]. repeat split.
Qed.

Lemma upd_fix {A} (l : list A) i f x : nth_opt l i = Some x -> f x = x -> upd l i f = l.
Proof.
  revert i; induction l as [|a l IH]; intros [|i] H E; simpl in *; try discriminate.
  - inversion H; subst. now rewrite E.
  - f_equal. apply (IH i H E).
Qed.

Lemma set_avail_self c : set_avail c (rin c) (rout c) (min c) (mout c) = c.
Proof. destruct c; reflexivity. Qed.

(* one node of an edgeless graph: it becomes settled, the settled nodes stay what they are *)
Lemma avail_node_edgeless g vis i g' ch :
  edgeless g -> avail_node g vis i = (g', ch) ->
  edgeless g' /\ length g' = length g /\
  (forall j c, nth_opt g j = Some c -> settled c -> nth_opt g' j = Some c) /\
  (forall c, nth_opt g' i = Some c -> settled c).
Proof.
  intros Eg H. destruct (getn g i) as [c|] eqn:E.
  2:{ unfold avail_node in H. rewrite E in H. inversion H; subst g'. split; [exact Eg|]. split; [reflexivity|].
      split; [auto|]. intros c Ec. unfold getn in E. congruence. }
  pose proof (Eg i c E) as P. destruct (an_nil g vis c P) as [A [B T]].
  rewrite (avail_node_some g vis i c E), A, B, T in H. apply pair_equal_spec in H. destruct H as [<- _].
  set (c' := set_avail c [] (fst (avail_transfer c [] [])) [] (snd (avail_transfer c [] []))).
  assert (S' : settled c').
  { unfold settled, c'. cbn [set_avail prevs rin min rout mout]. split; [exact P|]. split; [reflexivity|].
    split; [reflexivity|]. rewrite (transfer_nil_cn (set_avail c [] _ [] _) c eq_refl). split; reflexivity. }
  assert (Ni : nth_opt (upd g i (fun x => set_avail x [] (fst (avail_transfer c [] [])) [] (snd (avail_transfer c [] [])))) i
               = Some c').
  { rewrite nth_opt_upd_same. unfold getn in E. rewrite E. reflexivity. }
  split; [|split; [apply upd_length|split]].
  - intros j d Ed. destruct (Nat.eq_dec j i) as [->|N].
    + rewrite Ni in Ed. inversion Ed; subst d. apply S'.
    + rewrite (nth_opt_upd_other _ _ _ _ N) in Ed. apply (Eg j d Ed).
  - intros j d Ed Sd. destruct (Nat.eq_dec j i) as [->|N]; [|rewrite (nth_opt_upd_other _ _ _ _ N); exact Ed].
    rewrite Ni. unfold getn in E. rewrite E in Ed. inversion Ed; subst d. f_equal. unfold c'.
    destruct Sd as [_ [S1 [S2 [S3 S4]]]].
    transitivity (set_avail c (rin c) (rout c) (min c) (mout c)); [|apply set_avail_self].
    rewrite S1, S2, S3, S4. reflexivity.
  - intros d Ed. rewrite Ni in Ed. inversion Ed; subst d. exact S'.
Qed.

Lemma avail_sweep_edgeless idx : forall g vis ch g' vis' ch',
  edgeless g -> avail_sweep idx g vis ch = (g', vis', ch') ->
  edgeless g' /\ length g' = length g /\
  (forall j c, nth_opt g j = Some c -> settled c -> nth_opt g' j = Some c) /\
  (forall i c, In i idx -> nth_opt g' i = Some c -> settled c).
Proof.
  induction idx as [|i idx IH]; intros g vis ch g' vis' ch' Eg H; simpl in H.
  - inversion H; subst. split; [exact Eg|]. split; [reflexivity|]. split; [auto|]. intros i c [].
  - destruct (avail_node g vis i) as [g1 c1] eqn:E.
    destruct (avail_node_edgeless g vis i g1 c1 Eg E) as [E1 [L1 [K1 S1]]].
    destruct (IH _ _ _ _ _ _ E1 H) as [E2 [L2 [K2 S2]]].
    split; [exact E2|]. split; [congruence|]. split; [intros j c Ec Sc; apply K2; [apply K1; assumption|exact Sc]|].
    intros j c [<-|I] Ec; [|apply (S2 j c I Ec)].
    destruct (nth_opt g1 i) as [d|] eqn:Ed.
    + pose proof (S1 d eq_refl) as Sd. rewrite (K2 i d Ed Sd) in Ec. inversion Ec; subst c. exact Sd.
    + apply nth_opt_none_ge in Ed. apply nth_opt_some_lt in Ec. lia.
Qed.

(* a sweep over settled nodes that have all been visited changes nothing *)
Lemma avail_sweep_settled idx : forall g vis,
  (forall i c, nth_opt g i = Some c -> settled c) -> (forall i, In i idx -> memn i vis = true) ->
  exists vis', avail_sweep idx g vis false = (g, vis', false).
Proof.
  induction idx as [|i idx IH]; intros g vis Sg V; simpl; [eexists; reflexivity|].
  assert (N : avail_node g vis i = (g, false)).
  { destruct (getn g i) as [c|] eqn:E; [|unfold avail_node; rewrite E; reflexivity].
    destruct (Sg i c E) as [P [S1 [S2 [S3 S4]]]]. destruct (an_nil g vis c P) as [A [B T]].
    rewrite (avail_node_some g vis i c E), A, B, T. f_equal.
    - apply (upd_fix g i _ c E).
      transitivity (set_avail c (rin c) (rout c) (min c) (mout c)); [|apply set_avail_self].
      rewrite S1, S2, S3, S4. reflexivity.
    - rewrite S1, S2, <- S3, <- S4, !rm_eqb_refl, !mm_eqb_refl. reflexivity. }
  rewrite N, (V i (or_introl eq_refl)). cbn [orb negb].
  apply IH; [exact Sg|]. intros j Ij. rewrite memn_ins, (V j (or_intror Ij)). apply orb_true_r.
Qed.

Theorem edgeless_two_sweeps : forall fuel g,
  (forall i c, nth_opt g i = Some c -> prevs c = []) -> exists g', avail_loop (S (S fuel)) g [] = Ok g'.
Proof.
  intros fuel g Eg. cbn [avail_loop].
  destruct (avail_sweep (seq 0 (length g)) g [] false) as [[g1 v1] c1] eqn:E1.
  destruct c1; [|exists g1; reflexivity].
  destruct (avail_sweep_edgeless _ _ _ _ _ _ _ Eg E1) as [_ [L1 [_ S1]]].
  destruct (avail_sweep_settled (seq 0 (length g1)) g1 v1) as [v2 E2].
  - intros i c Ec. apply (S1 i c); [|exact Ec]. apply in_seq. apply nth_opt_some_lt in Ec. lia.
  - intros i Ii. rewrite (avail_sweep_vis _ _ _ _ _ _ _ E1 i), memn_seq. rewrite L1 in Ii. apply in_seq in Ii.
    apply orb_true_iff. left. apply andb_true_iff. split; [apply Nat.leb_le; lia|apply Nat.ltb_lt; lia].
  - rewrite E2. exists g1. reflexivity.
Qed.
