(* C13 (parser half) / C15 part A: the statement parser is position-parametric.
   Parsing the position-erased item stream gives the position-erased result ([parse_one_erased]);
   hence two item streams that are equal up to positions are parsed alike ([parse_one_erase]). *)
From RV.Model Require Import Base I32 Imm Lexer Isa Parser Reader.
From RV.Spec Require Import ParamSpec LineSpec IncludeSpec.
From Coq Require Import Lia.

(* ================================================================================== *)
(* 1. a simulation logic for the parser monad: [m'] on the erased state does what [m]    *)
(*    does, erased.                                                                      *)

Definition est (st : pstate) : pstate :=
  (map erase_item (fst st), option_map (fun _ => raw_default) (snd st)).

Definition emap {A} (eA : A -> A) (r : res ((lexerr + A) * pstate)) : res ((lexerr + A) * pstate) :=
  match r with
  | Ok (inl e, st) => Ok (inl (erase_lexerr e), est st)
  | Ok (inr a, st) => Ok (inr (eA a), est st)
  | Panic s => Panic s
  | OutOfFuel => OutOfFuel
  end.

Definition Sim {A} (eA : A -> A) (m' m : P A) : Prop := forall st, m' (est st) = emap eA (m st).

Lemma sim_bind {A B} (eA : A -> A) (eB : B -> B) (m' m : P A) (f' f : A -> P B) :
  Sim eA m' m -> (forall a, Sim eB (f' (eA a)) (f a)) -> Sim eB (pbind m' f') (pbind m f).
Proof.
  intros Hm Hf st. unfold pbind. rewrite Hm.
  destruct (m st) as [[[e|a] st']| |]; cbn [emap]; try reflexivity. apply Hf.
Qed.

Lemma sim_ret {A} (eA : A -> A) (a' a : A) : a' = eA a -> Sim eA (ret a') (ret a).
Proof. intros -> st. reflexivity. Qed.

Lemma sim_fail {A} (eA : A -> A) (e' e : lexerr) : e' = erase_lexerr e -> Sim eA (@fail A e') (fail e).
Proof. intros -> st. reflexivity. Qed.

Lemma sim_get_raw : Sim (fun _ => raw_default) get_raw get_raw.
Proof. intros [l [r|]]; reflexivity. Qed.

Lemma sim_get_any : Sim erase_tok get_any get_any.
Proof.
  intros [l o]. unfold get_any, est. cbn [fst snd]. destruct l as [|it l]; [reflexivity|].
  cbn [map]. destruct it as [t|t p k|t]; cbn [erase_item item_result emap]; try reflexivity.
  destruct o as [r|]; reflexivity.
Qed.

Lemma sim_peek_any : Sim erase_tok peek_any peek_any.
Proof.
  intros [l o]. unfold peek_any, est. cbn [fst snd]. destruct l as [|it l]; [reflexivity|].
  cbn [map]. destruct it as [t|t p k|t]; reflexivity.
Qed.

Lemma sim_remaining : Sim (fun n => n) remaining remaining.
Proof. intros [l o]. unfold remaining, est. cbn [fst snd emap]. rewrite map_length. reflexivity. Qed.

(* ================================================================================== *)
(* 2. the token classifiers depend on the token type only                                *)

Lemma tok_reg_erase t : tok_reg (erase_tok t) = option_map erase_w (tok_reg t).
Proof.
  unfold tok_reg. cbn [erase_tok tt]. destruct (tt t); try reflexivity.
  destruct (reg_from_str s); reflexivity.
Qed.
Lemma tok_label_erase t : tok_label (erase_tok t) = option_map erase_w (tok_label t).
Proof.
  unfold tok_label. cbn [erase_tok tt]. destruct (tt t); try reflexivity.
  destruct (label_from_str s); reflexivity.
Qed.
Lemma tok_string_erase t : tok_string (erase_tok t) = option_map erase_w (tok_string t).
Proof. unfold tok_string. cbn [erase_tok tt]. destruct (tt t); reflexivity. Qed.

Definition rmap {A B} (f : A -> B) (r : res A) : res B :=
  match r with Ok a => Ok (f a) | Panic s => Panic s | OutOfFuel => OutOfFuel end.

Lemma tok_imm_erase t : tok_imm (erase_tok t) = rmap (option_map erase_w) (tok_imm t).
Proof.
  unfold tok_imm. cbn [erase_tok tt]. destruct (tt t); try reflexivity.
  destruct (imm_from_str s) as [[v|]| |]; reflexivity.
Qed.
Lemma tok_csrimm_erase t : tok_csrimm (erase_tok t) = rmap (option_map erase_w) (tok_csrimm t).
Proof.
  unfold tok_csrimm. cbn [erase_tok tt]. destruct (tt t); try reflexivity.
  destruct (csrimm_from_str s) as [[v|]| |]; reflexivity.
Qed.

Lemma sim_lift_imm t : Sim (option_map erase_w) (lift_res (tok_imm (erase_tok t))) (lift_res (tok_imm t)).
Proof. intros st. unfold lift_res. rewrite tok_imm_erase. destruct (tok_imm t) as [o| |]; reflexivity. Qed.
Lemma sim_lift_csrimm t :
  Sim (option_map erase_w) (lift_res (tok_csrimm (erase_tok t))) (lift_res (tok_csrimm t)).
Proof. intros st. unfold lift_res. rewrite tok_csrimm_erase. destruct (tok_csrimm t) as [o| |]; reflexivity. Qed.

Lemma sim_as_reg t : Sim erase_w (as_reg (erase_tok t)) (as_reg t).
Proof. unfold as_reg. rewrite tok_reg_erase. destruct (tok_reg t); intros st; reflexivity. Qed.
Lemma sim_as_label t : Sim erase_w (as_label (erase_tok t)) (as_label t).
Proof. unfold as_label. rewrite tok_label_erase. destruct (tok_label t); intros st; reflexivity. Qed.
Lemma sim_as_string t : Sim erase_w (as_string (erase_tok t)) (as_string t).
Proof. unfold as_string. rewrite tok_string_erase. destruct (tok_string t); intros st; reflexivity. Qed.
Lemma sim_as_imm t : Sim erase_w (as_imm (erase_tok t)) (as_imm t).
Proof.
  unfold as_imm. eapply sim_bind; [apply sim_lift_imm|]. intros [i|]; intros st; reflexivity.
Qed.
Lemma sim_as_csrimm t : Sim erase_w (as_csrimm (erase_tok t)) (as_csrimm t).
Proof.
  unfold as_csrimm. eapply sim_bind; [apply sim_lift_csrimm|]. intros [i|]; intros st; reflexivity.
Qed.

Lemma sim_get_reg : Sim erase_w get_reg get_reg.
Proof. unfold get_reg. eapply sim_bind; [apply sim_get_any|apply sim_as_reg]. Qed.
Lemma sim_get_label : Sim erase_w get_label get_label.
Proof. unfold get_label. eapply sim_bind; [apply sim_get_any|apply sim_as_label]. Qed.
Lemma sim_get_string : Sim erase_w get_string get_string.
Proof. unfold get_string. eapply sim_bind; [apply sim_get_any|apply sim_as_string]. Qed.
Lemma sim_get_imm : Sim erase_w get_imm get_imm.
Proof. unfold get_imm. eapply sim_bind; [apply sim_get_any|apply sim_as_imm]. Qed.
Lemma sim_get_csrimm : Sim erase_w get_csrimm get_csrimm.
Proof. unfold get_csrimm. eapply sim_bind; [apply sim_get_any|apply sim_as_csrimm]. Qed.
Lemma sim_expect_rparen : Sim (fun u => u) expect_rparen expect_rparen.
Proof.
  unfold expect_rparen. eapply sim_bind; [apply sim_get_any|]. intros t.
  change (is_rparen (erase_tok t)) with (is_rparen t). destruct (is_rparen t); intros st; reflexivity.
Qed.

(* ================================================================================== *)
(* 3. instructions, directives, statements                                               *)

Ltac sstep :=
  cbv beta;
  lazymatch goal with
  | |- Sim _ (pbind get_reg _) (pbind get_reg _) => eapply sim_bind; [apply sim_get_reg|intros ?]
  | |- Sim _ (pbind get_imm _) (pbind get_imm _) => eapply sim_bind; [apply sim_get_imm|intros ?]
  | |- Sim _ (pbind get_label _) (pbind get_label _) => eapply sim_bind; [apply sim_get_label|intros ?]
  | |- Sim _ (pbind get_csrimm _) (pbind get_csrimm _) => eapply sim_bind; [apply sim_get_csrimm|intros ?]
  | |- Sim _ (pbind get_string _) (pbind get_string _) => eapply sim_bind; [apply sim_get_string|intros ?]
  | |- Sim _ (pbind expect_rparen _) (pbind expect_rparen _) => eapply sim_bind; [apply sim_expect_rparen|intros ?]
  | |- Sim _ (pbind get_raw _) (pbind get_raw _) => eapply sim_bind; [apply sim_get_raw|intros ?]
  | |- Sim _ (pbind get_any _) (pbind get_any _) => eapply sim_bind; [apply sim_get_any|intros ?]
  | |- Sim _ (pbind peek_any _) (pbind peek_any _) => eapply sim_bind; [apply sim_peek_any|intros ?]
  | |- Sim _ (pbind (lift_res (tok_imm _)) _) (pbind (lift_res (tok_imm _)) _) =>
      eapply sim_bind; [apply sim_lift_imm|intros [?|]; cbn [option_map]]
  | |- Sim _ (ret _) (ret _) => apply sim_ret; reflexivity
  | |- Sim _ (fail _) (fail _) => apply sim_fail; reflexivity
  | |- Sim _ (match tok_reg (erase_tok ?t) with _ => _ end) _ =>
      rewrite (tok_reg_erase t); destruct (tok_reg t); cbn [option_map]
  | |- Sim _ (match tok_label (erase_tok ?t) with _ => _ end) _ =>
      rewrite (tok_label_erase t); destruct (tok_label t); cbn [option_map]
  | |- Sim _ (if is_lparen (erase_tok ?t) then _ else _) _ =>
      change (is_lparen (erase_tok t)) with (is_lparen t); destruct (is_lparen t)
  | |- Sim _ (match lui_imm (wv (erase_w ?i)) with _ => _ end) _ =>
      change (wv (erase_w i)) with (wv i); destruct (lui_imm (wv i))
  end.

Lemma parse_inst_sim i t0 : Sim erase_node (parse_inst i (erase_tok t0)) (parse_inst i t0).
Proof.
  unfold parse_inst. cbv zeta. destruct (inst_kind i); try solve [repeat sstep].
  destruct i; solve [repeat sstep].
Qed.

Lemma data_values_sim : forall f acc,
  Sim (map erase_w) (data_values f (map erase_w acc)) (data_values f acc).
Proof.
  induction f as [|f IH]; intros acc st; [reflexivity|].
  assert (Hret : ret (rev (map erase_w acc)) (est st) = emap (map erase_w) (ret (rev acc) st)).
  { unfold ret. cbn [emap]. rewrite map_rev. reflexivity. }
  destruct st as [l o]. cbn [data_values]. unfold est at 1. cbn [fst snd].
  destruct l as [|it l]; [exact Hret|]. cbn [map fst].
  destruct it as [t|t p k|t]; cbn [erase_item]; [|exact Hret|exact Hret].
  revert t l o Hret. intros t l o _.
  change (map erase_item (LTok t :: l), option_map (fun _ : rawtok => raw_default) o) with (est (LTok t :: l, o)).
  generalize (LTok t :: l, o). clear t l o.
  change (Sim (map erase_w)
    (pbind peek_any (fun nx => match tt nx with
       | TNewline => pbind get_any (fun _ => data_values f (map erase_w acc))
       | _ => pbind (lift_res (tok_imm nx)) (fun r => match r with
               | Some i => pbind get_any (fun _ => data_values f (i :: map erase_w acc))
               | None => ret (rev (map erase_w acc)) end) end))
    (pbind peek_any (fun nx => match tt nx with
       | TNewline => pbind get_any (fun _ => data_values f acc)
       | _ => pbind (lift_res (tok_imm nx)) (fun r => match r with
               | Some i => pbind get_any (fun _ => data_values f (i :: acc))
               | None => ret (rev acc) end) end))).
  eapply sim_bind; [apply sim_peek_any|]. intros nx. cbv beta.
  assert (Hnl : Sim (map erase_w) (pbind get_any (fun _ => data_values f (map erase_w acc)))
                    (pbind get_any (fun _ => data_values f acc))).
  { eapply sim_bind; [apply sim_get_any|]. intros _. apply IH. }
  assert (Himm : Sim (map erase_w)
     (pbind (lift_res (tok_imm (erase_tok nx))) (fun r => match r with
               | Some i => pbind get_any (fun _ => data_values f (i :: map erase_w acc))
               | None => ret (rev (map erase_w acc)) end))
     (pbind (lift_res (tok_imm nx)) (fun r => match r with
               | Some i => pbind get_any (fun _ => data_values f (i :: acc))
               | None => ret (rev acc) end))).
  { eapply sim_bind; [apply sim_lift_imm|]. intros [i|]; cbn [option_map].
    - eapply sim_bind; [apply sim_get_any|]. intros _. apply (IH (i :: acc)).
    - apply sim_ret. rewrite map_rev. reflexivity. }
  cbn [erase_tok tt]. destruct (tt nx); first [exact Hnl|exact Himm].
Qed.

Lemma skip_macro_sim : forall f, Sim (fun u => u) (skip_macro f) (skip_macro f).
Proof.
  induction f as [|f IH]; [intros st; reflexivity|].
  cbn [skip_macro]. eapply sim_bind; [apply sim_get_any|]. intros nx. cbn [erase_tok tt].
  destruct (tt nx); try apply IH. destruct (dir_from_str s) as [[]|]; try apply IH.
  apply sim_ret. reflexivity.
Qed.

Lemma parse_directive_sim d t0 : Sim erase_node (parse_directive d (erase_tok t0)) (parse_directive d t0).
Proof.
  unfold parse_directive. cbv zeta.
  assert (Hdata : forall dt,
    Sim erase_node
      (pbind remaining (fun n => pbind (data_values (S n) [])
         (fun vals => pbind get_raw (fun rt => ret (PDirective (mkw d (erase_tok t0)) (DDat dt vals) rt)))))
      (pbind remaining (fun n => pbind (data_values (S n) [])
         (fun vals => pbind get_raw (fun rt => ret (PDirective (mkw d t0) (DDat dt vals) rt)))))).
  { intros dt. eapply sim_bind; [apply sim_remaining|]. intros n. cbv beta.
    eapply sim_bind; [apply (data_values_sim (S n) [])|]. intros vals. repeat sstep. }
  destruct d; try apply Hdata; try solve [repeat sstep].
  (* DMacro *)
  eapply sim_bind; [apply sim_remaining|]. intros n. cbv beta.
  eapply sim_bind; [apply skip_macro_sim|]. intros _. sstep.
Qed.

Lemma parse_stmt_sim : Sim erase_node parse_stmt parse_stmt.
Proof.
  unfold parse_stmt. eapply sim_bind; [apply sim_get_any|]. intros t0. cbn [erase_tok tt].
  destruct (tt t0) as [| | |s|s|d|s|c|s]; try solve [sstep].
  - destruct (label_from_str s); repeat sstep.
  - destruct (inst_from_str s); [apply parse_inst_sim|sstep].
  - destruct (dir_from_str d); [apply parse_directive_sim|sstep].
Qed.

(* ================================================================================== *)
(* 4. one statement                                                                     *)

Definition erase_one (r : res ((lexerr + pnode) * list lexitem)) : res ((lexerr + pnode) * list lexitem) :=
  match r with
  | Ok (x, rest) => Ok (erase_stmt x, map erase_item rest)
  | Panic s => Panic s
  | OutOfFuel => OutOfFuel
  end.

(* parsing the erased stream = erasing the parse *)
Theorem parse_one_erased : forall items, parse_one (map erase_item items) = erase_one (parse_one items).
Proof.
  intros items. unfold parse_one.
  pose proof (parse_stmt_sim (items, None)) as H. unfold est in H. cbn [fst snd option_map] in H.
  rewrite H. destruct (parse_stmt (items, None)) as [[[e|n] [rest o]]| |]; reflexivity.
Qed.

(* (A) position-parametricity of the statement parser *)
Theorem parse_one_erase : forall l1 l2, items_eq l1 l2 -> parse_one_agree (parse_one l1) (parse_one l2).
Proof.
  intros l1 l2 H. unfold items_eq in H.
  pose proof (parse_one_erased l1) as H1. pose proof (parse_one_erased l2) as H2.
  rewrite H in H1. rewrite H1 in H2. clear H1.
  destruct (parse_one l1) as [[x1 r1]| |], (parse_one l2) as [[x2 r2]| |]; cbn [erase_one] in H2;
    try discriminate; cbn [parse_one_agree]; try exact I.
  - injection H2 as Hx Hr. split; [exact Hx|]. split; [exact Hr|].
    apply (f_equal (@length _)) in Hr. rewrite !map_length in Hr. exact Hr.
  - injection H2 as Hs. exact Hs.
Qed.

(* ================================================================================== *)
(* 5. small facts about erasure used by the driver proofs                                *)

Lemma items_eq_refl l : items_eq l l.
Proof. reflexivity. Qed.
Lemma items_eq_sym l1 l2 : items_eq l1 l2 -> items_eq l2 l1.
Proof. unfold items_eq. intros H. symmetry. exact H. Qed.
Lemma items_eq_trans l1 l2 l3 : items_eq l1 l2 -> items_eq l2 l3 -> items_eq l1 l3.
Proof. unfold items_eq. intros H1 H2. congruence. Qed.
Lemma items_eq_length l1 l2 : items_eq l1 l2 -> length l1 = length l2.
Proof. intros H. apply (f_equal (@length _)) in H. rewrite !map_length in H. exact H. Qed.
Lemma items_eq_app a1 a2 b1 b2 : items_eq a1 a2 -> items_eq b1 b2 -> items_eq (a1 ++ b1) (a2 ++ b2).
Proof. unfold items_eq. intros H1 H2. rewrite !map_app. congruence. Qed.
Lemma items_eq_nil_l l : items_eq [] l -> l = [].
Proof. destruct l; [reflexivity|discriminate]. Qed.
Lemma items_eq_cons_inv a1 l1 a2 l2 : items_eq (a1 :: l1) (a2 :: l2) -> erase_item a1 = erase_item a2 /\ items_eq l1 l2.
Proof. unfold items_eq. cbn [map]. intros H. injection H as H1 H2. split; assumption. Qed.

Lemma recover_erased : forall l, recover (map erase_item l) = map erase_item (recover l).
Proof.
  induction l as [|it l IH]; [reflexivity|]. cbn [map].
  destruct it as [t|t p k|t]; cbn [erase_item recover]; try exact IH.
  cbn [erase_tok tt]. destruct (tt t); try exact IH. reflexivity.
Qed.

Lemma recover_items_eq l1 l2 : items_eq l1 l2 -> items_eq (recover l1) (recover l2).
Proof. unfold items_eq. intros H. rewrite <- !recover_erased, H. reflexivity. Qed.

Lemma stmt_next_erased x rest :
  stmt_next (erase_stmt x) (map erase_item rest) = option_map (map erase_item) (stmt_next x rest).
Proof.
  destruct x as [e|n]; [|reflexivity].
  destruct e; cbn [erase_stmt erase_lexerr stmt_next option_map]; rewrite ?recover_erased; try reflexivity.
  change (is_newline_tok (erase_tok got)) with (is_newline_tok got).
  destruct (is_newline_tok got); reflexivity.
Qed.

Lemma err_perr_erased e : err_perr (erase_lexerr e) = option_map erase_perr (err_perr e).
Proof. destruct e; reflexivity. Qed.
Lemma err_nodes_erased e : err_nodes (erase_lexerr e) = map erase_node (err_nodes e).
Proof. destruct e; reflexivity. Qed.

Lemma include_path_erased n : include_path (erase_node n) = option_map erase_w (include_path n).
Proof. destruct n; try reflexivity. destruct dt; reflexivity. Qed.
