(* C15: the file driver, one step at a time; fuel-free runs ([Run]); sequential composition of
   runs; and the driver on two stacks of item streams that are equal up to positions
   ([drive_erase], [drive_lockstep]). *)
From RV.Model Require Import Base I32 Imm Lexer Isa Parser Reader.
From RV.Spec Require Import ParamSpec LineSpec IncludeSpec.
From RV.Proofs Require Import LineProofs TotalProofs IncludeErase IncludeLex.
From Coq Require Import Lia.
Open Scope nat_scope.

(* ================================================================================== *)
(* 1. one step of the driver on the top file                                            *)

Definition dstep (chk : bool) (fs : store) (ign : bool) (top : list lexitem) (rs : rstate)
  (nodes : list pnode) (errs : list parse_error)
  : res (list (list lexitem) * rstate * list pnode * list parse_error) :=
  do r <- parse_one top;
  let '(x, rest) := r in
  match x with
  | inr n =>
      match (if ign then None else include_path n) with
      | Some path =>
          match import_file fs (wv path) rs with
          | (inr (id, text), rs') =>
              do items <- lex_all chk (Some id) (normalize_text text);
              Ok ([items; rest], rs', nodes, errs)
          | (inl e, rs') => Ok ([rest], rs', nodes, to_parse_error e path :: errs)
          end
      | None => Ok ([rest], rs, n :: nodes, errs)
      end
  | inl e =>
      Ok (match stmt_next (inl e) rest with Some t => [t] | None => [] end, rs,
          err_nodes e ++ nodes,
          match err_perr e with Some pe => pe :: errs | None => errs end)
  end.

Lemma drive_S f chk fs ign top below rs n e :
  drive (S f) chk fs ign (top :: below) rs n e =
  do r <- dstep chk fs ign top rs n e;
  let '(tops, rs', n', e') := r in drive f chk fs ign (tops ++ below) rs' n' e'.
Proof.
  cbn [drive]. unfold dstep. destruct (parse_one top) as [[x rest]| |]; cbn [bind]; try reflexivity.
  destruct x as [er|nd].
  - destruct er; reflexivity.
  - destruct (if ign then None else include_path nd) as [path|]; [|reflexivity].
    destruct (import_file fs (wv path) rs) as [[er|[id text]] rs']; [reflexivity|].
    destruct (lex_all chk (Some id) (normalize_text text)); reflexivity.
Qed.

Lemma drive_nil f chk fs ign rs n e : drive (S f) chk fs ign [] rs n e = Ok (rev n, rev e, rs).
Proof. reflexivity. Qed.

(* the accumulators are only pushed on *)
Lemma dstep_acc chk fs ign top rs n e :
  dstep chk fs ign top rs n e =
  match dstep chk fs ign top rs [] [] with
  | Ok (tops, rs', dn, de) => Ok (tops, rs', dn ++ n, de ++ e)
  | Panic s => Panic s
  | OutOfFuel => OutOfFuel
  end.
Proof.
  unfold dstep. destruct (parse_one top) as [[x rest]| |]; cbn [bind]; try reflexivity.
  destruct x as [er|nd].
  - rewrite app_nil_r. destruct (err_perr er); reflexivity.
  - destruct (if ign then None else include_path nd) as [path|]; [|reflexivity].
    destruct (import_file fs (wv path) rs) as [[er|[id text]] rs']; [reflexivity|].
    destruct (lex_all chk (Some id) (normalize_text text)); reflexivity.
Qed.

Lemma drive_acc_gen chk fs ign : forall f stack rs n0 e0 n e,
  drive f chk fs ign stack rs (n0 ++ n) (e0 ++ e) =
  match drive f chk fs ign stack rs n0 e0 with
  | Ok (ns, es, rs') => Ok (rev n ++ ns, rev e ++ es, rs')
  | Panic s => Panic s
  | OutOfFuel => OutOfFuel
  end.
Proof.
  induction f as [|f IH]; intros stack rs n0 e0 n e; [reflexivity|].
  destruct stack as [|top below].
  - rewrite !drive_nil, !rev_app_distr. reflexivity.
  - rewrite !drive_S. rewrite (dstep_acc chk fs ign top rs (n0 ++ n)), (dstep_acc chk fs ign top rs n0).
    destruct (dstep chk fs ign top rs [] []) as [[[[tops rs'] dn] de]| |]; cbn [bind]; try reflexivity.
    rewrite !app_assoc. apply IH.
Qed.

Lemma drive_acc chk fs ign f stack rs n e :
  drive f chk fs ign stack rs n e =
  match drive f chk fs ign stack rs [] [] with
  | Ok (ns, es, rs') => Ok (rev n ++ ns, rev e ++ es, rs')
  | Panic s => Panic s
  | OutOfFuel => OutOfFuel
  end.
Proof. apply (drive_acc_gen chk fs ign f stack rs [] [] n e). Qed.

(* more fuel does not change a result *)
Lemma drive_mono chk fs ign : forall f stack rs n e r,
  drive f chk fs ign stack rs n e = Ok r -> forall k, drive (f + k) chk fs ign stack rs n e = Ok r.
Proof.
  induction f as [|f IH]; intros stack rs n e r H k; [discriminate|].
  change (S f + k) with (S (f + k)). destruct stack as [|top below].
  - rewrite drive_nil in *. exact H.
  - rewrite drive_S in *. destruct (dstep chk fs ign top rs n e) as [[[[tops rs'] n'] e']| |]; cbn [bind] in *;
      try discriminate. apply IH. exact H.
Qed.

Lemma drive_mono_le chk fs ign f f' stack rs n e r :
  drive f chk fs ign stack rs n e = Ok r -> f <= f' -> drive f' chk fs ign stack rs n e = Ok r.
Proof. intros H Hle. replace f' with (f + (f' - f)) by lia. apply drive_mono. exact H. Qed.

(* ================================================================================== *)
(* 2. runs                                                                              *)

Lemma run_det chk fs ign stack rs n e r r' :
  Run chk fs ign stack rs n e r -> Run chk fs ign stack rs n e r' -> r = r'.
Proof.
  intros [f H] [f' H']. pose proof (drive_mono _ _ _ _ _ _ _ _ _ H f') as H1.
  pose proof (drive_mono _ _ _ _ _ _ _ _ _ H' f) as H2. rewrite Nat.add_comm in H2.
  rewrite H1 in H2. inversion H2. reflexivity.
Qed.

Lemma run_nil chk fs ign rs n e : Run chk fs ign [] rs n e (rev n, rev e, rs).
Proof. exists 1. reflexivity. Qed.

Lemma run_step chk fs ign top below rs n e tops rs' n' e' r :
  dstep chk fs ign top rs n e = Ok (tops, rs', n', e') ->
  (Run chk fs ign (top :: below) rs n e r <-> Run chk fs ign (tops ++ below) rs' n' e' r).
Proof.
  intros Hs. split.
  - intros [f H]. destruct f as [|f]; [discriminate|]. rewrite drive_S, Hs in H. cbn [bind] in H. exists f. exact H.
  - intros [f H]. exists (S f). rewrite drive_S, Hs. cbn [bind]. exact H.
Qed.

(* accumulators: a run from (n, e) is the run from empty accumulators, appended *)
Lemma run_acc chk fs ign stack rs n e ns es rs' :
  Run chk fs ign stack rs n e (ns, es, rs') ->
  exists dn de, ns = rev n ++ dn /\ es = rev e ++ de /\ Run chk fs ign stack rs [] [] (dn, de, rs').
Proof.
  intros [f H]. rewrite drive_acc in H.
  destruct (drive f chk fs ign stack rs [] []) as [[[dn de] rs'']| |] eqn:E; try discriminate.
  inversion H; subst. exists dn, de. split; [reflexivity|]. split; [reflexivity|]. exists f. exact E.
Qed.

Lemma run_acc_inv chk fs ign stack rs n e dn de rs' :
  Run chk fs ign stack rs [] [] (dn, de, rs') -> Run chk fs ign stack rs n e (rev n ++ dn, rev e ++ de, rs').
Proof. intros [f H]. exists f. rewrite drive_acc, H. reflexivity. Qed.

(* sequential composition: the files on top are driven to their end, then the rest *)
Lemma drive_app chk fs ign : forall f s1 s2 rs n e r,
  drive f chk fs ign (s1 ++ s2) rs n e = Ok r ->
  exists ns es rs', drive f chk fs ign s1 rs n e = Ok (ns, es, rs') /\
                    drive f chk fs ign s2 rs' (rev ns) (rev es) = Ok r.
Proof.
  induction f as [|f IH]; intros s1 s2 rs n e r H; [discriminate|].
  destruct s1 as [|top s1].
  - cbn [app] in H. exists (rev n), (rev e), rs. split; [reflexivity|]. rewrite !rev_involutive. exact H.
  - cbn [app] in H. rewrite drive_S in H |- *.
    destruct (dstep chk fs ign top rs n e) as [[[[tops rs1] n1] e1]| |]; cbn [bind] in *; try discriminate.
    rewrite app_assoc in H. destruct (IH _ _ _ _ _ _ H) as [ns [es [rs' [H1 H2]]]].
    exists ns, es, rs'. split; [exact H1|]. apply (drive_mono_le _ _ _ f); [exact H2|lia].
Qed.

Lemma drive_app_inv chk fs ign : forall f1 s1 s2 rs n e ns es rs' f2 r,
  drive f1 chk fs ign s1 rs n e = Ok (ns, es, rs') ->
  drive f2 chk fs ign s2 rs' (rev ns) (rev es) = Ok r ->
  drive (f1 + f2) chk fs ign (s1 ++ s2) rs n e = Ok r.
Proof.
  induction f1 as [|f1 IH]; intros s1 s2 rs n e ns es rs' f2 r H1 H2; [discriminate|].
  destruct s1 as [|top s1].
  - rewrite drive_nil in H1. inversion H1; subst. rewrite !rev_involutive in H2.
    cbn [app]. apply (drive_mono_le _ _ _ f2); [exact H2|lia].
  - cbn [app]. change (S f1 + f2) with (S (f1 + f2)). rewrite drive_S in H1 |- *.
    destruct (dstep chk fs ign top rs n e) as [[[[tops rs1] n1] e1]| |]; cbn [bind] in *; try discriminate.
    rewrite app_assoc. apply (IH _ _ _ _ _ _ _ _ _ _ H1 H2).
Qed.

Lemma run_app chk fs ign s1 s2 rs n e r :
  Run chk fs ign (s1 ++ s2) rs n e r <->
  exists ns es rs', Run chk fs ign s1 rs n e (ns, es, rs') /\ Run chk fs ign s2 rs' (rev ns) (rev es) r.
Proof.
  split.
  - intros [f H]. destruct (drive_app _ _ _ _ _ _ _ _ _ _ H) as [ns [es [rs' [H1 H2]]]].
    exists ns, es, rs'. split; exists f; assumption.
  - intros [ns [es [rs' [[f1 H1] [f2 H2]]]]]. exists (f1 + f2). apply (drive_app_inv _ _ _ _ _ _ _ _ _ _ _ _ _ _ H1 H2).
Qed.

(* ================================================================================== *)
(* 3. the reader                                                                         *)

Lemma import_file_fail fs path rs e rs' : import_file fs path rs = (inl e, rs') -> rs' = rs.
Proof.
  unfold import_file. destruct (assoc_str path fs) as [[text|u]|].
  - destruct (mem_str path (imported rs)); intros H; inversion H; reflexivity.
  - intros H; inversion H; reflexivity.
  - intros H; inversion H; reflexivity.
Qed.

Lemma import_file_ok fs path rs id text rs' : import_file fs path rs = (inr (id, text), rs') ->
  assoc_str path fs = Some (inl text) /\ mem_str path (imported rs) = false /\
  id = N.of_nat (length (imported rs)) /\ rs' = mkrs (imported rs ++ [path]).
Proof.
  unfold import_file. destruct (assoc_str path fs) as [[text'|u]|]; try (intros H; discriminate).
  destruct (mem_str path (imported rs)); intros H; inversion H. repeat split.
Qed.

Lemma dstep_imported chk fs ign top rs n e tops rs' n' e' :
  dstep chk fs ign top rs n e = Ok (tops, rs', n', e') -> exists di, imported rs' = imported rs ++ di.
Proof.
  unfold dstep. destruct (parse_one top) as [[x rest]| |]; cbn [bind]; try discriminate.
  destruct x as [er|nd].
  - intros H. inversion H; subst. exists []. rewrite app_nil_r. reflexivity.
  - destruct (if ign then None else include_path nd) as [path|].
    + destruct (import_file fs (wv path) rs) as [[er|[id text]] rs1] eqn:Ei.
      * intros H. inversion H; subst. apply import_file_fail in Ei. subst. exists []. rewrite app_nil_r. reflexivity.
      * destruct (lex_all chk (Some id) (normalize_text text)); cbn [bind]; try discriminate.
        intros H. inversion H; subst. apply import_file_ok in Ei. destruct Ei as [_ [_ [_ ->]]].
        exists [wv path]. reflexivity.
    + intros H. inversion H; subst. exists []. rewrite app_nil_r. reflexivity.
Qed.

Lemma drive_imported chk fs ign : forall f stack rs n e ns es rs',
  drive f chk fs ign stack rs n e = Ok (ns, es, rs') -> exists di, imported rs' = imported rs ++ di.
Proof.
  induction f as [|f IH]; intros stack rs n e ns es rs' H; [discriminate|].
  destruct stack as [|top below].
  - rewrite drive_nil in H. inversion H; subst. exists []. rewrite app_nil_r. reflexivity.
  - rewrite drive_S in H.
    destruct (dstep chk fs ign top rs n e) as [[[[tops rs1] n1] e1]| |] eqn:Es; cbn [bind] in H; try discriminate.
    destruct (dstep_imported _ _ _ _ _ _ _ _ _ _ _ Es) as [d1 H1]. destruct (IH _ _ _ _ _ _ _ H) as [d2 H2].
    exists (d1 ++ d2). rewrite H2, H1, app_assoc. reflexivity.
Qed.

Lemma mem_str_app k : forall l1 l2, mem_str k (l1 ++ l2) = (mem_str k l1 || mem_str k l2)%bool.
Proof.
  induction l1 as [|x l1 IH]; intros l2; cbn [app mem_str]; [reflexivity|].
  rewrite IH, orb_assoc. reflexivity.
Qed.

Lemma run_imported_mono chk fs ign stack rs n e ns es rs' q :
  Run chk fs ign stack rs n e (ns, es, rs') -> mem_str q (imported rs) = true -> mem_str q (imported rs') = true.
Proof.
  intros [f H] Hm. destruct (drive_imported _ _ _ _ _ _ _ _ _ _ _ H) as [di ->].
  rewrite mem_str_app, Hm. reflexivity.
Qed.

(* ================================================================================== *)
(* 4. include nodes: the path is what the string token spells                            *)

Definition Ret {A} (Q : A -> Prop) (m : P A) : Prop := forall st a st', m st = Ok (inr a, st') -> Q a.

Lemma ret_bind {A B} (QA : A -> Prop) (QB : B -> Prop) (m : P A) (f : A -> P B) :
  Ret QA m -> (forall a, QA a -> Ret QB (f a)) -> Ret QB (pbind m f).
Proof.
  intros Hm Hf st b st' H. unfold pbind in H. destruct (m st) as [[[er|a] st1]| |] eqn:Em; try discriminate.
  apply (Hf a (Hm _ _ _ Em) _ _ _ H).
Qed.
Lemma ret_any {A} (m : P A) : Ret (fun _ => True) m.
Proof. intros st a st' _. exact I. Qed.
Lemma ret_ret {A} (Q : A -> Prop) a : Q a -> Ret Q (ret a).
Proof. intros H st b st' E. unfold ret in E. inversion E; subst. exact H. Qed.
Lemma ret_fail {A} (Q : A -> Prop) e : Ret Q (@fail A e).
Proof. intros st b st' E. discriminate. Qed.

Definition inc_wf (n : pnode) : Prop :=
  forall pth, include_path n = Some pth -> tok_path (wt pth) = Some (wv pth).

Ltac rstep :=
  cbv beta;
  lazymatch goal with
  | |- Ret _ (pbind _ _) => eapply ret_bind; [apply ret_any|intros ? _]
  | |- Ret _ (ret _) => apply ret_ret; intros ? Hinc; discriminate Hinc
  | |- Ret _ (fail _) => apply ret_fail
  | |- Ret _ (match ?x with _ => _ end) => destruct x
  end.

Lemma parse_inst_incwf i t0 : Ret inc_wf (parse_inst i t0).
Proof.
  unfold parse_inst. cbv zeta. destruct (inst_kind i); solve [repeat rstep].
Qed.

Lemma get_string_path : Ret (fun s : wth str => tok_path (wt s) = Some (wv s)) get_string.
Proof.
  intros st s st' H. unfold get_string, pbind in H.
  destruct (get_any st) as [[[er|t] st1]| |]; try discriminate.
  unfold as_string, tok_string in H. unfold tok_path.
  destruct (tt t) eqn:Et; try discriminate; unfold ret in H; inversion H; subst; cbn [wt wv]; rewrite Et; reflexivity.
Qed.

Lemma parse_directive_incwf d t0 : Ret inc_wf (parse_directive d t0).
Proof.
  unfold parse_directive. cbv zeta. destruct d; try solve [repeat rstep].
  eapply ret_bind; [apply get_string_path|]. intros s Hs. cbv beta.
  eapply ret_bind; [apply ret_any|intros rt _]. apply ret_ret.
  intros pth Hp. cbn [include_path] in Hp. inversion Hp; subst. exact Hs.
Qed.

Lemma parse_stmt_incwf : Ret inc_wf parse_stmt.
Proof.
  unfold parse_stmt. eapply ret_bind; [apply ret_any|intros t0 _]. cbv beta.
  destruct (tt t0); try solve [repeat rstep].
  - destruct (inst_from_str s); [apply parse_inst_incwf|apply ret_fail].
  - destruct (dir_from_str s); [apply parse_directive_incwf|apply ret_fail].
Qed.

Lemma parse_one_incwf items n rest : parse_one items = Ok (inr n, rest) -> inc_wf n.
Proof.
  unfold parse_one. destruct (parse_stmt (items, None)) as [[x [rest' o]]| |] eqn:E; cbn [bind]; try discriminate.
  intros H. inversion H; subst. apply (parse_stmt_incwf _ _ _ E).
Qed.

(* ================================================================================== *)
(* 5. the driver on stacks equal up to positions, same store and reader state           *)

Lemma some_inj {A} (a b : A) : Some a = Some b -> a = b.
Proof. intros H. exact (f_equal (fun o => match o with Some x => x | None => a end) H). Qed.
Lemma inl_inj {A B} (a b : A) : @inl A B a = inl b -> a = b.
Proof. intros H. exact (f_equal (fun o => match o with inl x => x | inr _ => a end) H). Qed.
Lemma inr_inj {A B} (a b : B) : @inr A B a = inr b -> a = b.
Proof. intros H. exact (f_equal (fun o => match o with inr x => x | inl _ => a end) H). Qed.

Lemma F2_items_app s1 s2 b1 b2 :
  Forall2 items_eq s1 s2 -> Forall2 items_eq b1 b2 -> Forall2 items_eq (s1 ++ b1) (s2 ++ b2).
Proof. intros H1 H2. apply Forall2_app; assumption. Qed.

(* outcome of one step, compared *)
Definition dstep_agree (r1 r2 : res (list (list lexitem) * rstate * list pnode * list parse_error)) : Prop :=
  match r1, r2 with
  | Ok (t1, s1, n1, e1), Ok (t2, s2, n2, e2) =>
      Forall2 items_eq t1 t2 /\ s1 = s2 /\ map erase_node n1 = map erase_node n2 /\
      map erase_perr e1 = map erase_perr e2
  | Panic a, Panic b => a = b
  | OutOfFuel, OutOfFuel => True
  | _, _ => False
  end.

Lemma erase_to_parse_error e p1 p2 : erase_w p1 = erase_w p2 ->
  erase_perr (to_parse_error e p1) = erase_perr (to_parse_error e p2).
Proof.
  intros H.
  assert (Ht : erase_tok (wt p1) = erase_tok (wt p2)) by (exact (f_equal wt H)).
  destruct e; cbn [to_parse_error erase_perr]; rewrite ?H, ?Ht; reflexivity.
Qed.

Lemma erase_w_wv {A} (p1 p2 : wth A) : erase_w p1 = erase_w p2 -> wv p1 = wv p2.
Proof. intros H. exact (f_equal wv H). Qed.

(* what [parse_one_agree] gives, in a directly usable form *)
Lemma parse_one_agree_inv l1 l2 : items_eq l1 l2 ->
  match parse_one l1, parse_one l2 with
  | Ok (x1, r1), Ok (x2, r2) => erase_stmt x1 = erase_stmt x2 /\ items_eq r1 r2
  | Panic a, Panic b => a = b
  | OutOfFuel, OutOfFuel => True
  | _, _ => False
  end.
Proof.
  intros H. pose proof (parse_one_erase l1 l2 H) as Ha. unfold parse_one_agree in Ha.
  destruct (parse_one l1) as [[x1 r1]| |], (parse_one l2) as [[x2 r2]| |]; try exact Ha. tauto.
Qed.

Lemma stmt_next_agree x1 x2 r1 r2 : erase_stmt x1 = erase_stmt x2 -> items_eq r1 r2 ->
  match stmt_next x1 r1, stmt_next x2 r2 with
  | Some t1, Some t2 => items_eq t1 t2
  | None, None => True
  | _, _ => False
  end.
Proof.
  intros Hx Hr. pose proof (stmt_next_erased x1 r1) as H1. pose proof (stmt_next_erased x2 r2) as H2.
  unfold items_eq in Hr. rewrite Hx, Hr, H2 in H1.
  destruct (stmt_next x1 r1), (stmt_next x2 r2); cbn [option_map] in H1; try discriminate; [|exact I].
  inversion H1. unfold items_eq. congruence.
Qed.

Lemma err_perr_agree e1 e2 : erase_lexerr e1 = erase_lexerr e2 ->
  option_map erase_perr (err_perr e1) = option_map erase_perr (err_perr e2).
Proof. intros H. rewrite <- !err_perr_erased, H. reflexivity. Qed.
Lemma err_nodes_agree e1 e2 : erase_lexerr e1 = erase_lexerr e2 ->
  map erase_node (err_nodes e1) = map erase_node (err_nodes e2).
Proof. intros H. rewrite <- !err_nodes_erased, H. reflexivity. Qed.

(* the error half of a step *)
Lemma dstep_err_agree (e1 e2 : lexerr) r1 r2 (rs : rstate) n1 n2 er1 er2 :
  erase_lexerr e1 = erase_lexerr e2 -> items_eq r1 r2 ->
  map erase_node n1 = map erase_node n2 -> map erase_perr er1 = map erase_perr er2 ->
  Forall2 items_eq (match stmt_next (inl e1) r1 with Some t => [t] | None => [] end)
                   (match stmt_next (inl e2) r2 with Some t => [t] | None => [] end) /\
  map erase_node (err_nodes e1 ++ n1) = map erase_node (err_nodes e2 ++ n2) /\
  map erase_perr (match err_perr e1 with Some pe => pe :: er1 | None => er1 end) =
  map erase_perr (match err_perr e2 with Some pe => pe :: er2 | None => er2 end).
Proof.
  intros He Hr Hn Her. split; [|split].
  - pose proof (stmt_next_agree (inl e1) (inl e2) r1 r2 (f_equal inl He) Hr) as H.
    destruct (stmt_next (inl e1) r1), (stmt_next (inl e2) r2); try contradiction; repeat constructor. exact H.
  - rewrite !map_app, (err_nodes_agree _ _ He), Hn. reflexivity.
  - pose proof (err_perr_agree _ _ He) as H.
    destruct (err_perr e1), (err_perr e2); cbn [option_map] in H; try discriminate; cbn [map]; [|exact Her].
    inversion H. rewrite Her. reflexivity.
Qed.

Lemma dstep_erase chk fs ign top1 top2 rs n1 n2 e1 e2 :
  items_eq top1 top2 -> map erase_node n1 = map erase_node n2 -> map erase_perr e1 = map erase_perr e2 ->
  dstep_agree (dstep chk fs ign top1 rs n1 e1) (dstep chk fs ign top2 rs n2 e2).
Proof.
  intros Ht Hn He. unfold dstep. pose proof (parse_one_agree_inv _ _ Ht) as Hp.
  destruct (parse_one top1) as [[x1 r1]| |], (parse_one top2) as [[x2 r2]| |]; try contradiction;
    cbn [bind dstep_agree]; try exact Hp.
  destruct Hp as [Hx Hr].
  destruct x1 as [er1|nd1], x2 as [er2|nd2]; cbn [erase_stmt] in Hx; try discriminate.
  - assert (Hx' : erase_lexerr er1 = erase_lexerr er2) by (exact (inl_inj _ _ Hx)).
    destruct (dstep_err_agree er1 er2 r1 r2 rs n1 n2 e1 e2 Hx' Hr Hn He) as [A1 [A2 A3]].
    cbn [dstep_agree]. repeat split; assumption.
  - assert (Hx' : erase_node nd1 = erase_node nd2) by (exact (inr_inj _ _ Hx)).
    assert (Hinc : option_map erase_w (include_path nd1) = option_map erase_w (include_path nd2))
      by (rewrite <- !include_path_erased, Hx'; reflexivity).
    assert (Hnone : dstep_agree (Ok ([r1], rs, nd1 :: n1, e1)) (Ok ([r2], rs, nd2 :: n2, e2))).
    { cbn [dstep_agree map]. rewrite Hx', Hn. repeat split; try assumption. repeat constructor. exact Hr. }
    destruct ign; [exact Hnone|].
    destruct (include_path nd1) as [p1|], (include_path nd2) as [p2|]; cbn [option_map] in Hinc; try discriminate;
      [|exact Hnone].
    assert (Hp : erase_w p1 = erase_w p2) by (exact (some_inj _ _ Hinc)).
    rewrite <- (erase_w_wv _ _ Hp).
    destruct (import_file fs (wv p1) rs) as [[er|[id text]] rs'].
    + cbn [dstep_agree map]. rewrite (erase_to_parse_error er p1 p2 Hp), He. repeat split; try assumption.
      repeat constructor. exact Hr.
    + destruct (lex_all chk (Some id) (normalize_text text)) as [items| |]; cbn [bind dstep_agree]; try exact I;
        [|reflexivity].
      repeat split; try assumption. constructor; [apply items_eq_refl|constructor; [exact Hr|constructor]].
Qed.

(* (A) the driver is position-parametric: with the same store and reader state, two stacks of
   item streams that are equal up to positions give nodes and errors equal up to positions,
   and the same final reader state (or the same panic / both out of fuel) *)
Theorem drive_erase chk fs ign : forall f stack1 stack2 rs n1 n2 e1 e2,
  Forall2 items_eq stack1 stack2 ->
  map erase_node n1 = map erase_node n2 -> map erase_perr e1 = map erase_perr e2 ->
  drive_agree (drive f chk fs ign stack1 rs n1 e1) (drive f chk fs ign stack2 rs n2 e2).
Proof.
  induction f as [|f IH]; intros stack1 stack2 rs n1 n2 e1 e2 Hs Hn He; [exact I|].
  destruct Hs as [|top1 top2 below1 below2 Ht Hb].
  - rewrite !drive_nil. cbn [drive_agree]. rewrite !map_rev, Hn, He. repeat split.
  - rewrite !drive_S. pose proof (dstep_erase chk fs ign top1 top2 rs n1 n2 e1 e2 Ht Hn He) as Hd.
    destruct (dstep chk fs ign top1 rs n1 e1) as [[[[t1 s1] m1] g1]| |],
             (dstep chk fs ign top2 rs n2 e2) as [[[[t2 s2] m2] g2]| |]; try contradiction;
      cbn [bind drive_agree]; try exact Hd.
    destruct Hd as [D1 [D2 [D3 D4]]]. subst s2. apply IH; [apply F2_items_app; assumption|assumption|assumption].
Qed.

(* ================================================================================== *)
(* 6. the same, with two stores / reader states that agree outside a set of paths        *)

Definition rd_agree (excl : str -> Prop) (fs1 : store) (rs1 : rstate) (fs2 : store) (rs2 : rstate) : Prop :=
  forall q, ~ excl q ->
    mem_str q (imported rs1) = mem_str q (imported rs2) /\
    (assoc_str q fs1 = assoc_str q fs2 \/
     (mem_str q (imported rs1) = true /\
      exists t1 t2, assoc_str q fs1 = Some (inl t1) /\ assoc_str q fs2 = Some (inl t2))).

Lemma rd_agree_snoc excl fs1 rs1 fs2 rs2 q :
  rd_agree excl fs1 rs1 fs2 rs2 ->
  rd_agree excl fs1 (mkrs (imported rs1 ++ [q])) fs2 (mkrs (imported rs2 ++ [q])).
Proof.
  intros H q' Hq'. destruct (H q' Hq') as [H2 H1]. cbn [imported]. split.
  - rewrite !mem_str_snoc, H2. reflexivity.
  - destruct H1 as [H1|[H1 H3]]; [left; exact H1|right]. split; [|exact H3].
    rewrite mem_str_snoc, H1. reflexivity.
Qed.

Lemma rd_agree_snoc_l (excl : str -> Prop) fs1 rs1 fs2 rs2 p :
  excl p -> rd_agree excl fs1 rs1 fs2 rs2 -> rd_agree excl fs1 (mkrs (imported rs1 ++ [p])) fs2 rs2.
Proof.
  intros Hp H q Hq. destruct (H q Hq) as [H2 H1]. cbn [imported].
  assert (Hneq : str_eqb q p = false).
  { destruct (str_eqb q p) eqn:E; [|reflexivity]. apply str_eqb_eq in E. subst q. contradiction. }
  split.
  - rewrite mem_str_snoc, H2, Hneq. apply orb_false_r.
  - destruct H1 as [H1|[H1 H3]]; [left; exact H1|right]. split; [|exact H3].
    rewrite mem_str_snoc, H1. reflexivity.
Qed.

(* an excluded path [q] is never the path of an include directive reached by run 1: either it
   is never imported (and it could be), or it was imported before and no "already imported"
   error mentions it *)
Definition excl_ok (excl : str -> Prop) (fs1 : store) (rs1 : rstate)
  (es1 : list parse_error) (rs1' : rstate) : Prop :=
  forall q, excl q -> (exists T, assoc_str q fs1 = Some (inl T)) /\
    (mem_str q (imported rs1') = false \/ (mem_str q (imported rs1) = true /\ no_cyclic q es1)).

Lemma drive_lockstep chk fs1 fs2 ign (excl : str -> Prop) :
  (forall q, excl q \/ ~ excl q) ->
  forall f stack1 stack2 rs1 rs2 n1 n2 e1 e2 ns1 es1 rs1',
  Forall2 items_eq stack1 stack2 -> rd_agree excl fs1 rs1 fs2 rs2 ->
  map erase_node n1 = map erase_node n2 -> map erase_perr e1 = map erase_perr e2 ->
  drive f chk fs1 ign stack1 rs1 n1 e1 = Ok (ns1, es1, rs1') ->
  excl_ok excl fs1 rs1 es1 rs1' ->
  exists ns2 es2 rs2', drive f chk fs2 ign stack2 rs2 n2 e2 = Ok (ns2, es2, rs2') /\
    map erase_node ns1 = map erase_node ns2 /\ map erase_perr es1 = map erase_perr es2 /\
    rd_agree excl fs1 rs1' fs2 rs2'.
Proof.
  intros Hdec. induction f as [|f IH];
    intros stack1 stack2 rs1 rs2 n1 n2 e1 e2 ns1 es1 rs1' Hs Hrd Hn He Hrun Hex; [discriminate|].
  destruct Hs as [|top1 top2 below1 below2 Ht Hb].
  { rewrite drive_nil in Hrun |- *. inversion Hrun; subst. do 3 eexists. split; [reflexivity|].
    rewrite !map_rev, Hn, He. split; [reflexivity|]. split; [reflexivity|exact Hrd]. }
  rewrite drive_S in Hrun |- *.
  (* a step of run 1, and the matching step of run 2 *)
  assert (Hstep : forall t1 s1 m1 g1, dstep chk fs1 ign top1 rs1 n1 e1 = Ok (t1, s1, m1, g1) ->
            drive f chk fs1 ign (t1 ++ below1) s1 m1 g1 = Ok (ns1, es1, rs1') ->
            exists t2 s2 m2 g2, dstep chk fs2 ign top2 rs2 n2 e2 = Ok (t2, s2, m2, g2) /\
              Forall2 items_eq t1 t2 /\ rd_agree excl fs1 s1 fs2 s2 /\
              map erase_node m1 = map erase_node m2 /\ map erase_perr g1 = map erase_perr g2 /\
              excl_ok excl fs1 s1 es1 rs1').
  { intros t1 s1 m1 g1 Hd1 Hrest. unfold dstep in Hd1 |- *.
    pose proof (parse_one_agree_inv _ _ Ht) as Hp.
    destruct (parse_one top1) as [[x1 r1]| |] eqn:Ep1; cbn [bind] in Hd1; try discriminate.
    destruct (parse_one top2) as [[x2 r2]| |]; try contradiction. cbn [bind]. destruct Hp as [Hx Hr].
    destruct x1 as [er1|nd1], x2 as [er2|nd2]; cbn [erase_stmt] in Hx; try discriminate.
    - assert (Hx' : erase_lexerr er1 = erase_lexerr er2) by (exact (inl_inj _ _ Hx)).
      destruct (dstep_err_agree er1 er2 r1 r2 rs1 n1 n2 e1 e2 Hx' Hr Hn He) as [A1 [A2 A3]].
      inversion Hd1; subst. do 4 eexists. split; [reflexivity|].
      split; [exact A1|]. split; [exact Hrd|]. split; [exact A2|]. split; [exact A3|exact Hex].
    - assert (Hx' : erase_node nd1 = erase_node nd2) by (exact (inr_inj _ _ Hx)).
      assert (Hinc : option_map erase_w (include_path nd1) = option_map erase_w (include_path nd2))
        by (rewrite <- !include_path_erased, Hx'; reflexivity).
      assert (Hnone : (if ign then None else include_path nd1) = None ->
                      (if ign then None else include_path nd2) = None).
      { destruct ign; [reflexivity|]. intros H0. rewrite H0 in Hinc.
        destruct (include_path nd2); [discriminate|reflexivity]. }
      destruct (if ign then None else include_path nd1) as [p1|] eqn:Ei1.
      2:{ rewrite (Hnone eq_refl). inversion Hd1; subst. do 4 eexists. split; [reflexivity|].
          cbn [map]. rewrite Hx', Hn.
          split; [repeat constructor; exact Hr|]. split; [exact Hrd|]. split; [reflexivity|]. split; [exact He|exact Hex]. }
      destruct ign; [discriminate|]. rewrite Ei1 in Hinc.
      destruct (include_path nd2) as [p2|]; [|discriminate].
      assert (Hp : erase_w p1 = erase_w p2) by (exact (some_inj _ _ Hinc)).
      rewrite <- (erase_w_wv _ _ Hp).
      pose proof (parse_one_incwf _ _ _ Ep1 p1 Ei1) as Hwf.
      assert (HE : forall er, map erase_perr (to_parse_error er p1 :: e1) = map erase_perr (to_parse_error er p2 :: e2)).
      { intros er. cbn [map]. rewrite (erase_to_parse_error er p1 p2 Hp), He. reflexivity. }
      destruct (Hdec (wv p1)) as [Hq|Hq].
      + (* an excluded path: impossible *)
        exfalso. destruct (Hex _ Hq) as [[T HT] Hgood].
        unfold import_file in Hd1. rewrite HT in Hd1.
        destruct (mem_str (wv p1) (imported rs1)) eqn:Em.
        * (* already imported: a cyclic error about it is recorded *)
          inversion Hd1; subst. destruct Hgood as [Hf|[_ Hnc]].
          -- assert (Hm : mem_str (wv p1) (imported rs1') = true).
             { apply (run_imported_mono chk fs1 false _ _ _ _ _ _ _ _ (ex_intro _ f Hrest) Em). }
             rewrite Hf in Hm. discriminate.
          -- apply (Hnc (wt p1)); [|exact Hwf].
             rewrite drive_acc in Hrest.
             destruct (drive f chk fs1 false ([r1] ++ below1) s1 [] []) as [[[dn de] rs'']| |]; try discriminate.
             inversion Hrest; subst. apply in_or_app. left. apply in_or_app. right. left. reflexivity.
        * destruct (lex_all chk (Some (N.of_nat (length (imported rs1)))) (normalize_text T)); cbn [bind] in Hd1;
            try discriminate. inversion Hd1; subst.
          assert (Hm : mem_str (wv p1) (imported rs1') = true).
          { apply (run_imported_mono chk fs1 false _ _ _ _ _ _ _ _ (ex_intro _ f Hrest)). cbn [imported].
            rewrite mem_str_snoc, str_eqb_refl. apply orb_true_r. }
          destruct Hgood as [Hf|[Hf _]]; [rewrite Hf in Hm; discriminate|rewrite Hf in Em; discriminate].
      + destruct (Hrd _ Hq) as [Hm [Ha|[Hm1 [tx1 [tx2 [Ha1 Ha2]]]]]].
        2:{ unfold import_file in Hd1 |- *. rewrite Ha1, Hm1 in Hd1. rewrite Ha2, <- Hm, Hm1.
            inversion Hd1; subst. do 4 eexists. split; [reflexivity|].
            split; [repeat constructor; exact Hr|]. split; [exact Hrd|]. split; [exact Hn|].
            split; [exact (HE REFileAlreadyRead)|exact Hex]. }
        unfold import_file in Hd1 |- *. rewrite <- Ha, <- Hm.
        destruct (assoc_str (wv p1) fs1) as [[text|u]|].
        * destruct (mem_str (wv p1) (imported rs1)).
          -- inversion Hd1; subst. do 4 eexists. split; [reflexivity|].
             split; [repeat constructor; exact Hr|]. split; [exact Hrd|]. split; [exact Hn|].
             split; [exact (HE REFileAlreadyRead)|exact Hex].
          -- destruct (lexed_text chk (N.of_nat (length (imported rs2))) text) as [items2 [Hl2 _]].
             rewrite Hl2. cbn [bind].
             destruct (lex_all chk (Some (N.of_nat (length (imported rs1)))) (normalize_text text)) as [items1| |] eqn:Hl1;
               cbn [bind] in Hd1; try discriminate. inversion Hd1; subst.
             do 4 eexists. split; [reflexivity|]. split; [|split; [apply rd_agree_snoc; exact Hrd|]].
             ++ constructor; [apply (lex_all_refile chk _ _ _ _ _ Hl1 Hl2)|repeat constructor; exact Hr].
             ++ split; [exact Hn|]. split; [exact He|].
                intros q0 Hexq. destruct (Hex q0 Hexq) as [HT Hg]. split; [exact HT|].
                destruct Hg as [Hg|[Hg1 Hg2]]; [left; exact Hg|right]. split; [|exact Hg2].
                cbn [imported]. rewrite mem_str_snoc, Hg1. reflexivity.
        * inversion Hd1; subst. do 4 eexists. split; [reflexivity|].
          split; [repeat constructor; exact Hr|]. split; [exact Hrd|]. split; [exact Hn|].
          split; [exact (HE REIOErr)|exact Hex].
        * inversion Hd1; subst. do 4 eexists. split; [reflexivity|].
          split; [repeat constructor; exact Hr|]. split; [exact Hrd|]. split; [exact Hn|].
          split; [exact (HE REInvalidPath)|exact Hex]. }
  destruct (dstep chk fs1 ign top1 rs1 n1 e1) as [[[[t1 s1] m1] g1]| |] eqn:Ed1; cbn [bind] in Hrun; try discriminate.
  destruct (Hstep _ _ _ _ eq_refl Hrun) as [t2 [s2 [m2 [g2 [Hd2 [B1 [B2 [B3 [B4 B5]]]]]]]]].
  rewrite Hd2. cbn [bind].
  apply (IH _ _ _ _ _ _ _ _ _ _ _ (F2_items_app _ _ _ _ B1 Hb) B2 B3 B4 Hrun B5).
Qed.
