(* Location parametricity of the analysis, part 1: the logical relation.
   `P : loc -> loc -> Prop` is an arbitrary relation between source locations.  Two objects are related
   when they are equal except for the locations they embed, and corresponding locations are related by P.
   This file: the relation on tokens / nodes / abstract values / graph nodes / graphs / errors, generic
   list lemmas, and the leaf lemmas (every accessor of a parser node respects the relation). *)
From Coq Require Import List ZArith NArith Bool Lia.
From RV.Model Require Import Base I32 Imm Lexer Isa Parser Reader Cfg Avail Live Lints.
Import ListNotations.

(* ---- generic relators ------------------------------------------------------------------- *)
Inductive rel_option {A B} (R : A -> B -> Prop) : option A -> option B -> Prop :=
| ro_none : rel_option R None None
| ro_some a b : R a b -> rel_option R (Some a) (Some b).
Inductive rel_sum {A B C D} (RA : A -> B -> Prop) (RC : C -> D -> Prop) : A + C -> B + D -> Prop :=
| rs_inl a b : RA a b -> rel_sum RA RC (inl a) (inl b)
| rs_inr c d : RC c d -> rel_sum RA RC (inr c) (inr d).
Inductive rel_res {A B} (R : A -> B -> Prop) : res A -> res B -> Prop :=
| rr_ok a b : R a b -> rel_res R (Ok a) (Ok b)
| rr_panic s : rel_res R (Panic s) (Panic s)
| rr_fuel : rel_res R OutOfFuel OutOfFuel.
Inductive rel_prod {A B C D} (RA : A -> B -> Prop) (RC : C -> D -> Prop) : A * C -> B * D -> Prop :=
| rp_intro a b c d : RA a b -> RC c d -> rel_prod RA RC (a, c) (b, d).
#[global] Hint Constructors rel_option rel_sum rel_res rel_prod : prel.

Lemma rel_res_bind {A B C D} (R : A -> B -> Prop) (S : C -> D -> Prop) r1 r2 f1 f2 :
  rel_res R r1 r2 -> (forall a b, R a b -> rel_res S (f1 a) (f2 b)) -> rel_res S (bind r1 f1) (bind r2 f2).
Proof. intros Hr Hf. destruct Hr; cbn; auto with prel. Qed.

Section Rel.
Variable P : loc -> loc -> Prop.

Inductive Rt : token -> token -> Prop :=
| Rt_intro ty r1 f1 r2 f2 : P (mkloc r1 f1) (mkloc r2 f2) -> Rt (mktok ty r1 f1) (mktok ty r2 f2).
Inductive Rw {A} : wth A -> wth A -> Prop :=
| Rw_intro v t1 t2 : Rt t1 t2 -> Rw (mkw v t1) (mkw v t2).
(* same value, same token type, locations unconstrained (for a token no diagnostic ever points at) *)
Inductive Rw0 {A} : wth A -> wth A -> Prop :=
| Rw0_intro v ty r1 f1 r2 f2 : Rw0 (mkw v (mktok ty r1 f1)) (mkw v (mktok ty r2 f2)).
Inductive Rr : rawtok -> rawtok -> Prop :=
| Rr_intro r1 f1 r2 f2 : P (mkloc r1 f1) (mkloc r2 f2) -> Rr (mkraw r1 f1) (mkraw r2 f2).

Inductive Rdt : dirtype -> dirtype -> Prop :=
| Rdt_inc p1 p2 : Rw p1 p2 -> Rdt (DInc p1) (DInc p2)
| Rdt_al i1 i2 : Rw i1 i2 -> Rdt (DAl i1) (DAl i2)
| Rdt_asc t1 t2 z : Rw t1 t2 -> Rdt (DAsc t1 z) (DAsc t2 z)
| Rdt_data : Rdt DDataSection DDataSection
| Rdt_text : Rdt DTextSection DTextSection
| Rdt_dat dt v1 v2 : Forall2 Rw v1 v2 -> Rdt (DDat dt v1) (DDat dt v2)
| Rdt_sp i1 i2 : Rw i1 i2 -> Rdt (DSp i1) (DSp i2).

Inductive Rn : pnode -> pnode -> Prop :=
| Rn_pentry f1 f2 r1 r2 : Rr r1 r2 -> Rn (PProgramEntry f1 r1) (PProgramEntry f2 r2)
| Rn_fentry f1 f2 r1 r2 h : Rr r1 r2 -> Rn (PFuncEntry f1 r1 h) (PFuncEntry f2 r2 h)
| Rn_arith i1 i2 d1 d2 a1 a2 b1 b2 r1 r2 :
    Rw i1 i2 -> Rw d1 d2 -> Rw a1 a2 -> Rw b1 b2 -> Rr r1 r2 -> Rn (PArith i1 d1 a1 b1 r1) (PArith i2 d2 a2 b2 r2)
| Rn_iarith i1 i2 d1 d2 a1 a2 m1 m2 r1 r2 :
    Rw i1 i2 -> Rw d1 d2 -> Rw a1 a2 -> Rw m1 m2 -> Rr r1 r2 -> Rn (PIArith i1 d1 a1 m1 r1) (PIArith i2 d2 a2 m2 r2)
| Rn_label n1 n2 r1 r2 : Rw n1 n2 -> Rr r1 r2 -> Rn (PLabel n1 r1) (PLabel n2 r2)
| Rn_jl i1 i2 d1 d2 n1 n2 r1 r2 :
    Rw i1 i2 -> Rw d1 d2 -> Rw n1 n2 -> Rr r1 r2 -> Rn (PJumpLink i1 d1 n1 r1) (PJumpLink i2 d2 n2 r2)
| Rn_jlr i1 i2 d1 d2 a1 a2 m1 m2 r1 r2 :
    Rw i1 i2 -> Rw d1 d2 -> Rw a1 a2 -> Rw m1 m2 -> Rr r1 r2 -> Rn (PJumpLinkR i1 d1 a1 m1 r1) (PJumpLinkR i2 d2 a2 m2 r2)
| Rn_basic i1 i2 r1 r2 : Rw i1 i2 -> Rr r1 r2 -> Rn (PBasic i1 r1) (PBasic i2 r2)
| Rn_dir d1 d2 t1 t2 r1 r2 : Rw d1 d2 -> Rdt t1 t2 -> Rr r1 r2 -> Rn (PDirective d1 t1 r1) (PDirective d2 t2 r2)
| Rn_branch i1 i2 a1 a2 b1 b2 n1 n2 r1 r2 :
    Rw i1 i2 -> Rw a1 a2 -> Rw b1 b2 -> Rw n1 n2 -> Rr r1 r2 -> Rn (PBranch i1 a1 b1 n1 r1) (PBranch i2 a2 b2 n2 r2)
| Rn_store i1 i2 a1 a2 b1 b2 m1 m2 r1 r2 :
    Rw i1 i2 -> Rw a1 a2 -> Rw b1 b2 -> Rw m1 m2 -> Rr r1 r2 -> Rn (PStore i1 a1 b1 m1 r1) (PStore i2 a2 b2 m2 r2)
| Rn_load i1 i2 d1 d2 a1 a2 m1 m2 r1 r2 :
    Rw i1 i2 -> Rw d1 d2 -> Rw a1 a2 -> Rw m1 m2 -> Rr r1 r2 -> Rn (PLoad i1 d1 a1 m1 r1) (PLoad i2 d2 a2 m2 r2)
| Rn_la i1 i2 d1 d2 n1 n2 r1 r2 :
    Rw i1 i2 -> Rw d1 d2 -> Rw n1 n2 -> Rr r1 r2 -> Rn (PLoadAddr i1 d1 n1 r1) (PLoadAddr i2 d2 n2 r2)
| Rn_csr i1 i2 d1 d2 c1 c2 a1 a2 r1 r2 :
    Rw i1 i2 -> Rw d1 d2 -> Rw c1 c2 -> Rw a1 a2 -> Rr r1 r2 -> Rn (PCsr i1 d1 c1 a1 r1) (PCsr i2 d2 c2 a2 r2)
| Rn_csri i1 i2 d1 d2 c1 c2 m1 m2 r1 r2 :
    Rw i1 i2 -> Rw d1 d2 -> Rw0 c1 c2 -> Rw m1 m2 -> Rr r1 r2 -> Rn (PCsrI i1 d1 c1 m1 r1) (PCsrI i2 d2 c2 m2 r2).

(* abstract values: only AAddr embeds a token *)
Definition is_addr (a : aval) : bool := match a with AAddr _ => true | _ => false end.
Inductive Rav : aval -> aval -> Prop :=
| Rav_addr l1 l2 : Rw l1 l2 -> Rav (AAddr l1) (AAddr l2)
| Rav_same a : is_addr a = false -> Rav a a.
Inductive Rkv {K} : K * aval -> K * aval -> Prop :=
| Rkv_intro k a1 a2 : Rav a1 a2 -> Rkv (k, a1) (k, a2).
Definition Rrm : regmap -> regmap -> Prop := Forall2 Rkv.
Definition Rmm : memmap -> memmap -> Prop := Forall2 Rkv.

Inductive Rc : cnode -> cnode -> Prop :=
| Rc_intro n1 n2 l1 l2 tx nx pv fs ri1 ri2 ro1 ro2 mi1 mi2 mo1 mo2 li lo ud :
    Rn n1 n2 -> Forall2 Rw l1 l2 -> Rrm ri1 ri2 -> Rrm ro1 ro2 -> Rmm mi1 mi2 -> Rmm mo1 mo2 ->
    Rc (mkcn n1 l1 tx nx pv fs ri1 ro1 mi1 mo1 li lo ud) (mkcn n2 l2 tx nx pv fs ri2 ro2 mi2 mo2 li lo ud).
Definition Rcs : list cnode -> list cnode -> Prop := Forall2 Rc.
Inductive Rg : cfg -> cfg -> Prop :=
| Rg_intro ns1 ns2 fs lf : Rcs ns1 ns2 -> Rg (mkcfg ns1 fs lf) (mkcfg ns2 fs lf).

Inductive Rerr : cfgerr -> cfgerr -> Prop :=
| Rerr_undef l1 l2 : Forall2 Rw l1 l2 -> Rerr (CLabelsNotDefined l1) (CLabelsNotDefined l2)
| Rerr_dup l1 l2 : Rw l1 l2 -> Rerr (CDuplicateLabel l1) (CDuplicateLabel l2)
| Rerr_noinst l1 l2 : Rw l1 l2 -> Rerr (CLabelWithoutInstruction l1) (CLabelWithoutInstruction l2)
| Rerr_noret n1 n2 l1 l2 : Rn n1 n2 -> Forall2 Rw l1 l2 -> Rerr (CFunctionWithoutReturn n1 l1) (CFunctionWithoutReturn n2 l2)
| Rerr_unexp : Rerr CUnexpectedError CUnexpectedError.

Inductive Rsr : stage_res cfg -> stage_res cfg -> Prop :=
| Rsr_ok g1 g2 : Rg g1 g2 -> Rsr (SOk g1) (SOk g2)
| Rsr_err e1 e2 : Rerr e1 e2 -> Rsr (SErr e1) (SErr e2).

(* lints: same code, same optional flag, candidate locations pairwise related *)
Inductive Rl : lint -> lint -> Prop :=
| Rl_intro c l1 l2 o : Forall2 P l1 l2 -> Rl (mklint c l1 o) (mklint c l2 o).
End Rel.

#[global] Hint Constructors Rt Rw Rw0 Rr Rdt Rn Rav Rkv Rc Rg Rerr Rsr Rl : prel.
#[global] Hint Unfold Rrm Rmm Rcs : prel.

(* destruct every token-level relation hypothesis whose two sides are variables *)
Ltac inv_tok :=
  repeat match goal with
  | H : Rw _ ?a ?b |- _ => is_var a; is_var b; destruct H
  | H : Rw0 ?a ?b |- _ => is_var a; is_var b; destruct H
  | H : Rt _ ?a ?b |- _ => is_var a; is_var b; destruct H
  | H : Rr _ ?a ?b |- _ => is_var a; is_var b; destruct H
  end.

(* ---- generic list lemmas ---------------------------------------------------------------- *)
Section Lists.
Context {A B : Type} (R : A -> B -> Prop).

Lemma F2_length l1 l2 : Forall2 R l1 l2 -> length l1 = length l2.
Proof. induction 1; cbn; congruence. Qed.

Lemma F2_nth_opt l1 l2 i : Forall2 R l1 l2 -> rel_option R (nth_opt l1 i) (nth_opt l2 i).
Proof.
  intros H. revert i. induction H as [|a b l1 l2 Hab Hl IH]; intros i.
  - destruct i; constructor.
  - destruct i as [|i]; cbn; [constructor; exact Hab|apply IH].
Qed.

Lemma F2_upd l1 l2 i f1 f2 :
  Forall2 R l1 l2 -> (forall a b, R a b -> R (f1 a) (f2 b)) -> Forall2 R (upd l1 i f1) (upd l2 i f2).
Proof.
  intros H Hf. revert i. induction H as [|a b l1 l2 Hab Hl IH]; intros i.
  - destruct i; constructor.
  - destruct i as [|i]; cbn; constructor; auto.
Qed.

Lemma F2_app l1 l2 m1 m2 : Forall2 R l1 l2 -> Forall2 R m1 m2 -> Forall2 R (l1 ++ m1) (l2 ++ m2).
Proof. intros H1 H2. induction H1; cbn; auto. Qed.

Lemma F2_rev l1 l2 : Forall2 R l1 l2 -> Forall2 R (rev l1) (rev l2).
Proof. induction 1; cbn; [constructor|]. apply F2_app; auto. Qed.

Lemma F2_filter f1 f2 l1 l2 :
  Forall2 R l1 l2 -> (forall a b, R a b -> f1 a = f2 b) -> Forall2 R (filter f1 l1) (filter f2 l2).
Proof.
  intros H Hf. induction H as [|a b l1 l2 Hab Hl IH]; cbn; [constructor|].
  rewrite (Hf a b Hab). destruct (f2 b); auto.
Qed.

Lemma F2_existsb f1 f2 l1 l2 :
  Forall2 R l1 l2 -> (forall a b, R a b -> f1 a = f2 b) -> existsb f1 l1 = existsb f2 l2.
Proof.
  intros H Hf. induction H as [|a b l1 l2 Hab Hl IH]; cbn; [reflexivity|].
  rewrite (Hf a b Hab), IH. reflexivity.
Qed.
End Lists.

Lemma F2_filter_map {A B C D} (R : A -> B -> Prop) (S : C -> D -> Prop) f1 f2 l1 l2 :
  Forall2 R l1 l2 -> (forall a b, R a b -> rel_option S (f1 a) (f2 b)) ->
  Forall2 S (filter_map f1 l1) (filter_map f2 l2).
Proof.
  intros H Hf. induction H as [|a b l1 l2 Hab Hl IH]; cbn; [constructor|].
  destruct (Hf a b Hab); auto.
Qed.

Lemma F2_map {A B C D} (R : A -> B -> Prop) (S : C -> D -> Prop) f1 f2 l1 l2 :
  Forall2 R l1 l2 -> (forall a b, R a b -> S (f1 a) (f2 b)) -> Forall2 S (map f1 l1) (map f2 l2).
Proof. intros H Hf. induction H; cbn; constructor; auto. Qed.

Lemma F2_map_eq {A B C} (R : A -> B -> Prop) (f1 : A -> C) f2 l1 l2 :
  Forall2 R l1 l2 -> (forall a b, R a b -> f1 a = f2 b) -> map f1 l1 = map f2 l2.
Proof. intros H Hf. induction H; cbn; [reflexivity|]. f_equal; auto. Qed.

Lemma F2_flat_map {A B C D} (R : A -> B -> Prop) (S : C -> D -> Prop) f1 f2 l1 l2 :
  Forall2 R l1 l2 -> (forall a b, R a b -> Forall2 S (f1 a) (f2 b)) -> Forall2 S (flat_map f1 l1) (flat_map f2 l2).
Proof. intros H Hf. induction H; cbn; [constructor|]. apply F2_app; auto. Qed.

Lemma F2_flat_map_same {A C D} (S : C -> D -> Prop) (f1 : A -> list C) (f2 : A -> list D) l :
  (forall a, Forall2 S (f1 a) (f2 a)) -> Forall2 S (flat_map f1 l) (flat_map f2 l).
Proof. intros Hf. induction l; cbn; [constructor|]. apply F2_app; auto. Qed.

Lemma F2_map_same {A C D} (S : C -> D -> Prop) (f1 : A -> C) (f2 : A -> D) l :
  (forall a, S (f1 a) (f2 a)) -> Forall2 S (map f1 l) (map f2 l).
Proof. intros Hf. induction l; cbn; constructor; auto. Qed.

Lemma fold_left_rel {A B C D} (RA : A -> B -> Prop) (R : C -> D -> Prop) f1 f2 l1 l2 i1 i2 :
  Forall2 R l1 l2 -> RA i1 i2 -> (forall x y c d, RA x y -> R c d -> RA (f1 x c) (f2 y d)) ->
  RA (fold_left f1 l1 i1) (fold_left f2 l2 i2).
Proof.
  intros H. revert i1 i2. induction H as [|c d l1 l2 Hcd Hl IH]; intros i1 i2 Hi Hf; cbn; [exact Hi|].
  apply IH; auto.
Qed.

Lemma fold_left_same {A B C} (RA : A -> B -> Prop) (f1 : A -> C -> A) (f2 : B -> C -> B) l i1 i2 :
  RA i1 i2 -> (forall x y c, RA x y -> RA (f1 x c) (f2 y c)) -> RA (fold_left f1 l i1) (fold_left f2 l i2).
Proof.
  revert i1 i2. induction l as [|c l IH]; intros i1 i2 Hi Hf; cbn; [exact Hi|]. apply IH; auto.
Qed.

(* ---- leaf lemmas ------------------------------------------------------------------------ *)
Section Leaf.
Variable P : loc -> loc -> Prop.
Notation Rn := (Rn P). Notation Rw := (Rw P). Notation Rr := (Rr P). Notation Rav := (Rav P).

(* any accessor whose result embeds no token gives equal results on related nodes *)
Ltac leaf_eq := let H := fresh "H" in intros ? ? H; destruct H; inv_tok; reflexivity.

Lemma is_return_rel n1 n2 : Rn n1 n2 -> is_return n1 = is_return n2. Proof. revert n1 n2. leaf_eq. Qed.
Lemma is_ureturn_rel n1 n2 : Rn n1 n2 -> is_ureturn n1 = is_ureturn n2. Proof. revert n1 n2. leaf_eq. Qed.
Lemma is_ecall_rel n1 n2 : Rn n1 n2 -> is_ecall n1 = is_ecall n2. Proof. revert n1 n2. leaf_eq. Qed.
Lemma might_terminate_rel n1 n2 : Rn n1 n2 -> might_terminate n1 = might_terminate n2. Proof. revert n1 n2. leaf_eq. Qed.
Lemma stores_to_memory_rel n1 n2 : Rn n1 n2 -> stores_to_memory n1 = stores_to_memory n2. Proof. revert n1 n2. leaf_eq. Qed.
Lemma reads_from_memory_rel n1 n2 : Rn n1 n2 -> reads_from_memory n1 = reads_from_memory n2. Proof. revert n1 n2. leaf_eq. Qed.
Lemma can_skip_save_checks_rel n1 n2 : Rn n1 n2 -> can_skip_save_checks n1 = can_skip_save_checks n2. Proof. revert n1 n2. leaf_eq. Qed.
Lemma is_any_entry_rel n1 n2 : Rn n1 n2 -> is_any_entry n1 = is_any_entry n2. Proof. revert n1 n2. leaf_eq. Qed.
Lemma is_function_entry_rel n1 n2 : Rn n1 n2 -> is_function_entry n1 = is_function_entry n2. Proof. revert n1 n2. leaf_eq. Qed.
Lemma is_handler_function_entry_rel n1 n2 : Rn n1 n2 -> is_handler_function_entry n1 = is_handler_function_entry n2. Proof. revert n1 n2. leaf_eq. Qed.
Lemma is_program_entry_rel n1 n2 : Rn n1 n2 -> is_program_entry n1 = is_program_entry n2. Proof. revert n1 n2. leaf_eq. Qed.
Lemma is_instruction_rel n1 n2 : Rn n1 n2 -> is_instruction n1 = is_instruction n2. Proof. revert n1 n2. leaf_eq. Qed.
Lemma uses_memory_location_rel n1 n2 : Rn n1 n2 -> uses_memory_location n1 = uses_memory_location n2. Proof. revert n1 n2. leaf_eq. Qed.
Lemma is_unconditional_jump_rel n1 n2 : Rn n1 n2 -> is_unconditional_jump n1 = is_unconditional_jump n2. Proof. revert n1 n2. leaf_eq. Qed.
Lemma is_directive_rel n1 n2 : Rn n1 n2 -> is_directive n1 = is_directive n2. Proof. revert n1 n2. leaf_eq. Qed.
Lemma node_inst_rel n1 n2 : Rn n1 n2 -> node_inst n1 = node_inst n2. Proof. revert n1 n2. leaf_eq. Qed.
Lemma gen_memory_value_rel n1 n2 : Rn n1 n2 -> gen_memory_value n1 = gen_memory_value n2. Proof. revert n1 n2. leaf_eq. Qed.
Lemma loads_word_rel n1 n2 : Rn n1 n2 -> loads_word n1 = loads_word n2. Proof. revert n1 n2. leaf_eq. Qed.

Lemma is_datasec_rel n1 n2 : Rn n1 n2 -> is_datasec n1 = is_datasec n2.
Proof. intros H. destruct H; try reflexivity. match goal with H : Rdt _ _ _ |- _ => destruct H end; reflexivity. Qed.
Lemma is_textsec_rel n1 n2 : Rn n1 n2 -> is_textsec n1 = is_textsec n2.
Proof. intros H. destruct H; try reflexivity. match goal with H : Rdt _ _ _ |- _ => destruct H end; reflexivity. Qed.

(* accessors returning a token-carrying value give related results *)
Ltac leaf_opt :=
  let H := fresh "H" in intros ? ? H; destruct H; cbn; try constructor; try assumption;
  inv_tok; unfold reg_is, inst_is; cbn [wv wt];
  repeat match goal with |- context [if ?b then _ else _] => destruct b end;
  auto with prel.

Lemma calls_to_rel n1 n2 : Rn n1 n2 -> rel_option Rw (calls_to n1) (calls_to n2). Proof. revert n1 n2. leaf_opt. Qed.
Lemma jumps_to_rel n1 n2 : Rn n1 n2 -> rel_option Rw (jumps_to n1) (jumps_to n2). Proof. revert n1 n2. leaf_opt. Qed.
Lemma reads_address_of_rel n1 n2 : Rn n1 n2 -> rel_option Rw (reads_address_of n1) (reads_address_of n2). Proof. revert n1 n2. leaf_opt. Qed.
Lemma is_some_jump_to_label_rel n1 n2 : Rn n1 n2 -> rel_option Rw (is_some_jump_to_label n1) (is_some_jump_to_label n2). Proof. revert n1 n2. leaf_opt. Qed.
Lemma label_of_rel n1 n2 : Rn n1 n2 -> rel_option Rw (label_of n1) (label_of n2). Proof. revert n1 n2. leaf_opt. Qed.
Lemma writes_to_rel n1 n2 : Rn n1 n2 -> rel_option Rw (writes_to n1) (writes_to n2). Proof. revert n1 n2. leaf_opt. Qed.
Lemma node_raw_rel n1 n2 : Rn n1 n2 -> Rr (node_raw n1) (node_raw n2).
Proof. intros H; destruct H; cbn; assumption. Qed.

Lemma reads_from_vec_rel n1 n2 : Rn n1 n2 -> Forall2 Rw (reads_from_vec n1) (reads_from_vec n2).
Proof. intros H; destruct H; cbn; auto. Qed.
Lemma reads_from_rel n1 n2 : Rn n1 n2 -> Forall2 Rw (reads_from n1) (reads_from n2).
Proof.
  intros H. unfold reads_from. pose proof (reads_from_vec_rel _ _ H) as Hv.
  destruct Hv as [|a b l1 l2 Hab Hl]; [constructor|].
  destruct Hl as [|a' b' l1 l2 Hab' Hl]; [auto|].
  destruct Hl; [|auto].
  destruct Hab, Hab'. cbn. destruct (N.eqb v v0); auto with prel.
Qed.
Lemma reads_from_wv_rel n1 n2 : Rn n1 n2 -> map wv (reads_from n1) = map wv (reads_from n2).
Proof.
  intros H. apply (F2_map_eq Rw); [apply reads_from_rel; exact H|].
  intros a b Hab; destruct Hab; reflexivity.
Qed.

Lemma kill_reg_rel n1 n2 : Rn n1 n2 -> kill_reg n1 = kill_reg n2.
Proof.
  intros H. unfold kill_reg. rewrite (is_function_entry_rel _ _ H).
  destruct (calls_to_rel _ _ H); [|reflexivity].
  destruct (writes_to_rel _ _ H) as [|a b Hab]; [reflexivity|]. destruct Hab; reflexivity.
Qed.
Lemma gen_reg_rel n1 n2 : Rn n1 n2 -> gen_reg n1 = gen_reg n2.
Proof.
  intros H. unfold gen_reg. rewrite (is_ureturn_rel _ _ H), (is_return_rel _ _ H), (reads_from_wv_rel _ _ H). reflexivity.
Qed.

Lemma gen_reg_value_rel n1 n2 : Rn n1 n2 -> rel_option (@Rkv P reg) (gen_reg_value n1) (gen_reg_value n2).
Proof.
  intros H. destruct H; unfold gen_reg_value; try (constructor; fail); inv_tok; cbn [wv wt];
  repeat (match goal with
          | |- context [if ?b then _ else _] => destruct b
          | |- context [match ?x with _ => _ end] => is_var x; destruct x
          end; cbn [wv wt fst snd]);
  repeat constructor; assumption.
Qed.
End Leaf.
