(* C13: a label may stand on its own line or in front of its instruction. *)
From RV.Model Require Import Base I32 Imm Lexer Isa Parser Reader.
Open Scope N_scope.

Lemma parse_one_label t0 s l items :
  tt t0 = TLabel s -> label_from_str s = Some l ->
  parse_one (LTok t0 :: items) = Ok (inr (PLabel (mkw l t0) (raw_of_token t0)), items).
Proof.
  intros Ht Hl. unfold parse_one, parse_stmt, pbind, get_any. cbn [fst snd item_result bind].
  rewrite Ht, Hl. reflexivity.
Qed.

Lemma parse_one_newline tn items :
  tt tn = TNewline -> parse_one (LTok tn :: items) = Ok (inl (EIsNewline tn), items).
Proof.
  intros Ht. unfold parse_one, parse_stmt, pbind, get_any. cbn [fst snd item_result bind].
  rewrite Ht. reflexivity.
Qed.

(* the two writings reach the same parser state: same nodes, same errors, same remaining input *)
Theorem label_own_line f chk fs ign t0 s l tn rest below rs nodes errs :
  tt t0 = TLabel s -> label_from_str s = Some l -> tt tn = TNewline ->
  drive (S (S f)) chk fs ign ((LTok t0 :: LTok tn :: rest) :: below) rs nodes errs =
  drive (S f) chk fs ign ((LTok t0 :: rest) :: below) rs nodes errs.
Proof.
  intros Ht Hl Hn.
  cbn [drive]. rewrite (parse_one_label t0 s l _ Ht Hl), (parse_one_label t0 s l _ Ht Hl).
  cbn [bind include_path]. destruct ign; cbn [drive]; rewrite (parse_one_newline tn rest Hn); reflexivity.
Qed.
