(* Location parametricity, part 4: the liveness analysis of Model/Live.v. *)
From Coq Require Import List ZArith NArith Bool Lia.
From RV.Model Require Import Base I32 Imm Lexer Isa Parser Reader Cfg Avail Live Lints.
From RV.Proofs Require Import ParamRel ParamCfg ParamAvail.
Import ListNotations.

Section Live.
Variable P : loc -> loc -> Prop.
Notation Rn := (Rn P). Notation Rw := (Rw P). Notation Rr := (Rr P). Notation Rav := (Rav P). Notation Rt := (Rt P).
Notation Rc := (Rc P). Notation Rcs := (Rcs P). Notation Rg := (Rg P). Notation Rerr := (Rerr P).
Notation Rrm := (Rrm P). Notation Rmm := (Rmm P). Notation Rkv := (Rkv P).

Lemma set_live_rel c1 c2 li lo ud : Rc c1 c2 -> Rc (set_live c1 li lo ud) (set_live c2 li lo ud).
Proof. destruct 1; constructor; assumption. Qed.
Lemma set_lin_rel c1 c2 li : Rc c1 c2 -> Rc (set_lin c1 li) (set_lin c2 li).
Proof. destruct 1; constructor; assumption. Qed.

Lemma Rg_gfuncs g1 g2 : Rg g1 g2 -> gfuncs g1 = gfuncs g2. Proof. destruct 1; reflexivity. Qed.
Lemma Rg_glabelfn g1 g2 : Rg g1 g2 -> glabelfn g1 = glabelfn g2. Proof. destruct 1; reflexivity. Qed.
Lemma Rg_gnodes g1 g2 : Rg g1 g2 -> Rcs (gnodes g1) (gnodes g2). Proof. destruct 1; assumption. Qed.

Lemma calls_to_from_cfg_rel g1 g2 c1 c2 : Rg g1 g2 -> Rc c1 c2 -> calls_to_from_cfg g1 c1 = calls_to_from_cfg g2 c2.
Proof.
  intros Hg Hc. unfold calls_to_from_cfg. rewrite (Rg_glabelfn _ _ Hg). pose proof (Rc_cn _ _ _ Hc) as Hn.
  destruct (calls_to_rel _ _ _ Hn) as [|a b Hab]; [|rewrite (Rw_wv _ _ _ Hab); reflexivity].
  destruct (is_some_jump_to_label_rel _ _ _ Hn) as [|a b Hab]; [reflexivity|rewrite (Rw_wv _ _ _ Hab); reflexivity].
Qed.

Lemma opt_field_rel {A} (f : cnode -> A) (d : A) ns1 ns2 j : Rcs ns1 ns2 -> (forall c1 c2, Rc c1 c2 -> f c1 = f c2) ->
  match getn ns1 j with Some e => f e | None => d end = match getn ns2 j with Some e => f e | None => d end.
Proof. intros H Hf. destruct (getn_rel _ _ _ j H) as [|c1 c2 Hc]; [reflexivity|apply Hf; exact Hc]. Qed.

Lemma union_live_in_rel ns1 ns2 l : Rcs ns1 ns2 -> union_live_in ns1 l = union_live_in ns2 l.
Proof.
  intros H. unfold union_live_in. apply fold_left_same; [reflexivity|]. intros x y i ->.
  destruct (getn_rel _ _ _ i H) as [|c1 c2 Hc]; [reflexivity|]. rewrite (Rc_lin _ _ _ Hc). reflexivity.
Qed.
Lemma meet_udef_rel ns1 ns2 ps v : Rcs ns1 ns2 -> meet_udef ns1 ps v = meet_udef ns2 ps v.
Proof.
  intros H. unfold meet_udef. destruct (filter _ ps) as [|p ps']; [reflexivity|].
  apply fold_left_same.
  - apply (opt_field_rel udef); [exact H|apply Rc_udef].
  - intros x y q ->. destruct (getn_rel _ _ _ q H) as [|c1 c2 Hc]; [reflexivity|]. rewrite (Rc_udef _ _ _ Hc). reflexivity.
Qed.

(* ---- live_node, cut into pieces ---- *)
Definition lc_exli (ns : list cnode) (f : func) : regset :=
  match getn ns (fexit f) with Some e => lin e | None => rs_empty end.
Definition lc_ns1 (ns : list cnode) (lo : regset) (f : func) : list cnode :=
  upd ns (fexit f) (fun e => set_lin e (rs_union lo (lc_exli ns f))).
Definition lc_ud (ns1 : list cnode) (c : cnode) (visited : list nat) (f : func) : regset :=
  rs_union (rs_diff (meet_udef ns1 (prevs c) visited) caller_saved_set)
           (rs_inter (match getn ns1 (fexit f) with Some e => udef e | None => rs_empty end) return_set).
Definition lc_li (ns1 : list cnode) (i : nat) (c : cnode) (lo : regset) (f : func) : regset :=
  rs_union (rs_union (rs_inter (match getn ns1 (fentry f) with
                                | Some e => if Nat.eqb (fentry f) i then lo else lout e
                                | None => rs_empty end) argument_set)
                     (rs_diff lo (kill_reg (cn c)))) (gen_reg (cn c)).
Definition lc_cur (ns1 : list cnode) (i : nat) (c : cnode) : cnode :=
  match getn ns1 i with Some x => x | None => c end.
Definition live_call (ns : list cnode) (visited : list nat) (i : nat) (c : cnode) (lo : regset) (ch0 : bool) (f : func)
  : list cnode * bool :=
  let ns1 := lc_ns1 ns lo f in
  let li := lc_li ns1 i c lo f in
  let ud := lc_ud ns1 c visited f in
  let cur := lc_cur ns1 i c in
  (upd ns1 i (fun x => set_live x li lo ud),
   (ch0 || negb (N.eqb (rs_union lo (lc_exli ns f)) (lc_exli ns f)) || negb (N.eqb li (lin cur)) || negb (N.eqb ud (udef cur)))%bool).

Definition lp_liud (ns : list cnode) (visited : list nat) (c : cnode) (lo : regset) : regset * regset :=
  let n := cn c in
  let pud := meet_udef ns (prevs c) visited in
  if is_ecall n then
    let '(args, rets) := match known_ecall_signature c with Some p => p | None => (rs_empty, rs_empty) end in
    (rs_union (rs_union (rs_diff lo caller_saved_set) ecall_always_argument_set) args,
     rs_union (rs_diff pud caller_saved_set) rets)
  else if is_return n then (rs_union (lin c) (gen_reg n), pud)
  else if is_function_entry n then
    let li := rs_union (rs_diff lo (kill_reg n)) (gen_reg n) in (li, rs_inter li argument_set)
  else (rs_union (rs_diff lo (kill_reg n)) (gen_reg n), rs_union pud (kill_reg n)).
Definition live_plain (ns : list cnode) (visited : list nat) (i : nat) (c : cnode) (lo : regset) (ch0 : bool)
  : list cnode * bool :=
  let '(li, ud) := lp_liud ns visited c lo in
  (upd ns i (fun x => set_live x li lo ud), (ch0 || negb (N.eqb li (lin c)) || negb (N.eqb ud (udef c)))%bool).

Lemma live_node_eq g ns visited i :
  live_node g ns visited i =
  match getn ns i with
  | None => (ns, false)
  | Some c =>
      let lo := union_live_in ns (nexts c) in
      let ch0 := negb (N.eqb lo (lout c)) in
      match calls_to_from_cfg g c with
      | Some fid => match nth_opt (gfuncs g) fid with
                    | None => (ns, false)
                    | Some f => live_call ns visited i c lo ch0 f
                    end
      | None => live_plain ns visited i c lo ch0
      end
  end.
Proof. reflexivity. Qed.

Lemma lc_exli_rel ns1 ns2 f : Rcs ns1 ns2 -> lc_exli ns1 f = lc_exli ns2 f.
Proof. intros H. apply (opt_field_rel lin); [exact H|apply Rc_lin]. Qed.
Lemma lc_ns1_rel ns1 ns2 lo f : Rcs ns1 ns2 -> Rcs (lc_ns1 ns1 lo f) (lc_ns1 ns2 lo f).
Proof.
  intros H. unfold lc_ns1. rewrite (lc_exli_rel _ _ f H). apply F2_upd; [exact H|].
  intros a b Hab. apply set_lin_rel; exact Hab.
Qed.
Lemma lc_ud_rel ns1 ns2 c1 c2 v f : Rcs ns1 ns2 -> Rc c1 c2 -> lc_ud ns1 c1 v f = lc_ud ns2 c2 v f.
Proof.
  intros H Hc. unfold lc_ud. rewrite (Rc_prevs _ _ _ Hc), (meet_udef_rel _ _ (prevs c2) v H).
  rewrite (opt_field_rel udef rs_empty ns1 ns2 (fexit f) H (Rc_udef P)). reflexivity.
Qed.
Lemma lc_li_rel ns1 ns2 i c1 c2 lo f : Rcs ns1 ns2 -> Rc c1 c2 -> lc_li ns1 i c1 lo f = lc_li ns2 i c2 lo f.
Proof.
  intros H Hc. unfold lc_li. pose proof (Rc_cn _ _ _ Hc) as Hn. rewrite (kill_reg_rel _ _ _ Hn), (gen_reg_rel _ _ _ Hn).
  destruct (getn_rel _ _ _ (fentry f) H) as [|e1 e2 He]; [reflexivity|]. rewrite (Rc_lout _ _ _ He). reflexivity.
Qed.
Lemma lc_cur_rel ns1 ns2 i c1 c2 : Rcs ns1 ns2 -> Rc c1 c2 -> Rc (lc_cur ns1 i c1) (lc_cur ns2 i c2).
Proof. intros H Hc. unfold lc_cur. destruct (getn_rel _ _ _ i H); assumption. Qed.

Lemma live_call_rel ns1 ns2 v i c1 c2 lo ch0 f : Rcs ns1 ns2 -> Rc c1 c2 ->
  rel_prod Rcs eq (live_call ns1 v i c1 lo ch0 f) (live_call ns2 v i c2 lo ch0 f).
Proof.
  intros H Hc. unfold live_call. cbv zeta. pose proof (lc_ns1_rel _ _ lo f H) as H1.
  rewrite (lc_li_rel _ _ i _ _ lo f H1 Hc), (lc_ud_rel _ _ _ _ v f H1 Hc), (lc_exli_rel _ _ f H).
  pose proof (lc_cur_rel _ _ i _ _ H1 Hc) as Hcur. rewrite (Rc_lin _ _ _ Hcur), (Rc_udef _ _ _ Hcur).
  constructor; [|reflexivity]. apply F2_upd; [exact H1|]. intros a b Hab. apply set_live_rel; exact Hab.
Qed.

Lemma lp_liud_rel ns1 ns2 v c1 c2 lo : Rcs ns1 ns2 -> Rc c1 c2 -> lp_liud ns1 v c1 lo = lp_liud ns2 v c2 lo.
Proof.
  intros H Hc. unfold lp_liud. cbv zeta. pose proof (Rc_cn _ _ _ Hc) as Hn.
  rewrite (Rc_prevs _ _ _ Hc), (meet_udef_rel _ _ (prevs c2) v H), (is_ecall_rel _ _ _ Hn), (is_return_rel _ _ _ Hn),
          (is_function_entry_rel _ _ _ Hn), (kill_reg_rel _ _ _ Hn), (gen_reg_rel _ _ _ Hn),
          (known_ecall_signature_rel _ _ _ Hc), (Rc_lin _ _ _ Hc). reflexivity.
Qed.
Lemma live_plain_rel ns1 ns2 v i c1 c2 lo ch0 : Rcs ns1 ns2 -> Rc c1 c2 ->
  rel_prod Rcs eq (live_plain ns1 v i c1 lo ch0) (live_plain ns2 v i c2 lo ch0).
Proof.
  intros H Hc. unfold live_plain. rewrite (lp_liud_rel _ _ v _ _ lo H Hc). destruct (lp_liud ns2 v c2 lo) as [li ud].
  rewrite (Rc_lin _ _ _ Hc), (Rc_udef _ _ _ Hc). constructor; [|reflexivity].
  apply F2_upd; [exact H|]. intros a b Hab. apply set_live_rel; exact Hab.
Qed.

Lemma live_node_rel g1 g2 ns1 ns2 v i : Rg g1 g2 -> Rcs ns1 ns2 ->
  rel_prod Rcs eq (live_node g1 ns1 v i) (live_node g2 ns2 v i).
Proof.
  intros Hg H. rewrite !live_node_eq. destruct (getn_rel _ _ _ i H) as [|c1 c2 Hc]; [constructor; auto|].
  cbv zeta. rewrite (Rc_nexts _ _ _ Hc), (union_live_in_rel _ _ (nexts c2) H), (Rc_lout _ _ _ Hc),
                    (calls_to_from_cfg_rel _ _ _ _ Hg Hc), (Rg_gfuncs _ _ Hg).
  destruct (calls_to_from_cfg g2 c2) as [fid|].
  - destruct (nth_opt (gfuncs g2) fid) as [f|]; [|constructor; auto]. apply live_call_rel; assumption.
  - apply live_plain_rel; assumption.
Qed.

Lemma live_sweep_rel g1 g2 idx : Rg g1 g2 -> forall ns1 ns2 v ch, Rcs ns1 ns2 ->
  rel_prod (rel_prod Rcs eq) eq (live_sweep g1 idx ns1 v ch) (live_sweep g2 idx ns2 v ch).
Proof.
  intros Hg. induction idx as [|i idx IH]; intros ns1 ns2 v ch H; cbn [live_sweep].
  - repeat constructor; exact H.
  - destruct (live_node_rel _ _ _ _ v i Hg H) as [h1 h2 b1 b2 Hh Hb]. subst b2. apply IH; exact Hh.
Qed.

Lemma live_loop_rel g1 g2 fuel : Rg g1 g2 -> forall ns1 ns2 v, Rcs ns1 ns2 ->
  rel_res Rcs (live_loop fuel g1 ns1 v) (live_loop fuel g2 ns2 v).
Proof.
  intros Hg. induction fuel as [|f IH]; intros ns1 ns2 v H; cbn [live_loop]; [constructor|].
  rewrite (Rcs_length _ _ _ H).
  destruct (live_sweep_rel _ _ (rev (seq 0 (length ns2))) Hg _ _ v false H) as [p1 p2 b1 b2 Hp Hb]. subst b2.
  destruct Hp as [h1 h2 v1 v2 Hh Hv]. subst v2.
  destruct b1; [apply IH; exact Hh|constructor; exact Hh].
Qed.

Lemma liveness_pass_rel g1 g2 : Rg g1 g2 -> rel_res Rg (liveness_pass g1) (liveness_pass g2).
Proof.
  intros Hg. unfold liveness_pass, live_fuel. pose proof (Rg_gnodes _ _ Hg) as Hns.
  rewrite (Rcs_length _ _ _ Hns), (Rg_gfuncs _ _ Hg), (Rg_glabelfn _ _ Hg).
  apply (rel_res_bind Rcs); [apply live_loop_rel; assumption|].
  intros a b Hab. constructor. constructor. exact Hab.
Qed.

Lemma fn_arguments_rel g1 g2 f : Rg g1 g2 -> fn_arguments g1 f = fn_arguments g2 f.
Proof.
  intros Hg. unfold fn_arguments. destruct (getn_rel _ _ _ (fentry f) (Rg_gnodes _ _ Hg)) as [|c1 c2 Hc]; [reflexivity|].
  rewrite (Rc_lout _ _ _ Hc). reflexivity.
Qed.
Lemma fn_returns_rel g1 g2 f : Rg g1 g2 -> fn_returns g1 f = fn_returns g2 f.
Proof.
  intros Hg. unfold fn_returns. destruct (getn_rel _ _ _ (fexit f) (Rg_gnodes _ _ Hg)) as [|c1 c2 Hc]; [reflexivity|].
  rewrite (Rc_lin _ _ _ Hc). reflexivity.
Qed.
End Live.
