(* C14, part 2: the graph-building passes commute with renaming
   (cfg_new, directions, dead_code, ecall_terminate, function_markup, interrupt_handler_names). *)
From Coq Require Import Lia ZifyBool ZifyN Sorting.Sorted Permutation.
From RV.Model Require Import Base I32 Imm Lexer Isa Parser Reader Cfg Avail Live Lints.
From RV.Spec Require Import RenameSpec.
From RV.Proofs Require Import RenameBase.
Open Scope N_scope.

(* ---- lists ---------------------------------------------------------------------------------- *)
Lemma nth_opt_map' {A B} (f : A -> B) (l : list A) : forall i, nth_opt (map f l) i = option_map f (nth_opt l i).
Proof. induction l as [|x l IH]; intros [|i]; cbn; auto. Qed.

Lemma map_upd_comm {A B} (f : A -> B) (h : A -> A) (h' : B -> B) (l : list A) :
  (forall x, f (h x) = h' (f x)) -> forall i, map f (upd l i h) = upd (map f l) i h'.
Proof. intros H. induction l as [|x l IH]; intros [|i]; cbn; auto. - rewrite H. reflexivity. - rewrite IH. reflexivity. Qed.

Lemma filter_map_map {A B C D} (f : A -> option B) (f' : C -> option D) (g : A -> C) (h : B -> D) (l : list A) :
  (forall x, f' (g x) = option_map h (f x)) -> filter_map f' (map g l) = map h (filter_map f l).
Proof.
  intros H. induction l as [|x l IH]; cbn [map filter_map]; [reflexivity|].
  rewrite H. destruct (f x); cbn [option_map map]; rewrite IH; reflexivity.
Qed.

Lemma filter_map_comm {A B} (p : A -> bool) (p' : B -> bool) (g : A -> B) (l : list A) :
  (forall x, p' (g x) = p x) -> filter p' (map g l) = map g (filter p l).
Proof.
  intros H. induction l as [|x l IH]; cbn [map filter]; [reflexivity|].
  rewrite H. destruct (p x); cbn [map]; rewrite IH; reflexivity.
Qed.

Lemma fold_left_map_comm {A B X} (f : A -> B) (F : A -> X -> A) (F' : B -> X -> B) (l : list X) :
  (forall a x, F' (f a) x = f (F a x)) -> forall a, fold_left F' l (f a) = f (fold_left F l a).
Proof. intros H. induction l as [|x l IH]; intros a; cbn [fold_left]; [reflexivity|]. rewrite H. apply IH. Qed.

Lemma fold_left_ext_in {A X} (F G : A -> X -> A) (l : list X) :
  (forall a x, In x l -> F a x = G a x) -> forall a, fold_left F l a = fold_left G l a.
Proof.
  induction l as [|x l IH]; intros H a; cbn [fold_left]; [reflexivity|].
  rewrite H by (left; reflexivity). apply IH. intros b y Hy. apply H. right. exact Hy.
Qed.

(* ---- register maps: lookup after insertion, lookup in the renamed map -------------------------- *)
Lemma rm_get_insert_same r v m : rm_get r (rm_insert r v m) = Some v.
Proof.
  induction m as [|[k w] m IH]; cbn [rm_insert rm_get]; [rewrite N.eqb_refl; reflexivity|].
  destruct (N.eqb k r) eqn:E; cbn [rm_get]; [rewrite N.eqb_refl; reflexivity|].
  destruct (N.ltb r k); cbn [rm_get]; [rewrite N.eqb_refl; reflexivity|]. rewrite E. exact IH.
Qed.
Lemma rm_get_insert_other r q v m : q <> r -> rm_get q (rm_insert r v m) = rm_get q m.
Proof.
  intros Hq. assert (Nq : N.eqb r q = false) by (apply N.eqb_neq; congruence).
  induction m as [|[k w] m IH]; cbn [rm_insert rm_get]; [rewrite Nq; reflexivity|].
  destruct (N.eqb k r) eqn:E; cbn [rm_get].
  - apply N.eqb_eq in E. subst k. rewrite Nq. reflexivity.
  - destruct (N.ltb r k); cbn [rm_get]; [rewrite Nq; reflexivity|]. rewrite IH. reflexivity.
Qed.
Lemma rm_get_insert r q v m : rm_get q (rm_insert r v m) = if N.eqb r q then Some v else rm_get q m.
Proof.
  destruct (N.eqb_spec r q) as [->|Hn]; [apply rm_get_insert_same | apply rm_get_insert_other; congruence].
Qed.

Definition rn_sum (s : reg -> reg) (rho : str -> str) {A} (f : A -> A) (x : cfgerr + A) : cfgerr + A :=
  match x with inl e => inl (rn_cfgerr s rho e) | inr a => inr (f a) end.

Ltac rc_fields :=
  intros; unfold rn_cnode, set_nexts, set_prevs, set_cfuncs, set_cn, set_live, set_lin, set_avail;
  cbn [cn clabels ctext nexts prevs cfuncs rin rout min mout lin lout udef]; reflexivity.

Section Graph.
Variable s : reg -> reg.
Variable rho : str -> str.
Hypothesis Hs : class_perm s.
Hypothesis Hr : label_renaming rho.
Notation rn := (rn_node s rho).
Notation rc := (rn_cnode s rho).
Notation rw := (map_w rho).
Notation ra := (rn_aval s rho).
Notation rg := (rn_cfg s rho).

Lemma rm_get_rn r m : rm_get (s r) (rn_regmap s rho m) = option_map ra (rm_get r m).
Proof.
  induction m as [|[k v] m IH]; cbn [rn_regmap fold_right rm_get fst snd]; [reflexivity|].
  fold (rn_regmap s rho m). rewrite rm_get_insert, (s_eqb s Hs).
  destruct (N.eqb k r); [reflexivity | exact IH].
Qed.
Lemma rm_get_rn_fixed k m : s k = k -> rm_get k (rn_regmap s rho m) = option_map ra (rm_get k m).
Proof. intros E. rewrite <- E at 1. apply rm_get_rn. Qed.

Lemma getn_rc g i : getn (map rc g) i = option_map rc (getn g i).
Proof. apply nth_opt_map'. Qed.

(* field setters *)
Lemma rc_set_nexts c v : rc (set_nexts c v) = set_nexts (rc c) v. Proof. rc_fields. Qed.
Lemma rc_set_prevs c v : rc (set_prevs c v) = set_prevs (rc c) v. Proof. rc_fields. Qed.
Lemma rc_set_cfuncs c v : rc (set_cfuncs c v) = set_cfuncs (rc c) v. Proof. rc_fields. Qed.
Lemma rc_set_cn c n : rc (set_cn c n) = set_cn (rc c) (rn n). Proof. rc_fields. Qed.
Lemma rc_new_cnode n labels text : rc (new_cnode n labels text) = new_cnode (rn n) (map rw labels) text.
Proof.
  unfold new_cnode, rn_cnode. cbn [cn clabels ctext nexts prevs cfuncs rin rout min mout lin lout udef].
  rewrite (perm_set_0 s Hs). reflexivity.
Qed.

(* ---- names ---------------------------------------------------------------------------------- *)
Lemma rho_eqb a b : str_eqb (rho a) (rho b) = str_eqb a b.
Proof. apply str_eqb_inj, (lr_inj rho Hr). Qed.

Lemma mem_name_rn x l : mem_name (rho x) (map rw l) = mem_name x l.
Proof. induction l as [|y l IH]; cbn [map mem_name map_w wv]; [reflexivity|]. rewrite rho_eqb, IH. reflexivity. Qed.

Lemma dedup_names_rn l : forall acc, dedup_names (map rw l) (map rw acc) = map rw (dedup_names l acc).
Proof.
  induction l as [|x l IH]; intros acc; cbn [map dedup_names].
  - rewrite map_rev. reflexivity.
  - cbn [map_w wv]. rewrite mem_name_rn. destruct (mem_name (wv x) acc); [apply IH|].
    rewrite <- IH. reflexivity.
Qed.
Lemma dedup_names_rn0 l : dedup_names (map rw l) [] = map rw (dedup_names l []).
Proof. apply (dedup_names_rn l []). Qed.

Lemma any_in_rn a b : any_in (map rw a) (map rw b) = any_in a b.
Proof. induction a as [|x a IH]; cbn [map any_in map_w wv]; [reflexivity|]. rewrite mem_name_rn, IH. reflexivity. Qed.

(* ---- S4 ------------------------------------------------------------------------------------- *)
Lemma build_nodes_rn ns : forall cns pd cur all text acc,
  build_nodes (map rn ns) (map rw cns) (option_map (map rw) pd) (map rw cur) (map rw all) text (map rc acc)
  = rn_sum s rho (map rc) (build_nodes ns cns pd cur all text acc).
Proof.
  induction ns as [|n ns IH]; intros cns pd cur all text acc; cbn [map build_nodes].
  - cbn [rn_sum]. rewrite map_rev. reflexivity.
  - rewrite (rn_label_of s rho). destruct (label_of n) as [name|]; cbn [option_map].
    + cbn [map_w wv]. rewrite !mem_name_rn. destruct (mem_name (wv name) all); [reflexivity|].
      change (rw name :: map rw all) with (map rw (name :: all)).
      destruct (mem_name (wv name) cur); [apply IH|].
      replace (map rw cur ++ [rw name]) with (map rw (cur ++ [name])) by (rewrite map_app; reflexivity).
      apply IH.
    + rewrite (rn_is_datasec s rho), (rn_is_textsec s rho), (rn_is_directive s rho).
      destruct (is_datasec n); [apply IH|]. destruct (is_textsec n); [apply IH|].
      destruct (is_directive n); [apply IH|].
      rewrite any_in_rn. rewrite (rn_node_raw s rho).
      change (@nil (wth str)) with (map rw []) at 1 3.
      destruct (any_in cur cns).
      * replace (match option_map (map rw) pd with Some p => any_in (map rw cur) p | None => false end)
          with (match pd with Some p => any_in cur p | None => false end)
          by (destruct pd; cbn [option_map]; [rewrite any_in_rn|]; reflexivity).
        rewrite <- (IH cns pd [] all text). f_equal; cbn [map]; rewrite ?rc_new_cnode; reflexivity.
      * rewrite <- (IH cns pd [] all text). f_equal; cbn [map]; rewrite ?rc_new_cnode; reflexivity.
Qed.

Lemma cfg_new_rn ns pd :
  cfg_new (map rn ns) (option_map (map rw) pd) = rn_sum s rho rg (cfg_new ns pd).
Proof.
  unfold cfg_new.
  rewrite (filter_map_map label_of label_of rn rw) by apply (rn_label_of s rho).
  rewrite (filter_map_map calls_to calls_to rn rw) by (apply (rn_calls_to s rho); assumption).
  rewrite (filter_map_map jumps_to jumps_to rn rw) by (apply (rn_jumps_to s rho); assumption).
  rewrite (filter_map_map reads_address_of reads_address_of rn rw) by apply (rn_reads_address_of s rho).
  replace (match option_map (map rw) pd with Some p => p | None => [] end)
    with (map rw (match pd with Some p => p | None => [] end)) by (destruct pd; reflexivity).
  assert (U : forall a b, union_names (map rw a) (map rw b) = map rw (union_names a b)).
  { intros a b. unfold union_names. rewrite !map_length.
    destruct (Nat.leb (length b) (length a)); rewrite <- map_app, dedup_names_rn0; reflexivity. }
  rewrite <- map_app, !dedup_names_rn0, !U.
  rewrite (filter_map_comm (fun x => negb (mem_name (wv x) (filter_map label_of ns)))).
  2:{ intros x. cbn [map_w wv]. rewrite mem_name_rn. reflexivity. }
  destruct (filter _ (union_names _ _)) as [|u us]; cbn [map]; [|reflexivity].
  pose proof (build_nodes_rn ns (dedup_names (filter_map calls_to ns ++ match pd with Some p => p | None => [] end) [])
                pd [] [] true []) as B.
  cbn [map] in B. rewrite B. destruct (build_nodes ns _ pd [] [] true []); reflexivity.
Qed.

(* ---- S5 ------------------------------------------------------------------------------------- *)
Lemma find_label_rn x g : forall i, find_label (rho x) (map rc g) i = find_label x g i.
Proof.
  induction g as [|c g IH]; intros i; cbn [map find_label]; [reflexivity|].
  cbn [rn_cnode clabels]. rewrite mem_name_rn, IH. reflexivity.
Qed.

Lemma add_edge_rn g a b : add_edge (map rc g) a b = map rc (add_edge g a b).
Proof.
  unfold add_edge.
  rewrite (map_upd_comm rc (fun c => set_prevs c (ins a (prevs c))) (fun c => set_prevs c (ins a (prevs c)))) by rc_fields.
  rewrite (map_upd_comm rc (fun c => set_nexts c (ins b (nexts c))) (fun c => set_nexts c (ins b (nexts c)))) by rc_fields.
  reflexivity.
Qed.

Lemma directions_loop_rn todo : forall i prev g,
  directions_loop (map rc todo) i prev (map rc g) = rn_sum s rho (map rc) (directions_loop todo i prev g).
Proof.
  induction todo as [|c todo IH]; intros i prev g; cbn [map directions_loop]; [reflexivity|].
  cbn [rn_cnode cn]. rewrite (rn_jumps_to s rho Hs), (rn_is_return s rho Hs), (rn_is_unconditional_jump s rho Hs).
  destruct (jumps_to (cn c)) as [label|]; cbn [option_map].
  - cbn [map_w wv]. rewrite find_label_rn. destruct (find_label (wv label) g 0) as [j|]; [|reflexivity].
    rewrite add_edge_rn. destruct prev as [p|]; [rewrite add_edge_rn|]; apply IH.
  - destruct prev as [p|]; [rewrite add_edge_rn|]; apply IH.
Qed.

Lemma directions_rn g : directions (rg g) = rn_sum s rho rg (directions g).
Proof.
  unfold directions. cbn [rn_cfg gnodes gfuncs glabelfn]. rewrite directions_loop_rn.
  destruct (directions_loop (gnodes g) 0 None (gnodes g)); reflexivity.
Qed.

(* ---- S6 ------------------------------------------------------------------------------------- *)
Lemma fold_del_nexts_rn i l : forall g,
  fold_left (fun g p => upd g p (fun x => set_nexts x (del i (nexts x)))) l (map rc g)
  = map rc (fold_left (fun g p => upd g p (fun x => set_nexts x (del i (nexts x)))) l g).
Proof.
  apply fold_left_map_comm. intros a x. symmetry. apply map_upd_comm. rc_fields.
Qed.
Lemma fold_del_prevs_rn i l : forall g,
  fold_left (fun g p => upd g p (fun x => set_prevs x (del i (prevs x)))) l (map rc g)
  = map rc (fold_left (fun g p => upd g p (fun x => set_prevs x (del i (prevs x)))) l g).
Proof.
  apply fold_left_map_comm. intros a x. symmetry. apply map_upd_comm. rc_fields.
Qed.

Lemma dead_step_rn g i : dead_step (map rc g) i = map rc (dead_step g i).
Proof.
  unfold dead_step. rewrite getn_rc. destruct (getn g i) as [c|]; cbn [option_map]; [|reflexivity].
  cbn [rn_cnode cn nexts prevs].
  rewrite (rn_is_return s rho Hs), (rn_is_any_entry s rho), (rn_might_terminate s rho).
  destruct (is_return (cn c) || is_any_entry (cn c) || might_terminate (cn c))%bool; [reflexivity|].
  set (g1 := match nexts c with [] => _ | _ => g end).
  assert (E1 : match nexts c with
               | [] => upd (fold_left (fun g p => upd g p (fun x => set_nexts x (del i (nexts x)))) (prevs c) (map rc g))
                              i (fun x => set_prevs x [])
               | _ => map rc g end = map rc g1).
  { unfold g1. destruct (nexts c); [|reflexivity]. rewrite fold_del_nexts_rn. symmetry. apply map_upd_comm. rc_fields. }
  rewrite E1. rewrite getn_rc. destruct (getn g1 i) as [c1|]; cbn [option_map]; [|reflexivity].
  cbn [rn_cnode prevs nexts]. destruct (prevs c1); [|reflexivity].
  rewrite fold_del_prevs_rn. symmetry. apply map_upd_comm. rc_fields.
Qed.

Lemma dead_code_rn g : dead_code (rg g) = rg (dead_code g).
Proof.
  unfold dead_code, rn_cfg. cbn [gnodes gfuncs glabelfn]. rewrite map_length. f_equal.
  apply fold_left_map_comm. intros a x. apply dead_step_rn.
Qed.

(* ---- S8 ------------------------------------------------------------------------------------- *)
Lemma known_ecall_rn c : known_ecall (rc c) = known_ecall c.
Proof.
  unfold known_ecall. cbn [rn_cnode cn rin]. rewrite (rn_is_ecall s rho).
  destruct (is_ecall (cn c)); [|reflexivity].
  rewrite (rm_get_rn_fixed 17) by (apply s_17, Hs).
  destruct (rm_get 17 (rin c)) as [[]|]; reflexivity.
Qed.
Lemma is_program_exit_rn c : is_program_exit (rc c) = is_program_exit c.
Proof. unfold is_program_exit. rewrite known_ecall_rn. reflexivity. Qed.
Lemma known_ecall_signature_rn c : known_ecall_signature (rc c) = known_ecall_signature c.
Proof. unfold known_ecall_signature. rewrite known_ecall_rn. reflexivity. Qed.

Lemma ecall_term_step_rn g i : ecall_term_step (map rc g) i = map rc (ecall_term_step g i).
Proof.
  unfold ecall_term_step. rewrite getn_rc. destruct (getn g i) as [c|]; cbn [option_map]; [|reflexivity].
  rewrite is_program_exit_rn. destruct (is_program_exit c); [|reflexivity].
  cbn [rn_cnode nexts]. rewrite fold_del_prevs_rn. symmetry. apply map_upd_comm. rc_fields.
Qed.
Lemma ecall_terminate_rn g : ecall_terminate (rg g) = rg (ecall_terminate g).
Proof.
  unfold ecall_terminate, rn_cfg. cbn [gnodes gfuncs glabelfn]. rewrite map_length. f_equal.
  apply fold_left_map_comm. intros a x. apply ecall_term_step_rn.
Qed.

(* ---- S9 ------------------------------------------------------------------------------------- *)
Lemma reach_rn fuel g : forall st seen, reach fuel (map rc g) st seen = reach fuel g st seen.
Proof.
  induction fuel as [|f IH]; intros st seen; cbn [reach]; [reflexivity|].
  destruct st as [|x st]; [reflexivity|]. destruct (memn x seen); [apply IH|].
  rewrite getn_rc. destruct (getn g x) as [c|]; cbn [option_map]; apply IH.
Qed.
Lemma reachable_rn g i : reachable (map rc g) i = reachable g i.
Proof. unfold reachable. rewrite map_length. apply reach_rn. Qed.

Lemma rn_rewritten_return c e : rn (rewritten_return c e) = rewritten_return (rc c) (rc e).
Proof.
  unfold rewritten_return, tok_return. cbn [rn_cnode cn]. rewrite !(rn_node_raw s rho).
  cbn [rn_node rename_regs rename_labels]. unfold map_w. cbn [wv wt]. rewrite (s_0 s Hs).
  change (s2l "<return>") with return_name. rewrite (lr_ret rho Hr). reflexivity.
Qed.

Lemma defs_fold_rn g r : forall acc,
  fold_left (fun acc i => match getn (map rc g) i with
                          | Some c => match writes_to (cn c) with Some w => rs_union acc (rs_one (wv w)) | None => acc end
                          | None => acc end) r (perm_set s acc)
  = perm_set s (fold_left (fun acc i => match getn g i with
                          | Some c => match writes_to (cn c) with Some w => rs_union acc (rs_one (wv w)) | None => acc end
                          | None => acc end) r acc).
Proof.
  apply fold_left_map_comm. intros a i. rewrite getn_rc. destruct (getn g i) as [c|]; cbn [option_map]; [|reflexivity].
  cbn [rn_cnode cn]. rewrite (rn_writes_to s rho). destruct (writes_to (cn c)) as [w|]; cbn [option_map]; [|reflexivity].
  cbn [map_w wv]. rewrite (perm_set_union s Hs), (perm_set_one s Hs). reflexivity.
Qed.

Lemma rets_filter_rn g r :
  filter (fun i => match getn (map rc g) i with Some c => is_return (cn c) | None => false end) r
  = filter (fun i => match getn g i with Some c => is_return (cn c) | None => false end) r.
Proof.
  apply filter_ext. intros i. rewrite getn_rc. destruct (getn g i) as [c|]; cbn [option_map]; [|reflexivity].
  cbn [rn_cnode cn]. apply (rn_is_return s rho Hs).
Qed.

Lemma mark_function_rn g entry pick :
  mark_function (rg g) entry pick = rn_sum s rho rg (mark_function g entry pick).
Proof.
  unfold mark_function. cbn [rn_cfg gnodes gfuncs glabelfn]. rewrite map_length, reachable_rn, rets_filter_rn.
  set (r := reachable (gnodes g) entry).
  destruct (filter _ r) as [|first rets'] eqn:Erets.
  - cbn [rn_sum]. rewrite getn_rc. destruct (getn (gnodes g) entry) as [c|]; reflexivity.
  - set (rets := first :: rets') in *.
    set (ex := match pick with Some p => if memn p rets then p else first | None => first end).
    cbn [rn_sum]. unfold rn_cfg at 1. cbn [gnodes gfuncs glabelfn]. f_equal. f_equal.
    + (* nodes *)
      rewrite (fold_left_map_comm (map rc)
                 (fun g0 i => upd g0 i (fun c => set_cfuncs c (ins (length (gfuncs g)) (cfuncs c))))
                 (fun g0 i => upd g0 i (fun c => set_cfuncs c (ins (length (gfuncs g)) (cfuncs c)))))
        by (intros a x; symmetry; apply map_upd_comm; rc_fields).
      apply fold_left_map_comm. intros a i. destruct (Nat.eqb i ex); [reflexivity|].
      rewrite !getn_rc. destruct (getn a i) as [c|]; cbn [option_map]; [|reflexivity].
      destruct (getn a ex) as [e|]; cbn [option_map]; [|reflexivity].
      rewrite <- (map_upd_comm rc (fun x => set_cn (set_nexts x [ex]) (rewritten_return c e))
                               (fun x => set_cn (set_nexts x [ex]) (rewritten_return (rc c) (rc e))))
        by (intros x; rewrite <- rn_rewritten_return; rc_fields).
      rewrite <- (map_upd_comm rc (fun x => set_prevs x (ins i (prevs x))) (fun x => set_prevs x (ins i (prevs x)))) by rc_fields.
      reflexivity.
    + (* functions *)
      rewrite map_app. f_equal. cbn [map]. unfold rn_func. cbn [fentry fexit fnodes fdefs]. f_equal. f_equal.
      rewrite <- (perm_set_empty s Hs) at 1. apply defs_fold_rn.
    + (* labels *)
      rewrite map_app. f_equal. rewrite getn_rc. destruct (getn (gnodes g) entry) as [c|]; cbn [option_map]; [|reflexivity].
      cbn [rn_cnode clabels]. rewrite !map_map. reflexivity.
Qed.

Lemma markup_loop_rn entries : forall picks g,
  markup_loop entries picks (rg g) = rn_sum s rho rg (markup_loop entries picks g).
Proof.
  induction entries as [|e es IH]; intros picks g; cbn [markup_loop]; [reflexivity|].
  rewrite mark_function_rn. destruct (mark_function g e (hd_opt picks)) as [err|g']; cbn [rn_sum]; [reflexivity|apply IH].
Qed.

Lemma function_entries_rn g : function_entries (rg g) = function_entries g.
Proof.
  unfold function_entries. cbn [rn_cfg gnodes]. rewrite map_length. apply filter_ext. intros i.
  rewrite getn_rc. destruct (getn (gnodes g) i) as [c|]; cbn [option_map]; [|reflexivity].
  cbn [rn_cnode cn]. apply (rn_is_function_entry s rho).
Qed.

Lemma function_markup_rn picks g : function_markup picks (rg g) = rn_sum s rho rg (function_markup picks g).
Proof. unfold function_markup. rewrite function_entries_rn. apply markup_loop_rn. Qed.

(* ---- interrupt handler names ------------------------------------------------------------------ *)
Lemma interrupt_handler_names_rn g : interrupt_handler_names (rg g) = map rw (interrupt_handler_names g).
Proof.
  unfold interrupt_handler_names. cbn [rn_cfg gnodes]. rewrite <- dedup_names_rn0. f_equal.
  apply filter_map_map. intros c. unfold sets_csr_to_value. cbn [rn_cnode cn rin].
  destruct (cn c); try reflexivity; cbn [rn_node rename_regs rename_labels map_w wv].
  - destruct (inst_is i ICsrrw); [|reflexivity]. rewrite rm_get_rn.
    destruct (rm_get (wv rs1) (rin c)) as [[]|]; cbn [option_map rn_aval]; try reflexivity.
    destruct (Z.eqb (wv csr) 5); reflexivity.
  - destruct (inst_is i ICsrrwi); reflexivity.
Qed.

End Graph.
