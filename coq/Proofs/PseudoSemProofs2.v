(* C08, semantic decode table, second part: base instructions (register-register, register-immediate,
   loads, stores) and the remaining pseudo-instructions. *)
From RV.Model Require Import Base I32 Imm Lexer Isa Parser Cfg Avail.
From RV.Spec Require Import SpellNodeSpec Rv32.
From RV.Spec Require FoldSpec PseudoSpec PcSpec AsmSpec.
From RV.Proofs Require Import ImmProofs FoldProofs DecodeProofs SpellProofs SoundProofs PseudoSemProofs.
From Coq Require Import Lia ZifyBool ZifyN.
Open Scope Z_scope.

(* ---- (1) register-register ------------------------------------------------------------------------ *)
Definition rtype_sem : Prop :=
  forall m o, In (m, o) AsmSpec.manual_arith ->
  forall I, inst_from_str m = Some I -> inst_kind I = KArith ->
  forall (addr_of : str -> Z) t0 t_rd t_rs1 t_rs2 rest raw rd rs1 rs2,
  tok_reg_val t_rd = Some rd ->
  tok_reg_val t_rs1 = Some rs1 ->
  tok_reg_val t_rs2 = Some rs2 ->
  (exists n raw', parse_inst I t0 (LTok t_rd :: LTok t_rs1 :: LTok t_rs2 :: rest, raw) = Ok (inr n, (rest, raw'))) /\
  forall n st', parse_inst I t0 (LTok t_rd :: LTok t_rs1 :: LTok t_rs2 :: rest, raw) = Ok (inr n, st') ->
  forall s s', regs_in32 s -> effect addr_of n s s' ->
    s' = rset s rd (FoldSpec.eval o (rget s rs1) (rget s rs2)) /\
    regs_in32 s' /\
    (forall r, rget s' r = if N.eqb r 0 then 0 else if N.eqb r rd
                           then FoldSpec.eval o (rget s rs1) (rget s rs2) else rget s r).
Theorem sem_rtype : rtype_sem.
Proof.
  intros m o Hin I HI HK addr_of t0 t_rd t_rs1 t_rs2 rest raw rd rs1 rs2 Hrd H1 H2.
  destruct (decode_arith m o Hin) as [i' [mo [Hi' [_ [_ Halu]]]]].
  rewrite HI in Hi'. injection Hi' as <-.
  destruct (form_arith I t0 t_rd t_rs1 t_rs2 rest raw rd rs1 rs2 HK Hrd H1 H2) as [n0 [raw0 [Hp Hst]]].
  split; [exists n0, raw0; exact Hp|].
  intros n st' Hp' s s' Is He. rewrite Hp in Hp'. injection Hp' as Hn _. subst n0.
  apply (eff_strip_arith addr_of _ _ _ _ _ _ _ Hst) in He. rewrite Halu in He.
  apply unary_finish; [exact Is|apply eval_in32; apply Is|exact He].
Qed.

(* which rows of the manual table are register-register / register-immediate for the parser *)
Definition rows_of_kind (k : inst -> bool) : list str :=
  map fst (filter (fun e => match inst_from_str (fst e) with Some i => k i | None => false end) AsmSpec.manual_arith).
Definition is_karith (i : inst) : bool := match inst_kind i with KArith => true | _ => false end.
Definition is_kiarith (i : inst) : bool := match inst_kind i with KIArith => true | _ => false end.
Example rtype_rows :
  rows_of_kind is_karith =
  [«"add"»; «"sub"»; «"and"»; «"or"»; «"xor"»; «"sll"»; «"srl"»; «"sra"»; «"slt"»; «"sltu"»; «"mul"»; «"mulh"»;
   «"mulhsu"»; «"mulhu"»; «"div"»; «"divu"»; «"rem"»; «"remu"»] /\
  rows_of_kind is_kiarith =
  [«"addi"»; «"andi"»; «"ori"»; «"xori"»; «"slli"»; «"srli"»; «"srai"»; «"slti"»; «"sltiu"»] /\
  length AsmSpec.manual_arith = 27%nat.
Proof. vm_compute. repeat split; reflexivity. Qed.

(* `sub a0, t1, s2` with t1 = i32_min, s2 = 1 wraps to i32_max; `sltu` reads -1 as 2^32-1 *)
Definition rtype_example (m : str) (x y expect : Z) : Prop :=
  forall addr_of : str -> Z, exists I n st',
    inst_from_str m = Some I /\ inst_kind I = KArith /\
    parse_inst I (sym m) ([LTok (sym «"a0"»); LTok (sym «"t1"»); LTok (sym «"s2"»); LTok nl], None) = Ok (inr n, st') /\
    regs_in32 (st_of [(6%N, x); (18%N, y)]) /\
    (exists s', effect addr_of n (st_of [(6%N, x); (18%N, y)]) s') /\
    forall s', effect addr_of n (st_of [(6%N, x); (18%N, y)]) s' -> rget s' 10 = expect /\ rget s' 6 = x.
Ltac rtype_example_tac m o :=
  intros addr_of; eexists; eexists; eexists;
  split; [vm_compute; reflexivity|]; split; [reflexivity|];
  split; [vm_compute; reflexivity|]; split; [st_in32|]; split;
  [eexists; eapply EffArith; [reflexivity|cbn [alu wv]; reflexivity]
  |intros s' He;
   assert (Hin : In (m, o) AsmSpec.manual_arith) by (vm_compute; tauto);
   edestruct (sem_rtype m o Hin _ eq_refl eq_refl addr_of (sym m) (sym «"a0"») (sym «"t1"») (sym «"s2"») [LTok nl] None
                10%N 6%N 18%N eq_refl eq_refl eq_refl) as [_ H];
   edestruct H as [_ [_ Hr]]; [vm_compute; reflexivity| |exact He|]; [st_in32|];
   rewrite !Hr; vm_compute; split; reflexivity].
Example sub_ex : rtype_example «"sub"» (-2147483648) 1 2147483647.
Proof. rtype_example_tac «"sub"» FoldSpec.Sub. Qed.
Example sltu_ex : rtype_example «"sltu"» 1 (-1) 1.
Proof. rtype_example_tac «"sltu"» FoldSpec.Sltu. Qed.
Example div_ex : rtype_example «"div"» (-7) 2 (-3).
Proof. rtype_example_tac «"div"» FoldSpec.Div. Qed.

(* ---- (2) register-immediate ----------------------------------------------------------------------- *)
(* The parser puts NO range restriction on the immediate of addi/andi/.../slli: every immediate the
   token reader accepts (any 32-bit value, see C08sem_imm_symbol_in32) is taken as it is - no 12-bit
   check, no 5-bit check on shift amounts (itype_no_range_check below).  So there is no hypothesis on z
   for the effect; in32 z is only needed for "the new state is again a 32-bit state". *)
Definition itype_sem : Prop :=
  forall m o, In (m, o) AsmSpec.manual_arith ->
  forall I, inst_from_str m = Some I -> inst_kind I = KIArith ->
  forall (addr_of : str -> Z) t0 t_rd t_rs1 t_z rest raw rd rs1 z,
  tok_reg_val t_rd = Some rd ->
  tok_reg_val t_rs1 = Some rs1 ->
  tok_imm_val t_z = Ok (Some z) ->
  (exists n raw', parse_inst I t0 (LTok t_rd :: LTok t_rs1 :: LTok t_z :: rest, raw) = Ok (inr n, (rest, raw'))) /\
  forall n st', parse_inst I t0 (LTok t_rd :: LTok t_rs1 :: LTok t_z :: rest, raw) = Ok (inr n, st') ->
  forall s s', effect addr_of n s s' ->
    s' = rset s rd (FoldSpec.eval o (rget s rs1) z) /\
    (regs_in32 s -> in32 z -> regs_in32 s') /\
    (forall r, rget s' r = if N.eqb r 0 then 0 else if N.eqb r rd
                           then FoldSpec.eval o (rget s rs1) z else rget s r).
Theorem sem_itype : itype_sem.
Proof.
  intros m o Hin I HI HK addr_of t0 t_rd t_rs1 t_z rest raw rd rs1 z Hrd H1 Hz.
  destruct (decode_arith m o Hin) as [i' [mo [Hi' [_ [_ Halu]]]]].
  rewrite HI in Hi'. injection Hi' as <-.
  destruct (form_iarith I t0 t_rd t_rs1 t_z rest raw rd rs1 z HK Hrd H1 Hz) as [n0 [raw0 [Hp Hst]]].
  split; [exists n0, raw0; exact Hp|].
  intros n st' Hp' s s' He. rewrite Hp in Hp'. injection Hp' as Hn _. subst n0.
  apply (eff_strip_iarith addr_of _ _ _ _ _ _ _ Hst) in He. rewrite Halu in He. subst s'.
  split; [reflexivity|]. split.
  - intros Is Iz. apply regs_in32_rset; [exact Is|]. apply eval_in32; [apply Is|exact Iz].
  - intros r. apply rget_after.
Qed.

Definition itype_example (m lit : str) (x z expect : Z) : Prop :=
  forall addr_of : str -> Z, exists I n st',
    inst_from_str m = Some I /\ inst_kind I = KIArith /\ tok_imm_val (sym lit) = Ok (Some z) /\
    parse_inst I (sym m) ([LTok (sym «"a0"»); LTok (sym «"t1"»); LTok (sym lit); LTok nl], None) = Ok (inr n, st') /\
    (exists s', effect addr_of n (st_of [(6%N, x)]) s') /\
    forall s', effect addr_of n (st_of [(6%N, x)]) s' -> rget s' 10 = expect /\ rget s' 6 = x.
Ltac itype_example_tac m o lit z :=
  intros addr_of; eexists; eexists; eexists;
  split; [vm_compute; reflexivity|]; split; [reflexivity|]; split; [vm_compute; reflexivity|];
  split; [vm_compute; reflexivity|]; split;
  [eexists; eapply EffIArith; [reflexivity|cbn [alu wv]; reflexivity]
  |intros s' He;
   assert (Hin : In (m, o) AsmSpec.manual_arith) by (vm_compute; tauto);
   assert (Hz : tok_imm_val (sym lit) = Ok (Some z)) by (vm_compute; reflexivity);
   edestruct (sem_itype m o Hin _ eq_refl eq_refl addr_of (sym m) (sym «"a0"») (sym «"t1"») (sym lit) [LTok nl] None
                10%N 6%N z eq_refl eq_refl Hz) as [_ H];
   edestruct H as [_ [_ Hr]]; [vm_compute; reflexivity|exact He|];
   rewrite !Hr; vm_compute; split; reflexivity].
Example sltiu_ex : itype_example «"sltiu"» «"1"» (-5) 1 0.
Proof. itype_example_tac «"sltiu"» FoldSpec.Sltu «"1"» 1. Qed.
Example srai_ex : itype_example «"srai"» «"1"» (-8) 1 (-4).
Proof. itype_example_tac «"srai"» FoldSpec.Sra «"1"» 1. Qed.
(* no range check: a 17-bit immediate and a shift amount of 33 (read modulo 32, as the ISA does for
   register shift amounts) are accepted *)
Example itype_no_range_check : itype_example «"addi"» «"100000"» 5 100000 100005.
Proof. itype_example_tac «"addi"» FoldSpec.Add «"100000"» 100000. Qed.
Example itype_no_shamt_check : itype_example «"slli"» «"33"» 1 33 2.
Proof. itype_example_tac «"slli"» FoldSpec.Sll «"33"» 33. Qed.

(* ---- (3) loads and stores, `off(rs1)` form ----------------------------------------------------------- *)
Section Sem2.
  Variable addr_of : str -> Z.
  Lemma eff_strip_load n i rd rs1 imm s s' :
    strip_node n = PLoad (sw i) (sw rd) (sw rs1) (sw imm) raw_default ->
    effect addr_of n s s' ->
    let '(w, signed) := load_width i in
    let u := load_u s (rget s rs1 + imm) w in
    s' = rset s rd (if signed then (if Z.eqb w 4 then wrap32 u else sext w u) else u).
  Proof.
    intros Hs He. destruct n; cbn [strip_node] in Hs; try discriminate Hs.
    injection Hs as Hi Hrd Hrs1 Himm. apply eff_load in He.
    rewrite Hi, Hrd, Hrs1, Himm in He. exact He.
  Qed.
  Lemma eff_strip_store n i rs1 rs2 imm s s' :
    strip_node n = PStore (sw i) (sw rs1) (sw rs2) (sw imm) raw_default ->
    effect addr_of n s s' ->
    store_rel s (rget s rs1 + imm) (to_u32 (rget s rs2)) (store_width i) s'.
  Proof.
    intros Hs He. destruct n; cbn [strip_node] in Hs; try discriminate Hs.
    injection Hs as Hi Hrs1 Hrs2 Himm. apply eff_store in He.
    rewrite Hi, Hrs1, Hrs2, Himm in He. exact He.
  Qed.
  Lemma eff_strip_la n i rd l s s' :
    strip_node n = PLoadAddr (sw i) (sw rd) (sw l) raw_default ->
    effect addr_of n s s' -> s' = rset s rd (wrap32 (addr_of l)).
  Proof.
    intros Hs He. destruct n; cbn [strip_node] in Hs; try discriminate Hs.
    injection Hs as Hi Hrd Hl. apply eff_la in He. rewrite Hrd, Hl in He. exact He.
  Qed.
End Sem2.

Lemma load_kind m w sg I : In (m, (w, sg)) AsmSpec.manual_loads -> inst_from_str m = Some I -> inst_kind I = KLoad.
Proof.
  intros Hin HI. cbn [AsmSpec.manual_loads In] in Hin.
  repeat (destruct Hin as [Hin|Hin]; [injection Hin as <- _ _; vm_compute in HI; injection HI as <-; reflexivity|]).
  contradiction.
Qed.
Lemma store_kind m w I : In (m, w) AsmSpec.manual_stores -> inst_from_str m = Some I -> inst_kind I = KStore.
Proof.
  intros Hin HI. cbn [AsmSpec.manual_stores In] in Hin.
  repeat (destruct Hin as [Hin|Hin]; [injection Hin as <- _; vm_compute in HI; injection HI as <-; reflexivity|]).
  contradiction.
Qed.

(* the value a load of w bytes (sign-extended or not) puts into rd - as in Rv32.effect, the width and
   signedness being those of the MANUAL table *)
Definition loaded (s : mstate) (a : Z) (w : Z) (sg : bool) : Z :=
  let u := load_u s a w in if sg then (if Z.eqb w 4 then wrap32 u else sext w u) else u.

Definition load_sem : Prop :=
  forall m w sg, In (m, (w, sg)) AsmSpec.manual_loads ->
  forall I, inst_from_str m = Some I ->
  forall (addr_of : str -> Z) t0 t_rd t_z lp t_rs1 rp rest raw rd z rs1,
  tok_reg_val t_rd = Some rd ->
  tok_imm_val t_z = Ok (Some z) ->
  is_lparen lp = true ->
  tok_reg_val t_rs1 = Some rs1 ->
  is_rparen rp = true ->
  (exists n raw', parse_inst I t0 (LTok t_rd :: LTok t_z :: LTok lp :: LTok t_rs1 :: LTok rp :: rest, raw)
                  = Ok (inr n, (rest, raw'))) /\
  forall n st', parse_inst I t0 (LTok t_rd :: LTok t_z :: LTok lp :: LTok t_rs1 :: LTok rp :: rest, raw) = Ok (inr n, st') ->
  forall s s', effect addr_of n s s' ->
    s' = rset s rd (loaded s (rget s rs1 + z) w sg) /\
    (regs_in32 s -> regs_in32 s') /\
    (forall r, rget s' r = if N.eqb r 0 then 0 else if N.eqb r rd then loaded s (rget s rs1 + z) w sg else rget s r).
Theorem sem_load : load_sem.
Proof.
  intros m w sg Hin I HI addr_of t0 t_rd t_z lp t_rs1 rp rest raw rd z rs1 Hrd Hz Hlp H1 Hrp.
  pose proof (load_kind m w sg I Hin HI) as HK.
  destruct (proj1 decode_mem m w sg Hin) as [i' [Hi' Hw]]. rewrite HI in Hi'. injection Hi' as <-.
  destruct (form_load_off_paren I t0 t_rd t_z lp t_rs1 rp rest raw rd z rs1 HK Hrd Hz Hlp H1 Hrp) as [n0 [raw0 [Hp Hst]]].
  split; [exists n0, raw0; exact Hp|].
  intros n st' Hp' s s' He. rewrite Hp in Hp'. injection Hp' as Hn _. subst n0.
  apply (eff_strip_load addr_of _ _ _ _ _ _ _ Hst) in He. rewrite Hw in He. cbv beta iota zeta in He.
  unfold loaded. subst s'. split; [reflexivity|]. split.
  - intros Is. apply regs_in32_rset; [exact Is|].
    assert (Hws : (w = 1 \/ w = 2 \/ w = 4) /\ (w = 4 -> sg = true)).
    { cbn [AsmSpec.manual_loads In] in Hin.
      repeat (destruct Hin as [Hin|Hin]; [injection Hin as _ <- <-; split; [lia|intros; first [reflexivity|lia]]|]).
      contradiction. }
    apply load_u_in32; tauto.
  - intros r. apply rget_after.
Qed.

Definition store_sem : Prop :=
  forall m w, In (m, w) AsmSpec.manual_stores ->
  forall I, inst_from_str m = Some I ->
  forall (addr_of : str -> Z) t0 t_rs2 t_z lp t_rs1 rp rest raw rs2 z rs1,
  tok_reg_val t_rs2 = Some rs2 ->
  tok_imm_val t_z = Ok (Some z) ->
  is_lparen lp = true ->
  tok_reg_val t_rs1 = Some rs1 ->
  is_rparen rp = true ->
  (exists n raw', parse_inst I t0 (LTok t_rs2 :: LTok t_z :: LTok lp :: LTok t_rs1 :: LTok rp :: rest, raw)
                  = Ok (inr n, (rest, raw'))) /\
  forall n st', parse_inst I t0 (LTok t_rs2 :: LTok t_z :: LTok lp :: LTok t_rs1 :: LTok rp :: rest, raw) = Ok (inr n, st') ->
  forall s s', effect addr_of n s s' ->
    store_rel s (rget s rs1 + z) (to_u32 (rget s rs2)) w s'.
Theorem sem_store : store_sem.
Proof.
  intros m w Hin I HI addr_of t0 t_rs2 t_z lp t_rs1 rp rest raw rs2 z rs1 H2 Hz Hlp H1 Hrp.
  pose proof (store_kind m w I Hin HI) as HK.
  destruct (proj2 decode_mem m w Hin) as [i' [Hi' Hw]]. rewrite HI in Hi'. injection Hi' as <-.
  destruct (form_store_off_paren I t0 t_rs2 t_z lp t_rs1 rp rest raw rs2 z rs1 HK H2 Hz Hlp H1 Hrp) as [n0 [raw0 [Hp Hst]]].
  split; [exists n0, raw0; exact Hp|].
  intros n st' Hp' s s' He. rewrite Hp in Hp'. injection Hp' as Hn _. subst n0.
  apply (eff_strip_store addr_of _ _ _ _ _ _ _ Hst) in He. rewrite Hw in He. exact He.
Qed.

(* examples: memory byte 100 = 0x80, byte 101 = 0xff, t1 = 100, s2 = -1 *)
Definition mst : mstate :=
  mkst (lookup_reg [(6%N, 100); (18%N, -1)]) (fun a => if a =? 100 then 128 else if a =? 101 then 255 else 0).
Definition load_example (m : str) (expect : Z) : Prop :=
  forall addr_of : str -> Z, exists I n st',
    inst_from_str m = Some I /\
    parse_inst I (sym m) ([LTok (sym «"a0"»); LTok (sym «"0"»); LTok lpar; LTok (sym «"t1"»); LTok rpar; LTok nl], None)
      = Ok (inr n, st') /\
    (exists s', effect addr_of n mst s') /\
    forall s', effect addr_of n mst s' -> rget s' 10 = expect /\ rget s' 6 = 100.
Ltac load_example_tac m w sg :=
  intros addr_of; eexists; eexists; eexists;
  split; [vm_compute; reflexivity|]; split; [vm_compute; reflexivity|]; split;
  [eexists; eapply EffLoad; [reflexivity|cbv beta iota zeta delta [load_width wv]; reflexivity]
  |intros s' He;
   assert (Hin : In (m, (w, sg)) AsmSpec.manual_loads) by (vm_compute; tauto);
   edestruct (sem_load m w sg Hin _ eq_refl addr_of (sym m) (sym «"a0"») (sym «"0"») lpar (sym «"t1"») rpar [LTok nl] None
                10%N 0 6%N eq_refl eq_refl eq_refl eq_refl eq_refl) as [_ H];
   edestruct H as [_ [_ Hr]]; [vm_compute; reflexivity|exact He|];
   rewrite !Hr; vm_compute; split; reflexivity].
Example lb_ex : load_example «"lb"» (-128).   Proof. load_example_tac «"lb"» 1 true. Qed.
Example lbu_ex : load_example «"lbu"» 128.    Proof. load_example_tac «"lbu"» 1 false. Qed.
Example lh_ex : load_example «"lh"» (-128).   Proof. load_example_tac «"lh"» 2 true. Qed.
Example lhu_ex : load_example «"lhu"» 65408.  Proof. load_example_tac «"lhu"» 2 false. Qed.
Example lw_ex : load_example «"lw"» 65408.    Proof. load_example_tac «"lw"» 4 true. Qed.

(* `sb s2, 0(t1)` writes the byte 0xff at 100 and leaves byte 101 alone; `sh` also writes byte 101 *)
Definition store_example (m : str) (b100 b101 b102 : Z) : Prop :=
  forall addr_of : str -> Z, exists I n st',
    inst_from_str m = Some I /\
    parse_inst I (sym m) ([LTok (sym «"s2"»); LTok (sym «"0"»); LTok lpar; LTok (sym «"t1"»); LTok rpar; LTok nl], None)
      = Ok (inr n, st') /\
    forall s', effect addr_of n mst s' ->
      byte_at s' 100 = b100 /\ (b101 = 255 -> byte_at s' 101 = 255) /\ (b101 = -1 -> mem s' 101 = mem mst 101) /\
      (b102 = -1 -> mem s' 102 = mem mst 102) /\ regs s' = regs mst.
Ltac store_example_tac m w :=
  intros addr_of; eexists; eexists; eexists;
  split; [vm_compute; reflexivity|]; split; [vm_compute; reflexivity|];
  intros s' He;
  assert (Hin : In (m, w) AsmSpec.manual_stores) by (vm_compute; tauto);
  edestruct (sem_store m w Hin _ eq_refl addr_of (sym m) (sym «"s2"») (sym «"0"») lpar (sym «"t1"») rpar [LTok nl] None
               18%N 0 6%N eq_refl eq_refl eq_refl eq_refl eq_refl) as [_ H];
  edestruct H as [Hregs [Hb Hm]]; [vm_compute; reflexivity|exact He|].
Example sb_ex : store_example «"sb"» 255 (-1) (-1).
Proof.
  store_example_tac «"sb"» 1.
  split; [exact (Hb 0 ltac:(lia))|]. split; [intros; lia|].
  split; [intros _; apply (Hm 101); intros k Hk; assert (k = 0) by lia; subst k; vm_compute; discriminate|].
  split; [intros _; apply (Hm 102); intros k Hk; assert (k = 0) by lia; subst k; vm_compute; discriminate|exact Hregs].
Qed.
Example sh_ex : store_example «"sh"» 255 255 (-1).
Proof.
  store_example_tac «"sh"» 2.
  split; [exact (Hb 0 ltac:(lia))|]. split; [intros _; exact (Hb 1 ltac:(lia))|]. split; [intros; lia|].
  split; [|exact Hregs].
  intros _; apply (Hm 102); intros k Hk; assert (k = 0 \/ k = 1) as [-> | ->] by lia; vm_compute; discriminate.
Qed.

(* ---- (4) remaining pseudo-instructions --------------------------------------------------------------- *)
(* la rd, l : rd := the address of l *)
Definition la_sem : Prop :=
  forall (addr_of : str -> Z) t0 t_rd t_l rest raw rd l,
  tok_reg_val t_rd = Some rd ->
  tok_label_val t_l = Some l ->
  (exists n raw', parse_inst ILa t0 (LTok t_rd :: LTok t_l :: rest, raw) = Ok (inr n, (rest, raw'))) /\
  forall n st', parse_inst ILa t0 (LTok t_rd :: LTok t_l :: rest, raw) = Ok (inr n, st') ->
  forall s s', regs_in32 s -> effect addr_of n s s' ->
    s' = rset s rd (wrap32 (addr_of l)) /\
    regs_in32 s' /\
    (forall r, rget s' r = if N.eqb r 0 then 0 else if N.eqb r rd then wrap32 (addr_of l) else rget s r).
Theorem sem_la : la_sem.
Proof.
  intros addr_of t0 t_rd t_l rest raw rd l Hrd Hl.
  destruct (form_la t0 t_rd t_l rest raw rd l Hrd Hl) as [n0 [raw0 [Hp Hst]]].
  split; [exists n0, raw0; exact Hp|].
  intros n st' Hp' s s' Is He. rewrite Hp in Hp'. injection Hp' as Hn _. subst n0.
  apply (eff_strip_la addr_of _ _ _ _ _ _ Hst) in He.
  apply unary_finish; [exact Is|apply wrap32_in32|exact He].
Qed.

Lemma strip_jumplink_inv n i rd l :
  strip_node n = PJumpLink (sw i) (sw rd) (sw l) raw_default ->
  exists wi wrd wl rt, n = PJumpLink wi wrd wl rt /\ wv wi = i /\ wv wrd = rd /\ wv wl = l.
Proof.
  intros Hs. destruct n; cbn [strip_node] in Hs; try discriminate Hs.
  injection Hs as Hi Hrd Hl. do 4 eexists. split; [reflexivity|]. repeat split; assumption.
Qed.
Lemma strip_jumplinkr_inv n i rd rs1 imm :
  strip_node n = PJumpLinkR (sw i) (sw rd) (sw rs1) (sw imm) raw_default ->
  exists wi wrd wrs wimm rt, n = PJumpLinkR wi wrd wrs wimm rt /\ wv wi = i /\ wv wrd = rd /\ wv wrs = rs1 /\ wv wimm = imm.
Proof.
  intros Hs. destruct n; cbn [strip_node] in Hs; try discriminate Hs.
  injection Hs as Hi Hrd Hrs Him. do 5 eexists. split; [reflexivity|]. repeat split; assumption.
Qed.

Lemma node_j P t0 t_l rest raw l : P = IJ \/ P = IB ->
  tok_label_val t_l = Some l ->
  parses_to (parse_inst P t0 (LTok t_l :: rest, raw)) (PJumpLink (sw IJal) (sw 0%N) (sw l) raw_default) rest.
Proof. intros [-> | ->]; parses_tac. Qed.
Lemma node_call t0 t_l rest raw l :
  tok_label_val t_l = Some l ->
  parses_to (parse_inst ICall t0 (LTok t_l :: rest, raw)) (PJumpLink (sw IJal) (sw 1%N) (sw l) raw_default) rest.
Proof. parses_tac. Qed.
Lemma node_jr t0 t_rs rest raw rs :
  tok_reg_val t_rs = Some rs ->
  parses_to (parse_inst IJr t0 (LTok t_rs :: rest, raw)) (PJumpLinkR (sw IJalr) (sw 0%N) (sw rs) (sw 0) raw_default) rest.
Proof. parses_tac. Qed.
Lemma node_ret t0 rest raw :
  parses_to (parse_inst IRet t0 (rest, raw)) (PJumpLinkR (sw IJalr) (sw 0%N) (sw 1%N) (sw 0) raw_default) rest.
Proof. parses_tac. Qed.
Lemma node_sgez t0 t_rs t_l rest raw rs l :
  tok_reg_val t_rs = Some rs -> tok_label_val t_l = Some l ->
  parses_to (parse_inst ISgez t0 (LTok t_rs :: LTok t_l :: rest, raw))
            (PBranch (sw IBge) (sw 0%N) (sw rs) (sw l) raw_default) rest.
Proof. parses_tac. Qed.

(* j l / b l : the node of `jal x0, l` - a jump to l that links into x0, i.e. changes no register *)
Definition jump_sem (P : inst) : Prop :=
  forall (addr_of : str -> Z) t0 t_l rest raw l,
  tok_label_val t_l = Some l ->
  (exists n raw', parse_inst P t0 (LTok t_l :: rest, raw) = Ok (inr n, (rest, raw'))) /\
  forall n st', parse_inst P t0 (LTok t_l :: rest, raw) = Ok (inr n, st') ->
  exists i rd lbl rt,
    n = PJumpLink i rd lbl rt /\ wv i = IJal /\ wv rd = 0%N /\ wv lbl = l /\
    (forall s s', effect addr_of n s s' -> s' = s).
Lemma sem_jump P : P = IJ \/ P = IB -> jump_sem P.
Proof.
  intros HP addr_of t0 t_l rest raw l Hl.
  destruct (node_j P t0 t_l rest raw l HP Hl) as [n0 [raw0 [Hp Hst]]].
  split; [exists n0, raw0; exact Hp|].
  intros n st' Hp'. rewrite Hp in Hp'. injection Hp' as Hn _. subst n0.
  destruct (strip_jumplink_inv _ _ _ _ Hst) as (wi & wrd & wl & rt0 & -> & Hi & Hrd & Hwl).
  exists wi, wrd, wl, rt0. repeat (split; [first [reflexivity|assumption]|]).
  intros s s' He. apply eff_jump in He; [|rewrite Hrd; reflexivity].
  destruct He as [v [_ ->]]. rewrite Hrd. reflexivity.
Qed.
Theorem sem_j : jump_sem IJ. Proof. apply sem_jump. left. reflexivity. Qed.
Theorem sem_b : jump_sem IB. Proof. apply sem_jump. right. reflexivity. Qed.

(* jal l / call l : the node of `jal ra, l` - a call; the machine summarises the callee by the calling
   convention (Rv32.EffCall) *)
Definition call_sem (P : inst) : Prop :=
  forall (addr_of : str -> Z) t0 t_l rest raw l,
  tok_label_val t_l = Some l ->
  (exists n raw', parse_inst P t0 (LTok t_l :: rest, raw) = Ok (inr n, (rest, raw'))) /\
  forall n st', parse_inst P t0 (LTok t_l :: rest, raw) = Ok (inr n, st') ->
  exists i rd lbl rt,
    n = PJumpLink i rd lbl rt /\ wv i = IJal /\ wv rd = 1%N /\ wv lbl = l /\
    (forall s s', effect addr_of n s s' ->
       regs_in32 s' /\
       (forall r, callee_preserves r = true -> rget s' r = rget s r) /\
       (forall a, above_sp s a -> mem s' (ma a) = mem s (ma a))).
Lemma call_finish (addr_of : str -> Z) n0 l :
  strip_node n0 = PJumpLink (sw IJal) (sw 1%N) (sw l) raw_default ->
  exists i rd lbl rt,
    n0 = PJumpLink i rd lbl rt /\ wv i = IJal /\ wv rd = 1%N /\ wv lbl = l /\
    (forall s s', effect addr_of n0 s s' ->
       regs_in32 s' /\
       (forall r, callee_preserves r = true -> rget s' r = rget s r) /\
       (forall a, above_sp s a -> mem s' (ma a) = mem s (ma a))).
Proof.
  intros Hst.
  destruct (strip_jumplink_inv _ _ _ _ Hst) as (wi & wrd & wl & rt0 & -> & Hi & Hrd & Hwl).
  exists wi, wrd, wl, rt0. repeat (split; [first [reflexivity|assumption]|]).
  intros s s' He. apply eff_call in He; [exact He|rewrite Hrd; reflexivity].
Qed.
Theorem sem_call : call_sem ICall.
Proof.
  intros addr_of t0 t_l rest raw l Hl.
  destruct (node_call t0 t_l rest raw l Hl) as [n0 [raw0 [Hp Hst]]].
  split; [exists n0, raw0; exact Hp|].
  intros n st' Hp'. rewrite Hp in Hp'. injection Hp' as Hn _. subst n0.
  exact (call_finish addr_of n l Hst).
Qed.
Theorem sem_jal_label : call_sem IJal.
Proof.
  intros addr_of t0 t_l rest raw l Hl.
  destruct (form_jal_label IJal t0 t_l rest raw l eq_refl Hl) as [n0 [raw0 [Hp Hst]]].
  split; [exists n0, raw0; exact Hp|].
  intros n st' Hp'. rewrite Hp in Hp'. injection Hp' as Hn _. subst n0.
  exact (call_finish addr_of n l Hst).
Qed.

(* jr rs : the node of `jalr x0, rs, 0`; it is the function return exactly when rs = ra.  The machine of
   Rv32.v follows one activation and has no step out of a jalr node (a return ends the activation, a
   computed jump is outside the supported programs): no effect at all *)
Definition jr_sem : Prop :=
  forall (addr_of : str -> Z) t0 t_rs rest raw rs,
  tok_reg_val t_rs = Some rs ->
  (exists n raw', parse_inst IJr t0 (LTok t_rs :: rest, raw) = Ok (inr n, (rest, raw'))) /\
  forall n st', parse_inst IJr t0 (LTok t_rs :: rest, raw) = Ok (inr n, st') ->
  (exists i rd rs1 imm rt,
    n = PJumpLinkR i rd rs1 imm rt /\ wv i = IJalr /\ wv rd = 0%N /\ wv rs1 = rs /\ wv imm = 0) /\
  is_return n = N.eqb rs 1 /\
  (forall s s', ~ effect addr_of n s s').
Theorem sem_jr : jr_sem.
Proof.
  intros addr_of t0 t_rs rest raw rs Hrs.
  destruct (node_jr t0 t_rs rest raw rs Hrs) as [n0 [raw0 [Hp Hst]]].
  split; [exists n0, raw0; exact Hp|].
  intros n st' Hp'. rewrite Hp in Hp'. injection Hp' as Hn _. subst n0.
  destruct (strip_jumplinkr_inv _ _ _ _ _ Hst) as (wi & wrd & wrs & wimm & rt0 & -> & Hi & Hrd & Hrs1 & Him).
  split; [exists wi, wrd, wrs, wimm, rt0; repeat (split; [first [reflexivity|assumption]|]); assumption|].
  split.
  - unfold is_return, inst_is, reg_is. rewrite Hi, Hrd, Hrs1, Him. cbn. destruct (N.eqb rs 1); reflexivity.
  - intros s s' He. exact (eff_none addr_of _ _ _ He).
Qed.
Definition ret_sem : Prop :=
  forall (addr_of : str -> Z) t0 rest raw,
  (exists n raw', parse_inst IRet t0 (rest, raw) = Ok (inr n, (rest, raw'))) /\
  forall n st', parse_inst IRet t0 (rest, raw) = Ok (inr n, st') ->
  (exists i rd rs1 imm rt,
    n = PJumpLinkR i rd rs1 imm rt /\ wv i = IJalr /\ wv rd = 0%N /\ wv rs1 = 1%N /\ wv imm = 0) /\
  is_return n = true /\
  (forall s s', ~ effect addr_of n s s').
Theorem sem_ret : ret_sem.
Proof.
  intros addr_of t0 rest raw.
  destruct (node_ret t0 rest raw) as [n0 [raw0 [Hp Hst]]].
  split; [exists n0, raw0; exact Hp|].
  intros n st' Hp'. rewrite Hp in Hp'. injection Hp' as Hn _. subst n0.
  destruct (strip_jumplinkr_inv _ _ _ _ _ Hst) as (wi & wrd & wrs & wimm & rt0 & -> & Hi & Hrd & Hrs1 & Him).
  split; [exists wi, wrd, wrs, wimm, rt0; repeat (split; [first [reflexivity|assumption]|]); assumption|].
  split.
  - unfold is_return, inst_is, reg_is. rewrite Hi, Hrd, Hrs1, Him. reflexivity.
  - intros s s' He. exact (eff_none addr_of _ _ _ He).
Qed.

(* sgez rs, l : NOT the manual's "set if >= zero" (which would be two instructions, slt + xori): the
   model, like the implementation, reads two operands `rs, label` and builds the BRANCH `bge x0, rs, l`,
   which is taken iff rs <= 0 - the condition of `blez` *)
Theorem sem_sgez : branch1_sem ISgez PseudoSpec.blez.
Proof. branch1_tac node_sgez. Qed.

(* ---- examples for (4) ------------------------------------------------------------------------------ *)
Example la_ex :
  forall addr_of : str -> Z, exists n st',
    parse_inst ILa (sym «"la"») ([LTok (sym «"a0"»); LTok (sym «"msg"»); LTok nl], None) = Ok (inr n, st') /\
    (exists s', effect addr_of n (st_of [(10%N, 7)]) s') /\
    forall s', effect addr_of n (st_of [(10%N, 7)]) s' -> rget s' 10 = wrap32 (addr_of «"msg"») /\ rget s' 0 = 0.
Proof.
  intros addr_of.
  pose proof (sem_la addr_of (sym «"la"») (sym «"a0"») (sym «"msg"») [LTok nl] None 10%N «"msg"» eq_refl eq_refl) as [_ H].
  eexists; eexists; split; [vm_compute; reflexivity|].
  split; [eexists; eapply EffLoadAddr; [reflexivity|reflexivity]|].
  intros s' He. edestruct H as [_ [_ Hr]]; [vm_compute; reflexivity| |exact He|]; [st_in32|].
  rewrite !Hr. split; reflexivity.
Qed.
Definition jumplink_example (P : inst) (link : N) : Prop :=
  exists n st',
    parse_inst P (sym «"x"») ([LTok (sym «"loop"»); LTok nl], None) = Ok (inr n, st') /\
    match n with
    | PJumpLink i rd l _ => wv i = IJal /\ wv rd = link /\ wv l = «"loop"»
    | _ => False
    end.
Ltac jumplink_example_tac := eexists; eexists; split; [vm_compute; reflexivity|vm_compute; repeat split; reflexivity].
Example j_ex : jumplink_example IJ 0%N. Proof. jumplink_example_tac. Qed.
Example b_ex : jumplink_example IB 0%N. Proof. jumplink_example_tac. Qed.
Example jal_ex : jumplink_example IJal 1%N. Proof. jumplink_example_tac. Qed.
Example call_ex : jumplink_example ICall 1%N. Proof. jumplink_example_tac. Qed.
Example jr_ret_ex :
  (exists n st', parse_inst IJr (sym «"jr"») ([LTok (sym «"t1"»); LTok nl], None) = Ok (inr n, st') /\ is_return n = false) /\
  (exists n st', parse_inst IJr (sym «"jr"») ([LTok (sym «"ra"»); LTok nl], None) = Ok (inr n, st') /\ is_return n = true) /\
  (exists n st', parse_inst IRet (sym «"ret"») ([LTok nl], None) = Ok (inr n, st') /\ is_return n = true).
Proof. repeat split; (eexists; eexists; split; [vm_compute; reflexivity|vm_compute; reflexivity]). Qed.
(* sgez t1, loop with t1 = 5 is NOT taken, with t1 = -5 it is: the condition is rs <= 0 *)
Example sgez_pos_ex : branch1_example ISgez 5 false. Proof. branch_example_tac. Qed.
Example sgez_neg_ex : branch1_example ISgez (-5) true. Proof. branch_example_tac. Qed.
