(* Proofs for Props/C04sem.v: the definite stack diagnostics are never false positives.

   Props/C04.v (LintProofs.every_diagnostic_is_due) says which FACT makes the lint pass emit a
   diagnostic; Props/C01.v (SoundProofs.claims_hold_on_executions) says the value facts are true on
   every execution of the machine of Spec/Rv32.v.  Here the two are joined for
   LInvalidStackPosition (the outgoing stack pointer is claimed to be entry sp + off, 0 < off) and
   LInvalidStackOffsetUsage (a load/store through sp at or above the entry stack pointer).

   The lemmas are generic in the set of executions: `R i s` ("an execution is at node i in state
   s") and `S s c` ("node c is supported in state s") are parameters, and the only thing asked of
   them is `step_claims`: the outgoing register claims of a node hold after a step out of it.
   Props/C04sem.v instantiates R, S with `srun`, `supported_at` of Props/C01.v, once through
   C01_claims_hold_on_executions and once through C01_pipeline_claims. *)
From RV.Model Require Import Base I32 Lexer Isa Parser Cfg Avail Live Lints.
From RV.Spec Require Import Rv32 AvailSpec FixSpec CfgSpec LintSpec.
From RV.Proofs Require Import LintProofs.
From RV.Proofs Require SoundProofs.
Require Import Lia ZifyBool ZifyN.
Open Scope Z_scope.

(* ---- where the two diagnostics come from, with the code tied to the fact -------------------- *)

(* LintProofs.every_diagnostic_is_due gives `first_bad_sp g i c s` for SOME s for the three
   stack-pointer codes; here the code LInvalidStackPosition is tied to s = SpPositive *)
Lemma stack_position_origin g x :
  In x (run_diagnostics g) -> lcode x = LInvalidStackPosition ->
  exists i c, first_bad_sp g i c SpPositive /\ x = lint1 LInvalidStackPosition (node_loc c).
Proof.
  intros Hin Hk. apply in_run_diagnostics in Hin.
  destruct Hin as [H|[H|[H|[H|[H|[H|[H|[H|[H|[H|H]]]]]]]]]].
  - apply in_save_to_zero in H. destruct H as (i & c & r & _ & _ & _ & _ & ->).
    cbn in Hk. discriminate Hk.
  - apply in_dead_value in H.
    destruct H as [(i & c & fid & f & _ & _ & _ & Hu)|(i & c & d & _ & _ & _ & _ & _ & ->)].
    + apply usage_lints_in in Hu. destruct Hu as [E _]. rewrite E in Hk. discriminate Hk.
    + cbn in Hk. discriminate Hk.
  - apply in_instruction_in_text in H. destruct H as (i & c & _ & _ & _ & ->).
    cbn in Hk. discriminate Hk.
  - apply in_ecall in H. destruct H as (i & c & _ & _ & _ & ->). cbn in Hk. discriminate Hk.
  - apply in_control_flow in H.
    destruct H as [(i & c & p & pc & _ & _ & _ & _ & _ & _ & ->)
                  |[(i & c & p & pc & _ & _ & _ & _ & _ & _ & _ & ->)
                   |(i & c & _ & _ & _ & ->)]]; cbn in Hk; discriminate Hk.
  - apply in_garbage_input in H.
    destruct H as [(i & c & _ & _ & Hu)|(i & c & f & _ & _ & _ & Hu)];
      apply usage_lints_in in Hu; destruct Hu as [E _]; rewrite E in Hk; discriminate Hk.
  - unfold lint_stack in H. apply in_stack_loop in H.
    destruct H as [(i & c & Hc & Hbad & Hbefore & ->)
                  |(i & c & off & r2 & off2 & _ & _ & _ & _ & _ & _ & ->)].
    + cbn [lcode lint1] in Hk.
      destruct (sp_state_of c) eqn:Es; cbn [sp_code] in Hk; try discriminate Hk.
      exists i, c. split; [|reflexivity].
      split; [exact Hc|]. split; [exact Es|]. split; [discriminate|exact Hbefore].
    + cbn in Hk. discriminate Hk.
  - apply in_callee_saved in H. destruct H as (f & e & r & w & _ & _ & _ & _ & _ & ->).
    cbn in Hk. discriminate Hk.
  - apply in_garbage_read in H. destruct H as (i & c & rd & _ & _ & _ & _ & _ & ->).
    cbn in Hk. discriminate Hk.
  - apply in_lost in H. destruct H as (i & c & r & _ & _ & _ & _ & _ & _ & _ & ->).
    cbn in Hk. discriminate Hk.
  - apply in_overlapping in H. destruct H as [E _]. rewrite E in Hk. discriminate Hk.
Qed.

Lemma sp_positive_fact c :
  sp_state_of c = SpPositive -> exists off, rm_get 2%N (rout c) = Some (AOrig 2%N off) /\ 0 < off.
Proof.
  unfold sp_state_of.
  destruct (rm_get 2%N (rout c)) as [[| | | |r off| | | |]|]; try discriminate.
  destruct (N.eqb r 2%N) eqn:Er; cbn [negb]; [|discriminate].
  destruct (Z.ltb 0 off) eqn:Eo; [|discriminate]. intros _.
  apply N.eqb_eq in Er. subst r. exists off. split; [reflexivity|lia].
Qed.

Lemma sp_positive_iff c :
  sp_state_of c = SpPositive <-> exists off, rm_get 2%N (rout c) = Some (AOrig 2%N off) /\ 0 < off.
Proof.
  split; [apply sp_positive_fact|].
  intros (off & E & Ho). unfold sp_state_of. rewrite E. cbn [N.eqb Pos.eqb negb].
  destruct (Z.ltb 0 off) eqn:Eo; [reflexivity|lia].
Qed.

Lemma stack_offset_usage_origin g x :
  In x (run_diagnostics g) -> lcode x = LInvalidStackOffsetUsage ->
  exists i c off off2, node_at g i c /\ lcands x = [node_loc c] /\
    uses_memory_location (cn c) = Some (2%N, off2) /\ rm_get 2%N (rout c) = Some (AOrig 2%N off) /\
    off <= 0 /\ 0 <= off2 + off.
Proof.
  intros Hin Hk. pose proof (every_diagnostic_is_due g x Hin) as D. rewrite Hk in D.
  destruct D as (l & Hl & T).
  inversion T as [| | | | | | | | | |i c off r2 off2 Hc Hbefore Hr Hu H2 Hsum Hcode Hloc]. subst r2.
  exists i, c, off, off2. split; [exact Hc|]. split; [congruence|].
  split; [exact Hu|]. split; [exact Hr|]. split; [|exact Hsum].
  destruct (Hbefore i c (le_n i) Hc) as (o & Ho & Hle). rewrite Hr in Ho. injection Ho as <-. exact Hle.
Qed.

(* ---- the machine side ------------------------------------------------------------------------ *)

(* a claim `sp = AOrig 2%N off` of a register map that holds on s' *)
Lemma sp_claim_true a s0 s' m off :
  reg_claims a s0 s' m -> rm_get 2%N m = Some (AOrig 2%N off) -> rget s' 2 = wrap32 (rget s0 2 + off).
Proof. intros R G. exact (R 2%N _ G). Qed.

(* a load/store through sp that does not write sp leaves sp alone *)
Lemma mem_node_keeps_sp a n s s' off2 :
  uses_memory_location n = Some (2%N, off2) ->
  (forall w, writes_to n = Some w -> wv w <> 2%N) ->
  effect a n s s' -> rget s' 2 = rget s 2.
Proof.
  intros U W E.
  destruct E as [i rd rs1 rs2 rt En H | i rd rs1 imm rt En H | i rd name rt En H | i rd rs1 imm rt En H
                | i rs1 rs2 imm rt En H | i rs1 rs2 name rt En H | i rd name rt En Hr H
                | i rd name rt En Hr H1 H2 H3 | i rt En Hi H1 H2 H3 | i rt En Hi H | He H];
    try (subst n; discriminate U).
  - (* load *) subst n. destruct (load_width (wv i)) as [w sg]. cbv zeta in H. subst s'.
    apply SoundProofs.rget_rset_other. intros E. exact (W rd eq_refl (eq_sym E)).
  - (* store *) subst n. destruct H as (Hr & _ & _). apply SoundProofs.rget_regs_eq. exact Hr.
  - (* an entry node is not a load/store *) destruct n; try discriminate U; discriminate He.
Qed.

(* ---- (1) and (2), generic in the set of executions ------------------------------------------ *)
Definition step_claims (a : str -> Z) (g : cfg) (s0 : mstate)
           (R : nat -> mstate -> Prop) (S : mstate -> cnode -> Prop) : Prop :=
  forall i s c j s', R i s -> nth_opt (gnodes g) i = Some c -> S s c -> step a g i s j s' ->
    reg_claims a s0 s' (rout c).

Theorem positive_sp_is_real_gen a g s0 R S :
  step_claims a g s0 R S ->
  forall x, In x (run_diagnostics g) -> lcode x = LInvalidStackPosition ->
    exists i c off, node_at g i c /\ lcands x = [node_loc c] /\ 0 < off /\
      rm_get 2%N (rout c) = Some (AOrig 2%N off) /\ first_bad_sp g i c SpPositive /\
      forall s j s', R i s -> S s c -> step a g i s j s' -> rget s' 2 = wrap32 (rget s0 2 + off).
Proof.
  intros CL x Hin Hk. destruct (stack_position_origin g x Hin Hk) as (i & c & Hfb & ->).
  destruct Hfb as (Hc & Hs & Hne & Hbefore).
  destruct (sp_positive_fact c Hs) as (off & Hr & Ho).
  exists i, c, off. split; [exact Hc|]. split; [reflexivity|]. split; [exact Ho|]. split; [exact Hr|].
  split; [repeat split; auto|].
  intros s j s' HR HS St. exact (sp_claim_true a s0 s' (rout c) off (CL i s c j s' HR Hc HS St) Hr).
Qed.

Theorem stack_offset_usage_is_real_gen a g s0 R S :
  step_claims a g s0 R S ->
  forall x, In x (run_diagnostics g) -> lcode x = LInvalidStackOffsetUsage ->
    exists i c off off2, node_at g i c /\ lcands x = [node_loc c] /\
      uses_memory_location (cn c) = Some (2%N, off2) /\ 0 <= off2 + off /\ off <= 0 /\
      rm_get 2%N (rout c) = Some (AOrig 2%N off) /\
      forall s j s', R i s -> S s c -> step a g i s j s' ->
        rget s' 2 = wrap32 (rget s0 2 + off) /\
        ((forall w, writes_to (cn c) = Some w -> wv w <> 2%N) ->
           rget s 2 = rget s' 2 /\
           rget s 2 + off2 = wrap32 (rget s0 2 + off) + off2 /\
           ma (rget s 2 + off2) = ma (rget s0 2 + (off + off2))).
Proof.
  intros CL x Hin Hk.
  destruct (stack_offset_usage_origin g x Hin Hk) as (i & c & off & off2 & Hc & Hl & Hu & Hr & Hle & Hsum).
  exists i, c, off, off2. split; [exact Hc|]. split; [exact Hl|]. split; [exact Hu|].
  split; [exact Hsum|]. split; [exact Hle|]. split; [exact Hr|].
  intros s j s' HR HS St.
  pose proof (sp_claim_true a s0 s' (rout c) off (CL i s c j s' HR Hc HS St) Hr) as Hsp.
  split; [exact Hsp|]. intros W.
  destruct St as (c' & Hc' & _ & E). unfold node_at in Hc. rewrite Hc in Hc'. injection Hc' as <-.
  pose proof (mem_node_keeps_sp a (cn c) s s' off2 Hu W E) as K.
  split; [symmetry; exact K|]. rewrite <- K, Hsp. split; [reflexivity|].
  rewrite SoundProofs.ma_wrap32_add. f_equal. lia.
Qed.

(* ---- (3) the contrapositive ------------------------------------------------------------------- *)
Theorem no_positive_sp_diag_gen a g s0 (R : nat -> mstate -> Prop) (S : mstate -> cnode -> Prop) :
  step_claims a g s0 R S ->
  (* the stack pointer never gets above its entry value *)
  (forall i s c j s', R i s -> nth_opt (gnodes g) i = Some c -> S s c -> step a g i s j s' ->
     forall off, 0 < off < 2147483648 -> rget s' 2 <> wrap32 (rget s0 2 + off)) ->
  (* the node the lint would report is executed by some execution, and its offset is 32-bit *)
  (forall i c off, first_bad_sp g i c SpPositive -> rm_get 2%N (rout c) = Some (AOrig 2%N off) ->
     off < 2147483648 /\ exists s j s', R i s /\ S s c /\ step a g i s j s') ->
  forall x, In x (run_diagnostics g) -> lcode x <> LInvalidStackPosition.
Proof.
  intros CL NV RE x Hin Hk.
  destruct (positive_sp_is_real_gen a g s0 R S CL x Hin Hk) as (i & c & off & Hc & _ & Ho & Hr & Hfb & Real).
  destruct (RE i c off Hfb Hr) as (Hb & s & j & s' & HR & HS & St).
  apply (NV i s c j s' HR Hc HS St off); [lia|]. exact (Real s j s' HR HS St).
Qed.

(* the offset of an outgoing sp claim is a 32-bit value at every node some execution steps out of
   (from the invariant of Proofs/SoundProofs.v; this discharges `off < 2^31` above) *)
Lemma reached_out_offset_in32 a g s0 :
  AvailEqns g -> Sym g -> SoundProofs.all_supported g -> SoundProofs.no_reentry g -> SoundProofs.all_wf g ->
  regs_in32 s0 ->
  forall i s c j s' r r' off, SoundProofs.srun a g s0 i s -> nth_opt (gnodes g) i = Some c ->
    SoundProofs.supported_at s0 s c -> step a g i s j s' ->
    rm_get r (rout c) = Some (AOrig r' off) -> in32 off.
Proof.
  intros EQ SY SUP NR WF HI i s c j s' r r' off Hrun Hc SA St G.
  pose proof (SoundProofs.srun_inv a s0 g EQ SY SUP NR WF HI i s Hrun) as IV.
  destruct (SoundProofs.out_sound a s0 g EQ SY SUP NR WF HI i s c j s' IV Hc SA St) as (RC & _ & _).
  apply SoundProofs.rm_get_In in G. apply RC in G. destruct G as (_ & _ & W & _). exact W.
Qed.

(* the node the stack-pointer lint reports is unique: the FIRST node, in program order, whose
   outgoing stack pointer is not fine *)
Lemma first_bad_sp_unique g i c s i' c' s' :
  first_bad_sp g i c s -> first_bad_sp g i' c' s' -> i = i' /\ c = c' /\ s = s'.
Proof.
  intros (Hc & Hs & Hne & Hb) (Hc' & Hs' & Hne' & Hb').
  destruct (Nat.lt_trichotomy i i') as [L|[E|L]].
  - exfalso. apply Hne. rewrite <- Hs. exact (Hb' i c L Hc).
  - subst i'. unfold node_at in Hc, Hc'. rewrite Hc in Hc'. injection Hc' as <-.
    split; [reflexivity|]. split; [reflexivity|]. rewrite <- Hs, <- Hs'. reflexivity.
  - exfalso. apply Hne'. rewrite <- Hs'. exact (Hb i' c' L Hc').
Qed.

(* a checkable form of `first_bad_sp` for concrete graphs *)
Definition sp_state_eqb (x y : sp_state) : bool :=
  match x, y with
  | SpFine, SpFine | SpUnknown, SpUnknown | SpInvalid, SpInvalid | SpPositive, SpPositive => true
  | _, _ => false
  end.
Lemma sp_state_eqb_eq x y : sp_state_eqb x y = true -> x = y.
Proof. destruct x, y; cbn; intros H; try discriminate H; reflexivity. Qed.
Definition first_bad_spb (g : cfg) (i : nat) (s : sp_state) : bool :=
  (forallb (fun c => sp_state_eqb (sp_state_of c) SpFine) (firstn i (gnodes g)) &&
   match nth_opt (gnodes g) i with Some c => sp_state_eqb (sp_state_of c) s | None => false end &&
   negb (sp_state_eqb s SpFine))%bool.
Lemma nth_opt_firstn {A} (l : list A) : forall i j x, (j < i)%nat -> nth_opt l j = Some x -> In x (firstn i l).
Proof.
  induction l as [|a l IH]; intros i j x L H; [destruct j; discriminate H|].
  destruct i as [|i]; [lia|]. destruct j as [|j]; cbn in H |- *.
  - injection H as ->. left. reflexivity.
  - right. apply (IH i j x); [lia|exact H].
Qed.
Lemma first_bad_spb_ok g i c s :
  nth_opt (gnodes g) i = Some c -> first_bad_spb g i s = true -> first_bad_sp g i c s.
Proof.
  intros Hc H. unfold first_bad_spb in H. rewrite Hc in H.
  apply andb_true_iff in H. destruct H as [H H3]. apply andb_true_iff in H. destruct H as [H1 H2].
  split; [exact Hc|]. split; [exact (sp_state_eqb_eq _ _ H2)|]. split.
  - intros ->. discriminate H3.
  - intros j cj L Hj. rewrite forallb_forall in H1. apply sp_state_eqb_eq. apply H1.
    exact (nth_opt_firstn (gnodes g) i j cj L Hj).
Qed.

(* the same for the graphs the pipeline returns (through h6, the graph after the last value
   analysis, as in PipeEqProofs.pipeline_claims) *)
From RV.Model Require Import Imm.
From RV.Spec Require Import PipeEqSpec.
From RV.Proofs Require CfgProofs PipeEqProofs.
Lemma pipeline_out_offset_in32 picks ns g h6 a s0 :
  gen_full_cfg picks ns = Ok (SOk g) -> gen_cfg_upto 9 picks ns = Ok (SOk h6) ->
  SoundProofs.all_supported g -> SoundProofs.no_reentry h6 -> SoundProofs.all_wf g -> regs_in32 s0 ->
  forall i s c j s' r r' off, SoundProofs.srun a g s0 i s -> nth_opt (gnodes g) i = Some c ->
    SoundProofs.supported_at s0 s c -> step a g i s j s' ->
    rm_get r (rout c) = Some (AOrig r' off) -> in32 off.
Proof.
  intros H H9 SUP NR WF HI i s c j s' r r' off Hrun Hc SA St G.
  destruct (PipeEqProofs.pipeline_eqns _ _ _ H) as [h6' [H9' [EQ6 [[L _] _]]]].
  rewrite H9 in H9'. inversion H9'; subst h6'. clear H9'.
  assert (SUP6 : SoundProofs.all_supported h6).
  { intros k c6 Hc6. destruct (nth_opt (gnodes g) k) as [ck|] eqn:Hck.
    - destruct (PipeEqProofs.final_in_h6 picks ns g h6 H H9 k ck Hck) as [c6' [Hc6' [E _]]].
      rewrite Hc6 in Hc6'. injection Hc6' as <-. rewrite E. exact (SUP k ck Hck).
    - exfalso.
      apply LintProofs.nth_opt_Some_lt in Hc6. rewrite L in Hc6.
      destruct (CfgProofs.nth_opt_some _ _ Hc6) as [ck Hck']. congruence. }
  assert (WF6 : SoundProofs.all_wf h6).
  { intros k c6 Hc6. destruct (nth_opt (gnodes g) k) as [ck|] eqn:Hck.
    - destruct (PipeEqProofs.final_in_h6 picks ns g h6 H H9 k ck Hck) as [c6' [Hc6' [E _]]].
      rewrite Hc6 in Hc6'. injection Hc6' as <-. rewrite E. exact (WF k ck Hck).
    - exfalso.
      apply LintProofs.nth_opt_Some_lt in Hc6. rewrite L in Hc6.
      destruct (CfgProofs.nth_opt_some _ _ Hc6) as [ck Hck']. congruence. }
  pose proof (CfgProofs.cfg_sym 9%N picks ns h6 H9) as SY6.
  destruct (PipeEqProofs.final_in_h6 picks ns g h6 H H9 i c Hc) as [c6 [Hc6 [E1 [E2 [E3 [_ [_ I]]]]]]].
  rewrite <- E3 in G.
  apply (reached_out_offset_in32 a h6 s0 EQ6 SY6 SUP6 NR WF6 HI i s c6 j s' r r' off
           (PipeEqProofs.srun_in_h6 picks ns g h6 H H9 a s0 i s Hrun) Hc6).
  - eapply PipeEqProofs.supported_at_vf; [symmetry; exact E1|symmetry; exact E2|exact SA].
  - destruct St as [c' [Hc' [Hn Ef]]]. rewrite Hc in Hc'. inversion Hc'; subst c'.
    exists c6. split; [exact Hc6|]. split; [apply I; exact Hn|rewrite E1; exact Ef].
  - exact G.
Qed.
