(* Proofs for C06: lexing and parsing return on every input (any characters, any include graph
   over the in-memory reader, any reader faults); the analysis pipeline never panics and can only
   fail to return inside one of its dataflow loops; a sweep that changes nothing ends the loop. *)
From RV.Model Require Import Base I32 Imm Lexer Isa Parser Reader Cfg Avail Live Lints.
From RV.Spec Require Import PosSpec LineSpec.
From RV.Proofs Require Import LexProofs LineProofs.
From Coq Require Import Lia ZifyN ZifyNat ZifyBool.
Open Scope nat_scope.

(* ================================================================================== *)
(* Part 1: the lexer returns on every source.                                           *)

Theorem lex_total : forall chk file src, exists items, lex_all chk file src = Ok items.
Proof.
  intros chk file src. destruct (lex_all_spec chk src file) as [items [H _]]. exists items. exact H.
Qed.

(* ================================================================================== *)
(* Part 2: one statement, from any item list that ends with a newline item.             *)

(* [t'] is what is left of [top] after at least one item was taken *)
Definition psuffix (t' top : list lexitem) : Prop := exists d, top = d ++ t' /\ d <> [].

Lemma psuffix_len t' top : psuffix t' top -> length t' < length top.
Proof.
  intros [d [-> Hd]]. rewrite app_length. destruct d; [contradiction|cbn [length]; lia].
Qed.

Lemma psuffix_last_nl t' top : psuffix t' top -> last_nl top -> last_nl t'.
Proof. intros [d [-> _]] H. apply (last_nl_suffix d t' H). Qed.

Lemma psuffix_recover rest top : psuffix rest top -> psuffix (recover rest) top.
Proof.
  intros [d [-> Hd]]. destruct (recover_suffix rest) as [d2 Hd2]. exists (d ++ d2). split.
  - rewrite <- app_assoc, <- Hd2. reflexivity.
  - destruct d; [contradiction|discriminate].
Qed.

(* the item list the driver continues with after the error [e]; None = the file is popped *)
Definition next_top (e : lexerr) (rest : list lexitem) : option (list lexitem) :=
  match e with
  | EExpected _ got => Some (if is_newline_tok got then rest else recover rest)
  | EIsNewline _ | ENeedTwoNodes _ _ | EIgnoredWithoutWarning => Some rest
  | EUnexpectedEOF => None
  | _ => Some (recover rest)
  end.

Definition step_shape (top : list lexitem) (x : lexerr + pnode) (rest : list lexitem) : Prop :=
  match x with
  | inr _ => psuffix rest top
  | inl e => match next_top e rest with Some t' => psuffix t' top | None => True end
  end.

Lemma tokerr_psuffix top got st : TokErr top got st -> psuffix (recover (fst st)) top.
Proof.
  intros [pre [it [post [H1 [_ [H3 [_ H5]]]]]]].
  assert (Hrec : recover (fst st) = recover post).
  { destruct H5 as [->| ->]; [reflexivity|apply recover_skip; exact H3]. }
  rewrite Hrec. apply (err_split top pre it post _ H1). right. reflexivity.
Qed.

Lemma W_psuffix top u st : W top u st -> psuffix (fst st) top.
Proof. intros [H1 [_ [_ H4]]]. exists u. split; assumption. Qed.

Lemma parse_one_plain top : last_nl top ->
  (forall t0 l, top = LTok t0 :: l -> is_macro_tok t0 = false) ->
  exists x rest, parse_one top = Ok (x, rest) /\ step_shape top x rest.
Proof.
  intros Hlast Hmac.
  destruct (parse_stmt_fin top Hlast Hmac) as [x [[rest o] [Hp Hpost]]].
  exists x, rest. split; [unfold parse_one; rewrite Hp; reflexivity|].
  unfold step_shape. destruct x as [e|n].
  - destruct e as [ex got|t|t| |t| |n1 n2|t|t|t|t p k]; cbn [EPost] in Hpost; cbn [next_top].
    + destruct Hpost as [pre [post [H1 [_ H3]]]]. cbn [fst] in H3. subst rest.
      apply (err_split top pre (LTok got) post _ H1). destruct (is_newline_tok got); auto.
    + destruct Hpost as [H1 _]. cbn [fst] in H1. exists [LTok t]. split; [exact H1|discriminate].
    + apply (tokerr_psuffix top t (rest, o) Hpost).
    + destruct Hpost as [t [c [H1 _]]]. cbn [fst] in H1. exists [LTok t]. split; [exact H1|discriminate].
    + apply (tokerr_psuffix top t (rest, o) Hpost).
    + exact I.
    + destruct Hpost as [u [HW _]]. apply (W_psuffix top u (rest, o) HW).
    + apply (tokerr_psuffix top t (rest, o) Hpost).
    + apply (tokerr_psuffix top t (rest, o) Hpost).
    + apply (tokerr_psuffix top t (rest, o) Hpost).
    + apply (tokerr_psuffix top t (rest, o) Hpost).
  - destruct Hpost as [u [HW _]]. apply (W_psuffix top u (rest, o) HW).
Qed.

(* `.macro`: everything up to `.endmacro` (or the first lexical error, or the end) is skipped *)
Lemma parse_one_macro top t0 l : top = LTok t0 :: l -> is_macro_tok t0 = true ->
  exists x rest, parse_one top = Ok (x, rest) /\ step_shape top x rest.
Proof.
  intros Ht Hm. unfold is_macro_tok in Hm.
  destruct (tt t0) as [| | |s|s|d|s|c|s] eqn:Ett; try discriminate.
  destruct (dir_from_str d) as [[]|] eqn:Ed; try discriminate.
  set (st0 := (l, Some (raw_of_token t0)) : pstate).
  destruct (skip_macro_total (S (length l)) st0 ltac:(cbn; lia)) as [x [[rest o] [H1 [[dd H2] H3]]]].
  cbn [st0 fst] in H2.
  assert (Hsuf : psuffix rest top).
  { exists (LTok t0 :: dd). split; [rewrite Ht, H2; reflexivity|discriminate]. }
  assert (Hstmt : parse_stmt (top, None) =
            match x with inr _ => Ok (inl (EIgnoredWithWarning t0), (rest, o)) | inl e => Ok (inl e, (rest, o)) end).
  { unfold parse_stmt, pbind at 1, get_any. rewrite Ht. cbn [fst snd item_result]. rewrite Ett, Ed.
    unfold parse_directive. rewrite remaining_bind. cbn [fst]. fold st0. unfold pbind at 1. rewrite H1.
    destruct x; reflexivity. }
  assert (Hone : parse_one top =
            match x with inr _ => Ok (inl (EIgnoredWithWarning t0), rest) | inl e => Ok (inl e, rest) end).
  { unfold parse_one. rewrite Hstmt. destruct x; reflexivity. }
  destruct x as [e|u].
  - exists (inl e), rest. split; [exact Hone|]. unfold step_shape.
    destruct H3 as [->|[[t [p [k ->]]]|[t ->]]]; cbn [next_top].
    + exact I.
    + apply psuffix_recover. exact Hsuf.
    + apply psuffix_recover. exact Hsuf.
  - exists (inl (EIgnoredWithWarning t0)), rest. split; [exact Hone|].
    unfold step_shape. cbn [next_top]. apply psuffix_recover. exact Hsuf.
Qed.

Lemma parse_one_shape top : last_nl top ->
  exists x rest, parse_one top = Ok (x, rest) /\ step_shape top x rest.
Proof.
  intros Hlast.
  assert (Hcase : (exists t0 l, top = LTok t0 :: l /\ is_macro_tok t0 = true) \/
                  (forall t0 l, top = LTok t0 :: l -> is_macro_tok t0 = false)).
  { destruct top as [|[t0| |] l].
    - right. intros t1 l' H. discriminate.
    - destruct (is_macro_tok t0) eqn:Em; [left; eauto|right].
      intros t1 l' H. inversion H; subst. exact Em.
    - right. intros t1 l' H. discriminate.
    - right. intros t1 l' H. discriminate. }
  destruct Hcase as [[t0 [l [Ht Hm]]]|Hmac].
  - apply (parse_one_macro top t0 l Ht Hm).
  - apply (parse_one_plain top Hlast Hmac).
Qed.

(* ================================================================================== *)
(* Part 3: the reader.                                                                  *)

Lemma str_eqb_eq : forall a b, str_eqb a b = true -> a = b.
Proof.
  induction a as [|x a IH]; intros [|y b] H; cbn [str_eqb] in H; try discriminate; [reflexivity|].
  apply andb_true_iff in H. destruct H as [H1 H2]. apply N.eqb_eq in H1. apply IH in H2. congruence.
Qed.

Lemma mem_str_snoc k x : forall l, mem_str k (l ++ [x]) = (mem_str k l || str_eqb k x)%bool.
Proof.
  induction l as [|y l IH]; cbn [app mem_str].
  - rewrite orb_false_r. reflexivity.
  - rewrite IH, orb_assoc. reflexivity.
Qed.

(* text still to be read: what the entries whose path was not imported yet account for *)
Fixpoint pending (fs : store) (imp : list str) : nat :=
  match fs with
  | [] => 0
  | (p, inl t) :: l => (if mem_str p imp then 0 else length t + 4) + pending l imp
  | (_, inr _) :: l => pending l imp
  end.

Lemma pending_mono x imp : forall fs, pending fs (imp ++ [x]) <= pending fs imp.
Proof.
  induction fs as [|[p [t|u]] fs IH]; cbn [pending]; [lia| |exact IH].
  rewrite mem_str_snoc. destruct (mem_str p imp); cbn [orb]; [lia|].
  destruct (str_eqb p x); lia.
Qed.

Lemma pending_import path imp text : forall fs,
  assoc_str path fs = Some (inl text) -> mem_str path imp = false ->
  pending fs (imp ++ [path]) + (length text + 4) <= pending fs imp.
Proof.
  induction fs as [|[p v] fs IH]; intros Ha Hm; cbn [assoc_str] in Ha; [discriminate|].
  destruct (str_eqb path p) eqn:Ep.
  - apply str_eqb_eq in Ep. subst p. inversion Ha; subst v. cbn [pending].
    rewrite mem_str_snoc, Hm, str_eqb_refl. cbn [orb].
    pose proof (pending_mono path imp fs). lia.
  - specialize (IH Ha Hm). destruct v as [t|u]; cbn [pending]; [|exact IH].
    rewrite mem_str_snoc. destruct (mem_str p imp); cbn [orb]; [lia|].
    destruct (str_eqb p path); lia.
Qed.

Lemma pending_le_store imp : forall fs, pending fs imp <= store_size fs.
Proof.
  induction fs as [|[p [t|u]] fs IH]; cbn [pending store_size]; [lia| |lia].
  destruct (mem_str p imp); lia.
Qed.

Lemma import_file_cases fs path st :
  (exists e, import_file fs path st = (inl e, st)) \/
  (exists text, import_file fs path st =
                  (inr (N.of_nat (length (imported st)), text), mkrs (imported st ++ [path])) /\
                assoc_str path fs = Some (inl text) /\ mem_str path (imported st) = false).
Proof.
  unfold import_file. destruct (assoc_str path fs) as [[text|u]|] eqn:Ea.
  - destruct (mem_str path (imported st)) eqn:Em.
    + left. eexists. reflexivity.
    + right. exists text. repeat split.
  - left. eexists. reflexivity.
  - left. eexists. reflexivity.
Qed.

(* ================================================================================== *)
(* Part 4: the driver.  What is left to do: the text not read yet, the items not parsed  *)
(* yet, and the open files.                                                              *)

Fixpoint stack_size (st : list (list lexitem)) : nat :=
  match st with [] => 0 | t :: l => S (length t) + stack_size l end.

Lemma lexed_text chk id text :
  exists items, lex_all chk (Some id) (normalize_text text) = Ok items /\
    last_nl items /\ length items <= length text + 1.
Proof.
  destruct (lex_all_spec chk (normalize_text text) (Some id)) as [items [Hl _]].
  destruct (lex_items_facts chk (Some id) _ items (normalize_Lb text) Hl) as [_ [Hlast Hlen]].
  pose proof (normalize_length text). exists items. split; [exact Hl|]. split; [exact Hlast|lia].
Qed.

Lemma drive_total chk fs ign : forall f stack rst nodes errs,
  Forall last_nl stack -> pending fs (imported rst) + stack_size stack < f ->
  exists r, drive f chk fs ign stack rst nodes errs = Ok r.
Proof.
  induction f as [|f IH]; intros stack rst nodes errs Hall Hf; [lia|].
  destruct stack as [|top below]; [cbn [drive]; eauto|].
  inversion Hall as [|? ? Hlast Hbelow]; subst.
  destruct (parse_one_shape top Hlast) as [x [rest [Hone Hsh]]].
  cbn [drive]. rewrite Hone. cbn [bind]. cbn [stack_size] in Hf.
  assert (Hkeep : forall t' rst' nodes' errs', psuffix t' top -> imported rst' = imported rst ->
            exists r, drive f chk fs ign (t' :: below) rst' nodes' errs' = Ok r).
  { intros t' rst' nodes' errs' Hp Hi. apply IH.
    - constructor; [apply (psuffix_last_nl t' top Hp Hlast)|exact Hbelow].
    - rewrite Hi. cbn [stack_size]. pose proof (psuffix_len t' top Hp). lia. }
  assert (Hpop : forall nodes' errs', exists r, drive f chk fs ign below rst nodes' errs' = Ok r).
  { intros nodes' errs'. apply IH; [exact Hbelow|lia]. }
  unfold step_shape in Hsh. destruct x as [e|n].
  - destruct e as [ex got|t|t| |t| |n1 n2|t|t|t|t p k]; cbn [next_top] in Hsh; cbv beta zeta;
      first [apply Hpop | apply Hkeep; [exact Hsh|reflexivity]].
  - assert (Hnone : exists r, drive f chk fs ign (rest :: below) rst (n :: nodes) errs = Ok r)
      by (apply Hkeep; [exact Hsh|reflexivity]).
    destruct ign; [exact Hnone|].
    destruct (include_path n) as [pth|]; [|exact Hnone].
    destruct (import_file_cases fs (wv pth) rst) as [[e He]|[text [He [Ha Hm]]]]; rewrite He.
    + apply Hkeep; [exact Hsh|reflexivity].
    + destruct (lexed_text chk (N.of_nat (length (imported rst))) text) as [items [Hl [Hil Hlen]]].
      rewrite Hl. cbn [bind]. apply IH.
      * constructor; [exact Hil|]. constructor; [apply (psuffix_last_nl rest top Hsh Hlast)|exact Hbelow].
      * cbn [imported stack_size]. pose proof (pending_import (wv pth) (imported rst) text fs Ha Hm).
        pose proof (psuffix_len rest top Hsh). lia.
Qed.

Theorem parse_total_any_store :
  forall chk (fs : store) base ignore_imports,
    exists nodes errs rs, parse_from_file chk fs base ignore_imports = Ok (nodes, errs, rs).
Proof.
  intros chk fs base ign. unfold parse_from_file.
  destruct (import_file_cases fs base (mkrs [])) as [[e He]|[text [He [Ha Hm]]]]; rewrite He.
  - do 3 eexists. reflexivity.
  - cbn [imported length app] in *.
    destruct (lexed_text chk (N.of_nat 0) text) as [items [Hl [Hil Hlen]]].
    rewrite Hl. cbn [bind].
    destruct (drive_total chk fs ign (2 * store_size fs + 8) [items] (mkrs [base])
                [PProgramEntry (Some (N.of_nat 0)) (mkraw range0 (Some (N.of_nat 0)))] [])
      as [[[nodes errs] rst] H].
    + constructor; [exact Hil|constructor].
    + cbn [imported stack_size].
      pose proof (pending_import base [] text fs Ha Hm) as H1. cbn [app] in H1.
      pose proof (pending_le_store [] fs). lia.
    + exists nodes, errs, rst. exact H.
Qed.

(* ================================================================================== *)
(* Part 5: the analysis pipeline.                                                       *)

Lemma avail_loop_cases : forall f g v,
  (exists g', avail_loop f g v = Ok g') \/ avail_loop f g v = OutOfFuel.
Proof.
  induction f as [|f IH]; intros g v; cbn [avail_loop]; [right; reflexivity|].
  destruct (avail_sweep (seq 0 (length g)) g v false) as [[g' v'] ch].
  destruct ch; [apply IH|left; eauto].
Qed.

Lemma live_loop_cases : forall f g ns v,
  (exists ns', live_loop f g ns v = Ok ns') \/ live_loop f g ns v = OutOfFuel.
Proof.
  induction f as [|f IH]; intros g ns v; cbn [live_loop]; [right; reflexivity|].
  destruct (live_sweep g (rev (seq 0 (length ns))) ns v false) as [[ns' v'] ch].
  destruct ch; [apply IH|left; eauto].
Qed.

Lemma avail_pass_cases g : (exists g', avail_pass g = Ok g') \/ avail_pass g = OutOfFuel.
Proof.
  unfold avail_pass. destruct (avail_loop_cases (avail_fuel g) (gnodes g) []) as [[g' H]|H]; rewrite H; cbn [bind].
  - left. eauto.
  - right. reflexivity.
Qed.

Lemma liveness_pass_cases g : (exists g', liveness_pass g = Ok g') \/ liveness_pass g = OutOfFuel.
Proof.
  unfold liveness_pass. destruct (live_loop_cases (live_fuel g) g (gnodes g) []) as [[g' H]|H]; rewrite H; cbn [bind].
  - left. eauto.
  - right. reflexivity.
Qed.

Definition dataflow_diverges : Prop := exists g, avail_pass g = OutOfFuel \/ liveness_pass g = OutOfFuel.

Lemma gen_full_cfg_cases picks ns :
  (exists r, gen_full_cfg picks ns = Ok r) \/ (gen_full_cfg picks ns = OutOfFuel /\ dataflow_diverges).
Proof.
  unfold gen_full_cfg.
  destruct (cfg_new ns None) as [e|g0]; [left; eauto|].
  destruct (directions g0) as [e|g1]; [left; eauto|].
  destruct (avail_pass_cases g1) as [[g2 H2]|H2]; rewrite H2; cbn [bind].
  2:{ right. split; [reflexivity|]. exists g1. left. exact H2. }
  destruct (cfg_new ns (Some (interrupt_handler_names g2))) as [e|h0]; [left; eauto|].
  destruct (directions h0) as [e|h1]; [left; eauto|].
  destruct (avail_pass_cases (dead_code h1)) as [[h3 H3]|H3]; rewrite H3; cbn [bind].
  2:{ right. split; [reflexivity|]. exists (dead_code h1). left. exact H3. }
  destruct (function_markup picks (ecall_terminate h3)) as [e|h5]; [left; eauto|].
  destruct (avail_pass_cases h5) as [[h6 H6]|H6]; rewrite H6; cbn [bind].
  2:{ right. split; [reflexivity|]. exists h5. left. exact H6. }
  destruct (liveness_pass_cases (ecall_terminate h6)) as [[h8 H8]|H8]; rewrite H8; cbn [bind].
  2:{ right. split; [reflexivity|]. exists (ecall_terminate h6). right. exact H8. }
  left. eauto.
Qed.

Theorem pipeline_no_panic :
  forall picks nodes errs site,
    gen_full_cfg picks nodes <> Panic site /\ run_items picks nodes errs <> Panic site.
Proof.
  intros picks nodes errs site. unfold run_items.
  destruct (gen_full_cfg_cases picks nodes) as [[r H]|[H _]]; rewrite H; cbn [bind].
  - split; [discriminate|]. destruct r; discriminate.
  - split; discriminate.
Qed.

Theorem only_dataflow_can_diverge :
  forall picks nodes, gen_full_cfg picks nodes = OutOfFuel ->
    exists g, avail_pass g = OutOfFuel \/ liveness_pass g = OutOfFuel.
Proof.
  intros picks nodes H. destruct (gen_full_cfg_cases picks nodes) as [[r H']|[_ H']].
  - rewrite H in H'. discriminate.
  - exact H'.
Qed.

(* whatever has been visited so far: a sweep that changes no fact and meets no new node ends the loop
   (since the fix of avail_sweep a sweep from visited = [] sets the flag on every non-empty graph, so the
   statement for [] alone would only speak of the empty graph) *)
Theorem stable_sweep_terminates :
  forall fuel g vis, (0 < fuel)%nat ->
    (let '(_, _, ch) := avail_sweep (seq 0 (length g)) g vis false in ch = false) ->
    exists g', avail_loop fuel g vis = Ok g'.
Proof.
  intros fuel g vis Hf H. destruct fuel as [|f]; [lia|]. cbn [avail_loop].
  destruct (avail_sweep (seq 0 (length g)) g vis false) as [[g' v'] ch].
  subst ch. exists g'. reflexivity.
Qed.
