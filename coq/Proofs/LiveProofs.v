(* Proofs for C02 (liveness): the pass computes the least assignment closed under the liveness
   equations of Spec/LiveSpec.v; closed assignments cover every use along kill-free paths; the
   dead-assignment lint fires only on a destination that is not live-out; a callee's exit
   covers the live-out of its call sites. *)
From RV.Model Require Import Base Lexer Isa Parser Cfg Avail Live Lints.
From RV.Spec Require Import LiveSpec.
Require Import Lia ZifyN ZifyNat ZifyBool.
Open Scope N_scope.

Definition all_bottom (g : cfg) : Prop :=
  forall i c, nth_opt (gnodes g) i = Some c -> lin c = 0 /\ lout c = 0.

(* ---- lists ------------------------------------------------------------------------------- *)
Lemma upd_length {A} (l : list A) i f : length (upd l i f) = length l.
Proof. revert i; induction l; intros [|i]; simpl; auto. Qed.

Lemma nth_opt_upd {A} (l : list A) i f j :
  nth_opt (upd l i f) j = if Nat.eqb i j then option_map f (nth_opt l j) else nth_opt l j.
Proof.
  revert i j; induction l; intros [|i] [|j]; simpl; auto.
  - destruct (Nat.eqb i j); reflexivity.
Qed.

Lemma nth_opt_some_lt {A} (l : list A) i x : nth_opt l i = Some x -> (i < length l)%nat.
Proof. revert i; induction l; intros [|i]; simpl; intros H; try discriminate; try lia. apply IHl in H. lia. Qed.

Lemma nth_opt_lt_some {A} (l : list A) i : (i < length l)%nat -> exists x, nth_opt l i = Some x.
Proof. revert i; induction l; intros [|i]; simpl; intros H; try lia; eauto. apply IHl. lia. Qed.

Lemma nth_opt_none_ge {A} (l : list A) i : nth_opt l i = None -> (length l <= i)%nat.
Proof.
  intros H. destruct (Nat.lt_ge_cases i (length l)) as [Hlt|]; auto.
  apply nth_opt_lt_some in Hlt. destruct Hlt as [x Hx]. congruence.
Qed.

Lemma upd_id {A} (l : list A) i f : (forall x, nth_opt l i = Some x -> f x = x) -> upd l i f = l.
Proof.
  revert i; induction l; intros [|i] H; simpl; auto.
  - rewrite H; auto.
  - rewrite IHl; auto.
Qed.

(* ---- bit masks --------------------------------------------------------------------------- *)
Ltac bits_norm :=
  unfold rs_union, rs_inter, rs_diff, rs_empty in *;
  repeat rewrite ?N.lor_spec, ?N.land_spec, ?N.ldiff_spec, ?N.bits_0 in *.

(* decide an inclusion between boolean combinations of masks from inclusions in the context *)
Ltac bits :=
  intros; unfold subset in *;
  let r := fresh "r" in
  intros r;
  repeat match goal with
         | H : forall r0 : N, N.testbit _ r0 = true -> N.testbit _ r0 = true |- _ =>
             generalize (H r); clear H
         end;
  bits_norm;
  repeat match goal with
         | |- context [N.testbit ?a r] => destruct (N.testbit a r)
         end;
  simpl; intuition congruence.

Lemma subset_refl a : subset a a.
Proof. bits. Qed.
Lemma subset_trans a b c : subset a b -> subset b c -> subset a c.
Proof. bits. Qed.
Lemma subset_0 a : subset 0 a.
Proof. intros r H. rewrite N.bits_0 in H. discriminate. Qed.

Lemma neqb_false a b : negb (N.eqb a b) = false -> a = b.
Proof. intros H. apply N.eqb_eq. destruct (N.eqb a b); auto; discriminate. Qed.

Lemma lor_absorb_subset a b : N.lor a b = b -> subset a b.
Proof. intros H r Hr. rewrite <- H, N.lor_spec, Hr. reflexivity. Qed.

(* ---- the assignment stored in a node list ------------------------------------------------ *)
Definition asg_of (ns : list cnode) : assignment :=
  mkasg (fun i => match nth_opt ns i with Some c => lin c | None => 0 end)
        (fun i => match nth_opt ns i with Some c => lout c | None => 0 end).

Lemma Lin_asg ns i c : nth_opt ns i = Some c -> Lin (asg_of ns) i = lin c.
Proof. intros H; simpl; rewrite H; reflexivity. Qed.
Lemma Lout_asg ns i c : nth_opt ns i = Some c -> Lout (asg_of ns) i = lout c.
Proof. intros H; simpl; rewrite H; reflexivity. Qed.

Lemma le_asg_refl A : le_asg A A.
Proof. intros i; split; apply subset_refl. Qed.

Lemma le_upd ns L k f :
  le_asg (asg_of ns) L ->
  (forall x, nth_opt ns k = Some x -> subset (lin (f x)) (Lin L k) /\ subset (lout (f x)) (Lout L k)) ->
  le_asg (asg_of (upd ns k f)) L.
Proof.
  intros H Hf j. unfold asg_of; cbn [Lin Lout]. rewrite nth_opt_upd.
  destruct (Nat.eqb_spec k j) as [->|Hne].
  - destruct (nth_opt ns j) eqn:E; cbn [option_map].
    + apply Hf; auto.
    + split; apply subset_0.
  - apply (H j).
Qed.

(* ---- structure --------------------------------------------------------------------------- *)
Definition struct_eq (c d : cnode) : Prop :=
  cn c = cn d /\ nexts c = nexts d /\ prevs c = prevs d /\ cfuncs c = cfuncs d /\ rin c = rin d.

Definition same_str (ns ms : list cnode) : Prop :=
  length ns = length ms /\
  forall i c d, nth_opt ns i = Some c -> nth_opt ms i = Some d -> struct_eq c d.

Lemma struct_eq_refl c : struct_eq c c.
Proof. repeat split. Qed.
Lemma struct_eq_sym c d : struct_eq c d -> struct_eq d c.
Proof. unfold struct_eq; intuition congruence. Qed.
Lemma struct_eq_trans c d e : struct_eq c d -> struct_eq d e -> struct_eq c e.
Proof. unfold struct_eq; intuition congruence. Qed.

Lemma same_str_refl ns : same_str ns ns.
Proof. split; auto. intros i c d H1 H2. rewrite H1 in H2; inversion H2; apply struct_eq_refl. Qed.
Lemma same_str_sym ns ms : same_str ns ms -> same_str ms ns.
Proof. intros [Hl H]; split; auto. intros i c d H1 H2. apply struct_eq_sym. eapply H; eauto. Qed.
Lemma same_str_trans ns ms ks : same_str ns ms -> same_str ms ks -> same_str ns ks.
Proof.
  intros [Hl1 H1] [Hl2 H2]; split; [congruence|].
  intros i c e Hc He.
  assert (Hi : (i < length ms)%nat) by (rewrite <- Hl1; eapply nth_opt_some_lt; eauto).
  apply nth_opt_lt_some in Hi. destruct Hi as [d Hd].
  eapply struct_eq_trans; eauto.
Qed.

Lemma same_str_upd ns k f : (forall x, struct_eq x (f x)) -> same_str ns (upd ns k f).
Proof.
  intros Hf; split; [symmetry; apply upd_length|].
  intros i c d Hc Hd. rewrite nth_opt_upd, Hc in Hd.
  destruct (Nat.eqb k i); cbn [option_map] in Hd; inversion Hd; subst; auto using struct_eq_refl.
Qed.

Lemma struct_set_live x a b c : struct_eq x (set_live x a b c).
Proof. repeat split. Qed.
Lemma struct_set_lin x a : struct_eq x (set_lin x a).
Proof. repeat split. Qed.

Lemma set_live_id x : set_live x (lin x) (lout x) (udef x) = x.
Proof. destruct x; reflexivity. Qed.

(* the equations at a node depend on its structure only *)
Lemma calls_struct g c d : cn c = cn d -> calls_to_from_cfg g c = calls_to_from_cfg g d.
Proof. unfold calls_to_from_cfg; intros ->; reflexivity. Qed.
Lemma sig_struct c d : cn c = cn d -> rin c = rin d -> known_ecall_signature c = known_ecall_signature d.
Proof. unfold known_ecall_signature, known_ecall; intros -> ->; reflexivity. Qed.

Definition ClosedAt (g : cfg) (L : assignment) (i : nat) (c : cnode) : Prop :=
  subset (rhs_out g L c) (Lout L i) /\
  subset (rhs_in g L i c) (Lin L i) /\
  (forall fid f, calls_to_from_cfg g c = Some fid -> nth_opt (gfuncs g) fid = Some f ->
                 subset (Lout L i) (Lin L (fexit f))).
Definition ClosedN (g : cfg) (ns : list cnode) (L : assignment) : Prop :=
  forall i c, nth_opt ns i = Some c -> ClosedAt g L i c.

Lemma ClosedAt_struct g L i c d : struct_eq c d -> ClosedAt g L i c -> ClosedAt g L i d.
Proof.
  intros (Hcn & Hnx & _ & _ & Hrin) (H1 & H2 & H3).
  unfold ClosedAt, rhs_out, rhs_in, node_uses, node_kills in *.
  rewrite <- (calls_struct g c d Hcn), <- (sig_struct c d Hcn Hrin), <- Hcn, <- Hnx.
  auto.
Qed.

Lemma ClosedN_struct g ns ms L : same_str ns ms -> ClosedN g ns L -> ClosedN g ms L.
Proof.
  intros [Hl Hs] H i d Hd.
  assert (Hi : (i < length ns)%nat) by (rewrite Hl; eapply nth_opt_some_lt; eauto).
  apply nth_opt_lt_some in Hi. destruct Hi as [c Hc].
  eapply ClosedAt_struct; eauto.
Qed.

(* ---- live_out: the union over the successors --------------------------------------------- *)
Lemma union_live_in_eq ns l :
  union_live_in ns l = fold_left (fun acc s => rs_union acc (Lin (asg_of ns) s)) l rs_empty.
Proof.
  unfold union_live_in. generalize rs_empty.
  induction l as [|s l IH]; intros acc; cbn [fold_left]; auto.
  rewrite IH. f_equal. unfold getn; cbn [asg_of Lin].
  destruct (nth_opt ns s); auto. unfold rs_union. rewrite N.lor_0_r. reflexivity.
Qed.

Lemma fold_union_mono (F G : nat -> regset) l :
  (forall s, subset (F s) (G s)) ->
  forall a b, subset a b ->
    subset (fold_left (fun acc s => rs_union acc (F s)) l a) (fold_left (fun acc s => rs_union acc (G s)) l b).
Proof.
  intros HFG. induction l as [|s l IH]; intros a b Hab; cbn [fold_left]; auto.
  apply IH. specialize (HFG s). bits.
Qed.

Lemma fold_union_acc (F : nat -> regset) l :
  forall a, subset a (fold_left (fun acc s => rs_union acc (F s)) l a).
Proof.
  induction l as [|s l IH]; intros a; cbn [fold_left]; [apply subset_refl|].
  eapply subset_trans; [|apply IH]. bits.
Qed.

Lemma fold_union_in (F : nat -> regset) l s :
  In s l -> forall a, subset (F s) (fold_left (fun acc s => rs_union acc (F s)) l a).
Proof.
  induction l as [|x l IH]; intros Hin a; [destruct Hin|].
  cbn [fold_left]. destruct Hin as [->|Hin].
  - eapply subset_trans; [|apply fold_union_acc]. bits.
  - apply IH; auto.
Qed.

Lemma rhs_out_mono g A L c : le_asg A L -> subset (rhs_out g A c) (rhs_out g L c).
Proof.
  intros H. unfold rhs_out. apply fold_union_mono; [|apply subset_refl].
  intros s. apply (H s).
Qed.

(* ---- one node update, by class ----------------------------------------------------------- *)
Definition nc_li (c : cnode) (lo : regset) : regset :=
  if is_ecall (cn c) then
    rs_union (rs_union (rs_diff lo caller_saved_set) ecall_always_argument_set)
             (match known_ecall_signature c with Some (a, _) => a | None => rs_empty end)
  else if is_return (cn c) then rs_union (lin c) (gen_reg (cn c))
  else rs_union (rs_diff lo (kill_reg (cn c))) (gen_reg (cn c)).

Lemma live_node_none g ns v i : nth_opt ns i = None -> live_node g ns v i = (ns, false).
Proof. intros H. unfold live_node, getn. rewrite H. reflexivity. Qed.

Lemma live_node_dangling g ns v i c fid :
  nth_opt ns i = Some c -> calls_to_from_cfg g c = Some fid -> nth_opt (gfuncs g) fid = None ->
  live_node g ns v i = (ns, false).
Proof. intros H H0 H1. unfold live_node, getn. rewrite H. cbv beta iota zeta. rewrite H0, H1. reflexivity. Qed.

Lemma live_node_plain g ns v i c :
  nth_opt ns i = Some c -> calls_to_from_cfg g c = None ->
  let lo := union_live_in ns (nexts c) in
  exists ud, live_node g ns v i =
    (upd ns i (fun x => set_live x (nc_li c lo) lo ud),
     (negb (N.eqb lo (lout c)) || negb (N.eqb (nc_li c lo) (lin c)) || negb (N.eqb ud (udef c)))%bool).
Proof.
  intros H H0 lo. unfold live_node, getn. rewrite H. cbv beta iota zeta. rewrite H0.
  unfold nc_li. fold lo.
  destruct (is_ecall (cn c)).
  - destruct (known_ecall_signature c) as [[a r]|]; eexists; reflexivity.
  - destruct (is_return (cn c)); [eexists; reflexivity|].
    destruct (is_function_entry (cn c)); eexists; reflexivity.
Qed.

Lemma live_node_call g ns v i c fid f :
  nth_opt ns i = Some c -> calls_to_from_cfg g c = Some fid -> nth_opt (gfuncs g) fid = Some f ->
  let lo := union_live_in ns (nexts c) in
  let ex_li := match nth_opt ns (fexit f) with Some e => lin e | None => rs_empty end in
  let ns1 := upd ns (fexit f) (fun e => set_lin e (rs_union lo ex_li)) in
  let entry_lo := match nth_opt ns1 (fentry f) with
                  | Some e => if Nat.eqb (fentry f) i then lo else lout e
                  | None => rs_empty end in
  let li := rs_union (rs_union (rs_inter entry_lo argument_set) (rs_diff lo (kill_reg (cn c)))) (gen_reg (cn c)) in
  let cur := match nth_opt ns1 i with Some x => x | None => c end in
  exists ud, live_node g ns v i =
    (upd ns1 i (fun x => set_live x li lo ud),
     (negb (N.eqb lo (lout c)) || negb (N.eqb (rs_union lo ex_li) ex_li)
      || negb (N.eqb li (lin cur)) || negb (N.eqb ud (udef cur)))%bool).
Proof.
  intros H H0 H1. unfold live_node, getn. rewrite H. cbv beta iota zeta. rewrite H0, H1.
  eexists; reflexivity.
Qed.

(* A: structure is preserved *)
Lemma live_node_struct g ns v i : same_str ns (fst (live_node g ns v i)).
Proof.
  destruct (nth_opt ns i) as [c|] eqn:Hc.
  2:{ rewrite live_node_none; auto. apply same_str_refl. }
  destruct (calls_to_from_cfg g c) as [fid|] eqn:Hcall.
  - destruct (nth_opt (gfuncs g) fid) as [f|] eqn:Hf.
    + destruct (live_node_call g ns v i c fid f Hc Hcall Hf) as [ud ->]. cbn [fst].
      eapply same_str_trans; apply same_str_upd; intros x.
      * apply struct_set_lin.
      * apply struct_set_live.
    + rewrite (live_node_dangling g ns v i c fid); auto. apply same_str_refl.
  - destruct (live_node_plain g ns v i c Hc Hcall) as [ud ->]. cbn [fst].
    apply same_str_upd. intros x. apply struct_set_live.
Qed.

(* B: the stored sets stay below any closed assignment *)
Lemma lo_le g ns L i c :
  le_asg (asg_of ns) L -> ClosedAt g L i c -> subset (union_live_in ns (nexts c)) (Lout L i).
Proof.
  intros Hle (H1 & _). rewrite union_live_in_eq.
  eapply subset_trans; [|apply H1]. apply (rhs_out_mono g (asg_of ns) L c Hle).
Qed.

Lemma nc_li_le g L i c lo :
  calls_to_from_cfg g c = None -> subset lo (Lout L i) -> subset (lin c) (Lin L i) ->
  subset (rhs_in g L i c) (Lin L i) -> subset (nc_li c lo) (Lin L i).
Proof.
  unfold rhs_in, node_uses, node_kills, nc_li. intros ->.
  destruct (is_ecall (cn c)).
  - destruct (known_ecall_signature c) as [[a r]|]; bits.
  - destruct (is_return (cn c)); bits.
Qed.

Lemma live_node_mono g ns v i L :
  ClosedN g ns L -> le_asg (asg_of ns) L -> le_asg (asg_of (fst (live_node g ns v i))) L.
Proof.
  intros Hcl Hle.
  destruct (nth_opt ns i) as [c|] eqn:Hc.
  2:{ rewrite live_node_none; auto. }
  pose proof (Hcl i c Hc) as Hat.
  pose proof (lo_le g ns L i c Hle Hat) as Hlo.
  destruct (calls_to_from_cfg g c) as [fid|] eqn:Hcall.
  - destruct (nth_opt (gfuncs g) fid) as [f|] eqn:Hf.
    2:{ rewrite (live_node_dangling g ns v i c fid); auto. }
    destruct (live_node_call g ns v i c fid f Hc Hcall Hf) as [ud ->]. cbn [fst].
    destruct Hat as (_ & Hin & Hex). specialize (Hex fid f Hcall Hf).
    set (lo := union_live_in ns (nexts c)) in *.
    assert (Hle1 : le_asg (asg_of (upd ns (fexit f)
               (fun e => set_lin e (rs_union lo match nth_opt ns (fexit f) with Some e0 => lin e0 | None => rs_empty end)))) L).
    { apply le_upd; auto. intros x Hx. rewrite Hx. cbn [set_lin set_live lin lout].
      pose proof (Hle (fexit f)) as [Hi Ho]. rewrite (Lin_asg _ _ _ Hx) in Hi. rewrite (Lout_asg _ _ _ Hx) in Ho.
      split; auto. bits. }
    apply le_upd; auto. intros x Hx. cbn [set_live lin lout]. split; auto.
    match goal with |- context [nth_opt ?ns1 (fentry f)] => set (ms := ns1) in * end.
    assert (Hent : subset (match nth_opt ms (fentry f) with
                           | Some e => if Nat.eqb (fentry f) i then lo else lout e
                           | None => rs_empty end) (Lout L (fentry f))).
    { destruct (nth_opt ms (fentry f)) as [e|] eqn:He; [|apply subset_0].
      destruct (Nat.eqb_spec (fentry f) i) as [->|_]; auto.
      pose proof (Hle1 (fentry f)) as [_ Ho]. rewrite (Lout_asg _ _ _ He) in Ho. exact Ho. }
    revert Hin Hent. unfold rhs_in, node_uses, node_kills. rewrite Hcall, Hf.
    generalize (match nth_opt ms (fentry f) with
                | Some e => if Nat.eqb (fentry f) i then lo else lout e
                | None => rs_empty end). intros elo. bits.
  - destruct (live_node_plain g ns v i c Hc Hcall) as [ud ->]. cbn [fst].
    apply le_upd; auto. intros x Hx. rewrite Hc in Hx. inversion Hx; subst x.
    cbn [set_live lin lout]. split; auto.
    destruct Hat as (_ & Hin & _).
    eapply nc_li_le; eauto.
    pose proof (Hle i) as [Hi _]. rewrite (Lin_asg _ _ _ Hc) in Hi. exact Hi.
Qed.

(* C: a node update that reports no change changed nothing, and the node's equations hold *)
Definition call_wf (g : cfg) (c : cnode) : Prop :=
  forall fid, calls_to_from_cfg g c = Some fid -> exists f, nth_opt (gfuncs g) fid = Some f.
Definition ret_class (g : cfg) (c : cnode) : Prop :=
  calls_to_from_cfg g c = None /\ is_ecall (cn c) = false /\ is_return (cn c) = true.

Definition NodeFix (g : cfg) (A : assignment) (i : nat) (c : cnode) : Prop :=
  call_wf g c ->
  Lout A i = rhs_out g A c /\
  ((ret_class g c -> subset (rs_diff (Lout A i) (N.ones 32)) (Lin A i)) ->
   subset (rhs_in g A i c) (Lin A i)) /\
  (forall fid f, calls_to_from_cfg g c = Some fid -> nth_opt (gfuncs g) fid = Some f ->
                 subset (Lout A i) (Lin A (fexit f))).

Lemma nc_li_ge g A i c :
  calls_to_from_cfg g c = None ->
  (is_ecall (cn c) = false -> is_return (cn c) = true ->
   subset (rs_diff (Lout A i) (N.ones 32)) (nc_li c (Lout A i))) ->
  subset (rhs_in g A i c) (nc_li c (Lout A i)).
Proof.
  unfold rhs_in, node_uses, node_kills, nc_li. intros ->.
  destruct (is_ecall (cn c)).
  - destruct (known_ecall_signature c) as [[a r]|]; intros _; bits.
  - destruct (is_return (cn c)); intros H; [specialize (H eq_refl eq_refl)|clear H]; bits.
Qed.

Lemma live_node_fix g ns v i :
  snd (live_node g ns v i) = false ->
  fst (live_node g ns v i) = ns /\
  forall c, nth_opt ns i = Some c -> NodeFix g (asg_of ns) i c.
Proof.
  destruct (nth_opt ns i) as [c|] eqn:Hc.
  2:{ rewrite live_node_none; auto. split; auto. intros; discriminate. }
  destruct (calls_to_from_cfg g c) as [fid|] eqn:Hcall.
  - destruct (nth_opt (gfuncs g) fid) as [f|] eqn:Hf.
    2:{ rewrite (live_node_dangling g ns v i c fid); auto. split; auto.
        intros c' Hc' Hwf. inversion Hc'; subst c'. destruct (Hwf fid Hcall) as [f Hf']. congruence. }
    destruct (live_node_call g ns v i c fid f Hc Hcall Hf) as [ud ->]. cbn [fst snd]. intros Hch.
    apply orb_false_iff in Hch. destruct Hch as [Hch H3].
    apply orb_false_iff in Hch. destruct Hch as [Hch H2].
    apply orb_false_iff in Hch. destruct Hch as [H0 H1].
    apply neqb_false in H0, H1, H2, H3.
    set (lo := union_live_in ns (nexts c)) in *.
    assert (Hns1 : upd ns (fexit f)
              (fun e => set_lin e (rs_union lo match nth_opt ns (fexit f) with Some e0 => lin e0 | None => rs_empty end)) = ns).
    { apply upd_id. intros x Hx. pose proof H1 as H1'. rewrite Hx in H1'. rewrite Hx, H1'.
      unfold set_lin. apply set_live_id. }
    rewrite Hns1 in *. rewrite Hc in H2, H3.
    assert (Hent : match nth_opt ns (fentry f) with
                   | Some e => if Nat.eqb (fentry f) i then lo else lout e
                   | None => rs_empty end = Lout (asg_of ns) (fentry f)).
    { cbn [asg_of Lout]. destruct (nth_opt ns (fentry f)) as [e|] eqn:He; auto.
      destruct (Nat.eqb_spec (fentry f) i) as [E|_]; auto.
      rewrite E, Hc in He. inversion He; subst e. exact H0. }
    rewrite Hent in *.
    split.
    + apply upd_id. intros x Hx. rewrite Hc in Hx. inversion Hx; subst x.
      rewrite H2, H3, H0. apply set_live_id.
    + intros c' Hc' Hwf. inversion Hc'; subst c'. split; [|split].
      * rewrite (Lout_asg _ _ _ Hc). unfold rhs_out. rewrite <- union_live_in_eq. symmetry; exact H0.
      * intros _. rewrite (Lin_asg _ _ _ Hc), <- H2.
        unfold rhs_in, node_uses, node_kills. rewrite Hcall, Hf.
        rewrite (Lout_asg _ _ _ Hc), <- H0.
        generalize (Lout (asg_of ns) (fentry f)). intros elo. bits.
      * intros fid' f' Hc1 Hf1. rewrite Hcall in Hc1. inversion Hc1; subst fid'. rewrite Hf in Hf1. inversion Hf1; subst f'.
        rewrite (Lout_asg _ _ _ Hc), <- H0. cbn [asg_of Lin].
        apply lor_absorb_subset. exact H1.
  - destruct (live_node_plain g ns v i c Hc Hcall) as [ud ->]. cbn [fst snd]. intros Hch.
    apply orb_false_iff in Hch. destruct Hch as [Hch H3].
    apply orb_false_iff in Hch. destruct Hch as [H0 H2].
    apply neqb_false in H0, H2, H3.
    set (lo := union_live_in ns (nexts c)) in *.
    split.
    + apply upd_id. intros x Hx. rewrite Hc in Hx. inversion Hx; subst x.
      rewrite H2, H3, H0. apply set_live_id.
    + intros c' Hc' Hwf. inversion Hc'; subst c'. split; [|split].
      * rewrite (Lout_asg _ _ _ Hc). unfold rhs_out. rewrite <- union_live_in_eq. symmetry; exact H0.
      * intros Hret. rewrite (Lin_asg _ _ _ Hc) in *. rewrite (Lout_asg _ _ _ Hc) in Hret.
        rewrite <- H2, <- H0 in Hret. rewrite <- H2.
        pose proof (nc_li_ge g (asg_of ns) i c Hcall) as Hge.
        rewrite (Lout_asg _ _ _ Hc), <- H0 in Hge. apply Hge.
        intros He Hr. apply Hret. repeat split; auto.
      * intros fid' f' Hc1. congruence.
Qed.

(* ---- sweeps and the loop ----------------------------------------------------------------- *)
Lemma sweep_props g idx : forall ns v ch ns' v' ch',
  live_sweep g idx ns v ch = (ns', v', ch') ->
  same_str ns ns' /\
  (forall L, ClosedN g ns L -> le_asg (asg_of ns) L -> le_asg (asg_of ns') L) /\
  (ch' = false -> ch = false /\ ns' = ns /\
     forall i, In i idx -> forall c, nth_opt ns i = Some c -> NodeFix g (asg_of ns) i c).
Proof.
  induction idx as [|i idx IH]; intros ns v ch ns' v' ch' H; cbn [live_sweep] in H.
  - inversion H; subst. split; [apply same_str_refl|]. split; auto.
    intros ->. split; [reflexivity|]. split; [reflexivity|]. intros j [].
  - destruct (live_node g ns v i) as [ns1 ch1] eqn:Hn.
    apply IH in H. destruct H as (Hs & Hm & Hf).
    pose proof (live_node_struct g ns v i) as Hs1. rewrite Hn in Hs1; cbn [fst] in Hs1.
    split; [eapply same_str_trans; eauto|]. split.
    + intros L Hcl Hle. apply Hm.
      * eapply ClosedN_struct; eauto.
      * pose proof (live_node_mono g ns v i L Hcl Hle) as X. rewrite Hn in X. exact X.
    + intros Hch'. destruct (Hf Hch') as (Hor & Heq & Hfix).
      apply orb_false_iff in Hor. destruct Hor as [-> ->].
      pose proof (live_node_fix g ns v i) as X. rewrite Hn in X. cbn [fst snd] in X.
      destruct (X eq_refl) as [E Hfi]. subst ns1. subst ns'.
      split; [reflexivity|]. split; [reflexivity|]. intros j [<-|Hj]; auto.
Qed.

Lemma loop_props g fuel : forall ns v ns',
  live_loop fuel g ns v = Ok ns' ->
  same_str ns ns' /\
  (forall L, ClosedN g ns L -> le_asg (asg_of ns) L -> le_asg (asg_of ns') L) /\
  (forall i c, nth_opt ns' i = Some c -> NodeFix g (asg_of ns') i c).
Proof.
  induction fuel as [|fuel IH]; intros ns v ns' H; cbn [live_loop] in H; [discriminate|].
  destruct (live_sweep g (rev (seq 0 (length ns))) ns v false) as [[ns1 v1] ch1] eqn:Hsw.
  apply sweep_props in Hsw. destruct Hsw as (Hs & Hm & Hf).
  destruct ch1.
  - apply IH in H. destruct H as (Hs' & Hm' & Hf').
    split; [eapply same_str_trans; eauto|]. split; auto.
    intros L Hcl Hle. apply Hm'; auto. eapply ClosedN_struct; eauto.
  - inversion H; subst ns'. destruct (Hf eq_refl) as (_ & -> & Hfix).
    split; auto. split; auto. intros i c Hc. apply Hfix; auto.
    apply -> in_rev. apply in_seq. apply nth_opt_some_lt in Hc. lia.
Qed.

(* ---- (a) least solution ------------------------------------------------------------------ *)
(* Both clauses are needed for `Closed` (not for same_structure or leastness):
   - a call site whose label maps to a function id without a record is skipped entirely by
     `live_node` (not even live_out is set), so rhs_out <= Lout fails there;
   - node_kills of a return is N.ones 32, so bits >= 32 of live_out would have to flow into
     live_in of a return with successors, but the pass only accumulates gen into it.
   `NodeFix` above states what the final sweep establishes without these hypotheses. *)
Definition wf_live (g : cfg) : Prop :=
  (forall l fid, In (l, fid) (glabelfn g) -> (fid < length (gfuncs g))%nat) /\
  (forall i c, nth_opt (gnodes g) i = Some c -> is_return (cn c) = true -> nexts c = []).

Lemma assoc_fn_in s l v : assoc_fn s l = Some v -> exists k, In (k, v) l.
Proof.
  induction l as [|[k w] l IH]; cbn [assoc_fn]; [discriminate|].
  destruct (str_eqb s k).
  - intros H; inversion H; subst. exists k. left; reflexivity.
  - intros H. destruct (IH H) as [k' Hk']. exists k'. right; exact Hk'.
Qed.

Lemma wf_call_wf g c :
  (forall l fid, In (l, fid) (glabelfn g) -> (fid < length (gfuncs g))%nat) -> call_wf g c.
Proof.
  intros Hwf fid Hfid. unfold calls_to_from_cfg in Hfid.
  destruct (calls_to (cn c)); [|destruct (is_some_jump_to_label (cn c)); [|discriminate]];
    apply assoc_fn_in in Hfid; destruct Hfid as [k Hk]; apply Hwf in Hk; apply nth_opt_lt_some; exact Hk.
Qed.

Theorem live_least :
  forall g g', all_bottom g -> wf_live g -> liveness_pass g = Ok g' ->
    same_structure g g' /\
    Closed g' (stored g') /\
    forall L, Closed g' L -> le_asg (stored g') L.
Proof.
  intros g g' Hbot [Hwf1 Hwf2] Hpass. unfold liveness_pass in Hpass.
  destruct (live_loop (live_fuel g) g (gnodes g) []) as [ns'| |] eqn:Hloop; cbn [bind] in Hpass; try discriminate.
  inversion Hpass; subst g'; clear Hpass.
  apply loop_props in Hloop. destruct Hloop as (Hs & Hm & Hf).
  split; [|split].
  - destruct Hs as [Hl Hs].
    split; [reflexivity|]. split; [reflexivity|]. split; [exact Hl|exact Hs].
  - intros i c Hc. cbn [gnodes] in Hc.
    change (ClosedAt g (asg_of ns') i c).
    destruct (Hf i c Hc (wf_call_wf g c Hwf1)) as (Ho & Hi & Hx).
    split; [rewrite Ho; apply subset_refl|]. split; [|exact Hx].
    apply Hi. intros (_ & _ & Hr).
    assert (Hnx : nexts c = []).
    { destruct Hs as [Hl Hs].
      assert (Hlt : (i < length (gnodes g))%nat) by (rewrite Hl; eapply nth_opt_some_lt; eauto).
      apply nth_opt_lt_some in Hlt. destruct Hlt as [c0 Hc0].
      destruct (Hs i c0 c Hc0 Hc) as (Hcn & Hnx & _).
      rewrite <- Hnx. apply (Hwf2 i c0 Hc0). rewrite Hcn. exact Hr. }
    rewrite Ho. unfold rhs_out. rewrite Hnx. cbn [fold_left]. bits.
  - intros L HL. change (ClosedN g ns' L) in HL.
    change (le_asg (asg_of ns') L). apply Hm.
    + eapply ClosedN_struct; [apply same_str_sym; exact Hs|exact HL].
    + intros j. cbn [asg_of Lin Lout].
      destruct (nth_opt (gnodes g) j) as [c|] eqn:E; [destruct (Hbot j c E) as [-> ->]|]; split; apply subset_0.
Qed.

(* ---- (b) coverage ------------------------------------------------------------------------ *)
Theorem live_covers :
  forall g L, Closed g L ->
    forall p nk ck r, path g (p ++ [nk]) -> nth_opt (gnodes g) nk = Some ck ->
      N.testbit (node_uses g L nk ck) r = true ->
      (forall i c, In i p -> nth_opt (gnodes g) i = Some c -> N.testbit (node_kills g c) r = false) ->
      (forall i, In i p -> exists c, nth_opt (gnodes g) i = Some c) ->
      forall n0, hd_error (p ++ [nk]) = Some n0 -> N.testbit (Lin L n0) r = true.
Proof.
  intros g L Hcl p nk ck r. induction p as [|a p IH]; intros Hpath Hnk Huse Hkill Hex n0 Hhd.
  - cbn in Hhd. inversion Hhd; subst n0.
    destruct (Hcl nk ck Hnk) as (_ & Hin & _). apply Hin.
    unfold rhs_in, rs_union. rewrite N.lor_spec, Huse. reflexivity.
  - cbn [app hd_error] in Hhd. inversion Hhd; subst n0.
    cbn [app] in Hpath. inversion Hpath as [a'|a' b rest Hedge Hrest [Ha Heq]].
    { destruct p; discriminate. }
    rewrite <- Heq in IH.
    assert (Hb : N.testbit (Lin L b) r = true).
    { apply IH; auto.
      - intros i c Hi. apply Hkill. right; exact Hi.
      - intros i Hi. apply Hex. right; exact Hi. }
    destruct Hedge as (c & Hc & Hnext).
    destruct (Hcl a c Hc) as (Hout & Hin & _).
    apply Hin. unfold rhs_in, rs_union, rs_diff. rewrite N.lor_spec, N.ldiff_spec.
    rewrite (Hkill a c (or_introl eq_refl) Hc).
    rewrite (Hout r); [apply orb_true_r|].
    unfold rhs_out. apply (fold_union_in (Lin L) (nexts c) b Hnext). exact Hb.
Qed.

(* ---- (c) the dead-assignment lint -------------------------------------------------------- *)
Lemma usage_lints_code code g i regs l : In l (usage_lints code g i regs) -> lcode l = code.
Proof.
  unfold usage_lints. intros Hin. apply in_flat_map in Hin. destruct Hin as (item & _ & Hin).
  cbv zeta in Hin.
  generalize dependent (error_ranges_for_first_usage (gnodes g) i item). intros cands Hin.
  destruct cands as [|o cands]; [destruct Hin|].
  generalize dependent (filter_map (fun x : option loc => x) (o :: cands)). intros ls Hin.
  destruct ls; [destruct Hin|]. destruct Hin as [<-|[]]. reflexivity.
Qed.

Theorem dead_only_if_unread :
  forall g l, In l (lint_dead_value g) -> lcode l = LDeadAssignment ->
    exists i c def, nth_opt (gnodes g) i = Some c /\ writes_to (cn c) = Some def /\
      lcands l = [loc_of_tok (wt def)] /\ N.testbit (lout c) (wv def) = false.
Proof.
  intros g l Hin Hcode. unfold lint_dead_value, for_nodes in Hin.
  apply in_flat_map in Hin. destruct Hin as (i & _ & Hin).
  unfold getn in Hin. destruct (nth_opt (gnodes g) i) as [c|] eqn:Hc; [|destruct Hin].
  destruct (calls_to_from_cfg g c) as [fid|].
  - destruct (nth_opt (gfuncs g) fid) as [f|]; [|destruct Hin].
    apply usage_lints_code in Hin. rewrite Hin in Hcode. discriminate Hcode.
  - destruct (writes_to (cn c)) as [def|] eqn:Hw; [|destruct Hin].
    destruct (negb (rs_mem (wv def) (lout c)) && negb (can_skip_save_checks (cn c)))%bool eqn:Hb; [|destruct Hin].
    destruct Hin as [<-|[]]. exists i, c, def.
    split; [exact Hc|]. split; [exact Hw|]. split; [reflexivity|].
    apply andb_true_iff in Hb. destruct Hb as [Hb _]. unfold rs_mem in Hb.
    destruct (N.testbit (lout c) (wv def)); [discriminate Hb|reflexivity].
Qed.

(* ---- (d) returns cover the callers ------------------------------------------------------- *)
Theorem returns_cover_callers :
  forall g L, Closed g L ->
    forall i c fid f r, nth_opt (gnodes g) i = Some c -> calls_to_from_cfg g c = Some fid ->
      nth_opt (gfuncs g) fid = Some f -> N.testbit (Lout L i) r = true ->
      N.testbit (Lin L (fexit f)) r = true.
Proof.
  intros g L Hcl i c fid f r Hc Hcall Hf Hr.
  destruct (Hcl i c Hc) as (_ & _ & H3). exact (H3 fid f Hcall Hf r Hr).
Qed.
