(* The output sort: sorted, a permutation, stable. *)
From Coq Require Import List Permutation Sorted Lia.
From RV.Model Require Import Base Lexer Parser Reader Cfg Lints Output.
Import ListNotations.
Open Scope N_scope.

Lemma str_cmp_refl a : str_cmp a a = Eq.
Proof. induction a as [|x a IH]; cbn; [reflexivity|]. rewrite N.compare_refl. exact IH. Qed.

Lemma str_cmp_antisym a : forall b, str_cmp b a = CompOpp (str_cmp a b).
Proof.
  induction a as [|x a IH]; intros [|y b]; cbn; try reflexivity.
  rewrite (N.compare_antisym x y). destruct (N.compare x y); cbn; auto.
Qed.

Lemma str_cmp_eq a : forall b, str_cmp a b = Eq -> a = b.
Proof.
  induction a as [|x a IH]; intros [|y b]; cbn; intros H; try discriminate; [reflexivity|].
  destruct (N.compare x y) eqn:E; try discriminate. apply N.compare_eq in E. subst. f_equal. auto.
Qed.

Lemma str_cmp_trans_lt a : forall b c, str_cmp a b = Lt -> str_cmp b c = Lt -> str_cmp a c = Lt.
Proof.
  induction a as [|x a IH]; intros [|y b] [|z c]; cbn; intros H1 H2; try discriminate; try reflexivity.
  destruct (N.compare x y) eqn:E1; try discriminate; destruct (N.compare y z) eqn:E2; try discriminate.
  - apply N.compare_eq in E1, E2. subst. rewrite N.compare_refl. eauto.
  - apply N.compare_eq in E1. subst. rewrite E2. reflexivity.
  - apply N.compare_eq in E2. subst. rewrite E1. reflexivity.
  - rewrite N.compare_lt_iff in *. assert (x < z) as H by lia. apply N.compare_lt_iff in H. rewrite H. reflexivity.
Qed.

(* total preorder facts for key_leb *)
Definition cmp_ok {K} (cmp : K -> K -> comparison) : Prop :=
  (forall a, cmp a a = Eq) /\ (forall a b, cmp b a = CompOpp (cmp a b)) /\
  (forall a b c, cmp a b = Lt -> cmp b c = Lt -> cmp a c = Lt) /\
  (forall a b c, cmp a b = Eq -> cmp b c = cmp a c) .

Lemma ncmp_ok : cmp_ok N.compare.
Proof.
  repeat split.
  - apply N.compare_refl.
  - intros a b. apply N.compare_antisym.
  - intros a b c. rewrite !N.compare_lt_iff. lia.
  - intros a b c H. apply N.compare_eq in H. subst. reflexivity.
Qed.

Lemma str_cmp_ok : cmp_ok str_cmp.
Proof.
  repeat split.
  - apply str_cmp_refl.
  - intros a b. apply str_cmp_antisym.
  - apply str_cmp_trans_lt.
  - intros a b c H. apply str_cmp_eq in H. subst. reflexivity.
Qed.

Lemma ostr_cmp_ok : cmp_ok ostr_cmp.
Proof.
  destruct str_cmp_ok as (R & S & T & E).
  repeat split.
  - intros [a|]; cbn; auto.
  - intros [a|] [b|]; cbn; auto.
  - intros [a|] [b|] [c|]; cbn; try discriminate; eauto.
  - intros [a|] [b|] [c|]; cbn; try discriminate; eauto.
Qed.

Lemma lex_ok {K1 K2} (c1 : K1 -> K1 -> comparison) (c2 : K2 -> K2 -> comparison) :
  cmp_ok c1 -> cmp_ok c2 ->
  cmp_ok (fun a b : K1 * K2 => match c1 (fst a) (fst b) with Eq => c2 (snd a) (snd b) | c => c end).
Proof.
  intros (R1 & S1 & T1 & E1) (R2 & S2 & T2 & E2).
  repeat split.
  - intros [a1 a2]; cbn. rewrite R1. apply R2.
  - intros [a1 a2] [b1 b2]; cbn. rewrite (S1 a1 b1). destruct (c1 a1 b1); cbn; auto.
  - intros [a1 a2] [b1 b2] [c1' c2']; cbn.
    destruct (c1 a1 b1) eqn:X; try discriminate; destruct (c1 b1 c1') eqn:Y; try discriminate; intros H1 H2.
    + rewrite <- (E1 _ _ _ X), Y. eauto.
    + rewrite <- (E1 _ _ _ X), Y. reflexivity.
    + assert (c1 a1 c1' = Lt) as ->; [|reflexivity].
      rewrite (S1 c1' a1), (E1 _ _ a1 Y), (S1 a1 b1), X. reflexivity.
    + rewrite (T1 _ _ _ X Y). reflexivity.
  - intros [a1 a2] [b1 b2] [c1' c2']; cbn.
    destruct (c1 a1 b1) eqn:X; try discriminate. intros H. rewrite (E1 _ _ _ X). destruct (c1 a1 c1'); auto.
Qed.

Lemma range_cmp_ok : cmp_ok range_cmp.
Proof.
  pose proof (lex_ok (K1:=N) (K2:=N) N.compare N.compare ncmp_ok ncmp_ok) as (R & S & T & E).
  unfold range_cmp.
  repeat split.
  - intros a. apply (R (raw (rstart a), raw (rend a))).
  - intros a b. apply (S (raw (rstart a), raw (rend a)) (raw (rstart b), raw (rend b))).
  - intros a b c. apply (T (raw (rstart a), raw (rend a)) (raw (rstart b), raw (rend b)) (raw (rstart c), raw (rend c))).
  - intros a b c. apply (E (raw (rstart a), raw (rend a)) (raw (rstart b), raw (rend b)) (raw (rstart c), raw (rend c))).
Qed.

Lemma key_cmp_ok : cmp_ok key_cmp.
Proof. exact (lex_ok ostr_cmp range_cmp ostr_cmp_ok range_cmp_ok). Qed.

Lemma key_leb_total a b : key_leb a b = true \/ key_leb b a = true.
Proof.
  destruct key_cmp_ok as (_ & S & _). unfold key_leb. rewrite (S a b). destruct (key_cmp a b); cbn; auto.
Qed.

Lemma key_leb_trans a b c : key_leb a b = true -> key_leb b c = true -> key_leb a c = true.
Proof.
  destruct key_cmp_ok as (R & S & T & E). unfold key_leb.
  destruct (key_cmp a b) eqn:X; try discriminate; destruct (key_cmp b c) eqn:Y; try discriminate; intros _ _.
  - rewrite <- (E _ _ _ X), Y. reflexivity.
  - rewrite <- (E _ _ _ X), Y. reflexivity.
  - assert (key_cmp a c = Lt) as ->; [|reflexivity].
    rewrite (S c a), (E _ _ a Y), (S a b), X. reflexivity.
  - rewrite (T _ _ _ X Y). reflexivity.
Qed.

Lemma key_ltb_leb a b : key_ltb a b = true -> key_leb a b = true.
Proof. unfold key_ltb, key_leb. destruct (key_cmp a b); auto; discriminate. Qed.
Lemma key_nlt_leb a b : key_ltb a b = false -> key_leb b a = true.
Proof.
  destruct key_cmp_ok as (_ & S & _). unfold key_ltb, key_leb. rewrite (S a b). destruct (key_cmp a b); cbn; auto; discriminate.
Qed.

Section SortFacts.
  Context {A : Type} (key : A -> okey).
  Notation ins := (insert_item key).
  Notation srt := (sort_items key).
  Definition le (x y : A) : Prop := key_leb (key x) (key y) = true.

  Lemma insert_perm x l : Permutation (x :: l) (ins x l).
  Proof.
    induction l as [|y l IH]; cbn; [reflexivity|].
    destruct (key_ltb (key y) (key x)); [|reflexivity].
    rewrite perm_swap. constructor. exact IH.
  Qed.

  Theorem sort_perm l : Permutation l (srt l).
  Proof.
    induction l as [|x l IH]; cbn; [constructor|].
    rewrite <- insert_perm. constructor. exact IH.
  Qed.

  Lemma insert_sorted x l : StronglySorted le l -> StronglySorted le (ins x l).
  Proof.
    induction l as [|y l IH]; cbn; intros H.
    - constructor; constructor.
    - inversion H as [|? ? Hs Hf]; subst.
      destruct (key_ltb (key y) (key x)) eqn:E.
      + constructor; [auto|]. apply (Permutation_Forall (insert_perm x l)). constructor; [apply key_ltb_leb; exact E|exact Hf].
      + assert (le x y) as Hxy by (apply key_nlt_leb; exact E).
        constructor; [exact H|]. constructor; [exact Hxy|].
        eapply Forall_impl; [|exact Hf]. intros z Hz. eapply key_leb_trans; eauto.
  Qed.

  Theorem sort_sorted l : StronglySorted le (srt l).
  Proof. induction l as [|x l IH]; cbn; [constructor|]. apply insert_sorted. exact IH. Qed.

  (* stability: the items whose key is equivalent to k keep their relative order *)
  Definition same_key (k : okey) (x : A) : bool := match key_cmp (key x) k with Eq => true | _ => false end.

  Lemma insert_filter k x l : StronglySorted le l ->
    filter (same_key k) (ins x l) = filter (same_key k) (x :: l).
  Proof.
    destruct key_cmp_ok as (R & S & T & E).
    induction l as [|y l IH]; intros Hs; [reflexivity|].
    inversion Hs as [|? ? Hs' Hf]; subst.
    cbn [insert_item]. destruct (key_ltb (key y) (key x)) eqn:L; [|reflexivity].
    cbn [filter]. rewrite (IH Hs'). cbn [filter].
    destruct (same_key k x) eqn:Sx; [|reflexivity].
    destruct (same_key k y) eqn:Sy; [|reflexivity].
    (* both equivalent to k, yet key y < key x: impossible *)
    exfalso. unfold same_key in Sx, Sy. unfold key_ltb in L.
    destruct (key_cmp (key x) k) eqn:Ex; try discriminate. destruct (key_cmp (key y) k) eqn:Ey; try discriminate.
    (* key y ~ k ~ key x *)
    pose proof (E _ _ (key x) Ey) as W. rewrite (S (key x) k), Ex in W. cbn in W.
    rewrite <- W in L. discriminate.
  Qed.

  Theorem sort_stable k l : filter (same_key k) (srt l) = filter (same_key k) l.
  Proof.
    induction l as [|x l IH]; [reflexivity|].
    cbn [sort_items fold_right]. rewrite insert_filter by apply sort_sorted.
    cbn [filter]. fold (sort_items key l). rewrite IH. reflexivity.
  Qed.
End SortFacts.

(* ---- dedup: no two output items are the same; nothing new; everything is represented; order kept ---- *)
Section DedupFacts.
  Context {A : Type} (same : A -> A -> bool).
  Hypothesis same_refl : forall x, same x x = true.

  Inductive subseq : list A -> list A -> Prop :=
  | sub_nil : subseq [] []
  | sub_skip : forall x l1 l2, subseq l1 l2 -> subseq l1 (x :: l2)
  | sub_keep : forall x l1 l2, subseq l1 l2 -> subseq (x :: l1) (x :: l2).

  Lemma dedup_from_subseq l : forall seen, subseq (dedup_from same seen l) l.
  Proof.
    induction l as [|x l IH]; intros seen; cbn; [constructor|].
    destruct (existsb (same x) seen); [apply sub_skip|apply sub_keep]; apply IH.
  Qed.

  (* no kept item is the same as a seen one or as an earlier kept one *)
  Inductive fresh_list : list A -> list A -> Prop :=
  | fl_nil : forall seen, fresh_list seen []
  | fl_cons : forall seen x l, existsb (same x) seen = false -> fresh_list (x :: seen) l -> fresh_list seen (x :: l).

  Lemma dedup_from_fresh l : forall seen, fresh_list seen (dedup_from same seen l).
  Proof.
    induction l as [|x l IH]; intros seen; cbn; [constructor|].
    destruct (existsb (same x) seen) eqn:E; [apply IH|]. constructor; [exact E|apply IH].
  Qed.

  Lemma fresh_list_weaken l : forall seen seen', (forall y, In y seen' -> In y seen) -> fresh_list seen l -> fresh_list seen' l.
  Proof.
    induction l as [|x l IH]; intros seen seen' Hsub H; [constructor|].
    inversion H as [|? ? ? Hx Hl]; subst. constructor.
    - destruct (existsb (same x) seen') eqn:E; [|reflexivity].
      apply existsb_exists in E. destruct E as (y & Hy & Hs).
      assert (existsb (same x) seen = true) as C by (apply existsb_exists; exists y; auto). congruence.
    - eapply IH; [|exact Hl]. intros y [->|Hy]; [left; reflexivity|right; auto].
  Qed.

  (* pairwise: for i < j in the output, same (out[j]) (out[i]) = false *)
  Lemma fresh_list_pairwise seen l : fresh_list seen l ->
    forall pre x post, l = pre ++ x :: post -> forall y, In y pre \/ In y seen -> same x y = false.
  Proof.
    induction 1 as [seen|seen a l Ha Hl IH]; intros pre x post E y Hy.
    - destruct pre; discriminate.
    - destruct pre as [|p pre]; cbn in E; inversion E; subst.
      + destruct Hy as [[]|Hy]. destruct (same x y) eqn:S; [|reflexivity].
        assert (existsb (same x) seen = true) as C by (apply existsb_exists; exists y; auto). congruence.
      + apply (IH pre x post eq_refl y). destruct Hy as [[->|Hy]|Hy]; [right; left; reflexivity|left; exact Hy|right; right; exact Hy].
  Qed.

  Theorem dedup_no_two_same l pre x post y :
    dedup_items same l = pre ++ x :: post -> In y pre -> same x y = false.
  Proof.
    intros E Hy. eapply (fresh_list_pairwise [] (dedup_items same l)); [apply dedup_from_fresh|exact E|left; exact Hy].
  Qed.

  (* every input item is represented by an output item that is the same *)
  Lemma dedup_from_represents l : forall seen x, In x l ->
    (exists y, In y seen /\ same x y = true) \/ (exists y, In y (dedup_from same seen l) /\ (y = x \/ same x y = true)).
  Proof.
    induction l as [|a l IH]; intros seen x Hx; [destruct Hx|].
    cbn. destruct Hx as [->|Hx].
    - destruct (existsb (same x) seen) eqn:E.
      + left. apply existsb_exists in E. destruct E as (y & Hy & Hs). exists y; auto.
      + right. exists x. split; [left; reflexivity|left; reflexivity].
    - destruct (existsb (same a) seen) eqn:E.
      + apply IH; exact Hx.
      + destruct (IH (a :: seen) x Hx) as [(y & [->|Hy] & Hs)|(y & Hy & Hs)].
        * right. exists y. split; [left; reflexivity|right; exact Hs].
        * left. exists y; auto.
        * right. exists y. split; [right; exact Hy|exact Hs].
  Qed.

  Theorem dedup_represents l x : In x l -> exists y, In y (dedup_items same l) /\ (y = x \/ same x y = true).
  Proof.
    intros Hx. destruct (dedup_from_represents l [] x Hx) as [(y & [] & _)|H]; exact H.
  Qed.

  Theorem dedup_subseq l : subseq (dedup_items same l) l.
  Proof. apply dedup_from_subseq. Qed.

  Lemma subseq_in l1 l2 : subseq l1 l2 -> forall x, In x l1 -> In x l2.
  Proof. induction 1; intros y Hy; [destruct Hy|right; auto|destruct Hy as [->|Hy]; [left; reflexivity|right; auto]]. Qed.
End DedupFacts.

Lemma subseq_sorted {A} (key : A -> okey) l1 l2 : subseq l1 l2 -> StronglySorted (le key) l2 -> StronglySorted (le key) l1.
Proof.
  induction 1 as [|x l1 l2 H IH|x l1 l2 H IH]; intros Hs; [constructor| |].
  - inversion Hs; subst. auto.
  - inversion Hs as [|? ? Hs' Hf]; subst. constructor; [auto|].
    rewrite Forall_forall in *. intros y Hy. apply Hf. eapply subseq_in; eauto.
Qed.

Theorem sort_for_output_facts {A} (key : A -> okey) (same : A -> A -> bool) (l : list A) :
  let out := sort_for_output key same l in
  (forall pre x post y, out = pre ++ x :: post -> In y pre -> same x y = false) /\
  (forall x, In x l -> exists y, In y out /\ (y = x \/ same x y = true)) /\
  (forall x, In x out -> In x l) /\
  StronglySorted (le key) out /\
  subseq out (sort_items key l).
Proof.
  cbv zeta. unfold sort_for_output. repeat split.
  - intros pre x post y E Hy. eapply dedup_no_two_same; eauto.
  - intros x Hx. apply dedup_represents. eapply Permutation_in; [apply sort_perm|exact Hx].
  - intros x Hx. eapply Permutation_in; [apply Permutation_sym, sort_perm|].
    eapply subseq_in; [apply dedup_subseq|exact Hx].
  - eapply subseq_sorted; [apply dedup_subseq|apply sort_sorted].
  - apply dedup_subseq.
Qed.
