(* C06 - the value analysis on FORWARD graphs (every predecessor of a node has a smaller index).

   Finding: the transfer of a node depends on the outs of its predecessors, on its instruction AND on its
   own OLD memory outs (`rule_pull_value_from_csr_memory n r2 (mout c)`; only for loads, the nodes with
   `reads_from_memory`).  A load therefore shows the value its own memory outs held one sweep EARLIER, and
   "two sweeps suffice on forward graphs" is FALSE (`forward_two_sweeps_false`: a straight-line program of
   five nodes with empty facts needs three sweeps; with k load/store pairs k + 2 sweeps are needed).

   Proved instead:
     forward_sweeps            forward g -> the loop returns within (number of loads) + 2 sweeps
     forward_two_sweeps_noload forward g without loads -> two sweeps
     forward_length_sweeps     forward g -> the loop returns within length g + 2 sweeps
     forward_avail_pass_eqns   forward (gnodes g) -> avail_pass g returns, and its result satisfies AvailEqns
   The memory outs of a node depend only on its instruction and its ins (a load pushes nothing to memory,
   every other node does not read its old memory outs), so the sweep after the one that fixed the ins of a
   node fixes the node.  Invariant after sweep s: the nodes before the s-th load are settled (their stored
   facts are what `avail_node` recomputes), the s-th load has its final ins and memory outs. *)
From RV.Model Require Import Base I32 Imm Lexer Isa Parser Reader Cfg Avail.
From RV.Spec Require Import FixSpec ForwardSpec.
From RV.Proofs Require Import FixProofs TotalProofs.
From Coq Require Import List Bool Arith Lia.
Import ListNotations.
Open Scope nat_scope.

(* ---------------------------------------------------------------------------------- *)
(* the transfer and the old memory outs                                                 *)

Lemma transfer_same c c' ri mi :
  cn c = cn c' -> mout c = mout c' -> avail_transfer c ri mi = avail_transfer c' ri mi.
Proof.
  intros E M. destruct (avail_transfer_shape (cn c) ri mi) as [r2 [m2 S]].
  rewrite (S c eq_refl), (S c' (eq_sym E)), M. reflexivity.
Qed.

(* a node that is not a load does not look at its old memory outs *)
Lemma transfer_nopull c c' ri mi :
  pulls c = false -> cn c = cn c' -> avail_transfer c ri mi = avail_transfer c' ri mi.
Proof.
  intros P E. destruct (avail_transfer_shape (cn c) ri mi) as [r2 [m2 S]].
  rewrite (S c eq_refl), (S c' (eq_sym E)). unfold pulls in P.
  unfold rule_pull_value_from_csr_memory. destruct (reads_from_memory (cn c)); [discriminate P|reflexivity].
Qed.

(* a load pushes nothing to memory: its memory outs do not depend on its register outs *)
Lemma transfer_pull_snd c c' ri mi :
  pulls c = true -> cn c = cn c' -> snd (avail_transfer c ri mi) = snd (avail_transfer c' ri mi).
Proof.
  intros P E. destruct (avail_transfer_shape (cn c) ri mi) as [r2 [m2 S]].
  rewrite (S c eq_refl), (S c' (eq_sym E)). cbn [snd]. unfold pulls in P.
  assert (N : stores_to_memory (cn c) = None).
  { destruct (cn c); cbn [reads_from_memory] in P; try discriminate P; reflexivity. }
  unfold rule_push_value_to_csr_memory. rewrite N. reflexivity.
Qed.

(* the memory outs depend on the node only through its instruction *)
Lemma transfer_snd_cn c c' ri mi :
  cn c = cn c' -> snd (avail_transfer c ri mi) = snd (avail_transfer c' ri mi).
Proof.
  intros E. destruct (pulls c) eqn:P.
  - apply transfer_pull_snd; assumption.
  - f_equal. apply transfer_nopull; assumption.
Qed.

(* ---------------------------------------------------------------------------------- *)
(* meets                                                                                *)

Lemma memn_In p l : In p l -> memn p l = true.
Proof.
  induction l as [|a l IH]; cbn [In memn]; [tauto|]. intros [->|H].
  - rewrite Nat.eqb_refl. reflexivity.
  - rewrite (IH H). apply orb_true_r.
Qed.

Lemma filter_all {A} (f : A -> bool) l : (forall x, In x l -> f x = true) -> filter f l = l.
Proof.
  induction l as [|a l IH]; cbn [filter]; intros H; [reflexivity|].
  rewrite (H a (or_introl eq_refl)). f_equal. apply IH. intros x Hx. apply H. right. exact Hx.
Qed.

Lemma meet_regs_all g ps vis :
  (forall p, In p ps -> memn p vis = true) -> meet_regs g ps vis = meet_regs g ps ps.
Proof.
  intros H. unfold meet_regs.
  rewrite (filter_all (fun p => memn p vis) ps H).
  rewrite (filter_all (fun p => memn p ps) ps (fun p Hp => memn_In p ps Hp)). reflexivity.
Qed.
Lemma meet_mems_all g ps vis :
  (forall p, In p ps -> memn p vis = true) -> meet_mems g ps vis = meet_mems g ps ps.
Proof.
  intros H. unfold meet_mems.
  rewrite (filter_all (fun p => memn p vis) ps H).
  rewrite (filter_all (fun p => memn p ps) ps (fun p Hp => memn_In p ps Hp)). reflexivity.
Qed.

(* a meet looks at the graph only at the predecessors *)
Lemma meet_regs_ext g g' ps vis :
  (forall p, In p ps -> nth_opt g p = nth_opt g' p) -> meet_regs g ps vis = meet_regs g' ps vis.
Proof.
  intros H. unfold meet_regs.
  assert (HL : forall p, In p (filter (fun p => memn p vis) ps) -> getn g p = getn g' p).
  { intros p Hp. apply filter_In in Hp. unfold getn. apply H, Hp. }
  destruct (filter (fun p => memn p vis) ps) as [|p l]; [reflexivity|].
  rewrite (HL p (or_introl eq_refl)).
  generalize (match getn g' p with Some c => rout c | None => [] end).
  assert (HL' : forall q, In q l -> getn g q = getn g' q) by (intros q Hq; apply HL; right; exact Hq).
  clear HL. induction l as [|q l IH]; intros acc; cbn [fold_left]; [reflexivity|].
  rewrite (HL' q (or_introl eq_refl)). apply IH. intros r Hr. apply HL'. right. exact Hr.
Qed.
Lemma meet_mems_ext g g' ps vis :
  (forall p, In p ps -> nth_opt g p = nth_opt g' p) -> meet_mems g ps vis = meet_mems g' ps vis.
Proof.
  intros H. unfold meet_mems.
  assert (HL : forall p, In p (filter (fun p => memn p vis) ps) -> getn g p = getn g' p).
  { intros p Hp. apply filter_In in Hp. unfold getn. apply H, Hp. }
  destruct (filter (fun p => memn p vis) ps) as [|p l]; [reflexivity|].
  rewrite (HL p (or_introl eq_refl)).
  generalize (match getn g' p with Some c => mout c | None => [] end).
  assert (HL' : forall q, In q l -> getn g q = getn g' q) by (intros q Hq; apply HL; right; exact Hq).
  clear HL. induction l as [|q l IH]; intros acc; cbn [fold_left]; [reflexivity|].
  rewrite (HL' q (or_introl eq_refl)). apply IH. intros r Hr. apply HL'. right. exact Hr.
Qed.

(* ---------------------------------------------------------------------------------- *)
(* settled nodes                                                                        *)

(* the stored ins are the meet over ALL predecessors *)
Definition ins_ok (g : list cnode) (c : cnode) : Prop :=
  rin c = meet_regs g (prevs c) (prevs c) /\ min c = meet_mems g (prevs c) (prevs c).
(* ... and the stored outs are what the transfer recomputes: processing the node again changes nothing *)
Definition settled (g : list cnode) (c : cnode) : Prop :=
  ins_ok g c /\ avail_transfer c (rin c) (min c) = (rout c, mout c).
(* ... only the memory outs are known to be final *)
Definition msettled (g : list cnode) (c : cnode) : Prop :=
  ins_ok g c /\ snd (avail_transfer c (rin c) (min c)) = mout c.

Lemma ins_ok_keep g g' c :
  (forall p, In p (prevs c) -> nth_opt g p = nth_opt g' p) -> ins_ok g c -> ins_ok g' c.
Proof.
  intros H [A B]. split.
  - rewrite A. apply meet_regs_ext, H.
  - rewrite B. apply meet_mems_ext, H.
Qed.
Lemma settled_keep g g' c :
  (forall p, In p (prevs c) -> nth_opt g p = nth_opt g' p) -> settled g c -> settled g' c.
Proof. intros H [A B]. split; [apply (ins_ok_keep g g' c H A)|exact B]. Qed.
Lemma msettled_keep g g' c :
  (forall p, In p (prevs c) -> nth_opt g p = nth_opt g' p) -> msettled g c -> msettled g' c.
Proof. intros H [A B]. split; [apply (ins_ok_keep g g' c H A)|exact B]. Qed.

(* one node of a forward graph, all smaller nodes visited *)
Lemma node_step g vis i c :
  forward g -> nth_opt g i = Some c -> (forall p, p < i -> memn p vis = true) ->
  exists g' ch c',
    avail_node g vis i = (g', ch) /\ nth_opt g' i = Some c' /\
    (forall j, j <> i -> nth_opt g' j = nth_opt g j) /\
    msettled g' c' /\
    (pulls c = false -> settled g' c') /\
    (msettled g c -> settled g' c') /\
    (settled g c -> g' = g /\ ch = false).
Proof.
  intros F E V.
  assert (PV : forall p, In p (prevs c) -> memn p vis = true).
  { intros p Hp. apply V. apply (F i c E p Hp). }
  pose (ri := meet_regs g (prevs c) (prevs c)). pose (mi := meet_mems g (prevs c) (prevs c)).
  assert (Ari : an_ri g vis c = ri) by (apply meet_regs_all; exact PV).
  assert (Ami : an_mi g vis c = mi) by (apply meet_mems_all; exact PV).
  assert (AT : an_T g vis c = avail_transfer c ri mi) by (unfold an_T; rewrite Ari, Ami; reflexivity).
  pose (ro := fst (avail_transfer c ri mi)). pose (mo := snd (avail_transfer c ri mi)).
  pose (c' := set_avail c ri ro mi mo).
  pose (g' := upd g i (fun x => set_avail x ri ro mi mo)).
  assert (TP : avail_transfer c ri mi = (ro, mo)) by apply surjective_pairing.
  exists g', (negb (rm_eqb ri (rin c) && mm_eqb mi (min c) && rm_eqb ro (rout c) && mm_eqb mo (mout c))), c'.
  assert (N : nth_opt g' i = Some c').
  { unfold g'. rewrite nth_opt_upd_same, E. reflexivity. }
  assert (O : forall j, j <> i -> nth_opt g' j = nth_opt g j).
  { intros j Nj. unfold g'. apply nth_opt_upd_other. exact Nj. }
  assert (IO : ins_ok g' c').
  { assert (K : forall p, In p (prevs c) -> nth_opt g p = nth_opt g' p).
    { intros p Hp. symmetry. apply O. pose proof (F i c E p Hp). lia. }
    unfold ins_ok, c'. cbn [set_avail prevs rin min]. split.
    - apply meet_regs_ext, K.
    - apply meet_mems_ext, K. }
  assert (Ecn : cn c' = cn c) by reflexivity.
  split. { rewrite (avail_node_some g vis i c E), AT, Ari, Ami. reflexivity. }
  split; [exact N|]. split; [exact O|].
  split. { split; [exact IO|]. change (snd (avail_transfer c' ri mi) = mo). apply transfer_snd_cn. exact Ecn. }
  split. { intros P. split; [exact IO|]. change (avail_transfer c' ri mi = (ro, mo)).
           rewrite <- TP. symmetry. apply transfer_nopull; [exact P|symmetry; exact Ecn]. }
  split.
  { intros [[A B] D]. split; [exact IO|]. change (avail_transfer c' ri mi = (ro, mo)).
    rewrite <- TP. apply transfer_same; [exact Ecn|].
    change (mo = mout c). unfold mo, ri, mi. rewrite <- A, <- B. exact D. }
  intros [[A B] D].
  assert (R1 : ri = rin c) by (symmetry; exact A). assert (R2 : mi = min c) by (symmetry; exact B).
  assert (R3 : ro = rout c) by (unfold ro; rewrite R1, R2, D; reflexivity).
  assert (R4 : mo = mout c) by (unfold mo; rewrite R1, R2, D; reflexivity).
  split.
  - unfold g'. apply (upd_fix g i _ c E). rewrite R1, R2, R3, R4. apply set_avail_self.
  - rewrite R1, R2, R3, R4, !rm_eqb_refl, !mm_eqb_refl. reflexivity.
Qed.

(* ---------------------------------------------------------------------------------- *)
(* one sweep                                                                            *)

Definition sat (P : list cnode -> cnode -> Prop) (g : list cnode) (j : nat) : Prop :=
  forall c, nth_opt g j = Some c -> P g c.

(* between sweeps (k = 0: nothing is known; k = j + 1: the nodes before j are settled, node j has its final
   ins and memory outs) *)
Definition Inv (k : nat) (g : list cnode) : Prop :=
  (forall j, S j < k -> sat settled g j) /\ (forall j, S j = k -> sat msettled g j).
(* inside a sweep that started with Inv k and is to end with Inv k', before node i is processed *)
Definition SInv (k k' i : nat) (g : list cnode) : Prop :=
  (forall j, S j < k' -> (j < i \/ S j < k) -> sat settled g j) /\
  (forall j, S j = k -> i <= j -> sat msettled g j) /\
  (forall j, S j = k' -> j < i -> sat msettled g j).
Definition nopull_between (g : list cnode) (k k' : nat) : Prop :=
  forall j c, k <= j -> S j < k' -> nth_opt g j = Some c -> pulls c = false.

Lemma sinv_step k k' i g vis :
  k < k' -> forward g -> nopull_between g k k' -> (forall p, p < i -> memn p vis = true) ->
  SInv k k' i g -> forall g' ch, avail_node g vis i = (g', ch) -> SInv k k' (S i) g'.
Proof.
  intros Lk F NP V [I1 [I2 I3]] g' ch H.
  destruct (nth_opt g i) as [c|] eqn:E.
  2:{ unfold avail_node, getn in H. rewrite E in H. inversion H; subst g'. split; [|split].
      - intros j Hj Hd d Ed. destruct (Nat.eq_dec j i) as [->|Nj]; [congruence|].
        destruct Hd as [Hd|Hd]; [apply (I1 j Hj); [left; lia|exact Ed]|apply (I1 j Hj (or_intror Hd) d Ed)].
      - intros j Hj Hi. apply I2; [exact Hj|lia].
      - intros j Hj Hi d Ed. destruct (Nat.eq_dec j i) as [->|Nj]; [congruence|].
        apply (I3 j Hj); [lia|exact Ed]. }
  destruct (node_step g vis i c F E V) as [g1 [ch1 [c' [H1 [N [O [MS [NPs [MSs SS]]]]]]]]].
  rewrite H1 in H. inversion H; subst g1 ch1. clear H.
  assert (K : forall j d, j < i -> nth_opt g' j = Some d ->
                nth_opt g j = Some d /\ (forall p, In p (prevs d) -> nth_opt g p = nth_opt g' p)).
  { intros j d Hj Ed. rewrite (O j) in Ed by lia. split; [exact Ed|].
    intros p Hp. pose proof (F j d Ed p Hp). symmetry. apply O. lia. }
  (* a node that was settled is not changed *)
  assert (FZ : S i < k -> g' = g).
  { intros Si. assert (Hk : S i < k') by lia. apply (SS (I1 i Hk (or_intror Si) c E)). }
  split; [|split].
  - intros j Hj Hd d Ed.
    destruct (Nat.lt_trichotomy j i) as [L|[Eji|L]].
    + destruct (K j d L Ed) as [Ed0 Kp]. apply (settled_keep g g' d Kp).
      apply (I1 j Hj (or_introl L) d Ed0).
    + subst j. rewrite N in Ed. inversion Ed; subst d.
      destruct (Nat.lt_ge_cases (S i) k) as [L1|L1].
      * pose proof (FZ L1) as Eg. rewrite Eg in N |- *. rewrite E in N. inversion N; subst c'.
        apply (I1 i Hj (or_intror L1) c E).
      * destruct (Nat.eq_dec (S i) k) as [L2|L2].
        -- apply MSs. apply (I2 i L2 (le_n _) c E).
        -- apply NPs. apply (NP i c); [lia|exact Hj|exact E].
    + destruct Hd as [Hd|Hd]; [lia|].
      assert (Si : S i < k) by lia. pose proof (FZ Si) as Eg. rewrite Eg in Ed |- *.
      apply (I1 j Hj (or_intror Hd) d Ed).
  - intros j Hj Hi d Ed.
    assert (Si : S i < k) by lia. pose proof (FZ Si) as Eg. rewrite Eg in Ed |- *.
    apply (I2 j Hj); [lia|exact Ed].
  - intros j Hj Hi d Ed. destruct (Nat.eq_dec j i) as [Eji|Nj].
    + subst j. rewrite N in Ed. inversion Ed; subst d. exact MS.
    + assert (L : j < i) by lia. destruct (K j d L Ed) as [Ed0 Kp]. apply (msettled_keep g g' d Kp).
      apply (I3 j Hj L d Ed0).
Qed.

Lemma forward_frame g g' : Forall2 frameR g g' -> forward g -> forward g'.
Proof.
  intros R F i d Ed p Hp. destruct (Forall2_nth_r _ _ _ _ _ R Ed) as [c [Ec Q]].
  destruct Q as [_ [_ [_ [_ [Q _]]]]]. apply (F i c Ec p). rewrite Q. exact Hp.
Qed.

Lemma pulls_frame c d : frameR c d -> pulls c = pulls d.
Proof. intros [Q _]. unfold pulls. rewrite Q. reflexivity. Qed.

Lemma nopull_frame g g' k k' : Forall2 frameR g g' -> nopull_between g k k' -> nopull_between g' k k'.
Proof.
  intros R NP j d H1 H2 Ed. destruct (Forall2_nth_r _ _ _ _ _ R Ed) as [c [Ec Q]].
  rewrite <- (pulls_frame c d Q). apply (NP j c H1 H2 Ec).
Qed.

Lemma sinv_sweep k k' : k < k' -> forall m i g vis ch g' vis' ch',
  forward g -> nopull_between g k k' -> (forall p, p < i -> memn p vis = true) -> SInv k k' i g ->
  avail_sweep (seq i m) g vis ch = (g', vis', ch') -> SInv k k' (i + m) g'.
Proof.
  intros Lk. induction m as [|m IH]; intros i g vis ch g' vis' ch' F NP V I H; cbn [seq avail_sweep] in H.
  - inversion H; subst. rewrite Nat.add_0_r. exact I.
  - destruct (avail_node g vis i) as [g1 c1] eqn:E.
    pose proof (avail_node_frame _ _ _ _ _ E) as FR.
    rewrite Nat.add_succ_r. change (S (i + m)) with (S i + m).
    refine (IH (S i) g1 (ins i vis) _ g' vis' ch' (forward_frame g g1 FR F) (nopull_frame g g1 k k' FR NP) _ _ H).
    + intros p Hp. rewrite memn_ins. destruct (Nat.eqb p i) eqn:Ep; [reflexivity|].
      apply Nat.eqb_neq in Ep. cbn [orb]. apply V. lia.
    + apply (sinv_step k k' i g vis Lk F NP V I g1 c1 E).
Qed.

(* a sweep over settled nodes that have all been visited changes nothing *)
Lemma settled_sweep g : forward g -> (forall j c, nth_opt g j = Some c -> settled g c) ->
  forall idx vis, (forall p, p < length g -> memn p vis = true) -> (forall i, In i idx -> i < length g) ->
  exists vis', avail_sweep idx g vis false = (g, vis', false).
Proof.
  intros F S. induction idx as [|a idx IH]; intros vis V B; cbn [avail_sweep]; [eexists; reflexivity|].
  assert (La : a < length g) by (apply B; left; reflexivity).
  destruct (nth_opt_lt_some g a La) as [c E].
  destruct (node_step g vis a c F E) as [g1 [ch1 [c' [H1 [_ [_ [_ [_ [_ SS]]]]]]]]].
  { intros p Hp. apply V. lia. }
  destruct (SS (S a c E)) as [Eg Ec]. subst g1 ch1. rewrite H1, (V a La). cbn [orb negb].
  apply IH.
  - intros p Hp. rewrite memn_ins, (V p Hp). apply orb_true_r.
  - intros i Hi. apply B. right. exact Hi.
Qed.

(* ---------------------------------------------------------------------------------- *)
(* the loop                                                                             *)

(* the loads at the indices >= k *)
Definition cntp (g : list cnode) (k : nat) : nat := length (filter pulls (skipn k g)).

Lemma advance g : forall k, exists k',
  k < k' /\ nopull_between g k k' /\ (length g < k' \/ S (cntp g k') <= cntp g k).
Proof.
  induction g as [|c r IH]; intros k.
  - exists (S k). split; [lia|]. split.
    + intros j d _ _ Ed. rewrite nth_opt_nil in Ed. discriminate.
    + left. cbn [length]. lia.
  - destruct k as [|k].
    + destruct (pulls c) eqn:P.
      * exists 1. split; [lia|]. split; [intros j d H1 H2; lia|].
        right. unfold cntp. cbn [skipn filter]. rewrite P. cbn [length]. lia.
      * destruct (IH 0) as [k' [L [NP D]]]. exists (S k'). split; [lia|]. split.
        -- intros j d H1 H2 Ed. destruct j as [|j]; cbn [nth_opt] in Ed.
           ++ inversion Ed; subst d. exact P.
           ++ apply (NP j d); [lia|lia|exact Ed].
        -- unfold cntp in *. cbn [skipn filter length] in *. rewrite P.
           destruct D as [D|D]; [left; lia|right; exact D].
    + destruct (IH k) as [k' [L [NP D]]]. exists (S k'). split; [lia|]. split.
      * intros j d H1 H2 Ed. destruct j as [|j]; [lia|]. cbn [nth_opt] in Ed.
        apply (NP j d); [lia|lia|exact Ed].
      * unfold cntp in *. cbn [skipn length] in *. destruct D as [D|D]; [left; lia|right; exact D].
Qed.

Lemma cntp_frame g g' : Forall2 frameR g g' -> forall k, cntp g k = cntp g' k.
Proof.
  induction 1 as [|x y l l' Q R IH]; intros k; [reflexivity|].
  destruct k as [|k]; unfold cntp in *; cbn [skipn filter].
  - rewrite (pulls_frame x y Q). specialize (IH 0). cbn [skipn] in IH.
    destruct (pulls y); cbn [length]; rewrite IH; reflexivity.
  - apply IH.
Qed.

Lemma cntp_le g : forall k, cntp g k <= length g.
Proof.
  induction g as [|c r IH]; intros k; unfold cntp in *.
  - destruct k; cbn; lia.
  - destruct k as [|k]; cbn [skipn filter length].
    + specialize (IH 0). cbn [skipn] in IH. destruct (pulls c); cbn [length]; lia.
    + specialize (IH k). lia.
Qed.

(* one sweep of the loop moves the invariant past the next load *)
Lemma sweep_advance k g vis g1 v1 ch :
  forward g -> Inv k g -> avail_sweep (seq 0 (length g)) g vis false = (g1, v1, ch) ->
  forward g1 /\ (forall p, p < length g1 -> memn p v1 = true) /\
  exists k', Inv k' g1 /\
    ((forall j c, nth_opt g1 j = Some c -> settled g1 c) \/ S (cntp g1 k') <= cntp g k).
Proof.
  intros F [J1 J2] E1.
  pose proof (avail_sweep_frame _ _ _ _ _ _ _ E1) as FR. pose proof (F2_length FR) as L1.
  split; [apply (forward_frame g g1 FR F)|]. split.
  { intros p Hp. rewrite (avail_sweep_vis _ _ _ _ _ _ _ E1 p), memn_seq.
    apply orb_true_iff. left. apply andb_true_iff. split; [apply Nat.leb_le; lia|apply Nat.ltb_lt; lia]. }
  destruct (advance g k) as [k' [Lk [NP D]]].
  assert (I0 : SInv k k' 0 g).
  { split; [|split].
    - intros j Hj [Hd|Hd]; [lia|]. apply (J1 j Hd).
    - intros j Hj _. apply (J2 j Hj).
    - intros j _ Hd. lia. }
  pose proof (sinv_sweep k k' Lk (length g) 0 g vis false g1 v1 ch F NP ltac:(intros p Hp; lia) I0 E1)
    as [S1 [_ S3]].
  cbn [Nat.add] in S1, S3.
  assert (I1 : Inv k' g1).
  { split.
    - intros j Hj c Ec. apply (S1 j Hj); [|exact Ec]. left. apply nth_opt_some_lt in Ec. lia.
    - intros j Hj c Ec. apply (S3 j Hj); [|exact Ec]. apply nth_opt_some_lt in Ec. lia. }
  exists k'. split; [exact I1|]. destruct D as [D|D].
  - left. intros j c Ec. destruct I1 as [I1 _]. apply (I1 j); [|exact Ec].
    apply nth_opt_some_lt in Ec. lia.
  - right. rewrite <- (cntp_frame g g1 FR k'). exact D.
Qed.

Lemma loop_inv : forall m k g vis F,
  forward g -> Inv k g -> cntp g k <= m -> S (S m) <= F -> exists g', avail_loop F g vis = Ok g'.
Proof.
  induction m as [|m IH]; intros k g vis F Fw I C LF;
    (destruct F as [|F]; [lia|]); cbn [avail_loop];
    destruct (avail_sweep (seq 0 (length g)) g vis false) as [[g1 v1] ch] eqn:E1;
    (destruct ch; [|eexists; reflexivity]);
    destruct (sweep_advance k g vis g1 v1 true Fw I E1) as [Fw1 [V1 [k' [I1 D]]]];
    (destruct D as [D|D];
     [ destruct F as [|F]; [lia|]; cbn [avail_loop];
       destruct (settled_sweep g1 Fw1 D (seq 0 (length g1)) v1 V1) as [v2 E2];
       [intros i Hi; apply in_seq in Hi; lia|rewrite E2; eexists; reflexivity] | ]).
  - lia.
  - apply (IH k' g1 v1 F Fw1 I1); lia.
Qed.

Lemma count_pulls_le g : count_pulls g <= length g.
Proof. apply (cntp_le g 0). Qed.

(* ---------------------------------------------------------------------------------- *)
(* the theorems                                                                         *)

(* on a forward graph the loop returns within (number of loads) + 2 sweeps, whatever facts the nodes hold *)
Theorem forward_sweeps : forall fuel g,
  forward g -> exists g', avail_loop (S (S (count_pulls g)) + fuel) g [] = Ok g'.
Proof.
  intros fuel g Fw. apply (loop_inv (count_pulls g) 0 g [] _ Fw).
  - split; intros j Hj; lia.
  - unfold cntp, count_pulls. cbn [skipn]. lia.
  - lia.
Qed.

Lemma no_loads_count g :
  (forall i c, nth_opt g i = Some c -> reads_from_memory (cn c) = None) -> count_pulls g = 0.
Proof.
  unfold count_pulls. induction g as [|c r IH]; intros H; [reflexivity|]. cbn [filter].
  assert (P : pulls c = false) by (unfold pulls; rewrite (H 0 c eq_refl); reflexivity).
  rewrite P. apply IH. intros i d Ed. apply (H (S i) d Ed).
Qed.

(* without loads: two sweeps *)
Theorem forward_two_sweeps_noload : forall fuel g,
  forward g -> (forall i c, nth_opt g i = Some c -> reads_from_memory (cn c) = None) ->
  exists g', avail_loop (S (S fuel)) g [] = Ok g'.
Proof.
  intros fuel g Fw NL. destruct (forward_sweeps fuel g Fw) as [g' H].
  rewrite (no_loads_count g NL) in H. exists g'. exact H.
Qed.

Theorem forward_length_sweeps : forall fuel g,
  forward g -> exists g', avail_loop (S (S (length g)) + fuel) g [] = Ok g'.
Proof.
  intros fuel g Fw. apply (loop_inv (count_pulls g) 0 g [] _ Fw).
  - split; intros j Hj; lia.
  - unfold cntp, count_pulls. cbn [skipn]. lia.
  - pose proof (count_pulls_le g). lia.
Qed.

(* the pass returns on forward graphs (its fuel 40 * length + 64 is more than length + 2), and by
   avail_fix_full its result satisfies the equations *)
Theorem forward_avail_pass_eqns : forall g,
  forward (gnodes g) -> exists g', avail_pass g = Ok g' /\ AvailEqns g'.
Proof.
  intros g Fw.
  destruct (loop_inv (count_pulls (gnodes g)) 0 (gnodes g) [] (avail_fuel g) Fw) as [ns H].
  - split; intros j Hj; lia.
  - unfold cntp, count_pulls. cbn [skipn]. lia.
  - pose proof (count_pulls_le (gnodes g)). unfold avail_fuel. lia.
  - assert (P : avail_pass g = Ok (mkcfg ns (gfuncs g) (glabelfn g))).
    { unfold avail_pass. rewrite H. reflexivity. }
    eexists. split; [exact P|]. apply (avail_fix_full g _ P).
Qed.

(* ---------------------------------------------------------------------------------- *)
(* "two sweeps on every forward graph" is false                                          *)

Definition fwd_w {A} (a : A) : wth A := mkw a tok_default.
Definition fwd_nd (n : pnode) (nx pv : list nat) : cnode := mkcn n [] true nx pv [] [] [] [] [] 0%N 0%N 0%N.
(* 0: ProgramEntry, 1: `li a0, 5`, 2: `csrr t0, mscratch`, 3: `sw a0, 0(t0)`, 4: `lw t1, 0(t0)`,
   5: `sw t1, 4(t0)`, 6: `lw t2, 4(t0)`; straight-line, all facts empty *)
Definition fwd_chain : list cnode :=
  [ fwd_nd (PProgramEntry (Some 0%N) raw_default) [1] [];
    fwd_nd (PIArith (fwd_w IAddi) (fwd_w 10%N) (fwd_w 0%N) (fwd_w 5%Z) raw_default) [2] [0];
    fwd_nd (PCsr (fwd_w ICsrrs) (fwd_w 5%N) (fwd_w 832%Z) (fwd_w 0%N) raw_default) [3] [1];
    fwd_nd (PStore (fwd_w ISw) (fwd_w 5%N) (fwd_w 10%N) (fwd_w 0%Z) raw_default) [4] [2];
    fwd_nd (PLoad (fwd_w ILw) (fwd_w 6%N) (fwd_w 5%N) (fwd_w 0%Z) raw_default) [5] [3];
    fwd_nd (PStore (fwd_w ISw) (fwd_w 5%N) (fwd_w 6%N) (fwd_w 4%Z) raw_default) [6] [4];
    fwd_nd (PLoad (fwd_w ILw) (fwd_w 7%N) (fwd_w 5%N) (fwd_w 4%Z) raw_default) [] [5] ].
Definition fwd_chain5 : list cnode := firstn 5 fwd_chain.

Lemma nth_opt_firstn {A} (g : list A) : forall i n c, nth_opt (firstn n g) i = Some c -> nth_opt g i = Some c.
Proof.
  induction g as [|x g IH]; intros i n c E.
  - rewrite firstn_nil, nth_opt_nil in E. discriminate.
  - destruct n as [|n]; [cbn [firstn] in E; rewrite nth_opt_nil in E; discriminate|].
    destruct i as [|i]; cbn [firstn nth_opt] in *; [exact E|]. apply (IH i n c E).
Qed.

Lemma forward_firstn n g : forward g -> forward (firstn n g).
Proof. intros F i c E. apply (F i c). apply (nth_opt_firstn g i n c E). Qed.

Lemma fwd_chain_forward : forward fwd_chain.
Proof.
  intros i c E p Hp.
  do 7 (destruct i as [|i]; [cbn in E; inversion E; subst c; cbn in Hp; intuition lia|]).
  cbn in E. discriminate.
Qed.

Theorem forward_two_sweeps_false :
  ~ (forall fuel g, forward g -> exists g', avail_loop (S (S fuel)) g [] = Ok g').
Proof.
  intros H. destruct (H 0 fwd_chain5 (forward_firstn 5 fwd_chain fwd_chain_forward)) as [g' E].
  vm_compute in E. discriminate E.
Qed.
