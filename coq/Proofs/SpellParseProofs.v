(* C13, parser part: the parser ignores comments and blank lines.
   Statements: [parse_one_same_code] (one statement), [drive_same_code] (the driver, any include stack),
   [drive_squeeze], [parse_text_squeeze] (corollaries).  Definitions in Spec/SpellParseSpec.v. *)
From RV.Model Require Import Base I32 Imm Lexer Isa Parser Reader.
From RV.Spec Require Import LineSpec ParamSpec SpellParseSpec.
From RV.Proofs Require Import LexProofs LineProofs TotalProofs.
From Coq Require Import Lia.
Open Scope nat_scope.

(* ================================================================================== *)
(* Part A: item lists.                                                                  *)

Lemma comment_not_nl x : is_comment_item x = true -> is_nl_item x = false.
Proof. destruct x as [t| |]; cbn; try discriminate. destruct (tt t); try discriminate; reflexivity. Qed.

Lemma nl_not_comment x : is_nl_item x = true -> is_comment_item x = false.
Proof. destruct x as [t| |]; cbn; try discriminate. destruct (tt t); try discriminate; reflexivity. Qed.

Lemma blank_nl x : is_nl_item x = true -> blank_item x = true.
Proof. intros H. unfold blank_item. rewrite H. reflexivity. Qed.

Lemma blank_comment x : is_comment_item x = true -> blank_item x = true.
Proof. intros H. unfold blank_item. rewrite H. apply orb_true_r. Qed.

Lemma plain_not_nl x : blank_item x = false -> is_nl_item x = false.
Proof. unfold blank_item. intros H. apply orb_false_iff in H. tauto. Qed.

Lemma plain_not_comment x : blank_item x = false -> is_comment_item x = false.
Proof. unfold blank_item. intros H. apply orb_false_iff in H. tauto. Qed.

Lemma blank_cases x : blank_item x = true ->
  (is_nl_item x = true /\ is_comment_item x = false) \/ (is_nl_item x = false /\ is_comment_item x = true).
Proof.
  unfold blank_item. intros H. destruct (is_nl_item x) eqn:En.
  - left. split; [reflexivity|apply nl_not_comment; exact En].
  - right. split; [reflexivity|exact H].
Qed.

Lemma blank_is_tok x : blank_item x = true -> exists t, x = LTok t.
Proof. destruct x as [t| |]; cbn; try discriminate. eauto. Qed.

Lemma drop_nl_idem l : drop_nl (drop_nl l) = drop_nl l.
Proof.
  induction l as [|x l IH]; [reflexivity|]. cbn [drop_nl]. destruct (is_nl_item x) eqn:E; [exact IH|].
  cbn [drop_nl]. rewrite E. reflexivity.
Qed.

Lemma squeeze_cons x l :
  squeeze (x :: l) = if is_comment_item x then squeeze l
                     else if is_nl_item x then x :: canon l else x :: squeeze l.
Proof.
  unfold canon, squeeze, drop_comments. cbn [filter]. destruct (is_comment_item x); cbn [negb]; [reflexivity|].
  cbn [collapse_nl]. destruct (is_nl_item x); reflexivity.
Qed.

Lemma canon_cons x l : canon (x :: l) = if blank_item x then canon l else x :: squeeze l.
Proof.
  unfold canon at 1. rewrite squeeze_cons. unfold blank_item.
  destruct (is_comment_item x) eqn:Ec.
  - rewrite orb_true_r. reflexivity.
  - rewrite orb_false_r. destruct (is_nl_item x) eqn:En; cbn [drop_nl]; rewrite En; [|reflexivity].
    unfold canon. apply drop_nl_idem.
Qed.

Lemma squeeze_plain x l : blank_item x = false -> squeeze (x :: l) = x :: squeeze l.
Proof. intros H. rewrite squeeze_cons, (plain_not_comment x H), (plain_not_nl x H). reflexivity. Qed.

Lemma canon_plain x l : blank_item x = false -> canon (x :: l) = x :: squeeze l.
Proof. intros H. rewrite canon_cons, H. reflexivity. Qed.

Lemma canon_blank x l : blank_item x = true -> canon (x :: l) = canon l.
Proof. intros H. rewrite canon_cons, H. reflexivity. Qed.

Lemma seq_same_code l1 l2 : squeeze l1 = squeeze l2 -> same_code l1 l2.
Proof. unfold same_code, canon. intros ->. reflexivity. Qed.

Lemma cel_tail x l : comments_end_lines (x :: l) = true -> comments_end_lines l = true.
Proof. cbn [comments_end_lines]. intros H. apply andb_true_iff in H. tauto. Qed.

Lemma cel_comment x l : comments_end_lines (x :: l) = true -> is_comment_item x = true ->
  exists y l', l = y :: l' /\ is_nl_item y = true.
Proof.
  cbn [comments_end_lines]. intros H Hc. rewrite Hc in H. apply andb_true_iff in H. destruct H as [H _].
  destruct l as [|y l']; [discriminate|]. eauto.
Qed.

(* a list that starts with layout squeezes to a newline followed by the canonical rest *)
Lemma squeeze_blank s l : blank_item s = true -> comments_end_lines (s :: l) = true ->
  exists n, is_nl_item n = true /\ squeeze (s :: l) = n :: canon l.
Proof.
  intros Hb Hc. destruct (blank_cases s Hb) as [[Hn Hcm]|[Hn Hcm]].
  - exists s. split; [exact Hn|]. rewrite squeeze_cons, Hcm, Hn. reflexivity.
  - destruct (cel_comment s l Hc Hcm) as [y [l' [-> Hy]]]. exists y. split; [exact Hy|].
    rewrite squeeze_cons, Hcm, squeeze_cons, (nl_not_comment y Hy), Hy.
    rewrite (canon_blank y l' (blank_nl y Hy)). reflexivity.
Qed.

Lemma seq_cases l1 l2 :
  squeeze l1 = squeeze l2 -> comments_end_lines l1 = true -> comments_end_lines l2 = true ->
  (l1 = [] /\ l2 = []) \/
  (exists x l1' l2', l1 = x :: l1' /\ l2 = x :: l2' /\ blank_item x = false /\ squeeze l1' = squeeze l2') \/
  (exists s1 l1' s2 l2', l1 = s1 :: l1' /\ l2 = s2 :: l2' /\ blank_item s1 = true /\ blank_item s2 = true /\
                         same_code l1' l2').
Proof.
  intros Hs H1 H2. destruct l1 as [|x1 l1']; destruct l2 as [|x2 l2'].
  - left. split; reflexivity.
  - exfalso. destruct (blank_item x2) eqn:B2.
    + destruct (squeeze_blank x2 l2' B2 H2) as [n [_ Hn]]. rewrite Hn in Hs. discriminate.
    + rewrite (squeeze_plain x2 l2' B2) in Hs. discriminate.
  - exfalso. destruct (blank_item x1) eqn:B1.
    + destruct (squeeze_blank x1 l1' B1 H1) as [n [_ Hn]]. rewrite Hn in Hs. discriminate.
    + rewrite (squeeze_plain x1 l1' B1) in Hs. discriminate.
  - right. destruct (blank_item x1) eqn:B1; destruct (blank_item x2) eqn:B2.
    + right. exists x1, l1', x2, l2'. repeat split; try assumption.
      destruct (squeeze_blank x1 l1' B1 H1) as [n1 [_ Hn1]]. destruct (squeeze_blank x2 l2' B2 H2) as [n2 [_ Hn2]].
      rewrite Hn1, Hn2 in Hs. inversion Hs. assumption.
    + exfalso. destruct (squeeze_blank x1 l1' B1 H1) as [n1 [Hnl Hn1]].
      rewrite Hn1, (squeeze_plain x2 l2' B2) in Hs. inversion Hs; subst.
      rewrite (blank_nl x2 Hnl) in B2. discriminate.
    + exfalso. destruct (squeeze_blank x2 l2' B2 H2) as [n2 [Hnl Hn2]].
      rewrite Hn2, (squeeze_plain x1 l1' B1) in Hs. inversion Hs; subst.
      rewrite (blank_nl n2 Hnl) in B1. discriminate.
    + left. rewrite (squeeze_plain x1 l1' B1), (squeeze_plain x2 l2' B2) in Hs. inversion Hs; subst.
      exists x2, l1', l2'. repeat split; assumption.
Qed.

Lemma same_code_cases l1 l2 : same_code l1 l2 ->
  (exists s l1', l1 = s :: l1' /\ blank_item s = true /\ same_code l1' l2) \/
  (exists s l2', l2 = s :: l2' /\ blank_item s = true /\ same_code l1 l2') \/
  (l1 = [] /\ l2 = []) \/
  (exists x l1' l2', l1 = x :: l1' /\ l2 = x :: l2' /\ blank_item x = false /\ squeeze l1' = squeeze l2').
Proof.
  unfold same_code. intros Hs. destruct l1 as [|x1 l1'].
  - destruct l2 as [|x2 l2']; [right; right; left; split; reflexivity|].
    destruct (blank_item x2) eqn:B2.
    + right. left. exists x2, l2'. rewrite (canon_blank x2 l2' B2) in Hs. auto.
    + rewrite (canon_plain x2 l2' B2) in Hs. discriminate.
  - destruct (blank_item x1) eqn:B1.
    + left. exists x1, l1'. rewrite (canon_blank x1 l1' B1) in Hs. auto.
    + destruct l2 as [|x2 l2'].
      * rewrite (canon_plain x1 l1' B1) in Hs. discriminate.
      * destruct (blank_item x2) eqn:B2.
        -- right. left. exists x2, l2'. rewrite (canon_blank x2 l2' B2) in Hs. auto.
        -- right. right. right. rewrite (canon_plain x1 l1' B1), (canon_plain x2 l2' B2) in Hs.
           inversion Hs; subst. exists x2, l1', l2'. auto.
Qed.

(* error recovery *)
Lemma recover_nl x l : is_nl_item x = true -> recover (x :: l) = l.
Proof.
  destruct x as [t| |]; cbn [is_nl_item recover]; try discriminate. destruct (tt t); try discriminate. reflexivity.
Qed.

Lemma recover_blank s l : blank_item s = true -> comments_end_lines (s :: l) = true ->
  canon (recover (s :: l)) = canon l.
Proof.
  intros Hb Hc. destruct (blank_cases s Hb) as [[Hn Hcm]|[Hn Hcm]].
  - rewrite (recover_nl s l Hn). reflexivity.
  - destruct (cel_comment s l Hc Hcm) as [y [l' [-> Hy]]].
    rewrite (recover_skip s (y :: l') Hn), (recover_nl y l' Hy), (canon_blank y l' (blank_nl y Hy)). reflexivity.
Qed.

Lemma seq_recover : forall l1 l2,
  squeeze l1 = squeeze l2 -> comments_end_lines l1 = true -> comments_end_lines l2 = true ->
  same_code (recover l1) (recover l2).
Proof.
  induction l1 as [|x l1 IH]; intros l2 Hs H1 H2;
    destruct (seq_cases _ _ Hs H1 H2) as [[E1 E2]|[[y [l1' [l2' [E1 [E2 [Hb Hs']]]]]]|[s1 [l1' [s2 [l2' [E1 [E2 [B1 [B2 Hc]]]]]]]]]];
    try discriminate.
  - subst. reflexivity.
  - inversion E1; subst. rewrite (recover_skip y l1' (plain_not_nl y Hb)), (recover_skip y l2' (plain_not_nl y Hb)).
    apply IH; [exact Hs'|apply (cel_tail y); exact H1|apply (cel_tail y); exact H2].
  - inversion E1; subst. unfold same_code. rewrite (recover_blank s1 l1' B1 H1), (recover_blank s2 l2' B2 H2). exact Hc.
Qed.

(* the side conditions are inherited by what is left *)
Lemma data_ok_tail x l : data_ok (x :: l) = true -> data_ok l = true.
Proof. cbn [data_ok]. intros H. apply andb_true_iff in H. tauto. Qed.

Lemma code_ok_tail x l : code_ok (x :: l) = true -> code_ok l = true.
Proof.
  unfold code_ok. intros H. apply andb_true_iff in H. destruct H as [H1 H2].
  rewrite (cel_tail x l H1), (data_ok_tail x l H2). reflexivity.
Qed.

Lemma code_ok_suffix d l : code_ok (d ++ l) = true -> code_ok l = true.
Proof. induction d as [|x d IH]; intros H; [exact H|]. apply IH. apply (code_ok_tail x). exact H. Qed.

Lemma code_ok_recover l : code_ok l = true -> code_ok (recover l) = true.
Proof. intros H. destruct (recover_suffix l) as [d Hd]. rewrite Hd in H. apply (code_ok_suffix d). exact H. Qed.

Lemma code_ok_cel l : code_ok l = true -> comments_end_lines l = true.
Proof. unfold code_ok. intros H. apply andb_true_iff in H. tauto. Qed.

Lemma code_ok_data l : code_ok l = true -> data_ok l = true.
Proof. unfold code_ok. intros H. apply andb_true_iff in H. tauto. Qed.

(* ================================================================================== *)
(* Part B: what the driver does with the outcome of one statement, and when two outcomes *)
(* are the same up to locations.                                                         *)

Inductive action :=
| APop                                                                   (* end of the file on top *)
| ACont (top : list lexitem) (ns : list pnode) (es : list parse_error)   (* go on with [top], having pushed ns, es *)
| ANode (n : pnode) (rest : list lexitem).                               (* a node: kept, or an include to follow *)

Definition act (x : lexerr + pnode) (rest : list lexitem) : action :=
  match x with
  | inr n => ANode n rest
  | inl e =>
      match e with
      | EExpected ex got => ACont (if is_newline_tok got then rest else recover rest) [] [PEExpected ex got]
      | EIsNewline _ => ACont rest [] []
      | EUnexpectedToken got => ACont (recover rest) [] [PEUnexpectedToken got]
      | EUnexpectedEOF => APop
      | ENeedTwoNodes n1 n2 => ACont rest [n2; n1] []
      | EUnexpectedError t => ACont (recover rest) [] [PEUnexpectedError t]
      | EUnknownDirective t => ACont (recover rest) [] [PEUnknownDirective t]
      | EIgnoredWithWarning t | EUnsupportedDirective t => ACont (recover rest) [] [PEUnsupported t]
      | EIgnoredWithoutWarning => ACont rest [] []
      | EInvalidString t p k => ACont (recover rest) [] [PEInvalidString t p k]
      end
  end.

Definition drive_node (f : nat) (chk : bool) (fs : store) (ign : bool) (n : pnode) (rest : list lexitem)
           (below : list (list lexitem)) (rs : rstate) (nodes : list pnode) (errs : list parse_error) :=
  match (if ign then None else include_path n) with
  | Some path =>
      match import_file fs (wv path) rs with
      | (inr (id, text), rs') =>
          do items <- lex_all chk (Some id) (normalize_text text);
          drive f chk fs ign (items :: rest :: below) rs' nodes errs
      | (inl e, rs') => drive f chk fs ign (rest :: below) rs' nodes (to_parse_error e path :: errs)
      end
  | None => drive f chk fs ign (rest :: below) rs (n :: nodes) errs
  end.

Lemma drive_step f chk fs ign top below rs nodes errs :
  drive (S f) chk fs ign (top :: below) rs nodes errs =
  do r <- parse_one top;
  match act (fst r) (snd r) with
  | APop => drive f chk fs ign below rs nodes errs
  | ACont t ns es => drive f chk fs ign (t :: below) rs (ns ++ nodes) (es ++ errs)
  | ANode n rest => drive_node f chk fs ign n rest below rs nodes errs
  end.
Proof.
  cbn [drive]. destruct (parse_one top) as [[x rest]| |]; cbn [bind]; try reflexivity.
  destruct x as [e|n]; [destruct e|]; reflexivity.
Qed.

Definition act_rel (a1 a2 : action) : Prop :=
  match a1, a2 with
  | APop, APop => True
  | ACont t1 ns1 es1, ACont t2 ns2 es2 =>
      same_items t1 t2 /\ map erase_node ns1 = map erase_node ns2 /\ map spell_err es1 = map spell_err es2
  | ANode n1 r1, ANode n2 r2 => erase_node n1 = erase_node n2 /\ same_items r1 r2
  | _, _ => False
  end.

Lemma act_rel_refl a : act_rel a a.
Proof. destruct a; cbn [act_rel]; repeat split; left; reflexivity. Qed.

(* the two item lists are at the same place of the same line *)
Definition insync (l1 l2 : list lexitem) : Prop :=
  squeeze l1 = squeeze l2 /\ code_ok l1 = true /\ code_ok l2 = true.

Lemma insync_items l1 l2 : insync l1 l2 -> same_items l1 l2.
Proof. intros [H [H1 H2]]. right. split; [apply seq_same_code; exact H|]. split; assumption. Qed.

Lemma insync_recover l1 l2 : insync l1 l2 -> same_items (recover l1) (recover l2).
Proof.
  intros [H [H1 H2]]. right. split; [apply seq_recover; [exact H|apply code_ok_cel; exact H1|apply code_ok_cel; exact H2]|].
  split; apply code_ok_recover; assumption.
Qed.

Definition RFin (r1 r2 : res ((lexerr + pnode) * pstate)) : Prop :=
  exists x1 st1 x2 st2, r1 = Ok (x1, st1) /\ r2 = Ok (x2, st2) /\ act_rel (act x1 (fst st1)) (act x2 (fst st2)).

Lemma rfin_ret n1 n2 st1 st2 : same_items (fst st1) (fst st2) -> erase_node n1 = erase_node n2 ->
  RFin (ret n1 st1) (ret n2 st2).
Proof. intros H Hn. exists (inr n1), st1, (inr n2), st2. split; [reflexivity|]. split; [reflexivity|]. split; assumption. Qed.

Lemma rfin_eof st1 st2 : RFin (Ok (inl EUnexpectedEOF, st1)) (Ok (inl EUnexpectedEOF, st2)).
Proof. exists (inl EUnexpectedEOF), st1, (inl EUnexpectedEOF), st2. split; [reflexivity|]. split; [reflexivity|exact I]. Qed.

Lemma rfin_two a1 b1 a2 b2 st1 st2 : same_items (fst st1) (fst st2) ->
  erase_node a1 = erase_node a2 -> erase_node b1 = erase_node b2 ->
  RFin (fail (ENeedTwoNodes a1 b1) st1) (fail (ENeedTwoNodes a2 b2) st2).
Proof.
  intros H Ha Hb. exists (inl (ENeedTwoNodes a1 b1)), st1, (inl (ENeedTwoNodes a2 b2)), st2.
  split; [reflexivity|]. split; [reflexivity|]. cbn [act act_rel map]. rewrite Ha, Hb. repeat split. exact H.
Qed.

(* an error after which the rest of the line is skipped *)
Lemma rfin_recover e p st1 st2 : insync (fst st1) (fst st2) ->
  (forall rest, act (inl e) rest = ACont (recover rest) [] [p]) ->
  RFin (fail e st1) (fail e st2).
Proof.
  intros H Ha. exists (inl e), st1, (inl e), st2. split; [reflexivity|]. split; [reflexivity|].
  rewrite !Ha. cbn [act_rel]. split; [apply insync_recover; exact H|]. split; reflexivity.
Qed.

Lemma rfin_expected ex t st1 st2 : insync (fst st1) (fst st2) -> is_newline_tok t = false ->
  RFin (fail (EExpected ex t) st1) (fail (EExpected ex t) st2).
Proof. intros H Ht. apply (rfin_recover _ (PEExpected ex t)); [exact H|]. intros rest. cbn [act]. rewrite Ht. reflexivity. Qed.

(* both runs have just read (or are looking at) the layout that ends the line *)
Definition poststop (s1 : token) (l1 : list lexitem) (s2 : token) (l2 : list lexitem) : Prop :=
  blank_item (LTok s1) = true /\ blank_item (LTok s2) = true /\ same_code l1 l2 /\
  code_ok (LTok s1 :: l1) = true /\ code_ok (LTok s2 :: l2) = true.

Lemma ps_items s1 l1 s2 l2 : poststop s1 l1 s2 l2 -> same_items l1 l2.
Proof.
  intros [_ [_ [H [H1 H2]]]]. right. split; [exact H|]. split; [apply (code_ok_tail (LTok s1)); exact H1|apply (code_ok_tail (LTok s2)); exact H2].
Qed.

Lemma next_blank s l : blank_item (LTok s) = true -> code_ok (LTok s :: l) = true ->
  canon (if is_newline_tok s then l else recover l) = canon l /\
  code_ok (if is_newline_tok s then l else recover l) = true.
Proof.
  intros Hb Hc. pose proof (code_ok_tail _ _ Hc) as Hl.
  destruct (blank_cases _ Hb) as [[Hn Hcm]|[Hn Hcm]]; change (is_nl_item (LTok s)) with (is_newline_tok s) in Hn; rewrite Hn.
  - split; [reflexivity|exact Hl].
  - destruct (cel_comment _ _ (code_ok_cel _ Hc) Hcm) as [y [l' [-> Hy]]].
    rewrite (recover_nl y l' Hy). split; [rewrite (canon_blank y l' (blank_nl y Hy)); reflexivity|].
    apply (code_ok_tail y). exact Hl.
Qed.

Lemma spell_blank s : blank_item (LTok s) = true -> erase_tok (norm_tok s) = mktok TNewline range0 None.
Proof.
  unfold blank_item, norm_tok, erase_tok. cbn [is_nl_item is_comment_item].
  destruct (tt s) eqn:E; cbn [orb]; try discriminate; intros _; cbn [tt]; try rewrite E; reflexivity.
Qed.

Lemma ps_expected ex s1 s2 st1 st2 : poststop s1 (fst st1) s2 (fst st2) ->
  RFin (fail (EExpected ex s1) st1) (fail (EExpected ex s2) st2).
Proof.
  intros [B1 [B2 [H [H1 H2]]]]. exists (inl (EExpected ex s1)), st1, (inl (EExpected ex s2)), st2.
  split; [reflexivity|]. split; [reflexivity|]. cbn [act act_rel].
  destruct (next_blank s1 _ B1 H1) as [C1 K1]. destruct (next_blank s2 _ B2 H2) as [C2 K2].
  split; [right; split; [unfold same_code; rewrite C1, C2; exact H|split; assumption]|].
  split; [reflexivity|]. cbn [map spell_err norm_err erase_perr]. rewrite (spell_blank s1 B1), (spell_blank s2 B2). reflexivity.
Qed.

(* layout tokens are no operands *)
Lemma blank_reg s : blank_item (LTok s) = true -> tok_reg s = None.
Proof. unfold blank_item, tok_reg. cbn [is_nl_item is_comment_item]. destruct (tt s); cbn [orb]; try discriminate; reflexivity. Qed.
Lemma blank_label s : blank_item (LTok s) = true -> tok_label s = None.
Proof. unfold blank_item, tok_label. cbn [is_nl_item is_comment_item]. destruct (tt s); cbn [orb]; try discriminate; reflexivity. Qed.
Lemma blank_string s : blank_item (LTok s) = true -> tok_string s = None.
Proof. unfold blank_item, tok_string. cbn [is_nl_item is_comment_item]. destruct (tt s); cbn [orb]; try discriminate; reflexivity. Qed.
Lemma blank_imm s : blank_item (LTok s) = true -> tok_imm s = Ok None.
Proof. unfold blank_item, tok_imm. cbn [is_nl_item is_comment_item]. destruct (tt s); cbn [orb]; try discriminate; reflexivity. Qed.
Lemma blank_csrimm s : blank_item (LTok s) = true -> tok_csrimm s = Ok None.
Proof. unfold blank_item, tok_csrimm. cbn [is_nl_item is_comment_item]. destruct (tt s); cbn [orb]; try discriminate; reflexivity. Qed.
Lemma blank_lparen s : blank_item (LTok s) = true -> is_lparen s = false.
Proof. unfold blank_item, is_lparen. cbn [is_nl_item is_comment_item]. destruct (tt s); cbn [orb]; try discriminate; reflexivity. Qed.
Lemma blank_rparen s : blank_item (LTok s) = true -> is_rparen s = false.
Proof. unfold blank_item, is_rparen. cbn [is_nl_item is_comment_item]. destruct (tt s); cbn [orb]; try discriminate; reflexivity. Qed.
Lemma plain_tok_nonl t : blank_item (LTok t) = false -> is_newline_tok t = false.
Proof. intros H. apply plain_not_nl in H. exact H. Qed.

Lemma item_error_recover it e : item_result it = inl e -> exists p, forall rest, act (inl e) rest = ACont (recover rest) [] [p].
Proof.
  destruct it as [t|t p k|t]; cbn [item_result]; intros H; inversion H; subst; eexists; intros rest; reflexivity.
Qed.

(* ---------------------------------------------------------------------------------- *)
(* relational rules for the parser monad                                                *)

Lemma get_any_rel (k : token -> P pnode) st1 st2 :
  insync (fst st1) (fst st2) ->
  (forall t st1' st2', blank_item (LTok t) = false -> insync (fst st1') (fst st2') -> RFin (k t st1') (k t st2')) ->
  (forall s1 s2 st1' st2', poststop s1 (fst st1') s2 (fst st2') -> RFin (k s1 st1') (k s2 st2')) ->
  RFin (pbind get_any k st1) (pbind get_any k st2).
Proof.
  intros [Hs [H1 H2]] Hk Hstop.
  destruct (seq_cases _ _ Hs (code_ok_cel _ H1) (code_ok_cel _ H2))
    as [[E1 E2]|[[x [l1' [l2' [E1 [E2 [Hb Hs']]]]]]|[s1 [l1' [s2 [l2' [E1 [E2 [B1 [B2 Hc]]]]]]]]]];
    unfold pbind, get_any; rewrite E1, E2.
  - apply rfin_eof.
  - rewrite E1 in H1. rewrite E2 in H2.
    assert (Hin : insync l1' l2').
    { split; [exact Hs'|]. split; [apply (code_ok_tail x); exact H1|apply (code_ok_tail x); exact H2]. }
    destruct (item_result x) as [e|t] eqn:Ex.
    + destruct (item_error_recover x e Ex) as [p Hp].
      apply (rfin_recover e p (l1', snd st1) (l2', snd st2) Hin Hp).
    + destruct x as [t'| |]; cbn [item_result] in Ex; inversion Ex; subst t'.
      apply Hk; [exact Hb|exact Hin].
  - destruct (blank_is_tok s1 B1) as [t1 ->]. destruct (blank_is_tok s2 B2) as [t2 ->]. cbn [item_result].
    apply Hstop. rewrite E1 in H1. rewrite E2 in H2. repeat split; assumption.
Qed.

(* get_reg, get_label, get_string *)
Lemma get_opt_rel {A} (f : token -> option (wth A)) ex (k : wth A -> P pnode) st1 st2 :
  (forall s, blank_item (LTok s) = true -> f s = None) ->
  insync (fst st1) (fst st2) ->
  (forall r st1' st2', insync (fst st1') (fst st2') -> RFin (k r st1') (k r st2')) ->
  RFin (pbind (pbind get_any (fun t => match f t with Some r => ret r | None => fail (EExpected ex t) end)) k st1)
       (pbind (pbind get_any (fun t => match f t with Some r => ret r | None => fail (EExpected ex t) end)) k st2).
Proof.
  intros Hf Hin Hk. rewrite !pbind_assoc. apply get_any_rel; [exact Hin| |].
  - intros t st1' st2' Hb Hin'. destruct (f t) as [r|].
    + apply (Hk r st1' st2' Hin').
    + apply (rfin_expected ex t st1' st2' Hin' (plain_tok_nonl t Hb)).
  - intros s1 s2 st1' st2' Hps. destruct Hps as [B1 [B2 Hrest]]. rewrite (Hf s1 B1), (Hf s2 B2).
    apply (ps_expected ex s1 s2 st1' st2'). split; [exact B1|split; [exact B2|exact Hrest]].
Qed.

(* get_imm, get_csrimm *)
Lemma get_res_rel (f : token -> res (option (wth Z))) ex (k : wth Z -> P pnode) st1 st2 :
  (forall t, exists o, f t = Ok o) ->
  (forall s, blank_item (LTok s) = true -> f s = Ok None) ->
  insync (fst st1) (fst st2) ->
  (forall r st1' st2', insync (fst st1') (fst st2') -> RFin (k r st1') (k r st2')) ->
  RFin (pbind (pbind get_any (fun t => pbind (lift_res (f t))
                 (fun r => match r with Some i => ret i | None => fail (EExpected ex t) end))) k st1)
       (pbind (pbind get_any (fun t => pbind (lift_res (f t))
                 (fun r => match r with Some i => ret i | None => fail (EExpected ex t) end))) k st2).
Proof.
  intros Htot Hf Hin Hk. rewrite !pbind_assoc. apply get_any_rel; [exact Hin| |].
  - intros t st1' st2' Hb Hin'. destruct (Htot t) as [o Ho]. unfold pbind, lift_res. rewrite Ho.
    destruct o as [r|].
    + apply (Hk r st1' st2' Hin').
    + apply (rfin_expected ex t st1' st2' Hin' (plain_tok_nonl t Hb)).
  - intros s1 s2 st1' st2' Hps. destruct Hps as [B1 [B2 Hrest]].
    unfold pbind, lift_res. rewrite (Hf s1 B1), (Hf s2 B2).
    apply (ps_expected ex s1 s2 st1' st2'). split; [exact B1|split; [exact B2|exact Hrest]].
Qed.

Lemma get_reg_rel (k : wth reg -> P pnode) st1 st2 :
  insync (fst st1) (fst st2) ->
  (forall r st1' st2', insync (fst st1') (fst st2') -> RFin (k r st1') (k r st2')) ->
  RFin (pbind get_reg k st1) (pbind get_reg k st2).
Proof. intros Hin Hk. apply (get_opt_rel tok_reg [XRegister] k st1 st2 blank_reg Hin Hk). Qed.

Lemma get_label_rel (k : wth str -> P pnode) st1 st2 :
  insync (fst st1) (fst st2) ->
  (forall r st1' st2', insync (fst st1') (fst st2') -> RFin (k r st1') (k r st2')) ->
  RFin (pbind get_label k st1) (pbind get_label k st2).
Proof. intros Hin Hk. apply (get_opt_rel tok_label [XLabel] k st1 st2 blank_label Hin Hk). Qed.

Lemma get_string_rel (k : wth str -> P pnode) st1 st2 :
  insync (fst st1) (fst st2) ->
  (forall r st1' st2', insync (fst st1') (fst st2') -> RFin (k r st1') (k r st2')) ->
  RFin (pbind get_string k st1) (pbind get_string k st2).
Proof. intros Hin Hk. apply (get_opt_rel tok_string [XString] k st1 st2 blank_string Hin Hk). Qed.

Lemma get_imm_rel (k : wth Z -> P pnode) st1 st2 :
  insync (fst st1) (fst st2) ->
  (forall r st1' st2', insync (fst st1') (fst st2') -> RFin (k r st1') (k r st2')) ->
  RFin (pbind get_imm k st1) (pbind get_imm k st2).
Proof. intros Hin Hk. apply (get_res_rel tok_imm [XImm] k st1 st2 tok_imm_total blank_imm Hin Hk). Qed.

(* the same, remembering that the immediate's token is not a newline *)
Lemma get_imm_rel' (k : wth Z -> P pnode) st1 st2 :
  insync (fst st1) (fst st2) ->
  (forall r st1' st2', is_newline_tok (wt r) = false -> insync (fst st1') (fst st2') -> RFin (k r st1') (k r st2')) ->
  RFin (pbind get_imm k st1) (pbind get_imm k st2).
Proof.
  intros Hin Hk. unfold get_imm, as_imm. rewrite !pbind_assoc. apply get_any_rel; [exact Hin| |].
  - intros t sa sb Hb Hin'. destruct (tok_imm_total t) as [o Ho]. unfold pbind, lift_res. rewrite Ho.
    destruct o as [r|].
    + destruct (tok_imm_wt _ _ Ho) as [Hw Hnl]. apply (Hk r sa sb); [rewrite Hw; exact Hnl|exact Hin'].
    + apply (rfin_expected [XImm] t sa sb Hin' (plain_tok_nonl t Hb)).
  - intros s1 s2 sa sb Hps. pose proof Hps as [B1 [B2 _]].
    unfold pbind, lift_res. rewrite (blank_imm s1 B1), (blank_imm s2 B2).
    apply (ps_expected [XImm] s1 s2 sa sb Hps).
Qed.

Lemma get_csrimm_rel (k : wth Z -> P pnode) st1 st2 :
  insync (fst st1) (fst st2) ->
  (forall r st1' st2', insync (fst st1') (fst st2') -> RFin (k r st1') (k r st2')) ->
  RFin (pbind get_csrimm k st1) (pbind get_csrimm k st2).
Proof. intros Hin Hk. apply (get_res_rel tok_csrimm [XCsrImm] k st1 st2 tok_csrimm_total blank_csrimm Hin Hk). Qed.

Lemma expect_rparen_rel (k : unit -> P pnode) st1 st2 :
  insync (fst st1) (fst st2) ->
  (forall st1' st2', insync (fst st1') (fst st2') -> RFin (k Datatypes.tt st1') (k Datatypes.tt st2')) ->
  RFin (pbind expect_rparen k st1) (pbind expect_rparen k st2).
Proof.
  intros Hin Hk. unfold expect_rparen. rewrite !pbind_assoc. apply get_any_rel; [exact Hin| |].
  - intros t st1' st2' Hb Hin'. destruct (is_rparen t).
    + apply (Hk st1' st2' Hin').
    + apply (rfin_expected [XRParen] t st1' st2' Hin' (plain_tok_nonl t Hb)).
  - intros s1 s2 st1' st2' Hps. pose proof Hps as [B1 [B2 _]]. rewrite (blank_rparen s1 B1), (blank_rparen s2 B2).
    apply (ps_expected [XRParen] s1 s2 st1' st2' Hps).
Qed.

Lemma get_raw_rel (k : rawtok -> P pnode) st1 st2 :
  (forall r1 r2, RFin (k r1 st1) (k r2 st2)) -> RFin (pbind get_raw k st1) (pbind get_raw k st2).
Proof. intros Hk. unfold pbind, get_raw. apply Hk. Qed.

Lemma lift_res_eq {A B} (r : res A) (a : A) (k : A -> P B) st : r = Ok a -> pbind (lift_res r) k st = k a st.
Proof. intros ->. reflexivity. Qed.

Lemma lift_imm_rel t (k : option (wth Z) -> P pnode) st1 st2 :
  (forall o, tok_imm t = Ok o -> RFin (k o st1) (k o st2)) ->
  RFin (pbind (lift_res (tok_imm t)) k st1) (pbind (lift_res (tok_imm t)) k st2).
Proof. intros Hk. destruct (tok_imm_total t) as [o Ho]. rewrite !(lift_res_eq _ o _ _ Ho). apply Hk. exact Ho. Qed.

(* peeking: nothing is consumed *)
Lemma peek_any_rel (k : token -> P pnode) st1 st2 :
  insync (fst st1) (fst st2) ->
  (forall t l1 l2, blank_item (LTok t) = false -> fst st1 = LTok t :: l1 -> fst st2 = LTok t :: l2 -> insync l1 l2 ->
     RFin (k t st1) (k t st2)) ->
  (forall s1 s2, blank_item (LTok s1) = true -> blank_item (LTok s2) = true -> RFin (k s1 st1) (k s2 st2)) ->
  RFin (pbind peek_any k st1) (pbind peek_any k st2).
Proof.
  intros Hin Hk Hstop. pose proof Hin as [Hs [H1 H2]].
  destruct (seq_cases _ _ Hs (code_ok_cel _ H1) (code_ok_cel _ H2))
    as [[E1 E2]|[[x [l1' [l2' [E1 [E2 [Hb Hs']]]]]]|[s1 [l1' [s2 [l2' [E1 [E2 [B1 [B2 Hc]]]]]]]]]];
    unfold pbind, peek_any; rewrite E1, E2.
  - apply rfin_eof.
  - destruct (item_result x) as [e|t] eqn:Ex.
    + destruct (item_error_recover x e Ex) as [p Hp]. apply (rfin_recover e p st1 st2 Hin Hp).
    + destruct x as [t'| |]; cbn [item_result] in Ex; inversion Ex; subst t'.
      apply (Hk t l1' l2' Hb E1 E2). rewrite E1 in H1. rewrite E2 in H2.
      split; [exact Hs'|]. split; [apply (code_ok_tail (LTok t)); exact H1|apply (code_ok_tail (LTok t)); exact H2].
  - destruct (blank_is_tok s1 B1) as [t1 ->]. destruct (blank_is_tok s2 B2) as [t2 ->]. cbn [item_result].
    apply (Hstop t1 t2 B1 B2).
Qed.

Lemma get_known_rel (k : token -> P pnode) t l1 l2 st1 st2 :
  fst st1 = LTok t :: l1 -> fst st2 = LTok t :: l2 -> insync l1 l2 ->
  (forall st1' st2', insync (fst st1') (fst st2') -> RFin (k t st1') (k t st2')) ->
  RFin (pbind get_any k st1) (pbind get_any k st2).
Proof. intros E1 E2 Hin Hk. unfold pbind, get_any. rewrite E1, E2. cbn [item_result]. apply Hk. exact Hin. Qed.

Lemma ps_blank1 s1 l1 s2 l2 : poststop s1 l1 s2 l2 -> blank_item (LTok s1) = true.
Proof. intros [H _]. exact H. Qed.
Lemma ps_blank2 s1 l1 s2 l2 : poststop s1 l1 s2 l2 -> blank_item (LTok s2) = true.
Proof. intros [_ [H _]]. exact H. Qed.

(* ---------------------------------------------------------------------------------- *)
(* instructions                                                                         *)

Ltac tsolve := first [ apply insync_items; eassumption | eapply ps_items; eassumption | eassumption ].
Ltac nonl_solve := first [ assumption | apply plain_tok_nonl; assumption ].
Ltac rstep :=
  cbv beta;
  lazymatch goal with
  | |- RFin (pbind get_reg _ _) (pbind get_reg _ _) => eapply get_reg_rel; [eassumption|intros ? ? ? ?]
  | |- RFin (pbind get_imm _ _) (pbind get_imm _ _) => eapply get_imm_rel; [eassumption|intros ? ? ? ?]
  | |- RFin (pbind get_label _ _) (pbind get_label _ _) => eapply get_label_rel; [eassumption|intros ? ? ? ?]
  | |- RFin (pbind get_csrimm _ _) (pbind get_csrimm _ _) => eapply get_csrimm_rel; [eassumption|intros ? ? ? ?]
  | |- RFin (pbind get_string _ _) (pbind get_string _ _) => eapply get_string_rel; [eassumption|intros ? ? ? ?]
  | |- RFin (pbind expect_rparen _ _) (pbind expect_rparen _ _) => eapply expect_rparen_rel; [eassumption|intros ? ? ?]
  | |- RFin (pbind get_raw _ _) (pbind get_raw _ _) => apply get_raw_rel; intros ? ?
  | |- RFin (ret _ _) (ret _ _) => apply rfin_ret; [tsolve|reflexivity]
  | |- RFin (fail (EExpected _ _) _) (fail (EExpected _ _) _) =>
      first [ eapply ps_expected; eassumption | eapply rfin_expected; [eassumption|nonl_solve] ]
  | |- RFin (fail (ENeedTwoNodes _ _) _) (fail (ENeedTwoNodes _ _) _) => apply rfin_two; [tsolve|reflexivity|reflexivity]
  | |- RFin (fail _ _) (fail _ _) => eapply rfin_recover; [eassumption|intros ?; reflexivity]
  end.

(* the operand after which a memory instruction / jalr looks one token ahead *)
Ltac peek_paren :=
  eapply peek_any_rel; [eassumption| intros pk l1 l2 Hpk Hf1 Hf2 Hl | intros p1 p2 Bp1 Bp2].

Lemma parse_inst_rel i t0 st1 st2 : insync (fst st1) (fst st2) ->
  RFin (parse_inst i t0 st1) (parse_inst i t0 st2).
Proof.
  intros Hin. unfold parse_inst. cbv zeta.
  destruct (inst_kind i) eqn:K.
  - repeat rstep.
  - repeat rstep.
  - repeat rstep.
  - (* KJumpLink *)
    eapply get_any_rel; [eassumption| intros nx sa sb Hb Hin' | intros s1 s2 sa sb Hps].
    + destruct (tok_reg nx) as [r|]; [repeat rstep|]. destruct (tok_label nx) as [nm|]; repeat rstep.
    + rewrite (blank_reg _ (ps_blank1 _ _ _ _ Hps)), (blank_reg _ (ps_blank2 _ _ _ _ Hps)).
      rewrite (blank_label _ (ps_blank1 _ _ _ _ Hps)), (blank_label _ (ps_blank2 _ _ _ _ Hps)). rstep.
  - (* KJumpLinkR *)
    rstep. eapply peek_any_rel; [eassumption| intros nx m1 m2 Hb Hg1 Hg2 Hm | intros s1 s2 Bs1 Bs2].
    + destruct (tok_reg nx) as [r1|].
      { eapply get_known_rel; [exact Hg1|exact Hg2|exact Hm|intros ? ? ?]. repeat rstep. }
      apply lift_imm_rel. intros [imm|] Ei.
      * eapply get_known_rel; [exact Hg1|exact Hg2|exact Hm|intros sa sb Hin'].
        peek_paren.
        -- destruct (is_lparen pk).
           ++ eapply get_known_rel; [exact Hf1|exact Hf2|exact Hl|intros ? ? ?]. repeat rstep.
           ++ repeat rstep.
        -- rewrite (blank_lparen _ Bp1), (blank_lparen _ Bp2). repeat rstep.
      * destruct (is_lparen nx).
        -- eapply get_known_rel; [exact Hg1|exact Hg2|exact Hm|intros ? ? ?]. repeat rstep.
        -- repeat rstep.
    + rewrite (blank_reg _ Bs1), (blank_reg _ Bs2).
      rewrite (lift_res_eq _ _ _ _ (blank_imm _ Bs1)), (lift_res_eq _ _ _ _ (blank_imm _ Bs2)).
      rewrite (blank_lparen _ Bs1), (blank_lparen _ Bs2).
      repeat rstep.
  - (* KLoad *)
    rstep. eapply get_any_rel; [eassumption| intros nx sa sb Hb Hin' | intros s1 s2 sa sb Hps].
    + apply lift_imm_rel. intros [imm|] Ei.
      * peek_paren.
        -- destruct (is_lparen pk).
           ++ eapply get_known_rel; [exact Hf1|exact Hf2|exact Hl|intros ? ? ?]. repeat rstep.
           ++ repeat rstep.
        -- rewrite (blank_lparen _ Bp1), (blank_lparen _ Bp2). repeat rstep.
      * destruct (tok_label nx) as [lb|]; [repeat rstep|]. destruct (is_lparen nx); repeat rstep.
    + rewrite (lift_res_eq _ _ _ _ (blank_imm _ (ps_blank1 _ _ _ _ Hps))), (lift_res_eq _ _ _ _ (blank_imm _ (ps_blank2 _ _ _ _ Hps))).
      rewrite (blank_label _ (ps_blank1 _ _ _ _ Hps)), (blank_label _ (ps_blank2 _ _ _ _ Hps)).
      rewrite (blank_lparen _ (ps_blank1 _ _ _ _ Hps)), (blank_lparen _ (ps_blank2 _ _ _ _ Hps)).
      rstep.
  - (* KStore *)
    rstep. eapply get_any_rel; [eassumption| intros nx sa sb Hb Hin' | intros s1 s2 sa sb Hps].
    + apply lift_imm_rel. intros [imm|] Ei.
      * peek_paren.
        -- destruct (is_lparen pk).
           ++ eapply get_known_rel; [exact Hf1|exact Hf2|exact Hl|intros ? ? ?]. repeat rstep.
           ++ destruct (tok_reg pk) as [tmp|].
              ** eapply get_known_rel; [exact Hf1|exact Hf2|exact Hl|intros ? ? ?]. repeat rstep.
              ** repeat rstep.
        -- rewrite (blank_lparen _ Bp1), (blank_lparen _ Bp2), (blank_reg _ Bp1), (blank_reg _ Bp2). repeat rstep.
      * destruct (tok_label nx) as [lb|]; [repeat rstep|]. destruct (is_lparen nx); repeat rstep.
    + rewrite (lift_res_eq _ _ _ _ (blank_imm _ (ps_blank1 _ _ _ _ Hps))), (lift_res_eq _ _ _ _ (blank_imm _ (ps_blank2 _ _ _ _ Hps))).
      rewrite (blank_label _ (ps_blank1 _ _ _ _ Hps)), (blank_label _ (ps_blank2 _ _ _ _ Hps)).
      rewrite (blank_lparen _ (ps_blank1 _ _ _ _ Hps)), (blank_lparen _ (ps_blank2 _ _ _ _ Hps)).
      rstep.
  - repeat rstep.
  - repeat rstep.
  - repeat rstep.
  - repeat rstep.
  - (* KPseudo *) destruct i; repeat rstep.
  - (* KUpperArith *)
    rstep. eapply get_imm_rel'; [eassumption|intros imm sa sb Hnl Hin']. destruct (lui_imm (wv imm)); repeat rstep.
Qed.

(* ---------------------------------------------------------------------------------- *)
(* data directives                                                                      *)

Definition imm_of (x : lexitem) : option (wth Z) :=
  match x with
  | LTok t => match tok_imm t with Ok (Some i) => Some i | _ => None end
  | _ => None
  end.

Lemma imm_of_item x : is_imm_item x = match imm_of x with Some _ => true | None => false end.
Proof. destruct x as [t| |]; cbn [is_imm_item imm_of]; try reflexivity. destruct (tok_imm t) as [[i|]| |]; reflexivity. Qed.

Lemma dv_step f acc x l o :
  data_values (S f) acc (x :: l, o) =
  if is_nl_item x then data_values f acc (l, rawstep o x)
  else match imm_of x with
       | Some i => data_values f (i :: acc) (l, rawstep o x)
       | None => Ok (inr (rev acc), (x :: l, o))
       end.
Proof.
  destruct x as [t|t p k|t]; cbn [data_values fst is_nl_item imm_of]; try reflexivity.
  unfold pbind, peek_any, get_any, lift_res. cbn [fst snd item_result rawstep].
  destruct (tok_imm_total t) as [oi Hoi]. rewrite Hoi.
  destruct (tt t); destruct oi as [i|]; reflexivity.
Qed.

Lemma dv_nil f acc o : data_values (S f) acc ([], o) = Ok (inr (rev acc), ([], o)).
Proof. reflexivity. Qed.

Definition dstop (l : list lexitem) : bool :=
  match l with [] => true | x :: _ => (negb (is_nl_item x) && negb (is_imm_item x))%bool end.
Definition nlhead (l : list lexitem) : bool := match l with x :: _ => is_nl_item x | [] => false end.

Lemma dv_stops f acc l o : dstop l = true -> data_values (S f) acc (l, o) = Ok (inr (rev acc), (l, o)).
Proof.
  destruct l as [|x l]; [reflexivity|]. cbn [dstop]. intros H. apply andb_true_iff in H. destruct H as [H1 H2].
  rewrite dv_step. apply negb_true_iff in H1. apply negb_true_iff in H2. rewrite H1.
  rewrite imm_of_item in H2. destruct (imm_of x); [discriminate|reflexivity].
Qed.

Lemma after_blank_canon l : canon (after_blank l) = canon l.
Proof.
  induction l as [|x l IH]; [reflexivity|]. cbn [after_blank]. destruct (blank_item x) eqn:B; [|reflexivity].
  rewrite (canon_blank x l B). exact IH.
Qed.

Lemma after_blank_head l : after_blank l = [] \/ exists x r, after_blank l = x :: r /\ blank_item x = false.
Proof.
  induction l as [|x l IH]; [left; reflexivity|]. cbn [after_blank]. destruct (blank_item x) eqn:B; [exact IH|].
  right. exists x, l. split; [reflexivity|exact B].
Qed.

Lemma starts_imm_canon l : starts_imm (after_blank l) = starts_imm (canon l).
Proof.
  rewrite <- (after_blank_canon l). destruct (after_blank_head l) as [->|[x [r [-> B]]]]; [reflexivity|].
  rewrite (canon_plain x r B). reflexivity.
Qed.

Lemma comment_not_imm x : is_comment_item x = true -> is_imm_item x = false.
Proof.
  intros H. destruct x as [t| |]; cbn [is_imm_item]; try reflexivity.
  rewrite (blank_imm t (blank_comment _ H)). reflexivity.
Qed.

(* one run is stopped by a comment: so is the other, which is not looking at a newline *)
Lemma comment_side s l1' l2 : same_code (s :: l1') l2 -> is_comment_item s = true ->
  data_run_ok (s :: l1') = true -> nlhead l2 = false -> dstop l2 = true.
Proof.
  intros Hc Hs Hr Hn. destruct l2 as [|x2 l2']; [reflexivity|]. cbn [nlhead] in Hn. cbn [dstop]. rewrite Hn. cbn [negb andb].
  apply negb_true_iff. destruct (blank_item x2) eqn:B2.
  - destruct (blank_cases x2 B2) as [[H _]|[_ H]]; [congruence|]. apply comment_not_imm. exact H.
  - cbn [data_run_ok] in Hr. rewrite (comment_not_nl s Hs), (comment_not_imm s Hs), Hs in Hr. cbn [orb] in Hr.
    apply negb_true_iff in Hr. rewrite starts_imm_canon in Hr.
    unfold same_code in Hc. rewrite (canon_blank s l1' (blank_comment s Hs)), (canon_plain x2 l2' B2) in Hc.
    rewrite Hc in Hr. exact Hr.
Qed.

Lemma same_code_sym l1 l2 : same_code l1 l2 -> same_code l2 l1.
Proof. unfold same_code. intros H. symmetry. exact H. Qed.

Lemma data_values_rel : forall n f1 f2 acc l1 l2 o1 o2,
  f1 + f2 <= n -> length l1 < f1 -> length l2 < f2 ->
  same_code l1 l2 -> code_ok l1 = true -> code_ok l2 = true ->
  data_run_ok l1 = true -> data_run_ok l2 = true ->
  exists vals st1 st2,
    data_values f1 acc (l1, o1) = Ok (inr vals, st1) /\ data_values f2 acc (l2, o2) = Ok (inr vals, st2) /\
    same_items (fst st1) (fst st2).
Proof.
  induction n as [|n IH]; intros f1 f2 acc l1 l2 o1 o2 Hn Hf1 Hf2 Hc K1 K2 R1 R2; [lia|].
  destruct f1 as [|f1]; [lia|]. destruct f2 as [|f2]; [lia|].
  assert (Hstop : dstop l1 = true -> dstop l2 = true ->
            exists vals st1 st2,
              data_values (S f1) acc (l1, o1) = Ok (inr vals, st1) /\ data_values (S f2) acc (l2, o2) = Ok (inr vals, st2) /\
              same_items (fst st1) (fst st2)).
  { intros D1 D2. exists (rev acc), (l1, o1), (l2, o2). rewrite (dv_stops f1 acc l1 o1 D1), (dv_stops f2 acc l2 o2 D2).
    split; [reflexivity|]. split; [reflexivity|]. right. split; [exact Hc|]. split; assumption. }
  destruct (nlhead l1) eqn:N1.
  { (* the first run swallows a newline *)
    destruct l1 as [|x l1']; [discriminate|]. cbn [nlhead] in N1. rewrite dv_step, N1.
    apply (IH f1 (S f2)); try assumption; try (cbn [length] in Hf1; lia).
    - unfold same_code in *. rewrite (canon_blank x l1' (blank_nl x N1)) in Hc. exact Hc.
    - apply (code_ok_tail x). exact K1.
    - cbn [data_run_ok] in R1. rewrite N1 in R1. exact R1. }
  destruct (nlhead l2) eqn:N2.
  { destruct l2 as [|x l2']; [discriminate|]. cbn [nlhead] in N2. rewrite (dv_step f2), N2.
    apply (IH (S f1) f2); try assumption; try (cbn [length] in Hf2; lia).
    - unfold same_code in *. rewrite (canon_blank x l2' (blank_nl x N2)) in Hc. exact Hc.
    - apply (code_ok_tail x). exact K2.
    - cbn [data_run_ok] in R2. rewrite N2 in R2. exact R2. }
  destruct (same_code_cases l1 l2 Hc)
    as [[s [l1' [E1 [B Hc']]]]|[[s [l2' [E2 [B Hc']]]]|[[E1 E2]|[x [l1' [l2' [E1 [E2 [Hb Hs]]]]]]]]].
  - (* a comment stops the first run *)
    subst l1. cbn [nlhead] in N1. destruct (blank_cases s B) as [[H _]|[_ Hcm]]; [congruence|].
    apply Hstop.
    + cbn [dstop]. rewrite N1, (comment_not_imm s Hcm). reflexivity.
    + apply (comment_side s l1' l2 Hc Hcm R1 N2).
  - subst l2. cbn [nlhead] in N2. destruct (blank_cases s B) as [[H _]|[_ Hcm]]; [congruence|].
    apply Hstop.
    + apply (comment_side s l2' l1 (same_code_sym _ _ Hc) Hcm R2 N1).
    + cbn [dstop]. rewrite N2, (comment_not_imm s Hcm). reflexivity.
  - subst. apply Hstop; reflexivity.
  - subst l1 l2. destruct (imm_of x) as [i|] eqn:Ei.
    + rewrite (dv_step f1), (dv_step f2), (plain_not_nl x Hb), Ei.
      assert (Himm : is_imm_item x = true) by (rewrite imm_of_item, Ei; reflexivity).
      apply (IH f1 f2); try (cbn [length] in Hf1, Hf2; lia).
      * apply seq_same_code. exact Hs.
      * apply (code_ok_tail x). exact K1.
      * apply (code_ok_tail x). exact K2.
      * cbn [data_run_ok] in R1. rewrite Himm, orb_true_r in R1. exact R1.
      * cbn [data_run_ok] in R2. rewrite Himm, orb_true_r in R2. exact R2.
    + assert (D : forall l, dstop (x :: l) = true).
      { intros l. cbn [dstop]. rewrite (plain_not_nl x Hb), imm_of_item, Ei. reflexivity. }
      apply Hstop; apply D.
Qed.

(* ---------------------------------------------------------------------------------- *)
(* `.macro` ... `.endmacro`                                                             *)

Definition is_endmacro (t : token) : bool :=
  match tt t with
  | TDirective d => match dir_from_str d with Some DEndMacro => true | _ => false end
  | _ => false
  end.

Lemma sm_step_tok f (k : unit -> P pnode) t l o :
  pbind (skip_macro (S f)) k (LTok t :: l, o) =
  if is_endmacro t then k Datatypes.tt (l, rawstep o (LTok t)) else pbind (skip_macro f) k (l, rawstep o (LTok t)).
Proof.
  cbn [skip_macro]. rewrite pbind_assoc. unfold pbind at 1, get_any. cbn [fst snd item_result rawstep].
  unfold is_endmacro. destruct (tt t); try reflexivity. destruct (dir_from_str s) as [[]|]; reflexivity.
Qed.

Lemma blank_not_endmacro t : blank_item (LTok t) = true -> is_endmacro t = false.
Proof.
  unfold blank_item, is_endmacro. cbn [is_nl_item is_comment_item]. destruct (tt t); cbn [orb]; try discriminate; reflexivity.
Qed.

Lemma skip_macro_rel t0 : forall n f1 f2 l1 l2 o1 o2,
  f1 + f2 <= n -> length l1 < f1 -> length l2 < f2 ->
  same_code l1 l2 -> code_ok l1 = true -> code_ok l2 = true ->
  RFin (pbind (skip_macro f1) (fun _ => fail (EIgnoredWithWarning t0)) (l1, o1))
       (pbind (skip_macro f2) (fun _ => fail (EIgnoredWithWarning t0)) (l2, o2)).
Proof.
  induction n as [|n IH]; intros f1 f2 l1 l2 o1 o2 Hn Hf1 Hf2 Hc K1 K2; [lia|].
  destruct f1 as [|f1]; [lia|]. destruct f2 as [|f2]; [lia|].
  destruct (same_code_cases l1 l2 Hc)
    as [[s [l1' [E1 [B Hc']]]]|[[s [l2' [E2 [B Hc']]]]|[[E1 E2]|[x [l1' [l2' [E1 [E2 [Hb Hs]]]]]]]]].
  - subst l1. destruct (blank_is_tok s B) as [t ->]. rewrite sm_step_tok, (blank_not_endmacro t B).
    apply (IH f1 (S f2)); try assumption; try (cbn [length] in Hf1; lia). apply (code_ok_tail (LTok t)). exact K1.
  - subst l2. destruct (blank_is_tok s B) as [t ->]. rewrite (sm_step_tok f2), (blank_not_endmacro t B).
    apply (IH (S f1) f2); try assumption; try (cbn [length] in Hf2; lia). apply (code_ok_tail (LTok t)). exact K2.
  - subst. apply rfin_eof.
  - subst l1 l2.
    assert (Hin : insync l1' l2').
    { split; [exact Hs|]. split; [apply (code_ok_tail x); exact K1|apply (code_ok_tail x); exact K2]. }
    destruct x as [t|t p k|t].
    + rewrite (sm_step_tok f1), (sm_step_tok f2). destruct (is_endmacro t).
      * apply (rfin_recover _ (PEUnsupported t0)); [exact Hin|]. intros rest. reflexivity.
      * apply (IH f1 f2); try (cbn [length] in Hf1, Hf2; lia).
        -- apply seq_same_code. exact Hs.
        -- apply (code_ok_tail (LTok t)). exact K1.
        -- apply (code_ok_tail (LTok t)). exact K2.
    + apply (rfin_recover (EInvalidString t p k) (PEInvalidString t p k) (l1', o1) (l2', o2) Hin). intros rest. reflexivity.
    + apply (rfin_recover (EUnexpectedToken t) (PEUnexpectedToken t) (l1', o1) (l2', o2) Hin). intros rest. reflexivity.
Qed.

(* ---------------------------------------------------------------------------------- *)
(* directives, statements                                                               *)

Definition is_data_dir (d : dirtok) : bool :=
  match d with DByte | DHalf | DWord | DDword | DFloat | DDouble => true | _ => false end.

Lemma pbind_ok {A B} (m : P A) (k : A -> P B) st a st' : m st = Ok (inr a, st') -> pbind m k st = k a st'.
Proof. intros H. unfold pbind. rewrite H. reflexivity. Qed.

Lemma remaining_eq {A} (k : nat -> P A) st : pbind remaining k st = k (length (fst st)) st.
Proof. reflexivity. Qed.

Lemma parse_directive_rel d t0 st1 st2 : insync (fst st1) (fst st2) ->
  (is_data_dir d = true -> data_run_ok (fst st1) = true /\ data_run_ok (fst st2) = true) ->
  RFin (parse_directive d t0 st1) (parse_directive d t0 st2).
Proof.
  intros Hin Hd. unfold parse_directive. cbv zeta.
  assert (Hdata : is_data_dir d = true -> forall dt,
            RFin (pbind remaining (fun n => pbind (data_values (S n) [])
                    (fun vals => pbind get_raw (fun rt => ret (PDirective (mkw d t0) (DDat dt vals) rt)))) st1)
                 (pbind remaining (fun n => pbind (data_values (S n) [])
                    (fun vals => pbind get_raw (fun rt => ret (PDirective (mkw d t0) (DDat dt vals) rt)))) st2)).
  { intros Hdd dt. destruct (Hd Hdd) as [R1 R2]. rewrite !remaining_eq.
    destruct st1 as [l1 o1]. destruct st2 as [l2 o2]. cbn [fst] in *. destruct Hin as [Hs [K1 K2]].
    destruct (data_values_rel (S (length l1) + S (length l2)) (S (length l1)) (S (length l2)) [] l1 l2 o1 o2
                (le_n _) (Nat.lt_succ_diag_r _) (Nat.lt_succ_diag_r _) (seq_same_code _ _ Hs) K1 K2 R1 R2)
      as [vals [sa [sb [E1 [E2 HT]]]]].
    rewrite (pbind_ok _ _ _ _ _ E1), (pbind_ok _ _ _ _ _ E2). repeat rstep. }
  destruct d; try (apply Hdata; reflexivity); try (repeat rstep).
  (* DMacro *)
  rewrite !remaining_eq. destruct st1 as [l1 o1]. destruct st2 as [l2 o2]. cbn [fst] in *. destruct Hin as [Hs [K1 K2]].
  apply (skip_macro_rel t0 (S (length l1) + S (length l2)) (S (length l1)) (S (length l2)) l1 l2 o1 o2
           (le_n _) (Nat.lt_succ_diag_r _) (Nat.lt_succ_diag_r _) (seq_same_code _ _ Hs) K1 K2).
Qed.

Lemma pbind_get_tok {A} (k : token -> P A) t l o :
  pbind get_any k (LTok t :: l, o) = k t (l, rawstep o (LTok t)).
Proof. reflexivity. Qed.

Lemma parse_stmt_rel t0 l1 l2 : blank_item (LTok t0) = false -> insync l1 l2 ->
  (is_data_item (LTok t0) = true -> data_run_ok l1 = true /\ data_run_ok l2 = true) ->
  RFin (parse_stmt (LTok t0 :: l1, None)) (parse_stmt (LTok t0 :: l2, None)).
Proof.
  intros Hb Hin Hd. unfold parse_stmt. rewrite !pbind_get_tok.
  set (sa := (l1, rawstep None (LTok t0)) : pstate). set (sb := (l2, rawstep None (LTok t0)) : pstate).
  assert (Hin' : insync (fst sa) (fst sb)) by exact Hin.
  assert (Hd' : is_data_item (LTok t0) = true -> data_run_ok (fst sa) = true /\ data_run_ok (fst sb) = true) by exact Hd.
  clearbody sa sb.
  assert (Hnl : is_newline_tok t0 = false) by (apply plain_tok_nonl; exact Hb).
  destruct (tt t0) as [| | |s|s|d|s|c|s] eqn:Ett.
  - rstep.
  - rstep.
  - exfalso. unfold blank_item in Hb. cbn [is_nl_item] in Hb. rewrite Ett in Hb. discriminate.
  - destruct (label_from_str s); repeat rstep.
  - destruct (inst_from_str s); [apply parse_inst_rel; exact Hin'|rstep].
  - destruct (dir_from_str d) as [dt|] eqn:Ed; [|rstep].
    apply parse_directive_rel; [exact Hin'|]. intros Hdd.
    assert (Hi : is_data_item (LTok t0) = true).
    { cbn [is_data_item]. rewrite Ett, Ed. destruct dt; try discriminate; reflexivity. }
    exact (Hd' Hi).
  - rstep.
  - rstep.
  - exfalso. unfold blank_item in Hb. cbn [is_nl_item is_comment_item] in Hb. rewrite Ett in Hb. discriminate.
Qed.

(* the outcomes of one statement, as the driver sees them *)
Definition same_outcome (x1 : lexerr + pnode) (r1 : list lexitem) (x2 : lexerr + pnode) (r2 : list lexitem) : Prop :=
  act_rel (act x1 r1) (act x2 r2).

Lemma rfin_parse_one l1 l2 : RFin (parse_stmt (l1, None)) (parse_stmt (l2, None)) ->
  exists x1 r1 x2 r2, parse_one l1 = Ok (x1, r1) /\ parse_one l2 = Ok (x2, r2) /\ same_outcome x1 r1 x2 r2.
Proof.
  intros [x1 [[r1 o1] [x2 [[r2 o2] [E1 [E2 H]]]]]]. exists x1, r1, x2, r2. unfold parse_one. rewrite E1, E2.
  split; [reflexivity|]. split; [reflexivity|exact H].
Qed.

(* a comment or a newline where a statement would start: skipped, nothing reported *)
Lemma parse_one_blank s l : blank_item s = true ->
  exists x, parse_one (s :: l) = Ok (x, l) /\ act x l = ACont l [] [].
Proof.
  intros B. destruct (blank_is_tok s B) as [t ->]. unfold parse_one, parse_stmt. rewrite pbind_get_tok.
  unfold blank_item in B. cbn [is_nl_item is_comment_item] in B.
  destruct (tt t); cbn [orb] in B; try discriminate; eexists; split; reflexivity.
Qed.

(* One statement.  Either one of the runs skips a comment / newline token (and the other waits), or both
   read a statement and the outcomes agree up to locations (and "got <comment>" ~ "got <newline>"). *)
Theorem parse_one_same_code l1 l2 :
  same_code l1 l2 -> code_ok l1 = true -> code_ok l2 = true ->
  (exists x s l1', l1 = s :: l1' /\ blank_item s = true /\ parse_one l1 = Ok (x, l1') /\ act x l1' = ACont l1' [] [] /\
                   same_code l1' l2 /\ code_ok l1' = true) \/
  (exists x s l2', l2 = s :: l2' /\ blank_item s = true /\ parse_one l2 = Ok (x, l2') /\ act x l2' = ACont l2' [] [] /\
                   same_code l1 l2' /\ code_ok l2' = true) \/
  (exists x1 r1 x2 r2, parse_one l1 = Ok (x1, r1) /\ parse_one l2 = Ok (x2, r2) /\ same_outcome x1 r1 x2 r2).
Proof.
  intros Hc K1 K2.
  destruct (same_code_cases l1 l2 Hc)
    as [[s [l1' [E1 [B Hc']]]]|[[s [l2' [E2 [B Hc']]]]|[[E1 E2]|[x [l1' [l2' [E1 [E2 [Hb Hs]]]]]]]]].
  - left. subst l1. destruct (parse_one_blank s l1' B) as [x [H1 H2]]. exists x, s, l1'.
    repeat split; try assumption. apply (code_ok_tail s). exact K1.
  - right. left. subst l2. destruct (parse_one_blank s l2' B) as [x [H1 H2]]. exists x, s, l2'.
    repeat split; try assumption. apply (code_ok_tail s). exact K2.
  - right. right. subst. exists (inl EUnexpectedEOF), [], (inl EUnexpectedEOF), []. repeat split.
  - right. right. subst l1 l2. apply rfin_parse_one.
    assert (Hin : insync l1' l2').
    { split; [exact Hs|]. split; [apply (code_ok_tail x); exact K1|apply (code_ok_tail x); exact K2]. }
    destruct x as [t0|t p k|t].
    + apply (parse_stmt_rel t0 l1' l2' Hb Hin). intros Hi.
      pose proof (code_ok_data _ K1) as D1. pose proof (code_ok_data _ K2) as D2.
      cbn [data_ok] in D1, D2. rewrite Hi in D1, D2. apply andb_true_iff in D1. apply andb_true_iff in D2. tauto.
    + apply (rfin_recover (EInvalidString t p k) (PEInvalidString t p k) (l1', None) (l2', None) Hin). intros rest. reflexivity.
    + apply (rfin_recover (EUnexpectedToken t) (PEUnexpectedToken t) (l1', None) (l2', None) Hin). intros rest. reflexivity.
Qed.

(* ================================================================================== *)
(* Part C: the driver.                                                                  *)

Lemma include_path_erase n1 n2 : erase_node n1 = erase_node n2 ->
  match include_path n1, include_path n2 with
  | Some p1, Some p2 => erase_w p1 = erase_w p2
  | None, None => True
  | _, _ => False
  end.
Proof.
  intros H. destruct n1; destruct n2; cbn [erase_node] in H; try discriminate; cbn [include_path]; try exact I.
  destruct dt as [p1| | | | | |]; destruct dt0 as [p2| | | | | |]; cbn [erase_dirtype] in H; try discriminate; try exact I.
  apply (f_equal (fun n => match n with PDirective _ (DInc p) _ => p | _ => erase_w p1 end)) in H. exact H.
Qed.

Lemma erase_w_wv {A} (p1 p2 : wth A) : erase_w p1 = erase_w p2 -> wv p1 = wv p2 /\ erase_tok (wt p1) = erase_tok (wt p2).
Proof.
  unfold erase_w. intros H. split; [apply (f_equal wv) in H; exact H|apply (f_equal wt) in H; exact H].
Qed.

Lemma spell_reader_error e p1 p2 : erase_w p1 = erase_w p2 ->
  spell_err (to_parse_error e p1) = spell_err (to_parse_error e p2).
Proof.
  intros H. destruct (erase_w_wv p1 p2 H) as [_ Ht].
  destruct e; cbn [to_parse_error spell_err norm_err erase_perr]; rewrite ?Ht, ?H; reflexivity.
Qed.

(* two stores that answer alike on every reader state the runs can reach (a single store: [Inv := True]) *)
Section TwoStores.
  Variables (fs1 fs2 : store) (Inv : rstate -> Prop).
  Hypothesis Hagree : forall path rs, Inv rs -> import_file fs1 path rs = import_file fs2 path rs.
  Hypothesis Hinv : forall path rs r rs', Inv rs -> import_file fs1 path rs = (r, rs') -> Inv rs'.

  Lemma drive_same_code_fuel chk ign : forall n f1 f2 st1 st2 rs ns1 ns2 es1 es2 N1 E1 R1 N2 E2 R2,
    f1 + f2 <= n -> Inv rs ->
    Forall2 same_items st1 st2 ->
    map erase_node ns1 = map erase_node ns2 -> map spell_err es1 = map spell_err es2 ->
    drive f1 chk fs1 ign st1 rs ns1 es1 = Ok (N1, E1, R1) ->
    drive f2 chk fs2 ign st2 rs ns2 es2 = Ok (N2, E2, R2) ->
    map erase_node N1 = map erase_node N2 /\ map spell_err E1 = map spell_err E2 /\ R1 = R2.
  Proof.
    induction n as [|n IH]; intros f1 f2 st1 st2 rs ns1 ns2 es1 es2 N1 E1 R1 N2 E2 R2 Hn HI Hst Hns Hes D1 D2.
    { assert (f1 = 0) by lia. subst f1. discriminate D1. }
    destruct f1 as [|f1]; [discriminate D1|]. destruct f2 as [|f2]; [discriminate D2|].
    destruct Hst as [|top1 top2 below1 below2 Htop Hbelow].
    { cbn [drive] in D1, D2. inversion D1; inversion D2; subst. rewrite !map_rev, Hns, Hes. repeat split. }
    (* both runs read a statement, with the same outcome *)
    assert (Hpair : forall x1 r1 x2 r2, parse_one top1 = Ok (x1, r1) -> parse_one top2 = Ok (x2, r2) ->
              same_outcome x1 r1 x2 r2 ->
              map erase_node N1 = map erase_node N2 /\ map spell_err E1 = map spell_err E2 /\ R1 = R2).
    { intros x1 r1 x2 r2 P1 P2 Hrel. unfold same_outcome in Hrel.
      rewrite drive_step, P1 in D1. rewrite drive_step, P2 in D2. cbn [bind fst snd] in D1, D2.
      destruct (act x1 r1) as [|t1 n1 e1|n1 q1]; destruct (act x2 r2) as [|t2 n2 e2|n2 q2]; cbn [act_rel] in Hrel; try contradiction.
      - apply (IH f1 f2 below1 below2 rs ns1 ns2 es1 es2 N1 E1 R1 N2 E2 R2); try assumption; lia.
      - destruct Hrel as [Ht [Hn' He']].
        apply (IH f1 f2 (t1 :: below1) (t2 :: below2) rs (n1 ++ ns1) (n2 ++ ns2) (e1 ++ es1) (e2 ++ es2) N1 E1 R1 N2 E2 R2);
          try assumption; try lia.
        + constructor; assumption.
        + rewrite !map_app, Hn', Hns. reflexivity.
        + rewrite !map_app, He', Hes. reflexivity.
      - destruct Hrel as [Hn' Hq]. unfold drive_node in D1, D2.
        assert (Hkeep : forall a1 a2 b1 b2, map erase_node a1 = map erase_node a2 -> map spell_err b1 = map spell_err b2 ->
                  forall rs', Inv rs' -> drive f1 chk fs1 ign (q1 :: below1) rs' a1 b1 = Ok (N1, E1, R1) ->
                  drive f2 chk fs2 ign (q2 :: below2) rs' a2 b2 = Ok (N2, E2, R2) ->
                  map erase_node N1 = map erase_node N2 /\ map spell_err E1 = map spell_err E2 /\ R1 = R2).
        { intros a1 a2 b1 b2 Ha Hb rs' HI' G1 G2.
          apply (IH f1 f2 (q1 :: below1) (q2 :: below2) rs' a1 a2 b1 b2 N1 E1 R1 N2 E2 R2); try assumption; try lia.
          constructor; assumption. }
        assert (Hnode : drive f1 chk fs1 ign (q1 :: below1) rs (n1 :: ns1) es1 = Ok (N1, E1, R1) ->
                  drive f2 chk fs2 ign (q2 :: below2) rs (n2 :: ns2) es2 = Ok (N2, E2, R2) ->
                  map erase_node N1 = map erase_node N2 /\ map spell_err E1 = map spell_err E2 /\ R1 = R2).
        { apply Hkeep; [cbn [map]; rewrite Hn', Hns; reflexivity|exact Hes|exact HI]. }
        destruct ign; [apply (Hnode D1 D2)|].
        pose proof (include_path_erase n1 n2 Hn') as Hinc.
        destruct (include_path n1) as [p1|]; destruct (include_path n2) as [p2|]; try contradiction; [|apply (Hnode D1 D2)].
        destruct (erase_w_wv p1 p2 Hinc) as [Hwv _]. rewrite Hwv in D1.
        pose proof (Hinv (wv p2) rs) as HI2. rewrite (Hagree (wv p2) rs HI) in D1, HI2.
        destruct (import_file fs2 (wv p2) rs) as [[e|[id text]] rs'].
        + assert (Hsp : map spell_err (to_parse_error e p1 :: es1) = map spell_err (to_parse_error e p2 :: es2)).
          { cbn [map]. rewrite Hes, (spell_reader_error e p1 p2 Hinc). reflexivity. }
          apply (Hkeep ns1 ns2 (to_parse_error e p1 :: es1) (to_parse_error e p2 :: es2) Hns Hsp rs' (HI2 _ _ HI eq_refl) D1 D2).
        + destruct (lex_all chk (Some id) (normalize_text text)) as [items| |]; cbn [bind] in D1, D2; try discriminate D1.
          apply (IH f1 f2 (items :: q1 :: below1) (items :: q2 :: below2) rs' ns1 ns2 es1 es2 N1 E1 R1 N2 E2 R2);
            try assumption; try lia.
          * apply (HI2 _ _ HI eq_refl).
          * constructor; [left; reflexivity|]. constructor; assumption. }
    destruct Htop as [Heq|[Hc [K1 K2]]].
    - (* literally the same items *)
      subst top2. destruct (parse_one top1) as [[x r]| |] eqn:P1.
      + apply (Hpair x r x r eq_refl eq_refl). unfold same_outcome. apply act_rel_refl.
      + rewrite drive_step, P1 in D1. discriminate D1.
      + rewrite drive_step, P1 in D1. discriminate D1.
    - destruct (parse_one_same_code top1 top2 Hc K1 K2)
        as [[x [s [l1' [E [_ [P [A [Hc' K']]]]]]]]|[[x [s [l2' [E [_ [P [A [Hc' K']]]]]]]]|[x1 [r1 [x2 [r2 [P1 [P2 Hrel]]]]]]]].
      + (* the first run skips a comment / newline *)
        rewrite drive_step, P in D1. cbn [bind fst snd] in D1. rewrite A in D1. cbn [app] in D1.
        apply (IH f1 (S f2) (l1' :: below1) (top2 :: below2) rs ns1 ns2 es1 es2 N1 E1 R1 N2 E2 R2); try assumption; try lia.
        constructor; [|exact Hbelow]. right. split; [exact Hc'|]. split; assumption.
      + rewrite drive_step, P in D2. cbn [bind fst snd] in D2. rewrite A in D2. cbn [app] in D2.
        apply (IH (S f1) f2 (top1 :: below1) (l2' :: below2) rs ns1 ns2 es1 es2 N1 E1 R1 N2 E2 R2); try assumption; try lia.
        constructor; [|exact Hbelow]. right. split; [exact Hc'|]. split; assumption.
      + apply (Hpair x1 r1 x2 r2 P1 P2 Hrel).
  Qed.

  (* The driver, two stores. *)
  Theorem drive_same_code_stores chk ign f1 f2 st1 st2 rs ns1 ns2 es1 es2 N1 E1 R1 N2 E2 R2 :
    Inv rs ->
    Forall2 same_items st1 st2 ->
    map erase_node ns1 = map erase_node ns2 -> map spell_err es1 = map spell_err es2 ->
    drive f1 chk fs1 ign st1 rs ns1 es1 = Ok (N1, E1, R1) ->
    drive f2 chk fs2 ign st2 rs ns2 es2 = Ok (N2, E2, R2) ->
    map erase_node N1 = map erase_node N2 /\ map spell_err E1 = map spell_err E2 /\ R1 = R2.
  Proof. apply (drive_same_code_fuel chk ign (f1 + f2) f1 f2). apply le_n. Qed.
End TwoStores.

(* The driver: two stacks of item lists that are pointwise the same code (or the same list) give the same
   nodes up to locations, the same errors up to locations and "got <comment>" ~ "got <newline>", and the
   same reader state.  Any fuels: the statement is about the results when both runs return. *)
Theorem drive_same_code chk fs ign f1 f2 st1 st2 rs ns1 ns2 es1 es2 N1 E1 R1 N2 E2 R2 :
  Forall2 same_items st1 st2 ->
  map erase_node ns1 = map erase_node ns2 -> map spell_err es1 = map spell_err es2 ->
  drive f1 chk fs ign st1 rs ns1 es1 = Ok (N1, E1, R1) ->
  drive f2 chk fs ign st2 rs ns2 es2 = Ok (N2, E2, R2) ->
  map erase_node N1 = map erase_node N2 /\ map spell_err E1 = map spell_err E2 /\ R1 = R2.
Proof.
  apply (drive_same_code_stores fs fs (fun _ => True) (fun _ _ _ => eq_refl) (fun _ _ _ _ _ _ => I)
           chk ign f1 f2 st1 st2 rs ns1 ns2 es1 es2 N1 E1 R1 N2 E2 R2 I).
Qed.

(* ================================================================================== *)
(* Part D: squeezing.                                                                   *)

(* already squeezed: no comment, no two newlines in a row *)
Fixpoint squeezed (l : list lexitem) : bool :=
  match l with
  | [] => true
  | x :: l' => (negb (is_comment_item x) && (if is_nl_item x then negb (nlhead l') else true) && squeezed l')%bool
  end.

Lemma drop_nl_nlhead l : nlhead l = false -> drop_nl l = l.
Proof. destruct l as [|x l]; [reflexivity|]. cbn [nlhead drop_nl]. intros ->. reflexivity. Qed.

Lemma nlhead_drop_nl l : nlhead (drop_nl l) = false.
Proof.
  induction l as [|x l IH]; [reflexivity|]. cbn [drop_nl]. destruct (is_nl_item x) eqn:E; [exact IH|].
  cbn [nlhead]. exact E.
Qed.

Lemma squeezed_fix : forall l, squeezed l = true -> squeeze l = l.
Proof.
  induction l as [|x l IH]; [reflexivity|]. cbn [squeezed]. intros H.
  apply andb_true_iff in H. destruct H as [H H3]. apply andb_true_iff in H. destruct H as [H1 H2].
  apply negb_true_iff in H1. rewrite squeeze_cons, H1. unfold canon. rewrite (IH H3).
  destruct (is_nl_item x); [|reflexivity]. apply negb_true_iff in H2. rewrite (drop_nl_nlhead l H2). reflexivity.
Qed.

Lemma squeezed_drop_nl : forall l, squeezed l = true -> squeezed (drop_nl l) = true.
Proof.
  induction l as [|x l IH]; [reflexivity|]. intros H. cbn [drop_nl]. destruct (is_nl_item x); [|exact H].
  apply IH. cbn [squeezed] in H. apply andb_true_iff in H. tauto.
Qed.

Lemma squeezed_squeeze : forall l, squeezed (squeeze l) = true.
Proof.
  induction l as [|x l IH]; [reflexivity|]. rewrite squeeze_cons.
  destruct (is_comment_item x) eqn:Ec; [exact IH|]. destruct (is_nl_item x) eqn:En; cbn [squeezed]; rewrite Ec, En; cbn [negb andb].
  - unfold canon. rewrite nlhead_drop_nl. cbn [negb andb]. apply squeezed_drop_nl. exact IH.
  - exact IH.
Qed.

Lemma squeeze_idem l : squeeze (squeeze l) = squeeze l.
Proof. apply squeezed_fix. apply squeezed_squeeze. Qed.

Lemma same_code_squeeze l : same_code l (squeeze l).
Proof. unfold same_code, canon. rewrite squeeze_idem. reflexivity. Qed.

Lemma same_code_canon l : same_code l (canon l).
Proof.
  unfold same_code. unfold canon at 2. rewrite (squeezed_fix (canon l)); [unfold canon; rewrite drop_nl_idem; reflexivity|].
  unfold canon. apply squeezed_drop_nl. apply squeezed_squeeze.
Qed.

(* without comments the side conditions hold *)
Lemma squeezed_cel : forall l, squeezed l = true -> comments_end_lines l = true.
Proof.
  induction l as [|x l IH]; [reflexivity|]. cbn [squeezed comments_end_lines]. intros H.
  apply andb_true_iff in H. destruct H as [H H3]. apply andb_true_iff in H. destruct H as [H1 _].
  apply negb_true_iff in H1. rewrite H1, (IH H3). reflexivity.
Qed.

Lemma squeezed_run : forall l, squeezed l = true -> data_run_ok l = true.
Proof.
  induction l as [|x l IH]; [reflexivity|]. cbn [squeezed data_run_ok]. intros H.
  apply andb_true_iff in H. destruct H as [H H3]. apply andb_true_iff in H. destruct H as [H1 _].
  apply negb_true_iff in H1. rewrite H1, (IH H3). destruct (is_nl_item x || is_imm_item x)%bool; reflexivity.
Qed.

Lemma squeezed_data : forall l, squeezed l = true -> data_ok l = true.
Proof.
  induction l as [|x l IH]; [reflexivity|]. intros H. pose proof H as H'. cbn [squeezed] in H'.
  apply andb_true_iff in H'. destruct H' as [_ H3]. cbn [data_ok]. rewrite (IH H3), (squeezed_run l H3).
  destruct (is_data_item x); reflexivity.
Qed.

Lemma squeezed_code_ok l : squeezed l = true -> code_ok l = true.
Proof. intros H. unfold code_ok. rewrite (squeezed_cel l H), (squeezed_data l H). reflexivity. Qed.

Lemma code_ok_squeeze l : code_ok (squeeze l) = true.
Proof. apply squeezed_code_ok. apply squeezed_squeeze. Qed.

(* the simple version of H2 *)
Lemma no_data_ok : forall l, no_data l = true -> data_ok l = true.
Proof.
  induction l as [|x l IH]; [reflexivity|]. unfold no_data. cbn [forallb data_ok]. intros H.
  apply andb_true_iff in H. destruct H as [H1 H2]. apply negb_true_iff in H1. rewrite H1. apply (IH H2).
Qed.

Lemma same_items_squeeze l : code_ok l = true -> same_items l (squeeze l).
Proof. intros H. right. split; [apply same_code_squeeze|]. split; [exact H|apply code_ok_squeeze]. Qed.

(* Squeezing every file of the stack changes nothing (up to locations and the comment/newline of
   "expected X, got ..." errors). *)
Theorem drive_squeeze chk fs ign f1 f2 stack rs ns es N1 E1 R1 N2 E2 R2 :
  Forall (fun l => code_ok l = true) stack ->
  drive f1 chk fs ign stack rs ns es = Ok (N1, E1, R1) ->
  drive f2 chk fs ign (map squeeze stack) rs ns es = Ok (N2, E2, R2) ->
  map erase_node N1 = map erase_node N2 /\ map spell_err E1 = map spell_err E2 /\ R1 = R2.
Proof.
  intros Hok D1 D2.
  assert (HF : Forall2 same_items stack (map squeeze stack)).
  { clear D1 D2. induction Hok as [|l stack Hl _ IH]; cbn [map]; constructor; [apply same_items_squeeze; exact Hl|exact IH]. }
  apply (drive_same_code chk fs ign f1 f2 stack (map squeeze stack) rs ns ns es es N1 E1 R1 N2 E2 R2 HF eq_refl eq_refl D1 D2).
Qed.

(* ---------------------------------------------------------------------------------- *)
(* the squeezed run returns whenever the original items end with a newline               *)

Fixpoint lastnl (l : list lexitem) : bool :=
  match l with
  | [] => true
  | x :: l' => match l' with [] => is_nl_item x | _ :: _ => lastnl l' end
  end.

Lemma lastnl_cons x m : m <> [] -> lastnl (x :: m) = lastnl m.
Proof. destruct m; [contradiction|reflexivity]. Qed.

Lemma last_nl_lastnl l : last_nl l -> lastnl l = true.
Proof.
  intros [->|[pre [t [-> Ht]]]]; [reflexivity|].
  induction pre as [|a pre IH]; cbn [app].
  - cbn [lastnl is_nl_item]. rewrite Ht. reflexivity.
  - rewrite lastnl_cons; [exact IH|destruct pre; discriminate].
Qed.

Lemma lastnl_last_nl : forall l, lastnl l = true -> last_nl l.
Proof.
  induction l as [|x l IH]; intros H; [left; reflexivity|]. right. destruct l as [|y l'].
  - cbn [lastnl] in H. destruct x as [t| |]; cbn [is_nl_item] in H; try discriminate.
    exists [], t. split; [reflexivity|]. destruct (tt t); try discriminate; reflexivity.
  - cbn [lastnl] in H. destruct (IH H) as [E|[pre [t [E Ht]]]]; [discriminate|].
    exists (x :: pre), t. rewrite E. split; [reflexivity|exact Ht].
Qed.

Lemma lastnl_squeeze : forall l, lastnl l = true ->
  lastnl (squeeze l) = true /\ lastnl (canon l) = true /\ (l <> [] -> squeeze l <> []).
Proof.
  induction l as [|x l IH]; intros H.
  { split; [reflexivity|]. split; [reflexivity|]. intros C. contradiction. }
  destruct l as [|y l'].
  - cbn [lastnl] in H. rewrite squeeze_cons, canon_cons, (nl_not_comment x H), H, (blank_nl x H).
    change (canon []) with (@nil lexitem). cbn [lastnl].
    split; [exact H|]. split; [reflexivity|]. intros _. discriminate.
  - rewrite lastnl_cons in H by discriminate. destruct (IH H) as [A [B C]].
    assert (C' : squeeze (y :: l') <> []) by (apply C; discriminate).
    rewrite (squeeze_cons x (y :: l')), (canon_cons x (y :: l')). unfold blank_item.
    destruct (is_comment_item x) eqn:Ec.
    + rewrite orb_true_r. split; [exact A|]. split; [exact B|]. intros _. exact C'.
    + rewrite orb_false_r. destruct (is_nl_item x) eqn:En.
      * split; [|split; [exact B|intros _; discriminate]].
        destruct (canon (y :: l')) as [|z m] eqn:Ecan; [cbn [lastnl]; exact En|].
        rewrite lastnl_cons by discriminate. exact B.
      * rewrite lastnl_cons by exact C'. split; [exact A|]. split; [exact A|]. intros _. discriminate.
Qed.

Lemma drop_nl_length l : length (drop_nl l) <= length l.
Proof. induction l as [|x l IH]; [apply le_n|]. cbn [drop_nl]. destruct (is_nl_item x); cbn [length]; lia. Qed.

Lemma collapse_nl_length l : length (collapse_nl l) <= length l.
Proof.
  induction l as [|x l IH]; [apply le_n|]. cbn [collapse_nl]. destruct (is_nl_item x); cbn [length]; [|lia].
  pose proof (drop_nl_length (collapse_nl l)). lia.
Qed.

Lemma filter_len {A} (f : A -> bool) l : length (filter f l) <= length l.
Proof. induction l as [|x l IH]; [apply le_n|]. cbn [filter]. destruct (f x); cbn [length]; lia. Qed.

Lemma squeeze_length l : length (squeeze l) <= length l.
Proof.
  unfold squeeze, drop_comments. pose proof (collapse_nl_length (filter (fun it => negb (is_comment_item it)) l)).
  pose proof (filter_len (fun it => negb (is_comment_item it)) l). lia.
Qed.

(* ================================================================================== *)
(* Part E: whole files and texts.                                                       *)

(* parse_from_file, against the driver run on the squeezed items of the base file *)
Theorem parse_file_squeeze chk fs base ign id text rs0 items f2 N1 E1 R1 N2 E2 R2 :
  import_file fs base (mkrs []) = (inr (id, text), rs0) ->
  lex_all chk (Some id) (normalize_text text) = Ok items ->
  code_ok items = true ->
  parse_from_file chk fs base ign = Ok (N1, E1, R1) ->
  drive f2 chk fs ign [squeeze items] rs0 [PProgramEntry (Some id) (mkraw range0 (Some id))] [] = Ok (N2, E2, R2) ->
  map erase_node N1 = map erase_node N2 /\ map spell_err E1 = map spell_err E2 /\ R1 = R2.
Proof.
  intros Hi Hl Hok P D. unfold parse_from_file in P. rewrite Hi, Hl in P. cbn [bind] in P.
  assert (HF : Forall (fun l => code_ok l = true) [items]) by (constructor; [exact Hok|constructor]).
  exact (drive_squeeze chk fs ign _ f2 [items] rs0 _ _ N1 E1 R1 N2 E2 R2 HF P D).
Qed.

(* parse_from_text: the squeezed run needs no more fuel, returns, and agrees *)
Theorem parse_text_squeeze chk text items N1 E1 :
  lex_all chk (Some 0%N) (normalize_text text) = Ok items ->
  code_ok items = true ->
  parse_from_text chk text = Ok (N1, E1) ->
  exists N2 E2 R2,
    drive (2 * store_size [(base_path, inl text)] + 8) chk [(base_path, inl text)] false [squeeze items]
          (mkrs [base_path]) [PProgramEntry (Some 0%N) (mkraw range0 (Some 0%N))] [] = Ok (N2, E2, R2) /\
    map erase_node N1 = map erase_node N2 /\ map spell_err E1 = map spell_err E2.
Proof.
  intros Hl Hok P.
  assert (Hi : import_file [(base_path, inl text)] base_path (mkrs []) = (inr (0%N, text), mkrs [base_path])) by reflexivity.
  unfold parse_from_text in P.
  destruct (parse_from_file chk [(base_path, inl text)] base_path false) as [[[n e] r]| |] eqn:PF; cbn [bind] in P; try discriminate.
  inversion P; subst n e.
  destruct (lexed_text chk 0%N text) as [items' [Hl' [Hlast Hlen]]]. rewrite Hl in Hl'. inversion Hl'; subst items'.
  destruct (lastnl_squeeze items (last_nl_lastnl items Hlast)) as [Hsq _].
  destruct (drive_total chk [(base_path, inl text)] false (2 * store_size [(base_path, inl text)] + 8)
              [squeeze items] (mkrs [base_path]) [PProgramEntry (Some 0%N) (mkraw range0 (Some 0%N))] [])
    as [[[N2 E2] R2] D].
  - constructor; [apply lastnl_last_nl; exact Hsq|constructor].
  - pose proof (squeeze_length items). cbn [imported stack_size store_size pending].
    replace (mem_str base_path [base_path]) with true by reflexivity. lia.
  - exists N2, E2, R2. split; [exact D|].
    destruct (parse_file_squeeze chk _ base_path false 0%N text (mkrs [base_path]) items _ N1 E1 r N2 E2 R2 Hi Hl Hok PF D) as [A [B _]].
    split; assumption.
Qed.

(* two single files that are the same code *)
Corollary drive_items_same_code chk fs ign f1 f2 items1 items2 rs ns es N1 E1 R1 N2 E2 R2 :
  same_code items1 items2 -> code_ok items1 = true -> code_ok items2 = true ->
  drive f1 chk fs ign [items1] rs ns es = Ok (N1, E1, R1) ->
  drive f2 chk fs ign [items2] rs ns es = Ok (N2, E2, R2) ->
  map erase_node N1 = map erase_node N2 /\ map spell_err E1 = map spell_err E2 /\ R1 = R2.
Proof.
  intros Hc K1 K2 D1 D2.
  assert (HF : Forall2 same_items [items1] [items2]).
  { constructor; [right; split; [exact Hc|split; assumption]|constructor]. }
  exact (drive_same_code chk fs ign f1 f2 _ _ rs ns ns es es N1 E1 R1 N2 E2 R2 HF eq_refl eq_refl D1 D2).
Qed.

(* one statement, both lists at the start of a statement (no leading comment / blank line) *)
Corollary parse_one_statement l1 l2 :
  same_code l1 l2 -> code_ok l1 = true -> code_ok l2 = true ->
  (forall x r, l1 = x :: r -> blank_item x = false) -> (forall x r, l2 = x :: r -> blank_item x = false) ->
  exists x1 r1 x2 r2, parse_one l1 = Ok (x1, r1) /\ parse_one l2 = Ok (x2, r2) /\ same_outcome x1 r1 x2 r2.
Proof.
  intros Hc K1 K2 P1 P2.
  destruct (parse_one_same_code l1 l2 Hc K1 K2) as [[x [s [l1' [E [B _]]]]]|[[x [s [l2' [E [B _]]]]]|H]].
  - exfalso. rewrite (P1 s l1' E) in B. discriminate.
  - exfalso. rewrite (P2 s l2' E) in B. discriminate.
  - exact H.
Qed.

(* ================================================================================== *)
(* Part F: the hypotheses are satisfiable, and each of them is needed.                  *)

Definition lines (ls : list str) : str := concat (map (fun l => l ++ [c_nl]) ls).
Definition drv (items : list lexitem) := drive 200 false [] true [items] (mkrs []) [] [].

(* a realistic program: comments after instructions, after labels, on their own lines, after data
   directives, blank lines; the side conditions hold (and the simple "no data directive" one does not) *)
Definition sample : str :=
  lines [ «"# sum of an array"»;
          «"main:   li   t0, 2        # counter"»;
          «"        la   t1, data"»;
          «"loop:   # body"»;
          «"        lw   t2, 0(t1)    # load"»;
          «""»;
          «"        add  a0, a0, t2"»;
          «"        addi t1, t1, 4"»;
          «"        addi t0, t0, -1"»;
          «"        bnez t0, loop"»;
          «"        jalr ra           # return"»;
          «""»;
          «"        .data"»;
          «"data:   .word 1,"»;
          «"              2           # two values"»;
          «"        .word 3           # another one"»;
          «"        # the end"» ].

Example sample_ok :
  match lex_all true (Some 0%N) (normalize_text sample) with
  | Ok items => code_ok items = true /\ no_data items = false /\ length items = 63 /\ length (squeeze items) = 52
  | _ => False
  end.
Proof. vm_compute. repeat split. Qed.

(* (i) H2 is needed: a comment between the values of a data directive *)
Example data_comment_counterexample :
  match lex_all false (Some 0%N) (lines [«".word 1 # c"»; «"2"»]) with
  | Ok items =>
      code_ok items = false /\ comments_end_lines items = true /\
      match drv items, drv (squeeze items) with
      | Ok (n1, e1, _), Ok (n2, e2, _) =>
          length e1 = 1 /\ length e2 = 0 /\ map erase_node n1 <> map erase_node n2
      | _, _ => False
      end
  | _ => False
  end.
Proof. vm_compute. repeat split. intros H. discriminate H. Qed.

Example data_comment_line_counterexample :
  match lex_all false (Some 0%N) (lines [«".word 1"»; «"# c"»; «"2"»]) with
  | Ok items =>
      code_ok items = false /\ comments_end_lines items = true /\
      match drv items, drv (squeeze items) with
      | Ok (n1, e1, _), Ok (n2, e2, _) =>
          length e1 = 1 /\ length e2 = 0 /\ map erase_node n1 <> map erase_node n2
      | _, _ => False
      end
  | _ => False
  end.
Proof. vm_compute. repeat split. intros H. discriminate H. Qed.

(* ... whereas a comment after the last value is fine *)
Example data_comment_fine :
  match lex_all false (Some 0%N) (lines [«".word 1 # c"»; «"# d"»; «"add a0, a0, a0"»]) with
  | Ok items => code_ok items = true
  | _ => False
  end.
Proof. vm_compute. reflexivity. Qed.

(* (ii) the normalisation of errors is needed: "expected register, got <comment>" / "got <newline>" *)
Example expected_got_counterexample :
  match lex_all false (Some 0%N) (lines [«"add a0 # c"»; «"nop"»]) with
  | Ok items =>
      code_ok items = true /\
      match drv items, drv (squeeze items) with
      | Ok (n1, e1, _), Ok (n2, e2, _) =>
          map erase_node n1 = map erase_node n2 /\ map erase_perr e1 <> map erase_perr e2 /\
          map spell_err e1 = map spell_err e2
      | _, _ => False
      end
  | _ => False
  end.
Proof. vm_compute. repeat split. intros H. discriminate H. Qed.

(* (iii) H1 is needed: a comment item NOT followed by a newline item (the lexer never produces this).
   The comment stops `add a0, a1` (an error, the rest of the line is skipped); without the comment the
   `a2` behind it is the third operand.  (Before the jalr fix the example was `jalr a0 #c nop`: the bare
   `jalr a0` swallowed the next token, the comment in one list, the `nop` in the other.) *)
Example comment_without_newline_counterexample :
  match lex_all false (Some 0%N) (lines [«"add a0, a1 # c"»; «"a2"»]) with
  | Ok items =>
      let items' := firstn 4 items ++ skipn 5 items in      (* add a0 a1 #c a2 <NL> *)
      comments_end_lines items' = false /\ data_ok items' = true /\
      match drv items', drv (squeeze items') with
      | Ok (n1, _, _), Ok (n2, _, _) => length n1 = 0 /\ length n2 = 1
      | _, _ => False
      end
  | _ => False
  end.
Proof. vm_compute. repeat split. Qed.

(* ... and "or the comment is the last item" would not do either: at the end of the items `jalr a0 #c`
   is a node (jalr looks at the comment and leaves it), `jalr a0` is an unexpected end of file (no node,
   no error) *)
Example comment_last_counterexample :
  match lex_all false (Some 0%N) (lines [«"jalr a0 # c"»]) with
  | Ok items =>
      let items' := firstn 3 items in                        (* jalr a0 #c *)
      comments_end_lines items' = false /\
      match drv items', drv (squeeze items') with
      | Ok (n1, e1, _), Ok (n2, e2, _) => length n1 = 1 /\ length n2 = 0 /\ e1 = [] /\ e2 = []
      | _, _ => False
      end
  | _ => False
  end.
Proof. vm_compute. repeat split. Qed.

(* ================================================================================== *)
(* Part G: H1 holds of what the lexer produces for a text that ends with a newline.     *)

Lemma scan_stops stop : forall s p acc a s' p', scan stop s p acc = (a, s', p') ->
  s' = [] \/ exists c r', s' = c :: r' /\ stop (hd_opt r') = true.
Proof.
  induction s as [|c r IH]; intros p acc a s' p' H; cbn [scan] in H.
  - inversion H. left. reflexivity.
  - destruct (stop (hd_opt r)) eqn:Es.
    + inversion H; subst. right. exists c, r. split; [reflexivity|exact Es].
    + apply (IH _ _ _ _ _ H).
Qed.

Ltac crunch :=
  repeat match goal with
         | |- context [match ?x with _ => _ end] => destruct x
         end.

Lemma fin_not_comment chk ty rg file s1 p1 it s' p' :
  fin chk (mktok ty rg file) s1 p1 = Ok (Some (it, s', p')) -> it = LTok (mktok ty rg file) /\ s' = s1.
Proof.
  unfold fin, check_tok. crunch; cbn [bind]; intros H; inversion H; split; reflexivity.
Qed.

Lemma b_one_item chk file ty s p it s' p' : b_one chk file ty s p = Ok (Some (it, s', p')) ->
  exists rg, it = LTok (mktok ty rg file).
Proof.
  unfold b_one. destruct (consume s p) as [sa pa]. intros H. apply fin_not_comment in H. destruct H as [-> _]. eauto.
Qed.

Lemma b_str_item chk file s p it s' p' : b_str chk file s p = Ok (Some (it, s', p')) -> is_comment_item it = false.
Proof.
  unfold b_str. destruct (consume s p) as [s1 p1].
  destruct (acc_string (S (length s1)) s1 p1 []) as [[[[text s2] p2]|[[[epos k] s2] p2]]| |]; cbn [bind]; try discriminate.
  - destruct (consume s2 p2) as [s3 p3]. intros H. apply fin_not_comment in H. destruct H as [-> _]. reflexivity.
  - destruct (skip_line s2 p2) as [s3 p3]. intros H. inversion H. reflexivity.
Qed.

Lemma b_chr_item file s p it s' p' : b_chr file s p = Ok (Some (it, s', p')) -> is_comment_item it = false.
Proof.
  unfold b_chr, chr_cont, invalid_string. crunch; intros H; inversion H; reflexivity.
Qed.

Lemma b_sym_item chk file c s p it s' p' : b_sym chk file c s p = Ok (Some (it, s', p')) -> is_comment_item it = false.
Proof.
  unfold b_sym, fin, check_tok. crunch; cbn [bind]; intros H; inversion H; reflexivity.
Qed.

Lemma b_hash_rest chk file s p it s' p' : b_hash chk file s p = Ok (Some (it, s', p')) ->
  s' = [] \/ exists r, s' = c_nl :: r.
Proof.
  unfold b_hash. destruct (scan stop_comment s p []) as [[acc sa] pa] eqn:Es.
  destruct (consume sa pa) as [sb pb] eqn:Ec. intros H. apply fin_not_comment in H. destruct H as [_ ->].
  destruct (scan_stops stop_comment _ _ _ _ _ _ Es) as [->|[c [r' [-> Hst]]]].
  - cbn [consume] in Ec. inversion Ec. left. reflexivity.
  - cbn [consume] in Ec. inversion Ec; subst sb. destruct r' as [|n r'']; [left; reflexivity|].
    cbn [hd_opt stop_comment] in Hst. apply N.eqb_eq in Hst. subst n. right. eauto.
Qed.

Lemma next_comment_raw chk file : forall f s p it s' p',
  next f chk file s p = Ok (Some (it, s', p')) -> is_comment_item it = true ->
  s' = [] \/ exists r, s' = c_nl :: r.
Proof.
  induction f as [|f IH]; intros s p it s' p' H Hc; [discriminate|].
  rewrite next_unfold in H. destruct (skip_ws s p) as [s1 p1].
  destruct (skip_dots (S (length s1)) s1 p1) as [[s2 p2]| |]; cbn [bind] in H; try discriminate.
  unfold body in H. destruct s2 as [|c r]; [discriminate|].
  destruct (N.eqb c c_nl). { apply b_one_item in H. destruct H as [rg ->]. discriminate. }
  destruct (N.eqb c c_lparen). { apply b_one_item in H. destruct H as [rg ->]. discriminate. }
  destruct (N.eqb c c_rparen). { apply b_one_item in H. destruct H as [rg ->]. discriminate. }
  destruct (N.eqb c c_dot).
  { unfold b_dot in H. destruct (scan stop_directive (c :: r) p2 []) as [[acc sa] pa].
    destruct (consume sa pa) as [sb pb]. destruct (str_eqb (rev acc) [c_dot]).
    - apply (IH _ _ _ _ _ H Hc).
    - apply fin_not_comment in H. destruct H as [-> _]. discriminate. }
  destruct (N.eqb c c_hash). { apply (b_hash_rest _ _ _ _ _ _ _ H). }
  destruct (N.eqb c c_dquote). { apply b_str_item in H. congruence. }
  destruct (N.eqb c c_squote). { apply b_chr_item in H. congruence. }
  apply b_sym_item in H. congruence.
Qed.

Lemma next_nl_raw chk file f r p it s' p' :
  next (S f) chk file (c_nl :: r) p = Ok (Some (it, s', p')) -> is_nl_item it = true.
Proof.
  change (next (S f) chk file (c_nl :: r) p) with (b_one chk file TNewline (c_nl :: r) p).
  intros H. apply b_one_item in H. destruct H as [rg ->]. reflexivity.
Qed.

Lemma run_cel chk file : forall n s, length s <= n -> Lb s -> forall p,
  exists new, length new <= length s /\
    (forall acc B g, lex_loop (length new + g) chk file (s ++ B) p acc =
                     lex_loop g chk file B (advs s p) (rev new ++ acc)) /\
    comments_end_lines new = true /\ ((exists r, s = c_nl :: r) -> nlhead new = true).
Proof.
  induction n as [|n IH]; intros s Hn HL p.
  - destruct s; [|cbn [length] in Hn; lia]. exists []. split; [cbn; lia|].
    split; [intros; reflexivity|]. split; [reflexivity|]. intros [r Hr]. discriminate.
  - destruct HL as [->|H].
    { exists []. split; [cbn; lia|]. split; [intros; reflexivity|]. split; [reflexivity|]. intros [r Hr]. discriminate. }
    destruct (next_E chk file s p H) as [it [m [s' [p' [HN [H1 [H2 [H3 [H4 [H5 H6]]]]]]]]]].
    assert (Hlen : length s = length m + length s') by (rewrite H1, app_length; reflexivity).
    assert (Hm : 0 < length m) by (destruct m; [contradiction|cbn [length]; lia]).
    destruct (IH s' ltac:(lia) H3 p') as [new [A1 [A2 [A3 A4]]]].
    pose proof (HN [] 0) as HN0. rewrite !app_nil_r in HN0.
    exists (it :: new). split; [cbn [length]; lia|]. split; [|split].
    + intros acc B g. cbn [length Nat.add lex_loop]. rewrite HN. cbn [bind]. rewrite A2.
      rewrite H2, <- advs_app, <- H1. cbn [rev]. rewrite <- app_assoc. reflexivity.
    + cbn [comments_end_lines]. rewrite A3, andb_true_r. destruct (is_comment_item it) eqn:Ec; [|reflexivity].
      destruct (next_comment_raw chk file _ _ _ _ _ _ HN0 Ec) as [Es|[r Es]].
      * exfalso. destruct H5 as [[Ha _]|[_ Hb]].
        -- rewrite (comment_not_nl it Ec) in Ha. discriminate.
        -- subst s'. rewrite app_nil_r in H1. subst m. exact (E_not_nonl _ H Hb).
      * assert (Hh : nlhead new = true) by (apply A4; exists r; exact Es).
        destruct new as [|y new']; [discriminate|exact Hh].
    + intros [r Hr]. cbn [nlhead]. rewrite Hr in HN0. apply (next_nl_raw chk file 0 r p it s' p' HN0).
Qed.

Lemma lex_all_cel chk file s ia : Lb s -> lex_all chk file s = Ok ia -> comments_end_lines ia = true.
Proof.
  intros HL H. destruct (run_cel chk file (length s) s (le_n _) HL cur0) as [new [A1 [A2 [A3 _]]]].
  assert (ia = new).
  { unfold lex_all in H.
    replace (S (S (length s))) with (length new + S (S (length s) - length new)) in H by lia.
    pose proof (A2 [] [] (S (S (length s) - length new))) as A2'. rewrite !app_nil_r in A2'.
    rewrite A2', lex_loop_nil, rev_involutive in H. inversion H. reflexivity. }
  subst new. exact A3.
Qed.

(* H1 is a theorem about lexer output *)
Theorem lexed_comments_end_lines chk file text items :
  lex_all chk file (normalize_text text) = Ok items -> comments_end_lines items = true.
Proof. apply lex_all_cel. apply normalize_Lb. Qed.

(* so, for a text, only the data-directive condition is left *)
Theorem lexed_code_ok chk file text items :
  lex_all chk file (normalize_text text) = Ok items -> data_ok items = true -> code_ok items = true.
Proof. intros Hl Hd. unfold code_ok. rewrite (lexed_comments_end_lines chk file text items Hl), Hd. reflexivity. Qed.

Theorem parse_text_squeeze_data chk text items N1 E1 :
  lex_all chk (Some 0%N) (normalize_text text) = Ok items ->
  data_ok items = true ->
  parse_from_text chk text = Ok (N1, E1) ->
  exists N2 E2 R2,
    drive (2 * store_size [(base_path, inl text)] + 8) chk [(base_path, inl text)] false [squeeze items]
          (mkrs [base_path]) [PProgramEntry (Some 0%N) (mkraw range0 (Some 0%N))] [] = Ok (N2, E2, R2) /\
    map erase_node N1 = map erase_node N2 /\ map spell_err E1 = map spell_err E2.
Proof.
  intros Hl Hd P. apply (parse_text_squeeze chk text items N1 E1 Hl (lexed_code_ok chk _ text items Hl Hd) P).
Qed.

Lemma code_ok_canon l : code_ok (canon l) = true.
Proof. apply squeezed_code_ok. unfold canon. apply squeezed_drop_nl. apply squeezed_squeeze. Qed.

Lemma same_items_canon l : code_ok l = true -> same_items l (canon l).
Proof. intros H. right. split; [apply same_code_canon|]. split; [exact H|apply code_ok_canon]. Qed.

(* two texts whose items are the same code (e.g. one is the other with end-of-line comments removed or
   changed): parse_from_text gives the same nodes and errors.  The two runs read from different stores;
   they agree because the only file there is has been read. *)
Theorem parse_texts_same_code chk text1 text2 items1 items2 N1 E1 N2 E2 :
  lex_all chk (Some 0%N) (normalize_text text1) = Ok items1 ->
  lex_all chk (Some 0%N) (normalize_text text2) = Ok items2 ->
  same_code items1 items2 -> data_ok items1 = true -> data_ok items2 = true ->
  parse_from_text chk text1 = Ok (N1, E1) -> parse_from_text chk text2 = Ok (N2, E2) ->
  map erase_node N1 = map erase_node N2 /\ map spell_err E1 = map spell_err E2.
Proof.
  intros L1 L2 Hc D1 D2 P1 P2.
  pose proof (lexed_code_ok chk _ text1 items1 L1 D1) as K1. pose proof (lexed_code_ok chk _ text2 items2 L2 D2) as K2.
  unfold parse_from_text, parse_from_file in P1, P2.
  change (import_file [(base_path, inl text1)] base_path (mkrs [])) with (@inr reader_error _ (0%N, text1), mkrs [base_path]) in P1.
  change (import_file [(base_path, inl text2)] base_path (mkrs [])) with (@inr reader_error _ (0%N, text2), mkrs [base_path]) in P2.
  cbv iota beta in P1, P2. rewrite L1 in P1. rewrite L2 in P2. cbn [bind] in P1, P2.
  set (fs1 := [(base_path, @inl str unit text1)]) in *. set (fs2 := [(base_path, @inl str unit text2)]) in *.
  destruct (drive (2 * store_size fs1 + 8) chk fs1 false [items1] (mkrs [base_path])
              [PProgramEntry (Some 0%N) (mkraw range0 (Some 0%N))] []) as [[[n1 e1] r1]| |] eqn:G1; cbn [bind] in P1; try discriminate.
  destruct (drive (2 * store_size fs2 + 8) chk fs2 false [items2] (mkrs [base_path])
              [PProgramEntry (Some 0%N) (mkraw range0 (Some 0%N))] []) as [[[n2 e2] r2]| |] eqn:G2; cbn [bind] in P2; try discriminate.
  inversion P1; inversion P2; subst.
  set (Inv := fun rs : rstate => mem_str base_path (imported rs) = true).
  assert (Hcase : forall text path rs, Inv rs ->
            import_file [(base_path, @inl str unit text)] path rs =
            (if str_eqb path base_path then (inl REFileAlreadyRead, rs) else (inl REInvalidPath, rs))).
  { intros text path rs HI. unfold import_file. cbn [assoc_str]. destruct (str_eqb path base_path) eqn:Ep; [|reflexivity].
    apply str_eqb_eq in Ep. subst path. unfold Inv in HI. rewrite HI. reflexivity. }
  assert (HF : Forall2 same_items [items1] [items2]).
  { constructor; [right; split; [exact Hc|split; assumption]|constructor]. }
  destruct (drive_same_code_stores fs1 fs2 Inv) with (chk := chk) (ign := false) (f1 := 2 * store_size fs1 + 8) (f2 := 2 * store_size fs2 + 8)
    (st1 := [items1]) (st2 := [items2]) (rs := mkrs [base_path]) (ns1 := [PProgramEntry (Some 0%N) (mkraw range0 (Some 0%N))])
    (ns2 := [PProgramEntry (Some 0%N) (mkraw range0 (Some 0%N))]) (es1 := @nil parse_error) (es2 := @nil parse_error)
    (N1 := N1) (E1 := E1) (R1 := r1) (N2 := N2) (E2 := E2) (R2 := r2) as [A [B _]]; try assumption; try reflexivity.
  - intros path rs HI. unfold fs1, fs2. rewrite (Hcase text1 path rs HI), (Hcase text2 path rs HI). reflexivity.
  - intros path rs r rs' HI Himp. unfold fs1 in Himp. rewrite (Hcase text1 path rs HI) in Himp.
    destruct (str_eqb path base_path); inversion Himp; subst; exact HI.
  - split; assumption.
Qed.

(* [same_code] compares items with their positions: between two different texts it only holds when no
   other token moves (here: comments reworded, same lengths).  For texts whose tokens move, go through the
   squeezed items: items1 ~ squeeze items1 (drive_squeeze), squeeze items1 and squeeze items2 equal up to
   locations (location erasure, Spec/ParamSpec.v), squeeze items2 ~ items2. *)
Example reworded_comments_same_code :
  match lex_all true (Some 0%N) (lines [«"main: li t0, 2   # counter"»; «"  jalr ra  # return"»; «".word 7 # seven"»]),
        lex_all true (Some 0%N) (lines [«"main: li t0, 2   # COUNTER"»; «"  jalr ra  # go out"»; «".word 7 # 3 + 4"»]) with
  | Ok items1, Ok items2 => same_code items1 items2 /\ items1 <> items2 /\ data_ok items1 = true /\ data_ok items2 = true
  | _, _ => False
  end.
Proof. vm_compute. repeat split. intros H. discriminate H. Qed.

(* bridging with location erasure: errors equal up to locations are equal up to locations and got-comment *)
Lemma norm_tok_tt t1 t2 : tt t1 = tt t2 -> tt (norm_tok t1) = tt (norm_tok t2).
Proof. unfold norm_tok. intros H. rewrite H. destruct (tt t2) eqn:E; cbn [tt]; try reflexivity; congruence. Qed.

Lemma spell_err_erase e1 e2 : erase_perr e1 = erase_perr e2 -> spell_err e1 = spell_err e2.
Proof.
  unfold spell_err. destruct e1; destruct e2; cbn [erase_perr norm_err]; intros H; try discriminate; try exact H.
  unfold erase_tok in *. inversion H as [[Hex Htt]]. rewrite (norm_tok_tt _ _ Htt). reflexivity.
Qed.
