(* C03: structural facts about the control-flow graph built by the pipeline of Model/Lints.v
   (`gen_full_cfg` / `gen_cfg_upto`): successor/predecessor symmetry after every stage,
   the kinds of edges of the finished graph, returns and exit ecalls have no successors,
   and the unreachable-code lint. *)
From Coq Require Import List Arith Lia ZifyNat ZifyBool Sorted.
From RV.Model Require Import Base I32 Imm Lexer Isa Parser Cfg Avail Live Lints.
From RV.Spec Require Import CfgSpec.
Import ListNotations.
Local Open Scope nat_scope.

(* ---------------------------------------------------------------------------------------- *)
(* lists                                                                                     *)
(* ---------------------------------------------------------------------------------------- *)
Lemma nth_opt_nil {A} (i : nat) : nth_opt (@nil A) i = None.
Proof. destruct i; reflexivity. Qed.

Lemma nth_opt_lt {A} (l : list A) : forall i x, nth_opt l i = Some x -> i < length l.
Proof.
  induction l as [|y l IH]; intros i x H.
  - rewrite nth_opt_nil in H. discriminate.
  - destruct i; simpl in *. lia. apply IH in H. lia.
Qed.

Lemma nth_opt_some {A} (l : list A) : forall i, i < length l -> exists x, nth_opt l i = Some x.
Proof.
  induction l as [|y l IH]; intros i H; simpl in H. lia.
  destruct i; simpl. eauto. apply IH. lia.
Qed.

Lemma nth_opt_In {A} (l : list A) : forall i x, nth_opt l i = Some x -> In x l.
Proof.
  induction l as [|y l IH]; intros i x H.
  - rewrite nth_opt_nil in H. discriminate.
  - destruct i; simpl in *. inversion H; auto. eauto.
Qed.

Lemma nth_opt_map {A B} (f : A -> B) (l : list A) : forall i, nth_opt (map f l) i = option_map f (nth_opt l i).
Proof.
  induction l as [|y l IH]; intros i; simpl. destruct i; reflexivity.
  destruct i; simpl; auto.
Qed.

Lemma nth_opt_app_l {A} (l l' : list A) : forall i, i < length l -> nth_opt (l ++ l') i = nth_opt l i.
Proof.
  induction l as [|y l IH]; intros i H; simpl in *. lia.
  destruct i; simpl; auto. apply IH. lia.
Qed.

Lemma nth_opt_app_len {A} (l : list A) (x : A) : nth_opt (l ++ [x]) (length l) = Some x.
Proof. induction l; simpl; auto. Qed.

Lemma length_upd {A} (l : list A) : forall i f, length (upd l i f) = length l.
Proof. induction l; intros [|i] f; simpl; auto. Qed.

Lemma nth_opt_upd {A} (l : list A) : forall i f j,
  nth_opt (upd l i f) j = if Nat.eqb i j then option_map f (nth_opt l j) else nth_opt l j.
Proof.
  induction l as [|y l IH]; intros i f j.
  - simpl. destruct (Nat.eqb i j); reflexivity.
  - destruct i, j; simpl; auto.
Qed.

Lemma map_upd {A B} (p : A -> B) (l : list A) : forall i f,
  (forall c, p (f c) = p c) -> map p (upd l i f) = map p l.
Proof.
  induction l as [|y l IH]; intros [|i] f H; simpl; auto.
  - now rewrite H.
  - now rewrite IH.
Qed.

Lemma fold_left_inv {A B} (P : A -> Prop) (f : A -> B -> A) (l : list B) :
  forall a, P a -> (forall a b, In b l -> P a -> P (f a b)) -> P (fold_left f l a).
Proof.
  induction l as [|b l IH]; intros a Ha Hf; simpl; auto.
  apply IH. apply Hf; simpl; auto. intros; apply Hf; simpl; auto.
Qed.

(* ---------------------------------------------------------------------------------------- *)
(* sorted index sets                                                                         *)
(* ---------------------------------------------------------------------------------------- *)
Definition srt (l : list nat) : Prop := StronglySorted lt l.

Lemma srt_nil : srt []. Proof. constructor. Qed.
Lemma srt_one x : srt [x]. Proof. repeat constructor. Qed.

Lemma in_ins x y l : In y (ins x l) <-> y = x \/ In y l.
Proof.
  induction l as [|z l IH]; simpl. intuition.
  destruct (Nat.eqb x z) eqn:E1. apply Nat.eqb_eq in E1. subst. simpl. intuition.
  destruct (Nat.ltb x z); simpl. intuition. rewrite IH. intuition.
Qed.

Lemma srt_ins x l : srt l -> srt (ins x l).
Proof.
  unfold srt. induction l as [|z l IH]; intros H; simpl. repeat constructor.
  inversion H as [|? ? Hs Hf]; subst.
  destruct (Nat.eqb x z) eqn:E1; auto.
  destruct (Nat.ltb x z) eqn:E2.
  - apply Nat.ltb_lt in E2. constructor; auto. constructor; auto.
    rewrite Forall_forall in *. intros y Hy. apply Hf in Hy. lia.
  - apply Nat.eqb_neq in E1. apply Nat.ltb_ge in E2. constructor; auto.
    rewrite Forall_forall in *. intros y Hy. apply in_ins in Hy. destruct Hy as [->|Hy]. lia. auto.
Qed.

Lemma in_del_weak x y l : In y (del x l) -> In y l.
Proof.
  induction l as [|z l IH]; simpl; auto.
  destruct (Nat.eqb x z); simpl; intuition.
Qed.

Lemma del_not_in x l : ~ In x l -> del x l = l.
Proof.
  induction l as [|z l IH]; simpl; auto. intros H.
  destruct (Nat.eqb x z) eqn:E. apply Nat.eqb_eq in E. subst. intuition.
  f_equal. apply IH. intuition.
Qed.

Lemma in_del x y l : srt l -> (In y (del x l) <-> y <> x /\ In y l).
Proof.
  unfold srt. induction l as [|z l IH]; intros H; simpl. intuition.
  inversion H as [|? ? Hs Hf]; subst. rewrite Forall_forall in Hf.
  destruct (Nat.eqb x z) eqn:E.
  - apply Nat.eqb_eq in E. subst. split.
    + intros Hy. split; auto. apply Hf in Hy. lia.
    + intros [Hn [Hy|Hy]]; congruence.
  - apply Nat.eqb_neq in E. simpl. rewrite IH by auto. split.
    + intros [->|[? ?]]; auto.
    + intros [Hn [->|Hy]]; auto.
Qed.

Lemma srt_del x l : srt l -> srt (del x l).
Proof.
  unfold srt. induction l as [|z l IH]; intros H; simpl; auto.
  inversion H as [|? ? Hs Hf]; subst.
  destruct (Nat.eqb x z); auto. constructor; auto.
  rewrite Forall_forall in *. intros y Hy. apply in_del_weak in Hy. auto.
Qed.

Lemma srt_NoDup l : srt l -> NoDup l.
Proof.
  unfold srt. induction l as [|z l IH]; intros H. constructor.
  inversion H as [|? ? Hs Hf]; subst. constructor; auto.
  rewrite Forall_forall in Hf. intros Hz. apply Hf in Hz. lia.
Qed.

Lemma srt_filter f l : srt l -> srt (filter f l).
Proof.
  unfold srt. induction l as [|z l IH]; intros H; simpl; auto.
  inversion H as [|? ? Hs Hf]; subst.
  destruct (f z); auto. constructor; auto.
  rewrite Forall_forall in *. intros y Hy. apply filter_In in Hy. apply Hf, Hy.
Qed.

Lemma memn_In x l : memn x l = true <-> In x l.
Proof.
  induction l as [|z l IH]; simpl. intuition discriminate.
  rewrite Bool.orb_true_iff, IH, Nat.eqb_eq. intuition.
Qed.

Lemma memn_false x l : memn x l = false <-> ~ In x l.
Proof. rewrite <- memn_In. destruct (memn x l); intuition congruence. Qed.

(* a fold of updates with one function over a duplicate-free index list *)
Lemma fold_upd_nth {A} (f : A -> A) (ps : list nat) : NoDup ps -> forall (g : list A) j,
  nth_opt (fold_left (fun g p => upd g p f) ps g) j
  = if memn j ps then option_map f (nth_opt g j) else nth_opt g j.
Proof.
  induction ps as [|p ps IH]; intros Hnd g j; simpl; auto.
  inversion Hnd as [|? ? Hp Hnd']; subst.
  rewrite IH by auto. rewrite nth_opt_upd.
  destruct (Nat.eqb j p) eqn:E1.
  - apply Nat.eqb_eq in E1. subst. rewrite Nat.eqb_refl. simpl.
    apply memn_false in Hp. rewrite Hp. reflexivity.
  - rewrite Nat.eqb_sym in E1. rewrite E1. simpl. reflexivity.
Qed.

Lemma nth_opt_ext {A} (l : list A) : forall l', (forall i, nth_opt l i = nth_opt l' i) -> l = l'.
Proof.
  induction l as [|x l IH]; intros [|y l'] H; auto.
  - specialize (H 0). discriminate.
  - specialize (H 0). discriminate.
  - pose proof (H 0) as H0. simpl in H0. inversion H0; subst. f_equal.
    apply IH. intros i. apply (H (S i)).
Qed.

(* ---------------------------------------------------------------------------------------- *)
(* graph predicates on node lists                                                            *)
(* ---------------------------------------------------------------------------------------- *)
Definition E (g : list cnode) (a b : nat) : Prop := exists c, nth_opt g a = Some c /\ In b (nexts c).
Definition P (g : list cnode) (a b : nat) : Prop := exists c, nth_opt g b = Some c /\ In a (prevs c).
Definition symN (g : list cnode) : Prop := forall a b, E g a b <-> P g a b.
Definition sorted (g : list cnode) : Prop :=
  forall i c, nth_opt g i = Some c -> srt (nexts c) /\ srt (prevs c).
Definition SS (g : list cnode) : Prop := symN g /\ sorted g.

Lemma symN_Sym g : symN (gnodes g) -> Sym g.
Proof.
  intros H. split.
  - intros i j ci Hi Hj. destruct (proj1 (H i j)) as [cj [? ?]]. exists ci; auto. exists cj; auto.
  - intros i j cj Hj Hi. destruct (proj2 (H i j)) as [ci [? ?]]. exists cj; auto. exists ci; auto.
Qed.

(* label lookup depends on the label sets only *)
Fixpoint flab (s : str) (ls : list (list (wth str))) (i : nat) : option nat :=
  match ls with
  | [] => None
  | l :: ls' => if mem_name s l then Some i else flab s ls' (S i)
  end.

Lemma find_label_flab s g : forall i, find_label s g i = flab s (map clabels g) i.
Proof. induction g as [|c g IH]; intros i; simpl; auto. destruct (mem_name s (clabels c)); auto. Qed.

Lemma flab_lt s ls : forall i j, flab s ls i = Some j -> i <= j < i + length ls.
Proof.
  induction ls as [|l ls IH]; intros i j H; simpl in *. discriminate.
  destruct (mem_name s l). inversion H; lia. apply IH in H. lia.
Qed.

(* an edge justified by the instruction at its source: fall-through or written target *)
Definition kind0 (labs : list (list (wth str))) (i j : nat) (n : pnode) : Prop :=
  (j = S i /\ is_return n = false /\ is_unconditional_jump n = false) \/
  (exists l, jumps_to n = Some l /\ flab (wv l) labs 0 = Some j).

Definition edgesQ (g : list cnode) : Prop :=
  forall a c b, nth_opt g a = Some c -> In b (nexts c) ->
    is_return (cn c) = false /\ kind0 (map clabels g) a b (cn c).

Definition WF (g : list cnode) : Prop := SS g /\ edgesQ g.

(* pointwise edits of the successor / predecessor lists *)
Definition edit (fn fp : list nat -> list nat) (c : cnode) : cnode :=
  set_prevs (set_nexts c (fn (nexts c))) (fp (prevs c)).
Definition pwe (FN FP : nat -> list nat -> list nat) (g g' : list cnode) : Prop :=
  forall j, nth_opt g' j = option_map (edit (FN j) (FP j)) (nth_opt g j).

Lemma edit_id c : edit (fun l => l) (fun l => l) c = c.
Proof. destruct c; reflexivity. Qed.

Lemma pwe_map {B} (p : cnode -> B) FN FP g g' :
  (forall fn fp c, p (edit fn fp c) = p c) -> pwe FN FP g g' -> map p g' = map p g.
Proof.
  intros Hp H. apply nth_opt_ext. intros i. rewrite !nth_opt_map, H.
  destruct (nth_opt g i); simpl; auto. now rewrite Hp.
Qed.

Lemma pwe_cn FN FP g g' : pwe FN FP g g' -> map cn g' = map cn g.
Proof. apply pwe_map. reflexivity. Qed.
Lemma pwe_clabels FN FP g g' : pwe FN FP g g' -> map clabels g' = map clabels g.
Proof. apply pwe_map. reflexivity. Qed.
Lemma pwe_length FN FP g g' : pwe FN FP g g' -> length g' = length g.
Proof. intros H. apply pwe_cn in H. rewrite <- (map_length cn g'), H. apply map_length. Qed.

Lemma pwe_E FN FP g g' : pwe FN FP g g' ->
  forall a b, E g' a b <-> exists c, nth_opt g a = Some c /\ In b (FN a (nexts c)).
Proof.
  intros H a b. unfold E. rewrite H. split.
  - intros [c' [Hc Hb]]. destruct (nth_opt g a) as [c|]; simpl in Hc; inversion Hc; subst.
    exists c. auto.
  - intros [c [Hc Hb]]. rewrite Hc. simpl. eexists. split. reflexivity. exact Hb.
Qed.

Lemma pwe_P FN FP g g' : pwe FN FP g g' ->
  forall a b, P g' a b <-> exists c, nth_opt g b = Some c /\ In a (FP b (prevs c)).
Proof.
  intros H a b. unfold P. rewrite H. split.
  - intros [c' [Hc Hb]]. destruct (nth_opt g b) as [c|]; simpl in Hc; inversion Hc; subst.
    exists c. auto.
  - intros [c [Hc Hb]]. rewrite Hc. simpl. eexists. split. reflexivity. exact Hb.
Qed.

Lemma pwe_sorted FN FP g g' : pwe FN FP g g' -> sorted g ->
  (forall j l, srt l -> srt (FN j l)) -> (forall j l, srt l -> srt (FP j l)) -> sorted g'.
Proof.
  intros H Hs HN HP i c' Hc. rewrite H in Hc.
  destruct (nth_opt g i) as [c|] eqn:Hg; simpl in Hc; inversion Hc; subst.
  destruct (Hs _ _ Hg). simpl. split; auto.
Qed.

Lemma pwe_edgesQ FN FP g g' : pwe FN FP g g' -> edgesQ g ->
  (forall j l x, In x (FN j l) -> In x l) -> edgesQ g'.
Proof.
  intros H HQ Hsub a c' b Hc Hb. rewrite (pwe_clabels _ _ _ _ H). rewrite H in Hc.
  destruct (nth_opt g a) as [c|] eqn:Hg; simpl in Hc; inversion Hc; subst.
  simpl in *. apply (HQ a c b); auto. eapply Hsub; eauto.
Qed.

(* ---- removing all edges into / out of a node --------------------------------------------- *)
Definition clear_in (g : list cnode) (i : nat) (ps : list nat) : list cnode :=
  upd (fold_left (fun g p => upd g p (fun x => set_nexts x (del i (nexts x)))) ps g)
      i (fun x => set_prevs x []).
Definition clear_out (g : list cnode) (i : nat) (ns : list nat) : list cnode :=
  upd (fold_left (fun g n => upd g n (fun x => set_prevs x (del i (prevs x)))) ns g)
      i (fun x => set_nexts x []).

Lemma clear_in_pwe g i ps : NoDup ps ->
  pwe (fun j l => if memn j ps then del i l else l) (fun j l => if Nat.eqb i j then [] else l)
      g (clear_in g i ps).
Proof.
  intros Hnd j. unfold clear_in. rewrite nth_opt_upd, fold_upd_nth by auto.
  destruct (nth_opt g j) as [c|]; [|destruct (Nat.eqb i j), (memn j ps); reflexivity].
  destruct (Nat.eqb i j), (memn j ps); simpl; f_equal; destruct c; reflexivity.
Qed.

Lemma clear_out_pwe g i ns : NoDup ns ->
  pwe (fun j l => if Nat.eqb i j then [] else l) (fun j l => if memn j ns then del i l else l)
      g (clear_out g i ns).
Proof.
  intros Hnd j. unfold clear_out. rewrite nth_opt_upd, fold_upd_nth by auto.
  destruct (nth_opt g j) as [c|]; [|destruct (Nat.eqb i j), (memn j ns); reflexivity].
  destruct (Nat.eqb i j), (memn j ns); simpl; f_equal; destruct c; reflexivity.
Qed.

Lemma clear_in_SS g i c : SS g -> nth_opt g i = Some c -> SS (clear_in g i (prevs c)).
Proof.
  intros [Hsym Hsrt] Hc.
  assert (Hnd : NoDup (prevs c)) by (apply srt_NoDup, (Hsrt _ _ Hc)).
  pose proof (clear_in_pwe g i _ Hnd) as Hp.
  split.
  - assert (HE : forall a b, E (clear_in g i (prevs c)) a b <-> E g a b /\ b <> i).
    { intros a b. rewrite (pwe_E _ _ _ _ Hp). split.
      - intros [ca [Ha Hb]]. destruct (memn a (prevs c)) eqn:Hm.
        + apply in_del in Hb; [|apply (Hsrt _ _ Ha)]. destruct Hb. split; auto. exists ca; auto.
        + split. exists ca; auto. intros ->.
          assert (HP : P g a i) by (apply Hsym; exists ca; auto).
          destruct HP as [c2 [Hc2 Hin]]. rewrite Hc in Hc2. inversion Hc2; subst.
          apply memn_In in Hin. congruence.
      - intros [[ca [Ha Hb]] Hne]. exists ca. split; auto.
        destruct (memn a (prevs c)); auto. apply in_del; auto. apply (Hsrt _ _ Ha). }
    assert (HP : forall a b, P (clear_in g i (prevs c)) a b <-> P g a b /\ b <> i).
    { intros a b. rewrite (pwe_P _ _ _ _ Hp). split.
      - intros [cb [Hb Ha]]. destruct (Nat.eqb i b) eqn:Hib. destruct Ha.
        apply Nat.eqb_neq in Hib. split; auto. exists cb; auto.
      - intros [[cb [Hb Ha]] Hne]. exists cb. split; auto.
        apply not_eq_sym, Nat.eqb_neq in Hne. now rewrite Hne. }
    intros a b. rewrite HE, HP, (Hsym a b). reflexivity.
  - eapply pwe_sorted; eauto.
    + intros j l Hl; cbv beta. destruct (memn j (prevs c)); auto using srt_del.
    + intros j l Hl; cbv beta. destruct (Nat.eqb i j); auto using srt_nil.
Qed.

Lemma clear_out_SS g i c : SS g -> nth_opt g i = Some c -> SS (clear_out g i (nexts c)).
Proof.
  intros [Hsym Hsrt] Hc.
  assert (Hnd : NoDup (nexts c)) by (apply srt_NoDup, (Hsrt _ _ Hc)).
  pose proof (clear_out_pwe g i _ Hnd) as Hp.
  split.
  - assert (HP : forall a b, P (clear_out g i (nexts c)) a b <-> P g a b /\ a <> i).
    { intros a b. rewrite (pwe_P _ _ _ _ Hp). split.
      - intros [cb [Hb Ha]]. destruct (memn b (nexts c)) eqn:Hm.
        + apply in_del in Ha; [|apply (Hsrt _ _ Hb)]. destruct Ha. split; auto. exists cb; auto.
        + split. exists cb; auto. intros ->.
          assert (HE : E g i b) by (apply Hsym; exists cb; auto).
          destruct HE as [c2 [Hc2 Hin]]. rewrite Hc in Hc2. inversion Hc2; subst.
          apply memn_In in Hin. congruence.
      - intros [[cb [Hb Ha]] Hne]. exists cb. split; auto.
        destruct (memn b (nexts c)); auto. apply in_del; auto. apply (Hsrt _ _ Hb). }
    assert (HE : forall a b, E (clear_out g i (nexts c)) a b <-> E g a b /\ a <> i).
    { intros a b. rewrite (pwe_E _ _ _ _ Hp). split.
      - intros [ca [Ha Hb]]. destruct (Nat.eqb i a) eqn:Hia. destruct Hb.
        apply Nat.eqb_neq in Hia. split; auto. exists ca; auto.
      - intros [[ca [Ha Hb]] Hne]. exists ca. split; auto.
        apply not_eq_sym, Nat.eqb_neq in Hne. now rewrite Hne. }
    intros a b. rewrite HE, HP, (Hsym a b). reflexivity.
  - eapply pwe_sorted; eauto.
    + intros j l Hl; cbv beta. destruct (Nat.eqb i j); auto using srt_nil.
    + intros j l Hl; cbv beta. destruct (memn j (nexts c)); auto using srt_del.
Qed.

Lemma clear_in_WF g i c : WF g -> nth_opt g i = Some c ->
  WF (clear_in g i (prevs c)) /\ map cn (clear_in g i (prevs c)) = map cn g
  /\ map clabels (clear_in g i (prevs c)) = map clabels g.
Proof.
  intros [HS HQ] Hc.
  assert (Hnd : NoDup (prevs c)) by (apply srt_NoDup, (proj2 HS _ _ Hc)).
  pose proof (clear_in_pwe g i _ Hnd) as Hp.
  split; [split|split].
  - eapply clear_in_SS; eauto.
  - eapply pwe_edgesQ; eauto. intros j l x; cbv beta. destruct (memn j (prevs c)); auto. apply in_del_weak.
  - eapply pwe_cn; eauto.
  - eapply pwe_clabels; eauto.
Qed.

Lemma clear_out_WF g i c : WF g -> nth_opt g i = Some c ->
  WF (clear_out g i (nexts c)) /\ map cn (clear_out g i (nexts c)) = map cn g
  /\ map clabels (clear_out g i (nexts c)) = map clabels g.
Proof.
  intros [HS HQ] Hc.
  assert (Hnd : NoDup (nexts c)) by (apply srt_NoDup, (proj2 HS _ _ Hc)).
  pose proof (clear_out_pwe g i _ Hnd) as Hp.
  split; [split|split].
  - eapply clear_out_SS; eauto.
  - eapply pwe_edgesQ; eauto. intros j l x; cbv beta. destruct (Nat.eqb i j); simpl; tauto.
  - eapply pwe_cn; eauto.
  - eapply pwe_clabels; eauto.
Qed.

(* ---- adding an edge ---------------------------------------------------------------------- *)
Lemma add_edge_pwe g a b :
  pwe (fun j l => if Nat.eqb a j then ins b l else l) (fun j l => if Nat.eqb b j then ins a l else l)
      g (add_edge g a b).
Proof.
  intros j. unfold add_edge. rewrite !nth_opt_upd.
  destruct (nth_opt g j) as [c|]; [|destruct (Nat.eqb a j), (Nat.eqb b j); reflexivity].
  destruct (Nat.eqb a j), (Nat.eqb b j); simpl; f_equal; destruct c; reflexivity.
Qed.

Definition pres (g g' : list cnode) : Prop :=
  WF g -> WF g' /\ map cn g' = map cn g /\ map clabels g' = map clabels g.

Lemma pres_refl g : pres g g.
Proof. intros H; auto. Qed.
Lemma pres_trans g1 g2 g3 : pres g1 g2 -> pres g2 g3 -> pres g1 g3.
Proof.
  intros H12 H23 H1. destruct (H12 H1) as [H2 [Ha Hb]]. destruct (H23 H2) as [H3 [Hc Hd]].
  split; auto. split; congruence.
Qed.
Lemma pres_fold {B} (f : list cnode -> B -> list cnode) (l : list B) :
  (forall g b, pres g (f g b)) -> forall g, pres g (fold_left f l g).
Proof.
  intros Hf. induction l as [|b l IH]; intros g; simpl. apply pres_refl.
  eapply pres_trans. apply Hf. apply IH.
Qed.

Lemma nth_map_cn g a n : nth_opt (map cn g) a = Some n -> exists c, nth_opt g a = Some c /\ cn c = n.
Proof.
  rewrite nth_opt_map. destruct (nth_opt g a) as [c|]; simpl; intros H; inversion H. eauto.
Qed.

Lemma add_edge_pres g a b n :
  nth_opt (map cn g) a = Some n -> b < length g -> is_return n = false ->
  kind0 (map clabels g) a b n -> pres g (add_edge g a b).
Proof.
  intros Hn Hb Hret Hk [[Hsym Hsrt] HQ].
  pose proof (add_edge_pwe g a b) as Hp.
  destruct (nth_map_cn _ _ _ Hn) as [ca [Hca Hcn]].
  destruct (nth_opt_some _ _ Hb) as [cb Hcb].
  split; [split; [split|]|split].
  - assert (HE : forall x y, E (add_edge g a b) x y <-> E g x y \/ (x = a /\ y = b)).
    { intros x y. rewrite (pwe_E _ _ _ _ Hp). split.
      - intros [c [Hc Hy]]. destruct (Nat.eqb a x) eqn:Hax.
        + apply Nat.eqb_eq in Hax. subst x. apply in_ins in Hy. destruct Hy as [->|Hy]; auto.
          left. exists c; auto.
        + left. exists c; auto.
      - intros [[c [Hc Hy]]|[-> ->]].
        + exists c. split; auto. destruct (Nat.eqb a x); auto. apply in_ins; auto.
        + exists ca. split; auto. rewrite Nat.eqb_refl. apply in_ins; auto. }
    assert (HP : forall x y, P (add_edge g a b) x y <-> P g x y \/ (x = a /\ y = b)).
    { intros x y. rewrite (pwe_P _ _ _ _ Hp). split.
      - intros [c [Hc Hx]]. destruct (Nat.eqb b y) eqn:Hby.
        + apply Nat.eqb_eq in Hby. subst y. apply in_ins in Hx. destruct Hx as [->|Hx]; auto.
          left. exists c; auto.
        + left. exists c; auto.
      - intros [[c [Hc Hx]]|[-> ->]].
        + exists c. split; auto. destruct (Nat.eqb b y); auto. apply in_ins; auto.
        + exists cb. split; auto. rewrite Nat.eqb_refl. apply in_ins; auto. }
    intros x y. rewrite HE, HP, (Hsym x y). reflexivity.
  - eapply pwe_sorted; eauto.
    + intros j l Hl; cbv beta. destruct (Nat.eqb a j); auto using srt_ins.
    + intros j l Hl; cbv beta. destruct (Nat.eqb b j); auto using srt_ins.
  - intros x c' y Hc Hy. rewrite (pwe_clabels _ _ _ _ Hp). rewrite Hp in Hc.
    destruct (nth_opt g x) as [c|] eqn:Hg; simpl in Hc; inversion Hc; subst c'; clear Hc.
    simpl in *. destruct (Nat.eqb a x) eqn:Hax.
    + apply Nat.eqb_eq in Hax. subst x. apply in_ins in Hy. destruct Hy as [->|Hy].
      * rewrite Hca in Hg. inversion Hg; subst. auto.
      * apply (HQ a c y); auto.
    + apply (HQ x c y); auto.
  - eapply pwe_cn; eauto.
  - eapply pwe_clabels; eauto.
Qed.

(* ---- S4: fresh nodes have no edges ------------------------------------------------------- *)
Definition fresh (ns0 : list pnode) (c : cnode) : Prop :=
  nexts c = [] /\ prevs c = [] /\ (In (cn c) ns0 \/ is_function_entry (cn c) = true).

Lemma build_nodes_fresh ns0 : forall ns cns pd cur all text acc l,
  incl ns ns0 -> Forall (fresh ns0) acc ->
  build_nodes ns cns pd cur all text acc = inr l -> Forall (fresh ns0) l.
Proof.
  induction ns as [|n ns IH]; intros cns pd cur all text acc l Hincl Hacc H; simpl in H.
  - inversion H; subst. apply Forall_rev; auto.
  - assert (Hi : incl ns ns0) by (intros x Hx; apply Hincl; simpl; auto).
    assert (Hn : In n ns0) by (apply Hincl; simpl; auto).
    destruct (label_of n).
    { destruct (mem_name (wv w) all); [discriminate|]. eapply IH; eauto. }
    destruct (is_datasec n); [eapply IH; eauto|].
    destruct (is_textsec n); [eapply IH; eauto|].
    destruct (is_directive n); [eapply IH; eauto|].
    destruct (any_in cur cns).
    + eapply IH; [exact Hi| |exact H].
      constructor. { repeat split; simpl; auto. }
      constructor. { repeat split; simpl; auto. }
      auto.
    + eapply IH; [exact Hi| |exact H].
      constructor. { repeat split; simpl; auto. }
      auto.
Qed.

Lemma cfg_new_fresh ns pd g : cfg_new ns pd = inr g -> Forall (fresh ns) (gnodes g).
Proof.
  unfold cfg_new. intros H.
  destruct (filter _ _); [|discriminate].
  destruct (build_nodes _ _ _ _ _ _ _) as [e|l] eqn:Hb; [discriminate|].
  inversion H; subst; simpl. eapply build_nodes_fresh; eauto. apply incl_refl.
Qed.

Lemma fresh_WF ns0 g : Forall (fresh ns0) g -> WF g.
Proof.
  intros H. rewrite Forall_forall in H.
  assert (HN : forall i c, nth_opt g i = Some c -> nexts c = [] /\ prevs c = []).
  { intros i c Hc. apply nth_opt_In in Hc. destruct (H _ Hc) as [? [? ?]]; auto. }
  split; [split|].
  - intros a b. split; intros [c [Hc Hin]]; destruct (HN _ _ Hc) as [H1 H2];
      rewrite ?H1, ?H2 in Hin; destruct Hin.
  - intros i c Hc. destruct (HN _ _ Hc) as [-> ->]. split; apply srt_nil.
  - intros a c b Hc Hin. destruct (HN _ _ Hc) as [H1 _]. rewrite H1 in Hin. destruct Hin.
Qed.

(* ---- S5: directions ---------------------------------------------------------------------- *)
Lemma jumps_to_not_return n l : jumps_to n = Some l -> is_return n = false.
Proof. destruct n; simpl; intros H; try discriminate; reflexivity. Qed.

Lemma directions_loop_pres : forall todo i prev g g',
  (forall k c, nth_opt todo k = Some c -> nth_opt (map cn g) (i + k) = Some (cn c)) ->
  match prev with
  | None => True
  | Some p => S p = i /\ exists n, nth_opt (map cn g) p = Some n /\ is_return n = false
                                   /\ is_unconditional_jump n = false
  end ->
  directions_loop todo i prev g = inr g' -> pres g g'.
Proof.
  induction todo as [|c todo IH]; intros i prev g g' Htodo Hprev H; simpl in H.
  - inversion H; subst. apply pres_refl.
  - pose proof (Htodo 0 c eq_refl) as Hi. rewrite Nat.add_0_r in Hi.
    assert (Hstep : forall g1, pres g g1 -> WF g ->
              directions_loop todo (S i)
                (if (is_return (cn c) || is_unconditional_jump (cn c))%bool then None else Some i)
                (match prev with Some p => add_edge g1 p i | None => g1 end) = inr g' ->
              pres g g').
    { intros g1 Hg1 HWF Hd HWF'. clear HWF'.
      destruct (Hg1 HWF) as [HWF1 [Hcn1 Hlab1]].
      set (g2 := match prev with Some p => add_edge g1 p i | None => g1 end) in *.
      assert (H12 : pres g1 g2).
      { subst g2. destruct prev as [p|]; [|apply pres_refl].
        destruct Hprev as [Hp [n [Hn [Hr Hu]]]].
        eapply add_edge_pres with (n := n); auto.
        - rewrite Hcn1; auto.
        - rewrite <- (map_length cn g1), Hcn1, map_length.
          apply nth_map_cn in Hi. destruct Hi as [ci [Hi _]]. eapply nth_opt_lt; eauto.
        - left. auto. }
      destruct (H12 HWF1) as [HWF2 [Hcn2 Hlab2]].
      assert (H2' : pres g2 g').
      { eapply IH; [| |exact Hd].
        - intros k c0 Hk. rewrite Hcn2, Hcn1. replace (S i + k) with (i + S k) by lia.
          apply Htodo. exact Hk.
        - destruct (is_return (cn c) || is_unconditional_jump (cn c))%bool eqn:Hb; auto.
          apply Bool.orb_false_iff in Hb. split; auto. exists (cn c). rewrite Hcn2, Hcn1. tauto. }
      destruct (H2' HWF2) as [HWF' [Hcn' Hlab']].
      split; auto. split; congruence. }
    intros HWF.
    destruct (jumps_to (cn c)) as [label|] eqn:Hj.
    + rewrite find_label_flab in H. destruct (flab (wv label) (map clabels g) 0) as [j|] eqn:Hf; [|discriminate].
      apply (Hstep (add_edge g i j)); auto.
      eapply add_edge_pres with (n := cn c); eauto.
      * apply flab_lt in Hf. rewrite map_length in Hf. lia.
      * eapply jumps_to_not_return; eauto.
      * right. eauto.
    + apply (Hstep g); auto. apply pres_refl.
Qed.

Lemma directions_pres g g' : directions g = inr g' -> pres (gnodes g) (gnodes g').
Proof.
  unfold directions. intros H.
  destruct (directions_loop _ _ _ _) as [e|ns] eqn:Hd; inversion H; subst; simpl.
  eapply directions_loop_pres; [| |exact Hd]; simpl; auto.
  intros k c Hk. rewrite nth_opt_map, Hk. reflexivity.
Qed.

(* ---- S6: dead code ----------------------------------------------------------------------- *)
Lemma dead_step_pres g i : pres g (dead_step g i).
Proof.
  unfold dead_step, getn. destruct (nth_opt g i) as [c|] eqn:Hc; [|apply pres_refl].
  destruct (_ || _ || _)%bool; [apply pres_refl|].
  set (g1 := match nexts c with [] => _ | _ => g end).
  assert (H1 : pres g g1).
  { subst g1. destruct (nexts c); [|apply pres_refl]. intros HWF. apply (clear_in_WF g i c HWF Hc). }
  eapply pres_trans. exact H1.
  destruct (nth_opt g1 i) as [c1|] eqn:Hc1; [|apply pres_refl].
  destruct (prevs c1) eqn:Hp1; [|apply pres_refl].
  intros HWF. apply (clear_out_WF g1 i c1 HWF Hc1).
Qed.

Lemma dead_code_pres g : pres (gnodes g) (gnodes (dead_code g)).
Proof. unfold dead_code; simpl. apply pres_fold. apply dead_step_pres. Qed.

(* ---- S8: ecall termination --------------------------------------------------------------- *)
Lemma ecall_term_step_pres g i : pres g (ecall_term_step g i).
Proof.
  unfold ecall_term_step, getn. destruct (nth_opt g i) as [c|] eqn:Hc; [|apply pres_refl].
  destruct (is_program_exit c); [|apply pres_refl].
  intros HWF. apply (clear_out_WF g i c HWF Hc).
Qed.

Lemma ecall_terminate_pres g : pres (gnodes g) (gnodes (ecall_terminate g)).
Proof. unfold ecall_terminate; simpl. apply pres_fold. apply ecall_term_step_pres. Qed.

(* ---- frames: the value analysis and liveness do not touch the graph structure ------------ *)
Definition coreB (c : cnode) := (cn c, clabels c, nexts c, prevs c).
Definition coreA (c : cnode) := (coreB c, cfuncs c).
Definition coreL (c : cnode) := (coreA c, rin c).

Lemma coreB_fields c c' : coreB c = coreB c' ->
  cn c = cn c' /\ clabels c = clabels c' /\ nexts c = nexts c' /\ prevs c = prevs c'.
Proof. unfold coreB. intros H. inversion H. auto. Qed.

Lemma proj_nth {B} (p : cnode -> B) g g' : map p g = map p g' ->
  forall i c', nth_opt g' i = Some c' -> exists c, nth_opt g i = Some c /\ p c = p c'.
Proof.
  intros H i c' Hc. apply (f_equal (fun l => nth_opt l i)) in H. rewrite !nth_opt_map, Hc in H.
  destruct (nth_opt g i) as [c|]; simpl in H; [|discriminate].
  exists c. split; auto. congruence.
Qed.

Lemma core_nth g g' : map coreB g = map coreB g' ->
  forall i c', nth_opt g' i = Some c' -> exists c, nth_opt g i = Some c /\ coreB c = coreB c'.
Proof. apply proj_nth. Qed.

Lemma coreL_coreA g g' : map coreL g = map coreL g' -> map coreA g = map coreA g'.
Proof. intros H. apply (f_equal (map fst)) in H. rewrite !map_map in H. exact H. Qed.
Lemma coreA_coreB g g' : map coreA g = map coreA g' -> map coreB g = map coreB g'.
Proof. intros H. apply (f_equal (map fst)) in H. rewrite !map_map in H. exact H. Qed.

Lemma core_cn g g' : map coreB g = map coreB g' -> map cn g = map cn g'.
Proof.
  intros H. apply (f_equal (map (fun x => fst (fst (fst x))))) in H.
  rewrite !map_map in H. exact H.
Qed.
Lemma core_clabels g g' : map coreB g = map coreB g' -> map clabels g = map clabels g'.
Proof.
  intros H. apply (f_equal (map (fun x => snd (fst (fst x))))) in H.
  rewrite !map_map in H. exact H.
Qed.

Lemma core_E g g' : map coreB g = map coreB g' -> forall a b, E g' a b -> E g a b.
Proof.
  intros H a b [c' [Hc Hb]]. destruct (core_nth _ _ H _ _ Hc) as [c [Hc0 Heq]].
  destruct (coreB_fields _ _ Heq) as [H1 [H2 [H3 H4]]]. exists c. split; auto. congruence.
Qed.
Lemma core_P g g' : map coreB g = map coreB g' -> forall a b, P g' a b -> P g a b.
Proof.
  intros H a b [c' [Hc Hb]]. destruct (core_nth _ _ H _ _ Hc) as [c [Hc0 Heq]].
  destruct (coreB_fields _ _ Heq) as [H1 [H2 [H3 H4]]]. exists c. split; auto. congruence.
Qed.

Lemma core_SS g g' : map coreB g = map coreB g' -> SS g -> SS g'.
Proof.
  intros H [Hsym Hsrt]. pose proof (eq_sym H) as H'. split.
  - intros a b. split; intros HX.
    + apply (core_P _ _ H'), Hsym, (core_E _ _ H), HX.
    + apply (core_E _ _ H'), Hsym, (core_P _ _ H), HX.
  - intros i c' Hc. destruct (core_nth _ _ H _ _ Hc) as [c [Hc0 Heq]].
    destruct (coreB_fields _ _ Heq) as [H1 [H2 [H3 H4]]].
    destruct (Hsrt _ _ Hc0). split; congruence.
Qed.

Lemma core_edgesQ g g' : map coreB g = map coreB g' -> edgesQ g -> edgesQ g'.
Proof.
  intros H HQ a c' b Hc Hb. rewrite <- (core_clabels _ _ H).
  destruct (core_nth _ _ H _ _ Hc) as [c [Hc0 Heq]].
  destruct (coreB_fields _ _ Heq) as [H1 [H2 [H3 H4]]].
  rewrite <- H1. apply (HQ a c b); auto. congruence.
Qed.

Lemma core_pres g g' : map coreB g = map coreB g' -> pres g g'.
Proof.
  intros H [HS HQ]. split; [split|split].
  - eapply core_SS; eauto.
  - eapply core_edgesQ; eauto.
  - symmetry. apply core_cn; auto.
  - symmetry. apply core_clabels; auto.
Qed.

Lemma avail_node_core g v i : map coreA (fst (avail_node g v i)) = map coreA g.
Proof.
  unfold avail_node. destruct (getn g i); [|reflexivity]. cbv zeta.
  match goal with |- context[avail_transfer ?a ?b ?d] => destruct (avail_transfer a b d) end.
  cbn [fst]. apply map_upd. reflexivity.
Qed.

Lemma avail_sweep_core : forall idx g v ch g' v' ch',
  avail_sweep idx g v ch = (g', v', ch') -> map coreA g' = map coreA g.
Proof.
  induction idx as [|i idx IH]; intros g v ch g' v' ch' H; simpl in H.
  - inversion H; auto.
  - destruct (avail_node g v i) as [g1 c1] eqn:Hn. apply IH in H. rewrite H.
    pose proof (avail_node_core g v i) as Hc. rewrite Hn in Hc. exact Hc.
Qed.

Lemma avail_loop_core : forall fuel g v g', avail_loop fuel g v = Ok g' -> map coreA g' = map coreA g.
Proof.
  induction fuel as [|f IH]; intros g v g' H; simpl in H. discriminate.
  destruct (avail_sweep _ _ _ _) as [[g1 v1] ch] eqn:Hs. apply avail_sweep_core in Hs.
  destruct ch.
  - apply IH in H. congruence.
  - inversion H; subst. auto.
Qed.

Lemma avail_pass_core g g' : avail_pass g = Ok g' ->
  map coreA (gnodes g') = map coreA (gnodes g) /\ gfuncs g' = gfuncs g.
Proof.
  unfold avail_pass. intros H. destruct (avail_loop _ _ _) as [ns| |] eqn:Hl; simpl in H; inversion H; subst.
  simpl. split; auto. eapply avail_loop_core; eauto.
Qed.

Lemma live_node_core G ns v i : map coreL (fst (live_node G ns v i)) = map coreL ns.
Proof.
  unfold live_node. destruct (getn ns i) as [c|]; simpl; auto.
  destruct (calls_to_from_cfg G c).
  - destruct (nth_opt (gfuncs G) n); simpl; auto.
    rewrite !map_upd; auto.
  - destruct (if is_ecall (cn c) then _ else _) as [li ud]. simpl. apply map_upd. reflexivity.
Qed.

Lemma live_sweep_core G : forall idx ns v ch ns' v' ch',
  live_sweep G idx ns v ch = (ns', v', ch') -> map coreL ns' = map coreL ns.
Proof.
  induction idx as [|i idx IH]; intros ns v ch ns' v' ch' H; simpl in H.
  - inversion H; auto.
  - destruct (live_node G ns v i) as [g1 c1] eqn:Hn. apply IH in H. rewrite H.
    pose proof (live_node_core G ns v i) as Hc. rewrite Hn in Hc. exact Hc.
Qed.

Lemma live_loop_core G : forall fuel ns v ns', live_loop fuel G ns v = Ok ns' -> map coreL ns' = map coreL ns.
Proof.
  induction fuel as [|f IH]; intros ns v ns' H; simpl in H. discriminate.
  destruct (live_sweep _ _ _ _ _) as [[g1 v1] ch] eqn:Hs. apply live_sweep_core in Hs.
  destruct ch.
  - apply IH in H. congruence.
  - inversion H; subst. auto.
Qed.

Lemma liveness_pass_core g g' : liveness_pass g = Ok g' ->
  map coreL (gnodes g') = map coreL (gnodes g) /\ gfuncs g' = gfuncs g.
Proof.
  unfold liveness_pass. intros H. destruct (live_loop _ _ _ _) as [ns| |] eqn:Hl; simpl in H; inversion H; subst.
  simpl. split; auto. eapply live_loop_core; eauto.
Qed.

(* ---------------------------------------------------------------------------------------- *)
(* invariants of the graph from function markup on                                           *)
(* ---------------------------------------------------------------------------------------- *)
Section Kinds.
(* what is known of a node that is not a rewritten return *)
Variable Q : pnode -> Prop.

Definition retN (g : list cnode) : Prop :=
  forall a c, nth_opt g a = Some c -> is_return (cn c) = true -> nexts c = [].

Definition K9 (fs : list func) (g : list cnode) : Prop :=
  forall a c, nth_opt g a = Some c ->
    (Q (cn c) /\ forall b, In b (nexts c) -> kind0 (map clabels g) a b (cn c)) \/
    (is_return_merge (cn c) = true /\
     exists fid f, In fid (cfuncs c) /\ nth_opt fs fid = Some f /\
                   forall b, In b (nexts c) -> nexts c = [fexit f]).

Lemma WF_retN g : WF g -> retN g.
Proof.
  intros [_ HQ] a c Hc Hr. destruct (nexts c) as [|b l] eqn:Hn; auto.
  destruct (HQ a c b Hc) as [Hf _]. rewrite Hn; simpl; auto. congruence.
Qed.

Lemma WF_K9 fs g : WF g -> (forall n, In n (map cn g) -> Q n) -> K9 fs g.
Proof.
  intros [_ HQ] Hn a c Hc. left. split.
  - apply Hn. apply in_map. eapply nth_opt_In; eauto.
  - intros b Hb. apply (HQ a c b Hc Hb).
Qed.

Lemma core_retN g g' : map coreB g = map coreB g' -> retN g -> retN g'.
Proof.
  intros H HR a c' Hc Hr. destruct (core_nth _ _ H _ _ Hc) as [c [Hc0 Heq]].
  destruct (coreB_fields _ _ Heq) as [H1 [H2 [H3 H4]]]. rewrite <- H3. apply (HR a c); congruence.
Qed.

Lemma K9_mono fs g g' : map coreB g = map coreB g' ->
  (forall j c c', nth_opt g j = Some c -> nth_opt g' j = Some c' -> incl (cfuncs c) (cfuncs c')) ->
  K9 fs g -> K9 fs g'.
Proof.
  intros H Hincl HK a c' Hc. rewrite <- (core_clabels _ _ H).
  destruct (core_nth _ _ H _ _ Hc) as [c [Hc0 Heq]].
  destruct (coreB_fields _ _ Heq) as [H1 [H2 [H3 H4]]]. rewrite <- H1, <- H3.
  destruct (HK a c Hc0) as [HL|[HM [fid [f [Hin [Hf Hn]]]]]]; [left; auto|right].
  split; auto. exists fid, f. split; auto. apply (Hincl a c c'); auto.
Qed.

Lemma K9_core fs g g' : map coreA g = map coreA g' -> K9 fs g -> K9 fs g'.
Proof.
  intros H. apply K9_mono. apply coreA_coreB; auto.
  intros j c c' Hc Hc'. destruct (proj_nth _ _ _ H _ _ Hc') as [c0 [Hc0 Heq]].
  rewrite Hc in Hc0. inversion Hc0; subst. unfold coreA in Heq.
  assert (Hcf : cfuncs c0 = cfuncs c') by congruence. rewrite Hcf. apply incl_refl.
Qed.

Lemma K9_app fs f g : K9 fs g -> K9 (fs ++ [f]) g.
Proof.
  intros HK a c Hc. destruct (HK a c Hc) as [HL|[HM [fid [f0 [Hin [Hf Hn]]]]]]; [left; auto|right].
  split; auto. exists fid, f0. split; auto. split; auto.
  rewrite nth_opt_app_l; auto. eapply nth_opt_lt; eauto.
Qed.

(* ---- S9: the set of reachable nodes is sorted -------------------------------------------- *)
Lemma reach_srt : forall fuel g st seen, srt seen -> srt (reach fuel g st seen).
Proof.
  induction fuel as [|f IH]; intros g st seen H; simpl; auto.
  destruct st as [|x st]; auto. destruct (memn x seen); auto.
  destruct (getn g x); auto. apply IH. apply srt_ins; auto.
Qed.

Lemma reachable_srt g s : srt (reachable g s).
Proof. unfold reachable. apply reach_srt. apply srt_nil. Qed.

Lemma mark_members fid r ns :
  NoDup r ->
  let ns1 := fold_left (fun g i => upd g i (fun c => set_cfuncs c (ins fid (cfuncs c)))) r ns in
  map coreB ns1 = map coreB ns /\
  (forall j c c1, nth_opt ns j = Some c -> nth_opt ns1 j = Some c1 ->
     cn c1 = cn c /\ incl (cfuncs c) (cfuncs c1) /\ (In j r -> In fid (cfuncs c1))).
Proof.
  intros Hnd ns1. split.
  - subst ns1. apply fold_left_inv; auto. intros g b _ Hg. rewrite <- Hg. apply map_upd. reflexivity.
  - intros j c c1 Hc Hc1. subst ns1. rewrite fold_upd_nth in Hc1 by auto. rewrite Hc in Hc1.
    destruct (memn j r) eqn:Hm; simpl in Hc1; inversion Hc1; subst; simpl.
    + split; auto. split. intros x Hx. apply in_ins; auto. intros _. apply in_ins; auto.
    + split; auto. split. apply incl_refl. intros Hj. apply memn_In in Hj. congruence.
Qed.

(* ---- S9: rewriting one additional return ------------------------------------------------- *)
Definition stepR (ex : nat) (g : list cnode) (i : nat) : list cnode :=
  if Nat.eqb i ex then g
  else match getn g i, getn g ex with
       | Some c, Some e =>
           let g' := upd g i (fun x => set_cn (set_nexts x [ex]) (rewritten_return c e)) in
           upd g' ex (fun x => set_prevs x (ins i (prevs x)))
       | _, _ => g
       end.

Lemma is_return_merge_rewritten c e : is_return_merge (rewritten_return c e) = true.
Proof. reflexivity. Qed.
Lemma is_return_rewritten c e : is_return (rewritten_return c e) = false.
Proof. reflexivity. Qed.

Lemma stepR_ok fs fid f ex g i c :
  nth_opt fs fid = Some f -> fexit f = ex -> SS g -> retN g ->
  nth_opt g i = Some c -> is_return (cn c) = true -> In fid (cfuncs c) ->
  let g' := stepR ex g i in
  SS g' /\ retN g' /\ map clabels g' = map clabels g /\ (K9 fs g -> K9 fs g') /\
  (forall k ck, k <> i -> nth_opt g k = Some ck ->
     exists ck', nth_opt g' k = Some ck' /\ cn ck' = cn ck /\ cfuncs ck' = cfuncs ck).
Proof.
  intros Hf Hex [Hsym Hsrt] HR Hc Hret Hfid g'. subst g'. unfold stepR, getn.
  destruct (Nat.eqb i ex) eqn:Hiex.
  { split; [split; auto|]. split; auto. split; auto. split; auto. intros k ck _ Hk. eauto. }
  rewrite Hc. destruct (nth_opt g ex) as [e|] eqn:He.
  2:{ split; [split; auto|]. split; auto. split; auto. split; auto. intros k ck _ Hk. eauto. }
  apply Nat.eqb_neq in Hiex. cbv zeta.
  set (rr := rewritten_return c e).
  set (T := fun (j : nat) (x : cnode) =>
              if Nat.eqb i j then set_cn (set_nexts x [ex]) rr
              else if Nat.eqb ex j then set_prevs x (ins i (prevs x)) else x).
  set (g' := upd _ ex _).
  assert (HT : forall j, nth_opt g' j = option_map (T j) (nth_opt g j)).
  { intros j. subst g' T. rewrite !nth_opt_upd. cbv beta.
    destruct (Nat.eqb ex j) eqn:H1, (Nat.eqb i j) eqn:H2; auto.
    - apply Nat.eqb_eq in H1, H2. congruence.
    - destruct (nth_opt g j); reflexivity. }
  assert (HnT : forall j x, nexts (T j x) = if Nat.eqb i j then [ex] else nexts x).
  { intros j x. subst T. cbv beta. destruct (Nat.eqb i j), (Nat.eqb ex j); reflexivity. }
  assert (HpT : forall j x, prevs (T j x) = if Nat.eqb i j then prevs x else
                                              if Nat.eqb ex j then ins i (prevs x) else prevs x).
  { intros j x. subst T. cbv beta. destruct (Nat.eqb i j), (Nat.eqb ex j); reflexivity. }
  assert (HcT : forall j x, cn (T j x) = if Nat.eqb i j then rr else cn x).
  { intros j x. subst T. cbv beta. destruct (Nat.eqb i j), (Nat.eqb ex j); reflexivity. }
  assert (HfT : forall j x, cfuncs (T j x) = cfuncs x /\ clabels (T j x) = clabels x).
  { intros j x. subst T. cbv beta. destruct (Nat.eqb i j), (Nat.eqb ex j); split; reflexivity. }
  assert (Hnc : nexts c = []) by (apply (HR i c); auto).
  assert (HE : forall x y, E g' x y <-> E g x y \/ (x = i /\ y = ex)).
  { intros x y. unfold E. rewrite HT. split.
    - intros [c' [Hc' Hy]]. destruct (nth_opt g x) as [cx|] eqn:Hx; simpl in Hc'; inversion Hc'; subst c'.
      rewrite HnT in Hy. destruct (Nat.eqb i x) eqn:Hix.
      + apply Nat.eqb_eq in Hix. destruct Hy as [Hy|[]]. right; auto.
      + left. eauto.
    - intros [[cx [Hx Hy]]|[-> ->]].
      + rewrite Hx. simpl. eexists; split; [reflexivity|]. rewrite HnT.
        destruct (Nat.eqb i x) eqn:Hix; auto. apply Nat.eqb_eq in Hix. subst x.
        rewrite Hc in Hx. inversion Hx; subst. rewrite Hnc in Hy. destruct Hy.
      + rewrite Hc. simpl. eexists; split; [reflexivity|]. rewrite HnT, Nat.eqb_refl. simpl; auto. }
  assert (HP : forall x y, P g' x y <-> P g x y \/ (x = i /\ y = ex)).
  { intros x y. unfold P. rewrite HT. split.
    - intros [c' [Hc' Hx]]. destruct (nth_opt g y) as [cy|] eqn:Hy; simpl in Hc'; inversion Hc'; subst c'.
      rewrite HpT in Hx. destruct (Nat.eqb i y) eqn:Hiy; [left; eauto|].
      destruct (Nat.eqb ex y) eqn:Hey; [|left; eauto].
      apply Nat.eqb_eq in Hey. apply in_ins in Hx. destruct Hx as [->|Hx]; [right; auto|left; eauto].
    - intros [[cy [Hy Hx]]|[-> ->]].
      + rewrite Hy. simpl. eexists; split; [reflexivity|]. rewrite HpT.
        destruct (Nat.eqb i y); auto. destruct (Nat.eqb ex y); auto. apply in_ins; auto.
      + rewrite He. simpl. eexists; split; [reflexivity|]. rewrite HpT.
        apply not_eq_sym in Hiex. apply Nat.eqb_neq in Hiex. rewrite Nat.eqb_sym in Hiex.
        rewrite Hiex, Nat.eqb_refl. apply in_ins; auto. }
  assert (Hlab : map clabels g' = map clabels g).
  { apply nth_opt_ext. intros j. rewrite !nth_opt_map, HT. destruct (nth_opt g j); simpl; auto.
    now rewrite (proj2 (HfT j c0)). }
  split; [split|split; [|split; [|split]]].
  - intros x y. rewrite HE, HP, (Hsym x y). reflexivity.
  - intros j c' Hc'. rewrite HT in Hc'.
    destruct (nth_opt g j) as [cj|] eqn:Hj; simpl in Hc'; inversion Hc'; subst c'.
    rewrite HnT, HpT. destruct (Hsrt _ _ Hj) as [Hs1 Hs2]. split.
    + destruct (Nat.eqb i j); auto using srt_one.
    + destruct (Nat.eqb i j); auto. destruct (Nat.eqb ex j); auto using srt_ins.
  - intros a c' Hc' Hr. rewrite HT in Hc'.
    destruct (nth_opt g a) as [ca|] eqn:Ha; simpl in Hc'; inversion Hc'; subst c'.
    rewrite HcT in Hr. rewrite HnT. destruct (Nat.eqb i a). discriminate. apply (HR a ca); auto.
  - exact Hlab.
  - intros HK a c' Hc'. rewrite Hlab. rewrite HT in Hc'.
    destruct (nth_opt g a) as [ca|] eqn:Ha; simpl in Hc'; inversion Hc'; subst c'.
    rewrite HcT, HnT, (proj1 (HfT a ca)). destruct (Nat.eqb i a) eqn:Hia.
    + apply Nat.eqb_eq in Hia. subst a. rewrite Hc in Ha. inversion Ha; subst ca.
      right. split. reflexivity. exists fid, f. rewrite Hex. auto.
    + apply (HK a ca Ha).
  - intros k ck Hk Hck. rewrite HT, Hck. simpl. eexists; split; [reflexivity|].
    rewrite HcT, (proj1 (HfT k ck)). apply Nat.eqb_neq in Hk. rewrite Nat.eqb_sym in Hk.
    rewrite Hk. auto.
Qed.

Lemma stepR_fold fs fid f ex : nth_opt fs fid = Some f -> fexit f = ex ->
  forall rets g, NoDup rets ->
    (forall k, In k rets -> exists c, nth_opt g k = Some c /\ is_return (cn c) = true /\ In fid (cfuncs c)) ->
    SS g -> retN g ->
    let g' := fold_left (stepR ex) rets g in
    SS g' /\ retN g' /\ map clabels g' = map clabels g /\ (K9 fs g -> K9 fs g').
Proof.
  intros Hf Hex. induction rets as [|i rets IH]; intros g Hnd Hrets HS HR; simpl.
  - auto.
  - inversion Hnd as [|? ? Hi Hnd']; subst.
    destruct (Hrets i (or_introl eq_refl)) as [c [Hc [Hr Hin]]].
    destruct (stepR_ok fs fid f _ g i c Hf eq_refl HS HR Hc Hr Hin) as [HS1 [HR1 [Hl1 [HK1 Hfr]]]].
    destruct (IH (stepR (fexit f) g i) Hnd') as [HS2 [HR2 [Hl2 HK2]]]; auto.
    + intros k Hk. destruct (Hrets k (or_intror Hk)) as [ck [Hck [Hrk Hink]]].
      assert (Hne : k <> i) by (intros ->; auto).
      destruct (Hfr k ck Hne Hck) as [ck' [H1 [H2 H3]]]. exists ck'. rewrite H2, H3. auto.
    + split; auto. split; auto. split. congruence. auto.
Qed.

Lemma mark_function_ok G entry pick G' :
  mark_function G entry pick = inr G' -> SS (gnodes G) -> retN (gnodes G) ->
  SS (gnodes G') /\ retN (gnodes G') /\ (K9 (gfuncs G) (gnodes G) -> K9 (gfuncs G') (gnodes G')).
Proof.
  unfold mark_function. intros H HS HR.
  set (ns := gnodes G) in *. set (fid := length (gfuncs G)) in *.
  set (r := reachable ns entry) in *.
  remember (filter (fun i => match getn ns i with Some c => is_return (cn c) | None => false end) r)
    as rets eqn:Hrets.
  assert (Hr : NoDup r) by (apply srt_NoDup, reachable_srt).
  assert (Hnd : NoDup rets) by (subst rets; apply srt_NoDup, srt_filter, reachable_srt).
  assert (Hin : forall k, In k rets -> In k r /\ exists c, nth_opt ns k = Some c /\ is_return (cn c) = true).
  { intros k Hk. subst rets. apply filter_In in Hk. destruct Hk as [Hk1 Hk2]. split; auto.
    unfold getn in Hk2. destruct (nth_opt ns k) as [c|]; [eauto|discriminate]. }
  clear Hrets.
  destruct rets as [|first rest]; [discriminate|].
  set (ex := match pick with Some p => if memn p (first :: rest) then p else first | None => first end) in *.
  assert (Hexin : In ex (first :: rest)).
  { subst ex. destruct pick as [p|]; [|simpl; auto].
    destruct (memn p (first :: rest)) eqn:Hm; [apply memn_In; auto|simpl; auto]. }
  set (defs := fold_left _ r rs_empty) in *.
  set (ns1 := fold_left _ r ns) in *.
  destruct (mark_members fid r ns Hr) as [Hcore Hmem]. fold ns1 in Hcore, Hmem.
  inversion H; subst G'; clear H. simpl.
  set (f := mkfn entry ex r defs).
  assert (Hf : nth_opt (gfuncs G ++ [f]) fid = Some f) by apply nth_opt_app_len.
  pose proof (eq_sym Hcore) as Hcore'.
  assert (HS1 : SS ns1) by (eapply core_SS; eauto).
  assert (HR1 : retN ns1) by (eapply core_retN; eauto).
  assert (Hrets1 : forall k, In k (first :: rest) ->
            exists c, nth_opt ns1 k = Some c /\ is_return (cn c) = true /\ In fid (cfuncs c)).
  { intros k Hk. destruct (Hin k Hk) as [Hkr [c [Hc Hret]]].
    destruct (proj_nth _ _ _ Hcore k c Hc) as [c1 [Hc1 _]].
    destruct (Hmem k c c1 Hc Hc1) as [H1 [H2 H3]]. exists c1. rewrite H1. auto. }
  destruct (stepR_fold (gfuncs G ++ [f]) fid f ex Hf eq_refl (first :: rest) ns1 Hnd Hrets1 HS1 HR1)
    as [HS2 [HR2 [Hl2 HK2]]].
  split; [exact HS2|]. split; [exact HR2|].
  intros HK. apply HK2. apply K9_app. eapply K9_mono; [exact Hcore'| |exact HK].
  intros j c c1 Hc Hc1. apply (Hmem j c c1 Hc Hc1).
Qed.

Lemma markup_loop_ok : forall entries picks G G',
  markup_loop entries picks G = inr G' -> SS (gnodes G) -> retN (gnodes G) ->
  SS (gnodes G') /\ retN (gnodes G') /\ (K9 (gfuncs G) (gnodes G) -> K9 (gfuncs G') (gnodes G')).
Proof.
  induction entries as [|e es IH]; intros picks G G' H HS HR; simpl in H.
  - inversion H; subst. auto.
  - destruct (mark_function G e (hd_opt picks)) as [err|G1] eqn:Hm; [discriminate|].
    destruct (mark_function_ok _ _ _ _ Hm HS HR) as [HS1 [HR1 HK1]].
    destruct (IH _ _ _ H HS1 HR1) as [HS2 [HR2 HK2]]. auto.
Qed.

Lemma function_markup_ok picks G G' :
  function_markup picks G = inr G' -> SS (gnodes G) -> retN (gnodes G) ->
  SS (gnodes G') /\ retN (gnodes G') /\ (K9 (gfuncs G) (gnodes G) -> K9 (gfuncs G') (gnodes G')).
Proof. apply markup_loop_ok. Qed.

(* ---- S8 after markup --------------------------------------------------------------------- *)
(* successor lists only shrink to nothing; instruction, value-analysis input and membership stay *)
Definition shr (g g' : list cnode) : Prop :=
  map clabels g' = map clabels g /\
  forall j c', nth_opt g' j = Some c' ->
    exists c, nth_opt g j = Some c /\ cn c' = cn c /\ rin c' = rin c /\ cfuncs c' = cfuncs c /\
              (nexts c' = nexts c \/ nexts c' = []).

Lemma shr_refl g : shr g g.
Proof. split; auto. intros j c' H. exists c'. auto 6. Qed.

Lemma shr_trans g1 g2 g3 : shr g1 g2 -> shr g2 g3 -> shr g1 g3.
Proof.
  intros [Hl1 H1] [Hl2 H2]. split. congruence.
  intros j c3 Hc3. destruct (H2 j c3 Hc3) as [c2 [Hc2 [Ha [Hb [Hc Hd]]]]].
  destruct (H1 j c2 Hc2) as [c1 [Hc1 [Ha' [Hb' [Hc' Hd']]]]].
  exists c1. split; auto. split. congruence. split. congruence. split. congruence.
  destruct Hd as [Hd|Hd]; auto. destruct Hd' as [Hd'|Hd']; [left|right]; congruence.
Qed.

Lemma pwe_shr FN FP g g' : pwe FN FP g g' -> (forall j l, FN j l = l \/ FN j l = []) -> shr g g'.
Proof.
  intros Hp HFN. split. eapply pwe_clabels; eauto.
  intros j c' Hc. rewrite Hp in Hc. destruct (nth_opt g j) as [c|]; simpl in Hc; inversion Hc; subst.
  exists c. simpl. auto 6.
Qed.

Lemma shr_retN g g' : shr g g' -> retN g -> retN g'.
Proof.
  intros [_ H] HR a c' Hc Hr. destruct (H a c' Hc) as [c [Hc0 [Ha [Hb [Hcf Hd]]]]].
  destruct Hd as [Hd|Hd]; auto. rewrite Hd. apply (HR a c); congruence.
Qed.

Lemma shr_K9 fs g g' : shr g g' -> K9 fs g -> K9 fs g'.
Proof.
  intros [Hl H] HK a c' Hc. rewrite Hl. destruct (H a c' Hc) as [c [Hc0 [Ha [Hb [Hcf Hd]]]]].
  rewrite Ha, Hcf.
  destruct (HK a c Hc0) as [[HL1 HL2]|[HM [fid [f [Hin [Hf Hn]]]]]].
  - left. split; auto. intros b Hb'. apply HL2. destruct Hd as [Hd|Hd]; rewrite Hd in Hb'; auto. destruct Hb'.
  - destruct Hd as [Hd|Hd].
    + right. split; auto. exists fid, f. rewrite Hd. auto.
    + right. split; auto. exists fid, f. split; auto. split; auto. rewrite Hd. intros b [].
Qed.

Definition exitsN (g : list cnode) : Prop :=
  forall i c, nth_opt g i = Some c -> is_program_exit c = true -> nexts c = [].

Lemma is_program_exit_ext c c' : cn c = cn c' -> rin c = rin c' -> is_program_exit c = is_program_exit c'.
Proof. intros H1 H2. unfold is_program_exit, known_ecall. now rewrite H1, H2. Qed.

Lemma ecall_term_step_post g i : SS g ->
  let g' := ecall_term_step g i in
  SS g' /\ shr g g' /\ (forall c', nth_opt g' i = Some c' -> is_program_exit c' = true -> nexts c' = []).
Proof.
  intros HS g'. subst g'. unfold ecall_term_step, getn.
  destruct (nth_opt g i) as [c|] eqn:Hc.
  - destruct (is_program_exit c) eqn:Hx.
    + assert (Hnd : NoDup (nexts c)) by (apply srt_NoDup, (proj2 HS _ _ Hc)).
      pose proof (clear_out_pwe g i _ Hnd) as Hp. fold (clear_out g i (nexts c)).
      split. apply clear_out_SS; auto. split.
      * eapply pwe_shr; eauto. intros j l; cbv beta. destruct (Nat.eqb i j); auto.
      * intros c' Hc' _. rewrite Hp, Hc in Hc'. simpl in Hc'. inversion Hc'; subst. simpl.
        now rewrite Nat.eqb_refl.
    + split; auto. split. apply shr_refl. intros c' Hc'. rewrite Hc in Hc'. inversion Hc'; subst. congruence.
  - split; auto. split. apply shr_refl. intros c' Hc'. congruence.
Qed.

Lemma ecall_fold_post : forall L g, SS g ->
  let g' := fold_left ecall_term_step L g in
  SS g' /\ shr g g' /\
  (forall i c', In i L -> nth_opt g' i = Some c' -> is_program_exit c' = true -> nexts c' = []).
Proof.
  induction L as [|i L IH]; intros g HS; simpl.
  - split; auto. split. apply shr_refl. intros i c' [].
  - destruct (ecall_term_step_post g i HS) as [HS1 [Hs1 Hx1]].
    destruct (IH _ HS1) as [HS2 [Hs2 Hx2]].
    split; auto. split. eapply shr_trans; eauto.
    intros k c' [->|Hk] Hc' Hx; [|eapply Hx2; eauto].
    destruct (proj2 Hs2 k c' Hc') as [c1 [Hc1 [Ha [Hb [Hcf Hd]]]]].
    destruct Hd as [Hd|Hd]; auto. rewrite Hd. apply Hx1; auto.
    rewrite <- Hx. symmetry. apply is_program_exit_ext; auto.
Qed.

Lemma ecall_terminate_post G : SS (gnodes G) ->
  SS (gnodes (ecall_terminate G)) /\ shr (gnodes G) (gnodes (ecall_terminate G)) /\
  exitsN (gnodes (ecall_terminate G)).
Proof.
  intros HS. unfold ecall_terminate; simpl.
  destruct (ecall_fold_post (seq 0 (length (gnodes G))) (gnodes G) HS) as [HS' [Hs Hx]].
  split; auto. split; auto.
  intros i c Hc Hxc. apply (Hx i c); auto.
  destruct (proj2 Hs i c Hc) as [c0 [Hc0 _]]. apply nth_opt_lt in Hc0.
  apply in_seq. lia.
Qed.

Lemma coreL_exitsN g g' : map coreL g = map coreL g' -> exitsN g -> exitsN g'.
Proof.
  intros H HX i c' Hc Hx. destruct (proj_nth _ _ _ H _ _ Hc) as [c [Hc0 Heq]].
  unfold coreL, coreA in Heq.
  assert (Hb : coreB c = coreB c') by congruence.
  assert (Hr : rin c = rin c') by congruence.
  destruct (coreB_fields _ _ Hb) as [H1 [H2 [H3 H4]]].
  rewrite <- H3. apply (HX i c); auto. rewrite <- Hx. apply is_program_exit_ext; auto.
Qed.

(* ---------------------------------------------------------------------------------------- *)
(* the pipeline                                                                              *)
(* ---------------------------------------------------------------------------------------- *)
End Kinds.

Lemma bind_Ok_inv {A B} (r : res A) (k : A -> res B) (x : B) :
  bind r k = Ok x -> exists a, r = Ok a /\ k a = Ok x.
Proof. destruct r; simpl; intros H; try discriminate. eauto. Qed.

Definition QOK (Q : pnode -> Prop) (ns : list pnode) : Prop :=
  (forall n, In n ns -> Q n) /\ (forall n, is_function_entry n = true -> Q n).

Lemma fresh_Q Q ns g : Forall (fresh ns) g -> QOK Q ns -> forall n, In n (map cn g) -> Q n.
Proof.
  intros H [Hn Hf] n Hin. apply in_map_iff in Hin. destruct Hin as [c [<- Hc]].
  rewrite Forall_forall in H. destruct (H c Hc) as [_ [_ [Hi|Hi]]]; auto.
Qed.

Theorem full_is_upto : forall picks ns, gen_full_cfg picks ns = gen_cfg_upto 11 picks ns.
Proof. intros. reflexivity. Qed.

Lemma upto_inv Q stage picks ns g : gen_cfg_upto stage picks ns = Ok (SOk g) ->
  SS (gnodes g) /\
  ((11 <= stage)%N -> retN (gnodes g) /\ exitsN (gnodes g) /\ (QOK Q ns -> K9 Q (gfuncs g) (gnodes g))).
Proof.
  intros H. unfold gen_cfg_upto in H.
  assert (Early : forall k (g' : cfg), (k < 11)%N -> N.eqb stage k = true -> WF (gnodes g') ->
            SS (gnodes g') /\ ((11 <= stage)%N -> retN (gnodes g') /\ exitsN (gnodes g')
                                /\ (QOK Q ns -> K9 Q (gfuncs g') (gnodes g')))).
  { intros k g' Hk He HW. apply N.eqb_eq in He. split. apply HW. intros; lia. }
  destruct (cfg_new ns None) as [e|g0] eqn:H0; [discriminate|].
  assert (W0 : WF (gnodes g0)) by (eapply fresh_WF, cfg_new_fresh; eauto).
  destruct (N.eqb stage 0) eqn:E0. { inversion H; subst. eapply Early; eauto. lia. }
  destruct (directions g0) as [e|g1] eqn:H1; [discriminate|].
  destruct (directions_pres _ _ H1 W0) as [W1 _].
  destruct (N.eqb stage 1) eqn:E1. { inversion H; subst. eapply Early; eauto. lia. }
  apply bind_Ok_inv in H. destruct H as [g2 [H2 H]].
  destruct (avail_pass_core _ _ H2) as [C2 _].
  destruct (core_pres _ _ (coreA_coreB _ _ (eq_sym C2)) W1) as [W2 _].
  destruct (N.eqb stage 2) eqn:E2. { inversion H; subst. eapply Early; eauto. lia. }
  destruct (cfg_new ns (Some (interrupt_handler_names g2))) as [e|h0] eqn:H3; [discriminate|].
  pose proof (cfg_new_fresh _ _ _ H3) as F3.
  assert (W3 : WF (gnodes h0)) by (eapply fresh_WF; eauto).
  destruct (N.eqb stage 3) eqn:E3. { inversion H; subst. eapply Early; eauto. lia. }
  destruct (directions h0) as [e|h1] eqn:H4; [discriminate|].
  destruct (directions_pres _ _ H4 W3) as [W4 [Cn4 _]].
  destruct (N.eqb stage 4) eqn:E4. { inversion H; subst. eapply Early; eauto. lia. }
  cbv zeta in H.
  destruct (dead_code_pres h1 W4) as [W5 [Cn5 _]].
  destruct (N.eqb stage 5) eqn:E5. { inversion H; subst. eapply Early; eauto. lia. }
  apply bind_Ok_inv in H. destruct H as [h3 [H6 H]].
  destruct (avail_pass_core _ _ H6) as [C6 _].
  pose proof (coreA_coreB _ _ (eq_sym C6)) as B6.
  destruct (core_pres _ _ B6 W5) as [W6 [Cn6 _]].
  destruct (N.eqb stage 6) eqn:E6. { inversion H; subst. eapply Early; eauto. lia. }
  destruct (ecall_terminate_pres h3 W6) as [W7 [Cn7 _]].
  destruct (N.eqb stage 7) eqn:E7. { inversion H; subst. eapply Early; eauto. lia. }
  destruct (function_markup picks (ecall_terminate h3)) as [e|h5] eqn:H8; [discriminate|].
  destruct (function_markup_ok Q _ _ _ H8 (proj1 W7) (WF_retN _ W7)) as [S8 [R8 K8]].
  assert (K8' : QOK Q ns -> K9 Q (gfuncs h5) (gnodes h5)).
  { intros Hn. apply K8. apply WF_K9; auto.
    rewrite Cn7, Cn6, Cn5, Cn4. eapply fresh_Q; eauto. }
  destruct (N.eqb stage 8) eqn:E8.
  { inversion H; subst. apply N.eqb_eq in E8. split; auto; intros; lia. }
  apply bind_Ok_inv in H. destruct H as [h6 [H9 H]].
  destruct (avail_pass_core _ _ H9) as [C9 F9].
  pose proof (coreA_coreB _ _ (eq_sym C9)) as B9.
  pose proof (core_SS _ _ B9 S8) as S9. pose proof (core_retN _ _ B9 R8) as R9.
  assert (K9' : QOK Q ns -> K9 Q (gfuncs h6) (gnodes h6)).
  { intros Hn. rewrite F9. eapply K9_core; [symmetry; exact C9|auto]. }
  destruct (N.eqb stage 9) eqn:E9.
  { inversion H; subst. apply N.eqb_eq in E9. split; auto; intros; lia. }
  destruct (ecall_terminate_post h6 S9) as [S10 [Sh10 X10]].
  pose proof (shr_retN _ _ Sh10 R9) as R10.
  assert (K10 : QOK Q ns -> K9 Q (gfuncs (ecall_terminate h6)) (gnodes (ecall_terminate h6))).
  { intros Hn. simpl. eapply shr_K9; eauto. }
  destruct (N.eqb stage 10) eqn:E10.
  { inversion H; subst. apply N.eqb_eq in E10. split; auto; intros; lia. }
  apply bind_Ok_inv in H. destruct H as [h8 [H11 H]]. inversion H; subst g; clear H.
  destruct (liveness_pass_core _ _ H11) as [C11 F11].
  pose proof (eq_sym C11) as L11.
  pose proof (coreL_coreA _ _ L11) as A11. pose proof (coreA_coreB _ _ A11) as B11.
  split. eapply core_SS; eauto.
  intros _. split. eapply core_retN; eauto. split. eapply coreL_exitsN; eauto.
  intros Hn. rewrite F11. eapply K9_core; eauto.
Qed.

(* ---------------------------------------------------------------------------------------- *)
(* the theorems of Props/C03.v                                                               *)
(* ---------------------------------------------------------------------------------------- *)
Theorem cfg_sym : forall stage picks ns g, gen_cfg_upto stage picks ns = Ok (SOk g) -> Sym g.
Proof. intros stage picks ns g H. apply symN_Sym. apply (upto_inv (fun _ => True) _ _ _ _ H). Qed.

Theorem edges_stop : forall picks ns g, gen_full_cfg picks ns = Ok (SOk g) ->
  forall i ci, node_at g i ci -> (is_return (cn ci) = true \/ is_program_exit ci = true) -> nexts ci = [].
Proof.
  intros picks ns g H i ci Hi Hc. rewrite full_is_upto in H.
  destruct (upto_inv (fun _ => True) _ _ _ _ H) as [_ HL]. destruct HL as [HR [HX _]]. lia.
  destruct Hc as [Hc|Hc]. apply (HR i ci); auto. apply (HX i ci); auto.
Qed.

(* unconditionally: the same three kinds, where a written target need not be a non-merge node *)
Theorem cfg_edges_kinds_weak : forall picks ns g,
  gen_full_cfg picks ns = Ok (SOk g) ->
  forall i j ci, node_at g i ci -> In j (nexts ci) ->
    (j = S i /\ is_return (cn ci) = false /\ is_unconditional_jump (cn ci) = false) \/
    (exists l, jumps_to (cn ci) = Some l /\ find_label (wv l) (gnodes g) 0 = Some j) \/
    (exists fid f, is_return_merge (cn ci) = true /\ In fid (cfuncs ci) /\
                   nth_opt (gfuncs g) fid = Some f /\ j = fexit f /\ nexts ci = [j]).
Proof.
  intros picks ns g H i j ci Hi Hj. rewrite full_is_upto in H.
  destruct (upto_inv (fun _ => True) _ _ _ _ H) as [_ HL]. destruct HL as [HR [HX HK]]. lia.
  assert (HQ : QOK (fun _ => True) ns) by (split; auto).
  destruct (HK HQ i ci Hi) as [[HL1 HL2]|[HM [fid [f [Hin [Hf Hnx]]]]]].
  - destruct (HL2 j Hj) as [HF|[l [H1 H2]]]; auto.
    right. left. exists l. rewrite find_label_flab. auto.
  - pose proof (Hnx j Hj) as Hnj. rewrite Hnj in Hj. destruct Hj as [Hj|[]].
    right. right. exists fid, f. subst j. auto 6.
Qed.

Theorem unreachable_only_without_preds : forall g l,
  In l (lint_control_flow g) -> lcode l = LUnreachableCode ->
  exists i c, node_at g i c /\ lcands l = [loc_of_node (cn c)] /\ prevs c = [] /\
              is_any_entry (cn c) = false.
Proof.
  intros g l Hin Hcode. unfold lint_control_flow, for_nodes in Hin.
  apply in_flat_map in Hin. destruct Hin as [i [_ Hin]]. unfold getn in Hin.
  destruct (nth_opt (gnodes g) i) as [c|] eqn:Hc; [|destruct Hin].
  destruct (is_function_entry (cn c)) eqn:Hfe.
  - exfalso. apply in_flat_map in Hin. destruct Hin as [p [_ Hin]].
    destruct (nth_opt (gnodes g) p) as [pc|]; [|destruct Hin].
    destruct (is_program_entry (cn pc)).
    + apply in_map_iff in Hin. destruct Hin as [x [<- _]]. discriminate.
    + destruct (is_unconditional_jump (cn pc)); [|destruct Hin].
      destruct (cfuncs c); [destruct Hin|]. destruct Hin as [<-|[]]. discriminate.
  - destruct (is_program_entry (cn c)) eqn:Hpe; simpl in Hin; [destruct Hin|].
    destruct (prevs c) eqn:Hp; [|destruct Hin]. destruct Hin as [<-|[]].
    exists i, c. split; auto. split; auto. split; auto.
    destruct (cn c); simpl in *; auto; discriminate.
Qed.


(* the kinds statement of Props/C03.v (Spec/CfgSpec.v `edge_kind`) *)
Theorem cfg_edges_kinds : forall picks ns g, gen_full_cfg picks ns = Ok (SOk g) ->
  forall i j ci, node_at g i ci -> In j (nexts ci) -> edge_kind g i j ci.
Proof.
  intros picks ns g H i j ci Hi Hj.
  destruct (cfg_edges_kinds_weak picks ns g H i j ci Hi Hj) as [[H1 [H2 H3]]|[[l [H1 H2]]|[fid [f [H1 [H2 [H3 [H4 H5]]]]]]]].
  - apply FallThrough; auto.
  - apply Target with (l := l); auto.
  - apply RetMerge with (fid := fid) (f := f); auto.
Qed.
