(* C06 - the liveness loop on graphs whose edges respect the order of the indices (`dag`: successors have
   larger, predecessors smaller indices) and that have no call sites.

   Finding: `live_node` computes two analyses in the same sweep, which runs from the last node to the first:
   live_in/live_out (backward: from the successors, which the sweep has already processed) and u_def (FORWARD:
   the intersection of the u_def of the visited predecessors, which the sweep processes LATER).  So u_def
   moves one node per sweep along a chain and the number of sweeps is linear in the length of straight-line
   code: "two sweeps" is false here too (`dag_live_two_sweeps_false`).  Proved: the loop returns within
   length + 2 sweeps (`dag_live_sweeps`), hence `liveness_pass` (fuel 70 * length + 64) returns on this
   class and its result satisfies LiveFix (`dag_liveness_pass`).
   Call sites are excluded: they write the live_in of the function's exit and read the live_out of its
   entry through `gfuncs`, whatever the indices of those nodes (and F-C06-live-hang lives there). *)
From RV.Model Require Import Base I32 Imm Lexer Isa Parser Reader Cfg Avail Live.
From RV.Spec Require Import LiveSpec FixSpec ForwardSpec.
From RV.Proofs Require Import FixProofs TotalProofs ForwardProofs.
From Coq Require Import List Bool Arith NArith Lia.
Import ListNotations.
Open Scope nat_scope.

(* ---------------------------------------------------------------------------------- *)
(* one plain node, with its u_def spelled out                                           *)

Definition lv_ud_plain (c : cnode) (lo pud : regset) : regset :=
  if is_ecall (cn c) then
    rs_union (rs_diff pud caller_saved_set)
             (match known_ecall_signature c with Some (_, rets) => rets | None => rs_empty end)
  else if is_return (cn c) then pud
  else if is_function_entry (cn c) then
    rs_inter (rs_union (rs_diff lo (kill_reg (cn c))) (gen_reg (cn c))) argument_set
  else rs_union pud (kill_reg (cn c)).

Lemma live_node_plain2 g ns v i c :
  getn ns i = Some c -> calls_to_from_cfg g c = None ->
  live_node g ns v i =
  (upd ns i (fun x => set_live x (lv_li_plain c (lv_lo ns c)) (lv_lo ns c)
                               (lv_ud_plain c (lv_lo ns c) (meet_udef ns (prevs c) v))),
   (negb (N.eqb (lv_lo ns c) (lout c)) || negb (N.eqb (lv_li_plain c (lv_lo ns c)) (lin c))
    || negb (N.eqb (lv_ud_plain c (lv_lo ns c) (meet_udef ns (prevs c) v)) (udef c)))%bool).
Proof.
  intros E1 E2. unfold live_node, lv_li_plain, lv_ud_plain, lv_lo. rewrite E1, E2.
  destruct (is_ecall (cn c)).
  - destruct (known_ecall_signature c) as [[a r]|]; reflexivity.
  - destruct (is_return (cn c)); [reflexivity|].
    destruct (is_function_entry (cn c)); reflexivity.
Qed.

Lemma li_idem c lo lo' ud : lv_li_plain (set_live c (lv_li_plain c lo) lo' ud) lo = lv_li_plain c lo.
Proof.
  unfold lv_li_plain. cbn [set_live cn lin].
  change (known_ecall_signature (set_live c _ lo' ud)) with (known_ecall_signature c).
  destruct (is_ecall (cn c)); [reflexivity|]. destruct (is_return (cn c)); [|reflexivity].
  unfold rs_union. rewrite <- N.lor_assoc, N.lor_diag. reflexivity.
Qed.

Lemma ud_set_live c a b d lo pud : lv_ud_plain (set_live c a b d) lo pud = lv_ud_plain c lo pud.
Proof. reflexivity. Qed.

(* ---------------------------------------------------------------------------------- *)
(* what the right-hand sides look at                                                    *)

Lemma fold_union_ext_in (F G : nat -> regset) l : forall acc,
  (forall s, In s l -> F s = G s) ->
  fold_left (fun acc s => rs_union acc (F s)) l acc = fold_left (fun acc s => rs_union acc (G s)) l acc.
Proof.
  induction l as [|a l IH]; intros acc H; cbn [fold_left]; [reflexivity|].
  rewrite (H a (or_introl eq_refl)). apply IH. intros s Hs. apply H. right. exact Hs.
Qed.

Lemma lv_lo_ext ns ns' c d :
  nexts c = nexts d -> (forall s, In s (nexts c) -> Lin_of ns s = Lin_of ns' s) -> lv_lo ns c = lv_lo ns' d.
Proof.
  intros En H. unfold lv_lo. rewrite <- En, !union_live_in_eq. apply fold_union_ext_in. exact H.
Qed.

Lemma meet_udef_all ns ps vis :
  (forall p, In p ps -> memn p vis = true) -> meet_udef ns ps vis = meet_udef ns ps ps.
Proof.
  intros H. unfold meet_udef.
  rewrite (filter_all (fun p => memn p vis) ps H).
  rewrite (filter_all (fun p => memn p ps) ps (fun p Hp => memn_In p ps Hp)). reflexivity.
Qed.

Lemma meet_udef_ext ns ns' ps vis :
  (forall p, In p ps -> nth_opt ns p = nth_opt ns' p) -> meet_udef ns ps vis = meet_udef ns' ps vis.
Proof.
  intros H. unfold meet_udef.
  assert (HL : forall p, In p (filter (fun p => memn p vis) ps) -> getn ns p = getn ns' p).
  { intros p Hp. apply filter_In in Hp. unfold getn. apply H, Hp. }
  destruct (filter (fun p => memn p vis) ps) as [|p l]; [reflexivity|].
  rewrite (HL p (or_introl eq_refl)).
  generalize (match getn ns' p with Some c => udef c | None => rs_empty end).
  assert (HL' : forall q, In q l -> getn ns q = getn ns' q) by (intros q Hq; apply HL; right; exact Hq).
  clear HL. induction l as [|q l IH]; intros acc; cbn [fold_left]; [reflexivity|].
  rewrite (HL' q (or_introl eq_refl)). apply IH. intros r Hr. apply HL'. right. exact Hr.
Qed.

(* ---------------------------------------------------------------------------------- *)
(* the equations of one node                                                            *)

Definition Lset (ns : list cnode) (c : cnode) : Prop :=
  lout c = lv_lo ns c /\ lin c = lv_li_plain c (lout c).
Definition Uset (ns : list cnode) (c : cnode) : Prop :=
  udef c = lv_ud_plain c (lout c) (meet_udef ns (prevs c) (prevs c)).

Lemma Lset_keep ns ns' c :
  (forall s, In s (nexts c) -> Lin_of ns s = Lin_of ns' s) -> Lset ns c -> Lset ns' c.
Proof. intros H [A B]. split; [rewrite A; apply (lv_lo_ext ns ns' c c eq_refl H)|exact B]. Qed.
Lemma Uset_keep ns ns' c :
  (forall p, In p (prevs c) -> nth_opt ns p = nth_opt ns' p) -> Uset ns c -> Uset ns' c.
Proof. intros H A. unfold Uset. rewrite A. f_equal. apply meet_udef_ext. exact H. Qed.

Lemma live_step g ns vis i c :
  dag ns -> nth_opt ns i = Some c -> calls_to_from_cfg g c = None ->
  exists ns' ch c',
    live_node g ns vis i = (ns', ch) /\ nth_opt ns' i = Some c' /\
    (forall j, j <> i -> nth_opt ns' j = nth_opt ns j) /\
    Lset ns' c' /\
    ((forall p, In p (prevs c) -> memn p vis = true) -> Uset ns' c') /\
    (Lset ns c -> lin c' = lin c /\ lout c' = lout c) /\
    ((forall p, In p (prevs c) -> memn p vis = true) -> Lset ns c -> Uset ns c -> ns' = ns /\ ch = false).
Proof.
  intros D E NC. destruct (D i c E) as [DN DP].
  pose (lo := lv_lo ns c). pose (li := lv_li_plain c lo).
  pose (ud := lv_ud_plain c lo (meet_udef ns (prevs c) vis)).
  pose (c' := set_live c li lo ud). pose (ns' := upd ns i (fun x => set_live x li lo ud)).
  exists ns', (negb (N.eqb lo (lout c)) || negb (N.eqb li (lin c)) || negb (N.eqb ud (udef c)))%bool, c'.
  assert (N : nth_opt ns' i = Some c') by (unfold ns'; rewrite nth_opt_upd_same, E; reflexivity).
  assert (O : forall j, j <> i -> nth_opt ns' j = nth_opt ns j).
  { intros j Nj. unfold ns'. apply nth_opt_upd_other. exact Nj. }
  split; [apply (live_node_plain2 g ns vis i c E NC)|]. split; [exact N|]. split; [exact O|].
  split.
  { split.
    - change (lo = lv_lo ns' c'). apply (lv_lo_ext ns ns' c c' eq_refl).
      intros s Hs. unfold Lin_of. rewrite O; [reflexivity|]. pose proof (DN s Hs). lia.
    - change (li = lv_li_plain (set_live c (lv_li_plain c lo) lo ud) lo). symmetry. apply li_idem. }
  split.
  { intros PV. unfold Uset. change (ud = lv_ud_plain c lo (meet_udef ns' (prevs c) (prevs c))).
    unfold ud. f_equal. rewrite (meet_udef_all ns (prevs c) vis PV). apply meet_udef_ext.
    intros p Hp. symmetry. apply O. pose proof (DP p Hp). lia. }
  split.
  { intros [A B]. change (li = lin c /\ lo = lout c). unfold li, lo. rewrite <- A, <- B. split; reflexivity. }
  intros PV [A B] U.
  assert (R1 : lo = lout c) by (symmetry; exact A).
  assert (R2 : li = lin c) by (unfold li; rewrite R1; symmetry; exact B).
  assert (R3 : ud = udef c).
  { unfold ud. rewrite R1, (meet_udef_all ns (prevs c) vis PV). symmetry. exact U. }
  split.
  - unfold ns'. apply (upd_fix ns i _ c E). rewrite R1, R2, R3. apply set_live_id.
  - rewrite R1, R2, R3, !N.eqb_refl. reflexivity.
Qed.

(* ---------------------------------------------------------------------------------- *)
(* sweeps                                                                               *)

Lemma dag_frame ns ns' : Forall2 frameR ns ns' -> dag ns -> dag ns'.
Proof.
  intros R D i d Ed. destruct (Forall2_nth_r _ _ _ _ _ R Ed) as [c [Ec Q]].
  destruct Q as [_ [_ [_ [Q1 [Q2 _]]]]]. destruct (D i c Ec) as [D1 D2].
  rewrite <- Q1, <- Q2. split; assumption.
Qed.

Lemma no_calls_frame g ns ns' : Forall2 frameR ns ns' -> no_call_sites g ns -> no_call_sites g ns'.
Proof.
  intros R NC i d Ed. destruct (Forall2_nth_r _ _ _ _ _ R Ed) as [c [Ec Q]].
  destruct Q as [Q _]. rewrite (calls_R g c d Q). apply (NC i c Ec).
Qed.

Lemma rev_seq_S m : rev (seq 0 (S m)) = m :: rev (seq 0 m).
Proof. rewrite seq_S, rev_app_distr. reflexivity. Qed.

(* any sweep: afterwards live_in / live_out satisfy their equations everywhere *)
Lemma live_sweepA g : forall m ns vis ch ns' vis' ch',
  dag ns -> no_call_sites g ns -> m <= length ns ->
  (forall j c, m <= j -> nth_opt ns j = Some c -> Lset ns c) ->
  live_sweep g (rev (seq 0 m)) ns vis ch = (ns', vis', ch') ->
  forall j c, nth_opt ns' j = Some c -> Lset ns' c.
Proof.
  induction m as [|m IH]; intros ns vis ch ns' vis' ch' D NC Lm A H.
  - cbn in H. inversion H; subst. intros j c Ec. apply (A j c); [lia|exact Ec].
  - rewrite rev_seq_S in H. cbn [live_sweep] in H.
    destruct (live_node g ns vis m) as [ns1 c1] eqn:E.
    pose proof (live_node_frame _ _ _ _ _ _ E) as FR.
    destruct (nth_opt_lt_some ns m Lm) as [c Ec].
    destruct (live_step g ns vis m c D Ec (NC m c Ec)) as [ns2 [ch2 [c' [H1 [N [O [LS _]]]]]]].
    rewrite H1 in E. inversion E; subst ns2 ch2. clear E.
    refine (IH ns1 (ins m vis) _ ns' vis' ch' (dag_frame ns ns1 FR D) (no_calls_frame g ns ns1 FR NC) _ _ H).
    + rewrite <- (F2_length FR). lia.
    + intros j d Hj Ed. destruct (Nat.eq_dec j m) as [->|Nj].
      * rewrite N in Ed. inversion Ed; subst d. exact LS.
      * rewrite (O j Nj) in Ed. apply (Lset_keep ns ns1 d); [|apply (A j d); [lia|exact Ed]].
        intros s Hs. unfold Lin_of. rewrite O; [reflexivity|].
        destruct (D j d Ed) as [DN _]. pose proof (DN s Hs). lia.
Qed.

(* a sweep with every node visited, from live sets that satisfy their equations: the live sets stay, and
   u_def becomes final at one more node *)
Definition BInv (k m : nat) (ns : list cnode) : Prop :=
  (forall j c, nth_opt ns j = Some c -> Lset ns c) /\
  (forall j c, (j < k \/ (j = k /\ m <= k)) -> nth_opt ns j = Some c -> Uset ns c).

Lemma live_sweepB g k : forall m ns vis ch ns' vis' ch',
  dag ns -> no_call_sites g ns -> m <= length ns -> (forall p, p < length ns -> memn p vis = true) ->
  BInv k m ns -> live_sweep g (rev (seq 0 m)) ns vis ch = (ns', vis', ch') -> BInv k 0 ns'.
Proof.
  induction m as [|m IH]; intros ns vis ch ns' vis' ch' D NC Lm V [B1 B2] H.
  - cbn in H. inversion H; subst. split; assumption.
  - rewrite rev_seq_S in H. cbn [live_sweep] in H.
    destruct (live_node g ns vis m) as [ns1 c1] eqn:E.
    pose proof (live_node_frame _ _ _ _ _ _ E) as FR.
    destruct (nth_opt_lt_some ns m Lm) as [c Ec].
    assert (PV : forall p, In p (prevs c) -> memn p vis = true).
    { intros p Hp. apply V. destruct (D m c Ec) as [_ DP]. pose proof (DP p Hp). lia. }
    destruct (live_step g ns vis m c D Ec (NC m c Ec)) as [ns2 [ch2 [c' [H1 [N [O [LS [US [LK SS]]]]]]]]].
    rewrite H1 in E. inversion E; subst ns2 ch2. clear E.
    destruct (LK (B1 m c Ec)) as [K1 K2].
    assert (LinEq : forall s, Lin_of ns s = Lin_of ns1 s).
    { intros s. unfold Lin_of. destruct (Nat.eq_dec s m) as [->|Ns]; [rewrite N, Ec; symmetry; exact K1|].
      rewrite (O s Ns). reflexivity. }
    refine (IH ns1 (ins m vis) _ ns' vis' ch' (dag_frame ns ns1 FR D) (no_calls_frame g ns ns1 FR NC) _ _ _ H).
    + rewrite <- (F2_length FR). lia.
    + intros p Hp. rewrite <- (F2_length FR) in Hp. rewrite memn_ins, (V p Hp). apply orb_true_r.
    + split.
      * intros j d Ed. destruct (Nat.eq_dec j m) as [->|Nj].
        -- rewrite N in Ed. inversion Ed; subst d. exact LS.
        -- rewrite (O j Nj) in Ed. apply (Lset_keep ns ns1 d (fun s _ => LinEq s)). apply (B1 j d Ed).
      * intros j d Hj Ed. destruct (Nat.eq_dec j m) as [->|Nj].
        -- rewrite N in Ed. inversion Ed; subst d. apply US. exact PV.
        -- rewrite (O j Nj) in Ed. destruct (Nat.lt_ge_cases m k) as [Lk|Lk].
           ++ destruct (SS PV (B1 m c Ec) (B2 m c (or_introl Lk) Ec)) as [Eg _]. rewrite Eg.
              apply (B2 j d); [|exact Ed]. destruct Hj as [Hj|[Hj1 Hj2]]; [left; exact Hj|right; lia].
           ++ assert (Jk : j < k) by lia.
              apply (Uset_keep ns ns1 d); [|apply (B2 j d (or_introl Jk) Ed)].
              intros p Hp. symmetry. apply O. destruct (D j d Ed) as [_ DP]. pose proof (DP p Hp). lia.
Qed.

Lemma live_sweep_vis_in g : forall idx ns vis ch ns' vis' ch',
  live_sweep g idx ns vis ch = (ns', vis', ch') ->
  forall p, In p idx \/ memn p vis = true -> memn p vis' = true.
Proof.
  induction idx as [|i idx IH]; intros ns vis ch ns' vis' ch' H p Hp; cbn [live_sweep] in H.
  - inversion H; subst. destruct Hp as [[]|Hp]; exact Hp.
  - destruct (live_node g ns vis i) as [ns1 c1]. apply (IH _ _ _ _ _ _ H p).
    destruct Hp as [[->|Hp]|Hp]; [right|left; exact Hp|right].
    + rewrite memn_ins, Nat.eqb_refl. reflexivity.
    + rewrite memn_ins, Hp. apply orb_true_r.
Qed.

(* all equations hold, every node visited: a sweep changes nothing *)
Lemma live_settled_sweep g ns : dag ns -> no_call_sites g ns ->
  (forall j c, nth_opt ns j = Some c -> Lset ns c /\ Uset ns c) ->
  forall idx vis, (forall p, p < length ns -> memn p vis = true) -> (forall i, In i idx -> i < length ns) ->
  exists vis', live_sweep g idx ns vis false = (ns, vis', false).
Proof.
  intros D NC S. induction idx as [|a idx IH]; intros vis V B; cbn [live_sweep]; [eexists; reflexivity|].
  assert (La : a < length ns) by (apply B; left; reflexivity).
  destruct (nth_opt_lt_some ns a La) as [c E].
  destruct (live_step g ns vis a c D E (NC a c E)) as [ns2 [ch2 [c' [H1 [_ [_ [_ [_ [_ SS]]]]]]]]].
  destruct (S a c E) as [SL SU].
  destruct SS as [Eg Ec]; [|exact SL|exact SU|].
  { intros p Hp. apply V. destruct (D a c E) as [_ DP]. pose proof (DP p Hp). lia. }
  subst ns2 ch2. rewrite H1. cbn [orb].
  apply IH.
  - intros p Hp. rewrite memn_ins, (V p Hp). apply orb_true_r.
  - intros i Hi. apply B. right. exact Hi.
Qed.

(* ---------------------------------------------------------------------------------- *)
(* the loop                                                                             *)

Lemma live_loop_B g : forall d k ns vis F,
  dag ns -> no_call_sites g ns -> (forall p, p < length ns -> memn p vis = true) ->
  (forall j c, nth_opt ns j = Some c -> Lset ns c) ->
  (forall j c, j < k -> nth_opt ns j = Some c -> Uset ns c) ->
  length ns <= k + d -> S d <= F -> exists ns', live_loop F g ns vis = Ok ns'.
Proof.
  induction d as [|d IH]; intros k ns vis F D NC V AL AU Ln LF; (destruct F as [|F]; [lia|]); cbn [live_loop].
  - destruct (live_settled_sweep g ns D NC) with (idx := rev (seq 0 (length ns))) (vis := vis) as [v2 E2].
    + intros j c Ec. split; [apply (AL j c Ec)|apply (AU j c); [apply nth_opt_some_lt in Ec; lia|exact Ec]].
    + exact V.
    + intros i Hi. apply in_rev, in_seq in Hi. lia.
    + rewrite E2. eexists; reflexivity.
  - destruct (live_sweep g (rev (seq 0 (length ns))) ns vis false) as [[ns1 v1] ch] eqn:E1.
    destruct ch; [|eexists; reflexivity].
    pose proof (live_sweep_frame _ _ _ _ _ _ _ _ E1) as FR. pose proof (F2_length FR) as L1.
    assert (B0 : BInv k (length ns) ns).
    { split; [exact AL|]. intros j c [Hj|[Hj1 Hj2]] Ec; [apply (AU j c Hj Ec)|].
      apply nth_opt_some_lt in Ec. lia. }
    destruct (live_sweepB g k (length ns) ns vis false ns1 v1 true D NC (le_n _) V B0 E1) as [C1 C2].
    apply (IH (S k) ns1 v1 F (dag_frame ns ns1 FR D) (no_calls_frame g ns ns1 FR NC)).
    + intros p Hp. apply (live_sweep_vis_in g _ _ _ _ _ _ _ E1 p). right. apply V. lia.
    + exact C1.
    + intros j c Hj Ec. apply (C2 j c); [|exact Ec]. lia.
    + lia.
    + lia.
Qed.

Theorem dag_live_sweeps : forall fuel g ns,
  dag ns -> no_call_sites g ns -> exists ns', live_loop (S (S (length ns)) + fuel) g ns [] = Ok ns'.
Proof.
  intros fuel g ns D NC. change (S (S (length ns)) + fuel) with (S (S (length ns) + fuel)).
  remember (S (length ns) + fuel) as F eqn:HF. cbn [live_loop].
  destruct (live_sweep g (rev (seq 0 (length ns))) ns [] false) as [[ns1 v1] ch] eqn:E1.
  destruct ch; [|eexists; reflexivity].
  pose proof (live_sweep_frame _ _ _ _ _ _ _ _ E1) as FR. pose proof (F2_length FR) as L1.
  apply (live_loop_B g (length ns1) 0 ns1 v1 F (dag_frame ns ns1 FR D) (no_calls_frame g ns ns1 FR NC)).
  - intros p Hp. apply (live_sweep_vis_in g _ _ _ _ _ _ _ E1 p). left. rewrite <- in_rev. apply in_seq. lia.
  - apply (live_sweepA g (length ns) ns [] false ns1 v1 true D NC (le_n _)); [|exact E1].
    intros j c Hj Ec. apply nth_opt_some_lt in Ec. lia.
  - intros j c Hj. lia.
  - lia.
  - lia.
Qed.

(* the pass returns on this class, and (live_fix_partial: there is no call site to resolve) its result
   satisfies the liveness equations *)
Theorem dag_liveness_pass : forall g,
  dag (gnodes g) -> no_call_sites g (gnodes g) -> exists g', liveness_pass g = Ok g' /\ LiveFix g'.
Proof.
  intros g D NC.
  assert (LF : exists fuel, live_fuel g = S (S (length (gnodes g))) + fuel).
  { exists (69 * length (gnodes g) + 62). unfold live_fuel. lia. }
  destruct LF as [fuel LF]. destruct (dag_live_sweeps fuel g (gnodes g) D NC) as [ns H].
  assert (P : liveness_pass g = Ok (mkcfg ns (gfuncs g) (glabelfn g))).
  { unfold liveness_pass. rewrite LF, H. reflexivity. }
  eexists. split; [exact P|]. apply (live_fix_partial g _); [|exact P].
  intros i c fid Ec EC. rewrite (NC i c Ec) in EC. discriminate EC.
Qed.

(* ---------------------------------------------------------------------------------- *)
(* two sweeps are not enough: ProgramEntry; `li t1, 1`; `li t0, 1`, straight-line, empty facts *)
Definition fwd_line3 : cfg :=
  mkcfg [ fwd_nd (PProgramEntry (Some 0%N) raw_default) [1] [];
          fwd_nd (PIArith (fwd_w IAddi) (fwd_w 6%N) (fwd_w 0%N) (fwd_w 1%Z) raw_default) [2] [0];
          fwd_nd (PIArith (fwd_w IAddi) (fwd_w 5%N) (fwd_w 0%N) (fwd_w 1%Z) raw_default) [] [1] ] [] [].

Lemma fwd_line3_dag : dag (gnodes fwd_line3) /\ no_call_sites fwd_line3 (gnodes fwd_line3).
Proof.
  split.
  - intros i c E.
    do 3 (destruct i as [|i]; [cbn in E; inversion E; subst c; cbn; split; intros x Hx; intuition lia|]).
    cbn in E. discriminate.
  - intros i c E.
    do 3 (destruct i as [|i]; [cbn in E; inversion E; subst c; reflexivity|]).
    cbn in E. discriminate.
Qed.

Theorem dag_live_two_sweeps_false :
  ~ (forall fuel g ns, dag ns -> no_call_sites g ns -> exists ns', live_loop (S (S fuel)) g ns [] = Ok ns').
Proof.
  intros H. destruct fwd_line3_dag as [D NC].
  destruct (H 0 fwd_line3 (gnodes fwd_line3) D NC) as [ns' E]. vm_compute in E. discriminate E.
Qed.
