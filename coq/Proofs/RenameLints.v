(* C14, part 5: the eleven lints on a renamed graph.  Eight lints give exactly the same list; the three that
   enumerate a register set in numeric order (dead-value / use-after-call, garbage-input, callee-saved)
   give the same findings in a possibly different order.  The proofs are generic in the relation R
   (equality or Permutation) between the two result lists. *)
From Coq Require Import Lia ZifyBool ZifyN Sorting.Sorted Permutation.
From RV.Model Require Import Base I32 Imm Lexer Isa Parser Reader Cfg Avail Live Lints.
From RV.Spec Require Import RenameSpec.
From RV.Proofs Require Import RenameBase RenameGraph RenameLive RenameAvail.
Open Scope N_scope.

Lemma flat_map_map {A B C} (f : B -> list C) (g : A -> B) (l : list A) :
  flat_map f (map g l) = flat_map (fun x => f (g x)) l.
Proof. induction l as [|x l IH]; cbn [map flat_map]; [reflexivity|]. rewrite IH. reflexivity. Qed.

Lemma flat_map_ext_in {A B} (f g : A -> list B) (l : list A) :
  (forall x, In x l -> f x = g x) -> flat_map f l = flat_map g l.
Proof.
  induction l as [|x l IH]; intros H; cbn [flat_map]; [reflexivity|].
  rewrite H by (left; reflexivity). rewrite IH; [reflexivity|]. intros y Hy. apply H. right. exact Hy.
Qed.

Lemma existsb_map {A B} (f : B -> bool) (g : A -> B) (l : list A) : existsb f (map g l) = existsb (fun x => f (g x)) l.
Proof. induction l as [|x l IH]; cbn [map existsb]; [reflexivity|]. rewrite IH. reflexivity. Qed.

Lemma existsb_ext' {A} (f g : A -> bool) (l : list A) : (forall x, f x = g x) -> existsb f l = existsb g l.
Proof. intros H. induction l as [|x l IH]; cbn [existsb]; [reflexivity|]. rewrite H, IH. reflexivity. Qed.

Lemma filter_map_ext' {A B} (f h : A -> option B) l : (forall x, f x = h x) -> filter_map f l = filter_map h l.
Proof. intros H. induction l as [|x l IH]; cbn [filter_map]; [reflexivity|]. rewrite H, IH. reflexivity. Qed.

Lemma fold_left_ext' {A X} (F G : A -> X -> A) (l : list X) : (forall a x, F a x = G a x) -> forall a, fold_left F l a = fold_left G l a.
Proof. intros H. induction l as [|x l IH]; intros a; cbn [fold_left]; [reflexivity|]. rewrite H. apply IH. Qed.

Section Lints.
Variable s : reg -> reg.
Variable rho : str -> str.
Hypothesis Hs : class_perm s.
Hypothesis Hr : label_renaming rho.
Notation rn := (rn_node s rho).
Notation rc := (rn_cnode s rho).
Notation rw := (map_w rho).
Notation ra := (rn_aval s rho).
Notation rg := (rn_cfg s rho).
Notation ps := (perm_set s).
Notation pm := (rn_regmap s rho).
Notation mm := (rn_memmap s rho).

Lemma loc_of_node_rn n : loc_of_node (rn n) = loc_of_node n.
Proof. unfold loc_of_node. rewrite (rn_node_raw s rho). reflexivity. Qed.

(* ---- the two searches --------------------------------------------------------------------------- *)
Lemma usage_hit_rn g item i : usage_hit (map rc g) (s item) i = usage_hit g item i.
Proof.
  unfold usage_hit. rewrite (getn_rc s rho). destruct (getn g i) as [c|]; cbn [option_map]; [|reflexivity].
  change (cn (rc c)) with (rn (cn c)). rewrite (rn_gen_reg s rho Hs), (perm_set_spec s Hs), (rn_reads_from s rho Hs).
  destruct (rs_mem item (gen_reg (cn c))); [|reflexivity]. f_equal.
  rewrite (filter_map_comm (fun r => N.eqb (wv r) item) (fun r => N.eqb (wv r) (s item)) (map_w s))
    by (intros x; cbn [map_w wv]; apply (s_eqb s Hs)).
  destruct (filter (fun r => N.eqb (wv r) item) (reads_from (cn c))); reflexivity.
Qed.

Lemma first_usage_rn fuel g item : forall fr vis,
  first_usage fuel (map rc g) (s item) fr vis = first_usage fuel g item fr vis.
Proof.
  induction fuel as [|f IH]; intros fr vis; cbn [first_usage]; [reflexivity|].
  destruct (filter (fun i => negb (memn i vis)) fr) as [|x fresh]; [reflexivity|].
  rewrite (filter_map_ext' (usage_hit (map rc g) (s item)) (usage_hit g item)) by (intros y; apply usage_hit_rn).
  destruct (filter_map (usage_hit g item) (x :: fresh)); [|reflexivity].
  rewrite (fold_left_ext'
             (fun acc i => match getn (map rc g) i with Some c => fold_left (fun a j => ins j a) (nexts c) acc | None => acc end)
             (fun acc i => match getn g i with Some c => fold_left (fun a j => ins j a) (nexts c) acc | None => acc end)).
  - apply IH.
  - intros a y. rewrite (getn_rc s rho). destruct (getn g y); reflexivity.
Qed.

Lemma first_usage_ranges_rn g i item :
  error_ranges_for_first_usage (map rc g) i (s item) = error_ranges_for_first_usage g i item.
Proof.
  unfold error_ranges_for_first_usage. rewrite (getn_rc s rho), map_length.
  destruct (getn g i) as [c|]; cbn [option_map]; [|reflexivity]. apply first_usage_rn.
Qed.

Lemma first_store_rn fuel g item : forall q vis acc,
  first_store fuel (map rc g) (s item) q vis acc = first_store fuel g item q vis acc.
Proof.
  induction fuel as [|f IH]; intros q vis acc; cbn [first_store]; [reflexivity|].
  destruct q as [|p q]; [reflexivity|]. destruct (memn p vis); [apply IH|].
  rewrite (getn_rc s rho). destruct (getn g p) as [c|]; cbn [option_map]; [|apply IH].
  change (cn (rc c)) with (rn (cn c)). change (prevs (rc c)) with (prevs c).
  rewrite (rn_writes_to s rho). destruct (writes_to (cn c)) as [w|]; cbn [option_map map_w wv wt]; [|apply IH].
  rewrite (s_eqb s Hs). destruct (N.eqb (wv w) item); apply IH.
Qed.

Lemma first_store_ranges_rn g i item :
  error_ranges_for_first_store (map rc g) i (s item) = error_ranges_for_first_store g i item.
Proof.
  unfold error_ranges_for_first_store. rewrite (getn_rc s rho), map_length.
  destruct (getn g i) as [c|]; cbn [option_map]; [|reflexivity]. apply first_store_rn.
Qed.

Lemma usage_item_rn code g i item :
  (fun item => let cands := error_ranges_for_first_usage (gnodes (rg g)) i item in
               match cands with
               | [] => []
               | _ => match filter_map (fun x => x) cands with
                      | [] => []
                      | ls => [mklint code ls (existsb (fun x => match x with None => true | Some _ => false end) cands)]
                      end
               end) (s item)
  = (fun item => let cands := error_ranges_for_first_usage (gnodes g) i item in
               match cands with
               | [] => []
               | _ => match filter_map (fun x => x) cands with
                      | [] => []
                      | ls => [mklint code ls (existsb (fun x => match x with None => true | Some _ => false end) cands)]
                      end
               end) item.
Proof. cbv beta zeta. cbn [rn_cfg gnodes]. rewrite first_usage_ranges_rn. reflexivity. Qed.

Lemma existsb_pm (h h' : aval -> bool) m : rsorted m -> (forall v, h' (ra v) = h v) ->
  existsb (fun kv => h' (snd kv)) (pm m) = existsb (fun kv => h (snd kv)) m.
Proof.
  intros Hm Hh. apply bool_iff. rewrite !existsb_exists. split.
  - intros [[k' v'] [Hin Hv]]. cbn [snd] in Hv.
    apply (rm_get_In (pm m) k' v' (rsorted_pm s rho m)) in Hin.
    destruct (cp_surj s Hs k') as [k <-]. rewrite (rm_get_rn s rho Hs) in Hin.
    destruct (rm_get k m) as [v|] eqn:E; cbn [option_map] in Hin; [|discriminate]. injection Hin as <-.
    exists (k, v). split; [apply (rm_get_In m k v Hm), E | cbn [snd]; rewrite <- Hh; exact Hv].
  - intros [[k v] [Hin Hv]]. cbn [snd] in Hv. exists (s k, ra v). split; [|cbn [snd]; rewrite Hh; exact Hv].
    apply (rm_get_In (pm m) (s k) (ra v) (rsorted_pm s rho m)). rewrite (rm_get_rn s rho Hs).
    apply (rm_get_In m k v Hm) in Hin. rewrite Hin. reflexivity.
Qed.

Lemma is_fe_with_func_rn g i c :
  is_function_entry_with_func (rg g) i (rc c) = option_map (rn_func s) (is_function_entry_with_func g i c).
Proof.
  unfold is_function_entry_with_func. cbn [rn_cfg gfuncs]. change (cfuncs (rc c)) with (cfuncs c).
  rewrite (filter_map_ext' _ (fun fid => option_map (rn_func s)
             (match nth_opt (gfuncs g) fid with Some f => if Nat.eqb (fentry f) i then Some f else None | None => None end))).
  2:{ intros fid. rewrite nth_opt_map'. destruct (nth_opt (gfuncs g) fid) as [f|]; cbn [option_map]; [|reflexivity].
      cbn [rn_func fentry]. destruct (Nat.eqb (fentry f) i); reflexivity. }
  induction (cfuncs c) as [|fid l IH]; cbn [filter_map]; [reflexivity|].
  destruct (match nth_opt (gfuncs g) fid with Some f => if Nat.eqb (fentry f) i then Some f else None | None => None end);
    cbn [option_map]; [reflexivity | exact IH].
Qed.

(* ---- generic in the relation between the two result lists ---------------------------------------- *)
Variable R : list lint -> list lint -> Prop.
Hypothesis R_refl : forall l, R l l.
Hypothesis R_app : forall a b c d, R a b -> R c d -> R (a ++ c) (b ++ d).
(* enumerating the image of a set and enumerating the set *)
Hypothesis R_elems : forall (F F' : reg -> list lint) X,
  (forall r, F' (s r) = F r) -> R (flat_map F' (rs_elems (ps X))) (flat_map F (rs_elems X)).

Lemma R_eq a b : a = b -> R a b.
Proof. intros ->. apply R_refl. Qed.

Lemma R_flat_map {A} (f f' : A -> list lint) l : (forall x, In x l -> R (f' x) (f x)) -> R (flat_map f' l) (flat_map f l).
Proof.
  induction l as [|x l IH]; intros H; cbn [flat_map]; [apply R_refl|].
  apply R_app; [apply H; left; reflexivity | apply IH; intros y Hy; apply H; right; exact Hy].
Qed.

Lemma for_nodes_R g (F F' : nat -> cnode -> list lint) :
  (forall i c, getn (gnodes g) i = Some c -> R (F' i (rc c)) (F i c)) -> R (for_nodes (rg g) F') (for_nodes g F).
Proof.
  intros H. unfold for_nodes, indices. cbn [rn_cfg gnodes]. rewrite map_length.
  apply R_flat_map. intros i _. rewrite (getn_rc s rho).
  destruct (getn (gnodes g) i) as [c|] eqn:E; cbn [option_map]; [apply H, E | apply R_refl].
Qed.
Lemma for_nodes_eq g (F F' : nat -> cnode -> list lint) :
  (forall i c, getn (gnodes g) i = Some c -> F' i (rc c) = F i c) -> for_nodes (rg g) F' = for_nodes g F.
Proof.
  intros H. unfold for_nodes, indices. cbn [rn_cfg gnodes]. rewrite map_length.
  apply flat_map_ext_in. intros i _. rewrite (getn_rc s rho).
  destruct (getn (gnodes g) i) as [c|] eqn:E; cbn [option_map]; [apply H, E | reflexivity].
Qed.

Lemma usage_lints_R code g i X :
  R (usage_lints code (rg g) i (rs_elems (ps X))) (usage_lints code g i (rs_elems X)).
Proof. unfold usage_lints. apply R_elems. intros r. apply usage_item_rn. Qed.

(* 1 *)
Lemma lint_save_to_zero_rn g : lint_save_to_zero (rg g) = lint_save_to_zero g.
Proof.
  unfold lint_save_to_zero. apply for_nodes_eq. intros i c _.
  change (cn (rc c)) with (rn (cn c)). rewrite (rn_writes_to s rho), (rn_can_skip s rho).
  destruct (writes_to (cn c)) as [r|]; cbn [option_map map_w wv wt]; [|reflexivity].
  rewrite (s_fixed_eqb s Hs 0 _ (s_0 s Hs)). reflexivity.
Qed.

(* 2 *)
Lemma lint_dead_value_R g : R (lint_dead_value (rg g)) (lint_dead_value g).
Proof.
  unfold lint_dead_value. apply for_nodes_R. intros i c _.
  rewrite (calls_to_from_cfg_rn s rho Hs Hr).
  destruct (calls_to_from_cfg g c) as [fid|].
  - cbn [rn_cfg gfuncs]. rewrite nth_opt_map'. destruct (nth_opt (gfuncs g) fid) as [f|]; cbn [option_map]; [|apply R_refl].
    fold (rn_cfg s rho g). rewrite (fn_returns_rn s rho Hs). change (lout (rc c)) with (ps (lout c)).
    rewrite <- (ps_caller_saved s Hs) at 1. rewrite <- (perm_set_diff s Hs), <- (perm_set_inter s Hs).
    apply usage_lints_R.
  - change (cn (rc c)) with (rn (cn c)). change (lout (rc c)) with (ps (lout c)).
    rewrite (rn_writes_to s rho), (rn_can_skip s rho).
    destruct (writes_to (cn c)) as [d|]; cbn [option_map map_w wv wt]; [|apply R_refl].
    rewrite (perm_set_spec s Hs). apply R_refl.
Qed.

(* 3 *)
Lemma lint_instruction_in_text_rn g : lint_instruction_in_text (rg g) = lint_instruction_in_text g.
Proof.
  unfold lint_instruction_in_text. apply for_nodes_eq. intros i c _.
  change (cn (rc c)) with (rn (cn c)). change (ctext (rc c)) with (ctext c).
  rewrite (rn_is_instruction s rho), loc_of_node_rn. reflexivity.
Qed.

(* 4 *)
Lemma lint_ecall_rn g : lint_ecall (rg g) = lint_ecall g.
Proof.
  unfold lint_ecall. apply for_nodes_eq. intros i c _.
  rewrite (known_ecall_rn s rho Hs). change (cn (rc c)) with (rn (cn c)).
  rewrite (rn_is_ecall s rho), loc_of_node_rn. reflexivity.
Qed.

(* 5 *)
Lemma lint_control_flow_rn g : lint_control_flow (rg g) = lint_control_flow g.
Proof.
  unfold lint_control_flow. apply for_nodes_eq. intros i c _.
  change (cn (rc c)) with (rn (cn c)). change (prevs (rc c)) with (prevs c). change (cfuncs (rc c)) with (cfuncs c).
  rewrite (rn_is_function_entry s rho), (rn_is_program_entry s rho), loc_of_node_rn.
  destruct (is_function_entry (cn c)); [|reflexivity].
  apply flat_map_ext_in. intros p _. cbn [rn_cfg gnodes]. rewrite (getn_rc s rho).
  destruct (getn (gnodes g) p) as [pc|]; cbn [option_map]; [|reflexivity].
  change (cn (rc pc)) with (rn (cn pc)). rewrite (rn_is_program_entry s rho), (rn_is_unconditional_jump s rho Hs). reflexivity.
Qed.

(* 6 *)
Lemma lint_garbage_input_R g : R (lint_garbage_input (rg g)) (lint_garbage_input g).
Proof.
  unfold lint_garbage_input. apply for_nodes_R. intros i c _.
  change (cn (rc c)) with (rn (cn c)). change (lin (rc c)) with (ps (lin c)).
  rewrite (rn_is_program_entry s rho). destruct (is_program_entry (cn c)).
  - rewrite <- (ps_program_args s Hs) at 1. rewrite <- (perm_set_diff s Hs). apply usage_lints_R.
  - rewrite is_fe_with_func_rn. destruct (is_function_entry_with_func g i c) as [f|]; cbn [option_map]; [|apply R_refl].
    rewrite (fn_arguments_rn s rho Hs). rewrite <- (ps_callee_saved s Hs) at 1.
    rewrite <- !(perm_set_diff s Hs). apply usage_lints_R.
Qed.

(* 7 *)
Lemma stack_loop_rn nodes : stack_loop (map rc nodes) = stack_loop nodes.
Proof.
  induction nodes as [|c rest IH]; cbn [map stack_loop]; [reflexivity|].
  change (rout (rc c)) with (pm (rout c)). change (cn (rc c)) with (rn (cn c)).
  rewrite (rm_get_rn_fixed s rho Hs 2 _ (s_2 s Hs)), loc_of_node_rn.
  destruct (rm_get 2 (rout c)) as [[]|]; cbn [option_map rn_aval]; try reflexivity.
  rewrite (s_fixed_eqb s Hs 2 _ (s_2 s Hs)). destruct (negb (N.eqb r 2)); [reflexivity|].
  destruct (Z.ltb 0 off); [reflexivity|]. rewrite IH. f_equal.
  rewrite (rn_uses_memory_location s rho). destruct (uses_memory_location (cn c)) as [[r2 off2]|]; cbn [option_map pairu fst snd]; [|reflexivity].
  rewrite (s_fixed_eqb s Hs 2 _ (s_2 s Hs)). reflexivity.
Qed.
Lemma lint_stack_rn g : lint_stack (rg g) = lint_stack g.
Proof. unfold lint_stack. cbn [rn_cfg gnodes]. apply stack_loop_rn. Qed.

(* 8 *)
Lemma lint_callee_saved_R g : R (lint_callee_saved (rg g)) (lint_callee_saved g).
Proof.
  unfold lint_callee_saved. cbn [rn_cfg gnodes gfuncs]. rewrite flat_map_map.
  apply R_flat_map. intros f _. cbn [rn_func fexit]. rewrite (getn_rc s rho).
  destruct (getn (gnodes g) (fexit f)) as [e|]; cbn [option_map]; [|apply R_refl].
  change (rin (rc e)) with (pm (rin e)).
  rewrite <- (ps_callee_saved s Hs) at 1. apply R_elems. intros r.
  rewrite (is_original_value_rn s rho Hs), first_store_ranges_rn. reflexivity.
Qed.

(* 9 *)
Lemma lint_callee_saved_garbage_read_rn g : lint_callee_saved_garbage_read (rg g) = lint_callee_saved_garbage_read g.
Proof.
  unfold lint_callee_saved_garbage_read. apply for_nodes_eq. intros i c _.
  change (cn (rc c)) with (rn (cn c)). change (rin (rc c)) with (pm (rin c)).
  rewrite (rn_reads_from s rho Hs), flat_map_map, (rn_uses_memory_location s rho).
  apply flat_map_ext_in. intros rd _. cbn [map_w wv wt].
  rewrite (mem_inv_of s Hs saved_set _ (ps_saved s Hs)), (is_original_value_rn s rho Hs).
  destruct (uses_memory_location (cn c)); reflexivity.
Qed.

(* 10 *)
Lemma lint_lost_callee_saved_rn g : maps_sorted (gnodes g) -> lint_lost_callee_saved (rg g) = lint_lost_callee_saved g.
Proof.
  intros Hg. unfold lint_lost_callee_saved. apply for_nodes_eq. intros i c Ec.
  apply nth_opt_In' in Ec. destruct (Hg c Ec) as [_ Hco].
  change (cn (rc c)) with (rn (cn c)). change (rin (rc c)) with (pm (rin c)). change (rout (rc c)) with (pm (rout c)).
  change (mout (rc c)) with (mm (mout c)). change (cfuncs (rc c)) with (cfuncs c).
  rewrite (rn_writes_to s rho). destruct (writes_to (cn c)) as [r|]; cbn [option_map map_w wv wt]; [|reflexivity].
  rewrite (mem_inv_of s Hs saved_set _ (ps_saved s Hs)), (rm_get_rn s rho Hs).
  change (Some (AOrig (s (wv r)) 0)) with (Some (ra (AOrig (wv r) 0))). rewrite (opt_aval_eqb_rn1 s rho Hs Hr).
  unfold rn_memmap. rewrite existsb_map. cbn [snd].
  rewrite (existsb_ext' _ (fun kv => holds_original (wv r) (snd kv)) (mout c))
    by (intros x; apply (holds_original_rn s rho Hs)).
  rewrite (existsb_pm (holds_original (wv r)) (holds_original (s (wv r))) (rout c) Hco)
    by (intros v; apply (holds_original_rn s rho Hs)).
  reflexivity.
Qed.

(* 11 *)
Lemma lint_overlapping_rn g : lint_overlapping (rg g) = lint_overlapping g.
Proof.
  unfold lint_overlapping. apply for_nodes_eq. intros i c _.
  change (cfuncs (rc c)) with (cfuncs c). change (clabels (rc c)) with (map rw (clabels c)).
  rewrite is_fe_with_func_rn.
  replace (match option_map (rn_func s) (is_function_entry_with_func g i c) with Some _ => true | None => false end)
    with (match is_function_entry_with_func g i c with Some _ => true | None => false end)
    by (destruct (is_function_entry_with_func g i c); reflexivity).
  destruct (Nat.ltb 1 (length (cfuncs c)) && _)%bool; [|reflexivity].
  destruct (clabels c) as [|l ls]; [reflexivity|]. cbn [map]. rewrite map_map. reflexivity.
Qed.

Theorem run_diagnostics_R g : maps_sorted (gnodes g) -> R (run_diagnostics (rg g)) (run_diagnostics g).
Proof.
  intros Hg. unfold run_diagnostics.
  rewrite lint_save_to_zero_rn, lint_instruction_in_text_rn, lint_ecall_rn, lint_control_flow_rn, lint_stack_rn,
          lint_callee_saved_garbage_read_rn, (lint_lost_callee_saved_rn g Hg), lint_overlapping_rn.
  apply R_app; [apply R_refl|]. apply R_app; [apply lint_dead_value_R|].
  apply R_app; [apply R_refl|]. apply R_app; [apply R_refl|]. apply R_app; [apply R_refl|].
  apply R_app; [apply lint_garbage_input_R|]. apply R_app; [apply R_refl|].
  apply R_app; [apply lint_callee_saved_R|]. apply R_refl.
Qed.

End Lints.

(* ---- the two instances ---------------------------------------------------------------------------- *)
Theorem run_diagnostics_perm s rho g : class_perm s -> label_renaming rho -> maps_sorted (gnodes g) ->
  Permutation (run_diagnostics (rn_cfg s rho g)) (run_diagnostics g).
Proof.
  intros Hs Hr Hg. apply (run_diagnostics_R s rho Hs Hr (@Permutation lint)); try assumption.
  - apply Permutation_refl.
  - intros a b c d. apply Permutation_app.
  - intros F F' X HF. rewrite (rs_elems_perm s Hs X), flat_map_map.
    rewrite (flat_map_ext_in _ F); [apply Permutation_refl | intros r _; apply HF].
Qed.

(* when the enumeration order of register sets is kept (in particular for pure label renamings) the
   lists are equal *)
Definition keeps_order (s : reg -> reg) : Prop := forall X, rs_elems (perm_set s X) = map s (rs_elems X).

Theorem run_diagnostics_eq s rho g : class_perm s -> label_renaming rho -> keeps_order s -> maps_sorted (gnodes g) ->
  run_diagnostics (rn_cfg s rho g) = run_diagnostics g.
Proof.
  intros Hs Hr Ho Hg. apply (run_diagnostics_R s rho Hs Hr (@eq (list lint))); try assumption.
  - reflexivity.
  - intros a b c d -> ->. reflexivity.
  - intros F F' X HF. rewrite Ho, flat_map_map. apply flat_map_ext_in. intros r _. apply HF.
Qed.

Lemma keeps_order_id : keeps_order (fun r => r).
Proof.
  intros X. rewrite map_id. f_equal. apply (perm_set_invariant _ class_perm_id). intros r. reflexivity.
Qed.
