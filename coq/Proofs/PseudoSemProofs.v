(* C08, semantic step: the node the parser builds for a pseudo-instruction has, on the ISA
   machine of Spec/Rv32.v, the effect the assembly manual describes (Spec/PseudoSpec.v). *)
From RV.Model Require Import Base I32 Imm Lexer Isa Parser Cfg Avail.
From RV.Spec Require Import SpellNodeSpec Rv32.
From RV.Spec Require FoldSpec PseudoSpec PcSpec.
From RV.Proofs Require Import ImmProofs FoldProofs SpellProofs SoundProofs.
From Coq Require Import Lia ZifyBool ZifyN.
Open Scope Z_scope.

(* ---- the machine sees a node only through its values ----------------------------------------- *)
Lemma sw_inj {A} (a : wth A) (b : A) : strip_w a = sw b -> wv a = b.
Proof. unfold strip_w, sw. intros H. injection H as H. exact H. Qed.

Section Sem.
  Variable addr_of : str -> Z.

  Lemma eff_strip_arith n i rd rs1 rs2 s s' :
    strip_node n = PArith (sw i) (sw rd) (sw rs1) (sw rs2) raw_default ->
    effect addr_of n s s' ->
    match alu i with
    | Some op => s' = rset s rd (FoldSpec.eval op (rget s rs1) (rget s rs2))
    | None => exists v, in32 v /\ s' = rset s rd v
    end.
  Proof.
    intros Hs He. destruct n; cbn [strip_node] in Hs; try discriminate Hs.
    injection Hs as Hi Hrd Hrs1 Hrs2.
    apply eff_arith in He.
    rewrite Hi, Hrd, Hrs1, Hrs2 in He. exact He.
  Qed.

  Lemma eff_strip_iarith n i rd rs1 imm s s' :
    strip_node n = PIArith (sw i) (sw rd) (sw rs1) (sw imm) raw_default ->
    effect addr_of n s s' ->
    match alu i with
    | Some op => s' = rset s rd (FoldSpec.eval op (rget s rs1) imm)
    | None => if inst_eqb i ILui then s' = rset s rd imm
              else exists v, in32 v /\ s' = rset s rd v
    end.
  Proof.
    intros Hs He. destruct n; cbn [strip_node] in Hs; try discriminate Hs.
    injection Hs as Hi Hrd Hrs1 Himm.
    apply eff_iarith in He.
    rewrite Hi, Hrd, Hrs1, Himm in He. exact He.
  Qed.

  Lemma eff_strip_branch n i rs1 rs2 l s s' :
    strip_node n = PBranch (sw i) (sw rs1) (sw rs2) (sw l) raw_default ->
    effect addr_of n s s' -> s' = s.
  Proof.
    intros Hs He. destruct n; cbn [strip_node] in Hs; try discriminate Hs.
    apply eff_branch in He. exact He.
  Qed.
End Sem.

(* ---- arithmetic: the ISA operation of each expansion is the manual's function ---------------- *)
Lemma in32_1 : in32 1. Proof. unf. lia. Qed.
Lemma in32_m1 : in32 (-1). Proof. unf. lia. Qed.

Lemma ev_mv x : in32 x -> FoldSpec.eval FoldSpec.Add x 0 = PseudoSpec.mv x.
Proof.
  intros H. destruct (eval_operate MAdd x 0 H in32_0) as [E _]. cbn [spec_of] in E. rewrite E.
  unfold operate, PseudoSpec.mv. now apply wrap32_0_r.
Qed.
Lemma ev_neg x : in32 x -> FoldSpec.eval FoldSpec.Sub 0 x = PseudoSpec.neg x.
Proof.
  intros H. destruct (eval_operate MSub 0 x in32_0 H) as [E _]. cbn [spec_of] in E. rewrite E.
  unfold operate, PseudoSpec.neg. f_equal.
Qed.
Lemma ev_not x : in32 x -> FoldSpec.eval FoldSpec.Xor x (-1) = PseudoSpec.not x.
Proof.
  intros H. destruct (eval_operate MXor x (-1) H in32_m1) as [E _]. cbn [spec_of] in E. rewrite E.
  unfold operate, PseudoSpec.not. apply Z.lxor_m1_r.
Qed.
Lemma ev_seqz x : in32 x -> FoldSpec.eval FoldSpec.Sltu x 1 = PseudoSpec.seqz x.
Proof.
  intros H. destruct (eval_operate MSltu x 1 H in32_1) as [E _]. cbn [spec_of] in E. rewrite E.
  unfold operate, PseudoSpec.seqz, b2z. unf.
  change (1 mod 4294967296) with 1.
  destruct (Z.eqb_spec x 0) as [->|Hx]; [reflexivity|].
  destruct (Z.ltb_spec (x mod 4294967296) 1) as [Hl|Hl]; [|reflexivity].
  exfalso. assert (Hm : x mod 4294967296 = 0) by (pose proof (Z.mod_pos_bound x 4294967296); lia).
  apply Z.mod_divide in Hm; [|lia]. destruct Hm as [k Hk]. lia.
Qed.
Lemma ev_snez x : in32 x -> FoldSpec.eval FoldSpec.Sltu 0 x = PseudoSpec.snez x.
Proof.
  intros H. destruct (eval_operate MSltu 0 x in32_0 H) as [E _]. cbn [spec_of] in E. rewrite E.
  unfold operate, PseudoSpec.snez, b2z. unf.
  change (0 mod 4294967296) with 0.
  destruct (Z.eqb_spec x 0) as [->|Hx]; [reflexivity|].
  destruct (Z.ltb_spec 0 (x mod 4294967296)) as [Hl|Hl]; [reflexivity|].
  exfalso. assert (Hm : x mod 4294967296 = 0) by (pose proof (Z.mod_pos_bound x 4294967296); lia).
  apply Z.mod_divide in Hm; [|lia]. destruct Hm as [k Hk]. lia.
Qed.
Lemma ev_sltz x : in32 x -> FoldSpec.eval FoldSpec.Slt x 0 = PseudoSpec.sltz x.
Proof.
  intros H. destruct (eval_operate MSlt x 0 H in32_0) as [E _]. cbn [spec_of] in E. rewrite E.
  reflexivity.
Qed.
Lemma ev_sgtz x : in32 x -> FoldSpec.eval FoldSpec.Slt 0 x = PseudoSpec.sgtz x.
Proof.
  intros H. destruct (eval_operate MSlt 0 x in32_0 H) as [E _]. cbn [spec_of] in E. rewrite E.
  reflexivity.
Qed.

(* the results are again 32-bit values *)
Lemma pseudo_results_in32 x : in32 x ->
  in32 (PseudoSpec.mv x) /\ in32 (PseudoSpec.neg x) /\ in32 (PseudoSpec.not x) /\
  in32 (PseudoSpec.seqz x) /\ in32 (PseudoSpec.snez x) /\ in32 (PseudoSpec.sltz x) /\ in32 (PseudoSpec.sgtz x).
Proof.
  intros H. split; [exact H|]. split; [apply wrap32_in32|].
  split; [unfold PseudoSpec.not, Z.lnot; unf; lia|].
  unfold PseudoSpec.seqz, PseudoSpec.snez, PseudoSpec.sltz, PseudoSpec.sgtz.
  destruct (x =? 0), (x <? 0), (0 <? x); unf; lia.
Qed.

(* ---- reading the state after a register write (x0 is never written) --------------------------- *)
Lemma rget_after s rd v r :
  rget (rset s rd v) r = if N.eqb r 0 then 0 else if N.eqb r rd then v else rget s r.
Proof.
  rewrite rget_rset. destruct (N.eqb_spec r 0) as [->|Hr].
  - destruct (N.eqb_spec 0 rd) as [<-|Hd]; [reflexivity|reflexivity].
  - destruct (N.eqb_spec r rd) as [->|Hd]; cbn [andb].
    + destruct (N.eqb_spec rd 0); [contradiction|reflexivity].
    + reflexivity.
Qed.

(* ---- what each pseudo-instruction parses to (values only) -------------------------------------- *)
Lemma node_mv t0 t_rd t_rs rest raw rd rs :
  tok_reg_val t_rd = Some rd -> tok_reg_val t_rs = Some rs ->
  parses_to (parse_inst IMv t0 (LTok t_rd :: LTok t_rs :: rest, raw))
            (PArith (sw IAdd) (sw rd) (sw rs) (sw 0%N) raw_default) rest.
Proof. parses_tac. Qed.
Lemma node_neg t0 t_rd t_rs rest raw rd rs :
  tok_reg_val t_rd = Some rd -> tok_reg_val t_rs = Some rs ->
  parses_to (parse_inst INeg t0 (LTok t_rd :: LTok t_rs :: rest, raw))
            (PArith (sw ISub) (sw rd) (sw 0%N) (sw rs) raw_default) rest.
Proof. parses_tac. Qed.
Lemma node_not t0 t_rd t_rs rest raw rd rs :
  tok_reg_val t_rd = Some rd -> tok_reg_val t_rs = Some rs ->
  parses_to (parse_inst INot t0 (LTok t_rd :: LTok t_rs :: rest, raw))
            (PIArith (sw IXori) (sw rd) (sw rs) (sw (-1)) raw_default) rest.
Proof. parses_tac. Qed.
Lemma node_seqz t0 t_rd t_rs rest raw rd rs :
  tok_reg_val t_rd = Some rd -> tok_reg_val t_rs = Some rs ->
  parses_to (parse_inst ISeqz t0 (LTok t_rd :: LTok t_rs :: rest, raw))
            (PIArith (sw ISltiu) (sw rd) (sw rs) (sw 1) raw_default) rest.
Proof. parses_tac. Qed.
Lemma node_snez t0 t_rd t_rs rest raw rd rs :
  tok_reg_val t_rd = Some rd -> tok_reg_val t_rs = Some rs ->
  parses_to (parse_inst ISnez t0 (LTok t_rd :: LTok t_rs :: rest, raw))
            (PArith (sw ISltu) (sw rd) (sw 0%N) (sw rs) raw_default) rest.
Proof. parses_tac. Qed.
Lemma node_sltz t0 t_rd t_rs rest raw rd rs :
  tok_reg_val t_rd = Some rd -> tok_reg_val t_rs = Some rs ->
  parses_to (parse_inst ISltz t0 (LTok t_rd :: LTok t_rs :: rest, raw))
            (PArith (sw ISlt) (sw rd) (sw rs) (sw 0%N) raw_default) rest.
Proof. parses_tac. Qed.
Lemma node_sgtz t0 t_rd t_rs rest raw rd rs :
  tok_reg_val t_rd = Some rd -> tok_reg_val t_rs = Some rs ->
  parses_to (parse_inst ISgtz t0 (LTok t_rd :: LTok t_rs :: rest, raw))
            (PArith (sw ISlt) (sw rd) (sw 0%N) (sw rs) raw_default) rest.
Proof. parses_tac. Qed.

(* ---- the statement shape for a unary pseudo-instruction ---------------------------------------- *)
(* the statement parses, and whatever node it parses to has the manual's effect f *)
Definition unary_sem (P : inst) (f : Z -> Z) : Prop :=
  forall (addr_of : str -> Z) t0 t_rd t_rs rest raw rd rs,
  tok_reg_val t_rd = Some rd ->
  tok_reg_val t_rs = Some rs ->
  (exists n raw', parse_inst P t0 (LTok t_rd :: LTok t_rs :: rest, raw) = Ok (inr n, (rest, raw'))) /\
  forall n st', parse_inst P t0 (LTok t_rd :: LTok t_rs :: rest, raw) = Ok (inr n, st') ->
  forall s s', regs_in32 s -> effect addr_of n s s' ->
    s' = rset s rd (f (rget s rs)) /\
    regs_in32 s' /\
    (forall r, rget s' r = if N.eqb r 0 then 0 else if N.eqb r rd then f (rget s rs) else rget s r).

Lemma unary_finish s s' rd v : regs_in32 s -> in32 v -> s' = rset s rd v ->
  s' = rset s rd v /\ regs_in32 s' /\
  (forall r, rget s' r = if N.eqb r 0 then 0 else if N.eqb r rd then v else rget s r).
Proof.
  intros I Hv ->. split; [reflexivity|]. split; [now apply regs_in32_rset|]. intros r. apply rget_after.
Qed.

Ltac unary_start Hnode :=
  intros addr_of t0 t_rd t_rs rest raw rd rs Hrd Hrs;
  destruct (Hnode t0 t_rd t_rs rest raw rd rs Hrd Hrs) as [n0 [raw0 [Hp Hst]]];
  split; [exists n0, raw0; exact Hp|];
  intros n st' Hp' s s' I He;
  rewrite Hp in Hp'; injection Hp' as Hn _; subst n0;
  pose proof (I rs) as Ix; pose proof (pseudo_results_in32 _ Ix) as Hres.

Theorem sem_mv : unary_sem IMv PseudoSpec.mv.
Proof.
  unary_start node_mv. apply (eff_strip_arith addr_of _ _ _ _ _ _ _ Hst) in He. cbn [alu] in He.
  rewrite rget_0, (ev_mv _ Ix) in He. apply unary_finish; [exact I|apply Hres|exact He].
Qed.
Theorem sem_neg : unary_sem INeg PseudoSpec.neg.
Proof.
  unary_start node_neg. apply (eff_strip_arith addr_of _ _ _ _ _ _ _ Hst) in He. cbn [alu] in He.
  rewrite rget_0, (ev_neg _ Ix) in He. apply unary_finish; [exact I|apply Hres|exact He].
Qed.
Theorem sem_not : unary_sem INot PseudoSpec.not.
Proof.
  unary_start node_not. apply (eff_strip_iarith addr_of _ _ _ _ _ _ _ Hst) in He. cbn [alu] in He.
  rewrite (ev_not _ Ix) in He. apply unary_finish; [exact I|apply Hres|exact He].
Qed.
Theorem sem_seqz : unary_sem ISeqz PseudoSpec.seqz.
Proof.
  unary_start node_seqz. apply (eff_strip_iarith addr_of _ _ _ _ _ _ _ Hst) in He. cbn [alu] in He.
  rewrite (ev_seqz _ Ix) in He. apply unary_finish; [exact I|apply Hres|exact He].
Qed.
Theorem sem_snez : unary_sem ISnez PseudoSpec.snez.
Proof.
  unary_start node_snez. apply (eff_strip_arith addr_of _ _ _ _ _ _ _ Hst) in He. cbn [alu] in He.
  rewrite rget_0, (ev_snez _ Ix) in He. apply unary_finish; [exact I|apply Hres|exact He].
Qed.
Theorem sem_sltz : unary_sem ISltz PseudoSpec.sltz.
Proof.
  unary_start node_sltz. apply (eff_strip_arith addr_of _ _ _ _ _ _ _ Hst) in He. cbn [alu] in He.
  rewrite rget_0, (ev_sltz _ Ix) in He. apply unary_finish; [exact I|apply Hres|exact He].
Qed.
Theorem sem_sgtz : unary_sem ISgtz PseudoSpec.sgtz.
Proof.
  unary_start node_sgtz. apply (eff_strip_arith addr_of _ _ _ _ _ _ _ Hst) in He. cbn [alu] in He.
  rewrite rget_0, (ev_sgtz _ Ix) in He. apply unary_finish; [exact I|apply Hres|exact He].
Qed.

(* ---- li and nop ---------------------------------------------------------------------------------- *)
(* every immediate written as a symbol is a 32-bit value (Imm::from_str); a character literal is its
   code point, which the token type of the model does not bound *)
Lemma from_signed_magnitude_in32 sg mag v : from_signed_magnitude sg mag = Ok (Some v) -> in32 v.
Proof.
  unfold from_signed_magnitude, mul_i64.
  destruct (_ && _)%bool; cbn [bind]; [|discriminate].
  destruct (Z.ltb _ _); intros H; [discriminate|]. injection H as <-. apply wrap32_in32.
Qed.
Lemma imm_from_str_in32 s0 v : imm_from_str s0 = Ok (Some v) -> in32 v.
Proof.
  unfold imm_from_str.
  destruct (match strip_prefix [c_minus] (trim (lower s0)) with Some s' => (s', -1) | None => (trim (lower s0), 1) end)
    as [s mul].
  destruct (str_eqb s _).
  { intros H. injection H as <-. apply in32_0. }
  destruct (strip_prefix _ s) as [st|].
  { destruct (starts_with _ st); [discriminate|].
    destruct (u32_from_str_radix 16 st) as [i|]; [|discriminate]. apply from_signed_magnitude_in32. }
  destruct (strip_prefix _ s) as [st|].
  { destruct (starts_with _ st); [discriminate|].
    destruct (u32_from_str_radix 2 st) as [i|]; [|discriminate]. apply from_signed_magnitude_in32. }
  destruct (starts_with _ s); [discriminate|].
  destruct (parse_i64 s) as [i|]; [|discriminate].
  unfold mul_i64. destruct (_ && _)%bool; cbn [bind]; [|discriminate].
  destruct (in32b (mul * i)) eqn:B; intros H; [|discriminate]. injection H as <-.
  unfold in32b in B. unfold in32. lia.
Qed.
Lemma imm_val_symbol_in32 t s z : tt t = TSymbol s -> tok_imm_val t = Ok (Some z) -> in32 z.
Proof.
  intros Ht H. destruct (imm_val_inv t z H) as [w [Hw Hv]]. unfold tok_imm in Hw. rewrite Ht in Hw.
  destruct (imm_from_str s) as [[v|]| |] eqn:E; cbn [bind option_map] in Hw; try discriminate Hw.
  injection Hw as <-. cbn [wv] in Hv. subst z. exact (imm_from_str_in32 s v E).
Qed.
Lemma imm_val_cases t z : tok_imm_val t = Ok (Some z) ->
  (exists s, tt t = TSymbol s) \/ (exists c, tt t = TChar c /\ z = Z.of_N c).
Proof.
  intros H. destruct (imm_val_inv t z H) as [w [Hw Hv]]. unfold tok_imm in Hw.
  destruct (tt t) eqn:Ht; try discriminate Hw.
  - left. eexists. reflexivity.
  - right. eexists. split; [reflexivity|]. injection Hw as <-. cbn [wv] in Hv. now subst z.
Qed.

Lemma node_li t0 t_rd t_z rest raw rd z :
  tok_reg_val t_rd = Some rd -> tok_imm_val t_z = Ok (Some z) ->
  parses_to (parse_inst ILi t0 (LTok t_rd :: LTok t_z :: rest, raw))
            (PIArith (sw IAddi) (sw rd) (sw 0%N) (sw z) raw_default) rest.
Proof. parses_tac. Qed.
Lemma node_nop t0 rest raw :
  parses_to (parse_inst INop t0 (rest, raw))
            (PIArith (sw IAddi) (sw 0%N) (sw 0%N) (sw 0) raw_default) rest.
Proof. parses_tac. Qed.

Definition li_sem : Prop :=
  forall (addr_of : str -> Z) t0 t_rd t_z rest raw rd z,
  tok_reg_val t_rd = Some rd ->
  tok_imm_val t_z = Ok (Some z) ->
  in32 z ->
  (exists n raw', parse_inst ILi t0 (LTok t_rd :: LTok t_z :: rest, raw) = Ok (inr n, (rest, raw'))) /\
  forall n st', parse_inst ILi t0 (LTok t_rd :: LTok t_z :: rest, raw) = Ok (inr n, st') ->
  forall s s', regs_in32 s -> effect addr_of n s s' ->
    s' = rset s rd (PseudoSpec.li z) /\
    regs_in32 s' /\
    (forall r, rget s' r = if N.eqb r 0 then 0 else if N.eqb r rd then PseudoSpec.li z else rget s r).
Theorem sem_li : li_sem.
Proof.
  intros addr_of t0 t_rd t_z rest raw rd z Hrd Hz Iz.
  destruct (node_li t0 t_rd t_z rest raw rd z Hrd Hz) as [n0 [raw0 [Hp Hst]]].
  split; [exists n0, raw0; exact Hp|].
  intros n st' Hp' s s' I He. rewrite Hp in Hp'. injection Hp' as Hn _. subst n0.
  apply (eff_strip_iarith addr_of _ _ _ _ _ _ _ Hst) in He. cbn [alu] in He.
  rewrite rget_0, (ev_add0 _ Iz) in He. apply unary_finish; [exact I|exact Iz|exact He].
Qed.
(* without in32 z: the machine writes the low 32 bits *)
Definition li_wrap_sem : Prop :=
  forall (addr_of : str -> Z) t0 t_rd t_z rest raw rd z,
  tok_reg_val t_rd = Some rd ->
  tok_imm_val t_z = Ok (Some z) ->
  forall n st', parse_inst ILi t0 (LTok t_rd :: LTok t_z :: rest, raw) = Ok (inr n, st') ->
  forall s s', effect addr_of n s s' -> s' = rset s rd (wrap32 z).
Lemma ev_add0_wrap z : FoldSpec.eval FoldSpec.Add 0 z = wrap32 z.
Proof.
  unfold FoldSpec.eval, FoldSpec.s, FoldSpec.u, FoldSpec.W, wrap32, two32, two31.
  change (2 ^ 32) with 4294967296. change (2 ^ 31) with 2147483648.
  change (0 mod 4294967296) with 0. rewrite Z.add_0_l, Z.mod_mod by lia. reflexivity.
Qed.
Theorem sem_li_wrap : li_wrap_sem.
Proof.
  intros addr_of t0 t_rd t_z rest raw rd z Hrd Hz n st' Hp' s s' He.
  destruct (node_li t0 t_rd t_z rest raw rd z Hrd Hz) as [n0 [raw0 [Hp Hst]]].
  rewrite Hp in Hp'. injection Hp' as Hn _. subst n0.
  apply (eff_strip_iarith addr_of _ _ _ _ _ _ _ Hst) in He. cbn [alu] in He.
  rewrite rget_0, ev_add0_wrap in He. exact He.
Qed.

Definition nop_sem : Prop :=
  forall (addr_of : str -> Z) t0 rest raw,
  (exists n raw', parse_inst INop t0 (rest, raw) = Ok (inr n, (rest, raw'))) /\
  forall n st', parse_inst INop t0 (rest, raw) = Ok (inr n, st') ->
  forall s s', effect addr_of n s s' -> s' = s.
Theorem sem_nop : nop_sem.
Proof.
  intros addr_of t0 rest raw.
  destruct (node_nop t0 rest raw) as [n0 [raw0 [Hp Hst]]].
  split; [exists n0, raw0; exact Hp|].
  intros n st' Hp' s s' He. rewrite Hp in Hp'. injection Hp' as Hn _. subst n0.
  apply (eff_strip_iarith addr_of _ _ _ _ _ _ _ Hst) in He. cbn [alu] in He. exact He.
Qed.

(* ---- branches ------------------------------------------------------------------------------------ *)
Lemma strip_branch_inv n i a b l :
  strip_node n = PBranch (sw i) (sw a) (sw b) (sw l) raw_default ->
  exists wi w1 w2 wl rt, n = PBranch wi w1 w2 wl rt /\ wv wi = i /\ wv w1 = a /\ wv w2 = b /\ wv wl = l.
Proof.
  intros Hs. destruct n; cbn [strip_node] in Hs; try discriminate Hs.
  injection Hs as Hi Ha Hb Hl. do 5 eexists. split; [reflexivity|]. repeat split; assumption.
Qed.

Lemma node_beqz t0 t_rs t_l rest raw rs l :
  tok_reg_val t_rs = Some rs -> tok_label_val t_l = Some l ->
  parses_to (parse_inst IBeqz t0 (LTok t_rs :: LTok t_l :: rest, raw))
            (PBranch (sw IBeq) (sw rs) (sw 0%N) (sw l) raw_default) rest.
Proof. parses_tac. Qed.
Lemma node_bnez t0 t_rs t_l rest raw rs l :
  tok_reg_val t_rs = Some rs -> tok_label_val t_l = Some l ->
  parses_to (parse_inst IBnez t0 (LTok t_rs :: LTok t_l :: rest, raw))
            (PBranch (sw IBne) (sw rs) (sw 0%N) (sw l) raw_default) rest.
Proof. parses_tac. Qed.
Lemma node_bltz t0 t_rs t_l rest raw rs l :
  tok_reg_val t_rs = Some rs -> tok_label_val t_l = Some l ->
  parses_to (parse_inst IBltz t0 (LTok t_rs :: LTok t_l :: rest, raw))
            (PBranch (sw IBlt) (sw rs) (sw 0%N) (sw l) raw_default) rest.
Proof. parses_tac. Qed.
Lemma node_bgez t0 t_rs t_l rest raw rs l :
  tok_reg_val t_rs = Some rs -> tok_label_val t_l = Some l ->
  parses_to (parse_inst IBgez t0 (LTok t_rs :: LTok t_l :: rest, raw))
            (PBranch (sw IBge) (sw rs) (sw 0%N) (sw l) raw_default) rest.
Proof. parses_tac. Qed.
Lemma node_bgtz t0 t_rs t_l rest raw rs l :
  tok_reg_val t_rs = Some rs -> tok_label_val t_l = Some l ->
  parses_to (parse_inst IBgtz t0 (LTok t_rs :: LTok t_l :: rest, raw))
            (PBranch (sw IBlt) (sw 0%N) (sw rs) (sw l) raw_default) rest.
Proof. parses_tac. Qed.
Lemma node_blez t0 t_rs t_l rest raw rs l :
  tok_reg_val t_rs = Some rs -> tok_label_val t_l = Some l ->
  parses_to (parse_inst IBlez t0 (LTok t_rs :: LTok t_l :: rest, raw))
            (PBranch (sw IBge) (sw 0%N) (sw rs) (sw l) raw_default) rest.
Proof. parses_tac. Qed.
Lemma node_bgt t0 t_rs t_rt t_l rest raw rs rt l :
  tok_reg_val t_rs = Some rs -> tok_reg_val t_rt = Some rt -> tok_label_val t_l = Some l ->
  parses_to (parse_inst IBgt t0 (LTok t_rs :: LTok t_rt :: LTok t_l :: rest, raw))
            (PBranch (sw IBlt) (sw rt) (sw rs) (sw l) raw_default) rest.
Proof. parses_tac. Qed.
Lemma node_ble t0 t_rs t_rt t_l rest raw rs rt l :
  tok_reg_val t_rs = Some rs -> tok_reg_val t_rt = Some rt -> tok_label_val t_l = Some l ->
  parses_to (parse_inst IBle t0 (LTok t_rs :: LTok t_rt :: LTok t_l :: rest, raw))
            (PBranch (sw IBge) (sw rt) (sw rs) (sw l) raw_default) rest.
Proof. parses_tac. Qed.
Lemma node_bgtu t0 t_rs t_rt t_l rest raw rs rt l :
  tok_reg_val t_rs = Some rs -> tok_reg_val t_rt = Some rt -> tok_label_val t_l = Some l ->
  parses_to (parse_inst IBgtu t0 (LTok t_rs :: LTok t_rt :: LTok t_l :: rest, raw))
            (PBranch (sw IBltu) (sw rt) (sw rs) (sw l) raw_default) rest.
Proof. parses_tac. Qed.
Lemma node_bleu t0 t_rs t_rt t_l rest raw rs rt l :
  tok_reg_val t_rs = Some rs -> tok_reg_val t_rt = Some rt -> tok_label_val t_l = Some l ->
  parses_to (parse_inst IBleu t0 (LTok t_rs :: LTok t_rt :: LTok t_l :: rest, raw))
            (PBranch (sw IBgeu) (sw rt) (sw rs) (sw l) raw_default) rest.
Proof. parses_tac. Qed.

(* one-register form: the node is a branch to the written label whose ISA condition
   (PcSpec.branch_holds, the six base mnemonics) on the operand values of ANY state s is the
   manual's condition c on the value of rs; executing it changes nothing *)
Definition branch1_sem (P : inst) (c : Z -> bool) : Prop :=
  forall (addr_of : str -> Z) t0 t_rs t_l rest raw rs l,
  tok_reg_val t_rs = Some rs ->
  tok_label_val t_l = Some l ->
  (exists n raw', parse_inst P t0 (LTok t_rs :: LTok t_l :: rest, raw) = Ok (inr n, (rest, raw'))) /\
  forall n st', parse_inst P t0 (LTok t_rs :: LTok t_l :: rest, raw) = Ok (inr n, st') ->
  exists i rs1 rs2 lbl rt,
    n = PBranch i rs1 rs2 lbl rt /\ wv lbl = l /\
    (forall s, PcSpec.branch_holds (wv i) (rget s (wv rs1)) (rget s (wv rs2)) = Some (c (rget s rs))) /\
    (forall s s', effect addr_of n s s' -> s' = s).
Definition branch2_sem (P : inst) (c : Z -> Z -> bool) : Prop :=
  forall (addr_of : str -> Z) t0 t_rs t_rt t_l rest raw rs rt l,
  tok_reg_val t_rs = Some rs ->
  tok_reg_val t_rt = Some rt ->
  tok_label_val t_l = Some l ->
  (exists n raw', parse_inst P t0 (LTok t_rs :: LTok t_rt :: LTok t_l :: rest, raw) = Ok (inr n, (rest, raw'))) /\
  forall n st', parse_inst P t0 (LTok t_rs :: LTok t_rt :: LTok t_l :: rest, raw) = Ok (inr n, st') ->
  exists i rs1 rs2 lbl rt',
    n = PBranch i rs1 rs2 lbl rt' /\ wv lbl = l /\
    (forall s, PcSpec.branch_holds (wv i) (rget s (wv rs1)) (rget s (wv rs2)) = Some (c (rget s rs) (rget s rt))) /\
    (forall s s', effect addr_of n s s' -> s' = s).

Ltac branch1_tac Hnode :=
  intros addr_of t0 t_rs t_l rest raw rs l Hrs Hl;
  destruct (Hnode t0 t_rs t_l rest raw rs l Hrs Hl) as [n0 [raw0 [Hp Hst]]];
  split; [exists n0, raw0; exact Hp|];
  intros n st' Hp'; rewrite Hp in Hp'; injection Hp' as Hn _; subst n0;
  destruct (strip_branch_inv _ _ _ _ _ Hst) as (wi & w1 & w2 & wl & rt0 & -> & Hi & H1 & H2 & Hwl);
  exists wi, w1, w2, wl, rt0; split; [reflexivity|]; split; [exact Hwl|]; split;
  [intros s; rewrite Hi, H1, H2, ?rget_0; reflexivity
  |intros s s' He; apply eff_branch in He; exact He].
Ltac branch2_tac Hnode :=
  intros addr_of t0 t_rs t_rt t_l rest raw rs rt l Hrs Hrt Hl;
  destruct (Hnode t0 t_rs t_rt t_l rest raw rs rt l Hrs Hrt Hl) as [n0 [raw0 [Hp Hst]]];
  split; [exists n0, raw0; exact Hp|];
  intros n st' Hp'; rewrite Hp in Hp'; injection Hp' as Hn _; subst n0;
  destruct (strip_branch_inv _ _ _ _ _ Hst) as (wi & w1 & w2 & wl & rt0 & -> & Hi & H1 & H2 & Hwl);
  exists wi, w1, w2, wl, rt0; split; [reflexivity|]; split; [exact Hwl|]; split;
  [intros s; rewrite Hi, H1, H2; reflexivity
  |intros s s' He; apply eff_branch in He; exact He].

Theorem sem_beqz : branch1_sem IBeqz PseudoSpec.beqz. Proof. branch1_tac node_beqz. Qed.
Theorem sem_bnez : branch1_sem IBnez PseudoSpec.bnez. Proof. branch1_tac node_bnez. Qed.
Theorem sem_bltz : branch1_sem IBltz PseudoSpec.bltz. Proof. branch1_tac node_bltz. Qed.
Theorem sem_bgez : branch1_sem IBgez PseudoSpec.bgez. Proof. branch1_tac node_bgez. Qed.
Theorem sem_bgtz : branch1_sem IBgtz PseudoSpec.bgtz. Proof. branch1_tac node_bgtz. Qed.
Theorem sem_blez : branch1_sem IBlez PseudoSpec.blez. Proof. branch1_tac node_blez. Qed.
Theorem sem_bgt : branch2_sem IBgt PseudoSpec.bgt. Proof. branch2_tac node_bgt. Qed.
Theorem sem_ble : branch2_sem IBle PseudoSpec.ble. Proof. branch2_tac node_ble. Qed.
Theorem sem_bgtu : branch2_sem IBgtu PseudoSpec.bgtu. Proof. branch2_tac node_bgtu. Qed.
Theorem sem_bleu : branch2_sem IBleu PseudoSpec.bleu. Proof. branch2_tac node_bleu. Qed.

(* ---- examples on concrete tokens ------------------------------------------------------------------ *)
(* a machine state given by a finite table of register values (everything else, and memory, 0) *)
Fixpoint lookup_reg (l : list (N * Z)) (r : N) : Z :=
  match l with
  | [] => 0
  | (k, v) :: l' => if N.eqb r k then v else lookup_reg l' r
  end.
Definition st_of (l : list (N * Z)) : mstate := mkst (lookup_reg l) (fun _ => 0).
Lemma st_of_in32 l : Forall (fun kv => in32 (snd kv)) l -> regs_in32 (st_of l).
Proof.
  intros H r. unfold rget, st_of. cbn [regs]. destruct (N.eqb r 0); [apply in32_0|].
  induction H as [|[k v] l' Hv _ IH]; cbn [lookup_reg]; [apply in32_0|].
  destruct (N.eqb r k); [exact Hv|exact IH].
Qed.
Ltac st_in32 := apply st_of_in32; repeat constructor; cbn [snd]; unf; lia.

(* `P a0, t1` executed with t1 = x: a0 becomes `expect`, t1 and x0 keep their values *)
Definition unary_example (P : inst) (name : str) (x expect : Z) : Prop :=
  forall addr_of : str -> Z, exists n st',
    parse_inst P (sym name) ([LTok (sym «"a0"»); LTok (sym «"t1"»); LTok nl], None) = Ok (inr n, st') /\
    regs_in32 (st_of [(6%N, x)]) /\
    (exists s', effect addr_of n (st_of [(6%N, x)]) s') /\
    forall s', effect addr_of n (st_of [(6%N, x)]) s' ->
      rget s' 10 = expect /\ rget s' 6 = x /\ rget s' 0 = 0.

Ltac unary_example_tac thm :=
  intros addr_of;
  pose proof (thm addr_of (sym «"x"») (sym «"a0"») (sym «"t1"») [LTok nl] None 10%N 6%N eq_refl eq_refl) as [_ H];
  eexists; eexists; split; [vm_compute; reflexivity|];
  split; [st_in32|];
  split;
  [eexists; first [eapply EffArith; [reflexivity|cbn [alu wv]; reflexivity]
                  |eapply EffIArith; [reflexivity|cbn [alu wv]; reflexivity]]
  |intros s' He;
   edestruct H as [_ [_ Hr]]; [vm_compute; reflexivity| |exact He|]; [st_in32|];
   rewrite !Hr; vm_compute; repeat split; reflexivity].

Example mv_ex : unary_example IMv «"x"» (-5) (-5).
Proof. unary_example_tac sem_mv. Qed.
Example neg_ex : unary_example INeg «"x"» 5 (-5).
Proof. unary_example_tac sem_neg. Qed.
Example neg_min_ex : unary_example INeg «"x"» (-2147483648) (-2147483648).
Proof. unary_example_tac sem_neg. Qed.
Example not_ex : unary_example INot «"x"» (-5) 4.
Proof. unary_example_tac sem_not. Qed.
Example not_zero_ex : unary_example INot «"x"» 0 (-1).
Proof. unary_example_tac sem_not. Qed.
Example seqz_neg_ex : unary_example ISeqz «"x"» (-5) 0.
Proof. unary_example_tac sem_seqz. Qed.
Example seqz_zero_ex : unary_example ISeqz «"x"» 0 1.
Proof. unary_example_tac sem_seqz. Qed.
Example snez_neg_ex : unary_example ISnez «"x"» (-5) 1.
Proof. unary_example_tac sem_snez. Qed.
Example snez_zero_ex : unary_example ISnez «"x"» 0 0.
Proof. unary_example_tac sem_snez. Qed.
Example sltz_neg_ex : unary_example ISltz «"x"» (-5) 1.
Proof. unary_example_tac sem_sltz. Qed.
Example sltz_pos_ex : unary_example ISltz «"x"» 5 0.
Proof. unary_example_tac sem_sltz. Qed.
Example sgtz_neg_ex : unary_example ISgtz «"x"» (-5) 0.
Proof. unary_example_tac sem_sgtz. Qed.
Example sgtz_pos_ex : unary_example ISgtz «"x"» 5 1.
Proof. unary_example_tac sem_sgtz. Qed.

(* destination x0: `seqz zero, t1` with t1 = 0 would write 1 - nothing changes *)
Example seqz_x0_ex :
  forall addr_of : str -> Z, exists n st',
    parse_inst ISeqz (sym «"x"») ([LTok (sym «"zero"»); LTok (sym «"t1"»); LTok nl], None) = Ok (inr n, st') /\
    (exists s', effect addr_of n (st_of [(6%N, 0)]) s') /\
    forall s', effect addr_of n (st_of [(6%N, 0)]) s' -> s' = st_of [(6%N, 0)] /\ rget s' 0 = 0.
Proof.
  intros addr_of.
  pose proof (sem_seqz addr_of (sym «"x"») (sym «"zero"») (sym «"t1"») [LTok nl] None 0%N 6%N eq_refl eq_refl) as [_ H].
  eexists; eexists; split; [vm_compute; reflexivity|].
  split; [eexists; eapply EffIArith; [reflexivity|cbn [alu wv]; reflexivity]|].
  intros s' He. edestruct H as [Hs _]; [vm_compute; reflexivity| |exact He|]; [st_in32|].
  rewrite Hs. split; reflexivity.
Qed.

(* `li a0, lit` on a state where a0 = 7 *)
Definition li_example (lit : str) (z : Z) : Prop :=
  forall addr_of : str -> Z, exists n st',
    parse_inst ILi (sym «"x"») ([LTok (sym «"a0"»); LTok (sym lit); LTok nl], None) = Ok (inr n, st') /\
    tok_imm_val (sym lit) = Ok (Some z) /\ in32 z /\
    (exists s', effect addr_of n (st_of [(10%N, 7)]) s') /\
    forall s', effect addr_of n (st_of [(10%N, 7)]) s' -> rget s' 10 = z /\ rget s' 0 = 0.
Ltac li_example_tac lit z :=
  intros addr_of;
  assert (Hz : tok_imm_val (sym lit) = Ok (Some z)) by (vm_compute; reflexivity);
  assert (Iz : in32 z) by (unf; lia);
  pose proof (sem_li addr_of (sym «"x"») (sym «"a0"») (sym lit) [LTok nl] None 10%N z eq_refl Hz Iz) as [_ H];
  eexists; eexists; split; [vm_compute; reflexivity|];
  split; [exact Hz|]; split; [exact Iz|];
  split;
  [eexists; eapply EffIArith; [reflexivity|cbn [alu wv]; reflexivity]
  |intros s' He;
   edestruct H as [_ [_ Hr]]; [vm_compute; reflexivity| |exact He|]; [st_in32|];
   rewrite !Hr; vm_compute; repeat split; reflexivity].
Example li_hex_ex : li_example «"0x10"» 16.
Proof. li_example_tac «"0x10"» 16. Qed.
Example li_neg_ex : li_example «"-1"» (-1).
Proof. li_example_tac «"-1"» (-1). Qed.
Example li_allones_ex : li_example «"0xffffffff"» (-1).
Proof. li_example_tac «"0xffffffff"» (-1). Qed.
Example li_min_ex : li_example «"-2147483648"» (-2147483648).
Proof. li_example_tac «"-2147483648"» (-2147483648). Qed.

(* the hypothesis in32 z of sem_li is needed: a character token whose code is 2^32 (no lexer produces
   it; the token type of the model allows it) is accepted by `li`, and the machine writes 0 *)
Example li_needs_in32 :
  let t := mktok (TChar 4294967296%N) range0 None in
  tok_imm_val t = Ok (Some 4294967296) /\ ~ in32 4294967296 /\
  forall addr_of : str -> Z, exists n st',
    parse_inst ILi (sym «"x"») ([LTok (sym «"a0"»); LTok t; LTok nl], None) = Ok (inr n, st') /\
    forall s s', effect addr_of n s s' -> s' = rset s 10 0 /\ rset s 10 0 <> rset s 10 (PseudoSpec.li 4294967296).
Proof.
  intros t. split; [vm_compute; reflexivity|]. split; [unf; lia|].
  intros addr_of.
  eexists; eexists; split; [vm_compute; reflexivity|].
  intros s s' He.
  assert (Hs : s' = rset s 10 0).
  { refine (sem_li_wrap addr_of (sym «"x"») (sym «"a0"») t [LTok nl] None 10%N 4294967296 eq_refl _ _ _ _ s s' He);
      vm_compute; reflexivity. }
  split; [exact Hs|]. intros E.
  assert (E' : rget (rset s 10 0) 10 = rget (rset s 10 (PseudoSpec.li 4294967296)) 10) by (rewrite E; reflexivity).
  rewrite !rget_after in E'. vm_compute in E'. discriminate E'.
Qed.

Example nop_ex :
  forall addr_of : str -> Z, exists n st',
    parse_inst INop (sym «"x"») ([LTok nl], None) = Ok (inr n, st') /\
    (exists s', effect addr_of n (st_of [(10%N, 7)]) s') /\
    forall s', effect addr_of n (st_of [(10%N, 7)]) s' -> s' = st_of [(10%N, 7)].
Proof.
  intros addr_of.
  pose proof (sem_nop addr_of (sym «"x"») [LTok nl] None) as [_ H].
  eexists; eexists; split; [vm_compute; reflexivity|].
  split; [eexists; eapply EffIArith; [reflexivity|cbn [alu wv]; reflexivity]|].
  intros s' He. eapply H; [vm_compute; reflexivity|exact He].
Qed.

(* `P t1, loop` with t1 = x, and `P t1, s2, loop` with t1 = x, s2 = y *)
Definition branch1_example (P : inst) (x : Z) (taken : bool) : Prop :=
  exists n st',
    parse_inst P (sym «"x"») ([LTok (sym «"t1"»); LTok (sym «"loop"»); LTok nl], None) = Ok (inr n, st') /\
    match n with
    | PBranch i a b l _ =>
        wv l = «"loop"» /\
        PcSpec.branch_holds (wv i) (rget (st_of [(6%N, x)]) (wv a)) (rget (st_of [(6%N, x)]) (wv b)) = Some taken
    | _ => False
    end.
Definition branch2_example (P : inst) (x y : Z) (taken : bool) : Prop :=
  exists n st',
    parse_inst P (sym «"x"») ([LTok (sym «"t1"»); LTok (sym «"s2"»); LTok (sym «"loop"»); LTok nl], None) = Ok (inr n, st') /\
    match n with
    | PBranch i a b l _ =>
        wv l = «"loop"» /\
        PcSpec.branch_holds (wv i) (rget (st_of [(6%N, x); (18%N, y)]) (wv a)) (rget (st_of [(6%N, x); (18%N, y)]) (wv b)) = Some taken
    | _ => False
    end.
Ltac branch_example_tac := eexists; eexists; split; [vm_compute; reflexivity|vm_compute; split; reflexivity].

Example beqz_neg_ex : branch1_example IBeqz (-5) false. Proof. branch_example_tac. Qed.
Example beqz_zero_ex : branch1_example IBeqz 0 true. Proof. branch_example_tac. Qed.
Example bnez_neg_ex : branch1_example IBnez (-5) true. Proof. branch_example_tac. Qed.
Example bltz_neg_ex : branch1_example IBltz (-5) true. Proof. branch_example_tac. Qed.
Example bgez_neg_ex : branch1_example IBgez (-5) false. Proof. branch_example_tac. Qed.
Example bgez_zero_ex : branch1_example IBgez 0 true. Proof. branch_example_tac. Qed.
Example bgtz_neg_ex : branch1_example IBgtz (-5) false. Proof. branch_example_tac. Qed.
Example bgtz_pos_ex : branch1_example IBgtz 5 true. Proof. branch_example_tac. Qed.
Example blez_neg_ex : branch1_example IBlez (-5) true. Proof. branch_example_tac. Qed.
Example blez_zero_ex : branch1_example IBlez 0 true. Proof. branch_example_tac. Qed.
(* t1 = -1 (unsigned 2^32-1), s2 = 1: signed and unsigned comparisons disagree *)
Example bgt_ex : branch2_example IBgt (-1) 1 false. Proof. branch_example_tac. Qed.
Example ble_ex : branch2_example IBle (-1) 1 true. Proof. branch_example_tac. Qed.
Example bgtu_ex : branch2_example IBgtu (-1) 1 true. Proof. branch_example_tac. Qed.
Example bleu_ex : branch2_example IBleu (-1) 1 false. Proof. branch_example_tac. Qed.

(* the seeded defect `seqz rd, rs = slti rd, rs, 1` (signed compare) is told apart by rs = -5, and
   an unsigned compare for sltz / sgtz by the same operand *)
Example wrong_expansions_differ :
  FoldSpec.eval FoldSpec.Slt (-5) 1 = 1 /\ PseudoSpec.seqz (-5) = 0 /\
  FoldSpec.eval FoldSpec.Sltu (-5) 0 = 0 /\ PseudoSpec.sltz (-5) = 1 /\
  FoldSpec.eval FoldSpec.Sltu 0 (-5) = 1 /\ PseudoSpec.sgtz (-5) = 0.
Proof. vm_compute. repeat split; reflexivity. Qed.
