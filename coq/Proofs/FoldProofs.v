(* C08 — the model of `MathOp::operate` (Model/I32.v) agrees with the RV32IM specification
   (Spec/FoldSpec.v) on every pair of i32 operands, and its result is again an i32.
   One lemma per operator; everything is proved for all operands by algebra on Z. *)
From RV.Model Require Import Base I32.
From RV.Spec Require FoldSpec.
From Coq Require Import ZArith Lia Bool.
Open Scope Z_scope.

Definition spec_op (o : mathop) : FoldSpec.op :=
  match o with
  | MAdd => FoldSpec.Add | MAnd => FoldSpec.And | MOr => FoldSpec.Or | MSll => FoldSpec.Sll
  | MSlt => FoldSpec.Slt | MSltu => FoldSpec.Sltu | MSra => FoldSpec.Sra | MSrl => FoldSpec.Srl
  | MSub => FoldSpec.Sub | MXor => FoldSpec.Xor | MMul => FoldSpec.Mul | MMulh => FoldSpec.Mulh
  | MMulhsu => FoldSpec.Mulhsu | MMulhu => FoldSpec.Mulhu | MDiv => FoldSpec.Div
  | MDivu => FoldSpec.Divu | MRem => FoldSpec.Rem | MRemu => FoldSpec.Remu
  end.

(* -- the spec's vocabulary is the model's ------------------------------------------- *)

Lemma W_two32 : FoldSpec.W = two32.
Proof. reflexivity. Qed.

Lemma pow32_two32 : 2 ^ 32 = two32.
Proof. reflexivity. Qed.

Lemma pow31_two31 : 2 ^ 31 = two31.
Proof. reflexivity. Qed.

Lemma u_eq x : FoldSpec.u x = to_u32 x.
Proof. unfold FoldSpec.u, to_u32. now rewrite W_two32. Qed.

Lemma s_eq a : FoldSpec.s a = wrap32 a.
Proof. unfold FoldSpec.s, wrap32. now rewrite W_two32, pow31_two31. Qed.

Lemma sh_eq y : FoldSpec.sh y = shamt y.
Proof. unfold FoldSpec.sh, shamt. now rewrite u_eq. Qed.

(* `rewrite s_eq` unifies `FoldSpec.s ?a` with `wrap32 _` up to conversion and rewrites the
   wrong subterm, so the spec's vocabulary is replaced by purely syntactic abstraction. *)
Ltac swap_term t E :=
  let v := fresh "v" in let Ev := fresh "Ev" in
  generalize E; generalize t; intros v Ev; subst v.
Ltac to_model :=
  repeat match goal with
  | |- context [FoldSpec.s ?a] => swap_term (FoldSpec.s a) (s_eq a)
  | |- context [FoldSpec.u ?a] => swap_term (FoldSpec.u a) (u_eq a)
  | |- context [FoldSpec.sh ?a] => swap_term (FoldSpec.sh a) (sh_eq a)
  | |- context [FoldSpec.W] => swap_term FoldSpec.W W_two32
  end.
Ltac unf := unfold wrap32, to_u32, in32, i32_min, i32_max, two31, two32 in *.
Ltac dm := Z.div_mod_to_equations; lia.

(* -- wrap32 / to_u32 ---------------------------------------------------------------- *)

Lemma two32_nz : two32 <> 0.
Proof. discriminate. Qed.

Lemma wrap32_in32 a : in32 (wrap32 a).
Proof. unf. destruct (Z.ltb_spec (a mod 4294967296) 2147483648); dm. Qed.

Lemma wrap32_id x : in32 x -> wrap32 x = x.
Proof. intros H. unf. destruct (Z.ltb_spec (x mod 4294967296) 2147483648); dm. Qed.

Lemma wrap32_congr a b : a mod two32 = b mod two32 -> wrap32 a = wrap32 b.
Proof. unfold wrap32. now intros ->. Qed.

Lemma wrap32_mod a : wrap32 a mod two32 = a mod two32.
Proof. unf. destruct (Z.ltb_spec (a mod 4294967296) 2147483648); dm. Qed.

Lemma to_u32_mod x : to_u32 x mod two32 = x mod two32.
Proof. unfold to_u32. apply Z.mod_mod, two32_nz. Qed.

Lemma wrap32_u x : in32 x -> wrap32 (to_u32 x) = x.
Proof.
  intros H. rewrite (wrap32_congr _ x) by apply to_u32_mod. now apply wrap32_id.
Qed.

Lemma u_zero y : in32 y -> (to_u32 y =? 0) = (y =? 0).
Proof.
  intros H. unf.
  destruct (Z.eqb_spec (y mod 4294967296) 0), (Z.eqb_spec y 0); try reflexivity; dm.
Qed.

Lemma shamt_range y : 0 <= shamt y < 32.
Proof. unfold shamt. apply Z.mod_pos_bound. reflexivity. Qed.

Lemma div_in32 x c : 0 < c -> in32 x -> in32 (x / c).
Proof.
  unf. intros Hc [Hl Hh]. split.
  - apply Z.div_le_lower_bound; [exact Hc|]. nia.
  - apply Z.div_le_upper_bound; [exact Hc|]. nia.
Qed.

Lemma pow2_pos k : 0 <= k -> 0 < 2 ^ k.
Proof. intros. apply Z.pow_pos_nonneg; lia. Qed.

(* -- Add, Sub, Mul ------------------------------------------------------------------ *)

Lemma add_ok x y : in32 x -> in32 y ->
  operate MAdd x y = FoldSpec.eval FoldSpec.Add x y /\ in32 (operate MAdd x y).
Proof.
  intros Hx Hy. cbv beta iota delta [operate FoldSpec.eval]. to_model.
  split; [|apply wrap32_in32].
  apply wrap32_congr. unfold to_u32. apply Zplus_mod.
Qed.

Lemma sub_ok x y : in32 x -> in32 y ->
  operate MSub x y = FoldSpec.eval FoldSpec.Sub x y /\ in32 (operate MSub x y).
Proof.
  intros Hx Hy. cbv beta iota delta [operate FoldSpec.eval]. to_model.
  split; [|apply wrap32_in32].
  apply wrap32_congr. unfold to_u32. apply Zminus_mod.
Qed.

Lemma mul_ok x y : in32 x -> in32 y ->
  operate MMul x y = FoldSpec.eval FoldSpec.Mul x y /\ in32 (operate MMul x y).
Proof.
  intros Hx Hy. cbv beta iota delta [operate FoldSpec.eval]. to_model.
  split; [|apply wrap32_in32].
  apply wrap32_congr. unfold to_u32. apply Zmult_mod.
Qed.

(* -- comparisons -------------------------------------------------------------------- *)

Lemma b2z_in32 b : in32 (b2z b).
Proof. destruct b; unf; cbn; lia. Qed.

Lemma slt_ok x y : in32 x -> in32 y ->
  operate MSlt x y = FoldSpec.eval FoldSpec.Slt x y /\ in32 (operate MSlt x y).
Proof.
  intros Hx Hy. cbv beta iota delta [operate FoldSpec.eval]. to_model.
  split; [|apply b2z_in32].
  now rewrite !wrap32_u.
Qed.

Lemma sltu_ok x y : in32 x -> in32 y ->
  operate MSltu x y = FoldSpec.eval FoldSpec.Sltu x y /\ in32 (operate MSltu x y).
Proof.
  intros Hx Hy. cbv beta iota delta [operate FoldSpec.eval]. to_model.
  split; [reflexivity|apply b2z_in32].
Qed.

(* -- shifts ------------------------------------------------------------------------- *)

Lemma sll_ok x y : in32 x -> in32 y ->
  operate MSll x y = FoldSpec.eval FoldSpec.Sll x y /\ in32 (operate MSll x y).
Proof.
  intros Hx Hy. cbv beta iota delta [operate FoldSpec.eval]. to_model.
  split; [|apply wrap32_in32].
  rewrite Z.shiftl_mul_pow2 by apply shamt_range.
  apply wrap32_congr. unfold to_u32.
  now rewrite Z.mul_mod_idemp_l by apply two32_nz.
Qed.

Lemma srl_ok x y : in32 x -> in32 y ->
  operate MSrl x y = FoldSpec.eval FoldSpec.Srl x y /\ in32 (operate MSrl x y).
Proof.
  intros Hx Hy. cbv beta iota delta [operate FoldSpec.eval]. to_model.
  split; [|apply wrap32_in32].
  now rewrite Z.shiftr_div_pow2 by apply shamt_range.
Qed.

Lemma sra_ok x y : in32 x -> in32 y ->
  operate MSra x y = FoldSpec.eval FoldSpec.Sra x y /\ in32 (operate MSra x y).
Proof.
  intros Hx Hy. cbv beta iota delta [operate FoldSpec.eval]. to_model.
  rewrite Z.shiftr_div_pow2 by apply shamt_range.
  rewrite wrap32_u by assumption.
  assert (H : in32 (x / 2 ^ shamt y)).
  { apply div_in32; [|assumption]. apply pow2_pos, shamt_range. }
  split; [|exact H]. symmetry. now apply wrap32_id.
Qed.

(* -- high multiplies ---------------------------------------------------------------- *)

Lemma mulh_ok x y : in32 x -> in32 y ->
  operate MMulh x y = FoldSpec.eval FoldSpec.Mulh x y /\ in32 (operate MMulh x y).
Proof.
  intros Hx Hy. cbv beta iota delta [operate FoldSpec.eval]. to_model.
  split; [|apply wrap32_in32].
  rewrite Z.shiftr_div_pow2 by discriminate. rewrite pow32_two32.
  now rewrite !wrap32_u.
Qed.

Lemma mulhsu_ok x y : in32 x -> in32 y ->
  operate MMulhsu x y = FoldSpec.eval FoldSpec.Mulhsu x y /\ in32 (operate MMulhsu x y).
Proof.
  intros Hx Hy. cbv beta iota delta [operate FoldSpec.eval]. to_model.
  split; [|apply wrap32_in32].
  rewrite Z.shiftr_div_pow2 by discriminate. rewrite pow32_two32.
  now rewrite !wrap32_u.
Qed.

Lemma mulhu_ok x y : in32 x -> in32 y ->
  operate MMulhu x y = FoldSpec.eval FoldSpec.Mulhu x y /\ in32 (operate MMulhu x y).
Proof.
  intros Hx Hy. cbv beta iota delta [operate FoldSpec.eval]. to_model.
  split; [|apply wrap32_in32].
  rewrite Z.shiftr_div_pow2 by discriminate. now rewrite pow32_two32.
Qed.

(* -- division and remainder --------------------------------------------------------- *)

Lemma quot_in32 x y : in32 x -> in32 y -> y <> 0 ->
  ~ (x = - two31 /\ y = -1) -> in32 (Z.quot x y).
Proof.
  unf. intros Hx Hy Hy0 Hov.
  Z.quot_rem_to_equations. nia.
Qed.

Lemma rem_in32 x y : in32 y -> y <> 0 -> in32 (Z.rem x y).
Proof.
  intros Hy Hy0. pose proof (Z.rem_bound_abs x y Hy0) as H. unf. lia.
Qed.

Lemma minus1_in32 : in32 (-1).
Proof. unf. lia. Qed.

Lemma div_ok x y : in32 x -> in32 y ->
  operate MDiv x y = FoldSpec.eval FoldSpec.Div x y /\ in32 (operate MDiv x y).
Proof.
  intros Hx Hy. cbv beta iota delta [operate FoldSpec.eval]. to_model.
  rewrite u_zero by assumption.
  destruct (Z.eqb_spec y 0) as [Hy0|Hy0]; [split; [reflexivity|apply minus1_in32]|].
  split; [|apply wrap32_in32].
  rewrite !wrap32_u by assumption. rewrite pow31_two31.
  destruct (Z.eqb_spec x (- two31)) as [Ex|Ex], (Z.eqb_spec y (-1)) as [Ey|Ey]; cbn [andb].
  - subst. reflexivity.
  - apply wrap32_id, quot_in32; tauto.
  - apply wrap32_id, quot_in32; tauto.
  - apply wrap32_id, quot_in32; tauto.
Qed.

Lemma rem_ok x y : in32 x -> in32 y ->
  operate MRem x y = FoldSpec.eval FoldSpec.Rem x y /\ in32 (operate MRem x y).
Proof.
  intros Hx Hy. cbv beta iota delta [operate FoldSpec.eval]. to_model.
  rewrite u_zero by assumption.
  destruct (Z.eqb_spec y 0) as [Hy0|Hy0].
  { rewrite wrap32_u by assumption. now split. }
  split; [|apply wrap32_in32].
  rewrite !wrap32_u by assumption. rewrite pow31_two31.
  destruct (Z.eqb_spec x (- two31)) as [Ex|Ex], (Z.eqb_spec y (-1)) as [Ey|Ey]; cbn [andb].
  - subst. reflexivity.
  - now apply wrap32_id, rem_in32.
  - now apply wrap32_id, rem_in32.
  - now apply wrap32_id, rem_in32.
Qed.

Lemma divu_ok x y : in32 x -> in32 y ->
  operate MDivu x y = FoldSpec.eval FoldSpec.Divu x y /\ in32 (operate MDivu x y).
Proof.
  intros Hx Hy. cbv beta iota delta [operate FoldSpec.eval]. to_model.
  rewrite u_zero by assumption.
  destruct (Z.eqb_spec y 0) as [Hy0|Hy0].
  - split; [reflexivity|apply minus1_in32].
  - split; [reflexivity|apply wrap32_in32].
Qed.

Lemma remu_ok x y : in32 x -> in32 y ->
  operate MRemu x y = FoldSpec.eval FoldSpec.Remu x y /\ in32 (operate MRemu x y).
Proof.
  intros Hx Hy. cbv beta iota delta [operate FoldSpec.eval]. to_model.
  rewrite u_zero by assumption.
  destruct (Z.eqb_spec y 0) as [Hy0|Hy0].
  - rewrite wrap32_u by assumption. now split.
  - split; [reflexivity|apply wrap32_in32].
Qed.

(* -- bitwise operators -------------------------------------------------------------- *)

(* From bit 31 upwards an i32 only repeats its sign. *)
Lemma in32_high_bits z n : in32 z -> 31 <= n -> Z.testbit z n = (z <? 0).
Proof.
  intros Hz Hn.
  assert (Hn0 : 0 <= n) by lia.
  assert (Hp : two31 <= 2 ^ n).
  { rewrite <- pow31_two31. apply Z.pow_le_mono_r; lia. }
  pose proof (Z.testbit_spec' z n Hn0) as Hb.
  destruct (Z.ltb_spec z 0) as [Hneg|Hpos].
  - assert (E : z / 2 ^ n = -1).
    { symmetry. apply (Z.div_unique z (2 ^ n) (-1) (z + 2 ^ n)); unf; lia. }
    rewrite E in Hb. change ((-1) mod 2) with 1 in Hb.
    destruct (Z.testbit z n); [reflexivity|discriminate].
  - rewrite Z.div_small in Hb by (unf; lia).
    change (0 mod 2) with 0 in Hb.
    destruct (Z.testbit z n); [discriminate|reflexivity].
Qed.

Lemma in32_bits_sat z n : in32 z -> 0 <= n -> Z.testbit z n = Z.testbit z (Z.min n 31).
Proof.
  intros Hz Hn. destruct (Z.le_gt_cases 31 n) as [H|H].
  - rewrite Z.min_r by assumption.
    rewrite (in32_high_bits z n), (in32_high_bits z 31); auto; lia.
  - rewrite Z.min_l by lia. reflexivity.
Qed.

Lemma low_bits_mod a m : m < 32 -> Z.testbit (a mod two32) m = Z.testbit a m.
Proof. intros H. rewrite <- pow32_two32. now apply Z.mod_pow2_bits_low. Qed.

Lemma wrap32_bits w n : 0 <= n -> Z.testbit (wrap32 w) n = Z.testbit w (Z.min n 31).
Proof.
  intros Hn. rewrite (in32_bits_sat (wrap32 w) n) by (auto using wrap32_in32).
  assert (Hm : Z.min n 31 < 32) by lia.
  rewrite <- (low_bits_mod (wrap32 w)) by assumption.
  rewrite wrap32_mod. now apply low_bits_mod.
Qed.

Lemma bitop_ok (f : Z -> Z -> Z) (b : bool -> bool -> bool) x y :
  (forall a c n, Z.testbit (f a c) n = b (Z.testbit a n) (Z.testbit c n)) ->
  in32 x -> in32 y ->
  f x y = wrap32 (f (to_u32 x) (to_u32 y)).
Proof.
  intros Hf Hx Hy. apply Z.bits_inj'. intros n Hn.
  rewrite wrap32_bits by assumption. rewrite !Hf.
  assert (Hm : Z.min n 31 < 32) by lia.
  unfold to_u32. rewrite !low_bits_mod by assumption.
  now rewrite <- !in32_bits_sat.
Qed.

Lemma and_ok x y : in32 x -> in32 y ->
  operate MAnd x y = FoldSpec.eval FoldSpec.And x y /\ in32 (operate MAnd x y).
Proof.
  intros Hx Hy. cbv beta iota delta [operate FoldSpec.eval]. to_model.
  rewrite (bitop_ok Z.land andb x y Z.land_spec Hx Hy).
  split; [reflexivity|apply wrap32_in32].
Qed.

Lemma or_ok x y : in32 x -> in32 y ->
  operate MOr x y = FoldSpec.eval FoldSpec.Or x y /\ in32 (operate MOr x y).
Proof.
  intros Hx Hy. cbv beta iota delta [operate FoldSpec.eval]. to_model.
  rewrite (bitop_ok Z.lor orb x y Z.lor_spec Hx Hy).
  split; [reflexivity|apply wrap32_in32].
Qed.

Lemma xor_ok x y : in32 x -> in32 y ->
  operate MXor x y = FoldSpec.eval FoldSpec.Xor x y /\ in32 (operate MXor x y).
Proof.
  intros Hx Hy. cbv beta iota delta [operate FoldSpec.eval]. to_model.
  rewrite (bitop_ok Z.lxor xorb x y Z.lxor_spec Hx Hy).
  split; [reflexivity|apply wrap32_in32].
Qed.

(* -- all operators ------------------------------------------------------------------ *)

Theorem fold_correct :
  forall (o : mathop) (x y : Z), in32 x -> in32 y ->
    operate o x y = FoldSpec.eval (spec_op o) x y /\ in32 (operate o x y).
Proof.
  intros o x y Hx Hy. destruct o; cbv beta iota delta [spec_op].
  - now apply add_ok.
  - now apply and_ok.
  - now apply or_ok.
  - now apply sll_ok.
  - now apply slt_ok.
  - now apply sltu_ok.
  - now apply sra_ok.
  - now apply srl_ok.
  - now apply sub_ok.
  - now apply xor_ok.
  - now apply mul_ok.
  - now apply mulh_ok.
  - now apply mulhsu_ok.
  - now apply mulhu_ok.
  - now apply div_ok.
  - now apply divu_ok.
  - now apply rem_ok.
  - now apply remu_ok.
Qed.
