(* Location parametricity of the whole analysis pipeline (family "diagnostics depend on what is written,
   not where").  The logical relation and the stage lemmas are in ParamRel / ParamCfg / ParamAvail /
   ParamLive / ParamLints; this file connects the relation with the erasure functions of Spec/ParamSpec.v
   and Spec/ParamPlaceSpec.v and states the end-to-end theorems. *)
From Coq Require Import List ZArith NArith Bool Lia.
From RV.Model Require Import Base I32 Imm Lexer Isa Parser Reader Cfg Avail Live Lints.
From RV.Spec Require Import ParamSpec ParamPlaceSpec.
From RV.Proofs Require Export ParamRel ParamCfg ParamAvail ParamLive ParamLints.
Import ListNotations.
Local Open Scope nat_scope.

(* ---- A. the CFG stages never produce an error without a location ------------------------- *)
Lemma build_nodes_located ns : forall cns pd cur all text acc e,
  build_nodes ns cns pd cur all text acc = inl e -> cfgerr_located e.
Proof.
  induction ns as [|n ns IH]; intros cns pd cur all text acc e; cbn [build_nodes]; [discriminate|].
  destruct (label_of n) as [name|].
  - destruct (mem_name (wv name) all); [intros H; inversion H; exact I|apply IH].
  - destruct (is_datasec n); [apply IH|]. destruct (is_textsec n); [apply IH|]. destruct (is_directive n); [apply IH|].
    destruct (any_in cur cns); apply IH.
Qed.
Lemma cfg_new_located ns pd e : cfg_new ns pd = inl e -> cfgerr_located e.
Proof.
  unfold cfg_new. cbv zeta. destruct (filter _ _) as [|x l].
  - destruct (build_nodes _ _ _ _ _ _ _) eqn:E; [|discriminate]. intros H; inversion H; subst. eapply build_nodes_located; exact E.
  - intros H; inversion H; exact I.
Qed.
Lemma directions_loop_located todo : forall i prev g e, directions_loop todo i prev g = inl e -> cfgerr_located e.
Proof.
  induction todo as [|c todo IH]; intros i prev g e; cbn [directions_loop]; [discriminate|]. cbv zeta.
  destruct (jumps_to (cn c)) as [label|]; [|apply IH].
  destruct (find_label (wv label) g 0); [apply IH|]. intros H; inversion H; exact I.
Qed.
Lemma directions_located g e : directions g = inl e -> cfgerr_located e.
Proof.
  unfold directions. destruct (directions_loop _ _ _ _) eqn:E; [|discriminate].
  intros H; inversion H; subst. eapply directions_loop_located; exact E.
Qed.

Lemma upd_len {A} (l : list A) : forall i f, length (upd l i f) = length l.
Proof. induction l as [|x l IH]; intros [|i] f; cbn; auto. Qed.
Lemma nth_opt_lt_some {A} (l : list A) : forall i, i < length l -> exists x, nth_opt l i = Some x.
Proof.
  induction l as [|x l IH]; intros i Hi; cbn in Hi; [lia|]. destruct i as [|i]; cbn; [eauto|]. apply IH; lia.
Qed.
Lemma fold_left_inv {A B} (Q : A -> Prop) (f : A -> B -> A) l : forall i, Q i -> (forall x c, Q x -> Q (f x c)) -> Q (fold_left f l i).
Proof. induction l as [|c l IH]; intros i Hi Hf; cbn; auto. Qed.

Lemma mf_mark_length fid ns r : length (mf_mark fid ns r) = length ns.
Proof.
  unfold mf_mark. apply (fold_left_inv (fun x => length x = length ns)); [reflexivity|].
  intros x c Hx. rewrite upd_len; exact Hx.
Qed.
Lemma mf_rewrite_length ex rets ns : length (mf_rewrite ex rets ns) = length ns.
Proof.
  unfold mf_rewrite. apply (fold_left_inv (fun x => length x = length ns)); [reflexivity|].
  intros x c Hx. destruct (Nat.eqb c ex); [exact Hx|]. destruct (getn x c); [|exact Hx]. destruct (getn x ex); [|exact Hx].
  cbv zeta. rewrite !upd_len; exact Hx.
Qed.
Lemma mark_function_length g e p g' : mark_function g e p = inr g' -> length (gnodes g') = length (gnodes g).
Proof.
  rewrite mark_function_eq. cbv zeta. destruct (mf_rets _ _) as [|first rest]; [discriminate|].
  match goal with |- inr (mkcfg ?a ?b ?c) = inr g' -> _ =>
    intros H; assert (E : g' = mkcfg a b c) by congruence; rewrite E; clear H E end.
  cbn [gnodes]. rewrite mf_rewrite_length, mf_mark_length. reflexivity.
Qed.
Lemma mark_function_located g e p err : e < length (gnodes g) -> mark_function g e p = inl err -> cfgerr_located err.
Proof.
  intros He. rewrite mark_function_eq. cbv zeta. destruct (mf_rets _ _) as [|first rest]; [|discriminate].
  destruct (nth_opt_lt_some (gnodes g) e He) as [c Hc]. unfold getn. rewrite Hc. intros H; inversion H; exact I.
Qed.
Lemma markup_loop_located entries : forall picks g err, Forall (fun e => e < length (gnodes g)) entries ->
  markup_loop entries picks g = inl err -> cfgerr_located err.
Proof.
  induction entries as [|e es IH]; intros picks g err Hall; cbn [markup_loop]; [discriminate|].
  inversion Hall as [|? ? He Hes]; subst.
  destruct (mark_function g e (hd_opt picks)) as [err'|g'] eqn:E.
  - intros H; inversion H; subst. eapply mark_function_located; eassumption.
  - apply IH. rewrite (mark_function_length _ _ _ _ E). exact Hes.
Qed.
Lemma function_markup_located picks g err : function_markup picks g = inl err -> cfgerr_located err.
Proof.
  unfold function_markup. apply markup_loop_located. unfold function_entries. apply Forall_forall. intros x Hx.
  apply filter_In in Hx. destruct Hx as [Hx _]. apply in_seq in Hx. lia.
Qed.

Lemma gen_full_cfg_located picks ns e : gen_full_cfg picks ns = Ok (SErr e) -> cfgerr_located e.
Proof.
  unfold gen_full_cfg.
  destruct (cfg_new ns None) as [e0|g0] eqn:E0; [intros H; inversion H; subst; eapply cfg_new_located; exact E0|].
  destruct (directions g0) as [e1|g1] eqn:E1; [intros H; inversion H; subst; eapply directions_located; exact E1|].
  destruct (avail_pass g1) as [g2| |]; cbn [bind]; [|discriminate|discriminate]. cbv zeta.
  destruct (cfg_new ns (Some _)) as [e3|h0] eqn:E3; [intros H; inversion H; subst; eapply cfg_new_located; exact E3|].
  destruct (directions h0) as [e4|h1] eqn:E4; [intros H; inversion H; subst; eapply directions_located; exact E4|].
  destruct (avail_pass (dead_code h1)) as [h3| |]; cbn [bind]; [|discriminate|discriminate].
  destruct (function_markup picks _) as [e5|h5] eqn:E5; [intros H; inversion H; subst; eapply function_markup_located; exact E5|].
  destruct (avail_pass h5) as [h6| |]; cbn [bind]; [|discriminate|discriminate].
  destruct (liveness_pass _) as [h8| |]; cbn [bind]; discriminate.
Qed.

(* ---- B. the relation and the erasure functions ------------------------------------------- *)
Section Bridge.
Variable P : loc -> loc -> Prop.

(* B.1 related objects have equal erasures *)
Lemma Rt_erase t1 t2 : Rt P t1 t2 -> erase_tok t1 = erase_tok t2.
Proof. destruct 1; reflexivity. Qed.
Lemma Rw_erase {A} (a b : wth A) : Rw P a b -> erase_w a = erase_w b.
Proof. destruct 1 as [v t1 t2 Ht]. destruct Ht. reflexivity. Qed.
Lemma Rw0_erase {A} (a b : wth A) : Rw0 a b -> erase_w a = erase_w b.
Proof. destruct 1. reflexivity. Qed.
Lemma Rws_erase {A} (l1 l2 : list (wth A)) : Forall2 (Rw P) l1 l2 -> map erase_w l1 = map erase_w l2.
Proof. intros H. apply (F2_map_eq (Rw P)); [exact H|]. intros a b; apply Rw_erase. Qed.
Lemma Rdt_erase d1 d2 : Rdt P d1 d2 -> erase_dirtype d1 = erase_dirtype d2.
Proof.
  destruct 1; cbn; try reflexivity;
    repeat match goal with H : Rw P _ _ |- _ => apply Rw_erase in H; rewrite H; clear H end; try reflexivity.
  rewrite (Rws_erase _ _ H). reflexivity.
Qed.
Lemma Rn_erase n1 n2 : Rn P n1 n2 -> erase_node n1 = erase_node n2.
Proof.
  destruct 1; cbn [erase_node];
    repeat match goal with
           | H : Rw P _ _ |- _ => apply Rw_erase in H; rewrite H; clear H
           | H : Rw0 _ _ |- _ => apply Rw0_erase in H; rewrite H; clear H
           | H : Rdt P _ _ |- _ => apply Rdt_erase in H; rewrite H; clear H
           end; reflexivity.
Qed.
Lemma Rav_erase a1 a2 : Rav P a1 a2 -> erase_aval a1 = erase_aval a2.
Proof. destruct 1 as [l1 l2 Hl|a Ha]; [cbn; rewrite (Rw_erase _ _ Hl)|]; reflexivity. Qed.
Lemma Rkvs_erase {K} (m1 m2 : list (K * aval)) : Forall2 (@Rkv P K) m1 m2 -> map erase_kv m1 = map erase_kv m2.
Proof.
  intros H. apply (F2_map_eq (@Rkv P K)); [exact H|]. intros a b Hab. destruct Hab as [k a1 a2 Ha].
  unfold erase_kv; cbn. rewrite (Rav_erase _ _ Ha). reflexivity.
Qed.
Lemma Rc_erase c1 c2 : Rc P c1 c2 -> erase_cnode c1 = erase_cnode c2.
Proof.
  destruct 1 as [n1 n2 l1 l2 tx nx pv fs ri1 ri2 ro1 ro2 mi1 mi2 mo1 mo2 li lo ud Hn Hl Hri Hro Hmi Hmo].
  unfold erase_cnode; cbn.
  rewrite (Rn_erase _ _ Hn), (Rws_erase _ _ Hl), (Rkvs_erase _ _ Hri), (Rkvs_erase _ _ Hro), (Rkvs_erase _ _ Hmi), (Rkvs_erase _ _ Hmo).
  reflexivity.
Qed.
Lemma Rg_erase g1 g2 : Rg P g1 g2 -> erase_cfg g1 = erase_cfg g2.
Proof.
  destruct 1 as [ns1 ns2 fs lf Hns]. unfold erase_cfg; cbn. f_equal.
  apply (F2_map_eq (Rc P)); [exact Hns|]. apply Rc_erase.
Qed.
Lemma Rerr_erase e1 e2 : Rerr P e1 e2 -> erase_cfgerr e1 = erase_cfgerr e2.
Proof.
  destruct 1; cbn; try reflexivity;
    repeat match goal with
           | H : Rw P _ _ |- _ => apply Rw_erase in H; rewrite H; clear H
           | H : Forall2 (Rw P) _ _ |- _ => apply Rws_erase in H; rewrite H; clear H
           | H : Rn P _ _ |- _ => apply Rn_erase in H; rewrite H; clear H
           end; reflexivity.
Qed.
Lemma Rpe_erase e1 e2 : Rpe P e1 e2 -> erase_perr e1 = erase_perr e2.
Proof.
  destruct 1; cbn;
    repeat match goal with
           | H : Rw P _ _ |- _ => apply Rw_erase in H; rewrite H; clear H
           | H : Rt P _ _ |- _ => apply Rt_erase in H; rewrite H; clear H
           end; reflexivity.
Qed.
Lemma Rd_erase d1 d2 : Rd P d1 d2 -> erase_ditem d1 = erase_ditem d2.
Proof.
  destruct 1 as [k1 k2 l1 l2 o Hk Hl]. unfold erase_ditem; cbn. rewrite (F2_length _ _ _ Hl). f_equal. f_equal.
  destruct Hk as [c|e1 e2 He|e1 e2 He]; cbn; [reflexivity|rewrite (Rpe_erase _ _ He)|rewrite (Rerr_erase _ _ He)]; reflexivity.
Qed.
Lemma Rd_locs d1 d2 : Rd P d1 d2 -> Forall2 P (dlocs d1) (dlocs d2).
Proof. destruct 1; assumption. Qed.

(* B.2 objects with equal erasures, whose corresponding places are related by P, are related *)
Lemma Rt_of_erase t1 t2 : erase_tok t1 = erase_tok t2 -> P (loc_of_tok t1) (loc_of_tok t2) -> Rt P t1 t2.
Proof.
  destruct t1 as [ty1 r1 f1], t2 as [ty2 r2 f2]. unfold erase_tok; cbn. intros E HP. inversion E; subst.
  constructor. exact HP.
Qed.
Lemma Rw_of_erase {A} (a b : wth A) : erase_w a = erase_w b -> P (loc_of_tok (wt a)) (loc_of_tok (wt b)) -> Rw P a b.
Proof.
  destruct a as [v1 t1], b as [v2 t2]. unfold erase_w; cbn [wv wt]. intros E HP. inversion E as [[Ev Et]]; subst.
  constructor. apply Rt_of_erase; [|exact HP]. unfold erase_tok. rewrite Et. reflexivity.
Qed.
Lemma Rw0_of_erase {A} (a b : wth A) : erase_w a = erase_w b -> Rw0 a b.
Proof.
  destruct a as [v1 [ty1 r1 f1]], b as [v2 [ty2 r2 f2]]. unfold erase_w, erase_tok; cbn. intros E. inversion E; subst.
  constructor.
Qed.
Lemma Rr_of_P r1 r2 : P (loc_of_raw r1) (loc_of_raw r2) -> Rr P r1 r2.
Proof. destruct r1, r2. cbn. intros H. constructor. exact H. Qed.

Lemma F2_of_map_eq_idx {A B} (f : A -> B) (R : A -> A -> Prop) l1 : forall l2, map f l1 = map f l2 ->
  (forall i a b, nth_error l1 i = Some a -> nth_error l2 i = Some b -> f a = f b -> R a b) -> Forall2 R l1 l2.
Proof.
  induction l1 as [|x l1 IH]; intros [|y l2] E HR; cbn in E; try discriminate; constructor.
  - inversion E. apply (HR 0); auto.
  - inversion E. apply IH; [assumption|]. intros i a b Ha Hb Hf. apply (HR (S i)); assumption.
Qed.

Ltac ew := first [assumption | unfold erase_w, erase_tok in *; cbn [wv wt tt] in *; congruence].

Lemma Rdt_of_erase d1 d2 dt1 dt2 r1 r2 : erase_dirtype dt1 = erase_dirtype dt2 ->
  (forall s l1 l2, sel_loc s (PDirective d1 dt1 r1) = Some l1 -> sel_loc s (PDirective d2 dt2 r2) = Some l2 -> P l1 l2) ->
  Rdt P dt1 dt2.
Proof.
  intros E Hs. destruct dt1, dt2; cbn in E; try discriminate E; inversion E; subst; try constructor;
    try (apply Rw_of_erase; [ew|apply (Hs (SelDirArg 0)); reflexivity]).
  apply (F2_of_map_eq_idx erase_w); [assumption|]. intros k a b Ha Hb Hab. apply Rw_of_erase; [exact Hab|].
  apply (Hs (SelDirArg k)); cbn; [rewrite Ha|rewrite Hb]; reflexivity.
Qed.

Lemma Rn_of_erase n1 n2 : erase_node n1 = erase_node n2 ->
  (forall s l1 l2, sel_loc s n1 = Some l1 -> sel_loc s n2 = Some l2 -> P l1 l2) -> Rn P n1 n2.
Proof.
  intros E Hs.
  destruct n1, n2; cbn [erase_node] in E; try discriminate E; try (injection E; clear E; intros); subst;
    try (eapply Rn_dir; [| eapply Rdt_of_erase; eassumption |]);
    try constructor;
    match goal with
    | |- Rr P _ _ => apply Rr_of_P; apply (Hs SelNode); reflexivity
    | |- Rw0 _ _ => apply Rw0_of_erase; ew
    | |- Rw P _ _ =>
        apply Rw_of_erase; [ew|];
        first [ apply (Hs SelInst); reflexivity | apply (Hs SelRd); reflexivity | apply (Hs SelRs1); reflexivity
              | apply (Hs SelRs2); reflexivity | apply (Hs SelImm); reflexivity | apply (Hs SelName); reflexivity
              | apply (Hs SelDirTok); reflexivity ]
    end.
Qed.

Lemma Rpe_of_erase e1 e2 : erase_perr e1 = erase_perr e2 -> P (parse_error_loc e1) (parse_error_loc e2) -> Rpe P e1 e2.
Proof.
  intros E HP. destruct e1, e2; cbn in E; try discriminate E; inversion E; subst; constructor;
    first [apply Rt_of_erase; [ew|exact HP] | apply Rw_of_erase; [ew|exact HP]].
Qed.
End Bridge.

Lemma F2_impl {A B} (R S : A -> B -> Prop) l1 l2 : (forall a b, R a b -> S a b) -> Forall2 R l1 l2 -> Forall2 S l1 l2.
Proof. intros HRS H. induction H; constructor; auto. Qed.

(* ---- C. end-to-end theorems ---------------------------------------------------------------- *)
Definition anyloc (_ _ : loc) : Prop := True.

Lemma nodes_rel_any ns1 ns2 : map erase_node ns1 = map erase_node ns2 -> Forall2 (Rn anyloc) ns1 ns2.
Proof.
  intros E. apply (F2_of_map_eq_idx erase_node); [exact E|]. intros i a b _ _ Hab.
  apply Rn_of_erase; [exact Hab|]. intros; exact I.
Qed.
Lemma perrs_rel_any es1 es2 : map erase_perr es1 = map erase_perr es2 -> Forall2 (Rpe anyloc) es1 es2.
Proof.
  intros E. apply (F2_of_map_eq_idx erase_perr); [exact E|]. intros i a b _ _ Hab.
  apply Rpe_of_erase; [exact Hab|exact I].
Qed.

Lemma nodes_rel_place ns1 ns2 es1 es2 : map erase_node ns1 = map erase_node ns2 -> Forall2 (Rn (place ns1 ns2 es1 es2)) ns1 ns2.
Proof.
  intros E. apply (F2_of_map_eq_idx erase_node); [exact E|]. intros i a b Ha Hb Hab.
  apply Rn_of_erase; [exact Hab|]. intros s l1 l2 H1 H2. left. exists i, s, a, b. auto.
Qed.
Lemma perrs_rel_place ns1 ns2 es1 es2 : map erase_perr es1 = map erase_perr es2 -> Forall2 (Rpe (place ns1 ns2 es1 es2)) es1 es2.
Proof.
  intros E. apply (F2_of_map_eq_idx erase_perr); [exact E|]. intros i a b Ha Hb Hab.
  apply Rpe_of_erase; [exact Hab|]. right. exists i, a, b. auto.
Qed.

(* (P1) same nodes and parse errors up to positions/files => same diagnostics up to locations, same failures *)
Theorem run_items_erase : forall picks ns1 ns2 es1 es2,
  map erase_node ns1 = map erase_node ns2 -> map erase_perr es1 = map erase_perr es2 ->
  match run_items picks ns1 es1, run_items picks ns2 es2 with
  | Ok d1, Ok d2 => map erase_ditem d1 = map erase_ditem d2
  | Panic _, Panic _ => True | OutOfFuel, OutOfFuel => True | _, _ => False end.
Proof.
  intros picks ns1 ns2 es1 es2 Hn He.
  pose proof (run_items_rel anyloc picks ns1 ns2 es1 es2 (nodes_rel_any _ _ Hn) (perrs_rel_any _ _ He)
                (gen_full_cfg_located picks ns1)) as H.
  destruct H as [d1 d2 Hd|s|]; [|exact I|exact I].
  apply (F2_map_eq (Rd anyloc)); [exact Hd|]. apply Rd_erase.
Qed.

(* (P2) the graph-level statement: the analysed graphs are equal after erasure, so every fact is identical;
   a CFG error is the same error up to erasure *)
Theorem gen_full_cfg_erase : forall picks ns1 ns2,
  map erase_node ns1 = map erase_node ns2 ->
  match gen_full_cfg picks ns1, gen_full_cfg picks ns2 with
  | Ok (SOk g1), Ok (SOk g2) => erase_cfg g1 = erase_cfg g2
  | Ok (SErr e1), Ok (SErr e2) => erase_cfgerr e1 = erase_cfgerr e2
  | Panic _, Panic _ => True | OutOfFuel, OutOfFuel => True | _, _ => False end.
Proof.
  intros picks ns1 ns2 Hn.
  pose proof (gen_full_cfg_rel anyloc picks ns1 ns2 (nodes_rel_any _ _ Hn)) as H.
  destruct H as [r1 r2 Hr|s|]; [|exact I|exact I].
  destruct Hr as [g1 g2 Hg|e1 e2 He]; [apply (Rg_erase anyloc); exact Hg|apply (Rerr_erase anyloc); exact He].
Qed.

(* the same at every stage boundary (stage numbering of Lints.gen_cfg_upto) *)
Theorem gen_cfg_upto_erase : forall stage picks ns1 ns2,
  map erase_node ns1 = map erase_node ns2 ->
  match gen_cfg_upto stage picks ns1, gen_cfg_upto stage picks ns2 with
  | Ok (SOk g1), Ok (SOk g2) => erase_cfg g1 = erase_cfg g2
  | Ok (SErr e1), Ok (SErr e2) => erase_cfgerr e1 = erase_cfgerr e2
  | Panic _, Panic _ => True | OutOfFuel, OutOfFuel => True | _, _ => False end.
Proof.
  intros stage picks ns1 ns2 Hn.
  pose proof (gen_cfg_upto_rel anyloc stage picks ns1 ns2 (nodes_rel_any _ _ Hn)) as H.
  destruct H as [r1 r2 Hr|s|]; [|exact I|exact I].
  destruct Hr as [g1 g2 Hg|e1 e2 He]; [apply (Rg_erase anyloc); exact Hg|apply (Rerr_erase anyloc); exact He].
Qed.

(* the final graph's facts, one by one: edges, function membership, value maps, live sets *)
Corollary gen_full_cfg_facts : forall picks ns1 ns2 g1 g2,
  map erase_node ns1 = map erase_node ns2 ->
  gen_full_cfg picks ns1 = Ok (SOk g1) -> gen_full_cfg picks ns2 = Ok (SOk g2) ->
  gfuncs g1 = gfuncs g2 /\ glabelfn g1 = glabelfn g2 /\
  Forall2 (fun c1 c2 => erase_node (cn c1) = erase_node (cn c2) /\ map erase_w (clabels c1) = map erase_w (clabels c2) /\
                        ctext c1 = ctext c2 /\ nexts c1 = nexts c2 /\ prevs c1 = prevs c2 /\ cfuncs c1 = cfuncs c2 /\
                        map erase_kv (rin c1) = map erase_kv (rin c2) /\ map erase_kv (rout c1) = map erase_kv (rout c2) /\
                        map erase_kv (min c1) = map erase_kv (min c2) /\ map erase_kv (mout c1) = map erase_kv (mout c2) /\
                        lin c1 = lin c2 /\ lout c1 = lout c2 /\ udef c1 = udef c2) (gnodes g1) (gnodes g2).
Proof.
  intros picks ns1 ns2 g1 g2 Hn E1 E2.
  pose proof (gen_full_cfg_rel anyloc picks ns1 ns2 (nodes_rel_any _ _ Hn)) as H. rewrite E1, E2 in H.
  inversion H as [r1 r2 Hr| |]; subst. inversion Hr as [h1 h2 Hg|]; subst.
  destruct Hg as [n1 n2 fs lf Hns]. cbn. split; [reflexivity|]. split; [reflexivity|].
  eapply F2_impl; [|exact Hns]. intros c1 c2 Hc.
  pose proof (Rc_erase _ _ _ Hc) as Ec. unfold erase_cnode in Ec. inversion Ec. repeat split; assumption.
Qed.

(* (P3) locations: corresponding diagnostics point at the same places of the two inputs *)
Theorem run_items_place : forall picks ns1 ns2 es1 es2,
  map erase_node ns1 = map erase_node ns2 -> map erase_perr es1 = map erase_perr es2 ->
  match run_items picks ns1 es1, run_items picks ns2 es2 with
  | Ok d1, Ok d2 =>
      map erase_ditem d1 = map erase_ditem d2 /\
      Forall2 (fun a b => Forall2 (place ns1 ns2 es1 es2) (dlocs a) (dlocs b)) d1 d2
  | Panic _, Panic _ => True | OutOfFuel, OutOfFuel => True | _, _ => False end.
Proof.
  intros picks ns1 ns2 es1 es2 Hn He.
  pose proof (run_items_rel (place ns1 ns2 es1 es2) picks ns1 ns2 es1 es2 (nodes_rel_place _ _ es1 es2 Hn)
                (perrs_rel_place ns1 ns2 _ _ He) (gen_full_cfg_located picks ns1)) as H.
  destruct H as [d1 d2 Hd|s|]; [|exact I|exact I]. split.
  - apply (F2_map_eq (Rd (place ns1 ns2 es1 es2))); [exact Hd|]. apply Rd_erase.
  - eapply F2_impl; [|exact Hd]. intros a b Hab. apply Rd_locs; exact Hab.
Qed.

(* the general form: any relation between locations that holds at the places of the inputs holds at the
   locations of corresponding diagnostics *)
Theorem run_items_parametric : forall (P : loc -> loc -> Prop) picks ns1 ns2 es1 es2,
  Forall2 (Rn P) ns1 ns2 -> Forall2 (Rpe P) es1 es2 ->
  rel_res (Forall2 (Rd P)) (run_items picks ns1 es1) (run_items picks ns2 es2).
Proof.
  intros P picks ns1 ns2 es1 es2 Hn He. apply run_items_rel; [exact Hn|exact He|apply gen_full_cfg_located].
Qed.
